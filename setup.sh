#!/bin/sh
# Offline setup: build the Lean model, theorems and the core-only driver executable.
set -e
cd "$(dirname "$0")/lean"
lake build
