import Driver.Util
import Driver.Object
import Model.GoUrl

/- Driver ops for jtp (C03, C04, C05). -/
open Lean Drv

namespace Ops

def optStr (o : Option Str) : Json := match o with | some s => js s | none => Json.null

def jtpLineOp (op : String) (j : Json) : Except String Res := do
  let s ← str j "s"
  match op with
  | "statusline" => pure { model := optStr (Jtp.parseStatusLine s), nontrivial := (Jtp.parseStatusLine s).isSome }
  | "ctline" =>
    let m := match Jtp.parseContentType s with
      | .notCT => Json.arr #[false, true, ""]
      | .bad => Json.arr #[true, false, ""]
      | .ok m => Json.arr #[true, true, js m.essence]
    pure { model := m }
  | "locline" => pure { model := optStr (Jtp.headerValue "location".toList s) }
  | _ =>
    let tol ← strList j "tolerated"
    pure { model := Json.bool (Jtp.validateHeaders tol (s.length + 1) s false).isSome }

structure Doc where
  stamp : Str
  tree : Option JVal := none

/-- Build the `Env` of an op from the world description and the oracle tables; `healed` = the same
    servers after every fault has been taken away (a `@heal` step of the sequence). -/
def envOf (j : Json) (healed : Bool := false) : Except String (Jtp.Env Doc) := do
  let worldA ← arr j (if healed then "world_healed" else "world")
  let world ← worldA.toList.mapM fun r => do
    pure ((← str r "key"), (← str r "resp"), (← str r "fault"))
  let hosts ← strList j "hosts"
  let resolveA ← arr j "resolve"
  let resolve ← resolveA.toList.mapM fun r => do
    let p ← r.getArr?
    let b ← (p[0]?.getD Json.null).getStr?
    let v ← (p[1]?.getD Json.null).getStr?
    let t : Option Str := match p[2]? with | some (Json.str s) => some s.toList | _ => none
    pure (b.toList, v.toList, t)
  let decodeA ← arr j "decode"
  let decode ← decodeA.toList.mapM fun r => do
    let p ← r.getArr?
    let b ← (p[0]?.getD Json.null).getStr?
    let d : Option Doc := match p[1]? with
      | some o => match o.getObjVal? "stamp" with
        | .ok (Json.str s) =>
          let t : Option JVal := match o.getObjVal? "tree" with
            | .ok tj => (toJVal tj).toOption
            | _ => none
          some ⟨s.toList, t⟩
        | _ => match o.getObjVal? "null" with
          | .ok _ => some ⟨"<nullmap>".toList, none⟩
          | _ => none
      | none => none
    pure (b.toList, d)
  let urltable ← j.getObjVal? "urltable"
  let fieldOf (u : Str) (k : String) : Str := match urltable.getObjVal? (String.ofList u) with
    | .ok rec => match rec.getObjVal? k with | .ok (Json.str s) => s.toList | _ => []
    | _ => []
  let schemeOf (u : Str) : Str := fieldOf u "scheme"
  -- the listener a connection to the URL's host and port arrives at (an oracle of the harness:
  -- name resolution, letter case, the https default port); older ops carry the host only
  let reachOf (u : Str) : Str := match urltable.getObjVal? (String.ofList u) with
    | .ok rec => match rec.getObjVal? "reach" with
      | .ok (Json.str s) => s.toList
      | _ => fieldOf u "host"
    | _ => []
  let hostFaults : List Str := if healed then [] else match j.getObjVal? "hostfaults" with
    | .ok (Json.arr a) => a.toList.filterMap fun hf =>
        match hf.getObjVal? "h" with
        | .ok v => (v.getNat?).toOption.bind fun i => hosts[i]?
        | _ => none
    | _ => []
  pure { https := fun u => schemeOf u = "https".toList,
         serve := fun u =>
           -- the connection goes to the URL's host; the route is looked up by request target
           let host := reachOf u
           let uri := fieldOf u "uri"
           let pathOnly := uri.takeWhile (· != '?')
           if !hosts.contains host || hostFaults.contains host then none   -- dial / handshake fails
           else match world.find? (fun r => r.1 = host ++ ' ' :: uri) with
             | some (_, resp, fault) => if fault.isEmpty then some resp else none
             | none =>
               match world.find? (fun r => uri.contains '?' && r.1 = host ++ ' ' :: (pathOnly ++ ['?', '*'])) with
               | some (_, resp, fault) => if fault.isEmpty then some resp else none
               | none => some "HTTP/1.0 404 Not Found\r\nContent-Type: text/plain\r\n\r\nno route".toList,
         resolve := fun b v => match resolve.find? (fun r => r.1 = b ∧ r.2.1 = v) with
           | some (_, _, t) => t
           | none => none,
         decode := fun body => match decode.find? (fun r => r.1 = body) with
           | some (_, d) => d
           | none => none }

def fetchSeqOp (j : Json) : Except String Res := do
  let env ← envOf j
  let tol ← strList j "tolerated"
  let budget ← nat j "budget"
  let accept ← str j "accept"
  let targets ← strList j "targets"
  let cap := ((j.getObjVal? "cachesize").toOption.bind (·.getNat?.toOption)).getD 128
  let urltable ← j.getObjVal? "urltable"
  let field (u : Str) (k : String) : Str := match urltable.getObjVal? (String.ofList u) with
    | .ok rec => match rec.getObjVal? k with | .ok (Json.str s) => s.toList | _ => []
    | _ => []
  let impl := (j.getObjVal? "impl").toOption.getD Json.null
  let implRounds : List Json := match impl with | Json.arr a => a.toList | _ => []
  let reach (u : Str) : Str := match urltable.getObjVal? (String.ofList u) with
    | .ok rec => match rec.getObjVal? "reach" with
      | .ok (Json.str s) => s.toList
      | _ => field u "host"
    | _ => []
  let envHealed ← envOf j true
  let mut env := env
  -- tolerated types a step brought along (otherwise the op's)
  let perTol : List (Option (List Str)) := match j.getObjVal? "tolerated_per" with
    | .ok (Json.arr a) => a.toList.map fun v => match v with
      | Json.arr xs => some (xs.toList.filterMap fun x => match x with | Json.str s => some s.toList | _ => none)
      | _ => none
    | _ => []
  let mut step := 0
  let mut cache : Jtp.Cache Doc := { cap := cap }
  let mut out : Array Json := #[]
  let mut hops := 0
  let mut okReq := true
  let lossy : Bool := match j.getObjVal? "world" with
    | .ok (Json.arr a) => a.any fun r => (r.getObjVal? "lossy").toOption == some (Json.bool true)
    | _ => false
  let mut transparent := true
  for (t, ir) in targets.zip implRounds do
    let tol := ((perTol[step]?).getD none).getD tol
    step := step + 1
    if t == "@heal".toList then
      env := envHealed
      out := out.push (Json.mkObj [("healed", true)])
      continue
    -- the cache key is link.String()
    let key := field t "str"
    if (urltable.getObjVal? (String.ofList t)).toOption == some Json.null then
      out := out.push (Json.mkObj [("badurl", true)])
      continue
    let st := Jtp.get env tol budget cache (if key.isEmpty then t else key)
    cache := st.cache
    hops := hops + st.requests.length
    let res := match st.res with
      | .ok d src => Json.mkObj [("ok", Json.mkObj [("src", js src), ("stamp", js d.stamp)])]
      | .err => Json.mkObj [("err", true)]
    -- a failed dial / handshake never reaches the simulator's request log
    let reqs := (st.requests.filter fun u => (env.serve u).isSome).map fun u =>
      Json.arr #[js (reach u), js (Jtp.request (field u "uri") (field u "host") accept)]
    -- after a TCP reset the kernel may discard bytes the client had not read yet: an error is
    -- then also a correct outcome (never a different document)
    let implErr := match ir.getObjVal? "err" with | .ok _ => true | _ => false
    if lossy && implErr then
      out := out.push ir
      continue
    out := out.push (res.setObjVal! "requests" (Json.arr reqs.toArray))
    -- cache transparency on the implementation's output: what it returned equals what a fetch
    -- with an empty cache returns in this world
    let cold := Jtp.get env tol budget { cap := cap } (if key.isEmpty then t else key)
    let coldJ := match cold.res with
      | .ok d src => Json.mkObj [("ok", Json.mkObj [("src", js src), ("stamp", js d.stamp)])]
      | .err => Json.mkObj [("err", true)]
    let implRes := match ir.getObjVal? "ok" with
      | .ok v => Json.mkObj [("ok", v)]
      | _ => Json.mkObj [("err", true)]
    transparent := transparent && (implRes == coldJ)
    -- C04 predicate on the recorded bytes: every request the simulator received is exactly one
    -- well-formed GET with Host and Accept and nothing else
    let recorded : List Str := match ir.getObjVal? "requests" with
      | .ok (Json.arr a) => a.toList.filterMap fun p => match p with
        | Json.arr q => match q[1]? with | some (Json.str s) => some s.toList | _ => none
        | _ => none
      | _ => []
    okReq := okReq && recorded.all fun raw =>
      let lines := (String.ofList raw).splitOn "\r\n"
      lines.length == 5 && (lines[0]?.getD "").startsWith "GET " && (lines[0]?.getD "").endsWith " HTTP/1.0" &&
      (lines[1]?.getD "").startsWith "Host: " && (lines[2]?.getD "").startsWith "Accept: " &&
      lines[3]? == some "" && lines[4]? == some "" &&
      -- no stray line terminator inside a line either
      lines.all fun l => !(l.toList.contains '\n' || l.toList.contains '\r')
  -- C05: every fetch returns within (connections + 1) · (dial timeout + deadline) plus slack
  let timeoutS := ((j.getObjVal? "timeout_s").toOption.bind (·.getNat?.toOption)).getD 0
  let msA : List Nat := match j.getObjVal? "ms" with
    | .ok (Json.arr a) => a.toList.map fun v => (v.getNat?).toOption.getD 0
    | _ => []
  let reqCounts : List Nat := implRounds.map fun ir => match ir.getObjVal? "requests" with
    | .ok (Json.arr a) => a.size
    | _ => 0
  let timely := timeoutS == 0 || (msA.zip reqCounts).all fun (ms, n) => ms ≤ (n + 1) * (2 * timeoutS * 1000) + 1500
  let canary := ((j.getObjVal? "canaryhits").toOption.bind (·.getNat?.toOption)).getD 0
  -- no TLS handshake of the exchange resumed an earlier session (no ticket was offered)
  let resumed := ((j.getObjVal? "resumed").toOption.bind (·.getNat?.toOption)).getD 0
  -- strip timing from the implementation's rounds happens in the harness-independent comparison:
  pure { model := Json.arr out,
         preds := [("same_result_as_cold_cache", transparent), ("returns_within_time_bound", timely), ("requests_wellformed", okReq), ("no_plaintext_connection", canary == 0),
                   ("no_session_resumption", resumed == 0)],
         nontrivial := hops ≥ 2 }

end Ops

namespace Ops

/-- op "fetchsame": several simultaneous askers of one URL.  Predicate-only: they all get the same
    answer, each within the time one fetch of that chain may take (dial timeout + deadline of its one
    faulty connection) plus slack — not the sum over the askers. -/
def fetchSameOp (j : Json) : Except String Res := do
  let impl := (j.getObjVal? "impl").toOption.getD Json.null
  let results : List Json := match impl.getObjVal? "results" with | .ok (Json.arr a) => a.toList | _ => []
  let ms : List Nat := match impl.getObjVal? "ms" with
    | .ok (Json.arr a) => a.toList.map fun v => (v.getNat?).toOption.getD 0
    | _ => []
  let timeoutS := ((j.getObjVal? "timeout_s").toOption.bind (·.getNat?.toOption)).getD 0
  -- askers of one kind get one answer; with document fetches and webfinger lookups mixed, a fetch
  -- is refused (the JRD's media type is not one a document fetch tolerates) and a lookup answers
  let kindOf (r : Json) : String := ((r.getObjVal? "kind").toOption.bind (·.getStr?.toOption)).getD "fetch"
  let sameKind (k : String) : Bool := match results.filter (kindOf · == k) with
    | [] => true
    | r :: rest => rest.all (· == r)
  let expectLookup := (j.getObjVal? "expect_lookup").toOption
  let ownOk := match expectLookup with
    | none => true
    | some link => results.all fun r =>
        if kindOf r == "lookup" then (r.getObjVal? "ok").toOption == some link
        else (r.getObjVal? "err").toOption == some (Json.bool true)
  let agree := sameKind "fetch" && sameKind "lookup"
  -- exactly one connection of the chain is slow or silent (the generator made it so): one dial
  -- timeout plus one deadline, whatever the number of askers
  let timely := timeoutS == 0 || ms.all fun t => t ≤ 2 * timeoutS * 1000 + 1500
  pure { model := impl, preds := [("same_answer_for_all_askers", agree), ("each_asker_gets_its_own_kind_of_answer", ownOk), ("returns_within_time_bound", timely)],
         nontrivial := results.length ≥ 2 }

/-- op "par": functions of their input run alone and then all at once; predicate-only: the answers
    are the same. -/
def parOp (j : Json) : Except String Res := do
  let impl := (j.getObjVal? "impl").toOption.getD Json.null
  let agree := (impl.getObjVal? "agree").toOption == some (Json.bool true)
  pure { model := impl, preds := [("same_answer_when_called_concurrently", agree)], nontrivial := true }

/-- Several webfinger lookups at once: every request is the webfinger query of an account looked
    up at the host the connection arrived at, with that host in its Host header. -/
def wfParOp (j : Json) : Except String Res := do
  let impl := (j.getObjVal? "impl").toOption.getD Json.null
  let accept ← str j "accept"
  let queries := (j.getObjVal? "queries").toOption.getD Json.null
  let reqs : List (String × Str) := match impl.getObjVal? "requests" with
    | .ok (Json.arr a) => a.toList.filterMap fun p => match p with
      | Json.arr q => match q[0]?, q[1]? with
        | some (Json.str h), some (Json.str s) => some (h, s.toList)
        | _, _ => none
      | _ => none
    | _ => []
  let own := reqs.all fun (host, raw) =>
    match queries.getObjVal? host with
    | .ok (Json.arr qs) => qs.toList.any fun q => match q with
      | Json.str q => raw == Jtp.request ("/.well-known/webfinger?".toList ++ q.toList) host.toList accept
      | _ => false
    | _ => false
  let canary := ((j.getObjVal? "canaryhits").toOption.bind (·.getNat?.toOption)).getD 0
  pure { model := impl,
         preds := [("each_request_is_the_query_of_its_own_host", own), ("no_plaintext_connection", canary == 0)],
         nontrivial := reqs.length ≥ 2 }

/-- `client.ResolveWebfinger`: the request it issues and how it reads the JRD answer. -/
def webfingerOp (j : Json) : Except String Res := do
  let impl := (j.getObjVal? "impl").toOption.getD Json.null
  let accept ← str j "accept"
  let canary := ((j.getObjVal? "canaryhits").toOption.bind (·.getNat?.toOption)).getD 0
  let recorded : List Str := match impl.getObjVal? "requests" with
    | .ok (Json.arr a) => a.toList.filterMap fun p => match p with
      | Json.arr q => match q[1]? with | some (Json.str s) => some s.toList | _ => none
      | _ => none
    | _ => []
  -- the only request it may issue: GET /.well-known/webfinger?<encoded query> to the handle's domain
  let expected : Option Str := match j.getObjVal? "query", j.getObjVal? "domain" with
    | .ok (Json.str q), .ok (Json.str d) =>
      some (Jtp.request ("/.well-known/webfinger?".toList ++ q.toList) d.toList accept)
    | _, _ => none
  let wellFormed := recorded.all fun raw =>
    let lines := (String.ofList raw).splitOn "\r\n"
    lines.length == 5 && lines[3]? == some "" && lines[4]? == some ""
  let asExpected := recorded.all fun raw => some raw == expected
  -- the semantics library the translated `ResolveWebfinger` targets (Model/GoUrl.lean: strings.SplitN,
  -- url.Values.Encode, url.QueryEscape transcribed) against the real library: the handle split at its
  -- first `@` and encoded in Lean is the query the real `url.Values` produced
  let transcribed : Bool := match j.getObjVal? "handle_sub", j.getObjVal? "query" with
    | .ok (Json.str h), .ok (Json.str q) =>
      match Go.Strings.splitNChar h.toList '@' 2 with
      | [u, d] => Go.Url.valuesEncode [(Go.str "resource", [((Go.str "acct:" ++ u) ++ Go.str "@") ++ d])] == q.toList
      | _ => false
    | .ok (Json.str h), _ => (Go.Strings.splitNChar h.toList '@' 2).length != 2
    | _, _ => true
  -- the model does not predict success (DNS/TLS decide whether the hand-built host is reachable):
  -- it states what may be on the wire if anything is
  -- when the lookup reached the simulator, the answer is read the way the model reads it
  let predicted : Option Json :=
    if recorded.length != 1 then none
    else match (j.getObjVal? "jrd").toOption with
      | some t => match toJVal t with
        | .ok (.obj o) => some (match Pub.webfingerLink o with
            | .ok l => Json.mkObj [("ok", js l), ("requests", (impl.getObjVal? "requests").toOption.getD Json.null)]
            | .error _ => Json.mkObj [("err", true), ("requests", (impl.getObjVal? "requests").toOption.getD Json.null)])
        | _ => none
      | none => none
  pure { model := predicted.getD impl,
         preds := [("requests_wellformed", wellFormed), ("request_is_the_webfinger_query", asExpected),
                   ("at_most_one_request", recorded.length ≤ 1), ("no_plaintext_connection", canary == 0),
                   ("query_is_the_transcribed_encoding", transcribed)],
         nontrivial := !recorded.isEmpty }

end Ops
