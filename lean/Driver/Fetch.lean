import Driver.Util

/- Driver ops for jtp (C03, C04, C05). -/
open Lean Drv

namespace Ops

def optStr (o : Option Str) : Json := match o with | some s => js s | none => Json.null

def jtpLineOp (op : String) (j : Json) : Except String Res := do
  let s ← str j "s"
  match op with
  | "statusline" => pure { model := optStr (Jtp.parseStatusLine s), nontrivial := (Jtp.parseStatusLine s).isSome }
  | "ctline" =>
    let m := match Jtp.parseContentType s with
      | .notCT => Json.arr #[false, true, ""]
      | .bad => Json.arr #[true, false, ""]
      | .ok m => Json.arr #[true, true, js m.essence]
    pure { model := m }
  | "locline" => pure { model := optStr (Jtp.headerValue "location".toList s) }
  | _ =>
    let tol ← strList j "tolerated"
    pure { model := Json.bool (Jtp.validateHeaders tol (s.length + 1) s false).isSome }

structure Doc where
  stamp : Str
  deriving Repr

/-- Build the `Env` of an op from the world description and the oracle tables. -/
def envOf (j : Json) : Except String (Jtp.Env Doc) := do
  let worldA ← arr j "world"
  let world ← worldA.toList.mapM fun r => do
    pure ((← str r "url"), (← str r "resp"), (← str r "fault"))
  let resolveA ← arr j "resolve"
  let resolve ← resolveA.toList.mapM fun r => do
    let p ← r.getArr?
    let b ← (p[0]?.getD Json.null).getStr?
    let v ← (p[1]?.getD Json.null).getStr?
    let t : Option Str := match p[2]? with | some (Json.str s) => some s.toList | _ => none
    pure (b.toList, v.toList, t)
  let decodeA ← arr j "decode"
  let decode ← decodeA.toList.mapM fun r => do
    let p ← r.getArr?
    let b ← (p[0]?.getD Json.null).getStr?
    let d : Option Doc := match p[1]? with
      | some o => match o.getObjVal? "stamp" with
        | .ok (Json.str s) => some ⟨s.toList⟩
        | _ => match o.getObjVal? "null" with
          | .ok _ => some ⟨"<nullmap>".toList⟩
          | _ => none
      | none => none
    pure (b.toList, d)
  let urltable ← j.getObjVal? "urltable"
  let schemeOf (u : Str) : Str := match urltable.getObjVal? (String.ofList u) with
    | .ok rec => match rec.getObjVal? "scheme" with | .ok (Json.str s) => s.toList | _ => []
    | _ => []
  pure { https := fun u => schemeOf u = "https".toList,
         serve := fun u => match world.find? (fun r => r.1 = u) with
           | some (_, resp, fault) => if fault.isEmpty then some resp else none
           | none => some "HTTP/1.0 404 Not Found\r\nContent-Type: text/plain\r\n\r\nno route".toList,
         resolve := fun b v => match resolve.find? (fun r => r.1 = b ∧ r.2.1 = v) with
           | some (_, _, t) => t
           | none => none,
         decode := fun body => match decode.find? (fun r => r.1 = body) with
           | some (_, d) => d
           | none => none }

def fetchSeqOp (j : Json) : Except String Res := do
  let env ← envOf j
  let tol ← strList j "tolerated"
  let budget ← nat j "budget"
  let accept ← str j "accept"
  let targets ← strList j "targets"
  let cap := ((j.getObjVal? "cachesize").toOption.bind (·.getNat?.toOption)).getD 128
  let urltable ← j.getObjVal? "urltable"
  let field (u : Str) (k : String) : Str := match urltable.getObjVal? (String.ofList u) with
    | .ok rec => match rec.getObjVal? k with | .ok (Json.str s) => s.toList | _ => []
    | _ => []
  let impl := (j.getObjVal? "impl").toOption.getD Json.null
  let implRounds : List Json := match impl with | Json.arr a => a.toList | _ => []
  let mut cache : Jtp.Cache Doc := { cap := cap }
  let mut out : Array Json := #[]
  let mut hops := 0
  let mut okReq := true
  let mut transparent := true
  for (t, ir) in targets.zip implRounds do
    -- the cache key is link.String()
    let key := field t "str"
    let st := Jtp.get env tol budget cache (if key.isEmpty then t else key)
    cache := st.cache
    hops := hops + st.requests.length
    let res := match st.res with
      | .ok d src => Json.mkObj [("ok", Json.mkObj [("src", js src), ("stamp", js d.stamp)])]
      | .err => Json.mkObj [("err", true)]
    let reqs := st.requests.map fun u =>
      Json.arr #[js (field u "host"), js (Jtp.request (field u "uri") (field u "host") accept)]
    out := out.push (res.setObjVal! "requests" (Json.arr reqs.toArray))
    -- cache transparency on the implementation's output: what it returned equals what a fetch
    -- with an empty cache returns in this world
    let cold := Jtp.get env tol budget { cap := cap } (if key.isEmpty then t else key)
    let coldJ := match cold.res with
      | .ok d src => Json.mkObj [("ok", Json.mkObj [("src", js src), ("stamp", js d.stamp)])]
      | .err => Json.mkObj [("err", true)]
    let implRes := match ir.getObjVal? "ok" with
      | .ok v => Json.mkObj [("ok", v)]
      | _ => Json.mkObj [("err", true)]
    transparent := transparent && (implRes == coldJ)
    -- C04 predicate on the recorded bytes: every request the simulator received is exactly one
    -- well-formed GET with Host and Accept and nothing else
    let recorded : List Str := match ir.getObjVal? "requests" with
      | .ok (Json.arr a) => a.toList.filterMap fun p => match p with
        | Json.arr q => match q[1]? with | some (Json.str s) => some s.toList | _ => none
        | _ => none
      | _ => []
    okReq := okReq && recorded.all fun raw =>
      let lines := (String.ofList raw).splitOn "\r\n"
      lines.length == 5 && (lines[0]?.getD "").startsWith "GET " && (lines[0]?.getD "").endsWith " HTTP/1.0" &&
      (lines[1]?.getD "").startsWith "Host: " && (lines[2]?.getD "").startsWith "Accept: " &&
      lines[3]? == some "" && lines[4]? == some ""
  let canary := ((j.getObjVal? "canaryhits").toOption.bind (·.getNat?.toOption)).getD 0
  -- strip timing from the implementation's rounds happens in the harness-independent comparison:
  pure { model := Json.arr out,
         preds := [("same_result_as_cold_cache", transparent), ("requests_wellformed", okReq), ("no_plaintext_connection", canary == 0)],
         nontrivial := hops ≥ 2 }

end Ops
