import Driver.Util
import Model.GoJson

/- Driver op for the floating-point semantics the translated `GetNumber` is interpreted with. -/

namespace Ops
open Lean Drv

def f64semOp (j : Json) : Except String Res := do
  let bits ← nat j "bits"
  let inRange := !Go.f64ltNat bits 0 && !Go.f64geNat bits 18446744073709551616 && !F64.isNaN bits
  let fields : List (String × Json) :=
    (if F64.isNaN bits then [] else [("trunc", Json.num (Go.f64trunc bits : Nat))]) ++
    [("ne", Json.bool (Go.f64ne bits (Go.f64trunc bits))),
     ("lt0", Json.bool (Go.f64ltNat bits 0)), ("lt1", Json.bool (Go.f64ltNat bits 1)),
     ("ge1", Json.bool (Go.f64geNat bits 1)), ("ge", Json.bool (Go.f64geNat bits 18446744073709551616)),
     ("ge63", Json.bool (Go.f64geNat bits 9223372036854775808))] ++
    (if inRange then [("u64", Json.num (Go.f64toUint64 bits : Nat))] else [])
  pure { model := Json.mkObj fields, nontrivial := F64.expo bits ≠ 2047 }

end Ops
