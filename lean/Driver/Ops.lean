import Driver.Util
import Driver.Containers
import Driver.Object
import Driver.Render
import Driver.Fetch
import Driver.StyleOps
import Driver.PubOps
import Driver.UiOps
import Driver.PresentOps
import Driver.MediaOps
import Driver.F64Ops

/-
  One function per op of the line protocol.  Each takes the op's JSON (which also carries the
  implementation's output under "impl") and returns the model's output plus the property
  predicates evaluated on the implementation's output.
-/
open Lean Drv Str

namespace Ops

def cellJson (m : Ansi.RawCell) : Json :=
  Json.arr #[js m.pre, js [m.letter], js m.full]

def ansiOp (op : String) (j : Json) : Except String Res := do
  match op with
  | "expand" =>
    let s ← str j "s"
    let cells := Ansi.expand s
    pure { model := Json.arr (cells.map cellJson).toArray,
           preds := [("collapse_expand", Ansi.collapse cells = s)],
           nontrivial := cells.any fun m => !m.pre.isEmpty }
  | "apply" =>
    let s ← str j "s"; let st ← str j "style"
    pure { model := js (Ansi.apply s st) }
  | "indent" =>
    let s ← str j "s"; let p ← str j "prefix"; let b ← bool j "first"
    -- the promised shape, on what is displayed: the prefix (at the start if asked, and) after every
    -- line break — also after the last one
    let out := implStr j
    let wf (x : Str) : Bool := !(Safe.strip x).contains (Char.ofNat 27)
    let shown := Safe.strip s
    let pre := Safe.strip p
    let expected := (if b then pre else []) ++ (shown.flatMap fun c => if c = '\n' then '\n' :: pre else [c])
    let shapeOk := !(implIsStr j && wf s && wf p) || Safe.strip out = expected
    pure { model := js (Ansi.indent s p b), preds := [("indent_prefix_after_every_break", shapeOk)] }
  | "pad" =>
    let s ← str j "s"; let w ← int j "w"
    let out := implStr j
    let canon ← bool j "canon"
    let okShape := (splitNL out).all fun l => decide ((AnsiSpec.visLen l : Int) ≥ w)
    pure { model := js (Ansi.pad s w),
           preds := if canon then [("pad_min_width", okShape)] else [],
           nontrivial := (splitNL s).any fun l => decide ((AnsiSpec.visLen l : Int) < w) }
  | "wrap" =>
    let s ← str j "s"; let w ← int j "w"
    let canon ← bool j "canon"
    let out := implStr j
    let inCells := Ansi.expand s
    let outCells := Ansi.expand out
    let preds :=
      if canon && w ≥ 1 then
        [("wrap_width", AnsiSpec.linesWithin w out),
         ("wrap_keeps_visible", AnsiSpec.visible inCells = AnsiSpec.visible outCells),
         ("wrap_keeps_breaks", AnsiSpec.leAll (AnsiSpec.gaps inCells) (AnsiSpec.gaps outCells)),
         ("wrap_word_intact", AnsiSpec.brokenShortWords w inCells (Ansi.cellLines outCells) = 0)]
      else []
    pure { model := js (Ansi.wrap s w), preds := preds,
           nontrivial := (splitNL s).any fun l => decide ((AnsiSpec.visLen l : Int) > w) }
  | "dumbwrap" =>
    let s ← str j "s"; let w ← int j "w"
    let canon ← bool j "canon"
    let out := implStr j
    let preds :=
      if canon && w ≥ 1 then
        [("dumbwrap_width", AnsiSpec.linesWithin w out),
         ("dumbwrap_keeps_all",
            ((Ansi.expand out).map fun m => (m.pre, m.letter)).filter (fun x => x.2 != '\n') =
            ((Ansi.expand s).map fun m => (m.pre, m.letter)).filter (fun x => x.2 != '\n')),
         -- a break is added only where a line is longer than the width: every input line of n
         -- cells becomes max 1 ⌈n / w⌉ lines, no empty line is invented
         ("dumbwrap_breaks_only_where_needed",
            (splitNL out).length ==
              ((splitNL s).map fun l => max 1 ((AnsiSpec.visLen l + w.toNat - 1) / w.toNat)).foldl (· + ·) 0)]
      else []
    pure { model := js (Ansi.dumbWrap s w), preds := preds,
           nontrivial := (splitNL s).any fun l => decide ((AnsiSpec.visLen l : Int) > w) }
  | "snip" =>
    let s ← str j "s"; let w ← int j "w"; let h ← int j "h"; let e ← str j "ellipsis"
    let canon ← bool j "canon"
    let out := implStr j
    let fits := AnsiSpec.linesWithin w s
    let preds :=
      if canon && implIsStr j && h ≥ 0 then
        [("snip_height", decide (((splitNL out).length : Int) ≤ max h 1))] ++
        -- the ellipsis counts: room is made for it on the last line
        (if fits && w ≥ 1 && AnsiSpec.visLen e ≤ 1 then [("snip_width", AnsiSpec.linesWithin w out)] else [])
      else []
    pure { model := exc js (Ansi.snip s w h e), preds := preds,
           nontrivial := decide (((splitNL s).length : Int) > h) }
  | "center" =>
    let p ← str j "prefix"; let c ← str j "centered"; let sfx ← str j "suffix"; let h ← nat j "h"
    let out := implStr j
    pure { model := js (Ansi.centerVertically p c sfx h),
           preds := if h ≥ 1 then [("center_height", Ansi.height out = h)] else [],
           nontrivial := decide (h > Ansi.height c) }
  | "replacelast" =>
    let o ← str j "s"; let r ← str j "r"
    let out := implStr j
    pure { model := exc js (Ansi.replaceLastLine o r),
           preds := if implIsStr j && Ansi.height o ≥ 2 then [("replace_keeps_height", Ansi.height out = Ansi.height o)] else [] }
  | "setlength" =>
    let s ← str j "s"; let w ← int j "w"; let e ← str j "ellipsis"
    let out := implStr j
    pure { model := exc js (Ansi.setLength s w e),
           preds := if implIsStr j && w ≥ 0 && e.length = 1 then
                      [("setlength_len", decide ((out.length : Int) = w)), ("setlength_no_nl", !out.contains '\n')] else [] }
  | "scrub" =>
    let s ← str j "s"
    let out := implStr j
    pure { model := js (Ansi.scrub s),
           preds := [("scrub_noctl", out.all fun c => c = '\n' || !Uni.isControl c), ("safe_output", Safe.safe out)],
           nontrivial := s.any fun c => Uni.isControl c }
  | "squash" =>
    let s ← str j "s"
    pure { model := js (Ansi.squash s) }
  | "height" =>
    let s ← str j "s"
    pure { model := Json.num (Ansi.height s) }
  | "unicode" =>
    -- a range [lo, hi) of code points: bit strings of isSpace / isControl
    let lo ← nat j "lo"; let hi ← nat j "hi"
    let cps := (List.range (hi - lo)).map (· + lo)
    let f (p : Char → Bool) : String :=
      String.ofList (cps.map fun n => if p (Char.ofNat n) then '1' else '0')
    pure { model := Json.arr #[Json.str (f Uni.isSpace), Json.str (f Uni.isControl)] }
  | _ => throw s!"unknown ansi op {op}"

def dispatchOp (j : Json) : Except String Res := do
  let opv ← j.getObjVal? "op"
  let op ← opv.getStr?
  match op with
  | "expand" | "apply" | "indent" | "pad" | "wrap" | "dumbwrap" | "snip" | "center"
  | "replacelast" | "setlength" | "scrub" | "squash" | "height" | "unicode" => ansiOp op j
  | "accessor" => accessorOp j
  | "hextoansi" => hexOp j
  | "f64sem" => f64semOp j
  | "fetchsame" => fetchSameOp j
  | "par" => parOp j
  | "config" => configOp j
  | "hook" => hookOp j
  | "media" => mediaOp j
  | "render" => renderOp j
  | "renderpair" => renderPairOp j
  | "styleexpr" => styleExprOp j
  | "problem" => problemOp j
  | "pubfuzz" => pubFuzzOp j
  | "present" => presentOp j
  | "rebuild" => rebuildOp j
  | "statusline" | "ctline" | "locline" | "headers" => jtpLineOp op j
  | "fetchseq" => fetchSeqOp j
  | "webfinger" => webfingerOp j
  | "wfpar" => wfParOp j
  | "pubworld" => pubWorldOp j
  | "ui" => uiOp j
  | "uistress" => uiStressOp j
  | "mainpty" => mainPtyOp j
  | "paging" => pagingOp j
  | "splice" => spliceOp j
  | "history" => historyOp j
  | "feed" => feedOp j
  | _ => throw s!"unknown op {op}"

/-- An op marked `predicate_only` is judged by its predicates alone (used by properties whose
    statement does not depend on the exact result: the model's answer is not compared). -/
def dispatch (j : Json) : Except String Res := do
  let r ← dispatchOp j
  if (j.getObjVal? "predicate_only").toOption == some (Json.bool true) then
    pure { r with model := (j.getObjVal? "impl").toOption.getD Json.null }
  else pure r

end Ops
