import Lean.Data.Json
import Model

/-
  JSON plumbing for the line-protocol driver.  Used by the correspondence check only; no theorem
  depends on anything in `Driver/`.
-/
open Lean

namespace Drv

def str (j : Json) (k : String) : Except String Str := do
  let v ← j.getObjVal? k
  let s ← v.getStr?
  pure s.toList

def int (j : Json) (k : String) : Except String Int := do
  let v ← j.getObjVal? k
  v.getInt?

def nat (j : Json) (k : String) : Except String Nat := do
  let v ← j.getObjVal? k
  v.getNat?

def bool (j : Json) (k : String) : Except String Bool := do
  let v ← j.getObjVal? k
  v.getBool?

def arr (j : Json) (k : String) : Except String (Array Json) := do
  let v ← j.getObjVal? k
  v.getArr?

def strList (j : Json) (k : String) : Except String (List Str) := do
  let a ← arr j k
  a.toList.mapM fun v => do
    let s ← v.getStr?
    pure s.toList

def js (s : Str) : Json := Json.str (String.ofList s)
def jsl (l : List Str) : Json := Json.arr (l.map js).toArray

def panicJson : Json := Json.mkObj [("panic", true)]

def exc (f : α → Json) : Except Panic α → Json
  | .ok a => f a
  | .error _ => panicJson

/-- Result of one op: the model's output, named predicate results evaluated on the
    implementation's output, and whether the case exercised the property non-trivially. -/
structure Res where
  model : Json
  preds : List (String × Bool) := []
  nontrivial : Bool := true

def Res.toJson (r : Res) : Json :=
  Json.mkObj [("m", r.model),
              ("p", Json.mkObj (r.preds.map fun (k, b) => (k, Json.bool b))),
              ("nt", r.nontrivial)]

end Drv

namespace Ops
open Lean

def implStr (j : Json) : Str :=
  match j.getObjVal? "impl" with
  | .ok (Json.str s) => s.toList
  | _ => []

def implIsStr (j : Json) : Bool :=
  match j.getObjVal? "impl" with
  | .ok (Json.str _) => true
  | _ => false


end Ops
