import Driver.Util

/- Driver op for the four renderers (C01, C06, C12, C14, C15). -/
open Lean Drv

namespace Ops

partial def toNode (j : Json) : Except String Dom.Node := do
  if let .ok t := j.getObjVal? "t" then return .text (← t.getStr?).toList
  if let .ok e := j.getObjVal? "e" then
    let tag ← e.getStr?
    let attrsA ← arr j "a"
    let attrs ← attrsA.toList.mapM fun a => do
      let p ← a.getArr?
      pure (((← (p[0]?.getD Json.null).getStr?)).toList, ((← (p[1]?.getD Json.null).getStr?)).toList)
    let kidsA ← arr j "c"
    let kids ← kidsA.toList.mapM toNode
    return .elem tag.toList attrs kids
  return .other

/-- The colours of the default configuration, post-processed (what the harness runs with). -/
def defaultColors : Colors :=
  match Config.postprocess Config.defaults with
  | .ok p => p.colors
  | .error _ => ⟨[], [], [], []⟩

/-- The colours the harness process ran with (reported with the op when it runs under a
    configuration of its own), else the default ones. -/
def opColors (j : Json) : Colors :=
  match j.getObjVal? "colors" with
  | .ok (Json.arr a) =>
    match a[0]?, a[1]?, a[2]?, a[3]? with
    | some (Json.str p), some (Json.str e), some (Json.str h), some (Json.str c) =>
      ⟨p.toList, e.toList, h.toList, c.toList⟩
    | _, _, _, _ => defaultColors
  | _ => defaultColors

/-- The superscript runs of one line as digit lists, with "nothing but indentation before it" and
    "nothing after it" flags. -/
def lineRuns (l : Str) : List (List Nat × Bool × Bool) :=
  let rec go (rest : Str) (cur : Option (List Nat × Bool)) (clean : Bool) : List (List Nat × Bool × Bool) :=
    match rest with
    | [] => match cur with
      | some (ds, st) => [(ds, st, true)]
      | none => []
    | c :: cs =>
      match Safe.superVal c, cur with
      | some d, none => go cs (some ([d], clean)) false
      | some d, some (ds, st) => go cs (some (ds ++ [d], st)) false
      | none, some (ds, st) => (ds, st, false) :: go cs none false
      | none, none => go cs none (clean && (c == ' ' || c == '▌' || c == '•'))
  go l none true

/-- Every number that can be read off the text: the maximal runs, and the concatenation of runs
    that a hard line break (an overlong word cut at the margin) split over consecutive lines. -/
def shownNumbers (plain : Str) : List Nat :=
  let val (ds : List Nat) : Nat := ds.foldl (fun n d => 10 * n + d) 0
  let step (st : List (List Nat) × List Nat) (l : Str) : List (List Nat) × List Nat :=
    let runs := lineRuns l
    if runs.isEmpty then ([], st.2)
    else runs.foldl (fun (acc : List (List Nat) × List Nat) r =>
      let cands := [r.1] ++ (if r.2.1 then acc.1.map (· ++ r.1) else [])
      (if r.2.2 then cands else [], acc.2 ++ cands.map val)) st
  ((Str.splitNL plain).foldl step ([], [])).2

/-- The superscript digits starting at `rest`, read across hard line breaks (a number cut at the
    margin continues after the next line's indentation). -/
partial def digitsAcross (rest : Str) : List Nat :=
  let ds := rest.takeWhile fun d => (Safe.superVal d).isSome
  let after := rest.drop ds.length
  let here := ds.filterMap Safe.superVal
  match after with
  | '\n' :: tl =>
    let tl' := tl.dropWhile fun c => c == ' ' || c == '▌' || c == '•'
    match tl' with
    | c :: _ => if !here.isEmpty && (Safe.superVal c).isSome then here ++ digitsAcross tl' else here
    | [] => here
  | _ => here

/-- The number printed right after the first occurrence of `label` that is followed by one. -/
partial def numberAfterBroken (label : Str) : Str → Option Nat
  | [] => none
  | c :: cs =>
    if label.isPrefixOf (c :: cs) then
      let ds := digitsAcross ((c :: cs).drop label.length)
      if ds.isEmpty then numberAfterBroken label cs
      else some (ds.foldl (fun n d => 10 * n + d) 0)
    else numberAfterBroken label cs

/-- "Every line has at most `w` visible characters" on the implementation's output.  Ordinary
    outputs are measured with the regex cells (`AnsiSpec.linesWithin`, as in the theorems).  For
    outputs of tens of thousands of characters (the wide documents of C06) the cell scanner of
    the model is quadratic in the line length, so lines there are measured by what a terminal
    shows: the characters left after removing the SGR sequences (the output is also required to
    consist of nothing but printable characters and complete SGR sequences, `safe_output`). -/
def withinWidth (w : Int) (o : Str) : Bool :=
  if o.length ≤ 20000 then AnsiSpec.linesWithin w o
  else (Str.splitNL (Safe.strip o)).all fun l => decide ((l.length : Int) ≤ w)

def renderOp (j : Json) : Except String Res := do
  let impl := (j.getObjVal? "impl").toOption.getD Json.null
  if let .ok _ := impl.getObjVal? "parseerror" then return { model := impl, nontrivial := false }
  let media ← (← j.getObjVal? "media").getStr?
  let noModel := (j.getObjVal? "nomodel").toOption == some (Json.bool true)
  let widthsA ← arr j "widths"
  let widths ← widthsA.toList.mapM (·.getInt?)
  let c := opColors j
  let (outs, links) ← match media with
    | _ =>
    if noModel then
      -- very deep nesting: the list-based model is too slow to be worth running; the op is
      -- predicate-only (crash, hang, safety, width are still checked on the implementation)
      let io : List Str := match impl.getObjVal? "out" with
        | .ok (Json.arr a) => a.toList.map fun v => match v with | Json.str s => s.toList | _ => []
        | _ => []
      let il : List Str := match impl.getObjVal? "links" with
        | .ok (Json.arr a) => a.toList.map fun v => match v with | Json.str s => s.toList | _ => []
        | _ => []
      pure (io, il)
    else match media with
    | "html" | "markdown" => do
      let forestA ← arr j "forest"
      let forest ← forestA.toList.mapM toNode
      let m := Markup.new (Markup.htmlR c) forest
      pure ((Markup.renderSeq (Markup.htmlR c) m widths).1, (Hypertext.renderWithLinks c forest 80).2)
    | "gemini" => do
      let src ← str j "scrubbed"
      let lines := Str.splitNL src
      let m := Markup.new (Markup.gemR c) lines
      pure ((Markup.renderSeq (Markup.gemR c) m widths).1, (Gemtext.renderWithLinks c lines 80).2)
    | _ => do
      let src ← str j "scrubbed"
      let m := Markup.new (Markup.plainR c) src
      pure ((Markup.renderSeq (Markup.plainR c) m widths).1, (Plaintext.renderWithLinks c src 80).2)
  -- predicates on the implementation's output
  let implOuts : List Str := match impl.getObjVal? "out" with
    | .ok (Json.arr a) => a.toList.map fun v => match v with | Json.str s => s.toList | _ => []
    | _ => []
  let implLinks : List Str := match impl.getObjVal? "links" with
    | .ok (Json.arr a) => a.toList.map fun v => match v with | Json.str s => s.toList | _ => []
    | _ => []
  let isStrOut := match impl.getObjVal? "out" with | .ok (Json.arr _) => true | _ => false
  let safeOk := implOuts.all Safe.safe
  let neutralOk := implOuts.all Cells.neutralAtBreaks
  let widthOk := (implOuts.zip widths).all fun (o, w) => w < 1 || withinWidth w o
  -- same width ⇒ same text, whatever happened in between
  let sameOk := (implOuts.zip widths).all fun (o, w) =>
    (implOuts.zip widths).all fun (o', w') => w != w' || o == o'
  -- link labels (only at comfortable widths, where a short label cannot be split)
  let labelsA := (j.getObjVal? "labels").toOption.bind (fun v => v.getArr?.toOption) |>.getD #[]
  let labels : List (Str × Str) := labelsA.toList.filterMap fun p => match p with
    | Json.arr q => match q[0]?, q[1]? with
      | some (Json.str l), some (Json.str t) => some (l.toList, t.toList)
      | _, _ => none
    | _ => none
  let labelOk := (implOuts.zip widths).all fun (o, w) =>
    w < 8 || (let plain := Safe.strip o
      labels.all fun (l, t) =>
        match numberAfterBroken l plain with
        | some k => k ≥ 1 && implLinks[k - 1]? == some t
        | none => true)
  -- the numbers shown are 1..N, each exactly once (when nothing was cut)
  let checkNumbers := (j.getObjVal? "checknumbers").toOption == some (Json.bool true)
  let numbersOk := !checkNumbers || (implOuts.zip widths).all fun (o, w) =>
    -- a number of several digits may be cut by a hard break: `shownNumbers` reads it across the break
    w < 1 || (let runs := shownNumbers (Safe.strip o)
      (List.range implLinks.length).all fun i => runs.contains (i + 1))
  -- the text at a width is what a never-rendered markup gives at that width (no history)
  let fresh : Option (List Str) := match j.getObjVal? "fresh" with
    | .ok (Json.arr a) => some (a.toList.map fun v => match v with | Json.str s => s.toList | _ => [])
    | _ => none
  let freshOk := match fresh with
    | some f => f == implOuts
    | none => true
  let preds := if isStrOut then
      [("safe_output", safeOk), ("neutral_at_line_ends", neutralOk), ("lines_within_width", widthOk),
       ("same_width_same_text", sameOk), ("label_opens_own_target", labelOk), ("numbers_1_to_N_shown", numbersOk),
       ("render_is_history_free", freshOk)]
    else []
  pure { model := Json.mkObj [("links", jsl links), ("out", jsl outs)], preds := preds,
         nontrivial := !links.isEmpty || widths.length ≥ 2 }

/-- A JSON array of strings as a list (anything else reads as empty). -/
def strsOf (v : Json) : List Str :=
  match v with
  | Json.arr a => a.toList.map fun x => match x with | Json.str s => s.toList | _ => []
  | _ => []

/-- op "renderpair": several Markup values alive at once, rendered alternately.  Every value has
    its own cache (`Markup.M`); the model steps the one addressed and leaves the others alone. -/
def renderPairOp (j : Json) : Except String Res := do
  let impl := (j.getObjVal? "impl").toOption.getD Json.null
  if let .ok _ := impl.getObjVal? "parseerror" then return { model := impl, nontrivial := false }
  let c := opColors j
  let docsA ← arr j "docs"
  let forestsA ← arr j "forests"
  let scrubbedA ← arr j "scrubbed"
  let mut rs : Array ((Int → Str) × List Str) := #[]
  for i in [0:docsA.size] do
    let media ← (← (docsA[i]?.getD Json.null).getObjVal? "media").getStr?
    let src : Str := match scrubbedA[i]? with | some (Json.str t) => t.toList | _ => []
    match media with
    | "html" | "markdown" =>
      let fa ← (forestsA[i]?.getD Json.null).getArr?
      let forest ← fa.toList.mapM toNode
      rs := rs.push (Markup.htmlR c forest, (Hypertext.renderWithLinks c forest 80).2)
    | "gemini" =>
      let lines := Str.splitNL src
      rs := rs.push (Markup.gemR c lines, (Gemtext.renderWithLinks c lines 80).2)
    | _ =>
      rs := rs.push (Markup.plainR c src, (Plaintext.renderWithLinks c src 80).2)
  let mut ms : Array (Markup.M Unit) := rs.map fun r => Markup.new (fun _ w => r.1 w) ()
  let seqA ← arr j "seq"
  let mut outsRev : List Str := []
  let mut stepsRev : List (Nat × Int) := []
  for st in seqA do
    let p ← st.getArr?
    let k ← (p[0]?.getD Json.null).getNat?
    let w ← (p[1]?.getD Json.null).getInt?
    match rs[k]?, ms[k]? with
    | some r, some m =>
      let o := Markup.render (fun _ w => r.1 w) m w
      ms := ms.set! k o.2
      outsRev := o.1 :: outsRev
      stepsRev := (k, w) :: stepsRev
    | _, _ => throw "renderpair: step addresses no document"
  let outs := outsRev.reverse
  let steps := stepsRev.reverse
  -- predicates on the implementation's output
  let implOuts : List Str := strsOf ((impl.getObjVal? "out").toOption.getD Json.null)
  let isStrOut := match impl.getObjVal? "out" with | .ok (Json.arr _) => true | _ => false
  let tagged := implOuts.zip steps
  let widthOk := tagged.all fun (o, _, w) => w < 1 || withinWidth w o
  let sameOk := tagged.all fun (o, k, w) => tagged.all fun (o', k', w') => k != k' || w != w' || o == o'
  -- ... and so must two documents with the same text under the same media type, whichever was
  -- created first and whatever was created in between ("depends only on content and width")
  let docKey (k : Nat) : Option Json := match j.getObjVal? "docs" with
    | .ok (Json.arr a) => a[k]?
    | _ => none
  let sameDocOk := tagged.all fun (o, k, w) => tagged.all fun (o', k', w') =>
    k == k' || w != w' || docKey k != docKey k' || (docKey k).isNone || o == o'
  let freshOk := match j.getObjVal? "fresh" with
    | .ok (Json.arr a) => strsOf (Json.arr a) == implOuts
    | _ => true
  let preds := if isStrOut then
      [("safe_output", implOuts.all Safe.safe), ("neutral_at_line_ends", implOuts.all Cells.neutralAtBreaks),
       ("lines_within_width", widthOk), ("same_width_same_text", sameOk), ("same_document_same_text", sameDocOk),
       ("render_is_history_free", freshOk)]
    else []
  pure { model := Json.mkObj [("links", Json.arr (rs.map fun r => jsl r.2)), ("out", jsl outs)], preds := preds,
         nontrivial := steps.length ≥ 2 }

end Ops
