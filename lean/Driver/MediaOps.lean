import Driver.Object

/- Driver op "media": link selection of posts and actors and the hook argv (C20, C12). -/
open Lean Drv

namespace Ops

def selJson (hook : List Str) (linksOnly : Bool := false) : Option Link.Sel → Json
  | none => Json.mkObj [("present", Json.bool false)]
  | some s =>
    if linksOnly then Json.mkObj [("present", Json.bool true), ("link", js s.link)] else
    match Link.open_ hook s with
    | .error _ => panicJson
    | .ok c =>
      Json.mkObj [("present", Json.bool true), ("link", js s.link),
                  ("mt", Json.arr #[js s.mt.essence, js s.mt.supertype, js s.mt.subtype]),
                  ("argv", jsl c.argv), ("stdin", js (c.stdin.getD []))]

def mediaOp (j : Json) : Except String Res := do
  let impl := (j.getObjVal? "impl").toOption.getD Json.null
  if let .ok _ := impl.getObjVal? "baddoc" then return { model := impl, nontrivial := false }
  let doc ← toJVal (← j.getObjVal? "tree")
  let o ← match doc with
    | .obj kvs => pure kvs
    | _ => throw "document is not an object"
  let L ← libsOf j
  let hook ← strList j "hook"
  let as ← (← j.getObjVal? "as").getStr?
  let bodyLinks : List Str := (strList j "bodylinks").toOption.getD []
  let stepsA ← arr j "steps"
  let kindOk : Bool := match Obj.getString o "type".toList with
    | .ok k => if as == "actor" then
        (["Application", "Group", "Organization", "Person", "Service"].map String.toList).contains k
      else Link.postKinds.contains k
    | .error _ => false
  if !kindOk then
    return { model := Json.mkObj [("noitem", Json.bool true)], nontrivial := false }
  let kind : Str := (Obj.getString o "type".toList).toOption.getD []
  let sels ← stepsA.toList.mapM fun st => do
    let p ← st.getArr?
    let name ← (p[0]?.getD Json.null).getStr?
    let k : Int := ((p[1]?.getD Json.null).getInt?).toOption.getD 0
    pure <| match name, as with
      | "media", "post" => Link.postMedia L kind o
      | "pfp", "actor" => Link.actorPfp L o
      | "banner", "actor" => Link.actorBanner L o
      | "select", "actor" => Link.actorSelect bodyLinks k
      | "select", _ => Link.postSelect L bodyLinks o k
      | _, _ => none
  -- predicates on the implementation's output
  let implSteps : List Json := match impl.getObjVal? "steps" with
    | .ok (Json.arr a) => a.toList
    | _ => []
  let keyOf (st : Json) : String := st.compress
  -- the same opening (same step description) always starts the program in the same way
  let pairs := stepsA.toList.zip implSteps
  let sameOk := pairs.all fun (d, r) => pairs.all fun (d', r') => keyOf d != keyOf d' || keyOf r == keyOf r'
  -- the argv is the configured hook with whole-argument substitution of what was selected
  let argvOk := implSteps.all fun r =>
    match r.getObjVal? "link", r.getObjVal? "mt", r.getObjVal? "argv" with
    | .ok (Json.str l), .ok (Json.arr m), .ok (Json.arr a) =>
      let g (i : Nat) : Str := match m[i]? with | some (Json.str s) => s.toList | _ => []
      match Hook.build hook l.toList ⟨g 0, g 1, g 2⟩ with
      | .ok c => Json.arr a == jsl c.argv
      | .error _ => false
    | _, _, _ => true
  -- a media type handed to the hook is the link's own, or the default of its kind, never another link's
  let linksOnly := (j.getObjVal? "links_only").toOption == some (Json.bool true)
  pure { model := Json.mkObj [("steps", Json.arr (sels.map (selJson hook linksOnly)).toArray)],
         preds := if linksOnly then [("same_number_same_target", sameOk)]
                  else [("same_opening_same_argv", sameOk), ("argv_is_substituted_hook", argvOk)],
         nontrivial := sels.any Option.isSome }

end Ops
