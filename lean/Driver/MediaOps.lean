import Driver.Object
import Driver.Render

/- Driver op "media": link selection of posts and actors and the hook argv (C20, C12). -/
open Lean Drv

namespace Ops

def selJson (hook : List Str) (linksOnly : Bool := false) (viaUi : Bool := false) : Option Link.Sel → Json
  | none => Json.mkObj [("present", Json.bool false)]
  | some s =>
    if linksOnly && !viaUi then Json.mkObj [("present", Json.bool true), ("link", js s.link)] else
    match Link.open_ hook s with
    | .error _ => panicJson
    | .ok c =>
      -- through the UI only the started program is seen
      if viaUi then Json.mkObj [("present", Json.bool true), ("argv", jsl c.argv), ("stdin", js (c.stdin.getD []))] else
      Json.mkObj [("present", Json.bool true), ("link", js s.link),
                  ("mt", Json.arr #[js s.mt.essence, js s.mt.supertype, js s.mt.subtype]),
                  ("argv", jsl c.argv), ("stdin", js (c.stdin.getD []))]

/-- The links of a body as the renderer numbers them (`GetMarkup`'s second result), from what the
    real parser made of the source. -/
def bodyLinksOf (c : Colors) (b : Json) : Except String (List Str) := do
  if let .ok (Json.arr forest) := b.getObjVal? "html" then
    return (Hypertext.renderWithLinks c (← forest.toList.mapM toNode) 80).2
  if let .ok (Json.arr lines) := b.getObjVal? "gem" then
    return (Gemtext.renderWithLinks c (← lines.toList.mapM fun v => do pure (← v.getStr?).toList) 80).2
  if let .ok (Json.str t) := b.getObjVal? "plain" then
    return (Plaintext.renderWithLinks c t.toList 80).2
  pure []

/-- `strconv.Atoi` on a string of digits: the value, unless it does not fit an `int`. -/
def atoiDigits (s : String) : Option Int :=
  if s.isEmpty || !s.toList.all Char.isDigit then none
  else
    let v := s.toList.foldl (fun n d => 10 * n + (d.toNat - 48)) 0
    if v < 2 ^ 63 then some (Int.ofNat v) else none

/-- The values of the maximal superscript runs of every line. -/
def lineRunValues (plain : Str) : List Nat :=
  (Str.splitNL plain).flatMap fun l => (lineRuns l).map fun r => r.1.foldl (fun n d => 10 * n + d) 0

def mediaOp (j : Json) : Except String Res := do
  let impl := (j.getObjVal? "impl").toOption.getD Json.null
  if let .ok _ := impl.getObjVal? "baddoc" then return { model := impl, nontrivial := false }
  let doc ← toJVal (← j.getObjVal? "tree")
  let o ← match doc with
    | .obj kvs => pure kvs
    | _ => throw "document is not an object"
  let L ← libsOf j
  let hook ← strList j "hook"
  let as ← (← j.getObjVal? "as").getStr?
  let whole := (j.getObjVal? "whole").toOption == some (Json.bool true)
  let viaUi := (j.getObjVal? "via").toOption == some (Json.str "ui")
  let wrapped := match j.getObjVal? "wrap" with | .ok (Json.str w) => !w.isEmpty | _ => false
  if let .ok _ := impl.getObjVal? "noitem" then
    if wrapped then return { model := impl, nontrivial := false }
  -- a whole item: the body links are worked out from the parsed body, not taken from the code
  let bodyLinks : List Str ← if whole then
      match j.getObjVal? "body" with
      | .ok b => bodyLinksOf defaultColors b
      | .error _ => pure []
    else pure ((strList j "bodylinks").toOption.getD [])
  let stepsA ← arr j "steps"
  let kindOk : Bool := match Obj.getString o "type".toList with
    | .ok k => if as == "actor" then
        (["Application", "Group", "Organization", "Person", "Service"].map String.toList).contains k
      else Link.postKinds.contains k
    | .error _ => false
  if !kindOk then
    return { model := Json.mkObj [("noitem", Json.bool true)], nontrivial := false }
  let kind : Str := (Obj.getString o "type".toList).toOption.getD []
  let sels ← stepsA.toList.mapM fun st => do
    let p ← st.getArr?
    let name ← (p[0]?.getD Json.null).getStr?
    let k : Int := ((p[1]?.getD Json.null).getInt?).toOption.getD 0
    let typed : Option Int := match p[1]? with | some (Json.str d) => atoiDigits d | _ => none
    pure <| match name, as with
      | "media", "post" => Link.postMedia L kind o
      | "pfp", "actor" => if wrapped then none else Link.actorPfp L o
      | "banner", "actor" => if wrapped then none else Link.actorBanner L o
      | "select", "actor" => Link.actorSelect bodyLinks k
      | "select", _ => Link.postSelect L bodyLinks o k
      | "type", "actor" => typed.bind (Link.actorSelect bodyLinks)
      | "type", _ => typed.bind (Link.postSelect L bodyLinks o)
      | _, _ => none
  -- predicates on the implementation's output
  let implSteps : List Json := match impl.getObjVal? "steps" with
    | .ok (Json.arr a) => a.toList
    | _ => []
  let keyOf (st : Json) : String := st.compress
  -- the same opening (same step description) always starts the program in the same way
  let pairs := stepsA.toList.zip implSteps
  let sameOk := pairs.all fun (d, r) => pairs.all fun (d', r') => keyOf d != keyOf d' || keyOf r == keyOf r'
  -- the argv is the configured hook with whole-argument substitution of what was selected
  let argvOk := implSteps.all fun r =>
    match r.getObjVal? "link", r.getObjVal? "mt", r.getObjVal? "argv" with
    | .ok (Json.str l), .ok (Json.arr m), .ok (Json.arr a) =>
      let g (i : Nat) : Str := match m[i]? with | some (Json.str s) => s.toList | _ => []
      match Hook.build hook l.toList ⟨g 0, g 1, g 2⟩ with
      | .ok c => Json.arr a == jsl c.argv
      | .error _ => false
    | _, _, _ => true
  -- a media type handed to the hook is the link's own, or the default of its kind, never another link's
  -- whatever was selected: as many arguments as configured, the program and every argument that is
  -- not exactly a placeholder untouched, the link on standard input iff no argument is %url
  let placeholders : List Str := ["%url", "%mimetype", "%subtype", "%supertype"].map String.toList
  let hasUrl := (hook.drop 1).contains "%url".toList
  let shapeOk := implSteps.all fun r =>
    match r.getObjVal? "argv", r.getObjVal? "stdin" with
    | .ok (Json.arr a), .ok (Json.str sin) =>
      let argv : List Str := a.toList.map fun v => match v with | Json.str s => s.toList | _ => []
      argv.length == hook.length && argv.head? == hook.head? &&
      ((hook.zip argv).drop 1).all (fun (h, x) => placeholders.contains h || h == x) &&
      (!hasUrl || sin.isEmpty)
    | _, _ => true
  -- the three media type placeholders describe one media type: what stands for %mimetype is what
  -- stands for %supertype, a slash, and what stands for %subtype
  let oneTypeOk := implSteps.all fun r =>
    match r.getObjVal? "argv" with
    | .ok (Json.arr a) =>
      let argv : List Str := a.toList.map fun v => match v with | Json.str s => s.toList | _ => []
      let argsFor (ph : String) : List Str := ((hook.zip argv).drop 1).filterMap fun (h, x) => if h == ph.toList then some x else none
      (argsFor "%mimetype").all fun m => (argsFor "%supertype").all fun sup => (argsFor "%subtype").all fun sub =>
        argv.length != hook.length || m == sup ++ '/' :: sub
    | _ => true
  let linksOnly := (j.getObjVal? "links_only").toOption == some (Json.bool true)
  let stepsJson := Json.arr (sels.map (selJson hook linksOnly viaUi)).toArray
  let basePreds := if linksOnly then [("same_number_same_target", sameOk)]
                  else [("same_opening_same_argv", sameOk), ("argv_is_substituted_hook", argvOk), ("argv_has_the_hooks_shape", shapeOk),
                        ("placeholders_describe_one_media_type", oneTypeOk)]
  if !whole then
    return { model := Json.mkObj [("steps", stepsJson)], preds := basePreds, nontrivial := sels.any Option.isSome }
  -- whole item: every number from 0 to two past the last one
  let selOf (k : Int) : Option Link.Sel :=
    if as == "actor" then Link.actorSelect bodyLinks k else Link.postSelect L bodyLinks o k
  let implSel : List (Nat × Bool × Str) := match impl.getObjVal? "sel" with
    | .ok (Json.arr a) => a.toList.filterMap fun e => match e with
      | Json.arr q => match q[0]?, q[1]?, q[2]? with
        | some k, some (Json.bool p), some (Json.str l) => (k.getNat?.toOption).map fun n => (n, p, l.toList)
        | _, _, _ => none
      | _ => none
    | _ => []
  let count := implSel.length
  let modelSel := Json.arr ((List.range count).map fun k => match selOf (Int.ofNat k) with
    | some s => Json.arr #[Json.num k, Json.bool true, js s.link]
    | none => Json.arr #[Json.num k, Json.bool false, js []]).toArray
  -- predicates on the implementation's output: the item's own text and its own answers
  let texts : List Str := (strList j "texts").toOption.getD []
  let widths : List Int := match j.getObjVal? "widths" with
    | .ok (Json.arr a) => a.toList.filterMap (·.getInt?.toOption)
    | _ => []
  let labelsA := (j.getObjVal? "labels").toOption.bind (fun v => v.getArr?.toOption) |>.getD #[]
  let labels : List (Str × Str) := labelsA.toList.filterMap fun p => match p with
    | Json.arr q => match q[0]?, q[1]? with
      | some (Json.str l), some (Json.str t) => some (l.toList, t.toList)
      | _, _ => none
    | _ => none
  let intact := match j.getObjVal? "doclen", j.getObjVal? "doc" with
    | .ok n, .ok (Json.str d) => n.getNat?.toOption == some d.length
    | _, _ => false
  let opens (k : Nat) (t : Str) : Bool := implSel.any fun (n, p, l) => n == k && p && l == t
  -- the number printed after a label opens that label's own target (header, body and attachments together)
  let labelOk := !intact || (texts.zip widths).all fun (txt, w) =>
    w < 14 || (let plain := Safe.strip txt
      labels.all fun (l, t) => match numberAfterBroken l plain with
        | some k => opens k t
        | none => true)
  -- the numbers shown are exactly 1..N: N = body links + attachments
  let checkNumbers := (j.getObjVal? "checknumbers").toOption == some (Json.bool true)
  let total := count - 3
  let numbersOk := !checkNumbers || !intact || (texts.zip widths).all fun (txt, w) =>
    w < 5 || (let plain := Safe.strip txt
      let shown := shownNumbers plain
      (List.range total).all (fun i => shown.contains (i + 1)) && (lineRunValues plain).all (· ≤ total))
  -- numbers outside 1..N open nothing
  let outsideOk := implSel.all fun (n, p, _) => !(n < 1 || n > total) || !p
  -- ... and "N" is what the reader sees: no number larger than the largest one shown opens anything
  -- (judged on the renderings wide enough for every number to stand unbroken, and only when the
  -- text carries no superscripts of its own)
  let supers := (j.getObjVal? "supers").toOption == some (Json.bool true)
  let beyondShownOk := supers || !intact || (texts.zip widths).all fun (txt, w) =>
    w < 40 || (let shown := shownNumbers (Safe.strip txt)
      let top := shown.foldl Nat.max 0
      implSel.all fun (n, p, _) => !(p && n > top))
  -- a number typed into the interface starts the program with what that number selects when asked directly
  let urlAt : Option Nat := (hook.drop 1).findIdx? (· == "%url".toList) |>.map (· + 1)
  let typedOk := !viaUi || (stepsA.toList.zip implSteps).all fun (d, r) =>
    let v : Option Nat := match d with
      | Json.arr p => match p[0]?, p[1]? with
        | some (Json.str "select"), some n => n.getNat?.toOption
        | some (Json.str "type"), some (Json.str ds) => (atoiDigits ds).map Int.toNat
        | _, _ => none
      | _ => none
    match v with
    | none => true
    | some k =>
      if k ≥ count then true else
      let started : Option Str := match r.getObjVal? "argv", r.getObjVal? "stdin" with
        | .ok (Json.arr a), .ok (Json.str sin) => match urlAt with
          | some i => match a[i]? with | some (Json.str x) => some x.toList | _ => none
          | none => some sin.toList
        | _, _ => none
      match started with
      | some l => opens k l
      | none => (r.getObjVal? "present").toOption != some (Json.bool false) || !(implSel.any fun (n, p, _) => n == k && p)
  -- what the interface drew while opening
  let frames : List Str := (strList j "frames").toOption.getD []
  pure { model := Json.mkObj [("steps", stepsJson), ("bodylinks", jsl bodyLinks), ("sel", modelSel)],
         preds := basePreds ++ [("label_opens_own_target", labelOk), ("numbers_1_to_N_shown", numbersOk),
                                ("numbers_outside_open_nothing", outsideOk),
                                ("nothing_opens_beyond_the_numbers_shown", beyondShownOk)] ++
                  (if viaUi then [("frames_safe", frames.all Safe.safe), ("typed_number_opens_that_number", typedOk)] else []),
         nontrivial := sels.any Option.isSome }

end Ops
