import Driver.Util

/- Driver ops for the typed JSON accessors (C17), configuration (C19) and the media hook (C20). -/
open Lean Drv

namespace Ops

partial def toJVal (j : Json) : Except String JVal := do
  match j with
  | Json.null => pure .null
  | Json.obj _ =>
    if let .ok b := j.getObjVal? "b" then return .bool (← b.getBool?)
    if let .ok n := j.getObjVal? "n" then
      let s ← n.getStr?
      match s.toNat? with
      | some bits => return .num bits
      | none => throw "bad bits"
    if let .ok s := j.getObjVal? "s" then return .str (← s.getStr?).toList
    if let .ok a := j.getObjVal? "a" then
      let xs ← a.getArr?
      return .arr (← xs.toList.mapM toJVal)
    if let .ok o := j.getObjVal? "o" then
      let kvs ← o.getArr?
      let l ← kvs.toList.mapM fun kv => do
        let p ← kv.getArr?
        let k ← (p[0]?.getD Json.null).getStr?
        let v ← toJVal (p[1]?.getD Json.null)
        pure (k.toList, v)
      return .obj l
    throw "bad tree node"
  | _ => throw "bad tree"

partial def ofJVal : JVal → Json
  | .null => Json.null
  | .bool b => Json.mkObj [("b", Json.bool b)]
  | .num bits => Json.mkObj [("n", Json.str (toString bits))]
  | .str s => Json.mkObj [("s", js s)]
  | .arr xs => Json.mkObj [("a", Json.arr (xs.map ofJVal).toArray)]
  | .obj kvs => Json.mkObj [("o", Json.arr (kvs.map fun (k, v) => Json.arr #[js k, ofJVal v]).toArray)]

def errJson : Obj.Err → Json
  | .absent => Json.mkObj [("err", "absent")]
  | .wrong => Json.mkObj [("err", "wrong")]

def resJson (f : α → Json) : Obj.R α → Json
  | .ok a => Json.mkObj [("ok", f a)]
  | .error e => errJson e

/-- Oracle tables from the harness, as the `Libs` parameter. -/
def libsOf (j : Json) : Except String (Obj.Libs Unit Str) := do
  let times ← strList j "times"
  let urlsA ← arr j "urls"
  let urls ← urlsA.toList.mapM fun u => do
    let p ← u.getArr?
    let k ← (p[0]?.getD Json.null).getStr?
    let v ← (p[1]?.getD Json.null).getStr?
    pure (k.toList, v.toList)
  pure { parseTime := fun s => if times.contains s then some () else none,
         parseUrl := fun s => (urls.find? (·.1 = s)).map (·.2) }

/-- The same with the parsed timestamps as values (`timevals`: accepted string, what it denotes). -/
def libsWithTimes (j : Json) : Except String (Obj.Libs Str Str) := do
  let L ← libsOf j
  let tv ← arr j "timevals"
  let times ← tv.toList.mapM fun u => do
    let p ← u.getArr?
    let k ← (p[0]?.getD Json.null).getStr?
    let v ← (p[1]?.getD Json.null).getStr?
    pure (k.toList, v.toList)
  pure { parseTime := fun s => (times.find? (·.1 = s)).map (·.2), parseUrl := L.parseUrl }

def markupKindName : Obj.MarkupKind → String
  | .plain => "plain"
  | .html => "html"
  | .gemini => "gemini"
  | .markdown => "markdown"

def accessorOp (j : Json) : Except String Res := do
  match j.getObjVal? "impl" with
  | .ok i => if let .ok _ := i.getObjVal? "baddoc" then return { model := i, nontrivial := false }
  | _ => pure ()
  let t ← j.getObjVal? "tree"
  let doc ← toJVal t
  let kvs ← match doc with
    | .obj kvs => pure kvs
    | _ => throw "document is not an object"
  let key ← str j "key"
  let key2 ← str j "key2"
  let acc ← (← j.getObjVal? "acc").getStr?
  let L ← libsWithTimes j
  let present := (Obj.lookup kvs key).isSome
  let impl := (j.getObjVal? "impl").toOption.getD Json.null
  -- predicates on the implementation's output (string-valued accessors): a string that is
  -- empty once sanitised is reported absent; a returned string is sanitised and non-empty
  let emptyAfterScrub : Bool := match Obj.lookup kvs key with
    | some (.str s) => (Ansi.scrub s).isEmpty
    | _ => false
  let absentOk : Bool := !emptyAfterScrub ||
    (impl.getObjVal? "err").toOption == some (Json.str "absent") ||
    -- GetMarkup falls back to the default media type: only its content key decides "absent"
    acc == "any" || acc == "list" || acc == "object" || acc == "number"
  let stringOk : Bool := match acc, impl.getObjVal? "ok" with
    | "string", .ok (Json.str s) => !s.isEmpty && s.toList.all fun c => c = '\n' || !Uni.isControl c
    | _, _ => true
  let r ← (match acc with
  | "any" => pure { model := resJson ofJVal (Obj.getAny kvs key), nontrivial := present }
  | "string" => pure { model := resJson js (Obj.getString kvs key), nontrivial := present }
  | "number" =>
    -- predicate on the implementation's output: a returned number is exactly the double's value
    let ok := match impl.getObjVal? "ok", Obj.lookup kvs key with
      | .ok (Json.str s), some (.num bits) => s.toNat? == F64.toNat? bits && (s.toNat?.getD (2^64)) < 2^64
      | .ok _, _ => false
      | _, _ => true
    pure { model := resJson (fun n => Json.str (toString n)) (Obj.getNumber kvs key),
           preds := [("number_exact", ok)], nontrivial := present }
  | "object" => pure { model := resJson (fun o => ofJVal (.obj o)) (Obj.getObject kvs key), nontrivial := present }
  | "list" => pure { model := resJson (fun l => Json.arr (l.map ofJVal).toArray) (Obj.getList kvs key), nontrivial := present }
  | "time" => pure { model := resJson js (Obj.getTime L kvs key), nontrivial := present }
  | "url" => pure { model := resJson js (Obj.getURL L kvs key), nontrivial := present }
  | "mediatype" =>
    pure { model := resJson (fun m => Json.arr #[js m.essence, js m.supertype, js m.subtype]) (Obj.getMediaType kvs key),
           nontrivial := present }
  | "markup" =>
    -- the renderer chosen is observed through what it renders: the harness constructs all four
    -- renderers on the sanitised text itself (`renders`), the model says which one it must be
    let m : Json := match Obj.getMarkupKind kvs key key2 with
      | .error e => errJson e
      | .ok (kind, _) => ((j.getObjVal? "renders").toOption.bind fun t =>
          (t.getObjVal? (markupKindName kind)).toOption).getD (Json.str "no render table")
    pure { model := m, nontrivial := present }
  | _ => throw "bad accessor" : Except String Res)
  -- a media type handed out is `token "/" token` (HTTP token characters) and the start of the string
  let tokenStr (t : String) : Bool := !t.isEmpty && t.toList.all Mime.isTok
  let mediaOk : Bool := match acc, impl.getObjVal? "ok" with
    | "mediatype", .ok (Json.arr a) =>
      (match a[0]?, a[1]?, a[2]? with
       | some (Json.str e), some (Json.str sup), some (Json.str sub) =>
         tokenStr sup && tokenStr sub && e == sup ++ "/" ++ sub &&
           (match Obj.lookup kvs key with
            | some (.str raw) => e.toList.isPrefixOf (Ansi.scrub raw)
            | _ => false)
       | _, _, _ => false)
    | _, _ => true
  -- the answer does not depend on which accessors were called on the document before
  let aloneOk : Bool := match j.getObjVal? "alone" with
    | .ok a => a == impl
    | .error _ => true
  -- the property fixes the answer completely (Props/C17: per-accessor classification theorems about
  -- the model's accessors, the parsers' verdicts being the real libraries'): which of the three
  -- kinds of answer, and the value
  let errOf (x : Json) : Option String := match x.getObjVal? "err" with
    | .ok (Json.str e) => some e
    | _ => none
  let shaped (x : Json) : Bool := (errOf x).isSome || (x.getObjVal? "ok").toOption.isSome
  let absentIff : Bool := !shaped impl || ((errOf impl == some "absent") == (errOf r.model == some "absent"))
  let wrongIff : Bool := !shaped impl || ((errOf impl == some "wrong") == (errOf r.model == some "wrong"))
  let valueOk : Bool := match impl.getObjVal? "ok", r.model.getObjVal? "ok" with
    | .ok a, .ok b => a == b
    | _, _ => true
  pure { r with preds := r.preds ++ [("absent_exactly_when_missing_null_or_empty", absentIff),
                                      ("wrong_exactly_when_other_type_or_unparseable", wrongIff),
                                      ("returned_value_is_the_json_value", valueOk),
                                      ("empty_string_is_absent", absentOk), ("string_sanitised_nonempty", stringOk),
                                      ("answer_independent_of_earlier_accessors", aloneOk),
                                      ("media_type_is_token_slash_token", mediaOk)] }

end Ops

namespace Ops

def hexOp (j : Json) : Except String Res := do
  let s ← str j "s"
  let m := Config.hexToAnsi s
  let impl := (j.getObjVal? "impl").toOption.getD Json.null
  -- predicate on the implementation's output: three decimal components 0..255
  let wellFormed : Bool := match impl with
    | Json.str out =>
      let parts := out.splitOn ";"
      parts.length == 3 && parts.all fun p => match p.toNat? with
        | some v => v ≤ 255 && toString v == p
        | none => false
    | _ => true
  pure { model := match m with | some v => js v | none => Json.null,
         preds := [("colour_wellformed", wellFormed)],
         nontrivial := m.isSome }

def rawStr (raw : Json) (k : String) (dflt : Str) : Str :=
  match raw.getObjVal? k with
  | .ok (Json.str s) => s.toList
  | _ => dflt

def rawInt (raw : Json) (k : String) (dflt : Int) : Int :=
  match raw.getObjVal? k with
  | .ok v => (v.getInt?).toOption.getD dflt
  | _ => dflt

def diagKey : Config.Diag → String
  | .primary => "style.colors.primary"
  | .error => "style.colors.error"
  | .highlight => "style.colors.highlight"
  | .code => "style.colors.code"
  | .hook => "media.hook"
  | .context => "network.preload_amount"
  | .timeout => "network.timeout_seconds"
  | .cacheSize => "network.cache_size"

def configOp (j : Json) : Except String Res := do
  let raw0 ← j.getObjVal? "raw"
  let expect ← (← j.getObjVal? "expect").getStr?
  if expect == "toml" then
    -- the file has an unknown key or table, a value of the wrong type or a syntax error (the
    -- generator wrote it so): it must be refused at startup, whatever else it contains
    let refused := ((j.getObjVal? "impl").toOption.bind fun i => (i.getObjVal? "reject").toOption).isSome
    return { model := Json.mkObj [("reject", "toml")], preds := [("unusable_file_is_refused", refused)], nontrivial := true }
  -- a value of another TOML type: decoding is the decoder's (trusted); the model starts from what
  -- it decoded, or from its refusal
  let typed := (j.getObjVal? "typed").toOption == some (Json.bool true)
  if typed && (j.getObjVal? "decoded").toOption.isNone then
    return { model := Json.mkObj [("reject", "toml")], nontrivial := false }
  let raw := if typed then (j.getObjVal? "decoded").toOption.getD raw0 else raw0
  let d := Config.defaults
  let hook : List Str := match raw.getObjVal? "hook" with
    | .ok (Json.arr a) => a.toList.filterMap fun v => match v with | Json.str s => some s.toList | _ => none
    | _ => d.hook
  let r : Config.Raw :=
    { hook := hook,
      primary := rawStr raw "primary" d.primary, error := rawStr raw "error" d.error,
      highlight := rawStr raw "highlight" d.highlight, code := rawStr raw "code_background" d.code,
      context := rawInt raw "preload_amount" d.context, timeout := rawInt raw "timeout_seconds" d.timeout,
      cacheSize := rawInt raw "cache_size" d.cacheSize }
  -- predicate on the implementation's output: an accepted configuration is safe to run with
  let impl := (j.getObjVal? "impl").toOption.getD Json.null
  let safeOk : Bool := match impl.getObjVal? "ok" with
    | .ok c =>
      let n (k : String) : Int := ((c.getObjVal? k).toOption.bind (·.getInt?.toOption)).getD (-1)
      let hookLen := match c.getObjVal? "hook" with | .ok (Json.arr a) => a.size | _ => 0
      let colourOk (k : String) : Bool := match c.getObjVal? k with
        | .ok (Json.str out) =>
          let parts := out.splitOn ";"
          parts.length == 3 && parts.all fun q => match q.toNat? with
            | some v => v ≤ 255 && toString v == q
            | none => false
        | _ => false
      -- the sizes are used as Go `int`s later on (lru.New(int(size)), uint(context)): in range
      hookLen ≥ 1 && n "cache" ≥ 1 && n "cache" < 2 ^ 63 && n "context" ≥ 0 && n "context" < 2 ^ 63 &&
        n "timeout" ≥ 0 && n "timeout" < 2 ^ 63 &&
        colourOk "primary" && colourOk "error" && colourOk "highlight" && colourOk "code"
    | _ => true
  -- the hook of an accepted configuration is the configured one, entry by entry (C20)
  let hookOk : Bool := match impl.getObjVal? "ok", raw.getObjVal? "hook" with
    | .ok c, .ok (Json.arr a) =>
      if a.all (fun v => match v with | Json.str _ => true | _ => false) then
        (c.getObjVal? "hook").toOption == some (Json.arr a)
      else true
    | _, _ => true
  -- the sizes of an accepted configuration are the configured ones (no wrap-around on the way)
  let sizesOk : Bool := match impl.getObjVal? "ok" with
    | .ok c =>
      let n (k : String) : Option Int := (c.getObjVal? k).toOption.bind (·.getInt?.toOption)
      n "timeout" == some r.timeout && n "context" == some r.context && n "cache" == some r.cacheSize
    | _ => true
  -- a feed's sources are the ones listed, in the order listed (ties between sources go to the one
  -- listed first: the order is part of the configuration)
  let feedsOk : Bool := match raw.getObjVal? "feeds", j.getObjVal? "feeds_parsed" with
    | .ok want, .ok got => want == got
    | _, _ => true
  let preds := [("accepted_config_is_safe", safeOk), ("hook_as_configured", hookOk), ("sizes_as_configured", sizesOk),
                ("feeds_as_configured", feedsOk)]
  match Config.postprocess r with
  | .error dg => pure { model := Json.mkObj [("reject", Json.str (diagKey dg))], preds := preds }
  | .ok p =>
    pure { preds := preds, model := Json.mkObj [("ok", Json.mkObj [
      ("hook", jsl p.hook), ("primary", js p.colors.primary), ("error", js p.colors.error),
      ("highlight", js p.colors.highlight), ("code", js p.colors.code),
      ("context", Json.num p.context), ("timeout", Json.num (Int.tdiv p.timeoutNanos 1000000000)), ("cache", Json.num p.cacheSize)])] }

def hookOp (j : Json) : Except String Res := do
  let hook ← strList j "hook"
  let link ← str j "link"
  let given : Mime.MediaType := ⟨← str j "essence", ← str j "supertype", ← str j "subtype"⟩
  -- a media type as a document writes it: what `mime.Parse` makes of it, else `mime.Unknown()`
  let mt : Mime.MediaType := match j.getObjVal? "mediatype" with
    | .ok (Json.str raw) => (Mime.parse raw.toList).getD Mime.unknown
    | _ => given
  let impl := (j.getObjVal? "impl").toOption.getD Json.null
  match Hook.build hook link mt with
  | .error _ => pure { model := panicJson }
  | .ok c =>
    -- predicates on the implementation's output
    let argvI : List Str := match impl.getObjVal? "argv" with
      | .ok (Json.arr a) => a.toList.filterMap fun v => match v with | Json.str s => some s.toList | _ => none
      | _ => []
    let stdinI : Str := match impl.getObjVal? "stdin" with
      | .ok (Json.str s) => s.toList
      | _ => []
    let hasUrl := (hook.drop 1).contains "%url".toList
    pure { model := Json.mkObj [("argv", jsl c.argv), ("stdin", js (c.stdin.getD []))],
           preds := [("argv_length", argvI.length == hook.length),
                     ("program_untouched", argvI.head? == hook.head?),
                     ("stdin_iff_no_url", (stdinI == link && !hasUrl) || (stdinI.isEmpty && hasUrl) || (link.isEmpty)),
                     ("link_whole_argument", !hasUrl || argvI.contains link),
                     -- an argument is replaced iff it is exactly a placeholder, by exactly the value it names
                     ("arguments_replaced_whole_or_untouched",
                        ((hook.zip argvI).drop 1).all fun (h, x) =>
                          if h == "%url".toList then x == link
                          else if h == "%mimetype".toList then x == mt.essence
                          else if h == "%subtype".toList then x == mt.subtype
                          else if h == "%supertype".toList then x == mt.supertype
                          else x == h)],
           nontrivial := hook.length ≥ 2 }

end Ops
