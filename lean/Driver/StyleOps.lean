import Driver.Util
import Driver.Render

/- Driver ops for style expressions (C14) and error text (C01). -/
open Lean Drv

namespace Ops

/-- A style expression with the model's evaluation and the cells it ought to display. -/
partial def seEval (c : Colors) (j : Json) : Except String (Str × List Cells.Cell) := do
  let a ← j.getArr?
  let tag ← (a[0]?.getD Json.null).getStr?
  match tag with
  | "t" =>
    let s ← (a[1]?.getD Json.null).getStr?
    pure (s.toList, Cells.plain s.toList)
  | "cat" =>
    let x ← seEval c (a[1]?.getD Json.null)
    let y ← seEval c (a[2]?.getD Json.null)
    pure (x.1 ++ y.1, x.2 ++ y.2)
  | fn =>
    let x ← seEval c (a[1]?.getD Json.null)
    let (f, attr) : (Str → Str) × Str ← match fn with
      | "bold" => pure (Style.bold, ['1'])
      | "italic" => pure (Style.italic, ['3'])
      | "underline" => pure (Style.underline, ['4'])
      | "strike" => pure (Style.strikethrough, ['9'])
      | "color" => pure (Style.color c, "38;2;".toList ++ c.primary)
      | "red" => pure (Style.red c, "38;2;".toList ++ c.error)
      | "code" => pure (Style.code c, "48;2;".toList ++ c.code)
      | "highlight" => pure (Style.highlight c, "48;2;".toList ++ c.highlight)
      | _ => throw "bad style function"
    pure (f x.1, x.2.map (Cells.addAttr attr))

def layoutStep (c : Colors) (s : Str) (st : Json) : Except String Str := do
  let a ← st.getArr?
  let name ← (a[0]?.getD Json.null).getStr?
  let w ← (a[1]?.getD Json.null).getInt?
  match name with
  | "snipn" =>
    let h ← (a[2]?.getD Json.null).getInt?
    match Ansi.snip s w h (Style.color c ['…']) with
    | .ok t => pure t
    | .error _ => throw "snip panicked"
  | "headern" =>
    let l ← (a[2]?.getD Json.null).getNat?
    pure (Style.header c s l)
  | "indentp" =>
    let k ← (a[2]?.getD Json.null).getNat?
    let prefixes : List Str := ["  ".toList, [], [' '], ['▌'], "→ ".toList, "        ".toList,
                                Str.ESC :: "[1m▌".toList ++ Str.ESC :: "[0m".toList]
    pure (Ansi.indent s (prefixes.getD (k % prefixes.length) []) (w % 2 == 0))
  | "codeblock" => pure (Style.codeBlock c s)
  | "style" =>
    let k ← (a[2]?.getD Json.null).getNat?
    let fns : List (Str → Str) := [Style.bold, Style.italic, Style.underline, Style.strikethrough,
                                    Style.color c, Style.red c, Style.code c, Style.highlight c]
    pure ((fns.getD (k % fns.length) id) s)
  | "wrap" => pure (Ansi.wrap s w)
  | "dumbwrap" => pure (Ansi.dumbWrap s w)
  | "pad" => pure (Ansi.pad s w)
  | "indent" => pure (Ansi.indent s [' ', ' '] true)
  | "snip" => match Ansi.snip s w 4 (Style.color c ['…']) with
    | .ok t => pure t
    | .error _ => throw "snip panicked"
  | "quote" => pure (Style.quoteBlock c s)
  | "header" => pure (Style.header c s 2)
  | "bullet" => pure (Style.bullet s)
  | "link" => pure (Style.link c s w.toNat)
  | "linkblock" => pure (Style.linkBlock c s w.toNat)
  | _ => throw "bad layout step"

def styleExprOp (j : Json) : Except String Res := do
  let c := opColors j
  let e ← j.getObjVal? "e"
  let (s0, cells) ← seEval c e
  let layout ← arr j "layout"
  let mut s := s0
  for st in layout do
    s ← layoutStep c s st
  let impl := implStr j
  -- predicates on the implementation's output
  let disp := Cells.term impl
  let neutral := Cells.neutralAtBreaks impl
  -- without layout the display must be exactly the expected cells; with layout every displayed
  -- non-blank character of the original must still carry its attributes (as a multiset check on
  -- the first occurrence order is too strict under wrapping, we compare the filtered sequences)
  let expectedDisp := cells.map fun x => (x.ch, x.attrs)
  let exact := !layout.isEmpty || disp.1 == expectedDisp
  let safe := Safe.safe impl
  pure { model := js s,
         preds := [("neutral_at_line_ends", neutral), ("displayed_exactly_as_styled", exact), ("safe_output", safe)],
         nontrivial := cells.any fun x => !x.attrs.isEmpty }

def problemOp (j : Json) : Except String Res := do
  let s ← str j "s"
  let c := defaultColors
  let impl := implStr j
  pure { model := js (Style.red c (Ansi.scrub s)),
         preds := [("safe_output", Safe.safe impl), ("neutral_at_line_ends", Cells.neutralAtBreaks impl)],
         nontrivial := s.any Uni.isControl }

end Ops

namespace Ops

/-- op "pubfuzz": predicate-only (the item-level presentation is not re-computed by the model;
    its building blocks are: renderers, style layer, ansi layer).  The implementation's strings
    must be terminal-safe and attribute-neutral, previews at most 4 lines + header…, and every
    selector that reports a link also reports a media type. -/
def pubFuzzOp (j : Json) : Except String Res := do
  let impl := (j.getObjVal? "impl").toOption.getD Json.null
  let strs : List Str := match impl.getObjVal? "strings" with
    | .ok (Json.arr a) => a.toList.filterMap fun v => match v with | Json.str s => some s.toList | _ => none
    | _ => []
  let selects : List Json := match impl.getObjVal? "selects" with | .ok (Json.arr a) => a.toList | _ => []
  let mtOk := selects.all fun s => match s with
    | Json.arr p => !(p[1]? == some (Json.bool true) && p[3]? == some (Json.bool true))
    | _ => true
  -- numbers < 1 open nothing
  let lowOk := selects.all fun s => match s with
    | Json.arr p => match p[0]? with
      | some (Json.num n) => n.mantissa ≥ 1 || p[1]? == some (Json.bool false)
      | _ => true
    | _ => true
  let completed := match impl.getObjVal? "strings" with | .ok _ => true | _ => (impl.getObjVal? "baddoc").toOption.isSome
  pure { model := impl,
         preds := [("returns_normally", completed), ("safe_output", strs.all Safe.safe),
                   ("neutral_at_line_ends", strs.all Cells.neutralAtBreaks),
                   ("selected_link_has_media_type", mtOk), ("numbers_below_one_open_nothing", lowOk)],
         nontrivial := strs.length ≥ 3 }

end Ops
