import Driver.Util
import Driver.Render

/- Driver op for item-level presentation (C01, C06, C14). -/
open Lean Drv Present

namespace Ops

def fldOf (j : Json) (f : Json → Except String α) : Except String (Fld α) := do
  if let .ok v := j.getObjVal? "ok" then return .ok (← f v)
  if let .ok (Json.str m) := j.getObjVal? "absent" then return .absent m.toList
  if let .ok (Json.str m) := j.getObjVal? "err" then return .err m.toList
  throw "bad field"

def jstr (v : Json) : Except String Str := do pure (← v.getStr?).toList

def bodyOf (fields : Json) : Except String (Fld Body) := do
  let be ← fields.getObjVal? "bodyErr"
  match ← fldOf be (fun _ => pure ()) with
  | .absent m => pure (.absent m)
  | .err m => pure (.err m)
  | .ok _ =>
    let b ← fields.getObjVal? "body"
    if let .ok (Json.arr forest) := b.getObjVal? "html" then
      return .ok (.html (← forest.toList.mapM toNode))
    if let .ok (Json.arr lines) := b.getObjVal? "gem" then
      return .ok (.gem (← lines.toList.mapM jstr))
    if let .ok (Json.str t) := b.getObjVal? "plain" then
      return .ok (.plain t.toList)
    throw "bad body"

def linkOf (j : Json) : Except String LinkV := do
  pure { alt := ← fldOf (← j.getObjVal? "alt") jstr, uri := ← fldOf (← j.getObjVal? "uri") jstr }

structure Shown where
  name : Str
  string : Int → Str
  preview : Int → Except Panic Str

partial def shownOf (c : Colors) (j : Json) : Except String Shown := do
  let k ← (← j.getObjVal? "k").getStr?
  match k with
  | "failure" =>
    let m ← str j "msg"
    pure { name := failureName c m, string := failureString c m, preview := fun w => .ok (failureString c m w) }
  | "post" =>
    let comments : Comments ← match ← j.getObjVal? "comments" with
      | Json.str "disabled" => pure Comments.disabled
      | Json.str _ => pure Comments.enabledErr
      | o => do pure (Comments.size (← fldOf (← o.getObjVal? "size") jstr))
    let atts : Fld (List LinkV) ← fldOf (← j.getObjVal? "attachments") fun v => do
      let a ← v.getArr?
      a.toList.mapM linkOf
    let p : PostV := {
      kind := ← str j "kind", title := ← fldOf (← j.getObjVal? "title") jstr, body := ← bodyOf j,
      bodyLinks := ← strList j "bodyLinks", isReply := ← bool j "isReply",
      creators := ← strList j "creators", recipients := ← strList j "recipients",
      created := ← fldOf (← j.getObjVal? "created") jstr, agoZero := ← str j "agoZero",
      attachments := atts, comments := comments }
    pure { name := p.name c, string := p.string c, preview := p.preview c }
  | "actor" =>
    let host : Option Str := match j.getObjVal? "host" with | .ok (Json.str h) => some h.toList | _ => none
    let posts : Fld (Fld Str) ← fldOf (← j.getObjVal? "posts") fun v => fldOf v jstr
    let a : ActorV := {
      kind := ← str j "kind", name := ← fldOf (← j.getObjVal? "name") jstr,
      handle := ← fldOf (← j.getObjVal? "handle") jstr, host := host, bio := ← bodyOf j,
      joined := ← fldOf (← j.getObjVal? "joined") jstr, posts := posts }
    pure { name := a.nameStr c, string := a.string c, preview := a.preview c }
  | "activity" =>
    let kind ← str j "kind"
    let actorName ← str j "actorName"
    let t ← shownOf c (← j.getObjVal? "target")
    pure { name := t.name,
           string := fun w => activityHeader c kind actorName w ++ t.string w,
           preview := fun w => match t.preview w with
             | .ok s => .ok (activityHeader c kind actorName w ++ s)
             | .error e => .error e }
  | _ => throw "bad item"

def presentOp (j : Json) : Except String Res := do
  let impl := (j.getObjVal? "impl").toOption.getD Json.null
  if let .ok _ := impl.getObjVal? "baddoc" then return { model := impl, nontrivial := false }
  let c := defaultColors
  let sh ← shownOf c (← j.getObjVal? "item")
  let widthsA ← arr j "widths"
  let widths ← widthsA.toList.mapM (·.getInt?)
  let mut outs : Array Json := #[]
  let mut panicked := false
  for w in widths do
    match sh.preview w with
    | .ok p => outs := outs.push (Json.arr #[js (sh.string w), js p])
    | .error _ => panicked := true
  -- predicates on the implementation's output
  let strs : List Str := (match impl.getObjVal? "out" with
    | .ok (Json.arr a) => (a.toList.map fun pr => match pr with
        | Json.arr q => q.toList.filterMap fun v => match v with | Json.str s => some s.toList | _ => none
        | _ => []).flatten
    | _ => []) ++ (match impl.getObjVal? "name" with | .ok (Json.str s) => [s.toList] | _ => [])
  let previews : List Str := match impl.getObjVal? "out" with
    | .ok (Json.arr a) => a.toList.filterMap fun pr => match pr with
        | Json.arr q => match q[1]? with | some (Json.str s) => some s.toList | _ => none
        | _ => none
    | _ => []
  let predicateOnly := (j.getObjVal? "predicate_only").toOption == some (Json.bool true)
  pure { model := if predicateOnly then impl else if panicked then panicJson else Json.mkObj [("name", js sh.name), ("out", Json.arr outs)],
         preds := [("safe_output", strs.all Safe.safe), ("neutral_at_line_ends", strs.all Cells.neutralAtBreaks)],
         nontrivial := previews.any fun p => Ansi.height p ≥ 3 }

/-- `rebuild`: an item built twice from one decoded document.  The model's constructors are
    functions of the document (`Present`, `Pub`: nothing is written to it), so the document is
    afterwards what it was and the second item shows what the first showed. -/
def rebuildOp (j : Json) : Except String Res := do
  let impl := (j.getObjVal? "impl").toOption.getD Json.null
  if let .ok _ := impl.getObjVal? "baddoc" then return { model := impl, nontrivial := false }
  let flag (k : String) : Bool := (impl.getObjVal? k).toOption == some (Json.bool true)
  let strs : List Str := match impl.getObjVal? "second" with
    | .ok (Json.arr a) => a.toList.filterMap fun v => match v with | Json.str s => some s.toList | _ => none
    | _ => []
  pure { model := impl,
         preds := [("construction_leaves_the_document_as_it_was", flag "unchanged"),
                   ("same_document_same_item", flag "same"),
                   ("safe_output", strs.all Safe.safe)],
         nontrivial := strs.any fun s => s.length > 20 }

end Ops
