import Driver.Util
import Driver.Fetch

/- Driver op for multi-host object graphs (C02, C09). -/
open Lean Drv

namespace Ops

def uJson (u : Option Pub.U) : Json := match u with | some x => js x.str | none => Json.null

def rStr (r : Obj.R Str) : Json := match r with | .ok s => js s | .error _ => Json.null

def dumpActor (a : Pub.ActorM) : Json :=
  Json.mkObj [("k", "actor"), ("id", uJson a.id), ("name", rStr a.name)]

def dumpAorF : Pub.AorF → Json
  | .actor a => dumpActor a
  | .failure => Json.mkObj [("k", "failure")]

def dumpPost (p : Pub.PostM) : Json :=
  Json.mkObj [("k", "post"), ("id", uJson p.id), ("name", rStr p.title), ("parent", uJson p.parentId),
              ("creators", Json.arr (p.creators.map dumpAorF).toArray),
              ("recipients", Json.arr (p.recipients.map dumpAorF).toArray)]

def dumpTarget : Pub.Target → Json
  | .post p => dumpPost p
  | .actor a => dumpActor a
  | .failure => Json.mkObj [("k", "failure")]

def dumpItem : Pub.Item → Json
  | .failure => Json.mkObj [("k", "failure")]
  | .actor a => dumpActor a
  | .post p => dumpPost p
  | .activity a =>
    Json.mkObj [("k", "activity"), ("id", uJson a.id), ("kind", js a.kind),
                ("actor", match a.actor with | .ok ac => dumpActor ac | .error _ => Json.mkObj [("k", "failure")]),
                ("target", dumpTarget a.target)]
  | .collection c => Json.mkObj [("k", "collection"), ("id", uJson c.id)]

/-- The `Pub.World` of an op: `FetchURL` is the jtp model run on the world's routes. -/
def pubWorldOf (j : Json) : Except String Pub.World := do
  let env ← envOf j
  let urltable ← j.getObjVal? "urltable"
  let tol := ["application/activity+json".toList, "application/ld+json".toList, "application/json".toList]
  let rec_ (s : Str) : Option Pub.U :=
    match urltable.getObjVal? (String.ofList s) with
    | .ok r => match r.getObjVal? "str", r.getObjVal? "host" with
      | .ok (Json.str a), .ok (Json.str h) => some ⟨a.toList, h.toList⟩
      | _, _ => none
    | _ => none
  let timetable : List (Str × Int) := match j.getObjVal? "timetable" with
    | .ok (Json.arr a) => a.toList.filterMap fun p => match p with
      | Json.arr q => match q[0]?, q[1]? with
        | some (Json.str s), some (Json.str n) => (n.toInt?).map fun t => (s.toList, t)
        | _, _ => none
      | _ => none
    | _ => []
  -- oracle: source.ResolveReference(ref), listed where it is not the reference itself
  let resolveTbl : List (Str × Str × Str) := match j.getObjVal? "refresolve" with
    | .ok (Json.arr a) => a.toList.filterMap fun p => match p with
      | Json.arr q => match q[0]?, q[1]?, q[2]? with
        | some (Json.str b), some (Json.str r), some (Json.str t) => some (b.toList, r.toList, t.toList)
        | _, _, _ => none
      | _ => none
    | _ => []
  pure { parse := rec_,
         resolve := fun src ref => match src with
           | none => ref
           | some b => match resolveTbl.find? (fun e => e.1 = b.str ∧ e.2.1 = ref.str) with
             | some (_, _, t) => (rec_ t).getD ref
             | none => ref,
         parseTime := fun s => (timetable.find? (·.1 = s)).map (·.2),
         fetch := fun u =>
           match (Jtp.get env tol 20 ({ cap := 128 } : Jtp.Cache Doc) u).res with
           | .ok d src => match d.tree, rec_ src with
             | some (.obj kvs), some su => some (kvs, su)
             | _, _ => none
           | .err => none }

/-- Walks a dump and checks the provenance predicate: every accepted item that carries an id was
    built from JSON served by the id's host (the stamp after `@` in its name is a host index). -/
partial def provenanceOk (hostOfId : String → Option String) (hosts : List Str) (d : Json) : Bool :=
  let self := match d.getObjVal? "id", d.getObjVal? "name" with
    | .ok (Json.str id), .ok (Json.str name) =>
      match (name.splitOn "@H").getLast? with
      | some idx => match idx.toNat? with
        | some i => match hosts[i]? with
          -- the host (authority: address and port) named in the id, as url.Parse reads it
          | some h => match hostOfId id with
            | some ih => ih == String.ofList h
            | none => (String.ofList ("https://".toList ++ h ++ ['/'])).isPrefixOf id
          | none => false
        | none => true
      | none => true
    | _, _ => true
  let kids (k : String) : Bool := match d.getObjVal? k with
    | .ok (Json.arr a) => a.all (provenanceOk hostOfId hosts)
    | .ok (Json.obj o) => provenanceOk hostOfId hosts (Json.obj o)
    | _ => true
  self && kids "creators" && kids "recipients" && kids "actor" && kids "target"

def pubWorldOp (j : Json) : Except String Res := do
  let w ← pubWorldOf j
  let hosts ← strList j "hosts"
  let start ← str j "start_sub"
  let harvestN ← nat j "harvest"
  let parentsN ← nat j "parents"
  let impl := (j.getObjVal? "impl").toOption.getD Json.null
  let item := Pub.new w (.str start) none
  let mut fields : List (String × Json) := [("item", dumpItem item)]
  -- further requests on the continuation (page and offset) the first harvest returned
  let moreNs : List Nat := match j.getObjVal? "more" with
    | .ok (Json.arr a) => a.toList.map fun q => (q.getNat?).toOption.getD 0
    | _ => []
  let rec rounds (construct : Pub.E → Pub.Item) (cont : Coll.Cont Pub.R Pub.E) : List Nat → List Json
    | [] => []
    | n :: rest => match cont with
      | none => []
      | some (p, off) =>
        let r := Coll.harvest (Pub.loadPage w) p n off
        Json.arr #[Json.arr (r.out.map (fun o => dumpItem (Pub.deliver construct o))).toArray, Json.bool r.cont.isSome] ::
          rounds construct r.cont rest
  let kidsOf (construct : Pub.E → Pub.Item) (r : Option (List Pub.Item × Coll.Cont Pub.R Pub.E)) : List (String × Json) :=
    match r with
    | some (items, cont) => [("children", Json.arr (items.map dumpItem).toArray), ("more", Json.bool cont.isSome)] ++
        (if moreNs.isEmpty then [] else [("rounds", Json.arr (rounds construct cont moreNs).toArray)])
    | none => []
  match item with
  | .actor a =>
    fields := fields ++ kidsOf (Pub.outboxItem w a.id) (Pub.actorChildren w a harvestN 0) ++ [("parents", Json.arr #[]), ("frontier", Json.null)]
  | .post p =>
    fields := fields ++ kidsOf (Pub.replyItem w p.id) (Pub.postChildren w p harvestN 0) ++
      [("parents", Json.arr ((Pub.parents w parentsN p).1.map dumpItem).toArray),
       ("frontier", match (Pub.parents w parentsN p).2 with | some f => dumpItem (.post f) | none => Json.null)]
  | .activity a =>
    match a.target with
    | .post p =>
      fields := fields ++ kidsOf (Pub.replyItem w p.id) (Pub.postChildren w p harvestN 0) ++
        [("parents", Json.arr ((Pub.parents w parentsN p).1.map dumpItem).toArray),
         ("frontier", match (Pub.parents w parentsN p).2 with | some f => dumpItem (.post f) | none => Json.null)]
    | .actor ac => fields := fields ++ kidsOf (Pub.outboxItem w ac.id) (Pub.actorChildren w ac harvestN 0) ++ [("parents", Json.arr #[]), ("frontier", Json.null)]
    | .failure => fields := fields ++ [("parents", Json.arr #[]), ("frontier", Json.null)]
  | .failure => fields := fields ++ [("parents", Json.arr #[]), ("frontier", Json.null)]
  | .collection c =>
    let r := Coll.harvest (Pub.loadPage w) c.page harvestN 0
    fields := fields ++ kidsOf (Pub.genericItem w) (some (r.out.map (Pub.deliver (Pub.genericItem w)), r.cont))
  -- predicates on the implementation's output
  let roundKids (d : Json) : List Json := match d.getObjVal? "rounds" with
    | .ok (Json.arr rs) => (rs.toList.map fun rd => match rd with
        | Json.arr parts => (match parts[0]? with | some (Json.arr a) => a.toList | _ => [])
        | _ => []).flatten
    | _ => []
  let kidsI : List Json := (match impl.getObjVal? "children" with | .ok (Json.arr a) => a.toList | _ => []) ++ roundKids impl
  let all : List Json := [(impl.getObjVal? "item").toOption.getD Json.null] ++ kidsI ++
    (match impl.getObjVal? "parents" with | .ok (Json.arr a) => a.toList | _ => [])
  -- the authority url.Parse reads out of an identifier (oracle table of the real library)
  let urltable := (j.getObjVal? "urltable").toOption.getD Json.null
  let hostOfId (id : String) : Option String := match urltable.getObjVal? id with
    | .ok r => match r.getObjVal? "host" with | .ok (Json.str h) => some h | _ => none
    | _ => none
  let prov := all.all (provenanceOk hostOfId hosts)
  -- C09: a listed activity was performed by the owner; a listed reply answers this very post
  let owner := (impl.getObjVal? "item").toOption.getD Json.null
  let ownerId := (owner.getObjVal? "id").toOption.getD Json.null
  let ownerKind := (owner.getObjVal? "k").toOption.getD Json.null
  let genuine := kidsI.all fun k =>
    match k.getObjVal? "k" with
    | .ok (Json.str "activity") =>
      ownerKind != Json.str "actor" ||
        ((k.getObjVal? "actor").toOption.bind fun a => (a.getObjVal? "id").toOption) == some ownerId && ownerId != Json.null
    | .ok (Json.str "post") =>
      ownerKind != Json.str "post" || ((k.getObjVal? "parent").toOption == some ownerId && ownerId != Json.null)
    | _ => true
  -- an author is shown only if author and post live on the same host
  let hostOf (id : Json) : String := match id with
    | Json.str s => (hostOfId s).getD (((s.splitOn "/").take 3).foldl (· ++ "/" ++ ·) "")
    | _ => ""
  let postAuthorsOk (d : Json) : Bool :=
    match d.getObjVal? "k" with
    | .ok (Json.str "post") =>
      let pid := (d.getObjVal? "id").toOption.getD Json.null
      match d.getObjVal? "creators" with
      | .ok (Json.arr cs) => cs.all fun c =>
        match c.getObjVal? "k" with
        | .ok (Json.str "actor") =>
          let aid := (c.getObjVal? "id").toOption.getD Json.null
          (aid == Json.null && pid == Json.null) || (aid != Json.null && pid != Json.null && hostOf aid == hostOf pid)
        | _ => true
      | _ => true
    | _ => true
  -- ... also when the post is shown as what an activity is about (and that activity inside another)
  let authorsOk (d : Json) : Bool :=
    let t1 := (d.getObjVal? "target").toOption.getD Json.null
    let t2 := (t1.getObjVal? "target").toOption.getD Json.null
    postAuthorsOk d && postAuthorsOk t1 && postAuthorsOk t2
  let authors := all.all authorsOk
  -- C10: the listing delivers the items of the pages, each once, in order (ids and kinds of the
  -- delivered entries against the harvest of the model over the same world)
  let shape (k : Json) : Json := Json.arr #[(k.getObjVal? "k").toOption.getD Json.null, (k.getObjVal? "id").toOption.getD Json.null]
  let modelJ := Json.mkObj fields
  let kidsM : List Json := (match modelJ.getObjVal? "children" with | .ok (Json.arr a) => a.toList | _ => []) ++ roundKids modelJ
  let ends (d : Json) : List Json := (d.getObjVal? "more").toOption.toList ++ (match d.getObjVal? "rounds" with
    | .ok (Json.arr rs) => rs.toList.map fun rd => match rd with | Json.arr parts => parts[1]?.getD Json.null | _ => Json.null
    | _ => [])
  let pagesOk := kidsI.map shape == kidsM.map shape && ends impl == ends modelJ
  -- C04 on everything sent while the world was browsed: one well-formed GET per connection with
  -- Host and Accept and nothing else; the target carries no fragment (neither raw nor escaped:
  -- no URL of these worlds has an escaped '#'), no blank and no control character
  let wire : List Str := match j.getObjVal? "wire" with
    | .ok (Json.arr a) => a.toList.filterMap fun p => match p with
      | Json.arr q => match q[1]? with | some (Json.str s) => some s.toList | _ => none
      | _ => none
    | _ => []
  let worldHasEscapedHash := match urltable with
    | Json.obj kvs => kvs.toList.any fun (k, _) => (k.splitOn "%23").length > 1
    | _ => false
  let wireOk := wire.all fun raw =>
    let lines := (String.ofList raw).splitOn "\r\n"
    let reqLine := lines[0]?.getD ""
    let target := ((reqLine.splitOn " ").drop 1).dropLast
    lines.length == 5 && reqLine.startsWith "GET /" && reqLine.endsWith " HTTP/1.0" &&
    (lines[1]?.getD "").startsWith "Host: " && (lines[2]?.getD "").startsWith "Accept: " &&
    lines[3]? == some "" && lines[4]? == some "" &&
    lines.all (fun l => !(l.toList.any fun c => c.toNat < 32 || c.toNat == 127)) &&
    target.length == 1 && !(target.any fun t => t.toList.contains '#' || (!worldHasEscapedHash && (t.splitOn "%23").length > 1))
  let canary := ((j.getObjVal? "canaryhits").toOption.bind (·.getNat?.toOption)).getD 0
  -- the documents fetched once more after the items were built (nothing is written to a document)
  let refetchOk := match j.getObjVal? "refetch_differs" with
    | .ok (Json.arr a) => a.isEmpty
    | _ => true
  -- what the world put on the screen
  let shown : List Str := match j.getObjVal? "shown" with
    | .ok (Json.arr a) => a.toList.filterMap fun v => match v with | Json.str s => some s.toList | _ => none
    | _ => []
  pure { model := Json.mkObj fields,
         preds := [("safe_output", shown.all Safe.safe), ("neutral_at_line_ends", shown.all Cells.neutralAtBreaks),
                   ("served_by_the_host_in_its_id", prov), ("refetched_document_is_what_was_served", refetchOk), ("listed_entries_are_genuine", genuine),
                   ("authors_share_the_posts_host", authors), ("listing_is_the_pages_items_in_order", pagesOk),
                   ("requests_wellformed", wireOk), ("no_plaintext_connection", canary == 0)],
         nontrivial := kidsI.length ≥ 1 || (match impl.getObjVal? "parents" with | .ok (Json.arr a) => a.size ≥ 1 | _ => false) }

end Ops
