import Driver.Util
import Driver.PubOps

/- Driver op for the UI (C07; frame heights for C16). -/
open Lean Drv

namespace Ops

def modeNum : Ui.Mode → Nat
  | .loading => 0 | .normal => 1 | .command => 2 | .selection => 3 | .opening => 4 | .problem => 5

def snapshot (s : Ui.State) : Json :=
  match History.current s.hist with
  | .error _ =>
    Json.mkObj [("mode", Json.num (modeNum s.mode)), ("buffer", js s.buffer), ("haspage", false)]
  | .ok page =>
    let offs : List Int := [-3, -2, -1, 0, 1, 2, 3]
    let window := offs.filterMap fun off =>
      if Feed.contains page.feed off then
        match Feed.get page.feed off with
        | .ok (some it) => some (Json.arr #[Json.num off, dumpItem it])
        | .ok none => some (Json.arr #[Json.num off, Json.null])
        | .error _ => none
      else none
    Json.mkObj [("mode", Json.num (modeNum s.mode)), ("buffer", js s.buffer), ("haspage", true),
                ("loading", false),
                ("current", match Feed.current page.feed with | some it => dumpItem it | none => Json.null),
                ("window", Json.arr window.toArray),
                ("haschildren", Json.bool page.children.isSome),
                ("hasfrontier", Json.bool page.frontier.isSome),
                ("basepoint", Json.num page.basepoint),
                ("histback", Json.num s.hist.index),
                ("histforward", Json.num (s.hist.elements.length - 1 - s.hist.index))]

/-- The bytes the harness sends for a key token: `BYTES <hex>` stands for raw bytes (JSON strings
    cannot carry bytes that are not UTF-8), everything else for its UTF-8 encoding. -/
def tokenBytes (k : Str) : List Nat :=
  if "BYTES ".toList.isPrefixOf k then
    let hexVal (c : Char) : Nat :=
      if c.isDigit then c.toNat - '0'.toNat
      else if 'a'.toNat ≤ c.toNat ∧ c.toNat ≤ 'f'.toNat then c.toNat - 'a'.toNat + 10
      else if 'A'.toNat ≤ c.toNat ∧ c.toNat ≤ 'F'.toNat then c.toNat - 'A'.toNat + 10
      else 0
    let rec go : List Char → List Nat
      | a :: b :: rest => (16 * hexVal a + hexVal b) :: go rest
      | _ => []
    go (k.drop 6)
  else (String.ofList k).toUTF8.toList.map (·.toNat)

def uiOp (j : Json) : Except String Res := do
  let w0 ← pubWorldOf j
  -- link oracle
  let ltA ← arr j "linktable"
  let lt ← ltA.toList.mapM fun r => do
    let p ← r.getArr?
    let c ← (p[0]?.getD Json.null).getStr?
    let m ← (p[1]?.getD Json.null).getStr?
    let ls : List Str := match p[2]? with
      | some (Json.arr a) => a.toList.filterMap fun v => match v with | Json.str s => some s.toList | _ => none
      | _ => []
    pure (c.toList, m.toList, ls)
  let w : Pub.World := { w0 with
    links := fun o key =>
      match Obj.getString o key with
      | .ok content =>
        let mt : Str := match Obj.lookup o "mediaType".toList with | some (.str s) => s | _ => []
        match lt.find? (fun r => r.1 = content ∧ r.2.1 = mt) with
        | some (_, _, ls) => ls
        | none => []
      | .error _ => [] }
  let start ← str j "start_sub"
  let context ← nat j "context"
  let keys ← strList j "keys_sub"
  let height ← nat j "height"
  let impl := (j.getObjVal? "impl").toOption.getD Json.null
  let feeds : List (Str × List Str) := match j.getObjVal? "feeds_sub" with
    | .ok (Json.arr a) => a.toList.filterMap fun p => match p with
      | Json.arr q => match q[0]?, q[1]? with
        | some (Json.str n), some (Json.arr us) =>
          some (n.toList, us.toList.filterMap fun u => match u with | Json.str x => some x.toList | _ => none)
        | _, _ => none
      | _ => none
    | _ => []
  -- how the interface was started: `open <x>` (the default) or `feed <name>`; an unknown feed
  -- or subcommand is reported to main before any page exists
  let startcmd : Str := match j.getObjVal? "startcmd" with | .ok (Json.str c) => c.toList | _ => "open".toList
  let refused := (startcmd = "feed".toList ∧ (feeds.find? (fun f => f.1 = start)).isNone) ∨
                 (startcmd ≠ "feed".toList ∧ startcmd ≠ "open".toList)
  -- which HELD tokens found their load in flight (reported by the harness, in order)
  let heldFlags : List Bool := match j.getObjVal? "held" with
    | .ok (Json.arr a) => a.toList.map fun v => v == Json.bool true
    | _ => []
  if refused then
    pure { model := Json.mkObj [("subcommanderr", true)],
           preds := [("interface_not_wedged", true)], nontrivial := true }
  else
  match (if startcmd = "feed".toList then Ui.subcommand w { context := context, feeds := feeds } startcmd start
         else Ui.start w context start feeds) with
  | .error _ => pure { model := panicJson }
  | .ok s0 =>
    let mut s := s0
    let mut snaps : Array Json := #[snapshot s]
    let mut panicked := false
    let mut opened : Array Json := #[]
    let mut heldLeft := heldFlags
    for k in keys do
      if panicked then break
      -- HELD <starter> <during>…: when the starter's load was in flight while the remaining
      -- tokens arrived, the keymap says they do nothing (Update returns at once in loading
      -- mode); otherwise they were typed one by one as usual
      if "HELD\x1f".toList.isPrefixOf k ∨ "HELDS\x1f".toList.isPrefixOf k then
        let parts := ((String.ofList k).splitOn "\x1f").drop 1
        let inflight := heldLeft.headD false
        heldLeft := heldLeft.drop 1
        let toks := if inflight then parts.take 1 else parts
        for t in toks do
          if "RESIZE ".isPrefixOf t then continue
          if t == "HOOKDONE" then
            s := Ui.hookDone s
            continue
          for b in tokenBytes t.toList do
            if panicked then break
            match Ui.opens w s b with
            | some l => opened := opened.push (js l)
            | none => pure ()
            match Ui.update w s b with
            | .ok s' => s := s'
            | .error _ => panicked := true
        if !panicked then snaps := snaps.push (snapshot s)
        continue
      -- a terminal resize changes no state the model holds (frames are judged by the predicate)
      if "RESIZE ".toList.isPrefixOf k then
        snaps := snaps.push (snapshot s)
        continue
      -- a key token followed by a resize while its load is in flight: the settled state is the
      -- key token's (the resize changes no state the model holds)
      let k : Str := if "LOADRESIZE ".toList.isPrefixOf k then
          (((String.ofList k).splitOn " ").drop 3 |> String.intercalate " ").toList
        else k
      -- every hook started so far exits
      if k == "HOOKDONE".toList then
        s := Ui.hookDone s
        snaps := snaps.push (snapshot s)
        continue
      -- the harness sends the UTF-8 bytes of the token one by one
      let bytes := tokenBytes k
      -- byte by byte, to see which keys start the hook and with which link
      for b in bytes do
        if panicked then break
        match Ui.opens w s b with
        | some l => opened := opened.push (js l)
        | none => pure ()
        match Ui.update w s b with
        | .ok s' => s := s'
        | .error _ => panicked := true
      if !panicked then snaps := snaps.push (snapshot s)
    -- predicates on the implementation's output
    -- (lines of the frame, terminal height in force when it was drawn); the property speaks of
    -- terminals of at least two rows (a status line on a one-row terminal yields two lines)
    let heights : List (Nat × Nat) := match j.getObjVal? "frameheights" with
      | .ok (Json.arr a) => a.toList.map fun v => match v with
        | Json.arr p => (((p[0]?.getD Json.null).getNat?).toOption.getD 0, ((p[1]?.getD Json.null).getNat?).toOption.getD 0)
        | _ => ((v.getNat?).toOption.getD 0, height)
      | _ => []
    let frames : List Str := match j.getObjVal? "frames_sample" with
      | .ok (Json.arr a) => a.toList.filterMap fun v => match v with | Json.str s => some s.toList | _ => none
      | _ => []
    let notWedged := (impl.getObjVal? "wedged").toOption.isNone
    -- C12/C20 through the UI: what the hook was started with, in order, is what the numbers and
    -- media keys typed name (also while an earlier hook was still running)
    let openedOk := panicked || (impl.getObjVal? "opened").toOption.isNone ||
      -- (the hook programs are separate processes that write their own line of the record: two
      -- started within microseconds of each other may write in either order — compared as multisets)
      (match impl.getObjVal? "opened" with
        | .ok (Json.arr a) =>
          let key (v : Json) : String := v.compress
          (a.toList.map key).mergeSort (· ≤ ·) == (opened.toList.map key).mergeSort (· ≤ ·)
        | _ => false)
    -- the record of started hooks is compared as a multiset (see above): both sides list it sorted
    let openedSorted : Array Json := ((opened.toList.map fun v => v.compress).mergeSort (· ≤ ·)).toArray.map fun t =>
      (Json.parse t).toOption.getD Json.null
    pure { model := if panicked then panicJson else Json.mkObj [("opened", Json.arr openedSorted), ("snaps", Json.arr snaps)],
           preds := [("frames_have_terminal_height", heights.all (fun p => p.2 < 2 || p.1 == p.2)),
                     ("frames_safe", frames.all Safe.safe),
                     ("frames_neutral", frames.all Cells.neutralAtBreaks),
                     ("interface_not_wedged", notWedged),
                     ("numbers_open_their_targets", openedOk)],
           nontrivial := keys.length ≥ 3 }

end Ops

namespace Ops

/-- op "uistress": predicate-only (schedules cannot be replayed by the model): no overlapping
    frame emission, every frame as tall as the state said when it was drawn, every key handler
    returned. -/
def uiStressOp (j : Json) : Except String Res := do
  let impl := (j.getObjVal? "impl").toOption.getD Json.null
  let n (k : String) : Nat := ((impl.getObjVal? k).toOption.bind (·.getNat?.toOption)).getD 1
  let stuck := (impl.getObjVal? "stuck").toOption != some (Json.bool false)
  pure { model := impl,
         preds := [("frames_one_at_a_time", n "overlaps" == 0), ("every_key_processed", !stuck),
                   ("frame_height_matches_state", n "badheights" == 0)],
         nontrivial := (impl.getObjVal? "frames_emitted").toOption == some (Json.bool true) }


/-- `mainpty`: the program on a pseudo terminal.  After every step, once the screen is at rest,
    the frame on it has as many lines as the terminal has rows (`Ui.frame` has the height of the
    state, C16.view_height; main's poller hands every size it reads to `SetWidthHeight`). -/
def mainPtyOp (j : Json) : Except String Res := do
  let impl := (j.getObjVal? "impl").toOption.getD Json.null
  let obs : List Json := match impl.getObjVal? "observed" with | .ok (Json.arr a) => a.toList | _ => []
  let ok := obs.all fun o => match o with
    | Json.arr q => match q[0]?, q[2]?, q[3]?, q[4]? with
      | some (Json.str "exited"), _, _, _ => false
      | _, some hj, some (Json.bool drawn), some lj =>
        (match hj.getNat?, lj.getNat? with
         | .ok h, .ok l => h < 2 || (drawn && l == h)
         | _, _ => false)
      | _, _, _, _ => false
    | _ => false
  let ran := !obs.isEmpty
  pure { model := impl, preds := [("frames_have_terminal_height", !ran || ok)], nontrivial := obs.length ≥ 3 }

end Ops
