import Driver.Util

/- Driver ops for history / feed (C18), collection paging (C10) and the splicer (C11). -/
open Lean Drv

namespace Ops

def stepName (j : Json) : Except String (String × Option Json) := do
  let a ← j.getArr?
  let n ← (a[0]?.getD Json.null).getStr?
  pure (n, a[1]?)

def intList (j : Json) : Except String (List Int) := do
  let a ← j.getArr?
  a.toList.mapM (·.getInt?)

def historyOp (j : Json) : Except String Res := do
  let seq ← arr j "seq"
  let mut h : History.H Int := {}
  let mut obs : Array Json := #[]
  let mut adds := 0
  let mut moves := 0
  for s in seq do
    let (n, arg) ← stepName s
    let op : History.Op Int ← match n with
      | "add" => do
        let v ← (arg.getD Json.null).getInt?
        pure (History.Op.add v)
      | "back" => pure .back
      | "forward" => pure .forward
      | _ => throw "bad history step"
    match n with
    | "add" => adds := adds + 1
    | _ => moves := moves + 1
    match History.step h op with
    | .error _ => return { model := panicJson }
    | .ok h' => h := h'
    let cur := match History.current h with
      | .ok x => Json.num x
      | .error _ => panicJson
    obs := obs.push (Json.arr #[Json.bool (History.isEmpty h), cur])
  pure { model := Json.arr obs, nontrivial := adds ≥ 2 && moves ≥ 1 }

def optLabel (o : Option Int) : Json :=
  match o with
  | some v => Json.str (toString v)
  | none => Json.null

def feedObserve (f : Feed.F Int) (window : Int) : Json :=
  let offs : List Int := (List.range (2 * window.toNat + 1)).map fun (i : Nat) => (Int.ofNat i) - window
  let rows := offs.map fun off =>
    let g := match Feed.get f off with
      | .ok v => optLabel v
      | .error _ => panicJson
    Json.arr #[Json.bool (Feed.contains f off), Json.bool (Feed.isParent f off), Json.bool (Feed.isChild f off), g]
  Json.arr #[optLabel (Feed.current f), Json.arr rows.toArray]

def feedOp (j : Json) : Except String Res := do
  let initv ← arr j "init"
  let kind ← (initv[0]?.getD Json.null).getStr?
  let window ← int j "window"
  let mut f : Feed.F Int ← match kind with
    | "create" => do
      let v ← (initv[1]?.getD Json.null).getInt?
      pure (Feed.create v)
    | _ => do
      let l ← intList (initv[1]?.getD Json.null)
      pure (Feed.createAndAppend l)
  let seq ← arr j "seq"
  let mut obs : Array Json := #[feedObserve f window]
  for s in seq do
    let (n, arg) ← stepName s
    let op : Feed.Op Int ← match n with
      | "append" => do pure (Feed.Op.append (← intList (arg.getD Json.null)))
      | "prepend" => do pure (Feed.Op.prepend (← intList (arg.getD Json.null)))
      | "up" => pure .up
      | "down" => pure .down
      | "center" => pure .center
      | _ => throw "bad feed step"
    f := Feed.step f op
    obs := obs.push (feedObserve f window)
  pure { model := Json.arr obs, nontrivial := seq.size ≥ 2 }

end Ops
