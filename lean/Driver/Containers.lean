import Driver.Util
import Driver.Object

/- Driver ops for history / feed (C18), collection paging (C10) and the splicer (C11). -/
open Lean Drv

namespace Ops

def stepName (j : Json) : Except String (String × Option Json) := do
  let a ← j.getArr?
  let n ← (a[0]?.getD Json.null).getStr?
  pure (n, a[1]?)

def intList (j : Json) : Except String (List Int) := do
  let a ← j.getArr?
  a.toList.mapM (·.getInt?)

/-- Optional repeat count of a step (`["back", 300]`): the run is observed once, at its end. -/
def stepCount (j : Json) (at_ : Nat) : Except String Nat := do
  let a ← j.getArr?
  match a[at_]? with
  | some v => v.getNat?
  | none => pure 1

def historyOp (j : Json) : Except String Res := do
  let seq ← arr j "seq"
  let mut h : History.H Int := {}
  let mut obs : Array Json := #[]
  let mut adds := 0
  let mut moves := 0
  for s in seq do
    let (n, arg) ← stepName s
    -- the operations this step stands for
    let ops : List (History.Op Int) ← match n with
      | "add" => do
        let v ← (arg.getD Json.null).getInt?
        pure [History.Op.add v]
      | "adds" => do
        let first ← (arg.getD Json.null).getInt?
        let k ← stepCount s 2
        pure ((List.range k).map fun (i : Nat) => History.Op.add (first + Int.ofNat i))
      | "back" => do pure (List.replicate (← stepCount s 1) .back)
      | "forward" => do pure (List.replicate (← stepCount s 1) .forward)
      | _ => throw "bad history step"
    match n with
    | "add" | "adds" => adds := adds + ops.length
    | _ => moves := moves + 1
    for op in ops do
      match History.step h op with
      | .error _ => return { model := panicJson }
      | .ok h' => h := h'
    let cur := match History.current h with
      | .ok x => Json.num x
      | .error _ => panicJson
    obs := obs.push (Json.arr #[Json.bool (History.isEmpty h), cur])
  pure { model := Json.arr obs, nontrivial := adds ≥ 2 && moves ≥ 1 }

def optLabel (o : Option Int) : Json :=
  match o with
  | some v => Json.str (toString v)
  | none => Json.null

def feedRow (f : Feed.F Int) (off : Int) : Json :=
  let g := match Feed.get f off with
    | .ok v => optLabel v
    | .error _ => panicJson
  Json.arr #[Json.bool (Feed.contains f off), Json.bool (Feed.isParent f off), Json.bool (Feed.isChild f off), g]

def feedObserve (f : Feed.F Int) (window : Int) : Json :=
  let offs : List Int := (List.range (2 * window.toNat + 1)).map fun (i : Nat) => (Int.ofNat i) - window
  Json.arr #[optLabel (Feed.current f), Json.arr (offs.map (feedRow f)).toArray]

def rangeFrom (first : Int) (k : Nat) : List Int := (List.range k).map fun (i : Nat) => first + Int.ofNat i

def iterate (k : Nat) (g : α → α) (x : α) : α := Id.run do
  let mut y := x
  for _ in [0:k] do
    y := g y
  pure y

def feedOp (j : Json) : Except String Res := do
  let initv ← arr j "init"
  let kind ← (initv[0]?.getD Json.null).getStr?
  let window ← int j "window"
  let mut f : Feed.F Int ← match kind with
    | "create" => do
      let v ← (initv[1]?.getD Json.null).getInt?
      pure (Feed.create v)
    | "createn" => do
      let first ← (initv[1]?.getD Json.null).getInt?
      let k ← (initv[2]?.getD Json.null).getNat?
      pure (Feed.createAndAppend (rangeFrom first k))
    | _ => do
      let l ← intList (initv[1]?.getD Json.null)
      pure (Feed.createAndAppend l)
  let seq ← arr j "seq"
  let mut obs : Array Json := #[feedObserve f window]
  for s in seq do
    let (n, arg) ← stepName s
    if n == "probe" then
      let offs ← intList (arg.getD Json.null)
      obs := obs.push (Json.arr #[optLabel (Feed.current f), Json.arr (offs.map (feedRow f)).toArray])
      continue
    let (op, times) : Feed.Op Int × Nat ← match n with
      | "append" => do pure (Feed.Op.append (← intList (arg.getD Json.null)), 1)
      | "prepend" => do pure (Feed.Op.prepend (← intList (arg.getD Json.null)), 1)
      | "appendn" => do pure (Feed.Op.append (rangeFrom (← (arg.getD Json.null).getInt?) (← stepCount s 2)), 1)
      | "prependn" => do pure (Feed.Op.prepend (rangeFrom (← (arg.getD Json.null).getInt?) (← stepCount s 2)), 1)
      | "up" => do pure (.up, ← stepCount s 1)
      | "down" => do pure (.down, ← stepCount s 1)
      | "center" => pure (.center, 1)
      | _ => throw "bad feed step"
    f := iterate times (fun g => Feed.step g op) f
    obs := obs.push (feedObserve f window)
  pure { model := Json.arr obs, nontrivial := seq.size ≥ 2 }

end Ops

/-! ### C10: paging -/
namespace Ops

def collKinds : List Str := ["Collection".toList, "OrderedCollection".toList, "CollectionPage".toList, "OrderedCollectionPage".toList]

/-- `NewCollectionFromObject` on a decoded object. -/
def pageOfObj (kvs : List (Str × JVal)) : Option (Coll.Page JVal JVal) :=
  match Obj.getString kvs "type".toList with
  | .error _ => none
  | .ok kind =>
    if !collKinds.contains kind then none
    else
      let unordered := kind = "Collection".toList || kind = "CollectionPage".toList
      let root := kind = "Collection".toList || kind = "OrderedCollection".toList
      let elems : Coll.Elems JVal :=
        match Obj.getList kvs (if unordered then "items".toList else "orderedItems".toList) with
        | .ok xs => .ok xs
        | .error .absent => .absent
        | .error .wrong => .err
      let next : Coll.Next JVal :=
        match Obj.getAny kvs (if root then "first".toList else "next".toList) with
        | .ok v => .ref v
        | .error .absent => .absent
        | .error .wrong => .err
      some ⟨elems, next⟩

/-- `NewCollection(c.next, …)` in a world without reachable servers: only an embedded object
    without an `id` can be used as is (`FetchUnknown` would re-fetch anything carrying an id). -/
def loadOffline (r : JVal) : Option (Coll.Page JVal JVal) :=
  match r with
  | .obj kvs =>
    match Obj.getAny kvs "id".toList with
    | .error .absent => pageOfObj kvs
    | _ => none
  | _ => none

def tagJson (o : Coll.Out JVal) : Json :=
  match o with
  | .item (.str s) => js s
  | .item _ => Json.str "<other>"
  | .refuse => Json.mkObj [("fail", "refuse")]
  | _ => Json.mkObj [("fail", "error")]

def implTags (impl : Json) : List Json :=
  match impl with
  | Json.arr rounds => (rounds.toList.map fun rd => match rd with
      | Json.arr parts => match parts[0]? with
        | some (Json.arr tags) => tags.toList
        | _ => []
      | _ => []).flatten
  | _ => []

def pagingOp (j : Json) : Except String Res := do
  let impl := (j.getObjVal? "impl").toOption.getD Json.null
  if let .ok _ := impl.getObjVal? "baddoc" then return { model := impl, nontrivial := false }
  let doc ← toJVal (← j.getObjVal? "tree")
  let kvs ← match doc with
    | .obj kvs => pure kvs
    | _ => throw "root is not an object"
  let start ← nat j "start"
  -- a script of steps [kind, amount, k?] ("h" advances, "again" asks the latest continuation
  -- without advancing, "old" asks the k-th continuation handed out so far); a plain list of
  -- amounts is a script of "h" steps
  let script : List (String × Nat × Nat) ← match j.getObjVal? "script" with
    | .ok (Json.arr a) => a.toList.mapM fun stp => do
        let p ← stp.getArr?
        let kind ← (p[0]?.getD Json.null).getStr?
        let q ← (p[1]?.getD Json.null).getNat?
        let k := ((p[2]?.getD Json.null).getNat?).toOption.getD 0
        pure (kind, q, k)
    | _ => do
        let reqs ← arr j "requests"
        reqs.toList.mapM fun q => do pure ("h", (← q.getNat?), 0)
  match pageOfObj kvs with
  | none => pure { model := Json.mkObj [("notcollection", true)], nontrivial := false }
  | some root =>
    let mut conts : Array (Coll.Page JVal JVal × Nat) := #[(root, start)]
    let mut out : Array Json := #[]
    let mut pagesSeen := 0
    let mut ended := false
    for (kind, n, k) in script do
      if ended then break
      let (cur, off) := (if kind == "old" then conts[k % conts.size]? else conts.back?).getD (root, start)
      let r := Coll.harvest loadOffline cur n off
      if kind == "h" then pagesSeen := pagesSeen + r.pages
      match r.cont with
      | none =>
        out := out.push (Json.arr #[Json.arr (r.out.map tagJson).toArray, true, Json.num (0 : Nat)])
        if kind == "h" then ended := true
      | some (p, o) =>
        out := out.push (Json.arr #[Json.arr (r.out.map tagJson).toArray, false, Json.num o])
        if kind == "h" then conts := conts.push (p, o)
    -- the rounds that advance: the delivery the property speaks of
    let implAll : List Json := match (j.getObjVal? "impl").toOption.getD Json.null with | Json.arr r => r.toList | _ => []
    let advancing := (implAll.zip script).filter fun (_, (kind, _, _)) => kind == "h"
    let impl := Json.arr (advancing.map (·.1)).toArray
    let reqs : Array Json := (advancing.map fun (_, (_, n, _)) => Json.num n).toArray
    -- the same continuation asked twice gives the same answer: an "again" step against the step
    -- after it, an "old" step naming continuation k against the k-th advancing step
    let hPos : List Nat := (List.range script.length).filter fun i => (script[i]?.map (·.1)) == some "h"
    let sameOk := (List.range implAll.length).all fun i =>
      match script[i]?, implAll[i]? with
      | some ("again", q, _), some r =>
        (match script[i + 1]?, implAll[i + 1]? with
         | some ("h", q2, _), some r2 => q != q2 || r == r2
         | _, _ => true)
      | some ("old", q, k), some r =>
        let before := (hPos.filter (· < i)).length
        (match hPos[k % (before + 1)]? with
         | some h => (match script[h]?, implAll[h]? with
           | some (_, qh, _), some rh => qh != q || rh == r
           | _, _ => true)
         | none => true)
      | _, _ => true
    -- predicates on the implementation's output
    let truth := (Coll.flat loadOffline 2000 root start).map fun e => tagJson (.item e)
    let it := implTags impl
    let isFail (t : Json) : Bool := match t with | Json.obj _ => true | _ => false
    let items := it.filter (fun t => !isFail t)
    let fails := it.filter isFail
    let prefixOk := items.isPrefixOf truth && fails.length ≤ 1 &&
      (fails.isEmpty || (it.getLast?.map isFail).getD false)
    -- a refusal needs more than `threshold` consecutive empty pages somewhere in the chain
    let ch := Coll.chain loadOffline 2000 root
    let emptyFlags := ch.map fun p => p.items.isEmpty
    let rec hasRun : List Bool → Nat → Bool
      | [], _ => false
      | b :: bs, k => if b then (k + 1 > Coll.threshold) || hasRun bs (k + 1) else hasRun bs 0
    -- nothing behind a run of more than `threshold` consecutive empty pages may be delivered
    let rec upToRun : List (Coll.Page JVal JVal) → Nat → List JVal
      | [], _ => []
      | p :: ps, k =>
        if p.items.isEmpty then (if k + 1 > Coll.threshold then [] else upToRun ps (k + 1))
        else p.items ++ upToRun ps 0
    let reachable := (match ch with
      | [] => []
      | p :: ps => if p.items.isEmpty then upToRun ps 1 else (p.items.drop start) ++ upToRun ps 0).map fun e => tagJson (.item e)
    let boundedOk := items.isPrefixOf reachable
    let refused := it.any fun t => t == Json.mkObj [("fail", "refuse")]
    let refusalOk := !refused || hasRun emptyFlags 0
    -- an empty continuation without an error item means everything was delivered
    let lastRound : Option Json := match impl with | Json.arr r => r.toList.getLast? | _ => none
    let endedClean := (match lastRound with
      | some (Json.arr parts) => parts[1]? == some (Json.bool true)
      | _ => false) && fails.isEmpty
    let completeOk := !endedClean || items == truth
    -- a continuation is only returned together with the full requested amount
    let implRounds : List Json := match impl with | Json.arr r => r.toList | _ => []
    let reqNs : List Nat := reqs.toList.map fun q => (q.getNat?).toOption.getD 0
    let contOk := (implRounds.zip reqNs).all fun (rd, n) => match rd with
      | Json.arr parts => match parts[0]?, parts[1]? with
        | some (Json.arr tags), some (Json.bool ended) => ended || (tags.size == n && tags.all fun t => !isFail t)
        | _, _ => false
      | _ => false
    pure { model := Json.arr out,
           preds := [("delivered_is_prefix_of_true_sequence", prefixOk), ("continuation_means_full_request", contOk),
                     ("refusal_only_after_consecutive_empties", refusalOk),
                     ("nothing_delivered_beyond_an_empty_run", boundedOk),
                     ("clean_end_means_complete", completeOk),
                     ("same_continuation_same_answer", sameOk)],
           nontrivial := pagesSeen ≥ 3 }

/-! ### C11: splicer -/

structure FItem where
  label : Str
  ts : Int
  deriving Repr

def spliceOp (j : Json) : Except String Res := do
  let srcs ← arr j "sources"
  let nilEmpty ← nat j "nilempty"
  let sources : List (Splicer.Source (List FItem) FItem) ← srcs.toList.mapM fun s => do
    let its ← s.getArr?
    let items ← its.toList.mapM fun it => do
      let p ← it.getArr?
      let l ← (p[0]?.getD Json.null).getStr?
      -- an instant in nanoseconds relative to 2020-01-01T00:00:00Z (seconds, then optional
      -- nanoseconds; a zone, if given, does not change the instant); a missing timestamp is
      -- Go's zero time (year 1), which generated instants may precede
      let nsec : Int := match p[2]? with
        | some (Json.num n) => n.mantissa
        | _ => 0
      let t : Int := match p[1]? with
        | some (Json.num n) => n.mantissa * 1000000000 + nsec
        | _ => (-62135596800 - 1577836800) * 1000000000
      pure (⟨l.toList, t⟩ : FItem)
    pure { basepoint := 0,
           page := if items.isEmpty && nilEmpty == 1 then none else some items,
           elements := [] }
  -- the synthetic container of the harness: delivers exactly what is asked
  let hv : Splicer.Hv (List FItem) FItem := fun items q st =>
    if st ≥ items.length then ([], none, 0)
    else if st + q ≥ items.length then (items.drop st, none, 0)
    else ((items.drop st).take q, some items, st + q)
  let script ← arr j "script"
  let mut cur := sources
  -- every continuation handed out so far (0 = the feed as built); an "old" step asks one again
  let mut conts : Array (List (Splicer.Source (List FItem) FItem)) := #[sources]
  let mut out : Array Json := #[]
  let mut ended := false
  let mut total := 0
  for stp in script do
    if ended then break
    let p ← stp.getArr?
    let kind ← (p[0]?.getD Json.null).getStr?
    let q ← (p[1]?.getD Json.null).getNat?
    let st ← (p[2]?.getD Json.null).getNat?
    let from_ ← if kind == "old" then do
        let k ← (p[3]?.getD Json.null).getNat?
        pure (conts[k % conts.size]?.getD cur)
      else pure cur
    let r := Splicer.harvest hv (fun (i : FItem) => i.ts) from_ q st
    total := total + r.1.length
    out := out.push (Json.arr #[Json.arr (r.1.map fun i => js i.label).toArray, Json.bool r.2.isNone])
    if kind == "h" then
      match r.2 with
      | none => ended := true
      | some s' =>
        cur := s'
        conts := conts.push s'
  -- predicates on the implementation's output: fewer items than asked only with an empty
  -- continuation; no item twice within the rounds that advance the feed
  let impl := (j.getObjVal? "impl").toOption.getD Json.null
  let rounds : List Json := match impl with | Json.arr r => r.toList | _ => []
  let qs : List Nat := script.toList.map fun stp => match stp with
    | Json.arr p => ((p[1]?.getD Json.null).getNat?).toOption.getD 0
    | _ => 0
  let shortOk := (rounds.zip qs).all fun (rd, q) => match rd with
    | Json.arr parts => match parts[0]?, parts[1]? with
      | some (Json.arr tags), some (Json.bool nil) => tags.size ≥ q || nil
      | _, _ => false
    | _ => false
  -- the same position asked twice gives the same answer
  let stepsInfo : List (String × Nat × Nat) := script.toList.map fun stp => match stp with
    | Json.arr p => (((p[0]?.getD Json.null).getStr?).toOption.getD "", ((p[1]?.getD Json.null).getNat?).toOption.getD 0, ((p[2]?.getD Json.null).getNat?).toOption.getD 0)
    | _ => ("", 0, 0)
  let idx := List.range (rounds.length - 1)
  let againOk := idx.all fun i =>
    match stepsInfo[i]?, stepsInfo[i + 1]?, rounds[i]?, rounds[i + 1]? with
    | some (k1, q1, s1), some (k2, q2, s2), some r1, some r2 =>
      !(k1 == "again" && k2 != "old" && q1 == q2 && s1 == s2) || r1 == r2
    | _, _, _, _ => true
  -- ... also when the position is an older continuation asked again after newer ones exist: the
  -- k-th advancing step was asked of continuation k, so an "old" step naming k with the same
  -- request gets the same answer
  let oldKs : List Nat := script.toList.map fun stp => match stp with
    | Json.arr p => ((p[3]?.getD Json.null).getNat?).toOption.getD 0
    | _ => 0
  let hIdx : List Nat := (List.range rounds.length).filter fun i => (stepsInfo[i]?.map (·.1)) == some "h"
  let oldOk := (List.range rounds.length).all fun i =>
    match stepsInfo[i]?, oldKs[i]?, rounds[i]? with
    | some ("old", q, st), some k, some r =>
      let before := (hIdx.filter (· < i)).length
      match hIdx[k % (before + 1)]? with
      | some h => if h < i then
          (match stepsInfo[h]?, rounds[h]? with
           | some (_, qh, sth), some rh => !(qh == q && sth == st) || rh == r
           | _, _ => true)
        else true
      | none => true
    | _, _, _ => true
  let againOk := againOk && oldOk
  -- the feed ends only when every item of every source has been delivered (scripts that never
  -- skip: every advancing step starts at offset 0)
  let noSkips := stepsInfo.all fun (k, _, st) => k != "h" || st == 0
  let hRounds := (rounds.zip stepsInfo).filter fun (_, (k, _, _)) => k == "h"
  let deliveredH : Nat := hRounds.foldl (fun n (rd, _) => match rd with
    | Json.arr parts => match parts[0]? with | some (Json.arr tags) => n + tags.size | _ => n
    | _ => n) 0
  let endedI := hRounds.any fun (rd, _) => match rd with
    | Json.arr parts => parts[1]? == some (Json.bool true)
    | _ => false
  let totalItems := (sources.map fun s => match s.page with | some l => l.length | none => 0).foldl (· + ·) 0
  let endOk := !noSkips || !endedI || deliveredH == totalItems
  -- a position asked by several callers at once: everyone got the lone asker's answer
  let agreeOk := rounds.all fun rd => match rd with
    | Json.arr parts => match parts[0]? with
      | some (Json.arr tags) => tags[0]? != some (Json.str "DIVERGED")
      | _ => true
    | _ => true
  pure { model := Json.arr out, preds := [("short_delivery_ends_feed", shortOk), ("same_position_same_answer", againOk),
                                          ("ends_only_when_all_sources_are_exhausted", endOk),
                                          ("concurrent_askers_agree", agreeOk)],
         nontrivial := total ≥ 3 && sources.length ≥ 2 }

end Ops
