import Driver

open Lean

partial def loop (h : IO.FS.Stream) (out : IO.FS.Stream) : IO Unit := do
  let line ← h.getLine
  if line.isEmpty then return ()
  let res : Json :=
    match Json.parse line with
    | .error e => Json.mkObj [("error", Json.str s!"parse: {e}")]
    | .ok j =>
      match Ops.dispatch j with
      | .ok r => r.toJson
      | .error e => Json.mkObj [("error", Json.str e)]
  out.putStrLn res.compress
  loop h out

def main : IO Unit := do
  let stdin ← IO.getStdin
  let stdout ← IO.getStdout
  loop stdin stdout
  stdout.flush
