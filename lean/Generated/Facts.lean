namespace Generated
end Generated
