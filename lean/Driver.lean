import Driver.Util
import Driver.Ops
