-- facts regenerated from /repo by extract/ on every run
import Generated.Facts
import Generated.GoCode
