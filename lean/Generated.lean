-- facts and code regenerated from /repo by extract/ on every run
import Generated.Facts
import Generated.GoHistory
import Generated.GoFeed
import Generated.GoAnsi
import Generated.GoStyle
import Generated.GoObject
import Generated.GoConfig
import Generated.GoLink
import Generated.GoCollection
import Generated.GoSplicer
import Generated.GoMime
import Generated.GoJtp
import Generated.GoAnsih
import Generated.GoView
import Generated.GoSelect
import Generated.GoUpdate
