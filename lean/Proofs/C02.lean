import Model

/-
  Helper lemmas for C02 (provenance of objects accepted by `FetchUnknown` and of the items the
  constructors of package `pub` build from them).  The definitions `Sub` … `ItemOk` are copies of
  those in Props/C02.lean; the Props file bridges them.
-/

namespace C02aux
open Pub Obj

/-! ### Definitions (identical copies of those in Props/C02.lean) -/

inductive Sub : JVal → JVal → Prop where
  | refl (v : JVal) : Sub v v
  | arr (v x : JVal) (xs : List JVal) : x ∈ xs → Sub v x → Sub v (.arr xs)
  | obj (v x : JVal) (k : Str) (kvs : List (Str × JVal)) : (k, x) ∈ kvs → Sub v x → Sub v (.obj kvs)

def Served (w : World) (host : Str) (o : O) : Prop :=
  ∃ url doc src, w.fetch url = some (doc, src) ∧ src.host = host ∧ Sub (.obj o) (.obj doc)

def Pre (w : World) (input : JVal) (source : Option U) : Prop :=
  ∀ s kvs, source = some s → input = .obj kvs → Served w s.host kvs

def ActorOk (w : World) (a : ActorM) : Prop := ∀ id, a.id = some id → Served w id.host a.obj

def AorFOk (w : World) : AorF → Prop
  | .actor a => ActorOk w a
  | .failure => True

def PostOk (w : World) (p : PostM) : Prop :=
  (∀ id, p.id = some id → Served w id.host p.obj) ∧
  (∀ x ∈ p.creators, AorFOk w x) ∧ (∀ x ∈ p.recipients, AorFOk w x) ∧
  (∀ po pid, p.parent = .ok (po, some pid) → Served w pid.host po)

def TargetOk (w : World) : Target → Prop
  | .post p => PostOk w p
  | .actor a => ActorOk w a
  | .failure => True

def ActivityOk (w : World) (a : ActivityM) : Prop :=
  (∀ id, a.id = some id → Served w id.host a.obj) ∧
  (∀ ac, a.actor = .ok ac → ActorOk w ac) ∧ TargetOk w a.target

def ItemOk (w : World) : Item → Prop
  | .failure => True
  | .actor a => ActorOk w a
  | .post p => PostOk w p
  | .activity a => (∀ id, a.id = some id → Served w id.host a.obj) ∧
      (∀ ac, a.actor = .ok ac → ActorOk w ac) ∧ TargetOk w a.target
  | .collection _ => True

/-- "`o` was served by the host of `id`, if there is an `id`" — the invariant every constructor
    receives for the object it builds from and hands on to the members it resolves. -/
def HS (w : World) (o : O) (id : Option U) : Prop := ∀ s, id = some s → Served w s.host o

/-! ### `Sub` -/

theorem Sub.trans {a b c : JVal} (h1 : Sub a b) (h2 : Sub b c) : Sub a c := by
  induction h2 with
  | refl => exact h1
  | arr x xs hm _ ih => exact Sub.arr _ x xs hm ih
  | obj x k kvs hm _ ih => exact Sub.obj _ x k kvs hm ih

theorem served_sub (w : World) (host : Str) (o o' : O) (h : Served w host o)
    (hs : Sub (.obj o') (.obj o)) : Served w host o' := by
  obtain ⟨url, doc, src, hf, hh, hsub⟩ := h
  exact ⟨url, doc, src, hf, hh, Sub.trans hs hsub⟩

/-! ### JSON accessors yield sub-values -/

theorem lookup_mem {kvs : List (Str × JVal)} {k : Str} {v : JVal} (h : lookup kvs k = some v) :
    (k, v) ∈ kvs := by
  unfold lookup at h
  split at h
  · rename_i p hp
    have hm := List.mem_of_find?_eq_some hp
    have hk := List.find?_some hp
    simp at hk h
    cases p
    simp_all
  · cases h

theorem getAny_mem {o : List (Str × JVal)} {k : Str} {v : JVal} (h : getAny o k = .ok v) :
    (k, v) ∈ o := by
  unfold getAny at h
  cases hl : lookup o k with
  | none => simp [hl] at h
  | some v' =>
    cases v' <;> simp [hl] at h <;> (subst h; exact lookup_mem hl)

theorem getAny_sub {o : List (Str × JVal)} {k : Str} {v : JVal} (h : getAny o k = .ok v) :
    Sub v (.obj o) :=
  Sub.obj _ v k o (getAny_mem h) (Sub.refl v)

theorem getList_sub {o : List (Str × JVal)} {k : Str} {l : List JVal} (h : getList o k = .ok l)
    {x : JVal} (hx : x ∈ l) : Sub x (.obj o) := by
  unfold getList at h
  cases hg : getAny o k with
  | error e => simp [hg] at h
  | ok v =>
    cases v with
    | arr xs =>
      simp [hg] at h
      subst h
      exact Sub.trans (Sub.arr _ x _ hx (Sub.refl x)) (getAny_sub hg)
    | _ =>
      simp [hg] at h
      subst h
      simp at hx
      subst hx
      exact getAny_sub hg

theorem pre_of_sub {w : World} {o : O} {id : Option U} (hs : HS w o id) {x : JVal}
    (hx : Sub x (.obj o)) : Pre w x id := by
  intro s kvs hid hxe
  subst hxe
  exact served_sub w _ o kvs (hs s hid) hx

/-! ### Inversion of `fetchUnknown` -/

/-- The first step of `fetchUnknown`: dereference a string, keep an embedded object. -/
def first (w : World) (input : JVal) (source : Option U) : Except Unit (O × Option U) :=
  match input with
  | .str s =>
    match w.parse s with
    | none => .error ()
    | some ref => match w.fetch (w.target source ref).str with
      | some (o, src) => .ok (o, some src)
      | none => .error ()
  | .obj kvs => .ok (kvs, source)
  | _ => .error ()

theorem first_inv {w : World} {input : JVal} {source : Option U} {o0 : O} {src0 : Option U}
    (h : first w input source = .ok (o0, src0)) :
    (∃ ref u src, input = .str ref ∧ w.parse ref = some u ∧
        w.fetch (w.target source u).str = some (o0, src) ∧ src0 = some src) ∨
    (input = .obj o0 ∧ src0 = source) := by
  unfold first at h
  split at h
  · rename_i s
    split at h
    · cases h
    · rename_i u hu
      split at h
      · rename_i o src hf
        cases h
        exact .inl ⟨s, u, src, rfl, hu, hf, rfl⟩
      · cases h
  · cases h
    exact .inr ⟨rfl, rfl⟩
  · cases h

/-- The re-fetch from the URL in the id, with the forged-id check. -/
def refetch (w : World) (id : U) : Except Unit (O × Option U) :=
  match w.fetch id.str with
  | none => .error ()
  | some (o', src') =>
    match getId w o' with
    | .error e => .error e
    | .ok none => .ok (o', none)
    | .ok (some id') => if src'.host ≠ id'.host then .error () else .ok (o', some id')

/-- Whether the first object must be re-fetched. -/
def needs (o : O) (src : Option U) (id : U) : Bool :=
  match src with
  | none => true
  | some s => s.host ≠ id.host || o.length ≤ 2

/-- The second step: validate / re-fetch. -/
def second (w : World) (o : O) (src : Option U) : Except Unit (O × Option U) :=
  match getId w o with
  | .error e => .error e
  | .ok none => .ok (o, none)
  | .ok (some id) => if !needs o src id then .ok (o, some id) else refetch w id

theorem fetchUnknown_eq (w : World) (input : JVal) (source : Option U) :
    fetchUnknown w input source =
      match first w input source with
      | .error e => .error e
      | .ok (o, src) => second w o src := rfl

theorem fetchUnknown_split {w : World} {input : JVal} {source : Option U} {r : O × Option U}
    (h : fetchUnknown w input source = .ok r) :
    ∃ o0 src0, first w input source = .ok (o0, src0) ∧ second w o0 src0 = .ok r := by
  rw [fetchUnknown_eq] at h
  split at h
  · cases h
  · rename_i o src hf
    exact ⟨o, src, hf, h⟩

theorem refetch_fst {w : World} {id0 : U} {r : O × Option U} (h : refetch w id0 = .ok r) :
    ∃ src', w.fetch id0.str = some (r.1, src') := by
  unfold refetch at h
  split at h
  · cases h
  · rename_i o' src' hf
    split at h
    · cases h
    · cases h
      exact ⟨src', hf⟩
    · split at h
      · cases h
      · cases h
        exact ⟨src', hf⟩

theorem refetch_inv {w : World} {id0 : U} {o : O} {id : U} (h : refetch w id0 = .ok (o, some id)) :
    ∃ src', w.fetch id0.str = some (o, src') ∧ src'.host = id.host ∧ getId w o = .ok (some id) := by
  unfold refetch at h
  split at h
  · cases h
  · rename_i o' src' hf
    split at h
    · cases h
    · cases h
    · rename_i id' hid'
      split at h
      · cases h
      · rename_i hh
        cases h
        exact ⟨src', hf, by simpa using hh, hid'⟩

/-- The two ways `second` returns an object with an id: kept as is (its source's host is the
    id's host), or re-fetched from the URL in the id of the first object. -/
theorem second_inv {w : World} {o0 : O} {src0 : Option U} {o : O} {id : U}
    (h : second w o0 src0 = .ok (o, some id)) :
    (∃ s, src0 = some s ∧ s.host = id.host ∧ o = o0 ∧ getId w o0 = .ok (some id)) ∨
    (∃ id0 src', getId w o0 = .ok (some id0) ∧ w.fetch id0.str = some (o, src') ∧
        src'.host = id.host ∧ getId w o = .ok (some id)) := by
  unfold second at h
  split at h
  · cases h
  · cases h
  · rename_i id0 hid0
    split at h
    · rename_i hr
      cases h
      left
      cases src0 with
      | none => simp [needs] at hr
      | some s =>
        simp [needs] at hr
        exact ⟨s, rfl, hr.1, rfl, hid0⟩
    · right
      obtain ⟨src', hf, hh, hid⟩ := refetch_inv h
      exact ⟨id0, src', hid0, hf, hh, hid⟩

/-- Whatever `second` returns when its input names a foreign host (or has no source) was fetched
    from the URL in the id. -/
theorem second_foreign {w : World} {o0 : O} {s id : U} {r : O × Option U}
    (hid : getId w o0 = .ok (some id)) (hne : s.host ≠ id.host)
    (h : second w o0 (some s) = .ok r) : ∃ src', w.fetch id.str = some (r.1, src') := by
  unfold second at h
  rw [hid] at h
  simp [needs, hne] at h
  exact refetch_fst h

/-- Inversion of `fetchUnknown` (the true form of `forged_rejected`): an accepted object with an
    id was (a) re-fetched from the URL in the id `id0` of the first object `o0` (the embedded
    input, or the document the reference led to) and served by the host its own id names, or
    (b) kept embedded, or (c) fetched by reference and kept. -/
theorem fetchUnknown_inv {w : World} {input : JVal} {source : Option U} {o : O} {id : U}
    (h : fetchUnknown w input source = .ok (o, some id)) :
    (∃ o0 id0 src, (input = .obj o0 ∨ ∃ ref u src0, input = .str ref ∧ w.parse ref = some u ∧
          w.fetch (w.target source u).str = some (o0, src0)) ∧
        getId w o0 = .ok (some id0) ∧ w.fetch id0.str = some (o, src) ∧
        src.host = id.host ∧ getId w o = .ok (some id)) ∨
    (∃ s, source = some s ∧ s.host = id.host ∧ input = .obj o) ∨
    (∃ ref src, input = .str ref ∧ src.host = id.host ∧
        ∃ u, w.parse ref = some u ∧ w.fetch (w.target source u).str = some (o, src)) := by
  obtain ⟨o0, src0, hf, hs⟩ := fetchUnknown_split h
  rcases second_inv hs with ⟨s, hs0, hh, ho, _⟩ | ⟨id0, src', hid0, hfe, hh, hid⟩
  · subst ho
    rcases first_inv hf with ⟨ref, u, src, hi, hp, hfe, hsrc⟩ | ⟨hi, hsrc⟩
    · right; right
      rw [hs0] at hsrc
      cases hsrc
      exact ⟨ref, s, hi, hh, u, hp, hfe⟩
    · right; left
      exact ⟨s, by rw [← hsrc, hs0], hh, hi⟩
  · left
    refine ⟨o0, id0, src', ?_, hid0, hfe, hh, hid⟩
    rcases first_inv hf with ⟨ref, u, src, hi, hp, hfe, _⟩ | ⟨hi, _⟩
    · exact .inr ⟨ref, u, src, hi, hp, hfe⟩
    · exact .inl hi

/-! ### `forged_rejected` as originally stated is false

  The original first disjunct read `∃ src, w.fetch id.str = some (o, src) ∧ src.host = id.host`,
  i.e. "the accepted object is what the URL in *its own* id serves".  But the re-fetch goes to the
  URL in the id of the *first* object (`id0`), and the document that comes back is only checked
  for `src.host = id.host`, not for `id.str = id0.str`.  Counterexample: the embedded object
  `{"id": "a"}` (no source) is re-fetched from `a`; `a` serves `{"id": "b"}` from host `h`, and
  `b` is on host `h` too, so `({"id": "b"}, b)` is accepted — yet nothing is served at `b`. -/

def cexWorld : World where
  fetch := fun u =>
    if u = ['a'] then some ([(['i', 'd'], .str ['b'])], ⟨['a'], ['h']⟩) else none
  parse := fun s => some ⟨s, ['h']⟩

theorem cex_accepts : fetchUnknown cexWorld (.obj [(['i', 'd'], .str ['a'])]) none
    = .ok ([(['i', 'd'], .str ['b'])], some ⟨['b'], ['h']⟩) := rfl

theorem forged_rejected_original_false :
    ¬ ∀ (w : World) (input : JVal) (source : Option U) (o : O) (id : U),
      fetchUnknown w input source = .ok (o, some id) →
      (∃ src, w.fetch id.str = some (o, src) ∧ src.host = id.host) ∨
      (∃ s, source = some s ∧ s.host = id.host ∧ input = .obj o) ∨
      (∃ ref src, input = .str ref ∧ src.host = id.host ∧
        ∃ u, w.parse ref = some u ∧ w.fetch u.str = some (o, src)) := by
  intro H
  rcases H cexWorld _ none _ _ cex_accepts with ⟨src, hf, _⟩ | ⟨s, hs, _⟩ | ⟨ref, src, hi, _⟩
  · simp [cexWorld] at hf
  · cases hs
  · cases hi

theorem fetchUnknown_provenance {w : World} {input : JVal} {source : Option U} {o : O} {id : U}
    (hpre : Pre w input source) (h : fetchUnknown w input source = .ok (o, some id)) :
    Served w id.host o := by
  rcases fetchUnknown_inv h with ⟨_, id0, src, _, _, hf, hh, _⟩ | ⟨s, hs, hh, hi⟩ |
    ⟨ref, src, _, hh, u, _, hf⟩
  · exact ⟨id0.str, o, src, hf, hh, Sub.refl _⟩
  · rw [← hh]
    exact hpre s o hs hi
  · exact ⟨(w.target source u).str, o, src, hf, hh, Sub.refl _⟩

theorem fetchUnknown_hs {w : World} {input : JVal} {source : Option U} {o : O} {id : Option U}
    (hpre : Pre w input source) (h : fetchUnknown w input source = .ok (o, id)) : HS w o id := by
  intro s hs
  subst hs
  exact fetchUnknown_provenance hpre h

theorem foreign_embedded_refetched {w : World} {kvs : O} {s id : U} {o : O} {oid : Option U}
    (hid : getId w kvs = .ok (some id)) (hne : s.host ≠ id.host)
    (h : fetchUnknown w (.obj kvs) (some s) = .ok (o, oid)) :
    ∃ src', w.fetch id.str = some (o, src') := by
  obtain ⟨o0, src0, hf, hs⟩ := fetchUnknown_split h
  rcases first_inv hf with ⟨ref, u, src, hi, _⟩ | ⟨hi, hsrc⟩
  · cases hi
  · cases hi
    subst hsrc
    exact second_foreign hid hne hs

/-! ### Constructors -/

theorem actorFromObject_ok {w : World} {o : O} {id : Option U} {a : ActorM} (hs : HS w o id)
    (h : newActorFromObject w o id = .ok a) : ActorOk w a := by
  unfold newActorFromObject at h
  split at h
  · cases h
  · cases h
  · split at h
    · cases h
    · cases h
      exact hs

theorem newActor_ok {w : World} {input : JVal} {source : Option U} {a : ActorM}
    (hpre : Pre w input source) (h : newActor w input source = .ok a) : ActorOk w a := by
  unfold newActor at h
  split at h
  · cases h
  · rename_i o id hf
    exact actorFromObject_ok (fetchUnknown_hs hpre hf) h

theorem getActors_ok {w : World} {o : O} {id : Option U} (hs : HS w o id) (key : Str) :
    ∀ x ∈ getActors w o key id, AorFOk w x := by
  intro x hx
  unfold getActors at hx
  split at hx
  · cases hx
  · simp at hx
    subst hx
    trivial
  · rename_i l hl
    simp only [List.mem_map] at hx
    obtain ⟨v, hv, hx⟩ := hx
    subst hx
    split
    · rename_i a ha
      exact newActor_ok (pre_of_sub hs (getList_sub hl hv)) ha
    · trivial

theorem postFromObject_ok {w : World} {o : O} {id : Option U} {p : PostM} (hs : HS w o id)
    (h : newPostFromObject w o id = .ok p) : PostOk w p := by
  unfold newPostFromObject at h
  split at h
  · cases h
  · cases h
  · split at h
    · cases h
    · split at h
      · cases h
      · simp only at h
        split at h
        · cases h
          refine ⟨hs, getActors_ok hs _, getActors_ok hs _, ?_⟩
          intro po pid hp
          simp only at hp
          split at hp
          · cases hp
          · rename_i v hv
            split at hp
            · rename_i r hr
              cases hp
              exact fetchUnknown_provenance (pre_of_sub hs (getAny_sub hv)) hr
            · cases hp
        · cases h

theorem actorId_obj {w : World} {o : O} {id : Option U} {a : ActorM}
    (h : newActorFromObject w o id = .ok a) : a.id = id ∧ a.obj = o := by
  unfold newActorFromObject at h
  split at h
  · cases h
  · cases h
  · split at h
    · cases h
    · cases h
      exact ⟨rfl, rfl⟩

theorem getPostOrActor_ok {w : World} {o : O} {id : Option U} (hs : HS w o id) (key : Str) :
    TargetOk w (getPostOrActor w o key id) := by
  unfold getPostOrActor
  split
  · trivial
  · rename_i ref0 h0
    simp only
    split
    · trivial
    · rename_i r hr
      -- `r` is a sub-value of `o`
      have hsub : Sub r (.obj o) := by
        split at hr
        · rename_i kvs
          split at hr
          · cases hr
          · split at hr
            · split at hr
              · rename_i v hv
                cases hr
                exact Sub.trans (getAny_sub hv) (getAny_sub h0)
              · cases hr
            · cases hr
              exact getAny_sub h0
        · cases hr
          exact getAny_sub h0
      split
      · trivial
      · rename_i o' id' hf
        have hs' : HS w o' id' := fetchUnknown_hs (pre_of_sub hs hsub) hf
        split
        · rename_i p hp
          exact postFromObject_ok hs' hp
        · split
          · rename_i a ha
            exact actorFromObject_ok hs' ha
          · trivial
        · trivial

theorem activityFromObject_ok {w : World} {o : O} {id : Option U} {a : ActivityM} (hs : HS w o id)
    (h : newActivityFromObject w o id = .ok a) : ActivityOk w a := by
  unfold newActivityFromObject at h
  split at h
  · cases h
  · cases h
  · split at h
    · cases h
    · cases h
      refine ⟨hs, ?_, getPostOrActor_ok hs _⟩
      intro ac hac
      simp only at hac
      split at hac
      · cases hac
      · rename_i v hv
        split at hac
        · rename_i a' ha'
          cases hac
          exact newActor_ok (pre_of_sub hs (getAny_sub hv)) ha'
        · cases hac

theorem newActivity_ok {w : World} {input : JVal} {source : Option U} {a : ActivityM}
    (hpre : Pre w input source) (h : newActivity w input source = .ok a) : ActivityOk w a := by
  unfold newActivity at h
  split at h
  · cases h
  · rename_i o id hf
    exact activityFromObject_ok (fetchUnknown_hs hpre hf) h

theorem newPost_ok {w : World} {input : JVal} {source : Option U} {p : PostM}
    (hpre : Pre w input source) (h : newPost w input source = .ok p) : PostOk w p := by
  unfold newPost at h
  split at h
  · cases h
  · rename_i o id hf
    exact postFromObject_ok (fetchUnknown_hs hpre hf) h

theorem new_provenance (w : World) (input : JVal) (source : Option U) (hpre : Pre w input source) :
    ItemOk w (new w input source) := by
  unfold new
  split
  · trivial
  · rename_i o id hf
    have hs : HS w o id := fetchUnknown_hs hpre hf
    split
    · rename_i a ha
      exact actorFromObject_ok hs ha
    · trivial
    · trivial
    · split
      · rename_i p hp
        exact postFromObject_ok hs hp
      · trivial
      · trivial
      · split
        · rename_i a ha
          exact activityFromObject_ok hs ha
        · trivial
        · trivial
        · split <;> trivial

theorem outboxItem_provenance (w : World) (owner : Option U) (e : E) (hpre : Pre w e.1 e.2) :
    ItemOk w (outboxItem w owner e) := by
  unfold outboxItem
  split
  · trivial
  · rename_i act ha
    split
    · trivial
    · split
      · trivial
      · split
        · exact newActivity_ok hpre ha
        · trivial

theorem replyItem_provenance (w : World) (parent : Option U) (e : E) (hpre : Pre w e.1 e.2) :
    ItemOk w (replyItem w parent e) := by
  unfold replyItem
  split
  · trivial
  · rename_i c hc
    split
    · trivial
    · split
      · trivial
      · split
        · exact newPost_ok hpre hc
        · trivial

end C02aux
