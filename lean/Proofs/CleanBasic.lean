import Model
import Proofs.Cells
import Proofs.Expand

/-
  Clean styled text: basic facts (sources, append, split/join, apply, indent, safety).
-/

namespace Cells
open Str Ansi

/-! ### Clean cells -/

theorem cell_clean_iff (c : Cell) :
    c.clean = true ↔ c.ok = true ∧ (c.ch = '\n' ∨ Uni.isControl c.ch = false) := by
  simp [Cell.clean]

theorem Cell.clean_ok {c : Cell} (h : c.clean = true) : c.ok = true := ((cell_clean_iff c).1 h).1

theorem clean_ok_all {cs : List Cell} (h : ∀ c ∈ cs, c.clean = true) : ∀ c ∈ cs, c.ok = true :=
  fun c hc => Cell.clean_ok (h c hc)

theorem esc_control : Uni.isControl ESC = true := by decide

theorem clean_canon (s : Str) (h : Clean s) : Canon s := by
  obtain ⟨cs, hcs, rfl⟩ := h
  exact ⟨cs, clean_ok_all hcs, rfl⟩

theorem clean_neutral (s : Str) (h : Clean s) : neutralAtBreaks s = true :=
  canon_neutral s (clean_canon s h)

theorem clean_nil : Clean [] := ⟨[], by simp, rfl⟩

theorem clean_cells (cs : List Cell) (h : ∀ c ∈ cs, c.clean = true) : Clean (render cs) :=
  ⟨cs, h, rfl⟩

theorem clean_append (s t : Str) (hs : Clean s) (ht : Clean t) : Clean (s ++ t) := by
  obtain ⟨a, ha, rfl⟩ := hs
  obtain ⟨b, hb, rfl⟩ := ht
  refine ⟨a ++ b, ?_, (render_append a b).symm⟩
  intro c hc
  rcases List.mem_append.1 hc with h | h
  · exact ha c h
  · exact hb c h

theorem bare_clean (ch : Char) (h : ch = '\n' ∨ Uni.isControl ch = false) :
    (⟨[], ch⟩ : Cell).clean = true := by
  rw [cell_clean_iff, cell_ok_iff]
  refine ⟨⟨?_, by simp, Or.inr rfl⟩, h⟩
  intro e
  simp only at e
  subst e
  rcases h with h | h
  · revert h; decide
  · revert h; decide

theorem noCtl_iff (s : Str) :
    Safe.noCtl s = true ↔ ∀ c ∈ s, c = '\n' ∨ Uni.isControl c = false := by
  simp [Safe.noCtl]

theorem plain_clean (s : Str) (h : Safe.noCtl s = true) : ∀ c ∈ plain s, c.clean = true := by
  intro c hc
  simp only [plain, List.mem_map] at hc
  obtain ⟨x, hx, rfl⟩ := hc
  exact bare_clean x ((noCtl_iff s).1 h x hx)

theorem clean_plain (s : Str) (h : Safe.noCtl s = true) : Clean s :=
  ⟨plain s, plain_clean s h, (render_plain s).symm⟩

theorem clean_char (ch : Char) (h : ch = '\n' ∨ Uni.isControl ch = false) : Clean [ch] :=
  clean_plain [ch] (by rw [noCtl_iff]; intro c hc; simp at hc; subst hc; exact h)

theorem clean_nl : Clean ['\n'] := clean_char '\n' (Or.inl rfl)

theorem clean_cons (ch : Char) (h : ch = '\n' ∨ Uni.isControl ch = false) (s : Str) (hs : Clean s) :
    Clean (ch :: s) := clean_append [ch] s (clean_char ch h) hs

theorem clean_cell (c : Cell) (hc : c.clean = true) : Clean c.render :=
  ⟨[c], by simpa using hc, by simp [render]⟩

theorem scrub_noCtl (s : Str) : Safe.noCtl (Ansi.scrub s) = true := by
  rw [noCtl_iff]
  intro c hc
  simp only [scrub, List.mem_filter] at hc
  simpa using hc.2

theorem noCtl_append (s t : Str) :
    Safe.noCtl (s ++ t) = true ↔ Safe.noCtl s = true ∧ Safe.noCtl t = true := by
  simp [Safe.noCtl]

theorem noCtl_sublist {s t : Str} (h : t.Sublist s) (hs : Safe.noCtl s = true) :
    Safe.noCtl t = true := by
  rw [noCtl_iff] at hs ⊢
  exact fun c hc => hs c (h.subset hc)

theorem noCtl_rep (ch : Char) (n : Nat) (h : Uni.isControl ch = false) :
    Safe.noCtl (rep ch n) = true := by
  rw [noCtl_iff]
  intro c hc
  rw [rep] at hc
  rw [List.eq_of_mem_replicate hc]
  exact Or.inr h

/-! ### join / split -/

theorem clean_joinNL (ls : List Str) (h : ∀ l ∈ ls, Clean l) : Clean (joinNL ls) := by
  induction ls with
  | nil => exact clean_nil
  | cons l ls ih =>
    cases ls with
    | nil => simpa [joinNL] using h l (by simp)
    | cons l' ls =>
      have e : joinNL (l :: l' :: ls) = l ++ (['\n'] ++ joinNL (l' :: ls)) := rfl
      rw [e]
      exact clean_append _ _ (h l (by simp))
        (clean_append _ _ clean_nl (ih (fun x hx => h x (by simp [hx]))))

theorem clean_splitNL_render (cs : List Cell) (h : ∀ c ∈ cs, c.clean = true) :
    ∀ l ∈ splitNL (render cs), Clean l := by
  induction cs with
  | nil =>
    intro l hl
    simp only [render_nil, splitNL, List.mem_singleton] at hl
    subst hl
    exact clean_nil
  | cons c cs ih =>
    have hcs : ∀ c ∈ cs, c.clean = true := fun x hx => h x (by simp [hx])
    have hcc := h c (by simp)
    have hc := Cell.clean_ok hcc
    have hc' := (cell_ok_iff c).1 hc
    have ih' := ih hcs
    rw [render_cons]
    by_cases hn : c.ch = '\n'
    · have has : c.attrs = [] := by
        rcases hc'.2.2 with h | h
        · exact absurd hn h
        · exact h
      rw [render_bare c has, hn]
      simp only [List.cons_append, List.nil_append]
      rw [splitNL_nl]
      intro l hl
      simp only [List.mem_cons] at hl
      rcases hl with rfl | hl
      · exact clean_nil
      · exact ih' l hl
    · cases hs : splitNL (render cs) with
      | nil => exact absurd hs (splitNL_ne_nil _)
      | cons l0 ls =>
        rw [hs] at ih'
        rw [splitNL_prepend _ _ l0 ls (nl_not_mem_render c hc hn) hs]
        intro l hl
        simp only [List.mem_cons] at hl
        rcases hl with rfl | hl
        · exact clean_append _ _ (clean_cell c hcc) (ih' l0 (by simp))
        · exact ih' l (by simp [hl])

theorem clean_splitNL (s : Str) (h : Clean s) : ∀ l ∈ splitNL s, Clean l := by
  obtain ⟨cs, hcs, rfl⟩ := h
  exact clean_splitNL_render cs hcs

/-! ### apply / indent -/

theorem addAttr_clean (c : Cell) (a : Str) (hc : c.clean = true) (ha : sgrOk a = true) :
    (addAttr a c).clean = true := by
  rw [cell_clean_iff] at hc ⊢
  refine ⟨addAttr_ok c a hc.1 ha, ?_⟩
  have : (addAttr a c).ch = c.ch := by
    unfold addAttr
    split <;> rfl
  rw [this]
  exact hc.2

theorem clean_apply (s a : Str) (h : Clean s) (ha : sgrOk a = true) : Clean (apply s a) := by
  obtain ⟨cs, hcs, rfl⟩ := h
  rw [apply_render cs (clean_ok_all hcs)]
  refine clean_cells _ ?_
  intro c hc
  simp only [List.mem_map] at hc
  obtain ⟨x, hx, rfl⟩ := hc
  exact addAttr_clean x a (hcs x hx) ha

theorem clean_indent (s pfx : Str) (first : Bool) (h : Clean s) (hp : Safe.noCtl pfx = true) :
    Clean (indent s pfx first) := by
  obtain ⟨cs, hcs, rfl⟩ := h
  rw [indent_render cs (clean_ok_all hcs)]
  refine clean_cells _ ?_
  intro c hc
  rcases List.mem_append.1 hc with hc | hc
  · cases first
    · simp at hc
    · exact plain_clean pfx hp c (by simpa using hc)
  · simp only [List.mem_flatten, List.mem_map] at hc
    obtain ⟨l, ⟨x, hx, rfl⟩, hcl⟩ := hc
    split at hcl
    · simp only [List.mem_cons] at hcl
      rcases hcl with rfl | hcl
      · exact hcs _ hx
      · exact plain_clean pfx hp c hcl
    · simp only [List.mem_singleton] at hcl
      subst hcl
      exact hcs _ hx

/-! ### Raw cells of clean text -/

/-- A regex match that is the image of a clean cell. -/
def CleanRaw (m : RawCell) : Prop := ∃ c : Cell, c.clean = true ∧ m = c.raw

theorem clean_expand (s : Str) (h : Clean s) : ∀ m ∈ expand s, CleanRaw m := by
  obtain ⟨cs, hcs, rfl⟩ := h
  rw [expand_render cs (clean_ok_all hcs)]
  intro m hm
  simp only [List.mem_map] at hm
  obtain ⟨c, hc, rfl⟩ := hm
  exact ⟨c, hcs c hc, rfl⟩

theorem clean_collapse (l : List RawCell) (h : ∀ m ∈ l, CleanRaw m) : Clean (collapse l) := by
  induction l with
  | nil => exact clean_nil
  | cons m l ih =>
    rw [collapse_cons]
    obtain ⟨c, hc, rfl⟩ := h m (by simp)
    exact clean_append _ _ (clean_cell c hc) (ih (fun x hx => h x (by simp [hx])))

theorem CleanRaw.full {m : RawCell} (h : CleanRaw m) : Clean m.full := by
  obtain ⟨c, hc, rfl⟩ := h
  exact clean_cell c hc

/-! ### Safety -/

theorem safeF_nil (f : Nat) : Safe.safeF f [] = true := by
  cases f <;> rfl

theorem safeF_char (f : Nat) (ch : Char) (h : ch = '\n' ∨ Uni.isControl ch = false) (hE : ch ≠ ESC)
    (s : Str) : Safe.safeF (f + 1) (ch :: s) = Safe.safeF f s := by
  rw [Safe.safeF]
  simp only [hE, if_false]
  rcases h with h | h
  · simp [h]
  · simp [h]

theorem safeF_sgr (f : Nat) (a : Str) (ha : Digs a) (s : Str) :
    Safe.safeF (f + 1) (ESC :: '[' :: (a ++ 'm' :: s)) = Safe.safeF f s := by
  rw [Safe.safeF]
  simp only [if_true, Safe.afterSgr]
  rw [sgrParams_digs _ _ ha]

theorem safeF_reset (f : Nat) (s : Str) : Safe.safeF (f + 1) (reset ++ s) = Safe.safeF f s := by
  have e : reset ++ s = ESC :: '[' :: (['0'] ++ 'm' :: s) := rfl
  have hd : Digs ['0'] := by
    intro x hx
    simp only [List.mem_singleton] at hx
    subst hx
    decide
  rw [e, safeF_sgr _ _ hd]

theorem safeF_pre (as : List Str) (has : ∀ a ∈ as, Digs a) (s : Str) (f : Nat) :
    Safe.safeF (f + as.length) (preOf as ++ s) = Safe.safeF f s := by
  induction as with
  | nil => simp
  | cons a as ih =>
    have e : preOf (a :: as) ++ s = ESC :: '[' :: (a ++ 'm' :: (preOf as ++ s)) := by
      simp [preOf_cons]
    have e2 : f + (a :: as).length = (f + as.length) + 1 := by simp; omega
    rw [e, e2, safeF_sgr _ _ (has a (by simp)), ih (fun x hx => has x (by simp [hx]))]

theorem safeF_render (cs : List Cell) (h : ∀ c ∈ cs, c.clean = true) :
    ∀ fuel, (render cs).length ≤ fuel → Safe.safeF fuel (render cs) = true := by
  induction cs with
  | nil => intro fuel _; rw [render_nil]; exact safeF_nil fuel
  | cons c cs ih =>
    intro fuel hf
    have hcs : ∀ c ∈ cs, c.clean = true := fun x hx => h x (by simp [hx])
    have hcc := (cell_clean_iff c).1 (h c (by simp))
    have hc := (cell_ok_iff c).1 hcc.1
    rw [render_cons] at hf ⊢
    by_cases has : c.attrs = []
    · rw [render_bare c has] at hf ⊢
      cases fuel with
      | zero => simp at hf
      | succ f =>
        simp only [List.cons_append, List.nil_append]
        rw [safeF_char f c.ch hcc.2 hc.1, ih hcs f (by simp at hf; omega)]
    · rw [render_styled c has] at hf ⊢
      have hl := preOf_length c.attrs
      simp only [List.length_append, List.length_cons, reset, List.length_nil] at hf
      obtain ⟨f, rfl⟩ : ∃ f, fuel = ((f + 1) + 1) + c.attrs.length :=
        ⟨fuel - c.attrs.length - 2, by omega⟩
      have e : preOf c.attrs ++ c.ch :: reset ++ render cs
          = preOf c.attrs ++ (c.ch :: (reset ++ render cs)) := by simp
      rw [e, safeF_pre c.attrs (fun a ha => sgrOk_digs (hc.2.1 a ha)), safeF_char _ c.ch hcc.2 hc.1,
        safeF_reset, ih hcs f (by omega)]

theorem clean_safe (s : Str) (h : Clean s) : Safe.safe s = true := by
  obtain ⟨cs, hcs, rfl⟩ := h
  exact safeF_render cs hcs _ (Nat.le_succ _)

end Cells
