import Model

/-
  Helper lemmas for Props/C18.lean (history zipper refinement, feed refinement).
-/

namespace C18
open History Feed

/-! ### History -/

section History
variable {α : Type}

theorem abs_empty : History.abs ({} : History.H α) = History.Zipper.empty := by
  simp [History.abs, History.Zipper.empty]

theorem inv_empty : History.Inv ({} : History.H α) := by
  simp [History.Inv]

theorem take_succ_reverse (l : List α) (i : Nat) (hi : i < l.length) :
    (l.take (i + 1)).reverse = l[i] :: (l.take i).reverse := by
  rw [List.take_succ_eq_append_getElem hi]
  simp

theorem step_add (h : History.H α) (x : α) (hi : History.Inv h) :
    ∃ h', History.step h (.add x) = .ok h' ∧ h'.index < h'.elements.length ∧
      History.abs h' = (History.abs h).step (.add x) := by
  obtain ⟨els, i⟩ := h
  rcases hi with ⟨he, h0⟩ | hlt
  · simp only at he h0
    subst he; subst h0
    simp [History.step, History.add, History.abs, History.Zipper.step]
  · simp only at hlt
    have hne : els.isEmpty = false := by
      cases els with
      | nil => simp at hlt
      | cons a t => rfl
    have hnot : ¬ (i + 1 > els.length) := by omega
    refine ⟨{ elements := els.take (i + 1) ++ [x], index := i + 1 }, ?_, ?_, ?_⟩
    · simp [History.step, History.add, hne, hnot]
    · simp only [List.length_append, List.length_take, List.length_cons, List.length_nil]
      omega
    · have hlen : (els.take (i + 1)).length = i + 1 := by
        rw [List.length_take]; omega
      have hcur : els[i]? = some els[i] := List.getElem?_eq_getElem hlt
      simp only [History.abs, History.Zipper.step, hcur]
      rw [List.take_append_of_le_length (by omega), List.take_of_length_le (by omega),
        take_succ_reverse els i hlt]
      rw [List.getElem?_append_right (by omega), hlen]
      rw [List.drop_of_length_le (by
        simp only [List.length_append, hlen, List.length_cons, List.length_nil]; omega)]
      simp

theorem step_back (h : History.H α) (hi : History.Inv h) :
    History.Inv (History.back h) ∧
      (h.elements ≠ [] → (History.back h).elements ≠ []) ∧
      History.abs (History.back h) = (History.abs h).step .back := by
  obtain ⟨els, i⟩ := h
  rcases hi with ⟨he, h0⟩ | hlt
  · simp only at he h0
    subst he; subst h0
    simp [History.back, History.abs, History.Zipper.step, History.Inv]
  · simp only at hlt
    cases i with
    | zero =>
      simp [History.back, History.abs, History.Zipper.step, History.Inv, hlt]
    | succ j =>
      have hj : j < els.length := by omega
      have hcur : els[j + 1]? = some els[j + 1] := List.getElem?_eq_getElem hlt
      have hcur' : els[j]? = some els[j] := List.getElem?_eq_getElem hj
      refine ⟨?_, ?_, ?_⟩
      · right; simp [History.back]; omega
      · simp [History.back]
      · simp only [History.back, History.abs, History.Zipper.step, hcur, Nat.succ_pos, if_true,
          Nat.add_sub_cancel, take_succ_reverse els j hj, hcur', gt_iff_lt]
        congr 1
        exact (List.drop_eq_getElem_cons hlt)

theorem step_forward (h : History.H α) (hi : History.Inv h) :
    History.Inv (History.forward h) ∧
      (h.elements ≠ [] → (History.forward h).elements ≠ []) ∧
      History.abs (History.forward h) = (History.abs h).step .forward := by
  obtain ⟨els, i⟩ := h
  rcases hi with ⟨he, h0⟩ | hlt
  · simp only at he h0
    subst he; subst h0
    simp [History.forward, History.abs, History.Zipper.step, History.Inv]
  · simp only at hlt
    have hcur : els[i]? = some els[i] := List.getElem?_eq_getElem hlt
    by_cases hn : els.length > i + 1
    · have hcur' : els[i + 1]? = some els[i + 1] := List.getElem?_eq_getElem hn
      refine ⟨?_, ?_, ?_⟩
      · right; simp [History.forward, hn]
      · simp [History.forward, hn]
      · simp only [History.forward, hn, ↓reduceIte, History.abs, History.Zipper.step, hcur, hcur',
          take_succ_reverse els i hlt]
        rw [List.drop_eq_getElem_cons hn]
    · have hd : els.drop (i + 1) = [] := List.drop_of_length_le (by omega)
      refine ⟨?_, ?_, ?_⟩
      · right; simp [History.forward, hn]; exact hlt
      · simp [History.forward, hn]
      · simp only [History.forward, hn, ↓reduceIte, History.abs, History.Zipper.step, hcur, hd]

/-- One concrete step from an invariant state. -/
theorem step_ok (h : History.H α) (o : History.Op α) (hi : History.Inv h) :
    ∃ h', History.step h o = .ok h' ∧ History.Inv h' ∧
      (h.elements ≠ [] ∨ (∃ x, o = .add x) → h'.elements ≠ []) ∧
      History.abs h' = (History.abs h).step o := by
  cases o with
  | add x =>
    obtain ⟨h', h1, h2, h3⟩ := step_add h x hi
    refine ⟨h', h1, Or.inr h2, ?_, h3⟩
    intro _ he
    rw [he] at h2
    simp at h2
  | back =>
    obtain ⟨h1, h2, h3⟩ := step_back h hi
    refine ⟨_, rfl, h1, ?_, h3⟩
    rintro (hne | ⟨x, hx⟩)
    · exact h2 hne
    · cases hx
  | forward =>
    obtain ⟨h1, h2, h3⟩ := step_forward h hi
    refine ⟨_, rfl, h1, ?_, h3⟩
    rintro (hne | ⟨x, hx⟩)
    · exact h2 hne
    · cases hx

theorem run_ok (ops : List (History.Op α)) (h : History.H α) (hi : History.Inv h) :
    ∃ h', History.run h ops = .ok h' ∧ History.Inv h' ∧
      (h.elements ≠ [] ∨ (∃ x, History.Op.add x ∈ ops) → h'.elements ≠ []) ∧
      History.abs h' = History.Zipper.run (History.abs h) ops := by
  induction ops generalizing h with
  | nil =>
    refine ⟨h, rfl, hi, ?_, rfl⟩
    rintro (hne | ⟨x, hx⟩)
    · exact hne
    · simp at hx
  | cons o os ih =>
    obtain ⟨h1, hs, hi1, hne1, ha1⟩ := step_ok h o hi
    obtain ⟨h2, hr, hi2, hne2, ha2⟩ := ih h1 hi1
    refine ⟨h2, ?_, hi2, ?_, ?_⟩
    · simp only [History.run, hs, hr]
    · rintro (hne | ⟨x, hx⟩)
      · exact hne2 (Or.inl (hne1 (Or.inl hne)))
      · rcases List.mem_cons.mp hx with heq | hmem
        · exact hne2 (Or.inl (hne1 (Or.inr ⟨x, heq.symm⟩)))
        · exact hne2 (Or.inr ⟨x, hmem⟩)
    · rw [ha2, ha1]
      simp [History.Zipper.run]

theorem current_ok (h : History.H α) (hi : History.Inv h) (hne : h.elements ≠ []) :
    ∃ x, History.current h = .ok x := by
  rcases hi with ⟨he, _⟩ | hlt
  · exact absurd he hne
  · exact ⟨h.elements[h.index], by simp [History.current, List.getElem?_eq_getElem hlt]⟩

end History

/-! ### Feed -/

section Feed
variable {α : Type}

theorem inside_iff (s : Feed.Seq2 α) (p : Int) :
    s.inside p = true ↔ s.lo < p ∧ p ≤ s.lo + s.items.length := by
  simp [Feed.Seq2.inside]

theorem at_of_inside (s : Feed.Seq2 α) (p : Int) (h : s.inside p = true) :
    s.at p = s.items[(p - s.lo - 1).toNat]? := by
  simp [Feed.Seq2.at, h]

theorem contains_iff (f : Feed.F α) (off : Int) :
    Feed.contains f off = true ↔ f.index + off < f.upper ∧ f.index + off > f.lower := by
  simp [Feed.contains]

theorem bool_eq_of_iff {a b : Bool} (h : a = true ↔ b = true) : a = b := by
  cases a <;> cases b <;> simp_all

/-- Same as `C18.Rep` (stated in Props/C18.lean), unfolded here so the helper lemmas can use it. -/
def RepAux (f : Feed.F α) (s : Feed.Seq2 α) : Prop :=
  f.lower = s.lo ∧ f.upper = s.lo + s.items.length + 1 ∧ f.index = s.cursor ∧
  ∀ p : Int, s.inside p = true → f.feed p = s.at p

theorem at_append (s : Feed.Seq2 α) (xs : List α) (p : Int) (hp : s.inside p = true) :
    (s.step (.append xs)).at p = s.at p := by
  have h := (inside_iff s p).mp hp
  have hin : (s.step (.append xs)).inside p = true := by
    rw [inside_iff]; simp only [Feed.Seq2.step, List.length_append]; omega
  rw [at_of_inside _ p hin, at_of_inside _ p hp]
  simp only [Feed.Seq2.step]
  rw [List.getElem?_append_left (by omega)]

theorem at_prepend (s : Feed.Seq2 α) (xs : List α) (p : Int) (hp : s.inside p = true) :
    (s.step (.prepend xs)).at p = s.at p := by
  have h := (inside_iff s p).mp hp
  have hin : (s.step (.prepend xs)).inside p = true := by
    rw [inside_iff]
    simp only [Feed.Seq2.step, List.length_append, List.length_reverse]; omega
  rw [at_of_inside _ p hin, at_of_inside _ p hp]
  simp only [Feed.Seq2.step]
  rw [List.getElem?_append_right (by simp only [List.length_reverse]; omega)]
  congr 1
  simp only [List.length_reverse]
  omega

theorem rep_append (f : Feed.F α) (s : Feed.Seq2 α) (xs : List α) (h : RepAux f s) :
    RepAux (Feed.step f (.append xs)) (s.step (.append xs)) := by
  obtain ⟨hl, hu, hx, hf⟩ := h
  refine ⟨hl, ?_, hx, ?_⟩
  · simp only [Feed.step, Feed.append, Feed.Seq2.step, List.length_append, hu]
    omega
  · intro p hp
    have h := (inside_iff _ p).mp hp
    simp only [Feed.Seq2.step, List.length_append] at h
    by_cases hc : f.upper ≤ p
    · have hc' : f.upper ≤ p ∧ p < f.upper + (xs.length : Int) := by omega
      rw [at_of_inside _ p hp]
      simp only [Feed.step, Feed.append, Feed.Seq2.step, hc', and_self, ↓reduceIte]
      rw [List.getElem?_append_right (by omega)]
      congr 1
      omega
    · have hc' : ¬ (f.upper ≤ p ∧ p < f.upper + (xs.length : Int)) := by omega
      have hin : s.inside p = true := by rw [inside_iff]; omega
      rw [at_append s xs p hin, ← hf p hin]
      simp only [Feed.step, Feed.append, hc', ↓reduceIte]

theorem rep_prepend (f : Feed.F α) (s : Feed.Seq2 α) (xs : List α) (h : RepAux f s) :
    RepAux (Feed.step f (.prepend xs)) (s.step (.prepend xs)) := by
  obtain ⟨hl, hu, hx, hf⟩ := h
  refine ⟨?_, ?_, hx, ?_⟩
  · simp only [Feed.step, Feed.prepend, Feed.Seq2.step, hl]
  · simp only [Feed.step, Feed.prepend, Feed.Seq2.step, List.length_append, List.length_reverse,
      hu]
    omega
  · intro p hp
    have h := (inside_iff _ p).mp hp
    simp only [Feed.Seq2.step, List.length_append, List.length_reverse] at h
    by_cases hc : p ≤ f.lower
    · have hc' : f.lower - (xs.length : Int) < p ∧ p ≤ f.lower := by omega
      rw [at_of_inside _ p hp]
      simp only [Feed.step, Feed.prepend, Feed.Seq2.step, hc', and_self, ↓reduceIte]
      rw [List.getElem?_append_left (by simp only [List.length_reverse]; omega)]
      rw [List.getElem?_reverse (by omega)]
      congr 1
      omega
    · have hc' : ¬ (f.lower - (xs.length : Int) < p ∧ p ≤ f.lower) := by omega
      have hin : s.inside p = true := by rw [inside_iff]; omega
      rw [at_prepend s xs p hin, ← hf p hin]
      simp only [Feed.step, Feed.prepend, hc', ↓reduceIte]

theorem contains_eq_inside (f : Feed.F α) (s : Feed.Seq2 α) (h : RepAux f s) (off : Int) (q : Int)
    (hq : q = s.cursor + off) : Feed.contains f off = s.inside q := by
  obtain ⟨hl, hu, hx, hf⟩ := h
  apply bool_eq_of_iff
  rw [contains_iff, inside_iff]
  omega

theorem rep_up (f : Feed.F α) (s : Feed.Seq2 α) (h : RepAux f s) :
    RepAux (Feed.step f .up) (s.step .up) := by
  have hc := contains_eq_inside f s h (-1) (s.cursor - 1) (by omega)
  obtain ⟨hl, hu, hx, hf⟩ := h
  simp only [Feed.step, Feed.moveUp, Feed.Seq2.step, hc]
  split
  · exact ⟨hl, hu, by simp only [hx], hf⟩
  · exact ⟨hl, hu, hx, hf⟩

theorem rep_down (f : Feed.F α) (s : Feed.Seq2 α) (h : RepAux f s) :
    RepAux (Feed.step f .down) (s.step .down) := by
  have hc := contains_eq_inside f s h 1 (s.cursor + 1) rfl
  obtain ⟨hl, hu, hx, hf⟩ := h
  simp only [Feed.step, Feed.moveDown, Feed.Seq2.step, hc]
  split
  · exact ⟨hl, hu, by simp only [hx], hf⟩
  · exact ⟨hl, hu, hx, hf⟩

theorem rep_center (f : Feed.F α) (s : Feed.Seq2 α) (h : RepAux f s) :
    RepAux (Feed.step f .center) (s.step .center) := by
  have hc := contains_eq_inside f s h (-f.index) 0 (by have := h.2.2.1; omega)
  obtain ⟨hl, hu, hx, hf⟩ := h
  simp only [Feed.step, Feed.moveToCenter, Feed.Seq2.step, hc]
  split
  · exact ⟨hl, hu, rfl, hf⟩
  · exact ⟨hl, hu, hx, hf⟩

theorem step_inside (s : Feed.Seq2 α) (o : Feed.Op α) (hc : s.inside s.cursor = true) :
    (s.step o).inside (s.step o).cursor = true := by
  have h := (inside_iff s _).mp hc
  cases o with
  | append xs =>
    rw [inside_iff]; simp only [Feed.Seq2.step, List.length_append]; omega
  | prepend xs =>
    rw [inside_iff]
    simp only [Feed.Seq2.step, List.length_append, List.length_reverse]; omega
  | up =>
    simp only [Feed.Seq2.step]
    split
    · assumption
    · exact hc
  | down =>
    simp only [Feed.Seq2.step]
    split
    · assumption
    · exact hc
  | center =>
    simp only [Feed.Seq2.step]
    split
    · assumption
    · exact hc

end Feed

end C18
