import Model.Ansi
import Model.GoSem

/-
  Helper lemmas for Props/Gen16.lean: the Go-semantics string helpers (`Model/GoSem.lean`) against
  the model's vocabulary (`Model/Basic.lean`, `Model/Ansi.lean`), and the fixed-width integer
  conversions within their safe range.
-/

namespace Gen16
open Str

/-! ### literals -/

theorem ofNat10 : Char.ofNat 10 = '\n' := rfl
theorem str_nl : Go.str "\n" = ['\n'] := rfl
theorem str_sp : Go.str " " = [' '] := rfl
theorem str_empty : Go.str "" = [] := rfl

theorem two63 : (2 : Nat) ^ 63 = 9223372036854775808 := by decide
theorem two62 : (2 : Nat) ^ 62 = 4611686018427387904 := by decide
theorem two64 : (2 : Nat) ^ 64 = 18446744073709551616 := by decide
theorem two63i : (2 : Int) ^ 63 = 9223372036854775808 := by decide
theorem two64i : (2 : Int) ^ 64 = 18446744073709551616 := by decide

/-! ### integers -/

theorem usub_of_le (a b : Nat) (h : b ≤ a) : Go.usub a b = a - b := by
  simp [Go.usub, h]

theorem toInt_of_lt (a : Nat) (h : a < 2 ^ 63) : Go.toInt a = (a : Int) := by
  simp [Go.toInt, h]

theorem toUint_natCast (a : Nat) (h : a < 2 ^ 64) : Go.toUint (a : Int) = a := by
  unfold Go.toUint
  rw [two64] at h
  rw [two64i]
  omega

/-! ### slices -/

theorem sliceTo_nat {α : Type} (xs : List α) (k : Nat) (h : k ≤ xs.length) :
    Go.sliceTo xs (k : Int) = .ok (xs.take k) := by
  unfold Go.sliceTo
  have : ¬ ((k : Int) < 0 ∨ (k : Int) > (xs.length : Int)) := by omega
  rw [if_neg this, Int.toNat_natCast]

theorem sliceFrom_nat {α : Type} (xs : List α) (k : Nat) (h : k ≤ xs.length) :
    Go.sliceFrom xs (k : Int) = .ok (xs.drop k) := by
  unfold Go.sliceFrom
  have : ¬ ((k : Int) < 0 ∨ (k : Int) > (xs.length : Int)) := by omega
  rw [if_neg this, Int.toNat_natCast]

theorem sliceTo_zero {α : Type} (xs : List α) : Go.sliceTo xs 0 = .ok [] := by
  simpa using sliceTo_nat xs 0 (Nat.zero_le _)

theorem sliceTo_int {α : Type} (xs : List α) (k : Int) (h0 : 0 ≤ k) (h : k ≤ xs.length) :
    Go.sliceTo xs k = .ok (xs.take k.toNat) := by
  unfold Go.sliceTo
  have : ¬ (k < 0 ∨ k > (xs.length : Int)) := by omega
  rw [if_neg this]

theorem sliceTo_neg {α : Type} (xs : List α) (k : Int) (h0 : k < 0) :
    Go.sliceTo xs k = .error .indexOutOfRange := by
  unfold Go.sliceTo
  rw [if_pos (Or.inl h0)]

theorem sliceTo_toInt {α : Type} (xs : List α) (k : Nat) (h : k ≤ xs.length) (hk : k < 2 ^ 63) :
    Go.sliceTo xs (Go.toInt k) = .ok (xs.take k) := by
  rw [toInt_of_lt k hk, sliceTo_nat xs k h]

theorem sliceFrom_toInt {α : Type} (xs : List α) (k : Nat) (h : k ≤ xs.length) (hk : k < 2 ^ 63) :
    Go.sliceFrom xs (Go.toInt k) = .ok (xs.drop k) := by
  rw [toInt_of_lt k hk, sliceFrom_nat xs k h]

theorem sliceFrom_usub {α : Type} (xs : List α) (a b : Nat) (hab : b < a) (ha : a = xs.length)
    (h63 : a < 2 ^ 63) : Go.sliceFrom xs (Go.toInt (Go.usub a b)) = .ok (xs.drop (a - b)) := by
  rw [usub_of_le a b (by omega), sliceFrom_toInt xs (a - b) (by omega) (by omega)]

theorem sliceTo_toInt_lt {α : Type} (xs : List α) (k n : Nat) (hn : xs.length = n) (h : k < n)
    (hk : k < 2 ^ 63) : Go.sliceTo xs (Go.toInt k) = .ok (xs.take k) :=
  sliceTo_toInt xs k (by omega) hk

/-! ### strings -/

theorem splitChar_nl (t : Str) : Go.Strings.splitChar t '\n' = splitNL t := by
  induction t with
  | nil => rfl
  | cons x xs ih =>
    rw [Go.Strings.splitChar, splitNL, ih]
    cases splitNL xs <;> rfl

theorem join_nl (ls : List Str) : Go.Strings.join ls ['\n'] = joinNL ls := by
  induction ls with
  | nil => rfl
  | cons l ls ih =>
    cases ls with
    | nil => rfl
    | cons l' ls' =>
      simp only [Go.Strings.join, joinNL] at ih ⊢
      rw [ih]
      simp

theorem flatten_replicate_singleton (c : Char) (n : Nat) :
    (List.replicate n [c]).flatten = rep c n := by
  induction n with
  | zero => rfl
  | succ n ih => simp [rep]

theorem repeat_nat (c : Char) (n : Nat) : Go.Strings.repeat [c] (n : Int) = .ok (rep c n) := by
  unfold Go.Strings.repeat
  have : ¬ ((n : Int) < 0) := by omega
  rw [if_neg this, Int.toNat_natCast, flatten_replicate_singleton]

theorem repeat_toInt (c : Char) (n : Nat) (hn : n < 2 ^ 63) :
    Go.Strings.repeat [c] (Go.toInt n) = .ok (rep c n) := by
  rw [toInt_of_lt n hn, repeat_nat]

theorem repeat_usub (c : Char) (a b : Nat) (hab : a > b) (ha : a < 2 ^ 63) :
    Go.Strings.repeat [c] (Go.toInt (Go.usub a b)) = .ok (rep c (a - b)) := by
  rw [usub_of_le a b (by omega), repeat_toInt c (a - b) (by omega)]

theorem repeat_nonneg (c : Char) (n : Int) (hn : 0 ≤ n) :
    Go.Strings.repeat [c] n = .ok (rep c n.toNat) := by
  have := repeat_nat c n.toNat
  rwa [Int.toNat_of_nonneg hn] at this

theorem countChar_nl (t : Str) : Go.Strings.countChar t '\n' = (countNL t : Int) := rfl

theorem replaceChar_nl (t : Str) : Go.Strings.replaceChar t '\n' [' '] = Ansi.squash t := by
  unfold Go.Strings.replaceChar Ansi.squash
  induction t with
  | nil => rfl
  | cons x xs ih =>
    simp only [List.map_cons, List.flatten_cons, ih]
    by_cases h : x = '\n' <;> simp [h]

theorem containsChar_nl (t : Str) : Go.Strings.containsChar t '\n' = t.contains '\n' := rfl

theorem countNL_le_length (t : Str) : countNL t ≤ t.length := List.count_le_length

theorem length_splitNL (s : Str) : (splitNL s).length = countNL s + 1 := by
  induction s with
  | nil => rfl
  | cons c cs ih =>
    simp only [splitNL]
    split
    · rename_i h; rw [h] at ih; simp at ih
    · rename_i l ls h
      rw [h] at ih
      by_cases hc : c = '\n'
      · simp [hc, countNL] at ih ⊢; omega
      · simp [hc, countNL] at ih ⊢; omega

theorem height_le (t : Str) : Ansi.height t ≤ t.length + 1 := by
  unfold Ansi.height
  have := countNL_le_length t
  omega

theorem length_splitNL_height (s : Str) : (splitNL s).length = Ansi.height s := length_splitNL s

/-- `strings.LastIndex` against the model's `lastIndexNL`. -/
theorem lastIndexChar_nl (s : Str) :
    Go.Strings.lastIndexChar s '\n' =
      match Ansi.lastIndexNL s with
      | some i => (i : Int)
      | none => -1 := by
  have hb : ∀ i, s.reverse.idxOf? '\n' = some i → i < s.length := by
    intro i h
    obtain ⟨hi, _⟩ := List.idxOf?_eq_some_iff.mp h
    simpa using hi
  simp only [Go.Strings.lastIndexChar, Ansi.lastIndexNL]
  cases h : s.reverse.idxOf? '\n' with
  | none => rfl
  | some i =>
    have := hb i h
    simp only
    omega

theorem lastIndexNL_le (s : Str) (i : Nat) (h : Ansi.lastIndexNL s = some i) : i ≤ s.length := by
  simp only [Ansi.lastIndexNL] at h
  split at h
  · simp at h; omega
  · simp at h

end Gen16
