import Model
import Proofs.Clean
import Proofs.C13
import Proofs.C15
import Proofs.C16

/-
  Helper lemmas for Props/C13s.lean: the width bound on the lines of the rendered *string*.

  `fits w k cs` is the cell-level reading of `linesWithin`: scanning the cells `cs` with `k`
  cells already on the current line, no line gets longer than `w`.  For well-formed cells it is
  `linesWithin w (render cs)` (`linesWithin_render`); it is inherited by prefixes and suffixes of
  the cell list, and trimming clean text removes a prefix and a suffix of (bare) cells.
-/

namespace C13sP
open Str Ansi Cells AnsiSpec

/-! ### `linesWithin` and concatenation -/

theorem splitNL_append_nl (a b : Str) : splitNL (a ++ '\n' :: b) = splitNL a ++ splitNL b := by
  induction a with
  | nil => rw [List.nil_append, C16.splitNL_cons_nl]; rfl
  | cons c a ih =>
    by_cases hc : c = '\n'
    · subst hc
      rw [List.cons_append, C16.splitNL_cons_nl, C16.splitNL_cons_nl, ih, List.cons_append]
    · obtain ⟨l, ls, h1, h2⟩ := C16.splitNL_cons_ne c a hc
      obtain ⟨l', ls', h1', h2'⟩ := C16.splitNL_cons_ne c (a ++ '\n' :: b) hc
      rw [List.cons_append, h2', h2]
      rw [ih, h1, List.cons_append] at h1'
      simp only [List.cons.injEq] at h1'
      rw [← h1'.1, ← h1'.2, List.cons_append]

theorem linesWithin_append_nl (w : Int) (a b : Str) :
    linesWithin w (a ++ '\n' :: b) = (linesWithin w a && linesWithin w b) := by
  simp only [linesWithin, splitNL_append_nl, List.all_append]

theorem linesWithin_nil (w : Int) (hw : 0 ≤ w) : linesWithin w [] = true := by
  simp [linesWithin, splitNL, visLen, expand, expandF, hw]

theorem linesWithin_joinNL (w : Int) (hw : 0 ≤ w) (ls : List Str)
    (h : ∀ l ∈ ls, linesWithin w l = true) : linesWithin w (joinNL ls) = true := by
  induction ls with
  | nil => exact linesWithin_nil w hw
  | cons l ls ih =>
    cases ls with
    | nil => simpa [joinNL] using h l (by simp)
    | cons l' ls =>
      have e : joinNL (l :: l' :: ls) = l ++ '\n' :: joinNL (l' :: ls) := rfl
      rw [e, linesWithin_append_nl, h l (by simp), ih (fun x hx => h x (by simp [hx]))]
      rfl

/-! ### The cell-level reading of `linesWithin` -/

def fits (w : Int) : Nat → List Cell → Bool
  | k, [] => decide ((k : Int) ≤ w)
  | k, c :: cs => if c.ch = '\n' then decide ((k : Int) ≤ w) && fits w 0 cs else fits w (k + 1) cs

theorem nl_not_mem_render_list (cs : List Cell) (h : ∀ c ∈ cs, c.ok = true)
    (hn : ∀ c ∈ cs, c.ch ≠ '\n') : '\n' ∉ render cs := by
  induction cs with
  | nil => simp [render_nil]
  | cons c cs ih =>
    rw [render_cons, List.mem_append]
    intro hm
    rcases hm with hm | hm
    · exact nl_not_mem_render c (h c (by simp)) (hn c (by simp)) hm
    · exact ih (fun x hx => h x (by simp [hx])) (fun x hx => hn x (by simp [hx])) hm

theorem splitNL_of_no_nl (s : Str) (h : '\n' ∉ s) : splitNL s = [s] := by
  have := Cells.splitNL_prepend s [] [] [] h rfl
  simpa using this

theorem visLen_render (cs : List Cell) (h : ∀ c ∈ cs, c.ok = true) :
    visLen (render cs) = cs.length := by
  rw [visLen, expand_render cs h, List.length_map]

theorem nl_cell_bare (c : Cell) (hc : c.ok = true) (hn : c.ch = '\n') : c.render = ['\n'] := by
  have hc' := (cell_ok_iff c).1 hc
  have has : c.attrs = [] := by
    rcases hc'.2.2 with h | h
    · exact absurd hn h
    · exact h
  rw [render_bare c has, hn]

theorem linesWithin_render_aux (w : Int) (cs : List Cell) (h : ∀ c ∈ cs, c.ok = true) :
    ∀ pre : List Cell, (∀ c ∈ pre, c.ok = true) → (∀ c ∈ pre, c.ch ≠ '\n') →
      linesWithin w (render (pre ++ cs)) = fits w pre.length cs := by
  induction cs with
  | nil =>
    intro pre hp hn
    rw [List.append_nil, linesWithin, splitNL_of_no_nl _ (nl_not_mem_render_list pre hp hn)]
    simp [fits, visLen_render pre hp]
  | cons c cs ih =>
    intro pre hp hn
    have hcs : ∀ c ∈ cs, c.ok = true := fun x hx => h x (by simp [hx])
    have hc := h c (by simp)
    by_cases hnl : c.ch = '\n'
    · rw [render_append, render_cons, nl_cell_bare c hc hnl]
      simp only [List.cons_append, List.nil_append]
      rw [linesWithin_append_nl]
      have e1 : linesWithin w (render pre) = decide ((pre.length : Int) ≤ w) := by
        rw [linesWithin, splitNL_of_no_nl _ (nl_not_mem_render_list pre hp hn)]
        simp [visLen_render pre hp]
      have e2 := ih hcs [] (by simp) (by simp)
      simp only [List.nil_append, List.length_nil] at e2
      rw [e1, e2]
      simp [fits, hnl]
    · have e : pre ++ c :: cs = (pre ++ [c]) ++ cs := by simp
      rw [e, ih hcs (pre ++ [c])]
      · simp [fits, hnl]
      · intro x hx
        rcases List.mem_append.1 hx with hx | hx
        · exact hp x hx
        · simp at hx; subst hx; exact hc
      · intro x hx
        rcases List.mem_append.1 hx with hx | hx
        · exact hn x hx
        · simp at hx; subst hx; exact hnl

theorem linesWithin_render (w : Int) (cs : List Cell) (h : ∀ c ∈ cs, c.ok = true) :
    linesWithin w (render cs) = fits w 0 cs := by
  have := linesWithin_render_aux w cs h [] (by simp) (by simp)
  simpa using this

theorem fits_le (w : Int) : ∀ (cs : List Cell) (k : Nat), fits w k cs = true → (k : Int) ≤ w := by
  intro cs
  induction cs with
  | nil => intro k h; simpa [fits] using h
  | cons c cs ih =>
    intro k h
    rw [fits] at h
    split at h
    · simp only [Bool.and_eq_true, decide_eq_true_eq] at h
      exact h.1
    · have := ih (k + 1) h
      omega

theorem fits_mono (w : Int) : ∀ (cs : List Cell) (k j : Nat), j ≤ k → fits w k cs = true →
    fits w j cs = true := by
  intro cs
  induction cs with
  | nil =>
    intro k j hj h
    simp only [fits, decide_eq_true_eq] at h ⊢
    omega
  | cons c cs ih =>
    intro k j hj h
    rw [fits] at h ⊢
    split
    · rename_i hn
      simp only [hn, if_true, Bool.and_eq_true, decide_eq_true_eq] at h ⊢
      exact ⟨by omega, h.2⟩
    · rename_i hn
      simp only [hn, if_false] at h
      exact ih (k + 1) (j + 1) (by omega) h

theorem fits_tail (w : Int) (c : Cell) (cs : List Cell) (k : Nat) (h : fits w k (c :: cs) = true) :
    fits w 0 cs = true := by
  rw [fits] at h
  split at h
  · simp only [Bool.and_eq_true] at h
    exact h.2
  · exact fits_mono w cs (k + 1) 0 (by omega) h

theorem fits_suffix (w : Int) (cs cs' : List Cell) (hs : cs' <:+ cs) (h : fits w 0 cs = true) :
    fits w 0 cs' = true := by
  obtain ⟨a, rfl⟩ := hs
  induction a with
  | nil => exact h
  | cons c a ih => exact ih (fits_tail w c _ 0 h)

theorem fits_prefix_aux (w : Int) (b : List Cell) : ∀ (a : List Cell) (k : Nat),
    fits w k (a ++ b) = true → fits w k a = true := by
  intro a
  induction a with
  | nil =>
    intro k h
    simp only [fits, decide_eq_true_eq]
    exact fits_le w _ k h
  | cons c a ih =>
    intro k h
    rw [List.cons_append, fits] at h
    rw [fits]
    split
    · rename_i hn
      simp only [hn, if_true, Bool.and_eq_true] at h ⊢
      exact ⟨h.1, ih 0 h.2⟩
    · rename_i hn
      simp only [hn, if_false] at h
      exact ih (k + 1) h

theorem fits_prefix (w : Int) (cs cs' : List Cell) (hs : cs' <+: cs) (h : fits w 0 cs = true) :
    fits w 0 cs' = true := by
  obtain ⟨b, rfl⟩ := hs
  exact fits_prefix_aux w b cs' 0 h

theorem fits_no_nl (w : Int) : ∀ (cs : List Cell) (k : Nat), (∀ c ∈ cs, c.ch ≠ '\n') →
    ((k + cs.length : Nat) : Int) ≤ w → fits w k cs = true := by
  intro cs
  induction cs with
  | nil => intro k _ h; simpa [fits] using h
  | cons c cs ih =>
    intro k hn h
    rw [fits]
    simp only [hn c (by simp), if_false]
    apply ih (k + 1) (fun x hx => hn x (by simp [hx]))
    simp only [List.length_cons] at h
    have : k + 1 + cs.length = k + (cs.length + 1) := by omega
    rw [this]
    exact h

/-! ### Trimming clean text removes a prefix and a suffix of the cells -/

theorem trimLeft_cells (p : Char → Bool) (hp : ∀ c, p c = true → c = ' ' ∨ c = '\n')
    (cs : List Cell) : ∃ cs', cs' <:+ cs ∧ trimLeft p (render cs) = render cs' := by
  induction cs with
  | nil => exact ⟨[], List.suffix_refl _, by simp [trimLeft, render_nil]⟩
  | cons c cs ih =>
    rw [render_cons]
    by_cases has : c.attrs = []
    · rw [render_bare c has]
      by_cases hpc : p c.ch = true
      · obtain ⟨cs', h1, h2⟩ := ih
        refine ⟨cs', List.IsSuffix.trans h1 (List.suffix_cons _ _), ?_⟩
        rw [← h2]
        simp [trimLeft, hpc]
      · refine ⟨c :: cs, List.suffix_refl _, ?_⟩
        rw [render_cons, render_bare c has]
        simp [trimLeft, hpc]
    · obtain ⟨t, ht⟩ := render_styled_head c has
      have hpe : ¬ p ESC = true := by
        intro hh
        rcases hp _ hh with h1 | h1 <;> revert h1 <;> decide
      refine ⟨c :: cs, List.suffix_refl _, ?_⟩
      rw [render_cons, ht]
      simp [trimLeft, hpe]

theorem trimRight_cells (p : Char → Bool) (hp : ∀ c, p c = true → c = ' ' ∨ c = '\n')
    (cs : List Cell) : ∃ cs', cs' <+: cs ∧ trimRight p (render cs) = render cs' := by
  induction cs using snoc_induction with
  | nil => exact ⟨[], List.prefix_refl _, by simp [trimRight, render_nil]⟩
  | snoc cs c ih =>
    have hr : render (cs ++ [c]) = render cs ++ c.render := by
      rw [render_append, render_cons, render_nil, List.append_nil]
    by_cases has : c.attrs = []
    · rw [hr, render_bare c has]
      by_cases hpc : p c.ch = true
      · rw [trimRight_snoc_drop p _ _ hpc]
        obtain ⟨cs', h1, h2⟩ := ih
        exact ⟨cs', List.IsPrefix.trans h1 (List.prefix_append _ _), h2⟩
      · rw [trimRight_snoc_keep p _ _ hpc, ← render_bare c has, ← hr]
        exact ⟨cs ++ [c], List.prefix_refl _, rfl⟩
    · obtain ⟨t, ht⟩ := render_styled_last c has
      have hpm : ¬ p 'm' = true := by
        intro hh
        rcases hp _ hh with h1 | h1 <;> revert h1 <;> decide
      have e : trimRight p (render cs ++ c.render) = render cs ++ c.render := by
        rw [ht, ← List.append_assoc]
        exact trimRight_snoc_keep p _ _ hpm
      rw [hr, e, ← hr]
      exact ⟨cs ++ [c], List.prefix_refl _, rfl⟩

/-- Trimming spaces / newlines off clean text whose lines fit leaves text whose lines fit. -/
theorem linesWithin_trim (p : Char → Bool) (hp : ∀ c, p c = true → c = ' ' ∨ c = '\n')
    (w : Int) (t : Str) (ht : Clean t) (h : linesWithin w t = true) :
    linesWithin w (trim p t) = true := by
  obtain ⟨cs, hcs, rfl⟩ := ht
  have hok := clean_ok_all hcs
  rw [linesWithin_render w cs hok] at h
  obtain ⟨cs1, hs1, e1⟩ := trimLeft_cells p hp cs
  obtain ⟨cs2, hs2, e2⟩ := trimRight_cells p hp cs1
  have hok1 : ∀ c ∈ cs1, c.ok = true := fun c hc => hok c (hs1.subset hc)
  have hok2 : ∀ c ∈ cs2, c.ok = true := fun c hc => hok1 c (hs2.subset hc)
  rw [trim, e1, e2, linesWithin_render w cs2 hok2]
  exact fits_prefix w cs1 cs2 hs2 (fits_suffix w cs cs1 hs1 h)

/-! ### Lines of clean, newline-free matches -/

theorem cleanRaw_cells (l : List RawCell) (h : ∀ m ∈ l, CleanRaw m) :
    ∃ cs : List Cell, (∀ c ∈ cs, c.clean = true) ∧ l = cs.map Cell.raw := by
  induction l with
  | nil => exact ⟨[], by simp, rfl⟩
  | cons m l ih =>
    obtain ⟨c, hc, rfl⟩ := h m (by simp)
    obtain ⟨cs, hcs, rfl⟩ := ih (fun x hx => h x (by simp [hx]))
    refine ⟨c :: cs, ?_, rfl⟩
    intro x hx
    simp only [List.mem_cons] at hx
    rcases hx with rfl | hx
    · exact hc
    · exact hcs x hx

theorem collapse_map_raw (cs : List Cell) : collapse (cs.map Cell.raw) = render cs := by
  induction cs with
  | nil => rfl
  | cons c cs ih => rw [List.map_cons, collapse_cons, ih, render_cons]; rfl

/-- A line of at most `w` clean newline-free matches is a string line of at most `w` visible
    characters. -/
theorem linesWithin_collapse (w : Int) (l : List RawCell) (h : ∀ m ∈ l, CleanRaw m)
    (hn : ∀ m ∈ l, m.letter ≠ '\n') (hl : (l.length : Int) ≤ w) :
    linesWithin w (collapse l) = true := by
  obtain ⟨cs, hcs, rfl⟩ := cleanRaw_cells l h
  rw [collapse_map_raw, linesWithin_render w cs (clean_ok_all hcs)]
  apply fits_no_nl
  · intro c hc
    exact hn c.raw (List.mem_map.2 ⟨c, hc, rfl⟩)
  · simpa using hl

theorem linesWithin_lines (w : Int) (hw : 0 ≤ w) (L : List (List RawCell))
    (h : ∀ l ∈ L, ∀ m ∈ l, CleanRaw m) (hn : ∀ l ∈ L, ∀ m ∈ l, m.letter ≠ '\n')
    (hl : ∀ l ∈ L, (l.length : Int) ≤ w) : linesWithin w (joinNL (L.map collapse)) = true := by
  apply linesWithin_joinNL w hw
  intro x hx
  simp only [List.mem_map] at hx
  obtain ⟨l, hl', rfl⟩ := hx
  exact linesWithin_collapse w l (h l hl') (hn l hl') (hl l hl')

/-! ### Wrap and DumbWrap -/

theorem wrap_width_clean (s : Str) (h : Clean s) (w : Int) (hw : 1 ≤ w) :
    linesWithin w (wrap s w) = true := by
  unfold wrap
  exact linesWithin_lines w (by omega) _ (wrapLines_all (expand s) w (clean_expand s h))
    (WrapP.wrap_lines_no_newline _ w) (WrapP.wrap_width _ w hw)

theorem dumbWrap_width_clean (s : Str) (h : Clean s) (w : Int) (hw : 1 ≤ w) :
    linesWithin w (dumbWrap s w) = true := by
  rw [LayoutP.dumbWrap_refines]
  have hmem : ∀ l ∈ LayoutP.dumbLinesP (expand s) w, ∀ m ∈ l,
      m ∈ (expand s).filter (fun m => m.letter ≠ '\n') := by
    intro l hl m hm
    rw [← LayoutP.dumbWrap_keeps_all]
    exact List.mem_flatten.2 ⟨l, hl, hm⟩
  apply linesWithin_lines w (by omega)
  · intro l hl m hm
    exact clean_expand s h m (List.mem_filter.1 (hmem l hl m hm)).1
  · intro l hl m hm
    simpa using (List.mem_filter.1 (hmem l hl m hm)).2
  · exact LayoutP.dumbWrap_width _ w hw

/-! ### The renderers -/

theorem trim_wrap_within (p : Char → Bool) (hp : ∀ c, p c = true → c = ' ' ∨ c = '\n')
    (text : Str) (ht : Clean text) (w : Int) (hw : 1 ≤ w) :
    linesWithin w (trim p (wrap text w)) = true :=
  linesWithin_trim p hp w _ (clean_wrap text w ht) (wrap_width_clean text ht w hw)

section
variable (c : Colors) (hc : ColorsOk c)
include hc

theorem html_lines_within (nodes : List Dom.Node) (ht : Hypertext.tagsCleanList nodes = true)
    (w : Int) (hw : 1 ≤ w) : linesWithin w (Markup.htmlR c nodes w) = true := by
  unfold Markup.htmlR Hypertext.renderWithLinks Hypertext.renderFull
  exact trim_wrap_within isSpNl isSpNl_spec _ (kids_clean c hc nodes ht _ _ _ _ clean_nil) w hw

theorem gemtext_lines_within (lines : List Str) (hl : ∀ l ∈ lines, Safe.noCtl l = true)
    (w : Int) (hw : 1 ≤ w) : linesWithin w (Markup.gemR c lines w) = true := by
  unfold Markup.gemR Gemtext.renderWithLinks Gemtext.renderFull
  have h := gem_foldl c hc w lines hl {} ⟨clean_nil, rfl⟩
  apply trim_wrap_within isNl isNl_spec _ _ w hw
  split
  · exact clean_append _ _ h.1 (clean_codeBlockOf c hc _ _ h.2)
  · exact h.1

theorem plaintext_lines_within (text : Str) (ht : Safe.noCtl text = true)
    (w : Int) (hw : 1 ≤ w) : linesWithin w (Markup.plainR c text w) = true := by
  simp only [Markup.plainR, Plaintext.renderWithLinks, Plaintext.renderFull]
  exact trim_wrap_within isNl isNl_spec _ (replaceUrls_clean c hc _ _ _ _ ht) w hw

end

end C13sP
