import Model
import Proofs.C15
import Proofs.C16
import Proofs.C19

/-
  Helper lemmas for Props/C01.lean: the lines of a text contain only characters of the text and
  no newline.
-/

namespace C01aux
open Str

theorem mem_of_mem_splitNL (s : Str) (l : Str) (ch : Char) (hl : l ∈ splitNL s) (hch : ch ∈ l) : ch ∈ s :=
  (C15P.mem_splitNL_infix s l hl).subset hch

theorem splitNL_no_nl (s : Str) (l : Str) (hl : l ∈ splitNL s) : '\n' ∉ l :=
  C16.splitNL_noNL s l hl

/-- An `r;g;b` colour tail behind `38;2;` / `48;2;` is a well-formed SGR parameter string. -/
theorem rgb_sgrOk (pre s : Str) (hp : pre = "38;2;".toList ∨ pre = "48;2;".toList)
    (hs : ∃ r g b : Nat, r ≤ 255 ∧ g ≤ 255 ∧ b ≤ 255 ∧
      s = Style.itoa r ++ ';' :: Style.itoa g ++ ';' :: Style.itoa b) :
    Cells.sgrOk (pre ++ s) = true := by
  obtain ⟨r, g, b, _, _, _, hs⟩ := hs
  subst hs
  have hd : ∀ n : Nat, ∀ ch ∈ Style.itoa n, (ch.isDigit || decide (ch = ';')) = true := by
    intro n ch hch
    simp [Config.itoa_isDigit n ch hch]
  have hall : (Style.itoa r ++ ';' :: Style.itoa g ++ ';' :: Style.itoa b).all
      (fun d => d.isDigit || decide (d = ';')) = true := by
    simp only [List.all_append, List.all_cons, Bool.and_eq_true, List.all_eq_true]
    exact ⟨⟨hd r, by decide, hd g⟩, by decide, hd b⟩
  have h3 : ∀ t : Str, t.all (fun d => d.isDigit || decide (d = ';')) = true →
      Cells.sgrOk ('3' :: '8' :: ';' :: '2' :: ';' :: t) = true := by
    intro t ht
    simp only [Cells.sgrOk, List.all_cons, ht]
    decide
  have h4 : ∀ t : Str, t.all (fun d => d.isDigit || decide (d = ';')) = true →
      Cells.sgrOk ('4' :: '8' :: ';' :: '2' :: ';' :: t) = true := by
    intro t ht
    simp only [Cells.sgrOk, List.all_cons, ht]
    decide
  rcases hp with hp | hp <;> subst hp
  · exact h3 _ hall
  · exact h4 _ hall

end C01aux
