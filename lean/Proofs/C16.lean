import Model

/-
  Helper lemmas for Props/C16.lean: `splitNL` / `joinNL` / `countNL` algebra, the line-level
  `centerLines`, `replaceLastLine` and `setLength`.
-/

namespace C16
open Str Ansi

/-! ### splitNL / joinNL / countNL -/

theorem splitNL_ne_nil (s : Str) : splitNL s ≠ [] := by
  cases s with
  | nil => simp [splitNL]
  | cons c cs =>
    simp only [splitNL]
    split
    · simp
    · split <;> simp

theorem splitNL_cons_nl (cs : Str) : splitNL ('\n' :: cs) = [] :: splitNL cs := by
  have h := splitNL_ne_nil cs
  simp only [splitNL]
  split
  · contradiction
  · next l ls heq => simp [heq]

theorem splitNL_cons_ne (c : Char) (cs : Str) (hc : c ≠ '\n') :
    ∃ l ls, splitNL cs = l :: ls ∧ splitNL (c :: cs) = (c :: l) :: ls := by
  have h := splitNL_ne_nil cs
  cases heq : splitNL cs with
  | nil => contradiction
  | cons l ls =>
    refine ⟨l, ls, rfl, ?_⟩
    simp only [splitNL, heq, hc, if_false]

theorem length_splitNL (s : Str) : (splitNL s).length = countNL s + 1 := by
  induction s with
  | nil => simp [splitNL, countNL]
  | cons c cs ih =>
    by_cases hc : c = '\n'
    · subst hc
      rw [splitNL_cons_nl]
      simp only [List.length_cons, ih, countNL, List.count_cons_self]
    · obtain ⟨l, ls, h1, h2⟩ := splitNL_cons_ne c cs hc
      rw [h2]
      rw [h1] at ih
      simp only [List.length_cons] at ih ⊢
      rw [ih]
      simp only [countNL]
      rw [List.count_cons_of_ne hc]

theorem height_eq_length (s : Str) : height s = (splitNL s).length := by
  rw [length_splitNL]; rfl

theorem joinNL_cons (l : Str) (ls : List Str) (h : ls ≠ []) :
    joinNL (l :: ls) = l ++ '\n' :: joinNL ls := by
  cases ls with
  | nil => contradiction
  | cons a t => simp [joinNL]

theorem joinNL_splitNL (s : Str) : joinNL (splitNL s) = s := by
  induction s with
  | nil => simp [splitNL, joinNL]
  | cons c cs ih =>
    by_cases hc : c = '\n'
    · subst hc
      rw [splitNL_cons_nl, joinNL_cons _ _ (splitNL_ne_nil cs), ih]
      rfl
    · obtain ⟨l, ls, h1, h2⟩ := splitNL_cons_ne c cs hc
      rw [h2]
      rw [h1] at ih
      cases ls with
      | nil =>
        simp only [joinNL] at ih ⊢
        rw [ih]
      | cons a t =>
        rw [joinNL_cons _ _ (by simp)] at ih ⊢
        rw [← ih]
        rfl

theorem splitNL_noNL (s : Str) : ∀ l ∈ splitNL s, '\n' ∉ l := by
  induction s with
  | nil => simp [splitNL]
  | cons c cs ih =>
    by_cases hc : c = '\n'
    · subst hc
      rw [splitNL_cons_nl]
      intro l hl
      rcases List.mem_cons.mp hl with rfl | hl
      · simp
      · exact ih l hl
    · obtain ⟨l, ls, h1, h2⟩ := splitNL_cons_ne c cs hc
      rw [h2]
      rw [h1] at ih
      intro x hx
      rcases List.mem_cons.mp hx with rfl | hx
      · intro hm
        rcases List.mem_cons.mp hm with heq | hm
        · exact hc heq.symm
        · exact ih l (List.mem_cons_self) hm
      · exact ih x (List.mem_cons_of_mem _ hx)

theorem joinNL_append (a b : List Str) (ha : a ≠ []) (hb : b ≠ []) :
    joinNL (a ++ b) = joinNL a ++ '\n' :: joinNL b := by
  induction a with
  | nil => contradiction
  | cons x t ih =>
    cases t with
    | nil =>
      simp only [List.cons_append, List.nil_append]
      rw [joinNL_cons _ _ hb]
      rfl
    | cons y t' =>
      rw [List.cons_append, joinNL_cons x _ (by simp), ih (by simp),
        joinNL_cons x (y :: t') (by simp)]
      simp

theorem countNL_joinNL (ls : List Str) (hne : ls ≠ []) (hno : ∀ l ∈ ls, '\n' ∉ l) :
    countNL (joinNL ls) + 1 = ls.length := by
  induction ls with
  | nil => contradiction
  | cons x t ih =>
    have hx : List.count '\n' x = 0 := List.count_eq_zero.mpr (hno x List.mem_cons_self)
    cases t with
    | nil => simp [joinNL, countNL, hx]
    | cons y t' =>
      have ih' := ih (by simp) (fun l hl => hno l (List.mem_cons_of_mem _ hl))
      rw [joinNL_cons _ _ (by simp)]
      simp only [countNL, List.count_append, List.count_cons_self, hx, List.length_cons] at ih' ⊢
      omega

theorem joinNL_replicate_append (k : Nat) (ls : List Str) (hne : ls ≠ []) :
    joinNL (List.replicate k [] ++ ls) = rep '\n' k ++ joinNL ls := by
  induction k with
  | zero => simp [rep]
  | succ n ih =>
    rw [List.replicate_succ, List.cons_append, joinNL_cons _ _ (by simp [hne]), ih]
    simp [rep, List.replicate_succ]

theorem joinNL_replicate (k : Nat) : joinNL (List.replicate (k + 1) []) = rep '\n' k := by
  induction k with
  | zero => simp [joinNL, rep]
  | succ n ih =>
    rw [List.replicate_succ, joinNL_cons _ _ (by simp), ih]
    simp [rep, List.replicate_succ]

theorem rep_succ_comm (k : Nat) : rep '\n' k ++ ['\n'] = '\n' :: rep '\n' k := by
  simp only [rep]
  rw [← List.replicate_succ, List.replicate_succ']

theorem joinNL_append_replicate (k : Nat) (ls : List Str) (hne : ls ≠ []) :
    joinNL (ls ++ List.replicate k []) = joinNL ls ++ rep '\n' k := by
  cases k with
  | zero => simp [rep]
  | succ n =>
    rw [joinNL_append _ _ hne (by simp), joinNL_replicate]
    have h := rep_succ_comm n
    simp only [rep] at h ⊢
    rw [← h, List.replicate_succ']

/-! ### centerLines -/

/-- The top block of `centerLines`. -/
def topLines (pfx : List Str) (top : Nat) : List Str :=
  if top > pfx.length then List.replicate (top - pfx.length) [] ++ pfx
  else if top < pfx.length then pfx.drop (pfx.length - top) else pfx

/-- The bottom block of `centerLines`. -/
def botLines (sfx : List Str) (bottom : Nat) : List Str :=
  if bottom > sfx.length then sfx ++ List.replicate (bottom - sfx.length) []
  else if bottom < sfx.length then sfx.take bottom else sfx

theorem centerLines_eq (p c s : List Str) (h : Nat) :
    centerLines p c s h =
      if h ≤ c.length then c.take h
      else if (h - c.length) / 2 = 0 then
        c ++ botLines s ((h - c.length) / 2 + (h - c.length) % 2)
      else topLines p ((h - c.length) / 2) ++ c ++
        botLines s ((h - c.length) / 2 + (h - c.length) % 2) := rfl

theorem length_topLines (p : List Str) (t : Nat) : (topLines p t).length = t := by
  unfold topLines
  split
  · simp only [List.length_append, List.length_replicate]; omega
  · split
    · simp only [List.length_drop]; omega
    · omega

theorem length_botLines (s : List Str) (b : Nat) : (botLines s b).length = b := by
  unfold botLines
  split
  · simp only [List.length_append, List.length_replicate]; omega
  · split
    · simp only [List.length_take]; omega
    · omega

theorem topLines_suffix (p : List Str) (t : Nat) :
    ∃ k, topLines p t <:+ (List.replicate k [] ++ p) := by
  unfold topLines
  split
  · exact ⟨t - p.length, List.suffix_refl _⟩
  · split
    · exact ⟨0, by simpa using List.drop_suffix _ _⟩
    · exact ⟨0, by simp⟩

theorem botLines_prefix (s : List Str) (b : Nat) :
    ∃ k, botLines s b <+: (s ++ List.replicate k []) := by
  unfold botLines
  split
  · exact ⟨b - s.length, List.prefix_refl _⟩
  · split
    · exact ⟨0, by simpa using List.take_prefix _ _⟩
    · exact ⟨0, by simp⟩

theorem mem_topLines (p : List Str) (t : Nat) : ∀ l ∈ topLines p t, l = [] ∨ l ∈ p := by
  intro l hl
  obtain ⟨k, hk⟩ := topLines_suffix p t
  have := hk.subset hl
  rcases List.mem_append.mp this with h | h
  · exact Or.inl (List.eq_of_mem_replicate h)
  · exact Or.inr h

theorem mem_botLines (s : List Str) (b : Nat) : ∀ l ∈ botLines s b, l = [] ∨ l ∈ s := by
  intro l hl
  obtain ⟨k, hk⟩ := botLines_prefix s b
  have := hk.subset hl
  rcases List.mem_append.mp this with h | h
  · exact Or.inr h
  · exact Or.inl (List.eq_of_mem_replicate h)

theorem length_centerLines (p c s : List Str) (h : Nat) : (centerLines p c s h).length = h := by
  rw [centerLines_eq]
  split
  · simp only [List.length_take]; omega
  · split
    · simp only [List.length_append, length_botLines]; omega
    · simp only [List.length_append, length_botLines, length_topLines]; omega

theorem mem_centerLines (p c s : List Str) (h : Nat) :
    ∀ l ∈ centerLines p c s h, l = [] ∨ l ∈ p ∨ l ∈ c ∨ l ∈ s := by
  intro l hl
  rw [centerLines_eq] at hl
  split at hl
  · exact Or.inr (Or.inr (Or.inl (List.mem_of_mem_take hl)))
  · split at hl
    · rcases List.mem_append.mp hl with h1 | h1
      · exact Or.inr (Or.inr (Or.inl h1))
      · rcases mem_botLines _ _ l h1 with h2 | h2
        · exact Or.inl h2
        · exact Or.inr (Or.inr (Or.inr h2))
    · rcases List.mem_append.mp hl with h1 | h1
      · rcases List.mem_append.mp h1 with h0 | h0
        · rcases mem_topLines _ _ l h0 with h2 | h2
          · exact Or.inl h2
          · exact Or.inr (Or.inl h2)
        · exact Or.inr (Or.inr (Or.inl h0))
      · rcases mem_botLines _ _ l h1 with h2 | h2
        · exact Or.inl h2
        · exact Or.inr (Or.inr (Or.inr h2))

theorem centerLines_position (p c s : List Str) (h : Nat) (hgt : h > c.length) :
    ∃ top bottom : List Str,
      centerLines p c s h = top ++ c ++ bottom ∧
      top.length = (h - c.length) / 2 ∧
      bottom.length = (h - c.length) / 2 + (h - c.length) % 2 ∧
      (∃ k, top <:+ (List.replicate k [] ++ p)) ∧
      (∃ k, bottom <+: (s ++ List.replicate k [])) := by
  have hn : ¬ h ≤ c.length := by omega
  by_cases ht : (h - c.length) / 2 = 0
  · refine ⟨[], botLines s ((h - c.length) / 2 + (h - c.length) % 2), ?_, ?_,
      length_botLines _ _, ⟨0, by simp⟩, botLines_prefix _ _⟩
    · rw [centerLines_eq]; simp only [hn, ht, if_false, if_true, List.nil_append]
    · simp [ht]
  · refine ⟨topLines p ((h - c.length) / 2), botLines s ((h - c.length) / 2 + (h - c.length) % 2),
      ?_, length_topLines _ _, length_botLines _ _, topLines_suffix _ _, botLines_prefix _ _⟩
    rw [centerLines_eq]; simp only [hn, ht, if_false]

/-! ### string level vs line level -/

theorem joinNL_topLines (P : List Str) (t : Nat) (hP : P ≠ []) :
    joinNL (topLines P t) =
      if t > P.length then rep '\n' (t - P.length) ++ joinNL P
      else if t < P.length then joinNL (P.drop (P.length - t)) else joinNL P := by
  unfold topLines
  split
  · rw [joinNL_replicate_append _ _ hP]
  · split <;> rfl

theorem joinNL_botLines (S : List Str) (b : Nat) (hS : S ≠ []) :
    joinNL (botLines S b) =
      if b > S.length then joinNL S ++ rep '\n' (b - S.length)
      else if b < S.length then joinNL (S.take b) else joinNL S := by
  unfold botLines
  split
  · rw [joinNL_append_replicate _ _ hS]
  · split <;> rfl

theorem ne_nil_of_length_pos {α : Type} (l : List α) (h : 0 < l.length) : l ≠ [] := by
  intro he; rw [he] at h; simp at h

theorem center_refines_aux (p c s : Str) (h : Nat) :
    centerVertically p c s h = joinNL (centerLines (splitNL p) (splitNL c) (splitNL s) h) := by
  rw [centerLines_eq]
  unfold centerVertically
  simp only [height_eq_length]
  split
  · rfl
  · next hn =>
    have hP := splitNL_ne_nil p
    have hC := splitNL_ne_nil c
    have hS := splitNL_ne_nil s
    have hb : 0 < (h - (splitNL c).length) / 2 + (h - (splitNL c).length) % 2 := by omega
    have hB : botLines (splitNL s) ((h - (splitNL c).length) / 2 + (h - (splitNL c).length) % 2) ≠ [] :=
      ne_nil_of_length_pos _ (by rw [length_botLines]; exact hb)
    split
    · rw [joinNL_append _ _ hC hB, joinNL_botLines _ _ hS]
      simp only [joinNL_splitNL]
    · next ht =>
      have hT : topLines (splitNL p) ((h - (splitNL c).length) / 2) ≠ [] :=
        ne_nil_of_length_pos _ (by rw [length_topLines]; omega)
      rw [joinNL_append _ _ (by simp [hC]) hB, joinNL_append _ _ hT hC,
        joinNL_botLines _ _ hS, joinNL_topLines _ _ hP]
      simp only [joinNL_splitNL, List.append_assoc, List.cons_append]

theorem center_height_aux (p c s : Str) (h : Nat) (hh : 1 ≤ h) :
    height (centerVertically p c s h) = h := by
  rw [center_refines_aux]
  have hlen := length_centerLines (splitNL p) (splitNL c) (splitNL s) h
  have hne : centerLines (splitNL p) (splitNL c) (splitNL s) h ≠ [] :=
    ne_nil_of_length_pos _ (by omega)
  have hno : ∀ l ∈ centerLines (splitNL p) (splitNL c) (splitNL s) h, '\n' ∉ l := by
    intro l hl
    rcases mem_centerLines _ _ _ _ l hl with h1 | h1 | h1 | h1
    · simp [h1]
    · exact splitNL_noNL p l h1
    · exact splitNL_noNL c l h1
    · exact splitNL_noNL s l h1
  unfold height
  rw [countNL_joinNL _ hne hno, hlen]

theorem center_clip_aux (p c s : Str) (h : Nat) (hle : h ≤ height c) :
    centerVertically p c s h = joinNL ((splitNL c).take h) := by
  unfold centerVertically
  simp only [hle, if_true]

/-! ### replaceLastLine -/

theorem idxOf?_count (a : Char) (r : Str) (j : Nat) (h : r.idxOf? a = some j) :
    r.count a = (r.drop (j + 1)).count a + 1 := by
  induction r generalizing j with
  | nil => simp at h
  | cons x t ih =>
    rw [List.idxOf?_cons] at h
    by_cases hx : x = a
    · subst hx
      simp only [beq_self_eq_true, if_true, Option.some.injEq] at h
      subst h
      simp
    · have hx' : (x == a) = false := by simpa using hx
      simp only [hx', Bool.false_eq_true, if_false, Option.map_eq_some_iff] at h
      obtain ⟨j', hj', rfl⟩ := h
      rw [List.count_cons_of_ne hx, ih j' hj']
      simp

theorem replace_aux (s r : Str) (h2 : 2 ≤ height s) (hr : '\n' ∉ r) :
    ∃ out, replaceLastLine s r = .ok out ∧ height out = height s := by
  have hc : r.contains '\n' = false := by
    simpa using hr
  have hr0 : List.count '\n' r = 0 := List.count_eq_zero.mpr hr
  unfold replaceLastLine
  simp only [hc, Bool.false_eq_true, if_false]
  refine ⟨_, rfl, ?_⟩
  cases hidx : s.reverse.idxOf? '\n' with
  | none =>
    have hnm : '\n' ∉ s.reverse := List.idxOf?_eq_none_iff.mp hidx
    have h0 : List.count '\n' s = 0 := List.count_eq_zero.mpr (by simpa using hnm)
    simp only [height, countNL, h0] at h2
    omega
  | some j =>
    have hcount := idxOf?_count '\n' s.reverse j hidx
    rw [List.drop_reverse, List.count_reverse, List.count_reverse] at hcount
    simp only [lastIndexNL, hidx, height, countNL, List.count_append, List.count_cons_self, hr0]
    have he : s.length - 1 - j = s.length - (j + 1) := by omega
    rw [he]
    omega

/-! ### setLength -/

theorem squash_noNL (t : Str) : '\n' ∉ squash t := by
  unfold squash
  intro hm
  obtain ⟨c, _, hc⟩ := List.mem_map.mp hm
  split at hc
  · exact absurd hc (by decide)
  · next hne => exact hne hc

theorem length_squash (t : Str) : (squash t).length = t.length := by
  simp [squash]

theorem setLength_aux (f : Str) (w : Int) (e : Char) (hw : 0 ≤ w) (he : e ≠ '\n') :
    ∃ out, setLength f w [e] = .ok out ∧ '\n' ∉ out ∧ (out.length : Int) = w := by
  have hno := squash_noNL (scrub f)
  unfold setLength
  generalize squash (scrub f) = t at hno
  by_cases h0 : w = 0
  · subst h0
    exact ⟨[], by simp⟩
  · simp only [h0, if_false]
    by_cases h1 : (t.length : Int) > w
    · have h1' : ¬ (w - 1 < 0) := by omega
      simp only [h1, h1', if_true, if_false]
      refine ⟨_, rfl, ?_, ?_⟩
      · intro hm
        rcases List.mem_append.mp hm with hm | hm
        · exact hno (List.mem_of_mem_take hm)
        · simp at hm; exact he hm.symm
      · simp only [List.length_append, List.length_take, List.length_cons, List.length_nil]
        omega
    · simp only [h1, if_false]
      by_cases h2 : (t.length : Int) < w
      · simp only [h2, if_true]
        refine ⟨_, rfl, ?_, ?_⟩
        · intro hm
          rcases List.mem_append.mp hm with hm | hm
          · exact hno hm
          · have := List.eq_of_mem_replicate hm
            exact absurd this (by decide)
        · simp only [List.length_append, rep, List.length_replicate]
          omega
      · simp only [h2, if_false]
        exact ⟨_, rfl, hno, by omega⟩

end C16
