import Model
import Proofs.C03

/-
  Helper lemmas for C05: truncating a response that is classified as a document.
-/

namespace Jtp
open Str
variable {Doc : Type}

/-- A line read from one stream is read identically in front of any other remainder. -/
theorem readLine_relocate : ∀ {s l r : Str}, readLine s = some (l, r) →
    ∀ r', readLine (l ++ r') = some (l, r')
  | [], _, _, h => by simp [readLine] at h
  | c :: cs, l, r, h => by
    intro r'
    simp only [readLine] at h
    split at h
    · rename_i hc
      simp at h; obtain ⟨rfl, rfl⟩ := h
      simp [readLine]
    · rename_i hc
      split at h
      · rename_i l' r0 heq
        simp at h; obtain ⟨rfl, rfl⟩ := h
        simp [readLine, hc, readLine_relocate heq r']
      · simp at h

/-- A proper prefix of a line is not a line. -/
theorem readLine_take_none : ∀ {s l r : Str}, readLine s = some (l, r) →
    ∀ k, k < l.length → readLine (l.take k) = none
  | [], _, _, h => by simp [readLine] at h
  | c :: cs, l, r, h => by
    intro k hk
    simp only [readLine] at h
    split at h
    · rename_i hc
      simp at h; obtain ⟨rfl, rfl⟩ := h
      have : k = 0 := by simpa using hk
      subst this; simp [readLine]
    · rename_i hc
      split at h
      · rename_i l' r0 heq
        simp at h; obtain ⟨rfl, rfl⟩ := h
        cases k with
        | zero => simp [readLine]
        | succ k =>
          have hk' : k < l'.length := by simpa using hk
          simp [readLine, hc, readLine_take_none heq k hk']
      · simp at h

theorem validateHeaders_none_of_readLine (tol : List Str) (fuel : Nat) (s : Str) (v : Bool)
    (h : readLine s = none) : validateHeaders tol fuel s v = none := by
  cases fuel <;> simp [validateHeaders, h]

/-- An accepted header block `hdr` (lines up to and including the blank line) decides everything:
    the body is whatever follows it, and no proper prefix of it is accepted. -/
theorem validateHeaders_split (tol : List Str) : ∀ (fuel : Nat) (s : Str) (v : Bool) (body : Str),
    validateHeaders tol fuel s v = some body →
    ∃ hdr, s = hdr ++ body ∧
      (∀ body' fuel', (hdr ++ body').length < fuel' →
        validateHeaders tol fuel' (hdr ++ body') v = some body') ∧
      (∀ k fuel', k < hdr.length → validateHeaders tol fuel' (hdr.take k) v = none) := by
  intro fuel
  induction fuel with
  | zero => intro s v body h; simp [validateHeaders] at h
  | succ fuel ih =>
    intro s v body h
    simp only [validateHeaders] at h
    cases hrl : readLine s with
    | none => simp [hrl] at h
    | some p =>
      obtain ⟨line, rest⟩ := p
      simp only [hrl] at h
      obtain ⟨hs, hpos⟩ := readLine_spec hrl
      by_cases hb : isBlankLine line = true
      · simp only [hb, if_true] at h
        cases v <;> simp at h
        subst h
        refine ⟨line, hs, ?_, ?_⟩
        · intro body' fuel' hf
          obtain ⟨f, rfl⟩ : ∃ f, fuel' = f + 1 := ⟨fuel' - 1, by omega⟩
          simp [validateHeaders, readLine_relocate hrl body', hb]
        · intro k fuel' hk
          exact validateHeaders_none_of_readLine _ _ _ _ (readLine_take_none hrl k hk)
      · simp only [hb] at h
        -- the recursive call, with the `validated` flag after this line
        have key : ∃ v', validateHeaders tol fuel rest v' = some body ∧
            ∀ f r', validateHeaders tol (f + 1) (line ++ r') v = validateHeaders tol f r' v' := by
          cases hct : parseContentType line with
          | notCT =>
            simp only [hct] at h
            exact ⟨v, h, fun f r' => by simp [validateHeaders, readLine_relocate hrl r', hb, hct]⟩
          | bad => simp [hct] at h
          | ok m =>
            simp only [hct] at h
            by_cases hm : m.matchesAny tol = true
            · simp only [hm, if_true] at h
              exact ⟨true, h, fun f r' => by
                simp [validateHeaders, readLine_relocate hrl r', hb, hct, hm]⟩
            · simp [hm] at h
        obtain ⟨v', hv', hstep⟩ := key
        obtain ⟨hdr', hs', h2, h3⟩ := ih rest v' body hv'
        refine ⟨line ++ hdr', by rw [hs, hs', List.append_assoc], ?_, ?_⟩
        · intro body' fuel' hf
          obtain ⟨f, rfl⟩ : ∃ f, fuel' = f + 1 := ⟨fuel' - 1, by omega⟩
          rw [List.append_assoc, hstep]
          apply h2
          simp only [List.length_append] at hf ⊢
          omega
        · intro k fuel' hk
          by_cases hkl : k < line.length
          · rw [List.take_append_of_le_length (by omega)]
            exact validateHeaders_none_of_readLine _ _ _ _ (readLine_take_none hrl k hkl)
          · cases fuel' with
            | zero => simp [validateHeaders]
            | succ f =>
              rw [List.take_append, List.take_of_length_le (by omega), hstep]
              apply h3
              simp only [List.length_append] at hk
              omega

/-- The same at the level of a whole response. -/
theorem exchange_doc_split (tol : List Str) (resp body : Str) (h : exchange tol resp = .doc body) :
    ∃ pre, resp = pre ++ body ∧
      (∀ body', exchange tol (pre ++ body') = .doc body') ∧
      (∀ k, k < pre.length → exchange tol (pre.take k) = .err) := by
  obtain ⟨sl, rest, status, lines, hrl, hst, hok, hsp, hho⟩ := (exchange_doc_iff' tol resp body).1 h
  have hv := (validateHeaders_iff' tol rest body).2 ⟨lines, hsp, hho⟩
  obtain ⟨hdr, hs', h2, h3⟩ := validateHeaders_split tol _ rest false body hv
  obtain ⟨hs, hpos⟩ := readLine_spec hrl
  have h3' := okStatuses_head hok
  refine ⟨sl ++ hdr, by rw [hs, hs', List.append_assoc], ?_, ?_⟩
  · intro body'
    rw [List.append_assoc]
    have hb := h2 body' ((hdr ++ body').length + 1) (Nat.lt_succ_self _)
    unfold exchange
    simp only [readLine_relocate hrl, hst, h3', hb]
    simp [hok]
  · intro k hk
    unfold exchange
    by_cases hkl : k < sl.length
    · rw [List.take_append_of_le_length (by omega), readLine_take_none hrl k hkl]
    · rw [List.take_append, List.take_of_length_le (by omega), readLine_relocate hrl]
      simp only [List.length_append] at hk
      simp [hst, h3', hok, h3 (k - sl.length) _ (by omega)]

theorem truncated_headers_err' (tol : List Str) (resp body : Str) (h : exchange tol resp = .doc body)
    (k : Nat) (hk : k < resp.length - body.length) : exchange tol (resp.take k) = .err := by
  obtain ⟨pre, rfl, _, h3⟩ := exchange_doc_split tol resp body h
  simp only [List.length_append, Nat.add_sub_cancel] at hk
  rw [List.take_append_of_le_length (by omega)]
  exact h3 k hk

theorem truncated_body' (tol : List Str) (resp body : Str) (h : exchange tol resp = .doc body)
    (k : Nat) (hk : resp.length - body.length ≤ k) :
    exchange tol (resp.take k) = .doc (body.take (k - (resp.length - body.length))) := by
  obtain ⟨pre, rfl, h2, _⟩ := exchange_doc_split tol resp body h
  simp only [List.length_append, Nat.add_sub_cancel] at hk ⊢
  rw [List.take_append, List.take_of_length_le hk]
  exact h2 _

theorem body_suffix' (tol : List Str) (resp body : Str) (h : exchange tol resp = .doc body) :
    body <:+ resp := by
  obtain ⟨pre, rfl, _, _⟩ := exchange_doc_split tol resp body h
  exact List.suffix_append pre body

theorem truncation_never_doc' {Doc : Type} (tol : List Str) (decode : Str → Option Doc) (consumed : Str → Nat)
    (hpf : ∀ b d, decode b = some d → ∀ j, j < consumed b → decode (b.take j) = none)
    (resp body : Str) (d : Doc) (h : exchange tol resp = .doc body) (hd : decode body = some d)
    (k : Nat) (hk : k < resp.length - body.length + consumed body) :
    (match exchange tol (resp.take k) with
     | .doc b' => decode b' = none
     | .redirect _ => False
     | .err => True) := by
  by_cases hlt : k < resp.length - body.length
  · rw [truncated_headers_err' tol resp body h k hlt]; trivial
  · rw [truncated_body' tol resp body h k (by omega)]
    exact hpf body d hd _ (by omega)

theorem sum_map_le (dur : Url → Nat) (T : Nat) (hT : ∀ r, dur r ≤ T) :
    ∀ l : List Url, (l.map dur).sum ≤ l.length * T
  | [] => by simp
  | r :: l => by
    have := sum_map_le dur T hT l
    have := hT r
    simp only [List.map_cons, List.sum_cons, List.length_cons, Nat.succ_mul]
    omega

theorem fetch_time_bounded' {Doc : Type} (env : Env Doc) (tol : List Str) (b : Nat) (c : Cache Doc) (u : Url)
    (dur : Url → Nat) (T : Nat) (hT : ∀ r, dur r ≤ T) :
    (((get env tol b c u).requests.map dur).sum) ≤ (b + 1) * T :=
  Nat.le_trans (sum_map_le dur T hT _) (Nat.mul_le_mul_right T (get_requests env tol b c u).1)

theorem garbage_is_err' (tol : List Str) (resp : Str)
    (h : readLine resp = none ∨ ∃ sl rest, readLine resp = some (sl, rest) ∧ parseStatusLine sl = none) :
    exchange tol resp = .err := by
  unfold exchange
  rcases h with h | ⟨sl, rest, h1, h2⟩
  · rw [h]
  · rw [h1]; simp only [h2]

theorem dial_failure_is_err' {Doc : Type} (env : Env Doc) (tol : List Str) (b : Nat) (u : Url) (cap : Nat)
    (hs : env.serve u = none) :
    (match (get env tol b ({ cap := cap } : Cache Doc) u).res with | .err => True | .ok _ _ => False) := by
  have hg : ({ cap := cap } : Cache Doc).get (cacheKey tol u) = (none, { cap := cap }) := by
    simp [Cache.get]
  unfold get
  rw [hg]
  simp only [hs]
  by_cases hh : (!env.https u) = true <;> simp [hh]

end Jtp
