import Model
import Proofs.C13
import Proofs.C16

/-
  Helper lemmas for Props/C15.lean: the renderers end with `trim (wrap …)`, `trim` yields an
  infix, lines of an infix of a join are infixes of the joined lines, and the cache wrapper.
-/

namespace C15P
open Str Ansi Markup

/-! ### The renderers end with a whole-document wrap and a trim -/

/-- `trim (wrap text w)` is the trimmed join of lines of at most `w` newline-free matches. -/
theorem trim_wrap_shape (trimSet : Char → Bool) (text : Str) (w : Int) (hw : 1 ≤ w) :
    ∃ lines : List (List RawCell),
      (∀ l ∈ lines, (l.length : Int) ≤ w ∧ ∀ m ∈ l, m.letter ≠ '\n') ∧
      trim trimSet (Ansi.wrap text w) = trim trimSet (joinNL (lines.map collapse)) :=
  ⟨wrapLines (expand text) w,
    fun l hl => ⟨WrapP.wrap_width _ w hw l hl, WrapP.wrap_lines_no_newline _ w l hl⟩, rfl⟩

theorem htmlR_eq (c : Colors) (nodes : List Dom.Node) (w : Int) :
    htmlR c nodes w =
      trim isSpNl (Ansi.wrap (Hypertext.renderKids c nodes ⟨false, w⟩ false {} []).1 w) := by
  simp only [htmlR, Hypertext.renderWithLinks, Hypertext.renderFull]

theorem gemR_eq (c : Colors) (lines : List Str) (w : Int) :
    ∃ text, gemR c lines w = trim isNl (Ansi.wrap text w) := by
  simp only [gemR, Gemtext.renderWithLinks, Gemtext.renderFull]
  exact ⟨_, rfl⟩

theorem plainR_eq (c : Colors) (text : Str) (w : Int) :
    ∃ text', plainR c text w = trim isNl (Ansi.wrap text' w) := by
  simp only [plainR, Plaintext.renderWithLinks, Plaintext.renderFull]
  exact ⟨_, rfl⟩

/-! ### `trim` gives an infix -/

theorem trimLeft_suffix (p : Char → Bool) (s : Str) : trimLeft p s <:+ s :=
  List.dropWhile_suffix p

theorem trimRight_prefix (p : Char → Bool) (s : Str) : trimRight p s <+: s := by
  have h : (s.reverse.dropWhile p) <:+ s.reverse := List.dropWhile_suffix p
  have h2 := List.reverse_prefix.mpr h
  rw [List.reverse_reverse] at h2
  exact h2

theorem trim_infix (p : Char → Bool) (s : Str) : trim p s <:+: s :=
  List.IsInfix.trans (trimRight_prefix p _).isInfix (trimLeft_suffix p s).isInfix

/-! ### Lines of an infix of a join -/

/-- Every joined line is an infix of the join. -/
theorem mem_infix_joinNL : ∀ (ls : List Str) (l : Str), l ∈ ls → l <:+: joinNL ls
  | [], _, h => by simp at h
  | [l0], l, h => by
    simp at h; subst h; exact List.infix_rfl
  | l0 :: l1 :: ls, l, h => by
    show l <:+: l0 ++ '\n' :: joinNL (l1 :: ls)
    rcases List.mem_cons.mp h with h | h
    · subst h; exact (List.prefix_append _ _).isInfix
    · have ih := mem_infix_joinNL (l1 :: ls) l h
      exact List.IsInfix.trans ih
        (List.IsInfix.trans (List.suffix_cons _ _).isInfix (List.suffix_append _ _).isInfix)

/-- Every line of a text is an infix of the text. -/
theorem mem_splitNL_infix (t : Str) (l : Str) (h : l ∈ splitNL t) : l <:+: t := by
  have := mem_infix_joinNL (splitNL t) l h
  rwa [C16.joinNL_splitNL] at this

/-- A prefix of `a ++ c :: b` without `c` is a prefix of `a`. -/
theorem prefix_of_not_mem {α : Type} (x a b : List α) (c : α) (hc : c ∉ x)
    (h : x <+: a ++ c :: b) : x <+: a := by
  by_cases hlen : x.length ≤ a.length
  · exact List.prefix_of_prefix_length_le h (List.prefix_append _ _) hlen
  · exfalso
    have h2 : a ++ [c] <+: a ++ c :: b := by
      have : a ++ c :: b = (a ++ [c]) ++ b := by simp
      rw [this]; exact List.prefix_append _ _
    have h3 : a ++ [c] <+: x :=
      List.prefix_of_prefix_length_le h2 h (by simp; omega)
    exact hc (h3.subset (by simp))

/-- An infix of `a ++ c :: b` without `c` lies within `a` or within `b`. -/
theorem infix_split {α : Type} (x b : List α) (c : α) (hc : c ∉ x) :
    ∀ a : List α, x <:+: a ++ c :: b → x <:+: a ∨ x <:+: b
  | [], h => by
    rcases List.infix_cons_iff.mp h with h | h
    · left
      have := prefix_of_not_mem x [] b c hc h
      exact this.isInfix
    · exact Or.inr h
  | d :: a, h => by
    rcases List.infix_cons_iff.mp h with h | h
    · left
      exact (prefix_of_not_mem x (d :: a) b c hc h).isInfix
    · rcases infix_split x b c hc a h with h | h
      · exact Or.inl (List.IsInfix.trans h (List.suffix_cons _ _).isInfix)
      · exact Or.inr h

/-- A newline-free infix of a join lies within one of the joined lines (or is empty). -/
theorem infix_joinNL (x : Str) (hx : '\n' ∉ x) :
    ∀ ls : List Str, x <:+: joinNL ls → (∃ l ∈ ls, x <:+: l) ∨ x = []
  | [], h => Or.inr (List.infix_nil.mp h)
  | [l], h => Or.inl ⟨l, by simp, h⟩
  | l0 :: l1 :: ls, h => by
    have h' : x <:+: l0 ++ '\n' :: joinNL (l1 :: ls) := h
    rcases infix_split x _ '\n' hx l0 h' with h | h
    · exact Or.inl ⟨l0, by simp, h⟩
    · rcases infix_joinNL x hx (l1 :: ls) h with ⟨l, hl, hi⟩ | h
      · exact Or.inl ⟨l, List.mem_cons_of_mem _ hl, hi⟩
      · exact Or.inr h

/-- Lines of a trimmed join are infixes of the joined lines (or empty). -/
theorem trim_lines_infix (trimSet : Char → Bool) (ls : List Str) :
    ∀ l' ∈ splitNL (trim trimSet (joinNL ls)), (∃ l ∈ ls, l' <:+: l) ∨ l' = [] := by
  intro l' hl'
  have h1 := mem_splitNL_infix _ l' hl'
  have h2 := C16.splitNL_noNL _ l' hl'
  exact infix_joinNL l' h2 ls (List.IsInfix.trans h1 (trim_infix _ _))

/-- The same with the statement's binder structure, which needs a line to exist. -/
theorem trim_lines_infix_ne (trimSet : Char → Bool) (ls : List Str) (hne : ls ≠ []) :
    ∀ l' ∈ splitNL (trim trimSet (joinNL ls)), ∃ l ∈ ls, l' <:+: l ∨ l' = [] := by
  intro l' hl'
  rcases trim_lines_infix trimSet ls l' hl' with ⟨l, hl, hi⟩ | h
  · exact ⟨l, hl, Or.inl hi⟩
  · cases ls with
    | nil => exact absurd rfl hne
    | cons l ls => exact ⟨l, by simp, Or.inr h⟩

/-! ### The cache wrapper -/

variable {Tree : Type}

def Inv (R : Tree → Int → Str) (m : M Tree) : Prop := m.cached = R m.tree m.cachedWidth

theorem inv_new (R : Tree → Int → Str) (t : Tree) : Inv R (new R t) ∧ (new R t).tree = t :=
  ⟨rfl, rfl⟩

theorem inv_render (R : Tree → Int → Str) (m : M Tree) (w : Int) (h : Inv R m) :
    Inv R (render R m w).2 ∧ (render R m w).2.tree = m.tree ∧ (render R m w).1 = R m.tree w := by
  unfold render
  by_cases hw : m.cachedWidth = w
  · simp only [hw, if_true]
    refine ⟨h, trivial, ?_⟩
    rw [h, hw]
  · simp only [hw, if_false]
    exact ⟨rfl, trivial, trivial⟩

theorem renderSeq_inv (R : Tree → Int → Str) : ∀ (ws : List Int) (m : M Tree), Inv R m →
    Inv R (renderSeq R m ws).2 ∧ (renderSeq R m ws).2.tree = m.tree ∧
      (renderSeq R m ws).1 = ws.map (R m.tree)
  | [], _, h => ⟨h, rfl, rfl⟩
  | w :: ws, m, h => by
    obtain ⟨h1, h2, h3⟩ := inv_render R m w h
    obtain ⟨i1, i2, i3⟩ := renderSeq_inv R ws (render R m w).2 h1
    show Inv R (renderSeq R (render R m w).2 ws).2 ∧
      (renderSeq R (render R m w).2 ws).2.tree = m.tree ∧
      (render R m w).1 :: (renderSeq R (render R m w).2 ws).1 = (w :: ws).map (R m.tree)
    refine ⟨i1, i2.trans h2, ?_⟩
    rw [h3, i3, h2]; rfl

theorem render_history_free (R : Tree → Int → Str) (t : Tree) (ws : List Int) (w : Int) :
    (render R (renderSeq R (new R t) ws).2 w).1 = R t w := by
  obtain ⟨i1, i2, _⟩ := renderSeq_inv R ws (new R t) (inv_new R t).1
  have := (inv_render R _ w i1).2.2
  rw [this, i2]; rfl

theorem renderSeq_pure (R : Tree → Int → Str) (t : Tree) (ws : List Int) :
    (renderSeq R (new R t) ws).1 = ws.map (R t) :=
  (renderSeq_inv R ws (new R t) (inv_new R t).1).2.2

end C15P
