import Proofs.WrapWidth

/-
  `ansi.Wrap` keeps the visible characters and never removes a line break between two of them.
-/

namespace WrapP
open Str Ansi AnsiSpec

/-- The newline match used to re-join lines (same as `C13.nlCell`). -/
def nlC : RawCell := ⟨[], '\n', ['\n']⟩

/-- Lines joined by newline matches (same as `C13.relines`). -/
def relinesP : List (List RawCell) → List RawCell
  | [] => []
  | [l] => l
  | l :: ls => l ++ nlC :: relinesP ls

/-- Every line followed by a newline match. -/
def preL (R : List (List RawCell)) : List RawCell := (R.map (· ++ [nlC])).flatten

theorem preL_nil : preL [] = [] := rfl

theorem preL_cons (l : List RawCell) (R : List (List RawCell)) :
    preL (l :: R) = l ++ nlC :: preL R := by
  simp [preL]

theorem preL_snoc (R : List (List RawCell)) (l : List RawCell) :
    preL (R ++ [l]) = preL R ++ l ++ [nlC] := by
  simp [preL]

theorem relinesP_snoc (R : List (List RawCell)) (x : List RawCell) :
    relinesP (R ++ [x]) = preL R ++ x := by
  induction R with
  | nil => rfl
  | cons l R ih =>
    cases R with
    | nil => simp [relinesP, preL]
    | cons l' R' =>
      have : relinesP (l :: (l' :: R' ++ [x])) = l ++ nlC :: relinesP (l' :: R' ++ [x]) := rfl
      rw [List.cons_append, this, ih]
      simp [preL_cons]

/-- The text held in the loop state. -/
def flat (s : WrapSt) : List RawCell := preL s.result ++ s.line ++ s.space ++ s.word

theorem flat_flush (s : WrapSt) : flat (flush s) = flat s := by
  unfold flush
  split
  · simp [flat]
  · rename_i h
    rfl

/-! ### Visible characters -/

theorem visible_append (a b : List RawCell) : visible (a ++ b) = visible a ++ visible b := by
  simp [visible]

theorem visible_nil : visible [] = [] := rfl

theorem visible_spaces {sp : List RawCell} (h : ∀ m ∈ sp, Uni.isSpace m.letter = true) :
    visible sp = [] := by
  simp only [visible, List.map_eq_nil_iff, List.filter_eq_nil_iff]
  intro m hm
  simp [h m hm]

theorem visible_nlC : visible [nlC] = [] := by
  apply visible_spaces
  intro m hm
  simp at hm
  rw [hm]; exact isSpace_nl

theorem visible_nlC_cons (x : List RawCell) : visible (nlC :: x) = visible x := by
  rw [show nlC :: x = [nlC] ++ x from rfl, visible_append, visible_nlC]; rfl

theorem visible_space_cell {m : RawCell} (h : Uni.isSpace m.letter = true) : visible [m] = [] := by
  apply visible_spaces
  intro x hx
  simp at hx
  rw [hx]; exact h

theorem Inv.spaces {w : Int} {s : WrapSt} (h : Inv w s) :
    ∀ m ∈ s.space, Uni.isSpace m.letter = true := fun m hm => (h.spc m hm).1

theorem visible_step {w : Int} (hw : 1 ≤ w) {s : WrapSt} (m : RawCell) (h : Inv w s) :
    visible (flat (wrapStep w s m)) = visible (flat s) ++ visible [m] := by
  refine wrapStep_cases hw s m
    (fun s' => visible (flat s') = visible (flat s) ++ visible [m]) ?_ ?_ ?_ ?_
  · intro hm hf
    obtain ⟨h1, h2⟩ := h.full_line hw hf
    simp [flat, preL_snoc, visible_append, visible_nlC_cons, h1, h2]
  · intro hm hf hp
    simp [flat, preL_snoc, visible_append, visible_nlC_cons, visible_spaces h.spaces]
  · intro hm hf hp
    simp [flat, visible_append]
  · intro hm
    have hfl := Inv_flush h
    have hw0 := flush_word s
    rw [← flat_flush s, visible_space_cell hm]
    unfold spStep
    split
    · split <;>
        simp [flat, preL_snoc, visible_append, visible_nlC, visible_spaces hfl.spaces, hw0]
    · simp [flat, visible_append, visible_space_cell hm, hw0]

theorem visible_foldl {w : Int} (hw : 1 ≤ w) (cells : List RawCell) :
    ∀ s, Inv w s →
      visible (flat (cells.foldl (wrapStep w) s)) = visible (flat s) ++ visible cells := by
  induction cells with
  | nil => intro s h; simp [visible_nil]
  | cons m ms ih =>
    intro s h
    rw [List.foldl_cons, ih _ (Inv_step hw m h), visible_step hw m h]
    rw [show m :: ms = [m] ++ ms from rfl, visible_append, List.append_assoc]

theorem visible_preL (R : List (List RawCell)) : visible (preL R) = visible R.flatten := by
  induction R with
  | nil => rfl
  | cons l R ih =>
    rw [preL_cons, List.flatten_cons, visible_append, visible_append,
      show nlC :: preL R = [nlC] ++ preL R from rfl, visible_append, visible_nlC, ih]
    simp

theorem visible_relinesP (L : List (List RawCell)) : visible (relinesP L) = visible L.flatten := by
  induction L with
  | nil => rfl
  | cons l R ih =>
    cases R with
    | nil => simp [relinesP]
    | cons l' R' =>
      have : relinesP (l :: l' :: R') = l ++ ([nlC] ++ relinesP (l' :: R')) := rfl
      rw [this, List.flatten_cons, visible_append, visible_append, visible_append, visible_nlC, ih]
      simp

theorem visible_final {w : Int} {s : WrapSt} (h : Inv w s) (b : Bool) :
    visible (relinesP (finalLines s b)) = visible (flat s) := by
  have hlast : visible (lastLine s) = visible (s.line ++ s.space ++ s.word) := by
    unfold lastLine
    split
    · rfl
    · rename_i hp
      have : s.word = [] := by simpa using hp
      simp [visible_append, visible_spaces h.spaces, this]
  unfold finalLines
  split
  · rw [relinesP_snoc, visible_append, hlast]
    simp [flat, visible_append]
  · rename_i hp
    have h0 : lastLine s = [] := by
      simp at hp
      exact hp.1
    rw [h0] at hlast
    rw [visible_relinesP, ← visible_preL]
    have hf : flat s = preL s.result ++ (s.line ++ s.space ++ s.word) := by simp [flat]
    rw [hf, visible_append, ← hlast]
    simp [visible_nil]

theorem wrap_keeps_visible (cells : List RawCell) (w : Int) (hw : 1 ≤ w) :
    visible (relinesP (wrapLines cells w)) = visible cells := by
  rw [wrapLines_eq, visible_final (Inv_foldl hw cells _ (Inv_init w hw)),
    visible_foldl hw cells _ (Inv_init w hw)]
  simp [flat, preL, visible_nil]

end WrapP
