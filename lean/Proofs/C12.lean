import Model

namespace C12P
open Str Hypertext Dom

def ideal (links : List Str) : List (Nat × Str) := links.zipIdx.map fun (l, i) => (i + 1, l)

def Good (s : LinkSt) : Prop := s.ghost = ideal s.links

theorem good_empty : Good {} := rfl

theorem ideal_snoc (links : List Str) (l : Str) :
    ideal (links ++ [l]) = ideal links ++ [(links.length + 1, l)] := by
  simp [ideal, List.zipIdx_append]

theorem good_push {s : LinkSt} (h : Good s) (l : Str) : Good (s.push l).1 := by
  simp only [Good, LinkSt.push, ideal_snoc, List.length_append, List.length_singleton]
  rw [h]

/-- Two runs (different context) from the same good link state end in the same, good, state. -/
def Pair (x y : LinkSt) : Prop := x = y ∧ Good x

theorem pair_refl {x : LinkSt} (h : Good x) : Pair x x := ⟨rfl, h⟩

theorem pair_ite {c : Prop} [Decidable c] {a b a' b' : LinkSt}
    (ha : c → Pair a a') (hb : ¬c → Pair b b') :
    Pair (if c then a else b) (if c then a' else b') := by
  by_cases h : c
  · rw [if_pos h, if_pos h]; exact ha h
  · rw [if_neg h, if_neg h]; exact hb h

mutual
theorem node_pair (c : Colors) : (n : Node) → ∀ ctx p ctx' p' ls, Good ls →
    Pair (renderNode c n ctx p ls).2 (renderNode c n ctx' p' ls).2
  | .other => by intro ctx p ctx' p' ls h; simpa [renderNode] using pair_refl h
  | .text d => by
    intro ctx p ctx' p' ls h; simp only [renderNode, apply_ite Prod.snd, ite_self]; exact pair_refl h
  | .elem tag attrs kids => by
    intro ctx p ctx' p' ls h
    have ihK := kids_pair c kids
    have ihB := bkids_pair c kids
    cases hh : headerLevel tag <;> cases hr : hrText ctx.width <;> cases hr' : hrText ctx'.width <;>
    simp only [renderNode, renderChildren, bulleted, hh, hr, hr', apply_ite Prod.snd, ite_self]
    all_goals repeat' (apply pair_ite <;> intro _)
    all_goals first
      | exact pair_refl h
      | exact pair_refl (good_push h _)
      | exact ihK _ _ _ _ _ _ _ h
      | exact ihK _ _ _ _ _ _ _ (good_push h _)
      | exact ihB _ _ _ _ _ h
theorem kids_pair (c : Colors) : (ks : List Node) → ∀ ctx p ctx' p' ls acc acc', Good ls →
    Pair (renderKids c ks ctx p ls acc).2 (renderKids c ks ctx' p' ls acc').2
  | [] => by intro ctx p ctx' p' ls acc acc' h; simpa [renderKids] using pair_refl h
  | k :: ks => by
    intro ctx p ctx' p' ls acc acc' h
    simp only [renderKids]
    have hk := node_pair c k ctx p ctx' p' ls h
    rw [← hk.1]
    exact kids_pair c ks _ _ _ _ _ _ _ hk.2
theorem bkids_pair (c : Colors) : (ks : List Node) → ∀ ctx ctx' ls acc acc', Good ls →
    Pair (bulletedKids c ks ctx ls acc).2 (bulletedKids c ks ctx' ls acc').2
  | [] => by intro ctx ctx' ls acc acc' h; simpa [bulletedKids] using pair_refl h
  | .other :: ks => by
    intro ctx ctx' ls acc acc' h; simp only [bulletedKids]; exact bkids_pair c ks _ _ _ _ _ h
  | .text _ :: ks => by
    intro ctx ctx' ls acc acc' h; simp only [bulletedKids]; exact bkids_pair c ks _ _ _ _ _ h
  | .elem tag attrs gk :: ks => by
    intro ctx ctx' ls acc acc' h
    simp only [bulletedKids, renderChildren]
    have hk : Pair
        (if tag = "li".toList then renderNode c (.elem tag attrs gk) ctx false ls
          else (Style.red c ('<' :: tag ++ ['>']) ++ (renderKids c gk ctx false ls []).1 ++
            Style.red c ('<' :: '/' :: tag ++ ['>']), (renderKids c gk ctx false ls []).2)).2
        (if tag = "li".toList then renderNode c (.elem tag attrs gk) ctx' false ls
          else (Style.red c ('<' :: tag ++ ['>']) ++ (renderKids c gk ctx' false ls []).1 ++
            Style.red c ('<' :: '/' :: tag ++ ['>']), (renderKids c gk ctx' false ls []).2)).2 := by
      simp only [apply_ite Prod.snd]
      apply pair_ite <;> intro _
      · exact node_pair c (.elem tag attrs gk) _ _ _ _ _ h
      · exact kids_pair c gk _ _ _ _ _ _ _ h
    rw [← hk.1]
    exact bkids_pair c ks _ _ _ _ _ hk.2
end

theorem html_pair (c : Colors) (nodes : List Node) (w w' : Int) :
    Pair (Hypertext.renderFull c nodes w).2 (Hypertext.renderFull c nodes w').2 := by
  simp only [Hypertext.renderFull]
  exact kids_pair c nodes _ _ _ _ _ _ _ good_empty

/-! ### Gemtext -/

theorem gem_step (c : Colors) (w w' : Int) (s s' : Gemtext.St) (line : Str)
    (hl : s.links = s'.links) (hg : s.ghost = s'.ghost) (hp : s.pre = s'.pre)
    (h : s.ghost = ideal s.links) :
    (Gemtext.step c w s line).links = (Gemtext.step c w' s' line).links ∧
    (Gemtext.step c w s line).ghost = (Gemtext.step c w' s' line).ghost ∧
    (Gemtext.step c w s line).pre = (Gemtext.step c w' s' line).pre ∧
    (Gemtext.step c w s line).ghost = ideal (Gemtext.step c w s line).links := by
  obtain ⟨l1, g1, r1, p1, b1⟩ := s
  obtain ⟨l2, g2, r2, p2, b2⟩ := s'
  simp only at hl hg hp h
  subst hl hg hp h
  unfold Gemtext.step
  simp only
  split
  · split <;> simp [*]
  · split
    · simp [*]
    · split <;> simp [*, ideal_snoc]

theorem gem_fold (c : Colors) (w w' : Int) (lines : List Str) : ∀ (s s' : Gemtext.St),
    s.links = s'.links → s.ghost = s'.ghost → s.pre = s'.pre → s.ghost = ideal s.links →
    (lines.foldl (Gemtext.step c w) s).links = (lines.foldl (Gemtext.step c w') s').links ∧
    (lines.foldl (Gemtext.step c w) s).ghost = ideal (lines.foldl (Gemtext.step c w) s).links := by
  induction lines with
  | nil => intro s s' hl _ _ h; exact ⟨hl, h⟩
  | cons l ls ih =>
    intro s s' hl hg hp h
    obtain ⟨h1, h2, h3, h4⟩ := gem_step c w w' s s' l hl hg hp h
    exact ih _ _ h1 h2 h3 h4

theorem gem_pair (c : Colors) (lines : List Str) (w w' : Int) :
    (Gemtext.renderFull c lines w).2.links = (Gemtext.renderFull c lines w').2.links ∧
    (Gemtext.renderFull c lines w).2.ghost = ideal (Gemtext.renderFull c lines w).2.links := by
  simp only [Gemtext.renderFull]
  exact gem_fold c w w' lines {} {} rfl rfl rfl rfl

/-! ### Plaintext -/

theorem plain_replace (c : Colors) : ∀ (fuel : Nat) (s : Str) (links : List Str) (ghost : List (Nat × Str)),
    ghost = ideal links →
    (Plaintext.replaceUrls c fuel s links ghost).2.2 = ideal (Plaintext.replaceUrls c fuel s links ghost).2.1 := by
  intro fuel
  induction fuel with
  | zero => intro s links ghost h; simpa [Plaintext.replaceUrls] using h
  | succ n ih =>
    intro s links ghost h
    unfold Plaintext.replaceUrls
    split
    · exact h
    · split
      · apply ih; simp [h, ideal_snoc]
      · apply ih; exact h

theorem plain_labels (c : Colors) (text : Str) (w : Int) :
    (Plaintext.renderFull c text w).2.2 = ideal (Plaintext.renderFull c text w).2.1 := by
  simp only [Plaintext.renderFull]
  exact plain_replace c _ _ _ _ rfl

/-! ### Labels and selection -/

theorem mem_ideal (links : List Str) (k : Nat) (t : Str) (h : (k, t) ∈ ideal links) :
    1 ≤ k ∧ links[k - 1]? = some t := by
  simp only [ideal, List.mem_map, Prod.mk.injEq, Prod.exists] at h
  obtain ⟨l, i, hm, rfl, rfl⟩ := h
  rw [List.mem_zipIdx_iff_getElem?] at hm
  simpa using hm

theorem select_exact {α : Type} (body : List Str) (atts : List α) (k : Int) :
    Select.post body atts k =
      if h : 1 ≤ k ∧ k ≤ body.length then .body (body[(k - 1).toNat]'(by omega))
      else if h : body.length < k ∧ k ≤ body.length + atts.length then
        .attachment (atts[(k - 1).toNat - body.length]'(by omega))
      else .none := by
  unfold Select.post
  simp only
  by_cases h0 : k - 1 < 0
  · rw [if_pos h0, dif_neg (by omega), dif_neg (by omega)]
  · rw [if_neg h0]
    by_cases h1 : k ≤ body.length
    · rw [dif_pos (by omega), List.getElem?_eq_getElem (by omega)]
    · rw [dif_neg (by omega), List.getElem?_eq_none (by omega)]
      simp only
      by_cases h2 : k ≤ body.length + atts.length
      · rw [dif_pos (by omega), List.getElem?_eq_getElem (by omega)]
      · rw [dif_neg (by omega), List.getElem?_eq_none (by omega)]

theorem actor_select_exact (bio : List Str) (k : Int) :
    Select.actor bio k =
      if h : 1 ≤ k ∧ k ≤ bio.length then .body (bio[(k - 1).toNat]'(by omega)) else .none := by
  unfold Select.actor
  simp only
  by_cases h0 : k - 1 < 0
  · rw [if_pos h0, dif_neg (by omega)]
  · rw [if_neg h0]
    by_cases h1 : k ≤ bio.length
    · rw [dif_pos (by omega), List.getElem?_eq_getElem (by omega)]
    · rw [dif_neg (by omega), List.getElem?_eq_none (by omega)]

theorem attachment_number_selects {α : Type} (body : List Str) (atts : List α) (i : Nat) (a : α)
    (h : atts[i]? = some a) :
    Select.post body atts (Select.attachmentNumber body i) = .attachment a := by
  have hi : i < atts.length := by
    rcases Nat.lt_or_ge i atts.length with hlt | hge
    · exact hlt
    · rw [List.getElem?_eq_none hge] at h; cases h
  unfold Select.post Select.attachmentNumber
  simp only
  rw [if_neg (by omega), List.getElem?_eq_none (by omega)]
  have : ((↑(body.length + i + 1) : Int) - 1).toNat - body.length = i := by omega
  simp only [this, h]

theorem body_number_selects {α : Type} (body : List Str) (atts : List α) (i : Nat) (l : Str)
    (h : body[i]? = some l) : Select.post body atts ((i : Int) + 1) = .body l := by
  unfold Select.post
  simp only
  rw [if_neg (by omega)]
  have : ((i : Int) + 1 - 1).toNat = i := by omega
  simp only [this, h]

theorem select_out_of_range {α : Type} (body : List Str) (atts : List α) (k : Int)
    (h : k < 1 ∨ k > body.length + atts.length) : Select.post body atts k = .none := by
  rw [select_exact, dif_neg (by omega), dif_neg (by omega)]

end C12P
