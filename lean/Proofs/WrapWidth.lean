import Proofs.WrapStep

/-
  Width and newline-freeness of the lines produced by `ansi.Wrap`.
-/

namespace WrapP
open Str Ansi AnsiSpec

/-- What `Wrap` does after the loop. -/
def lastLine (s : WrapSt) : List RawCell :=
  if s.word.length > 0 then s.line ++ s.space ++ s.word else s.line

def finalLines (s : WrapSt) (nl : Bool) : List (List RawCell) :=
  if (lastLine s).length > 0 || nl then s.result ++ [lastLine s] else s.result

theorem mem_finalLines {s : WrapSt} {b : Bool} {l : List RawCell} (h : l ∈ finalLines s b) :
    l ∈ s.result ∨ l = lastLine s := by
  unfold finalLines at h
  split at h
  · simpa using h
  · exact Or.inl h

def finalIsNL (cells : List RawCell) : Bool :=
  match cells.getLast? with
  | some m => m.letter = '\n'
  | none => false

theorem wrapLines_eq (cells : List RawCell) (w : Int) :
    wrapLines cells w = finalLines (cells.foldl (wrapStep w) {}) (finalIsNL cells) := rfl

theorem finalLines_width {w : Int} {s : WrapSt} (h : Inv w s) (b : Bool) :
    ∀ l ∈ finalLines s b, (l.length : Int) ≤ w := by
  intro l hl
  have hlast : ((lastLine s).length : Int) ≤ w := by
    unfold lastLine
    split
    · rename_i hp
      have hne : s.word ≠ [] := by intro h0; rw [h0] at hp; simp at hp
      have := h.tot hne
      simp; omega
    · exact h.line
  rcases mem_finalLines hl with hl | hl
  · exact h.res l hl
  · rw [hl]; exact hlast

theorem wrap_width (cells : List RawCell) (w : Int) (hw : 1 ≤ w) :
    ∀ l ∈ wrapLines cells w, (l.length : Int) ≤ w := by
  rw [wrapLines_eq]
  exact finalLines_width (Inv_foldl hw cells _ (Inv_init w hw)) _

/-- No cell held in the state is a newline match. -/
structure NoNL (s : WrapSt) : Prop where
  res : ∀ l ∈ s.result, ∀ m ∈ l, m.letter ≠ '\n'
  line : ∀ m ∈ s.line, m.letter ≠ '\n'
  space : ∀ m ∈ s.space, m.letter ≠ '\n'
  word : ∀ m ∈ s.word, m.letter ≠ '\n'

theorem not_space_not_nl {m : RawCell} (h : Uni.isSpace m.letter = false) : m.letter ≠ '\n' := by
  intro h0; rw [h0, isSpace_nl] at h; cases h

theorem NoNL_flush {s : WrapSt} (h : NoNL s) : NoNL (flush s) := by
  unfold flush
  split
  · constructor <;> simp
    · exact h.res
    · intro m hm
      rcases hm with hm | hm | hm
      · exact h.line m hm
      · exact h.space m hm
      · exact h.word m hm
  · exact h

theorem NoNL_spStep {w : Int} {s : WrapSt} (m : RawCell) (h : NoNL s) : NoNL (spStep w s m) := by
  unfold spStep
  split
  · constructor <;> simp
    intro l hl
    rcases hl with hl | rfl
    · exact h.res l hl
    · split
      · intro x hx
        rw [List.mem_append] at hx
        rcases hx with hx | hx
        · exact h.line x hx
        · exact h.space x hx
      · exact h.line
  · rename_i hnl
    constructor <;> simp
    · exact h.res
    · exact h.line
    · intro x hx
      rcases hx with hx | rfl
      · exact h.space x hx
      · exact hnl
    · exact h.word

theorem NoNL_step (w : Int) {s : WrapSt} (m : RawCell) (h : NoNL s) : NoNL (wrapStep w s m) := by
  cases hm : Uni.isSpace m.letter with
  | true => rw [wrapStep_space w s m hm]; exact NoNL_spStep m (NoNL_flush h)
  | false =>
    have hnl := not_space_not_nl hm
    have hres := h.res
    have hline := h.line
    have hspace := h.space
    have hword := h.word
    simp only [wrapStep, hm, Bool.not_false, if_true]
    split <;> split <;> (constructor <;> simp) <;> grind

theorem NoNL_foldl (w : Int) (cells : List RawCell) :
    ∀ s, NoNL s → NoNL (cells.foldl (wrapStep w) s) := by
  induction cells with
  | nil => intro s h; exact h
  | cons m ms ih => intro s h; exact ih _ (NoNL_step w m h)

theorem finalLines_noNL {s : WrapSt} (h : NoNL s) (b : Bool) :
    ∀ l ∈ finalLines s b, ∀ m ∈ l, m.letter ≠ '\n' := by
  intro l hl
  have hlast : ∀ m ∈ lastLine s, m.letter ≠ '\n' := by
    unfold lastLine
    split
    · intro m hm
      simp only [List.mem_append] at hm
      rcases hm with (hm | hm) | hm
      · exact h.line m hm
      · exact h.space m hm
      · exact h.word m hm
    · exact h.line
  rcases mem_finalLines hl with hl | hl
  · exact h.res l hl
  · rw [hl]; exact hlast

theorem wrap_lines_no_newline (cells : List RawCell) (w : Int) :
    ∀ l ∈ wrapLines cells w, ∀ m ∈ l, m.letter ≠ '\n' := by
  rw [wrapLines_eq]
  apply finalLines_noNL
  apply NoNL_foldl
  constructor <;> simp

end WrapP
