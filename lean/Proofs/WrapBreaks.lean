import Proofs.WrapContent

/-
  `ansi.Wrap` never removes a line break between two visible characters.
-/

namespace WrapP
open Str Ansi AnsiSpec

/-- The `(started, cur)` state of `gapsAux` after a piece of text. -/
def gend : List RawCell → Bool → Nat → Bool × Nat
  | [], b, c => (b, c)
  | m :: ms, b, c =>
    if m.letter = '\n' then gend ms b (if b then c + 1 else 0)
    else if Uni.isSpace m.letter then gend ms b c
    else gend ms true 0

theorem gapsAux_append (x y : List RawCell) : ∀ (b : Bool) (c : Nat),
    gapsAux (x ++ y) b c = gapsAux x b c ++ gapsAux y (gend x b c).1 (gend x b c).2 := by
  induction x with
  | nil => intro b c; rfl
  | cons m ms ih =>
    intro b c
    simp only [List.cons_append, gapsAux, gend]
    split
    · exact ih _ _
    · split
      · exact ih _ _
      · split
        · rw [ih]; rfl
        · exact ih _ _

theorem gend_append (x y : List RawCell) : ∀ (b : Bool) (c : Nat),
    gend (x ++ y) b c = gend y (gend x b c).1 (gend x b c).2 := by
  induction x with
  | nil => intro b c; rfl
  | cons m ms ih =>
    intro b c
    simp only [List.cons_append, gend]
    split
    · exact ih _ _
    · split
      · exact ih _ _
      · exact ih _ _

theorem gapsAux_spaces {y : List RawCell} (h : ∀ m ∈ y, Uni.isSpace m.letter = true) :
    ∀ (b : Bool) (c : Nat), gapsAux y b c = [] := by
  induction y with
  | nil => intro b c; rfl
  | cons m ms ih =>
    intro b c
    have hm := h m (by simp)
    have ih' := ih (fun x hx => h x (by simp [hx]))
    simp only [gapsAux, hm, if_true]
    split <;> exact ih' _ _

theorem gapsAux_trailing {x y : List RawCell} (h : ∀ m ∈ y, Uni.isSpace m.letter = true)
    (b : Bool) (c : Nat) : gapsAux (x ++ y) b c = gapsAux x b c := by
  rw [gapsAux_append, gapsAux_spaces h]; simp

/-! ### `leAll` -/

theorem leAll_refl : ∀ a : List Nat, leAll a a = true := by
  intro a
  induction a with
  | nil => rfl
  | cons x xs ih => simp [leAll, ih]

theorem leAll_trans : ∀ a b c : List Nat, leAll a b = true → leAll b c = true → leAll a c = true := by
  intro a
  induction a with
  | nil =>
    intro b c h1 h2
    cases b with
    | nil => exact h2
    | cons y ys => simp [leAll] at h1
  | cons x xs ih =>
    intro b c h1 h2
    cases b with
    | nil => simp [leAll] at h1
    | cons y ys =>
      cases c with
      | nil => simp [leAll] at h2
      | cons z zs =>
        simp only [leAll, Bool.and_eq_true, decide_eq_true_eq] at h1 h2 ⊢
        exact ⟨Nat.le_trans h1.1 h2.1, ih _ _ h1.2 h2.2⟩

theorem leAll_append : ∀ a b a' b' : List Nat, leAll a b = true → leAll a' b' = true →
    leAll (a ++ a') (b ++ b') = true := by
  intro a
  induction a with
  | nil =>
    intro b a' b' h1 h2
    cases b with
    | nil => exact h2
    | cons y ys => simp [leAll] at h1
  | cons x xs ih =>
    intro b a' b' h1 h2
    cases b with
    | nil => simp [leAll] at h1
    | cons y ys =>
      simp only [leAll, Bool.and_eq_true, decide_eq_true_eq, List.cons_append] at h1 ⊢
      exact ⟨h1.1, ih _ _ _ h1.2 h2⟩

/-! ### Domination: `y` has at least the breaks of `x`, from every pair of compatible states -/

def Dom (x y : List RawCell) : Prop :=
  ∀ (b : Bool) (c c' : Nat), (b = true → c ≤ c') →
    leAll (gapsAux x b c) (gapsAux y b c') = true ∧
    (gend x b c).1 = (gend y b c').1 ∧
    ((gend x b c).1 = true → (gend x b c).2 ≤ (gend y b c').2)

theorem Dom_nil : Dom [] [] := by
  intro b c c' h
  exact ⟨rfl, rfl, h⟩

theorem Dom_append {x y x' y' : List RawCell} (h1 : Dom x y) (h2 : Dom x' y') :
    Dom (x ++ x') (y ++ y') := by
  intro b c c' h
  obtain ⟨a1, a2, a3⟩ := h1 b c c' h
  rw [gapsAux_append, gapsAux_append, gend_append, gend_append]
  rw [← a2]
  obtain ⟨b1, b2, b3⟩ := h2 (gend x b c).1 (gend x b c).2 (gend y b c').2 a3
  exact ⟨leAll_append _ _ _ _ a1 b1, b2, b3⟩

theorem Dom_trans {x y z : List RawCell} (h1 : Dom x y) (h2 : Dom y z) : Dom x z := by
  intro b c c' h
  obtain ⟨a1, a2, a3⟩ := h1 b c c (fun _ => Nat.le_refl _)
  obtain ⟨b1, b2, b3⟩ := h2 b c c' h
  refine ⟨leAll_trans _ _ _ a1 b1, a2.trans b2, ?_⟩
  intro h0
  exact Nat.le_trans (a3 h0) (b3 (a2 ▸ h0))

theorem Dom_single (m : RawCell) : Dom [m] [m] := by
  intro b c c' h
  simp only [gapsAux, gend]
  split
  · cases b <;> simp [leAll] at h ⊢
    omega
  · split
    · exact ⟨rfl, rfl, h⟩
    · cases b <;> simp [leAll] at h ⊢
      exact h

theorem Dom_refl (x : List RawCell) : Dom x x := by
  induction x with
  | nil => exact Dom_nil
  | cons m ms ih => exact Dom_append (Dom_single m) ih

theorem Dom_nil_nl : Dom [] [nlC] := by
  intro b c c' h
  simp only [gapsAux, gend, nlC, if_true]
  cases b <;> simp [leAll] at h ⊢
  omega

theorem Dom_nl {m : RawCell} (hm : m.letter = '\n') : Dom [m] [nlC] := by
  intro b c c' h
  simp only [gapsAux, gend, nlC, hm, if_true]
  cases b <;> simp [leAll] at h ⊢
  omega

theorem Dom_space_nil {m : RawCell} (hm : Uni.isSpace m.letter = true) (hn : m.letter ≠ '\n') :
    Dom [m] [] := by
  intro b c c' h
  simp only [gapsAux, gend, hm, hn, if_true, if_false]
  exact ⟨rfl, trivial, h⟩

theorem Dom_spaces_nil {sp : List RawCell}
    (h : ∀ m ∈ sp, Uni.isSpace m.letter = true ∧ m.letter ≠ '\n') : Dom sp [] := by
  induction sp with
  | nil => exact Dom_nil
  | cons m ms ih =>
    have h1 := h m (by simp)
    exact Dom_append (Dom_space_nil h1.1 h1.2) (ih (fun x hx => h x (by simp [hx])))

theorem Dom_spaces_nl {sp : List RawCell}
    (h : ∀ m ∈ sp, Uni.isSpace m.letter = true ∧ m.letter ≠ '\n') : Dom sp [nlC] := by
  have := Dom_append (Dom_spaces_nil h) Dom_nil_nl
  simpa using this

/-- One loop iteration, seen from the text held in the state. -/
theorem Dom_step {w : Int} (hw : 1 ≤ w) {s : WrapSt} (m : RawCell) (h : Inv w s) :
    Dom (flat s ++ [m]) (flat (wrapStep w s m)) := by
  refine wrapStep_cases hw s m (fun s' => Dom (flat s ++ [m]) (flat s')) ?_ ?_ ?_ ?_
  · intro hm hf
    obtain ⟨h1, h2⟩ := h.full_line hw hf
    have e1 : flat s ++ [m] = (preL s.result ++ s.word) ++ ([] ++ [m]) := by
      simp [flat, h1, h2]
    have e2 : flat { result := s.result ++ [s.word], line := [], space := [], word := [m] }
        = (preL s.result ++ s.word) ++ ([nlC] ++ [m]) := by
      simp [flat, preL_snoc]
    rw [e1, e2]
    exact Dom_append (Dom_refl _) (Dom_append Dom_nil_nl (Dom_refl _))
  · intro hm hf hp
    have e1 : flat s ++ [m] = (preL s.result ++ s.line) ++ (s.space ++ (s.word ++ [m])) := by
      simp [flat]
    have e2 : flat { result := s.result ++ [s.line], line := [], space := [], word := s.word ++ [m] }
        = (preL s.result ++ s.line) ++ ([nlC] ++ (s.word ++ [m])) := by
      simp [flat, preL_snoc]
    rw [e1, e2]
    exact Dom_append (Dom_refl _) (Dom_append (Dom_spaces_nl h.spc) (Dom_refl _))
  · intro hm hf hp
    have e2 : flat { s with word := s.word ++ [m] } = flat s ++ [m] := by
      simp [flat]
    rw [e2]
    exact Dom_refl _
  · intro hm
    have hfl := Inv_flush h
    have hw0 := flush_word s
    rw [← flat_flush s]
    generalize flush s = t at hfl hw0
    unfold spStep
    split
    · rename_i hnl
      have e1 : flat t ++ [m] = (preL t.result ++ t.line) ++ (t.space ++ [m]) := by
        simp [flat, hw0]
      split
      · have e2 : flat { result := t.result ++ [t.line ++ t.space], line := [], space := [], word := [] }
            = (preL t.result ++ t.line) ++ (t.space ++ [nlC]) := by
          simp [flat, preL_snoc]
        rw [e1, e2]
        exact Dom_append (Dom_refl _) (Dom_append (Dom_refl _) (Dom_nl hnl))
      · have e2 : flat { result := t.result ++ [t.line], line := [], space := [], word := [] }
            = (preL t.result ++ t.line) ++ ([] ++ [nlC]) := by
          simp [flat, preL_snoc]
        rw [e1, e2]
        exact Dom_append (Dom_refl _) (Dom_append (Dom_spaces_nil hfl.spc) (Dom_nl hnl))
    · have e2 : flat { t with space := t.space ++ [m] } = flat t ++ [m] := by
        simp [flat, hw0]
      rw [e2]
      exact Dom_refl _

theorem Dom_foldl {w : Int} (hw : 1 ≤ w) (cells : List RawCell) :
    ∀ (pre : List RawCell) (s : WrapSt), Inv w s → Dom pre (flat s) →
      Dom (pre ++ cells) (flat (cells.foldl (wrapStep w) s)) := by
  induction cells with
  | nil => intro pre s _ h; simpa using h
  | cons m ms ih =>
    intro pre s hi h
    have h1 : Dom (pre ++ [m]) (flat (wrapStep w s m)) :=
      Dom_trans (Dom_append h (Dom_refl [m])) (Dom_step hw m hi)
    have := ih (pre ++ [m]) _ (Inv_step hw m hi) h1
    simpa using this

theorem nlC_space : ∀ m ∈ [nlC], Uni.isSpace m.letter = true := by
  intro m hm
  simp at hm
  rw [hm]; exact isSpace_nl

theorem gaps_preL_relinesP (R : List (List RawCell)) :
    gapsAux (preL R) false 0 = gapsAux (relinesP R) false 0 := by
  rcases List.eq_nil_or_concat R with rfl | ⟨R', x, rfl⟩
  · rfl
  · rw [List.concat_eq_append, relinesP_snoc, preL_snoc, gapsAux_trailing nlC_space]

theorem gaps_final {w : Int} {s : WrapSt} (h : Inv w s) (b : Bool) :
    leAll (gapsAux (flat s) false 0) (gapsAux (relinesP (finalLines s b)) false 0) = true := by
  unfold finalLines
  split
  · rw [relinesP_snoc]
    unfold lastLine
    split
    · have : flat s = preL s.result ++ (s.line ++ s.space ++ s.word) := by simp [flat]
      rw [this]
      exact leAll_refl _
    · rename_i hp
      have h0 : s.word = [] := by simpa using hp
      have e : flat s = (preL s.result ++ s.line) ++ s.space := by simp [flat, h0]
      rw [e, gapsAux_trailing h.spaces]
      exact leAll_refl _
  · rename_i hp
    have h0 : lastLine s = [] := by
      simp at hp
      exact hp.1
    have hw0 : s.word = [] := by
      unfold lastLine at h0
      split at h0
      · simp at h0; exact h0.2.2
      · rename_i hp'; simpa using hp'
    have hl0 : s.line = [] := by
      unfold lastLine at h0
      split at h0
      · simp at h0; exact h0.1
      · exact h0
    have e : flat s = preL s.result ++ s.space := by simp [flat, hw0, hl0]
    rw [e, gapsAux_trailing h.spaces, gaps_preL_relinesP]
    exact leAll_refl _

theorem wrap_keeps_breaks (cells : List RawCell) (w : Int) (hw : 1 ≤ w) :
    leAll (gaps cells) (gaps (relinesP (wrapLines cells w))) = true := by
  have hi := Inv_foldl hw cells _ (Inv_init w hw)
  have hd := Dom_foldl hw cells [] {} (Inv_init w hw) (by simpa [flat, preL] using Dom_nil)
  have h1 := (hd false 0 0 (by simp)).1
  rw [wrapLines_eq]
  simp only [List.nil_append] at h1
  exact leAll_trans _ _ _ h1 (gaps_final hi _)

end WrapP
