import Proofs.WrapWidth

/-
  `ansi.Wrap` breaks a word only if it is longer than a line.
-/

namespace WrapP
open Str Ansi AnsiSpec

/-! ### `words` as a left fold -/

theorem words_cons_space {c : RawCell} (cs : List RawCell) (h : Uni.isSpace c.letter = true) :
    words (c :: cs) = words cs := by
  simp [words, h]

theorem words_single {c : RawCell} (h : Uni.isSpace c.letter = false) : words [c] = [[c]] := by
  simp [words, h]

theorem words_cons_end {c d : RawCell} (ds : List RawCell) (h : Uni.isSpace c.letter = false)
    (hd : Uni.isSpace d.letter = true) : words (c :: d :: ds) = [c] :: words ds := by
  rw [words, if_neg (by simp [h]), words_cons_space ds hd]
  cases words ds <;> simp [hd]

theorem words_cons_cont {c d : RawCell} (ds : List RawCell) (h : Uni.isSpace c.letter = false)
    (hd : Uni.isSpace d.letter = false) (w : List RawCell) (ws : List (List RawCell))
    (hw : words (d :: ds) = w :: ws) : words (c :: d :: ds) = (c :: w) :: ws := by
  rw [words, if_neg (by simp [h]), hw]
  simp [hd]

/-- Words of a run of non-whitespace followed by a whitespace match. -/
theorem words_run_space (cur : List RawCell) (m : RawCell) (ms : List RawCell)
    (hcur : ∀ x ∈ cur, Uni.isSpace x.letter = false) (hm : Uni.isSpace m.letter = true) :
    words (cur ++ m :: ms) = if cur = [] then words ms else cur :: words ms := by
  induction cur with
  | nil => simp [words_cons_space ms hm]
  | cons c cur ih =>
    have hc := hcur c (by simp)
    have ih' := ih (fun x hx => hcur x (by simp [hx]))
    cases cur with
    | nil => simp [words_cons_end ms hc hm]
    | cons d ds =>
      have hd := hcur d (by simp)
      simp only [reduceCtorEq, if_false] at ih'
      have := words_cons_cont (ds ++ m :: ms) hc hd _ _ ih'
      simpa using this

theorem words_run (cur : List RawCell) (hcur : ∀ x ∈ cur, Uni.isSpace x.letter = false) :
    words cur = if cur = [] then [] else [cur] := by
  induction cur with
  | nil => rfl
  | cons c cur ih =>
    have hc := hcur c (by simp)
    have ih' := ih (fun x hx => hcur x (by simp [hx]))
    cases cur with
    | nil => simp [words_single hc]
    | cons d ds =>
      have hd := hcur d (by simp)
      simp only [reduceCtorEq, if_false] at ih'
      have := words_cons_cont ds hc hd _ _ ih'
      simpa using this

/-- Left-to-right word splitter: (finished words, current run). -/
def wstep (st : List (List RawCell) × List RawCell) (m : RawCell) :
    List (List RawCell) × List RawCell :=
  if Uni.isSpace m.letter then (if st.2 = [] then st else (st.1 ++ [st.2], []))
  else (st.1, st.2 ++ [m])

def wfin (st : List (List RawCell) × List RawCell) : List (List RawCell) :=
  if st.2 = [] then st.1 else st.1 ++ [st.2]

theorem words_fold_gen (cells : List RawCell) :
    ∀ (d : List (List RawCell)) (cur : List RawCell),
      (∀ x ∈ cur, Uni.isSpace x.letter = false) →
      d ++ words (cur ++ cells) = wfin (cells.foldl wstep (d, cur)) := by
  induction cells with
  | nil =>
    intro d cur hcur
    rw [List.append_nil, List.foldl_nil, words_run cur hcur]
    by_cases h0 : cur = [] <;> simp [wfin, h0]
  | cons m ms ih =>
    intro d cur hcur
    cases hm : Uni.isSpace m.letter with
    | true =>
      rw [words_run_space cur m ms hcur hm, List.foldl_cons]
      simp only [wstep, hm, if_true]
      split
      · rename_i h0
        have := ih d [] (by simp)
        simp only [List.nil_append] at this
        rw [this, h0]
      · have := ih (d ++ [cur]) [] (by simp)
        simp only [List.nil_append] at this
        rw [← this]
        simp
    | false =>
      rw [List.foldl_cons]
      simp only [wstep, hm]
      have := ih d (cur ++ [m]) (by
        intro x hx
        rw [List.mem_append] at hx
        rcases hx with hx | hx
        · exact hcur x hx
        · simp at hx; rw [hx]; exact hm)
      simp only [List.append_assoc, List.cons_append, List.nil_append] at this
      rw [this]
      rfl

theorem words_fold (cells : List RawCell) : words cells = wfin (cells.foldl wstep ([], [])) := by
  have := words_fold_gen cells [] [] (by simp)
  simpa using this

/-! ### Lines are only ever extended -/

/-- `wd` lies within a finished line or the current line. -/
def Held (s : WrapSt) (wd : List RawCell) : Prop := ∃ l ∈ s.result ++ [s.line], wd <:+: l

/-- Every finished or current line of `s` is contained in one of `s'`. -/
def Covers (s s' : WrapSt) : Prop :=
  ∀ l ∈ s.result ++ [s.line], ∃ l' ∈ s'.result ++ [s'.line], l <:+: l'

theorem Held_mono {s s' : WrapSt} {wd : List RawCell} (hc : Covers s s') (h : Held s wd) :
    Held s' wd := by
  obtain ⟨l, hl, hwl⟩ := h
  obtain ⟨l', hl', hll'⟩ := hc l hl
  exact ⟨l', hl', hwl.trans hll'⟩

theorem Covers_trans {a b c : WrapSt} (h1 : Covers a b) (h2 : Covers b c) : Covers a c := by
  intro l hl
  obtain ⟨l', hl', h'⟩ := h1 l hl
  obtain ⟨l'', hl'', h''⟩ := h2 l' hl'
  exact ⟨l'', hl'', h'.trans h''⟩

theorem Covers_of {s s' : WrapSt} (hres : ∀ l ∈ s.result, l ∈ s'.result ++ [s'.line])
    (hline : ∃ l' ∈ s'.result ++ [s'.line], s.line <+: l') : Covers s s' := by
  intro l hl
  rw [List.mem_append] at hl
  rcases hl with hl | hl
  · exact ⟨l, hres l hl, List.infix_refl l⟩
  · simp at hl
    obtain ⟨l', hl', h'⟩ := hline
    exact ⟨l', hl', hl ▸ h'.isInfix⟩

theorem Covers_flush (s : WrapSt) : Covers s (flush s) := by
  unfold flush
  split
  · apply Covers_of
    · intro l hl; simp [hl]
    · refine ⟨s.line ++ s.space ++ s.word, by simp, ?_⟩
      rw [List.append_assoc]
      exact List.prefix_append _ _
  · exact fun l hl => ⟨l, hl, List.infix_refl l⟩

theorem Covers_spStep (w : Int) (t : WrapSt) (m : RawCell) : Covers t (spStep w t m) := by
  unfold spStep
  split
  · apply Covers_of
    · intro l hl; simp [hl]
    · split
      · exact ⟨t.line ++ t.space, by simp, List.prefix_append _ _⟩
      · exact ⟨t.line, by simp, List.prefix_refl _⟩
  · exact fun l hl => ⟨l, hl, List.infix_refl l⟩

theorem Covers_step {w : Int} (hw : 1 ≤ w) {s : WrapSt} (m : RawCell) (h : Inv w s) :
    Covers s (wrapStep w s m) := by
  refine wrapStep_cases hw s m (fun s' => Covers s s') ?_ ?_ ?_ ?_
  · intro hm hf
    obtain ⟨h1, _⟩ := h.full_line hw hf
    apply Covers_of
    · intro l hl; simp [hl]
    · exact ⟨[], by simp, by simp [h1]⟩
  · intro hm hf hp
    apply Covers_of
    · intro l hl; simp [hl]
    · exact ⟨s.line, by simp, List.prefix_refl _⟩
  · intro hm hf hp
    exact fun l hl => ⟨l, hl, List.infix_refl l⟩
  · intro hm
    exact Covers_trans (Covers_flush s) (Covers_spStep w _ m)

/-! ### The combined invariant -/

structure WInv (w : Int) (ws : List (List RawCell) × List RawCell) (s : WrapSt) : Prop where
  inv : Inv w s
  ne : ∀ wd ∈ ws.1, wd ≠ []
  held : ∀ wd ∈ ws.1, (wd.length : Int) ≤ w → Held s wd
  cur : ws.2 = s.word ∨ w < (ws.2.length : Int)

theorem spStep_word {w : Int} {t : WrapSt} (m : RawCell) (h : t.word = []) :
    (spStep w t m).word = [] := by
  unfold spStep
  split
  · rfl
  · exact h

theorem WInv_step {w : Int} (hw : 1 ≤ w) {ws : List (List RawCell) × List RawCell} {s : WrapSt}
    (m : RawCell) (h : WInv w ws s) : WInv w (wstep ws m) (wrapStep w s m) := by
  have hinv := Inv_step hw m h.inv
  have hcov := Covers_step hw m h.inv
  cases hm : Uni.isSpace m.letter with
  | false =>
    have e : wstep ws m = (ws.1, ws.2 ++ [m]) := by simp [wstep, hm]
    rw [e]
    refine ⟨hinv, h.ne, fun wd hwd hl => Held_mono hcov (h.held wd hwd hl), ?_⟩
    have hcur := h.cur
    refine wrapStep_cases hw s m
      (fun s' => (ws.1, ws.2 ++ [m]).2 = s'.word ∨ w < (((ws.1, ws.2 ++ [m]).2).length : Int))
      ?_ ?_ ?_ ?_
    · intro _ hf
      right
      rcases hcur with hc | hc
      · rw [hc]; simp; omega
      · simp; omega
    · intro _ _ _
      rcases hcur with hc | hc
      · left; simp [hc]
      · right; simp; omega
    · intro _ _ _
      rcases hcur with hc | hc
      · left; simp [hc]
      · right; simp; omega
    · intro hm'; rw [hm] at hm'; cases hm'
  | true =>
    have hstep := wrapStep_space w s m hm
    have hword : (wrapStep w s m).word = [] := by
      rw [hstep]; exact spStep_word m (flush_word s)
    by_cases h0 : ws.2 = []
    · have e : wstep ws m = ws := by simp [wstep, hm, h0]
      rw [e]
      exact ⟨hinv, h.ne, fun wd hwd hl => Held_mono hcov (h.held wd hwd hl),
        Or.inl (by rw [h0, hword])⟩
    · have e : wstep ws m = (ws.1 ++ [ws.2], []) := by simp [wstep, hm, h0]
      rw [e]
      refine ⟨hinv, ?_, ?_, Or.inl hword.symm⟩
      · intro wd hwd
        simp only [List.mem_append, List.mem_singleton] at hwd
        rcases hwd with hwd | rfl
        · exact h.ne wd hwd
        · exact h0
      · intro wd hwd hl
        simp only [List.mem_append, List.mem_singleton] at hwd
        rcases hwd with hwd | rfl
        · exact Held_mono hcov (h.held wd hwd hl)
        · have hc : ws.2 = s.word := by
            rcases h.cur with hc | hc
            · exact hc
            · omega
          have hpos : s.word.length > 0 := by
            rw [← hc]; exact List.length_pos_iff.mpr h0
          have hfl : Held (flush s) ws.2 := by
            refine ⟨s.line ++ s.space ++ s.word, ?_, ?_⟩
            · simp [flush, hpos]
            · rw [hc]; exact (List.suffix_append _ _).isInfix
          rw [hstep]
          exact Held_mono (Covers_spStep w _ m) hfl

theorem WInv_foldl {w : Int} (hw : 1 ≤ w) (cells : List RawCell) :
    ∀ ws s, WInv w ws s → WInv w (cells.foldl wstep ws) (cells.foldl (wrapStep w) s) := by
  induction cells with
  | nil => intro ws s h; exact h
  | cons m ms ih => intro ws s h; exact ih _ _ (WInv_step hw m h)

theorem WInv_init (w : Int) (hw : 1 ≤ w) : WInv w ([], []) {} :=
  ⟨Inv_init w hw, by simp, by simp, Or.inl rfl⟩

theorem line_prefix_lastLine (s : WrapSt) : s.line <+: lastLine s := by
  unfold lastLine
  split
  · rw [List.append_assoc]; exact List.prefix_append _ _
  · exact List.prefix_refl _

theorem mem_finalLines_last {s : WrapSt} {b : Bool} (h : lastLine s ≠ []) :
    lastLine s ∈ finalLines s b := by
  unfold finalLines
  have : (lastLine s).length > 0 := List.length_pos_iff.mpr h
  simp [this]

theorem mem_finalLines_res {s : WrapSt} {b : Bool} {l : List RawCell} (h : l ∈ s.result) :
    l ∈ finalLines s b := by
  unfold finalLines
  split
  · simp [h]
  · exact h

theorem WInv_final {w : Int} {ws : List (List RawCell) × List RawCell} {s : WrapSt}
    (h : WInv w ws s) (b : Bool) :
    ∀ wd ∈ wfin ws, (wd.length : Int) ≤ w → ∃ l ∈ finalLines s b, wd <:+: l := by
  intro wd hwd hl
  have hdone : wd ∈ ws.1 → ∃ l ∈ finalLines s b, wd <:+: l := by
    intro hwd
    obtain ⟨l, hl', hin⟩ := h.held wd hwd hl
    rw [List.mem_append] at hl'
    rcases hl' with hl' | hl'
    · exact ⟨l, mem_finalLines_res hl', hin⟩
    · simp at hl'
      subst hl'
      have hin' : wd <:+: lastLine s := hin.trans (line_prefix_lastLine s).isInfix
      have hne : lastLine s ≠ [] := by
        intro h0
        rw [h0] at hin'
        exact h.ne wd hwd (List.infix_nil.mp hin')
      exact ⟨_, mem_finalLines_last hne, hin'⟩
  unfold wfin at hwd
  split at hwd
  · exact hdone hwd
  · rename_i h0
    rw [List.mem_append] at hwd
    rcases hwd with hwd | hwd
    · exact hdone hwd
    · simp at hwd
      subst hwd
      have hc : ws.2 = s.word := by
        rcases h.cur with hc | hc
        · exact hc
        · omega
      have hpos : s.word.length > 0 := by
        rw [← hc]; exact List.length_pos_iff.mpr h0
      have e : lastLine s = s.line ++ s.space ++ s.word := by simp [lastLine, hpos]
      have hne : lastLine s ≠ [] := by
        rw [e]; intro h1
        simp at h1
        rw [h1.2.2] at hpos; simp at hpos
      refine ⟨_, mem_finalLines_last hne, ?_⟩
      rw [e, hc]
      exact (List.suffix_append _ _).isInfix

theorem wrap_word_intact (cells : List RawCell) (w : Int) (hw : 1 ≤ w) :
    ∀ wd ∈ words cells, (wd.length : Int) ≤ w → ∃ l ∈ wrapLines cells w, wd <:+: l := by
  rw [words_fold, wrapLines_eq]
  exact WInv_final (WInv_foldl hw cells _ _ (WInv_init w hw)) _

end WrapP
