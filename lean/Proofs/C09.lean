import Model

/-
  Helper lemmas for C09 (listing filters, author check, positions, ancestor chain).
-/

namespace C09aux
open Pub

theorem outbox_iff (w : World) (owner : Option U) (e : E) (act : ActivityM) :
    outboxItem w owner e = .activity act ↔
      (newActivity w e.1 e.2 = .ok act ∧
        ∃ oid aid, owner = some oid ∧ act.actorId = some aid ∧ aid.str = oid.str) := by
  constructor
  · intro h
    unfold outboxItem at h
    split at h
    · cases h
    · rename_i act' ha
      split at h
      · cases h
      · rename_i oid
        split at h
        · cases h
        · rename_i aid haid
          split at h
          · rename_i hs
            cases h
            exact ⟨ha, oid, aid, rfl, haid, hs⟩
          · cases h
  · rintro ⟨h, oid, aid, rfl, ha, hs⟩
    simp [outboxItem, h, ha, hs]

theorem outbox_kinds (w : World) (owner : Option U) (e : E) :
    outboxItem w owner e = .failure ∨ ∃ act, outboxItem w owner e = .activity act := by
  unfold outboxItem
  split
  · exact .inl rfl
  · split
    · exact .inl rfl
    · split
      · exact .inl rfl
      · split
        · exact .inr ⟨_, rfl⟩
        · exact .inl rfl

theorem outbox_genuine (w : World) (owner : Option U) (e : E) :
    (∀ act, outboxItem w owner e = .activity act →
        newActivity w e.1 e.2 = .ok act ∧
        ∃ oid aid, owner = some oid ∧ act.actorId = some aid ∧ aid.str = oid.str) ∧
    ((¬ ∃ act, newActivity w e.1 e.2 = .ok act ∧
        ∃ oid aid, owner = some oid ∧ act.actorId = some aid ∧ aid.str = oid.str) →
      outboxItem w owner e = .failure) ∧
    (∀ act oid aid, newActivity w e.1 e.2 = .ok act → owner = some oid → act.actorId = some aid →
        aid.str = oid.str → outboxItem w owner e = .activity act) := by
  refine ⟨fun act h => (outbox_iff w owner e act).1 h, ?_, ?_⟩
  · intro hn
    rcases outbox_kinds w owner e with h | ⟨act, h⟩
    · exact h
    · exact absurd ⟨act, (outbox_iff w owner e act).1 h⟩ hn
  · intro act oid aid h1 h2 h3 h4
    exact (outbox_iff w owner e act).2 ⟨h1, oid, aid, h2, h3, h4⟩

theorem reply_iff (w : World) (parent : Option U) (e : E) (c : PostM) :
    replyItem w parent e = .post c ↔
      (newPost w e.1 e.2 = .ok c ∧
        ∃ pid cid, parent = some pid ∧ c.parentId = some cid ∧ cid.str = pid.str) := by
  constructor
  · intro h
    unfold replyItem at h
    split at h
    · cases h
    · rename_i c' hc
      split at h
      · cases h
      · rename_i pid
        split at h
        · cases h
        · rename_i cid hcid
          split at h
          · rename_i hs
            cases h
            exact ⟨hc, pid, cid, rfl, hcid, hs⟩
          · cases h
  · rintro ⟨h, pid, cid, rfl, ha, hs⟩
    simp [replyItem, h, ha, hs]

theorem reply_kinds (w : World) (parent : Option U) (e : E) :
    replyItem w parent e = .failure ∨ ∃ c, replyItem w parent e = .post c := by
  unfold replyItem
  split
  · exact .inl rfl
  · split
    · exact .inl rfl
    · split
      · exact .inl rfl
      · split
        · exact .inr ⟨_, rfl⟩
        · exact .inl rfl

theorem reply_genuine (w : World) (parent : Option U) (e : E) :
    (∀ c, replyItem w parent e = .post c →
        newPost w e.1 e.2 = .ok c ∧ ∃ pid cid, parent = some pid ∧ c.parentId = some cid ∧ cid.str = pid.str) ∧
    ((¬ ∃ c, newPost w e.1 e.2 = .ok c ∧ ∃ pid cid, parent = some pid ∧ c.parentId = some cid ∧ cid.str = pid.str) →
      replyItem w parent e = .failure) ∧
    (∀ c pid cid, newPost w e.1 e.2 = .ok c → parent = some pid → c.parentId = some cid →
        cid.str = pid.str → replyItem w parent e = .post c) := by
  refine ⟨fun c h => (reply_iff w parent e c).1 h, ?_, ?_⟩
  · intro hn
    rcases reply_kinds w parent e with h | ⟨c, h⟩
    · exact h
    · exact absurd ⟨c, (reply_iff w parent e c).1 h⟩ hn
  · intro c pid cid h1 h2 h3 h4
    exact (reply_iff w parent e c).2 ⟨h1, pid, cid, h2, h3, h4⟩

theorem creatorOk_actor {id : Option U} {a : ActorM} (h : creatorOk id (.actor a) = true) :
    (a.id = none ∧ id = none) ∨ (∃ ai pi, a.id = some ai ∧ id = some pi ∧ ai.host = pi.host) := by
  cases h1 : a.id with
  | none =>
    cases id with
    | none => exact .inl ⟨rfl, rfl⟩
    | some pi => simp [creatorOk, h1] at h
  | some ai =>
    cases id with
    | none => simp [creatorOk, h1] at h
    | some pi =>
      simp [creatorOk, h1] at h
      exact .inr ⟨ai, pi, rfl, rfl, h⟩

theorem post_authors_same_host (w : World) (o : O) (id : Option U) (p : PostM)
    (h : newPostFromObject w o id = .ok p) :
    p.id = id ∧ ∀ a, AorF.actor a ∈ p.creators →
      (a.id = none ∧ id = none) ∨ (∃ ai pi, a.id = some ai ∧ id = some pi ∧ ai.host = pi.host) := by
  unfold newPostFromObject at h
  split at h
  · cases h
  · cases h
  · split at h
    · cases h
    · split at h
      · cases h
      · simp only at h
        split at h
        · rename_i hall
          cases h
          refine ⟨rfl, ?_⟩
          intro a ha
          exact creatorOk_actor (List.all_eq_true.1 hall _ ha)
        · cases h

theorem actor_listing_positions (w : World) (a : ActorM) (amount start : Nat) (c : CollM)
    (hc : a.posts = .ok c) :
    ∃ items cont, actorChildren w a amount start = some (items, cont) ∧
      items = (Coll.harvest (loadPage w) c.page amount start).out.map (deliver (outboxItem w a.id)) ∧
      items.length = (Coll.harvest (loadPage w) c.page amount start).out.length := by
  unfold actorChildren
  rw [hc]
  exact ⟨_, _, rfl, rfl, List.length_map _⟩

theorem post_listing_positions (w : World) (p : PostM) (amount start : Nat) (c : CollM)
    (hc : p.comments = .ok c) :
    ∃ items cont, postChildren w p amount start = some (items, cont) ∧
      items = (Coll.harvest (loadPage w) c.page amount start).out.map (deliver (replyItem w p.id)) ∧
      items.length = (Coll.harvest (loadPage w) c.page amount start).out.length := by
  unfold postChildren
  rw [hc]
  exact ⟨_, _, rfl, rfl, List.length_map _⟩

theorem parents_bounded (w : World) (q : Nat) (p : PostM) :
    (parents w q p).1.length ≤ q := by
  induction q generalizing p with
  | zero =>
    unfold parents
    split <;> simp
  | succ q ih =>
    unfold parents
    split
    · simp
    · simp
    · split
      · simp
      · rename_i parent _
        split
        · simp
        · have := ih parent
          simp only [List.length_cons]
          omega

end C09aux
