import Model.Splicer
import Model.GoSlices
import Generated.GoSplicer
import Proofs.C11

/-
  Helper lemmas for `Props/Gen11.lean`: the Go semantics of `Model/GoSlices.lean` on lists of a
  known shape, and the loops of the translated splicer.
-/

namespace Gen11P
open Splicer

variable {C T : Type}

/-! ### Go semantics on lists of a known shape -/

theorem index_nat {α : Type} (xs : List α) (k : Nat) (x : α) (h : xs[k]? = some x) :
    Go.index xs (k : Int) = .ok x := by
  have : ¬ ((k : Int) < 0) := by omega
  simp [Go.index, this, h]

theorem index_mid {α : Type} (a : List α) (x : α) (b : List α) :
    Go.index (a ++ x :: b) (a.length : Int) = .ok x :=
  index_nat _ _ _ (by simp)

theorem modify_mid_list {α : Type} (a : List α) (x : α) (b : List α) (f : α → α) :
    (a ++ x :: b).modify a.length f = a ++ f x :: b := by
  induction a with
  | nil => simp
  | cons y a ih => simp [ih]

theorem modify_mid {α : Type} (a : List α) (x : α) (b : List α) (f : α → α) :
    Go.modify (a ++ x :: b) (a.length : Int) f = .ok (a ++ f x :: b) := by
  have h : ¬ ((a.length : Int) < 0 ∨ (a.length : Int) ≥ ((a ++ x :: b).length : Nat)) := by
    simp only [List.length_append, List.length_cons]; omega
  simp only [Go.modify, h, if_false, Int.toNat_natCast, modify_mid_list]

theorem split_at {α : Type} (xs : List α) (k : Nat) (x : α) (h : xs[k]? = some x) :
    ∃ a b, xs = a ++ x :: b ∧ a.length = k := by
  induction xs generalizing k with
  | nil => simp at h
  | cons y ys ih =>
    cases k with
    | zero => simp at h; subst h; exact ⟨[], ys, rfl, rfl⟩
    | succ k =>
      simp at h
      obtain ⟨a, b, hab, hl⟩ := ih k h
      exact ⟨y :: a, b, by simp [hab], by simp [hl]⟩

theorem toUint_sub (a b : Nat) (hb : b ≤ a) (ha : a < 2 ^ 64) :
    Go.toUint ((a : Int) - (b : Int)) = a - b := by
  have h1 : (a : Int) - (b : Int) = ((a - b : Nat) : Int) := by omega
  have h2 : ((a - b : Nat) : Int) % 2 ^ 64 = ((a - b : Nat) : Int) := by
    apply Int.emod_eq_of_lt <;> omega
  rw [Go.toUint, h1, h2, Int.toNat_natCast]

theorem toInt_small (a : Nat) (ha : a < 2 ^ 63) : Go.toInt a = (a : Int) := by
  simp [Go.toInt, ha]

theorem uadd_small (a b : Nat) (h : a + b < 2 ^ 64) : Go.uadd a b = a + b := by
  simp [Go.uadd, Nat.mod_eq_of_lt h]

theorem indices_eq {α : Type} (xs : List α) :
    Go.indices xs = (List.range' 0 xs.length).map fun (k : Nat) => (k : Int) := by
  simp [Go.indices, List.range_eq_range']

theorem countUp_length (n : Nat) : (Go.countUp 0 (n : Int)).length = n := by
  simp [Go.countUp]

/-! ### the lifting of a model splicer -/

end Gen11P

namespace Gen11
open Splicer
variable {C T : Type}

/-- A model source as the translated code sees it: every element is a non-nil interface value. -/
def liftSrc (x : Source C T) : GenSplicer.Source C T :=
  { basepoint := x.basepoint, page := x.page, elements := x.elements.map some }

def lift (s : List (Source C T)) : GenSplicer.Splicer C T := s.map liftSrc

/-- A model harvest function as the translated code sees it: it never delivers nil. -/
def liftHv (hv : Hv C T) : GenSplicer.HarvestFn C T :=
  fun c n b => ((hv c n b).1.map some, (hv c n b).2.1, (hv c n b).2.2)

/-- one goroutine of the translated `replenish`, on any source (nil elements included) -/
def gstep (hv : GenSplicer.HarvestFn C T) (amount : Int) (x : GenSplicer.Source C T) : GenSplicer.Source C T :=
  match x.page with
  | some p =>
    if Go.len x.elements < amount then
      let r := hv p (Go.toUint (amount - Go.len x.elements)) x.basepoint
      { basepoint := r.2.2, page := r.2.1, elements := x.elements ++ r.1 }
    else x
  | none => x

end Gen11

namespace Gen11P
open Splicer Gen11
variable {C T : Type}

theorem lift_append (a b : List (Source C T)) : lift (a ++ b) = lift a ++ lift b := by
  simp [lift]

theorem lift_cons (x : Source C T) (b : List (Source C T)) : lift (x :: b) = liftSrc x :: lift b := rfl

theorem lift_length (a : List (Source C T)) : (lift a).length = a.length := by simp [lift]

/-! ### the loops of the translated code -/

theorem copy_self {α : Type} (xs : List α) : Go.copy xs xs = xs := by
  simp [Go.copy]

theorem copy_fresh {α : Type} (z : α) (xs : List α) : Go.copy (List.replicate xs.length z) xs = xs := by
  simp [Go.copy]

theorem clone_loop (s : GenSplicer.Splicer C T) (f : Int → GenSplicer.Splicer C T → Except Panic (ForInStep (GenSplicer.Splicer C T)))
    (hf : ∀ a x b, s = a ++ x :: b → f (a.length : Int) s = .ok (.yield s))
    (done rest : GenSplicer.Splicer C T) (h : s = done ++ rest) (k : Nat) (hk : done.length = k) :
    forIn ((List.range' k rest.length).map fun (k : Nat) => (k : Int)) s f = .ok s := by
  induction rest generalizing done k with
  | nil => rfl
  | cons x rest ih =>
    subst hk
    simp only [List.length_cons, List.range'_succ, List.map_cons, List.forIn_cons]
    rw [hf done x rest h]
    exact ih (done ++ [x]) (by simp [h]) _ (by simp)

/-- one source of `Splicer.replenish` -/
def rstep (hv : Hv C T) (amount : Nat) (src : Source C T) : Source C T :=
  match src.page with
  | some p =>
    if src.elements.length < amount then
      let r := hv p (amount - src.elements.length) src.basepoint
      { basepoint := r.2.2, page := r.2.1, elements := src.elements ++ r.1 }
    else src
  | none => src

theorem replenish_map (hv : Hv C T) (n : Nat) (s : List (Source C T)) :
    Splicer.replenish hv n s = s.map (rstep hv n) := rfl

theorem state_loop {σ : Type} (f : Int → List σ → Except Panic (ForInStep (List σ))) (g : σ → σ)
    (hf : ∀ (a : List σ) (x : σ) (b : List σ), f (a.length : Int) (a ++ x :: b) = .ok (.yield (a ++ g x :: b)))
    (done rest : List σ) (k : Nat) (hk : done.length = k) (st : List σ) (hst : st = done ++ rest) :
    forIn ((List.range' k rest.length).map fun (k : Nat) => (k : Int)) st f
      = .ok (done ++ rest.map g) := by
  induction rest generalizing done k st with
  | nil => subst hst; simp; rfl
  | cons x rest ih =>
    subst hk hst
    simp only [List.length_cons, List.range'_succ, List.map_cons, List.forIn_cons]
    rw [hf done x rest]
    have := ih (done ++ [g x]) (done.length + 1) (by simp) (done ++ g x :: rest) (by simp)
    simp only [List.append_assoc, List.cons_append, List.nil_append] at this
    exact this

theorem gstep_lift (hv : Hv C T) (n : Nat) (hn : n < 2 ^ 64) (src : Source C T) :
    gstep (liftHv hv) (n : Int) (liftSrc src) = liftSrc (rstep hv n src) := by
  simp only [gstep, rstep, liftSrc, Go.len, List.length_map]
  cases hp : src.page with
  | none => simp [hp]
  | some p =>
    by_cases hl : src.elements.length < n
    · have hl' : (src.elements.length : Int) < (n : Int) := by omega
      simp [hl, hl', toUint_sub n src.elements.length (by omega) hn, liftHv, hp]
    · have hl' : ¬ (src.elements.length : Int) < (n : Int) := by omega
      simp [hl, hl', hp]

/-- the scan state of the translated `microharvest` for a model state -/
def enc : Option (Nat × T) → Option T × Int
  | none => (none, 0)
  | some (j, b) => (some b, (j : Int))

/-- one iteration of the model's `pick` -/
def pstep (ts : T → Int) (src : Source C T) (i : Nat) (best : Option (Nat × T)) : Option (Nat × T) :=
  match src.elements with
  | [] => best
  | e :: _ =>
    match best with
    | none => some (i, e)
    | some (j, b) => if ts e > ts b then some (i, e) else some (j, b)

theorem pick_cons (ts : T → Int) (src : Source C T) (rest : List (Source C T)) (i : Nat) (best : Option (Nat × T)) :
    pick ts (src :: rest) i best = pick ts rest (i + 1) (pstep ts src i best) := by
  unfold pstep
  rw [pick]
  cases src.elements with
  | nil => rfl
  | cons e es =>
    cases best with
    | none => rfl
    | some jb =>
      obtain ⟨j, b⟩ := jb
      simp only
      split <;> rfl

theorem scan_loop (ts : T → Int) (s : List (Source C T))
    (f : Int → Option T × Int → Except Panic (ForInStep (Option T × Int)))
    (hf : ∀ (a : List (Source C T)) (x : Source C T) (b : List (Source C T)) (best : Option (Nat × T)),
      s = a ++ x :: b → f (a.length : Int) (enc best) = .ok (.yield (enc (pstep ts x a.length best))))
    (done rest : List (Source C T)) (k : Nat) (hk : done.length = k) (hs : s = done ++ rest)
    (best : Option (Nat × T)) :
    forIn ((List.range' k rest.length).map fun (k : Nat) => (k : Int)) (enc best) f
      = .ok (enc (pick ts rest k best)) := by
  induction rest generalizing done k best with
  | nil => rfl
  | cons x rest ih =>
    subst hk
    simp only [List.length_cons, List.range'_succ, List.map_cons, List.forIn_cons]
    rw [hf done x rest best hs, pick_cons]
    exact ih (done ++ [x]) (done.length + 1) (by simp) (by simp [hs]) _

theorem skip_loop (ts : T → Int)
    (f : Int → GenSplicer.Splicer C T → Except Panic (ForInStep (GenSplicer.Splicer C T)))
    (hf : ∀ i (s : List (Source C T)), f i (lift s) = .ok (.yield (lift (Splicer.microharvest ts s).2)))
    (L : List Int) (s : List (Source C T)) :
    forIn L (lift s) f = .ok (lift (skip ts L.length s)) := by
  induction L generalizing s with
  | nil => rfl
  | cons i L ih =>
    simp only [List.forIn_cons, hf, List.length_cons, skip]
    exact ih _

/-- what the second loop of `Harvest` and the statements after it compute from the loop state -/
def fin (st : Option (List (Option T) × Option (GenSplicer.Splicer C T) × Nat) × GenSplicer.Splicer C T × List (Option T)) :
    List (Option T) × Option (GenSplicer.Splicer C T) × Nat :=
  match st.1 with
  | some r => r
  | none => (st.2.2, some st.2.1, 0)

theorem take_loop (ts : T → Int)
    (f : Int → Option (List (Option T) × Option (GenSplicer.Splicer C T) × Nat) × GenSplicer.Splicer C T × List (Option T) →
      Except Panic (ForInStep (Option (List (Option T) × Option (GenSplicer.Splicer C T) × Nat) × GenSplicer.Splicer C T × List (Option T))))
    (hf : ∀ i (s : List (Source C T)) out, f i (none, lift s, out) = .ok
      (match Splicer.microharvest ts s with
       | (none, s') => .done (some (out, none, 0), lift s', out)
       | (some e, s') => .yield (none, lift s', out ++ [some e])))
    (L : List Int) (s : List (Source C T)) (out : List (Option T)) :
    (forIn L (none, lift s, out) f).map fin
      = .ok (out ++ (take ts L.length s).1.map some, (take ts L.length s).2.map lift, 0) := by
  induction L generalizing s out with
  | nil => simp [take, fin, Except.map, forIn, pure, Except.pure]
  | cons i L ih =>
    simp only [List.forIn_cons, hf, List.length_cons, take]
    cases hm : Splicer.microharvest ts s with
    | mk o s' =>
      cases o with
      | none => simp [fin, Except.map, bind, Except.bind, pure, Except.pure]
      | some e =>
        simp only [bind, Except.bind]
        rw [ih]
        simp

theorem take_loop' (ts : T → Int)
    (f : Int → Option (List (Option T) × Option (GenSplicer.Splicer C T) × Nat) × GenSplicer.Splicer C T × List (Option T) →
      Except Panic (ForInStep (Option (List (Option T) × Option (GenSplicer.Splicer C T) × Nat) × GenSplicer.Splicer C T × List (Option T))))
    (L : List Int) (s : List (Source C T)) (out : List (Option T)) r
    (hr : forIn L (none, lift s, out) f = r)
    (hf : ∀ i (s : List (Source C T)) out, f i (none, lift s, out) = .ok
      (match Splicer.microharvest ts s with
       | (none, s') => .done (some (out, none, 0), lift s', out)
       | (some e, s') => .yield (none, lift s', out ++ [some e]))) :
    r.map fin
      = .ok (out ++ (take ts L.length s).1.map some, (take ts L.length s).2.map lift, 0) :=
  hr ▸ take_loop ts f hf L s out


end Gen11P
