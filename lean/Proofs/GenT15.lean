import Model
import Proofs.Gen15

/-
  Helper definitions and lemmas for Props/GenT15.lean: the gemtext document with its link lines
  numbered by an explicit counter.
-/

namespace GenT15P
open Str Ansi Gemtext

/-- What one classified line contributes outside a preformatted block; a link line is shown
    with the number `k + 1`. -/
def block (c : Colors) (w : Int) (k : Nat) : Line → Str
  | .link _ alt => Style.linkBlock c (Ansi.wrap alt (w - 2)) (k + 1) ++ ['\n']
  | .header n t => Style.header c (Ansi.wrap t (w - (n + 1))) n ++ ['\n']
  | .bullet t => Style.bullet (Ansi.wrap t (w - 2)) ++ ['\n']
  | .quote t => Style.quoteBlock c (Ansi.wrap t (w - 1)) ++ ['\n']
  | .plain t => t ++ ['\n']

def isLink : Line → Bool
  | .link _ _ => true
  | _ => false

/-- The document before the final wrap, `k` link lines having been seen, inside a preformatted
    block (`pre`, its lines so far in `buf`) or not; a block left open at the end is closed. -/
def numbered (c : Colors) (w : Int) : Nat → Bool → Str → List Str → Str
  | _, pre, buf, [] => if pre then codeBlockOf c buf w else []
  | k, pre, buf, line :: rest =>
    if hasPrefix "```".toList line then
      if pre then codeBlockOf c buf w ++ numbered c w k false [] rest
      else numbered c w k true buf rest
    else if pre then numbered c w k true (buf ++ line ++ ['\n']) rest
    else block c w k (classify line) ++
      numbered c w (if isLink (classify line) then k + 1 else k) false buf rest

/-- The same without closing a block left open at the end. -/
def body (c : Colors) (w : Int) : Nat → Bool → Str → List Str → Str
  | _, _, _, [] => []
  | k, pre, buf, line :: rest =>
    if hasPrefix "```".toList line then
      if pre then codeBlockOf c buf w ++ body c w k false [] rest
      else body c w k true buf rest
    else if pre then body c w k true (buf ++ line ++ ['\n']) rest
    else block c w k (classify line) ++
      body c w (if isLink (classify line) then k + 1 else k) false buf rest

/-- The URIs of the link lines outside preformatted blocks, in order. -/
def linkLines : Bool → List Str → List Str
  | _, [] => []
  | pre, line :: rest =>
    if hasPrefix "```".toList line then linkLines (!pre) rest
    else if pre then linkLines true rest
    else match classify line with
      | .link uri _ => uri :: linkLines false rest
      | _ => linkLines false rest

/-- Whether a preformatted block is open after these lines. -/
def openAfter : Bool → List Str → Bool
  | pre, [] => pre
  | pre, line :: rest => if hasPrefix "```".toList line then openAfter (!pre) rest else openAfter pre rest

/-- The text handed to the final wrap: a block left open is closed. -/
def final (c : Colors) (w : Int) (s : St) : Str :=
  if s.pre then s.result ++ codeBlockOf c s.buf w else s.result

theorem step_fence_open (c : Colors) (w : Int) (s : St) (line : Str)
    (hp : hasPrefix "```".toList line = true) (hpre : s.pre = false) :
    step c w s line = { s with pre := true } := by
  simp only [step, hp, hpre, if_true, if_false, Bool.false_eq_true]

theorem step_fence_close (c : Colors) (w : Int) (s : St) (line : Str)
    (hp : hasPrefix "```".toList line = true) (hpre : s.pre = true) :
    step c w s line = { s with result := s.result ++ codeBlockOf c s.buf w, buf := [], pre := false } := by
  simp only [step, hp, hpre, if_true]

theorem step_inside (c : Colors) (w : Int) (s : St) (line : Str)
    (hp : ¬ hasPrefix "```".toList line = true) (hpre : s.pre = true) :
    step c w s line = { s with buf := s.buf ++ line ++ ['\n'] } := by
  simp only [step, hp, hpre, if_true, if_false, Bool.false_eq_true]

theorem step_outside (c : Colors) (w : Int) (s : St) (line : Str)
    (hp : ¬ hasPrefix "```".toList line = true) (hpre : s.pre = false) :
    (step c w s line).result = s.result ++ block c w s.links.length (classify line) ∧
    (step c w s line).links = s.links ++ (match classify line with | .link uri _ => [uri] | _ => []) ∧
    (step c w s line).pre = false ∧ (step c w s line).buf = s.buf := by
  simp only [step, hp, hpre, if_false, Bool.false_eq_true]
  cases classify line <;> simp [block, List.append_assoc, hpre]

theorem fold_numbered (c : Colors) (w : Int) (lines : List Str) : ∀ (s : St), (s.pre = false → s.buf = []) →
    final c w (lines.foldl (step c w) s) = s.result ++ numbered c w s.links.length s.pre s.buf lines ∧
    (lines.foldl (step c w) s).links = s.links ++ linkLines s.pre lines := by
  induction lines with
  | nil =>
    intro s _
    cases h : s.pre <;> simp [numbered, linkLines, final, h]
  | cons line rest ih =>
    intro s hb
    rw [List.foldl_cons]
    by_cases hp : hasPrefix "```".toList line = true
    · cases hpre : s.pre
      · have h := ih (step c w s line) (by rw [step_fence_open c w s line hp hpre]; simp)
        rw [step_fence_open c w s line hp hpre] at h ⊢
        rw [h.1, h.2]
        simp only [numbered, linkLines, hp, if_true, Bool.not_false, Bool.false_eq_true, if_false]
        refine ⟨by first | rfl | trivial, by first | rfl | trivial⟩
      · have h := ih (step c w s line) (by rw [step_fence_close c w s line hp hpre]; simp)
        rw [step_fence_close c w s line hp hpre] at h ⊢
        rw [h.1, h.2]
        simp only [numbered, linkLines, hp, if_true, Bool.not_true, List.append_assoc]
        refine ⟨by first | rfl | trivial, by first | rfl | trivial⟩
    · cases hpre : s.pre
      · have hbuf : s.buf = [] := hb hpre
        obtain ⟨h1, h2, h3, h4⟩ := step_outside c w s line hp hpre
        have h := ih (step c w s line) (fun _ => by rw [h4, hbuf])
        rw [h.1, h.2, h1, h2, h3, h4]
        simp only [numbered, linkLines, hp, if_false, Bool.false_eq_true, List.append_assoc]
        cases classify line <;> simp [isLink, hbuf]
      · have h := ih (step c w s line) (by rw [step_inside c w s line hp hpre]; simp [hpre])
        rw [step_inside c w s line hp hpre] at h ⊢
        rw [h.1, h.2]
        simp only [numbered, linkLines, hp, hpre, if_true, if_false]
        refine ⟨by first | rfl | trivial, by first | rfl | trivial⟩

theorem renderWithLinks_numbered (c : Colors) (lines : List Str) (w : Int) :
    Gemtext.renderWithLinks c lines w =
      (trim isNl (Ansi.wrap (numbered c w 0 false [] lines) w), linkLines false lines) := by
  have h := fold_numbered c w lines {} (fun _ => rfl)
  have h1 := h.1
  have h2 := h.2
  simp only [List.nil_append, List.length_nil, final] at h1 h2
  simp only [Gemtext.renderWithLinks, renderFull]
  rw [h1, h2]

/-- Lines that leave no block open split the document. -/
theorem numbered_append (c : Colors) (w : Int) (before rest : List Str) : ∀ (k : Nat) (pre : Bool) (buf : Str),
    openAfter pre before = false → (pre = false → buf = []) →
    numbered c w k pre buf (before ++ rest) =
      body c w k pre buf before ++ numbered c w (k + (linkLines pre before).length) false [] rest ∧
    linkLines pre (before ++ rest) = linkLines pre before ++ linkLines false rest := by
  induction before with
  | nil =>
    intro k pre buf ho hb
    simp only [openAfter] at ho
    subst ho
    simp [body, linkLines, hb rfl]
  | cons line before ih =>
    intro k pre buf ho hb
    simp only [List.cons_append]
    by_cases hp : hasPrefix "```".toList line = true
    · simp only [openAfter, hp, if_true] at ho
      have hp : hasPrefix ['`', '`', '`'] line = true := hp
      cases pre
      · have := ih k true buf ho (by simp)
        simpa [numbered, body, linkLines, hp] using this
      · have := ih k false [] ho (by simp)
        simpa [numbered, body, linkLines, hp, List.append_assoc] using this
    · simp only [openAfter, hp, if_false, Bool.false_eq_true] at ho
      have hp : hasPrefix ['`', '`', '`'] line = false := by simpa using hp
      cases pre
      · have hbuf : buf = [] := hb rfl
        subst hbuf
        cases hc : classify line with
        | link uri alt =>
          have := ih (k + 1) false [] ho (by simp)
          simp [numbered, body, linkLines, hp, hc, isLink, List.append_assoc, this]
          congr 1; omega
        | header n t =>
          have := ih k false [] ho (by simp)
          simp [numbered, body, linkLines, hp, hc, isLink, List.append_assoc, this]
        | bullet t =>
          have := ih k false [] ho (by simp)
          simp [numbered, body, linkLines, hp, hc, isLink, List.append_assoc, this]
        | quote t =>
          have := ih k false [] ho (by simp)
          simp [numbered, body, linkLines, hp, hc, isLink, List.append_assoc, this]
        | plain t =>
          have := ih k false [] ho (by simp)
          simp [numbered, body, linkLines, hp, hc, isLink, List.append_assoc, this]
      · have := ih k true (buf ++ line ++ ['\n']) ho (by simp)
        simpa [numbered, body, linkLines, hp] using this

theorem kth_link_line (c : Colors) (w : Int) (before after : List Str) (line uri alt : Str)
    (hopen : openAfter false before = false) (hf : hasPrefix "```".toList line = false)
    (hl : classify line = .link uri alt) :
    let n := (linkLines false before).length
    numbered c w 0 false [] (before ++ line :: after) =
      body c w 0 false [] before ++
        (Style.linkBlock c (Ansi.wrap alt (w - 2)) (n + 1) ++ ['\n'] ++ numbered c w (n + 1) false [] after) ∧
    (linkLines false (before ++ line :: after))[n]? = some uri := by
  have h := numbered_append c w before (line :: after) 0 false [] hopen (fun _ => rfl)
  intro n
  have hf : hasPrefix ['`', '`', '`'] line = false := hf
  constructor
  · rw [h.1]
    simp [numbered, hf, hl, block, isLink, n]
  · rw [h.2]
    simp [linkLines, hf, hl, n]

end GenT15P
