import Model

/-
  Facts about the scanner `expand` (Layer A): the matches tile the string.
-/

namespace Ansi
open Str

theorem splitAtM_eq : ∀ (t a r : Str), splitAtM t = some (a, r) → t = a ++ 'm' :: r := by
  intro t
  induction t with
  | nil => intro a r h; simp [splitAtM] at h
  | cons c cs ih =>
    intro a r h
    unfold splitAtM at h
    split at h
    · rename_i hc
      simp at h
      obtain ⟨rfl, rfl⟩ := h
      simp [hc]
    · split at h
      · rename_i a' b' heq
        simp at h
        obtain ⟨rfl, rfl⟩ := h
        have := ih _ _ heq
        simp [this]
      · simp at h

theorem takePre_append : ∀ (n : Nat) (s : Str), (takePre n s).1 ++ (takePre n s).2 = s := by
  intro n
  induction n with
  | zero => intro s; simp [takePre]
  | succ n ih =>
    intro s
    unfold takePre
    split
    · rename_i e b t
      split
      · split
        · rename_i a r heq
          split
          · simp
          · have h1 := splitAtM_eq _ _ _ heq
            have h2 := ih r
            simp only [List.cons_append, List.append_assoc, h2]
            simp [h1]
        · simp
      · simp
    · simp

theorem takePre_ne_nil : ∀ (n : Nat) (s : Str), s ≠ [] → (takePre n s).2 ≠ [] := by
  intro n
  induction n with
  | zero => intro s h; simpa [takePre] using h
  | succ n ih =>
    intro s hs
    unfold takePre
    split
    · rename_i e b t
      split
      · split
        · rename_i a r heq
          split
          · simp
          · rename_i hr
            have : r ≠ [] := by simpa using hr
            exact ih r this
        · simp
      · simp
    · simpa using hs

theorem takePre_length_le (n : Nat) (s : Str) : (takePre n s).2.length ≤ s.length := by
  have h := congrArg List.length (takePre_append n s)
  simp at h
  omega

theorem collapse_nil : collapse [] = [] := rfl

theorem collapse_cons (c : RawCell) (cs : List RawCell) : collapse (c :: cs) = c.full ++ collapse cs := by
  simp [collapse]

theorem collapse_append (a b : List RawCell) : collapse (a ++ b) = collapse a ++ collapse b := by
  simp [collapse]

theorem reset_prefix_drop (r : Str) (h : reset.isPrefixOf r = true) : reset ++ r.drop 4 = r := by
  have h' : reset <+: r := List.isPrefixOf_iff_prefix.mp h
  obtain ⟨t, rfl⟩ := h'
  simp [reset]

theorem collapse_expandF : ∀ (fuel : Nat) (s : Str), s.length ≤ fuel → collapse (expandF fuel s) = s := by
  intro fuel
  induction fuel with
  | zero =>
    intro s h
    have : s = [] := by simpa using h
    subst this
    simp [expandF, collapse]
  | succ fuel ih =>
    intro s h
    unfold expandF
    split
    · rename_i hs
      have : s = [] := by simpa using hs
      subst this
      rfl
    · rename_i hs
      have hne : s ≠ [] := by simpa using hs
      have happ := takePre_append s.length s
      have hne2 := takePre_ne_nil s.length s hne
      have hlen := takePre_length_le s.length s
      simp only
      split
      · rename_i heq
        exact absurd heq hne2
      · rename_i c r heq
        rw [heq] at happ hlen
        simp at hlen
        split
        · rename_i hp
          have hr := reset_prefix_drop r hp
          rw [collapse_cons, ih (r.drop 4) (by simp; omega)]
          simp only [List.append_assoc, List.cons_append]
          rw [hr]
          exact happ
        · rw [collapse_cons, ih r (by omega)]
          simp only [List.append_assoc, List.cons_append, List.nil_append]
          exact happ

theorem collapse_expand (s : Str) : collapse (expand s) = s :=
  collapse_expandF s.length s (Nat.le_refl _)

end Ansi
