import Model
import Model.GoStrings
import Generated.GoGemtext
import Props.Gen13
import Props.Gen14
import Proofs.CleanGem

/-
  Helper lemmas for Props/Gen15.lean.
-/

set_option linter.unusedSimpArgs false

namespace Gen15P
open Str Ansi Gemtext

/-! ### what the six regular expressions of gemtext.go answer, in the model's terms -/

/-- `^=>[ \t]*(.*?)(?:[ \t]+(.*))?$` -/
def linkMatch (line : Str) : List Str :=
  match line with
  | '=' :: '>' :: rest =>
    let r := rest.dropWhile isBlank
    [line, r.takeWhile (fun c => !isBlank c), (r.dropWhile (fun c => !isBlank c)).dropWhile isBlank]
  | _ => []

/-- `^#{k}[ \t]+(.*)$` -/
def headerMatch (k : Nat) (line : Str) : List Str :=
  match headerText k line with
  | some t => [line, t]
  | none => []

/-- `^\* (.*)$` -/
def bulletMatch (line : Str) : List Str :=
  match line with
  | '*' :: ' ' :: t => [line, t]
  | _ => []

/-- `^> ?(.*)$` -/
def quoteMatch (line : Str) : List Str :=
  match line with
  | '>' :: ' ' :: t => [line, t]
  | '>' :: t => [line, t]
  | _ => []

def gemExt : GenGemtext.Ext :=
  ⟨linkMatch, headerMatch 1, headerMatch 2, headerMatch 3, bulletMatch, quoteMatch⟩

theorem forIn_fold {α σ τ : Type} (φ : τ → σ)
    (f : α → σ → Except Panic (ForInStep σ)) (g : τ → α → τ) (l : List α)
    (h : ∀ a ∈ l, ∀ t, f a (φ t) = .ok (.yield (φ (g t a)))) :
    ∀ t, forIn l (φ t) f = .ok (φ (l.foldl g t)) := by
  induction l with
  | nil => intro t; rfl
  | cons a l ih =>
    intro t
    rw [List.forIn_cons, h a (List.mem_cons_self ..) t]
    exact ih (fun b hb => h b (List.mem_cons_of_mem _ hb)) _

theorem forIn_fold' {α σ τ : Type} (φ : τ → σ)
    (f : α → σ → Except Panic (ForInStep σ)) (g : τ → α → τ) (l : List α)
    (h : ∀ a ∈ l, ∀ t, f a (φ t) = .ok (.yield (φ (g t a)))) (t : τ) (s0 : σ) (hs : s0 = φ t) :
    forIn l s0 f = .ok (φ (l.foldl g t)) := by
  rw [hs]; exact forIn_fold φ f g l h t

theorem str_fence : Go.str "```" = "```".toList := rfl
theorem str_nl : Go.str "\n" = ['\n'] := rfl
theorem str_empty : Go.str "" = [] := rfl

theorem trim_nl (s : Str) : Go.Strings.trim s (Go.str "\n") = trim isNl s := by
  have : (fun c => (Go.str "\n").contains c) = isNl := by
    funext c; simp [str_nl, isNl]
  simp only [Go.Strings.trim, this]

theorem trim_nl' (s : Str) : Go.Strings.trim s ['\n'] = trim isNl s := trim_nl s

/-- The state of the translated loop: links, result, preformattedMode, preformattedBuffer. -/
def φ (s : St) : List Str × Str × Bool × Str := (s.links, s.result, s.pre, s.buf)

theorem linkMatch_none (line : Str) (h : ∀ rest, line = '=' :: '>' :: rest → False) : linkMatch line = [] := by
  unfold linkMatch; split
  · exact (h _ rfl).elim
  · rfl

theorem bulletMatch_none (line : Str) (h : ∀ t, line = '*' :: ' ' :: t → False) : bulletMatch line = [] := by
  unfold bulletMatch; split
  · exact (h _ rfl).elim
  · rfl

theorem quoteMatch_none (line : Str) (h1 : ∀ t, line = '>' :: ' ' :: t → False)
    (h2 : ∀ t, line = '>' :: t → False) : quoteMatch line = [] := by
  unfold quoteMatch; split
  · exact (h1 _ rfl).elim
  · exact (h2 _ rfl).elim
  · rfl

/-- The seven ways a line is classified, each with what the six recognisers answer up to the one
    that decides. -/
theorem shapes (line : Str) :
    (∃ u a, linkMatch line = [line, u, a] ∧ classify line = .link u (if a.isEmpty then u else a)) ∨
    (linkMatch line = [] ∧ ∃ t, headerMatch 1 line = [line, t] ∧ classify line = .header 1 t) ∨
    (linkMatch line = [] ∧ headerMatch 1 line = [] ∧ ∃ t, headerMatch 2 line = [line, t] ∧
      classify line = .header 2 t) ∨
    (linkMatch line = [] ∧ headerMatch 1 line = [] ∧ headerMatch 2 line = [] ∧
      ∃ t, headerMatch 3 line = [line, t] ∧ classify line = .header 3 t) ∨
    (linkMatch line = [] ∧ headerMatch 1 line = [] ∧ headerMatch 2 line = [] ∧ headerMatch 3 line = [] ∧
      ∃ t, bulletMatch line = [line, t] ∧ classify line = .bullet t) ∨
    (linkMatch line = [] ∧ headerMatch 1 line = [] ∧ headerMatch 2 line = [] ∧ headerMatch 3 line = [] ∧
      bulletMatch line = [] ∧ ∃ t, quoteMatch line = [line, t] ∧ classify line = .quote t) ∨
    (linkMatch line = [] ∧ headerMatch 1 line = [] ∧ headerMatch 2 line = [] ∧ headerMatch 3 line = [] ∧
      bulletMatch line = [] ∧ quoteMatch line = [] ∧ classify line = .plain line) := by
  unfold classify
  split
  · left; exact ⟨_, _, rfl, rfl⟩
  · rename_i hne
    have h0 : linkMatch line = [] := linkMatch_none line (fun r hr => hne r hr)
    right
    cases h1 : headerText 1 line with
    | some t => left; exact ⟨h0, t, by simp [headerMatch, h1], rfl⟩
    | none =>
    have m1 : headerMatch 1 line = [] := by simp [headerMatch, h1]
    right
    cases h2 : headerText 2 line with
    | some t => left; exact ⟨h0, m1, t, by simp [headerMatch, h2], rfl⟩
    | none =>
    have m2 : headerMatch 2 line = [] := by simp [headerMatch, h2]
    right
    cases h3 : headerText 3 line with
    | some t => left; exact ⟨h0, m1, m2, t, by simp [headerMatch, h3], rfl⟩
    | none =>
    have m3 : headerMatch 3 line = [] := by simp [headerMatch, h3]
    right
    simp only []
    split
    · left; exact ⟨h0, m1, m2, m3, _, rfl, rfl⟩
    · rename_i hb
      right; left
      exact ⟨h0, m1, m2, m3, bulletMatch_none _ (fun t ht => by simp at ht), _, rfl, rfl⟩
    · rename_i hb hq
      right; left
      refine ⟨h0, m1, m2, m3, bulletMatch_none _ (fun t ht => by simp at ht), _, ?_, rfl⟩
      unfold quoteMatch; split
      · rename_i t' heq; exact (hq _ (List.cons.inj heq).2).elim
      · rename_i heq; cases heq; rfl
      · rename_i hn; exact (hn _ rfl).elim
    · rename_i hb hq1 hq2
      right; right
      exact ⟨h0, m1, m2, m3, bulletMatch_none _ hb, quoteMatch_none _ hq1 hq2, rfl⟩

theorem linkBlock_succ (c : Colors) (t : Str) (n : Nat) :
    GenStyle.LinkBlock c t ((n : Int) + 1) = .ok (Style.linkBlock c t (n + 1)) := by
  have h := Gen14.linkBlock_eq c t (n + 1)
  rwa [Int.natCast_succ] at h

theorem link_succ (c : Colors) (t : Str) (n : Nat) :
    GenStyle.Link c t ((n : Int) + 1) = .ok (Style.link c t (n + 1)) := by
  have h := Gen14.link_eq c t (n + 1)
  rwa [Int.natCast_succ] at h

theorem header_small (c : Colors) (t : Str) (k : Nat) (hk : k ≤ 3) :
    GenStyle.Header c t k = .ok (Style.header c t k) :=
  Gen14.header_eq c t k (by rw [Gen16.two62]; omega)

theorem gem_loop (c : Colors) (lines : List Str) (w : Int) :
    GenGemtext.renderWithLinks c Gen13.goExpand gemExt lines w = .ok (Gemtext.renderWithLinks c lines w) := by
  unfold GenGemtext.renderWithLinks
  simp only []
  rw [forIn_fold' φ _ (step c w) lines ?h {} ([], Go.str "", false, Go.str "") rfl]
  case h =>
    intro line _ s
    unfold step
    by_cases hp : hasPrefix "```".toList line = true
    · have hp' : Go.Strings.hasPrefix line (Go.str "```") = true := hp
      simp only [hp, hp', if_true]
      cases hpre : s.pre
      · simp [φ, hpre]; rfl
      · simp [φ, hpre, Gen13.dumbWrap_eq, Gen14.codeBlock_eq, Gen14.bind_ok, codeBlockOf, Go.Strings.trimSuffix, str_nl, str_empty]
        rfl
    · have hp' : ¬ Go.Strings.hasPrefix line (Go.str "```") = true := hp
      simp only [hp, hp', if_false]
      cases hpre : s.pre
      · simp only [φ, hpre, if_false, Bool.false_eq_true]
        have e1 : gemExt.re1 line = linkMatch line := rfl
        have e2 : gemExt.re2 line = headerMatch 1 line := rfl
        have e3 : gemExt.re3 line = headerMatch 2 line := rfl
        have e4 : gemExt.re4 line = headerMatch 3 line := rfl
        have e5 : gemExt.re5 line = bulletMatch line := rfl
        have e6 : gemExt.re6 line = quoteMatch line := rfl
        rw [e1, e2, e3, e4, e5, e6]
        rcases shapes line with ⟨u, a, h1, hc⟩ | ⟨h1, t, h2, hc⟩ | ⟨h1, h2, t, h3, hc⟩ | ⟨h1, h2, h3, t, h4, hc⟩ |
          ⟨h1, h2, h3, h4, t, h5, hc⟩ | ⟨h1, h2, h3, h4, h5, t, h6, hc⟩ | ⟨h1, h2, h3, h4, h5, h6, hc⟩
        · rw [h1, hc]
          simp [Go.len, Go.index, str_empty, str_nl, Gen13.wrap_eq, Gen14.bind_ok, linkBlock_succ]
          by_cases ha : a = [] <;> simp [ha] <;> rfl
        · rw [h1, h2, hc]
          simp [Go.len, Go.index, str_empty, str_nl, Gen13.wrap_eq, Gen14.bind_ok, header_small]
          rfl
        · rw [h1, h2, h3, hc]
          simp [Go.len, Go.index, str_empty, str_nl, Gen13.wrap_eq, Gen14.bind_ok, header_small]
          rfl
        · rw [h1, h2, h3, h4, hc]
          simp [Go.len, Go.index, str_empty, str_nl, Gen13.wrap_eq, Gen14.bind_ok, header_small]
          rfl
        · rw [h1, h2, h3, h4, h5, hc]
          simp [Go.len, Go.index, str_empty, str_nl, Gen13.wrap_eq, Gen14.bind_ok, Gen14.bullet_eq]
          rfl
        · rw [h1, h2, h3, h4, h5, h6, hc]
          simp [Go.len, Go.index, str_empty, str_nl, Gen13.wrap_eq, Gen14.bind_ok, Gen14.quoteBlock_eq]
          rfl
        · rw [h1, h2, h3, h4, h5, h6, hc]
          simp [Go.len, Go.index, str_empty, str_nl, Gen13.wrap_eq, Gen14.bind_ok]
          rfl
      · simp [φ, hpre, str_nl]; rfl
  simp only [Gen14.bind_ok, Gemtext.renderWithLinks, renderFull, φ]
  generalize List.foldl (step c w) {} lines = st
  cases hpre : st.pre
  · simp [Gen13.wrap_eq, Gen14.bind_ok, trim_nl, pure, Except.pure]
  · simp [Gen13.wrap_eq, Gen13.dumbWrap_eq, Gen14.codeBlock_eq, Gen14.bind_ok, trim_nl, pure, Except.pure,
      codeBlockOf, Go.Strings.trimSuffix, str_nl, trim_nl']

/-! ### the cache of gemtext.Markup -/

def toGenG (m : Markup.M (List Str)) : GenGemtext.Markup := ⟨m.tree, m.cached, m.cachedWidth⟩

theorem gem_new (c : Colors) (text : Str) :
    GenGemtext.NewMarkup c Gen13.goExpand gemExt text =
      .ok (toGenG (Markup.new (Markup.gemR c) (splitNL text)), (Gemtext.renderWithLinks c (splitNL text) 80).2) := by
  simp only [GenGemtext.NewMarkup, gem_loop, Gen14.bind_ok, Gen16.ofNat10, Gen16.splitChar_nl]
  rfl

theorem gem_render (c : Colors) (m : Markup.M (List Str)) (w : Int) :
    GenGemtext.Render c Gen13.goExpand gemExt (toGenG m) w =
      .ok ((Markup.render (Markup.gemR c) m w).1, toGenG (Markup.render (Markup.gemR c) m w).2) := by
  simp only [GenGemtext.Render, gem_loop, Gen14.bind_ok, toGenG, Markup.render]
  by_cases h : m.cachedWidth = w
  · simp [h]; rfl
  · simp [h]; rfl

/-! ### plaintext -/

/-- The text cut at the URLs the model's recogniser finds, scanning as `Plaintext.replaceUrls` does. -/
def urlPieces : Nat → Str → List Go.Piece
  | 0, _ => []
  | fuel + 1, s =>
    match s with
    | [] => []
    | ch :: rest =>
      match Plaintext.matchUrl s with
      | some (link, after) => ⟨true, link⟩ :: urlPieces fuel after
      | none => ⟨false, [ch]⟩ :: urlPieces fuel rest

def plainExt : GenPlaintext.Ext := ⟨fun text => urlPieces (text.length + 1) text⟩

theorem matchUrl_shorter (s link after : Str) (h : Plaintext.matchUrl s = some (link, after)) :
    after.length < s.length := by
  have happ := Cells.matchUrl_append s link after h
  have hne : link ≠ [] := by
    unfold Plaintext.matchUrl at h
    split at h
    · split at h
      · dsimp only at h
        split at h
        · split at h
          · cases h
          · simp only [Option.some.injEq, Prod.mk.injEq] at h
            obtain ⟨rfl, _⟩ := h
            simp
        · cases h
      · cases h
    · cases h
  rw [← happ, List.length_append]
  have : 0 < link.length := List.length_pos_iff.mpr hne
  omega

theorem pieces_cover_fuel : ∀ (fuel : Nat) (s : Str), s.length < fuel → ((urlPieces fuel s).map (·.text)).flatten = s := by
  intro fuel
  induction fuel with
  | zero => intro s h; omega
  | succ fuel ih =>
    intro s h
    cases s with
    | nil => simp [urlPieces]
    | cons ch rest =>
      unfold urlPieces
      cases hm : Plaintext.matchUrl (ch :: rest) with
      | none =>
        simp only [List.map_cons, List.flatten_cons]
        rw [ih rest (by simp at h; omega)]; rfl
      | some p =>
        obtain ⟨link, after⟩ := p
        simp only [List.map_cons, List.flatten_cons]
        have hs := matchUrl_shorter _ _ _ hm
        rw [ih after (by simp at h hs; omega)]
        exact Cells.matchUrl_append _ _ _ hm

theorem pieces_cover (text : Str) : ((plainExt.re1 text).map (·.text)).flatten = text :=
  pieces_cover_fuel (text.length + 1) text (by omega)

/-- The body of the translated loop over the pieces. -/
def plainBody (c : Colors) (piece : Go.Piece) (st : List Str × Str) : Except Panic (ForInStep (List Str × Str)) :=
  if piece.hit = true then do
    let l ← GenStyle.Link c piece.text (Go.len (st.fst ++ [piece.text]))
    pure (ForInStep.yield (st.fst ++ [piece.text], st.snd ++ l))
  else pure (ForInStep.yield (st.fst, st.snd ++ piece.text))

theorem plain_pieces (c : Colors) : ∀ (fuel : Nat) (s : Str) (links : List Str) (ghost : List (Nat × Str)) (acc : Str),
    forIn (urlPieces fuel s) (links, acc) (plainBody c) =
      .ok ((Plaintext.replaceUrls c fuel s links ghost).2.1, acc ++ (Plaintext.replaceUrls c fuel s links ghost).1) := by
  intro fuel
  induction fuel with
  | zero => intro s links ghost acc; simp [urlPieces, Plaintext.replaceUrls]; rfl
  | succ fuel ih =>
    intro s links ghost acc
    cases s with
    | nil => simp [urlPieces, Plaintext.replaceUrls]; rfl
    | cons ch rest =>
      unfold urlPieces Plaintext.replaceUrls
      cases hm : Plaintext.matchUrl (ch :: rest) with
      | none =>
        simp only [List.forIn_cons, plainBody, Bool.false_eq_true, if_false]
        simp only [pure, Except.pure, bind, Except.bind]
        rw [ih rest links ghost]
        simp
      | some p =>
        obtain ⟨link, after⟩ := p
        simp only [List.forIn_cons, plainBody, if_true, Go.len, List.length_append, List.length_singleton,
          Int.natCast_succ, link_succ]
        simp only [pure, Except.pure, bind, Except.bind]
        rw [ih after (links ++ [link]) (ghost ++ [((links ++ [link]).length, link)])]
        simp

theorem plain_loop (c : Colors) (text : Str) (w : Int) :
    GenPlaintext.renderWithLinks c Gen13.goExpand plainExt text w = .ok (Plaintext.renderWithLinks c text w) := by
  unfold GenPlaintext.renderWithLinks
  simp only []
  have h := plain_pieces c (text.length + 1) text [] [] []
  unfold plainBody at h
  have e : plainExt.re1 text = urlPieces (text.length + 1) text := rfl
  rw [e, h]
  simp [Gen14.bind_ok, Gen13.wrap_eq, trim_nl, Plaintext.renderWithLinks, Plaintext.renderFull, pure, Except.pure]

def toGenP (m : Markup.M Str) : GenPlaintext.Markup := ⟨m.tree, m.cached, m.cachedWidth⟩

theorem plain_new (c : Colors) (text : Str) :
    GenPlaintext.NewMarkup c Gen13.goExpand plainExt text =
      .ok (toGenP (Markup.new (Markup.plainR c) text), (Plaintext.renderWithLinks c text 80).2) := by
  simp only [GenPlaintext.NewMarkup, plain_loop, Gen14.bind_ok]
  rfl

theorem plain_render (c : Colors) (m : Markup.M Str) (w : Int) :
    GenPlaintext.Render c Gen13.goExpand plainExt (toGenP m) w =
      .ok ((Markup.render (Markup.plainR c) m w).1, toGenP (Markup.render (Markup.plainR c) m w).2) := by
  simp only [GenPlaintext.Render, plain_loop, Gen14.bind_ok, toGenP, Markup.render]
  by_cases h : m.cachedWidth = w
  · simp [h]; rfl
  · simp [h]; rfl

end Gen15P
