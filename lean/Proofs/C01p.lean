import Model
import Proofs.Clean
import Proofs.C13
import Proofs.C16

/-
  Helper lemmas for Props/C01p.lean: the presentation of posts, actors, activities and errors
  is "clean pieces glued by clean operations".  The well-formedness of the fields (`PostOk`,
  `ActorOk` of Props/C01p.lean) is passed here as explicit hypotheses.
-/

namespace PresentP
open Str Ansi Cells Present

/-! ### `Actor.Name()` in three steps -/

def nameO1 (c : Colors) (name : Fld Str) : Str :=
  match name with
  | .ok n => n
  | .absent _ => []
  | .err m => problem c m

def nameO2 (c : Colors) (host : Option Str) (handle : Fld Str) (o1 : Str) : Str :=
  match host, handle with
  | some h, .ok hd => (if o1.isEmpty then [] else o1 ++ [' ']) ++ Style.italic ('@' :: hd ++ '@' :: h)
  | some _, .err m => (if o1.isEmpty then [] else o1 ++ [' ']) ++ problem c m
  | _, _ => o1

def nameO3 (kind o2 : Str) : Str :=
  if kind ≠ "Person".toList then (if o2.isEmpty then [] else o2 ++ [' ']) ++ '(' :: lower kind ++ [')']
  else if o2.isEmpty then lower kind else o2

theorem nameStr_eq (c : Colors) (a : ActorV) :
    a.nameStr c = Style.color c (nameO3 a.kind (nameO2 c a.host a.handle (nameO1 c a.name))) := rfl

/-! ### Generic pieces -/

/-- `Char.toLower` only moves `'A'..'Z'` to `'a'..'z'`: it never produces a control character. -/
theorem toLower_ctl (ch : Char) :
    Uni.isControl (Char.toLower ch) = false ∨ Char.toLower ch = ch := by
  unfold Char.toLower
  split
  · rename_i h
    left
    have h1 : 65 ≤ ch.val.toNat := by
      have := h.1; simpa [UInt32.le_iff_toNat_le] using this
    have h2 : ch.val.toNat ≤ 90 := by
      have := h.2; simpa [UInt32.le_iff_toNat_le] using this
    simp only [Uni.isControl, Char.toNat, UInt32.toNat_add]
    have : ('a'.val - 'A'.val).toNat = 32 := by decide
    rw [this]
    generalize ch.val.toNat = n at *
    have h3 : (n + 32) % 2 ^ 32 = n + 32 := by omega
    rw [h3]
    simp
    omega
  · right; rfl

theorem noCtl_lower (s : Str) (h : Safe.noCtl s = true) : Safe.noCtl (lower s) = true := by
  rw [noCtl_iff] at *
  intro c hc
  simp only [lower, List.mem_map] at hc
  obtain ⟨x, hx, rfl⟩ := hc
  rcases toLower_ctl x with h1 | h1
  · exact Or.inr h1
  · rw [h1]; exact h x hx

theorem clean_lower (s : Str) (h : Safe.noCtl s = true) : Clean (lower s) :=
  clean_plain _ (noCtl_lower s h)

theorem clean_app3 (a b c : Str) (ha : Clean a) (hb : Clean b) (hc : Clean c) : Clean (a ++ b ++ c) :=
  clean_append _ _ (clean_append _ _ ha hb) hc

theorem clean_nlnl (s : Str) (h : Clean s) : Clean ('\n' :: '\n' :: s) :=
  clean_cons _ (Or.inl rfl) _ (clean_cons _ (Or.inl rfl) _ h)

theorem clean_nlcons (s : Str) (h : Clean s) : Clean ('\n' :: s) :=
  clean_cons _ (Or.inl rfl) _ h

theorem clean_ind2 (s : Str) (h : Clean s) : Clean (Ansi.indent s [' ', ' '] true) :=
  clean_indent _ _ _ h (by decide)

section
variable (c : Colors) (hc : ColorsOk c)
include hc

/-- `style.Problem(err)` is clean for every message. -/
theorem clean_problem (m : Str) : Clean (problem c m) :=
  clean_red c hc _ (clean_plain _ (scrub_noCtl m))

theorem clean_colorPlain (s : Str) (h : Safe.noCtl s = true) : Clean (Style.color c s) :=
  clean_color c hc _ (clean_plain _ h)

theorem clean_joinComma : ∀ xs : List Str, (∀ x ∈ xs, Clean x) → Clean (joinComma c xs)
  | [], _ => clean_nil
  | [x], h => clean_color c hc x (h x (by simp))
  | x :: y :: xs, h => by
    show Clean (Style.color c x ++ ", ".toList ++ joinComma c (y :: xs))
    exact clean_app3 _ _ _ (clean_color c hc x (h x (by simp))) (clean_plain _ (by decide))
      (clean_joinComma (y :: xs) (fun z hz => h z (List.mem_cons_of_mem _ hz)))

/-! ### The ellipsis -/

theorem ellipsis_eq :
    Style.color c ['…'] = ESC :: '[' :: (("38;2;".toList ++ c.primary) ++ 'm' :: '…' :: reset) := by
  have _ := hc
  simp [Style.color, Style.foreground, Ansi.apply, expand, expandF, takePre, reset]

omit hc in
theorem sgrOk_no_nl (a : Str) (h : sgrOk a = true) : '\n' ∉ a := by
  intro hm
  cases a with
  | nil => simp at hm
  | cons x xs =>
    simp only [sgrOk, Bool.and_eq_true, List.all_eq_true] at h
    have := h.2 _ hm
    revert this; decide

theorem ellipsis_no_nl : '\n' ∉ Style.color c ['…'] := by
  rw [ellipsis_eq c hc]
  have h := sgrOk_no_nl _ hc.1
  intro hm
  simp only [List.mem_cons, List.mem_append, reset] at hm
  rcases hm with hm | hm | hm | hm
  · revert hm; decide
  · revert hm; decide
  · exact h (List.mem_append.2 hm)
  · revert hm; simp [ESC]

theorem clean_ellipsis : Clean (Style.color c ['…']) :=
  clean_colorPlain c hc _ (by decide)

/-- `Snip(text, w, 4, ellipsis)` does not panic, keeps cleanliness, and returns ≤ 4 lines. -/
theorem snip4 (s : Str) (w : Int) (hs : Clean s) :
    ∃ out, snip s w 4 (Style.color c ['…']) = .ok out ∧ Clean out ∧ Ansi.height out ≤ 4 := by
  obtain ⟨out, ho, hh⟩ := SnipP.snip_height s w 4 (Style.color c ['…']) (by omega) (ellipsis_no_nl c hc)
  exact ⟨out, ho, clean_snip s w 4 _ out hs (clean_ellipsis c hc) ho, by omega⟩

/-! ### Posts -/

theorem clean_postHeader (p : PostV) (w : Int)
    (hk : Safe.noCtl p.kind = true)
    (ht : ∀ t, p.title = .ok t → Safe.noCtl t = true)
    (hcr : ∀ n ∈ p.creators, Clean n)
    (hre : ∀ n ∈ p.recipients, Clean n)
    (hat : ∀ a, p.created = .ok a → Safe.noCtl a = true)
    (hz : Safe.noCtl p.agoZero = true) : Clean (p.header c w) := by
  unfold PostV.header
  apply clean_wrap
  refine clean_append _ _ (clean_append _ _ (clean_append _ _ (clean_append _ _ ?_ ?_) ?_) ?_) ?_
  · split
    · rename_i t h
      exact clean_append _ _ (clean_bold _ (clean_plain _ (ht t h))) clean_nl
    · exact clean_nil
    · exact clean_append _ _ (clean_problem c hc _) clean_nl
  · split
    · exact clean_colorPlain c hc _ (by decide)
    · exact clean_color c hc _ (clean_lower _ hk)
  · split
    · exact clean_nil
    · exact clean_append _ _ (clean_plain _ (by decide)) (clean_joinComma c hc _ hcr)
  · split
    · exact clean_nil
    · exact clean_append _ _ (clean_plain _ (by decide)) (clean_joinComma c hc _ hre)
  · split
    · exact clean_append _ _ (clean_plain _ (by decide)) (clean_problem c hc _)
    · rename_i a h
      exact clean_append _ _ (clean_plain _ (by decide)) (clean_colorPlain c hc _ (hat a h))
    · exact clean_append _ _ (clean_plain _ (by decide)) (clean_colorPlain c hc _ hz)

theorem clean_postCenter (p : PostV) (w : Int)
    (hb : ∀ b, p.body = .ok b → Clean (b.render c w)) :
    ∀ s, p.center c w = some s → Clean s := by
  intro s hs
  unfold PostV.center at hs
  split at hs
  · cases hs
  · obtain rfl := Option.some.inj hs; exact clean_wrap _ _ (clean_problem c hc _)
  · rename_i b h
    obtain rfl := Option.some.inj hs; exact hb b h

omit hc in
theorem altText_noCtl (l : LinkV)
    (ha : ∀ a, l.alt = .ok a → Safe.noCtl a = true) (hu : ∀ u, l.uri = .ok u → Safe.noCtl u = true) :
    ∀ t, l.altText = .ok t → Safe.noCtl t = true := by
  intro t h
  unfold LinkV.altText at h
  split at h
  · rename_i a h'
    cases h; exact ha _ h'
  · split at h
    · rename_i u h'
      cases h; exact hu _ h'
    · cases h
    · cases h
  · cases h

theorem clean_supplementLines (w : Int) (base : Nat) :
    ∀ (as : List LinkV) (i : Nat),
      (∀ l ∈ as, (∀ a, l.alt = .ok a → Safe.noCtl a = true) ∧ (∀ u, l.uri = .ok u → Safe.noCtl u = true)) →
      ∀ s ∈ supplementLines c w base as i, Clean s
  | [], _, _ => by intro s hs; simp [supplementLines] at hs
  | a :: as, i, h => by
    intro s hs
    simp only [supplementLines, List.mem_cons] at hs
    rcases hs with hs | hs
    · subst hs
      split
      · exact clean_linkBlock c hc _ _ (clean_wrap _ _ (clean_problem c hc _))
      · rename_i alt hal
        have hn := altText_noCtl a (h a (by simp)).1 (h a (by simp)).2 alt hal
        exact clean_linkBlock c hc _ _ (clean_wrap _ _ (clean_plain _ hn))
    · exact clean_supplementLines w base as (i + 1) (fun l hl => h l (List.mem_cons_of_mem _ hl)) s hs

theorem clean_postSupplement (p : PostV) (w : Int)
    (ha : ∀ as, p.attachments = .ok as → ∀ l ∈ as,
      (∀ a, l.alt = .ok a → Safe.noCtl a = true) ∧ (∀ u, l.uri = .ok u → Safe.noCtl u = true)) :
    ∀ s, p.supplement c w = some s → Clean s := by
  intro s hs
  unfold PostV.supplement at hs
  split at hs
  · cases hs
  · obtain rfl := Option.some.inj hs; exact clean_wrap _ _ (clean_problem c hc _)
  · cases hs
  · rename_i as _ h
    obtain rfl := Option.some.inj hs
    exact clean_joinNL _ (clean_supplementLines c hc w _ as 0 (ha as h))

theorem clean_postFooter (p : PostV)
    (hn : ∀ n, p.comments = .size (.ok n) → Safe.noCtl n = true) : Clean (p.footer c) := by
  unfold PostV.footer
  split
  · exact clean_colorPlain c hc _ (by decide)
  · exact clean_colorPlain c hc _ (by decide)
  · exact clean_colorPlain c hc _ (by decide)
  · exact clean_problem c hc _
  · rename_i n h
    apply clean_colorPlain c hc
    rw [noCtl_append]
    refine ⟨hn n h, ?_⟩
    split <;> decide

theorem clean_postString (p : PostV) (w : Int)
    (hh : Clean (p.header c w))
    (hce : ∀ s, p.center c (w - 4) = some s → Clean s)
    (hsu : ∀ s, p.supplement c (w - 4) = some s → Clean s)
    (hf : Clean (p.footer c)) : Clean (p.string c w) := by
  have _ := hc
  unfold PostV.string
  refine clean_append _ _ (clean_append _ _ (clean_append _ _ hh ?_) ?_) (clean_nlnl _ hf)
  · split
    · rename_i b h
      exact clean_nlnl _ (clean_ind2 _ (hce b h))
    · exact clean_nil
  · split
    · rename_i a h
      exact clean_nlnl _ (clean_ind2 _ (hsu a h))
    · exact clean_nil

theorem clean_postPreview (p : PostV) (w : Int)
    (hh : Clean (p.header c w))
    (hce : ∀ s, p.center c w = some s → Clean s)
    (hsu : ∀ s, p.supplement c w = some s → Clean s) :
    ∃ out, p.preview c w = .ok out ∧ Clean out ∧ Ansi.height out ≤ 4 := by
  unfold PostV.preview
  apply snip4 c hc
  have h1 : Clean (p.header c w ++ (match p.center c w with | some b => '\n' :: b | none => [])) := by
    apply clean_append _ _ hh
    split
    · rename_i b h
      exact clean_nlcons _ (hce b h)
    · exact clean_nil
  split
  · rename_i a h
    refine clean_append _ _ (clean_append _ _ h1 ?_) (clean_nlcons _ (hsu a h))
    split
    · exact clean_nl
    · exact clean_nil
  · exact h1

/-! ### Actors -/

theorem clean_actorName (a : ActorV)
    (hk : Safe.noCtl a.kind = true)
    (hn : ∀ n, a.name = .ok n → Safe.noCtl n = true)
    (hh : ∀ h, a.handle = .ok h → Safe.noCtl h = true)
    (hho : ∀ h, a.host = some h → Safe.noCtl h = true) : Clean (a.nameStr c) := by
  have hsp : ∀ o : Str, Clean o → Clean (if o.isEmpty then [] else o ++ [' ']) := by
    intro o ho
    split
    · exact clean_nil
    · exact clean_append _ _ ho (clean_plain _ (by decide))
  have h1 : Clean (nameO1 c a.name) := by
    unfold nameO1
    split
    · rename_i n h
      exact clean_plain _ (hn n h)
    · exact clean_nil
    · exact clean_problem c hc _
  have h2 : Clean (nameO2 c a.host a.handle (nameO1 c a.name)) := by
    unfold nameO2
    split
    · rename_i h hd hh1 hh2
      apply clean_append _ _ (hsp _ h1)
      apply clean_italic
      apply clean_plain
      have e : (('@' :: hd) ++ '@' :: h) = ['@'] ++ hd ++ ['@'] ++ h := by simp
      rw [e, noCtl_append, noCtl_append, noCtl_append]
      exact ⟨⟨⟨by decide, hh _ hh2⟩, by decide⟩, hho _ hh1⟩
    · exact clean_append _ _ (hsp _ h1) (clean_problem c hc _)
    · exact h1
  rw [nameStr_eq]
  apply clean_color c hc
  unfold nameO3
  split
  · exact clean_append _ _ (clean_append _ _ (hsp _ h2)
      (clean_cons _ (Or.inr (by decide)) _ (clean_lower _ hk))) (clean_plain _ (by decide))
  · split
    · exact clean_lower _ hk
    · exact h2

theorem clean_actorHeader (a : ActorV) (w : Int)
    (hname : Clean (a.nameStr c))
    (hj : ∀ d, a.joined = .ok d → Safe.noCtl d = true) : Clean (a.header c w) := by
  unfold ActorV.header
  apply clean_wrap
  apply clean_append _ _ hname
  split
  · exact clean_nil
  · exact clean_append _ _ (clean_plain _ (by decide)) (clean_problem c hc _)
  · rename_i d h
    exact clean_append _ _ (clean_plain _ (by decide)) (clean_colorPlain c hc _ (hj d h))

theorem clean_actorCenter (a : ActorV) (w : Int)
    (hb : ∀ b, a.bio = .ok b → Clean (b.render c w)) :
    ∀ s, a.center c w = some s → Clean s := by
  intro s hs
  unfold ActorV.center at hs
  split at hs
  · cases hs
  · obtain rfl := Option.some.inj hs; exact clean_wrap _ _ (clean_problem c hc _)
  · rename_i b h
    obtain rfl := Option.some.inj hs; exact hb b h

theorem clean_actorFooter (a : ActorV)
    (hp : ∀ n, a.posts = .ok (.ok n) → Safe.noCtl n = true) :
    ∀ s, a.footer c = some s → Clean s := by
  intro s hs
  unfold ActorV.footer at hs
  split at hs
  · obtain rfl := Option.some.inj hs; exact clean_problem c hc _
  · obtain rfl := Option.some.inj hs; exact clean_problem c hc _
  · cases hs
  · obtain rfl := Option.some.inj hs; exact clean_problem c hc _
  · rename_i n h
    obtain rfl := Option.some.inj hs
    apply clean_colorPlain c hc
    rw [noCtl_append]
    refine ⟨hp n h, ?_⟩
    split <;> decide

theorem clean_actorString (a : ActorV) (w : Int)
    (hh : Clean (a.header c w))
    (hce : ∀ s, a.center c (w - 4) = some s → Clean s)
    (hf : ∀ s, a.footer c = some s → Clean s) : Clean (a.string c w) := by
  have _ := hc
  unfold ActorV.string
  refine clean_append _ _ (clean_append _ _ hh ?_) ?_
  · split
    · rename_i b h
      exact clean_nlnl _ (clean_ind2 _ (hce b h))
    · exact clean_nil
  · split
    · rename_i f h
      refine clean_append _ _ ?_ (clean_nlcons _ (hf f h))
      split
      · exact clean_nl
      · exact clean_nil
    · exact clean_nil

theorem clean_actorPreview (a : ActorV) (w : Int)
    (hh : Clean (a.header c w))
    (hce : ∀ s, a.center c w = some s → Clean s)
    (hf : ∀ s, a.footer c = some s → Clean s) :
    ∃ out, a.preview c w = .ok out ∧ Clean out := by
  unfold ActorV.preview
  have hfoot : Clean (match a.footer c with | some f => '\n' :: f | none => [] : Str) := by
    split
    · rename_i f h
      exact clean_nlcons _ (hf f h)
    · exact clean_nil
  cases hb : a.center c w with
  | none => exact ⟨_, rfl, clean_append _ _ hh hfoot⟩
  | some b =>
    obtain ⟨s, hs, hcs, _⟩ := snip4 c hc b w (hce b hb)
    simp only [hs]
    exact ⟨_, rfl, clean_append _ _ (clean_append _ _ hh (clean_nlcons _ hcs)) hfoot⟩

/-! ### Failures and activities -/

theorem clean_failure (msg : Str) (w : Int) :
    Clean (failureName c msg) ∧ Clean (failureString c msg w) :=
  ⟨clean_problem c hc msg, clean_wrap _ _ (clean_problem c hc msg)⟩

end

theorem clean_activityHeader (c : Colors) (kind actorName : Str) (w : Int) (hn : Clean actorName) :
    Clean (activityHeader c kind actorName w) := by
  unfold activityHeader
  split
  · exact clean_nil
  · apply clean_wrap
    refine clean_append _ _ (clean_append _ _ hn (clean_cons _ (Or.inr (by decide)) _ ?_)) (clean_plain _ (by decide))
    split
    · exact clean_plain _ (by decide)
    · split
      · exact clean_plain _ (by decide)
      · exact clean_plain _ (by decide)

end PresentP

