import Model
import Model.GoStrings
import Model.GoHtml
import Generated.GoHypertext
import Props.Gen13
import Props.Gen14
import Proofs.Gen15
import Proofs.Gen16

/-
  Helper lemmas for Props/Gen15h.lean.
-/

set_option linter.unusedSimpArgs false

namespace Gen15hP
open Str Ansi Hypertext Go.Html

/-! ### what the three regular expressions of hypertext.go answer, in the model's terms -/

/-- `(?s)^(.*?)([ \n]*)$`: the text without its trailing blanks and newlines, and those. -/
def trimRightMatch (s : Str) : List Str :=
  [s, trimRight isSpNl s, s.drop (trimRight isSpNl s).length]

/-- `(?s)^([ \n]*)(.*)$`: the leading blanks and newlines, and the rest. -/
def trimLeftMatch (s : Str) : List Str :=
  [s, s.takeWhile isSpNl, s.dropWhile isSpNl]

/-- `[ \t\n\r]+`: the text cut into its maximal runs of the four characters and what lies
    between them. -/
def wsPieces : Str → List Go.Piece
  | [] => []
  | ch :: cs =>
    if isWs4 ch then
      match wsPieces cs with
      | ⟨true, t⟩ :: ps => ⟨true, ch :: t⟩ :: ps
      | ps => ⟨true, [ch]⟩ :: ps
    else
      match wsPieces cs with
      | ⟨false, t⟩ :: ps => ⟨false, ch :: t⟩ :: ps
      | ps => ⟨false, [ch]⟩ :: ps

def hExt : GenHypertext.Ext := ⟨trimRightMatch, trimLeftMatch, wsPieces⟩


def toCtx (x : GenHypertext.context) : Ctx := ⟨x.preserveWhitespace, x.width⟩

def toAttrs (a : List Attribute) : List (Str × Str) := a.map fun x => (x.Key, x.Val)

theorem str_spnl : Go.str " \n" = [' ', '\n'] := rfl
theorem str_nl : Go.str "\n" = ['\n'] := rfl
theorem str_sp : Go.str " " = [' '] := rfl
theorem str_nlnl : Go.str "\n\n" = ['\n', '\n'] := rfl
theorem str_empty : Go.str "" = [] := rfl

theorem trim_spnl (s : Str) : Go.Strings.trim s (Go.str " \n") = trim isSpNl s := by
  have : (fun ch => (Go.str " \n").contains ch) = isSpNl := by
    funext ch; simp [str_spnl, isSpNl]
  simp only [Go.Strings.trim, this]

theorem index1 {α : Type} (a b d : α) : Go.index [a, b, d] 1 = .ok b := rfl
theorem index2 {α : Type} (a b d : α) : Go.index [a, b, d] 2 = .ok d := rfl

theorem take_len_sub (s : Str) (p : Char → Bool) :
    s.take (s.length - (s.dropWhile p).length) = s.takeWhile p := by
  have h := List.takeWhile_append_dropWhile (p := p) (l := s)
  have hl : s.length - (s.dropWhile p).length = (s.takeWhile p).length := by
    have := congrArg List.length h
    rw [List.length_append] at this
    omega
  rw [hl]
  have h2 : (s.takeWhile p ++ s.dropWhile p).take (s.takeWhile p).length = s.takeWhile p := List.take_left' rfl
  rw [h] at h2
  exact h2

theorem mergeText_eq (c : Colors) (l r : Str) :
    GenHypertext.mergeText c Gen13.goExpand hExt l r = .ok (Hypertext.mergeText l r) := by
  have e1 : hExt.re1 l = trimRightMatch l := rfl
  have e2 : hExt.re2 r = trimLeftMatch r := rfl
  simp only [GenHypertext.mergeText, e1, e2, trimRightMatch, trimLeftMatch, index1, index2, Gen14.bind_ok,
    Hypertext.mergeText, trimLeft, take_len_sub, str_empty, str_sp, str_nl, str_nlnl, Go.Strings.countChar,
    countNL]
  have hch : Char.ofNat 10 = '\n' := rfl
  rw [hch]
  generalize (List.drop (trimRight isSpNl l).length l ++ List.takeWhile isSpNl r) = ws
  cases ws with
  | nil => rfl
  | cons a ws =>
    have hne' : (a :: ws).isEmpty = false := rfl
    simp only [hne', reduceCtorEq, decide_false, Bool.false_eq_true, if_false]
    have h3 : List.count '\n' (a :: ws) = 0 ∨ List.count '\n' (a :: ws) = 1 ∨ 2 ≤ List.count '\n' (a :: ws) := by omega
    rcases h3 with h | h | h
    · simp [h, pure, Except.pure]
    · simp [h, pure, Except.pure]
    · have h0 : ¬ ((List.count '\n' (a :: ws) : Int) = 0) := by omega
      have h1 : ¬ ((List.count '\n' (a :: ws) : Int) = 1) := by omega
      have h0' : ¬ (List.count '\n' (a :: ws) = 0) := by omega
      have h1' : ¬ (List.count '\n' (a :: ws) = 1) := by omega
      simp only [h0, h1, h0', h1', decide_false, Bool.false_eq_true, if_false]
      simp [pure, Except.pure]

theorem block_eq (c : Colors) (t : Str) :
    GenHypertext.block c Gen13.goExpand hExt t = .ok (Hypertext.block t) := by
  simp only [GenHypertext.block, trim_spnl, str_nlnl, Hypertext.block]
  rfl


theorem getAttribute_cons (name k v : Str) (rest : List (Str × Str)) :
    Hypertext.getAttribute name ((k, v) :: rest) = if k = name then Ansi.scrub v else Hypertext.getAttribute name rest := by
  unfold Hypertext.getAttribute
  by_cases h : k = name <;> simp [h]

theorem getAttribute_eq (c : Colors) (name : Str) (attrs : List Attribute) :
    GenHypertext.getAttribute c Gen13.goExpand hExt name attrs = .ok (Hypertext.getAttribute name (toAttrs attrs)) := by
  unfold GenHypertext.getAttribute
  induction attrs with
  | nil => rfl
  | cons a as ih =>
    have e : toAttrs (a :: as) = (a.Key, a.Val) :: toAttrs as := rfl
    rw [e, getAttribute_cons]
    simp only [List.forIn_cons]
    by_cases h : a.Key = name
    · simp only [h, decide_true, if_true]; rfl
    · simp only [h, decide_false, Bool.false_eq_true, if_false, pure_bind]
      exact ih

theorem situationalWrap_eq (c : Colors) (t : Str) (ctx : GenHypertext.context) :
    GenHypertext.situationalWrap c Gen13.goExpand hExt t ctx = .ok (Hypertext.situationalWrap t (toCtx ctx)) := by
  simp only [GenHypertext.situationalWrap, Hypertext.situationalWrap, toCtx, Gen13.wrap_eq, Gen13.dumbWrap_eq,
    Gen14.bind_ok]
  by_cases h1 : ctx.width < 1
  · simp [h1]; rfl
  · obtain ⟨pw, w⟩ := ctx
    cases pw <;> simp [h1] <;> rfl

/-! ### the whitespace pattern -/

def repl (ps : List Go.Piece) : Str := Go.Regexp.replaceAllString ps [' ']

theorem repl_cons (p : Go.Piece) (ps : List Go.Piece) :
    repl (p :: ps) = (if p.hit then [' '] else p.text) ++ repl ps := by
  simp [repl, Go.Regexp.replaceAllString]

/-- What is left to do after a whitespace character was seen. -/
def afterRun (ps : List Go.Piece) : Str :=
  match ps with
  | ⟨true, _⟩ :: rest => repl rest
  | _ => repl ps

theorem wsPieces_collapse : ∀ (s : Str),
    collapseWsAux false s = repl (wsPieces s) ∧ collapseWsAux true s = afterRun (wsPieces s)
  | [] => ⟨rfl, rfl⟩
  | ch :: cs => by
    obtain ⟨ihF, ihT⟩ := wsPieces_collapse cs
    by_cases hw : isWs4 ch = true
    · simp only [collapseWsAux, wsPieces, hw, if_true, Bool.false_eq_true, if_false]
      rw [ihT]
      cases hp : wsPieces cs with
      | nil => simp [afterRun, repl_cons, repl, Go.Regexp.replaceAllString]
      | cons p ps =>
        obtain ⟨hit, t⟩ := p
        cases hit <;> simp [afterRun, repl_cons]
    · have hw' : isWs4 ch = false := by simpa using hw
      simp only [collapseWsAux, wsPieces, hw', Bool.false_eq_true, if_false]
      rw [ihF]
      cases hp : wsPieces cs with
      | nil => simp [afterRun, repl_cons, repl, Go.Regexp.replaceAllString]
      | cons p ps =>
        obtain ⟨hit, t⟩ := p
        cases hit <;> simp [afterRun, repl_cons]

theorem replaceAll_ws (s : Str) :
    Go.Regexp.replaceAllString (hExt.re3 s) (Go.str " ") = collapseWs s :=
  ((wsPieces_collapse s).1).symm

/-- The pieces `wsPieces` cuts a text into are the text. -/
theorem wsPieces_cover : ∀ (s : Str), ((wsPieces s).map (·.text)).flatten = s
  | [] => rfl
  | ch :: cs => by
    have ih := wsPieces_cover cs
    unfold wsPieces
    cases hp : wsPieces cs with
    | nil =>
      rw [hp] at ih
      have : cs = [] := by simpa using ih.symm
      subst this
      by_cases hw : isWs4 ch = true <;> simp [hw]
    | cons p ps =>
      rw [hp] at ih
      obtain ⟨hit, t⟩ := p
      by_cases hw : isWs4 ch = true <;> cases hit <;> simp [hw] <;> simpa using ih

abbrev E := Gen13.goExpand

def R (x : Str × LinkSt) : Except Panic (Str × List Str) := .ok (x.1, x.2.links)
def RL (x : Str × LinkSt) : Except Panic (List Str × Str) := .ok (x.2.links, x.1)

def pLi (p : Option Str) : Bool := parentDataIs p (Go.str "li")

theorem push_links (ls : LinkSt) (l : Str) : ls.links ++ [l] = (ls.push l).1.links := rfl
theorem push_len (ls : LinkSt) (l : Str) : Go.len (ls.push l).1.links = (((ls.push l).2 : Nat) : Int) := rfl


theorem pLi_some (d : Str) : pLi (some d) = decide (d = "li".toList) := by
  simp [pLi, parentDataIs, Go.str]

theorem renderChildren_of (c : Colors) (t : NodeType) (d : Str) (a : List Attribute) (ks : List Node)
    (ihK : ∀ parent ctx (ls : LinkSt) acc, GenHypertext.renderChildren_loop1 c E hExt ks parent ctx ls.links acc =
      RL (renderKids c (toDomList ks) (toCtx ctx) (pLi parent) ls acc))
    (parent : Option Str) (ctx : GenHypertext.context) (ls : LinkSt) :
    GenHypertext.renderChildren c E hExt (.mk t d a ks) parent ctx ls.links =
      R (Hypertext.renderChildren c (toDomList ks) (toCtx ctx) (decide (d = "li".toList)) ls) := by
  rw [GenHypertext.renderChildren]
  simp only [Node.kids_mk, Node.data_mk, ihK, RL, Gen14.bind_ok, Hypertext.renderChildren, R, str_empty, pLi_some]
  rfl

def badText (c : Colors) (d : Str) (r : Str × LinkSt) : Str × LinkSt :=
  (Style.red c ('<' :: d ++ ['>']) ++ r.1 ++ Style.red c ('<' :: '/' :: d ++ ['>']), r.2)

theorem bad_of (c : Colors) (t : NodeType) (d : Str) (a : List Attribute) (ks : List Node)
    (ihK : ∀ parent ctx (ls : LinkSt) acc, GenHypertext.renderChildren_loop1 c E hExt ks parent ctx ls.links acc =
      RL (renderKids c (toDomList ks) (toCtx ctx) (pLi parent) ls acc))
    (parent : Option Str) (ctx : GenHypertext.context) (ls : LinkSt) :
    GenHypertext.bad c E hExt (.mk t d a ks) parent ctx ls.links =
      R (badText c d (Hypertext.renderChildren c (toDomList ks) (toCtx ctx) (decide (d = "li".toList)) ls)) := by
  rw [GenHypertext.bad]
  simp only [Node.data_mk, renderChildren_of c t d a ks ihK, Gen14.red_eq, R, Gen14.bind_ok, badText]
  simp [Go.str]
  rfl

theorem bulletedList_of (c : Colors) (t : NodeType) (d : Str) (a : List Attribute) (ks : List Node)
    (ihB : ∀ parent ctx (ls : LinkSt) acc, GenHypertext.bulletedList_loop1 c E hExt ks parent ctx ls.links acc =
      RL (bulletedKids c (toDomList ks) (toCtx ctx) ls acc))
    (parent : Option Str) (ctx : GenHypertext.context) (ls : LinkSt) :
    GenHypertext.bulletedList c E hExt (.mk t d a ks) parent ctx ls.links =
      R (let r := bulleted c (toDomList ks) { toCtx ctx with width := ctx.width - 2 } ls
         if pLi parent then r else (Hypertext.block r.1, r.2)) := by
  rw [GenHypertext.bulletedList]
  simp only [Node.kids_mk, Node.data_mk, ihB, RL, Gen14.bind_ok, Hypertext.bulleted, R, str_empty, block_eq, pLi, toCtx]
  cases parentDataIs parent (Go.str "li") <;> rfl

theorem toDom_text (d a k) : toDom (.mk .TextNode d a k) = .text d := by simp [toDom]
theorem toDom_elem (d a k) : toDom (.mk .ElementNode d a k) = .elem d (toAttrs a) (toDomList k) := by simp [toDom, toAttrs]


theorem pow62 : (1:Nat) < 2 ^ 62 ∧ (2:Nat) < 2 ^ 62 ∧ (3:Nat) < 2 ^ 62 ∧ (4:Nat) < 2 ^ 62 ∧ (5:Nat) < 2 ^ 62 ∧ (6:Nat) < 2 ^ 62 := by
  rw [Gen16.two62]; omega

theorem header1 (c : Colors) (t : Str) : GenStyle.Header c t 1 = .ok (Style.header c t 1) := Gen14.header_eq c t 1 pow62.1
theorem header2 (c : Colors) (t : Str) : GenStyle.Header c t 2 = .ok (Style.header c t 2) := Gen14.header_eq c t 2 pow62.2.1
theorem header3 (c : Colors) (t : Str) : GenStyle.Header c t 3 = .ok (Style.header c t 3) := Gen14.header_eq c t 3 pow62.2.2.1
theorem header4 (c : Colors) (t : Str) : GenStyle.Header c t 4 = .ok (Style.header c t 4) := Gen14.header_eq c t 4 pow62.2.2.2.1
theorem header5 (c : Colors) (t : Str) : GenStyle.Header c t 5 = .ok (Style.header c t 5) := Gen14.header_eq c t 5 pow62.2.2.2.2.1
theorem header6 (c : Colors) (t : Str) : GenStyle.Header c t 6 = .ok (Style.header c t 6) := Gen14.header_eq c t 6 pow62.2.2.2.2.2

theorem trim_spnl' (s : Str) : Go.Strings.trim s " \n".toList = trim isSpNl s := trim_spnl s

theorem isEmpty_decide (s : Str) : s.isEmpty = decide (s = []) := by cases s <;> simp

macro "type_side" : tactic => `(tactic| (
  simp only [Node.type_mk, reduceCtorEq, decide_false, decide_true, Bool.false_eq_true, if_false, if_true, ne_eq,
    not_true_eq_false, not_false_eq_true]))

macro "gen_side" : tactic => `(tactic| (
  simp only [Node.type_mk, Node.data_mk, Node.attr_mk, Go.str, decide_false, decide_true, Bool.false_eq_true, if_false,
    if_true, String.toList_inj, String.reduceEq, Bool.or_false, Bool.or_true, Bool.false_or, Bool.true_or, Bool.or_self, *]))

macro "calls_side" : tactic => `(tactic| (
  simp only [getAttribute_eq, Gen14.bind_ok, push_links, push_len, R, situationalWrap_eq, block_eq, Gen13.pad_eq,
    Gen14.strikethrough_eq, Gen14.code_eq, Gen14.italic_eq, Gen14.bold_eq, Gen14.underline_eq, Gen14.highlight_eq, Gen14.link_eq,
    Gen14.codeBlock_eq, Gen14.quoteBlock_eq, Gen14.linkBlock_eq, Gen14.bullet_eq, trim_spnl', header1, header2, header3, header4,
    header5, header6, *]))

macro "model_side" : tactic => `(tactic| (
  simp only [Hypertext.renderNode, tagIn, headerLevel, List.any_cons, List.any_nil, String.toList_inj, String.reduceEq,
    decide_false, decide_true, Bool.false_eq_true, if_false, if_true, Bool.or_false, Bool.or_true, Bool.false_or,
    Bool.true_or, Bool.or_self, toCtx, pure, Except.pure, *]))

/-! ### `renderNode` on an element, one lemma per case of the `switch` -/

set_option maxHeartbeats 400000 in
theorem node_s (c : Colors) (d : Str) (a : List Attribute) (ks : List Node)
    (hRC : ∀ parent ctx (ls : LinkSt), GenHypertext.renderChildren c E hExt (.mk .ElementNode d a ks) parent ctx ls.links =
      R (Hypertext.renderChildren c (toDomList ks) (toCtx ctx) (decide (d = "li".toList)) ls))
    (hBad : ∀ parent ctx (ls : LinkSt), GenHypertext.bad c E hExt (.mk .ElementNode d a ks) parent ctx ls.links =
      R (badText c d (Hypertext.renderChildren c (toDomList ks) (toCtx ctx) (decide (d = "li".toList)) ls)))
    (hBL : ∀ parent ctx (ls : LinkSt), GenHypertext.bulletedList c E hExt (.mk .ElementNode d a ks) parent ctx ls.links =
      R (let r := bulleted c (toDomList ks) { toCtx ctx with width := ctx.width - 2 } ls
         if pLi parent then r else (Hypertext.block r.1, r.2)))
    (parent : Option Str) (ctx : GenHypertext.context) (ls : LinkSt) (h : d = "s".toList) :
    GenHypertext.renderNode c E hExt (.mk .ElementNode d a ks) parent ctx ls.links =
      R (Hypertext.renderNode c (.elem d (toAttrs a) (toDomList ks)) (toCtx ctx) (pLi parent) ls) := by
  rw [GenHypertext.renderNode]
  have e1 : ∀ s : String, (d = s.toList) = ("s" = s) := by intro s; rw [h, String.toList_inj]
  have e2 : ∀ s : String, (s.toList = d) = (s = "s") := by intro s; rw [h, String.toList_inj]
  clear h
  type_side; gen_side; calls_side; model_side <;> rfl

set_option maxHeartbeats 400000 in
theorem node_del (c : Colors) (d : Str) (a : List Attribute) (ks : List Node)
    (hRC : ∀ parent ctx (ls : LinkSt), GenHypertext.renderChildren c E hExt (.mk .ElementNode d a ks) parent ctx ls.links =
      R (Hypertext.renderChildren c (toDomList ks) (toCtx ctx) (decide (d = "li".toList)) ls))
    (hBad : ∀ parent ctx (ls : LinkSt), GenHypertext.bad c E hExt (.mk .ElementNode d a ks) parent ctx ls.links =
      R (badText c d (Hypertext.renderChildren c (toDomList ks) (toCtx ctx) (decide (d = "li".toList)) ls)))
    (hBL : ∀ parent ctx (ls : LinkSt), GenHypertext.bulletedList c E hExt (.mk .ElementNode d a ks) parent ctx ls.links =
      R (let r := bulleted c (toDomList ks) { toCtx ctx with width := ctx.width - 2 } ls
         if pLi parent then r else (Hypertext.block r.1, r.2)))
    (parent : Option Str) (ctx : GenHypertext.context) (ls : LinkSt) (h : d = "del".toList) :
    GenHypertext.renderNode c E hExt (.mk .ElementNode d a ks) parent ctx ls.links =
      R (Hypertext.renderNode c (.elem d (toAttrs a) (toDomList ks)) (toCtx ctx) (pLi parent) ls) := by
  rw [GenHypertext.renderNode]
  have e1 : ∀ s : String, (d = s.toList) = ("del" = s) := by intro s; rw [h, String.toList_inj]
  have e2 : ∀ s : String, (s.toList = d) = (s = "del") := by intro s; rw [h, String.toList_inj]
  clear h
  type_side; gen_side; calls_side; model_side <;> rfl

set_option maxHeartbeats 400000 in
theorem node_code (c : Colors) (d : Str) (a : List Attribute) (ks : List Node)
    (hRC : ∀ parent ctx (ls : LinkSt), GenHypertext.renderChildren c E hExt (.mk .ElementNode d a ks) parent ctx ls.links =
      R (Hypertext.renderChildren c (toDomList ks) (toCtx ctx) (decide (d = "li".toList)) ls))
    (hBad : ∀ parent ctx (ls : LinkSt), GenHypertext.bad c E hExt (.mk .ElementNode d a ks) parent ctx ls.links =
      R (badText c d (Hypertext.renderChildren c (toDomList ks) (toCtx ctx) (decide (d = "li".toList)) ls)))
    (hBL : ∀ parent ctx (ls : LinkSt), GenHypertext.bulletedList c E hExt (.mk .ElementNode d a ks) parent ctx ls.links =
      R (let r := bulleted c (toDomList ks) { toCtx ctx with width := ctx.width - 2 } ls
         if pLi parent then r else (Hypertext.block r.1, r.2)))
    (parent : Option Str) (ctx : GenHypertext.context) (ls : LinkSt) (h : d = "code".toList) :
    GenHypertext.renderNode c E hExt (.mk .ElementNode d a ks) parent ctx ls.links =
      R (Hypertext.renderNode c (.elem d (toAttrs a) (toDomList ks)) (toCtx ctx) (pLi parent) ls) := by
  rw [GenHypertext.renderNode]
  have e1 : ∀ s : String, (d = s.toList) = ("code" = s) := by intro s; rw [h, String.toList_inj]
  have e2 : ∀ s : String, (s.toList = d) = (s = "code") := by intro s; rw [h, String.toList_inj]
  clear h
  type_side; gen_side; calls_side; model_side <;> rfl

set_option maxHeartbeats 400000 in
theorem node_i (c : Colors) (d : Str) (a : List Attribute) (ks : List Node)
    (hRC : ∀ parent ctx (ls : LinkSt), GenHypertext.renderChildren c E hExt (.mk .ElementNode d a ks) parent ctx ls.links =
      R (Hypertext.renderChildren c (toDomList ks) (toCtx ctx) (decide (d = "li".toList)) ls))
    (hBad : ∀ parent ctx (ls : LinkSt), GenHypertext.bad c E hExt (.mk .ElementNode d a ks) parent ctx ls.links =
      R (badText c d (Hypertext.renderChildren c (toDomList ks) (toCtx ctx) (decide (d = "li".toList)) ls)))
    (hBL : ∀ parent ctx (ls : LinkSt), GenHypertext.bulletedList c E hExt (.mk .ElementNode d a ks) parent ctx ls.links =
      R (let r := bulleted c (toDomList ks) { toCtx ctx with width := ctx.width - 2 } ls
         if pLi parent then r else (Hypertext.block r.1, r.2)))
    (parent : Option Str) (ctx : GenHypertext.context) (ls : LinkSt) (h : d = "i".toList) :
    GenHypertext.renderNode c E hExt (.mk .ElementNode d a ks) parent ctx ls.links =
      R (Hypertext.renderNode c (.elem d (toAttrs a) (toDomList ks)) (toCtx ctx) (pLi parent) ls) := by
  rw [GenHypertext.renderNode]
  have e1 : ∀ s : String, (d = s.toList) = ("i" = s) := by intro s; rw [h, String.toList_inj]
  have e2 : ∀ s : String, (s.toList = d) = (s = "i") := by intro s; rw [h, String.toList_inj]
  clear h
  type_side; gen_side; calls_side; model_side <;> rfl

set_option maxHeartbeats 400000 in
theorem node_em (c : Colors) (d : Str) (a : List Attribute) (ks : List Node)
    (hRC : ∀ parent ctx (ls : LinkSt), GenHypertext.renderChildren c E hExt (.mk .ElementNode d a ks) parent ctx ls.links =
      R (Hypertext.renderChildren c (toDomList ks) (toCtx ctx) (decide (d = "li".toList)) ls))
    (hBad : ∀ parent ctx (ls : LinkSt), GenHypertext.bad c E hExt (.mk .ElementNode d a ks) parent ctx ls.links =
      R (badText c d (Hypertext.renderChildren c (toDomList ks) (toCtx ctx) (decide (d = "li".toList)) ls)))
    (hBL : ∀ parent ctx (ls : LinkSt), GenHypertext.bulletedList c E hExt (.mk .ElementNode d a ks) parent ctx ls.links =
      R (let r := bulleted c (toDomList ks) { toCtx ctx with width := ctx.width - 2 } ls
         if pLi parent then r else (Hypertext.block r.1, r.2)))
    (parent : Option Str) (ctx : GenHypertext.context) (ls : LinkSt) (h : d = "em".toList) :
    GenHypertext.renderNode c E hExt (.mk .ElementNode d a ks) parent ctx ls.links =
      R (Hypertext.renderNode c (.elem d (toAttrs a) (toDomList ks)) (toCtx ctx) (pLi parent) ls) := by
  rw [GenHypertext.renderNode]
  have e1 : ∀ s : String, (d = s.toList) = ("em" = s) := by intro s; rw [h, String.toList_inj]
  have e2 : ∀ s : String, (s.toList = d) = (s = "em") := by intro s; rw [h, String.toList_inj]
  clear h
  type_side; gen_side; calls_side; model_side <;> rfl

set_option maxHeartbeats 400000 in
theorem node_b (c : Colors) (d : Str) (a : List Attribute) (ks : List Node)
    (hRC : ∀ parent ctx (ls : LinkSt), GenHypertext.renderChildren c E hExt (.mk .ElementNode d a ks) parent ctx ls.links =
      R (Hypertext.renderChildren c (toDomList ks) (toCtx ctx) (decide (d = "li".toList)) ls))
    (hBad : ∀ parent ctx (ls : LinkSt), GenHypertext.bad c E hExt (.mk .ElementNode d a ks) parent ctx ls.links =
      R (badText c d (Hypertext.renderChildren c (toDomList ks) (toCtx ctx) (decide (d = "li".toList)) ls)))
    (hBL : ∀ parent ctx (ls : LinkSt), GenHypertext.bulletedList c E hExt (.mk .ElementNode d a ks) parent ctx ls.links =
      R (let r := bulleted c (toDomList ks) { toCtx ctx with width := ctx.width - 2 } ls
         if pLi parent then r else (Hypertext.block r.1, r.2)))
    (parent : Option Str) (ctx : GenHypertext.context) (ls : LinkSt) (h : d = "b".toList) :
    GenHypertext.renderNode c E hExt (.mk .ElementNode d a ks) parent ctx ls.links =
      R (Hypertext.renderNode c (.elem d (toAttrs a) (toDomList ks)) (toCtx ctx) (pLi parent) ls) := by
  rw [GenHypertext.renderNode]
  have e1 : ∀ s : String, (d = s.toList) = ("b" = s) := by intro s; rw [h, String.toList_inj]
  have e2 : ∀ s : String, (s.toList = d) = (s = "b") := by intro s; rw [h, String.toList_inj]
  clear h
  type_side; gen_side; calls_side; model_side <;> rfl

set_option maxHeartbeats 400000 in
theorem node_strong (c : Colors) (d : Str) (a : List Attribute) (ks : List Node)
    (hRC : ∀ parent ctx (ls : LinkSt), GenHypertext.renderChildren c E hExt (.mk .ElementNode d a ks) parent ctx ls.links =
      R (Hypertext.renderChildren c (toDomList ks) (toCtx ctx) (decide (d = "li".toList)) ls))
    (hBad : ∀ parent ctx (ls : LinkSt), GenHypertext.bad c E hExt (.mk .ElementNode d a ks) parent ctx ls.links =
      R (badText c d (Hypertext.renderChildren c (toDomList ks) (toCtx ctx) (decide (d = "li".toList)) ls)))
    (hBL : ∀ parent ctx (ls : LinkSt), GenHypertext.bulletedList c E hExt (.mk .ElementNode d a ks) parent ctx ls.links =
      R (let r := bulleted c (toDomList ks) { toCtx ctx with width := ctx.width - 2 } ls
         if pLi parent then r else (Hypertext.block r.1, r.2)))
    (parent : Option Str) (ctx : GenHypertext.context) (ls : LinkSt) (h : d = "strong".toList) :
    GenHypertext.renderNode c E hExt (.mk .ElementNode d a ks) parent ctx ls.links =
      R (Hypertext.renderNode c (.elem d (toAttrs a) (toDomList ks)) (toCtx ctx) (pLi parent) ls) := by
  rw [GenHypertext.renderNode]
  have e1 : ∀ s : String, (d = s.toList) = ("strong" = s) := by intro s; rw [h, String.toList_inj]
  have e2 : ∀ s : String, (s.toList = d) = (s = "strong") := by intro s; rw [h, String.toList_inj]
  clear h
  type_side; gen_side; calls_side; model_side <;> rfl

set_option maxHeartbeats 400000 in
theorem node_u (c : Colors) (d : Str) (a : List Attribute) (ks : List Node)
    (hRC : ∀ parent ctx (ls : LinkSt), GenHypertext.renderChildren c E hExt (.mk .ElementNode d a ks) parent ctx ls.links =
      R (Hypertext.renderChildren c (toDomList ks) (toCtx ctx) (decide (d = "li".toList)) ls))
    (hBad : ∀ parent ctx (ls : LinkSt), GenHypertext.bad c E hExt (.mk .ElementNode d a ks) parent ctx ls.links =
      R (badText c d (Hypertext.renderChildren c (toDomList ks) (toCtx ctx) (decide (d = "li".toList)) ls)))
    (hBL : ∀ parent ctx (ls : LinkSt), GenHypertext.bulletedList c E hExt (.mk .ElementNode d a ks) parent ctx ls.links =
      R (let r := bulleted c (toDomList ks) { toCtx ctx with width := ctx.width - 2 } ls
         if pLi parent then r else (Hypertext.block r.1, r.2)))
    (parent : Option Str) (ctx : GenHypertext.context) (ls : LinkSt) (h : d = "u".toList) :
    GenHypertext.renderNode c E hExt (.mk .ElementNode d a ks) parent ctx ls.links =
      R (Hypertext.renderNode c (.elem d (toAttrs a) (toDomList ks)) (toCtx ctx) (pLi parent) ls) := by
  rw [GenHypertext.renderNode]
  have e1 : ∀ s : String, (d = s.toList) = ("u" = s) := by intro s; rw [h, String.toList_inj]
  have e2 : ∀ s : String, (s.toList = d) = (s = "u") := by intro s; rw [h, String.toList_inj]
  clear h
  type_side; gen_side; calls_side; model_side <;> rfl

set_option maxHeartbeats 400000 in
theorem node_ins (c : Colors) (d : Str) (a : List Attribute) (ks : List Node)
    (hRC : ∀ parent ctx (ls : LinkSt), GenHypertext.renderChildren c E hExt (.mk .ElementNode d a ks) parent ctx ls.links =
      R (Hypertext.renderChildren c (toDomList ks) (toCtx ctx) (decide (d = "li".toList)) ls))
    (hBad : ∀ parent ctx (ls : LinkSt), GenHypertext.bad c E hExt (.mk .ElementNode d a ks) parent ctx ls.links =
      R (badText c d (Hypertext.renderChildren c (toDomList ks) (toCtx ctx) (decide (d = "li".toList)) ls)))
    (hBL : ∀ parent ctx (ls : LinkSt), GenHypertext.bulletedList c E hExt (.mk .ElementNode d a ks) parent ctx ls.links =
      R (let r := bulleted c (toDomList ks) { toCtx ctx with width := ctx.width - 2 } ls
         if pLi parent then r else (Hypertext.block r.1, r.2)))
    (parent : Option Str) (ctx : GenHypertext.context) (ls : LinkSt) (h : d = "ins".toList) :
    GenHypertext.renderNode c E hExt (.mk .ElementNode d a ks) parent ctx ls.links =
      R (Hypertext.renderNode c (.elem d (toAttrs a) (toDomList ks)) (toCtx ctx) (pLi parent) ls) := by
  rw [GenHypertext.renderNode]
  have e1 : ∀ s : String, (d = s.toList) = ("ins" = s) := by intro s; rw [h, String.toList_inj]
  have e2 : ∀ s : String, (s.toList = d) = (s = "ins") := by intro s; rw [h, String.toList_inj]
  clear h
  type_side; gen_side; calls_side; model_side <;> rfl

set_option maxHeartbeats 400000 in
theorem node_mark (c : Colors) (d : Str) (a : List Attribute) (ks : List Node)
    (hRC : ∀ parent ctx (ls : LinkSt), GenHypertext.renderChildren c E hExt (.mk .ElementNode d a ks) parent ctx ls.links =
      R (Hypertext.renderChildren c (toDomList ks) (toCtx ctx) (decide (d = "li".toList)) ls))
    (hBad : ∀ parent ctx (ls : LinkSt), GenHypertext.bad c E hExt (.mk .ElementNode d a ks) parent ctx ls.links =
      R (badText c d (Hypertext.renderChildren c (toDomList ks) (toCtx ctx) (decide (d = "li".toList)) ls)))
    (hBL : ∀ parent ctx (ls : LinkSt), GenHypertext.bulletedList c E hExt (.mk .ElementNode d a ks) parent ctx ls.links =
      R (let r := bulleted c (toDomList ks) { toCtx ctx with width := ctx.width - 2 } ls
         if pLi parent then r else (Hypertext.block r.1, r.2)))
    (parent : Option Str) (ctx : GenHypertext.context) (ls : LinkSt) (h : d = "mark".toList) :
    GenHypertext.renderNode c E hExt (.mk .ElementNode d a ks) parent ctx ls.links =
      R (Hypertext.renderNode c (.elem d (toAttrs a) (toDomList ks)) (toCtx ctx) (pLi parent) ls) := by
  rw [GenHypertext.renderNode]
  have e1 : ∀ s : String, (d = s.toList) = ("mark" = s) := by intro s; rw [h, String.toList_inj]
  have e2 : ∀ s : String, (s.toList = d) = (s = "mark") := by intro s; rw [h, String.toList_inj]
  clear h
  type_side; gen_side; calls_side; model_side <;> rfl

set_option maxHeartbeats 400000 in
theorem node_span (c : Colors) (d : Str) (a : List Attribute) (ks : List Node)
    (hRC : ∀ parent ctx (ls : LinkSt), GenHypertext.renderChildren c E hExt (.mk .ElementNode d a ks) parent ctx ls.links =
      R (Hypertext.renderChildren c (toDomList ks) (toCtx ctx) (decide (d = "li".toList)) ls))
    (hBad : ∀ parent ctx (ls : LinkSt), GenHypertext.bad c E hExt (.mk .ElementNode d a ks) parent ctx ls.links =
      R (badText c d (Hypertext.renderChildren c (toDomList ks) (toCtx ctx) (decide (d = "li".toList)) ls)))
    (hBL : ∀ parent ctx (ls : LinkSt), GenHypertext.bulletedList c E hExt (.mk .ElementNode d a ks) parent ctx ls.links =
      R (let r := bulleted c (toDomList ks) { toCtx ctx with width := ctx.width - 2 } ls
         if pLi parent then r else (Hypertext.block r.1, r.2)))
    (parent : Option Str) (ctx : GenHypertext.context) (ls : LinkSt) (h : d = "span".toList) :
    GenHypertext.renderNode c E hExt (.mk .ElementNode d a ks) parent ctx ls.links =
      R (Hypertext.renderNode c (.elem d (toAttrs a) (toDomList ks)) (toCtx ctx) (pLi parent) ls) := by
  rw [GenHypertext.renderNode]
  have e1 : ∀ s : String, (d = s.toList) = ("span" = s) := by intro s; rw [h, String.toList_inj]
  have e2 : ∀ s : String, (s.toList = d) = (s = "span") := by intro s; rw [h, String.toList_inj]
  clear h
  type_side; gen_side; calls_side; model_side <;> rfl

set_option maxHeartbeats 400000 in
theorem node_li (c : Colors) (d : Str) (a : List Attribute) (ks : List Node)
    (hRC : ∀ parent ctx (ls : LinkSt), GenHypertext.renderChildren c E hExt (.mk .ElementNode d a ks) parent ctx ls.links =
      R (Hypertext.renderChildren c (toDomList ks) (toCtx ctx) (decide (d = "li".toList)) ls))
    (hBad : ∀ parent ctx (ls : LinkSt), GenHypertext.bad c E hExt (.mk .ElementNode d a ks) parent ctx ls.links =
      R (badText c d (Hypertext.renderChildren c (toDomList ks) (toCtx ctx) (decide (d = "li".toList)) ls)))
    (hBL : ∀ parent ctx (ls : LinkSt), GenHypertext.bulletedList c E hExt (.mk .ElementNode d a ks) parent ctx ls.links =
      R (let r := bulleted c (toDomList ks) { toCtx ctx with width := ctx.width - 2 } ls
         if pLi parent then r else (Hypertext.block r.1, r.2)))
    (parent : Option Str) (ctx : GenHypertext.context) (ls : LinkSt) (h : d = "li".toList) :
    GenHypertext.renderNode c E hExt (.mk .ElementNode d a ks) parent ctx ls.links =
      R (Hypertext.renderNode c (.elem d (toAttrs a) (toDomList ks)) (toCtx ctx) (pLi parent) ls) := by
  rw [GenHypertext.renderNode]
  have e1 : ∀ s : String, (d = s.toList) = ("li" = s) := by intro s; rw [h, String.toList_inj]
  have e2 : ∀ s : String, (s.toList = d) = (s = "li") := by intro s; rw [h, String.toList_inj]
  clear h
  type_side; gen_side; calls_side; model_side <;> rfl

set_option maxHeartbeats 400000 in
theorem node_br (c : Colors) (d : Str) (a : List Attribute) (ks : List Node)
    (hRC : ∀ parent ctx (ls : LinkSt), GenHypertext.renderChildren c E hExt (.mk .ElementNode d a ks) parent ctx ls.links =
      R (Hypertext.renderChildren c (toDomList ks) (toCtx ctx) (decide (d = "li".toList)) ls))
    (hBad : ∀ parent ctx (ls : LinkSt), GenHypertext.bad c E hExt (.mk .ElementNode d a ks) parent ctx ls.links =
      R (badText c d (Hypertext.renderChildren c (toDomList ks) (toCtx ctx) (decide (d = "li".toList)) ls)))
    (hBL : ∀ parent ctx (ls : LinkSt), GenHypertext.bulletedList c E hExt (.mk .ElementNode d a ks) parent ctx ls.links =
      R (let r := bulleted c (toDomList ks) { toCtx ctx with width := ctx.width - 2 } ls
         if pLi parent then r else (Hypertext.block r.1, r.2)))
    (parent : Option Str) (ctx : GenHypertext.context) (ls : LinkSt) (h : d = "br".toList) :
    GenHypertext.renderNode c E hExt (.mk .ElementNode d a ks) parent ctx ls.links =
      R (Hypertext.renderNode c (.elem d (toAttrs a) (toDomList ks)) (toCtx ctx) (pLi parent) ls) := by
  rw [GenHypertext.renderNode]
  have e1 : ∀ s : String, (d = s.toList) = ("br" = s) := by intro s; rw [h, String.toList_inj]
  have e2 : ∀ s : String, (s.toList = d) = (s = "br") := by intro s; rw [h, String.toList_inj]
  clear h
  type_side; gen_side; calls_side; model_side <;> rfl

set_option maxHeartbeats 400000 in
theorem node_p (c : Colors) (d : Str) (a : List Attribute) (ks : List Node)
    (hRC : ∀ parent ctx (ls : LinkSt), GenHypertext.renderChildren c E hExt (.mk .ElementNode d a ks) parent ctx ls.links =
      R (Hypertext.renderChildren c (toDomList ks) (toCtx ctx) (decide (d = "li".toList)) ls))
    (hBad : ∀ parent ctx (ls : LinkSt), GenHypertext.bad c E hExt (.mk .ElementNode d a ks) parent ctx ls.links =
      R (badText c d (Hypertext.renderChildren c (toDomList ks) (toCtx ctx) (decide (d = "li".toList)) ls)))
    (hBL : ∀ parent ctx (ls : LinkSt), GenHypertext.bulletedList c E hExt (.mk .ElementNode d a ks) parent ctx ls.links =
      R (let r := bulleted c (toDomList ks) { toCtx ctx with width := ctx.width - 2 } ls
         if pLi parent then r else (Hypertext.block r.1, r.2)))
    (parent : Option Str) (ctx : GenHypertext.context) (ls : LinkSt) (h : d = "p".toList) :
    GenHypertext.renderNode c E hExt (.mk .ElementNode d a ks) parent ctx ls.links =
      R (Hypertext.renderNode c (.elem d (toAttrs a) (toDomList ks)) (toCtx ctx) (pLi parent) ls) := by
  rw [GenHypertext.renderNode]
  have e1 : ∀ s : String, (d = s.toList) = ("p" = s) := by intro s; rw [h, String.toList_inj]
  have e2 : ∀ s : String, (s.toList = d) = (s = "p") := by intro s; rw [h, String.toList_inj]
  clear h
  type_side; gen_side; calls_side; model_side <;> rfl

set_option maxHeartbeats 400000 in
theorem node_div (c : Colors) (d : Str) (a : List Attribute) (ks : List Node)
    (hRC : ∀ parent ctx (ls : LinkSt), GenHypertext.renderChildren c E hExt (.mk .ElementNode d a ks) parent ctx ls.links =
      R (Hypertext.renderChildren c (toDomList ks) (toCtx ctx) (decide (d = "li".toList)) ls))
    (hBad : ∀ parent ctx (ls : LinkSt), GenHypertext.bad c E hExt (.mk .ElementNode d a ks) parent ctx ls.links =
      R (badText c d (Hypertext.renderChildren c (toDomList ks) (toCtx ctx) (decide (d = "li".toList)) ls)))
    (hBL : ∀ parent ctx (ls : LinkSt), GenHypertext.bulletedList c E hExt (.mk .ElementNode d a ks) parent ctx ls.links =
      R (let r := bulleted c (toDomList ks) { toCtx ctx with width := ctx.width - 2 } ls
         if pLi parent then r else (Hypertext.block r.1, r.2)))
    (parent : Option Str) (ctx : GenHypertext.context) (ls : LinkSt) (h : d = "div".toList) :
    GenHypertext.renderNode c E hExt (.mk .ElementNode d a ks) parent ctx ls.links =
      R (Hypertext.renderNode c (.elem d (toAttrs a) (toDomList ks)) (toCtx ctx) (pLi parent) ls) := by
  rw [GenHypertext.renderNode]
  have e1 : ∀ s : String, (d = s.toList) = ("div" = s) := by intro s; rw [h, String.toList_inj]
  have e2 : ∀ s : String, (s.toList = d) = (s = "div") := by intro s; rw [h, String.toList_inj]
  clear h
  type_side; gen_side; calls_side; model_side <;> rfl

set_option maxHeartbeats 400000 in
theorem node_pre (c : Colors) (d : Str) (a : List Attribute) (ks : List Node)
    (hRC : ∀ parent ctx (ls : LinkSt), GenHypertext.renderChildren c E hExt (.mk .ElementNode d a ks) parent ctx ls.links =
      R (Hypertext.renderChildren c (toDomList ks) (toCtx ctx) (decide (d = "li".toList)) ls))
    (hBad : ∀ parent ctx (ls : LinkSt), GenHypertext.bad c E hExt (.mk .ElementNode d a ks) parent ctx ls.links =
      R (badText c d (Hypertext.renderChildren c (toDomList ks) (toCtx ctx) (decide (d = "li".toList)) ls)))
    (hBL : ∀ parent ctx (ls : LinkSt), GenHypertext.bulletedList c E hExt (.mk .ElementNode d a ks) parent ctx ls.links =
      R (let r := bulleted c (toDomList ks) { toCtx ctx with width := ctx.width - 2 } ls
         if pLi parent then r else (Hypertext.block r.1, r.2)))
    (parent : Option Str) (ctx : GenHypertext.context) (ls : LinkSt) (h : d = "pre".toList) :
    GenHypertext.renderNode c E hExt (.mk .ElementNode d a ks) parent ctx ls.links =
      R (Hypertext.renderNode c (.elem d (toAttrs a) (toDomList ks)) (toCtx ctx) (pLi parent) ls) := by
  rw [GenHypertext.renderNode]
  have e1 : ∀ s : String, (d = s.toList) = ("pre" = s) := by intro s; rw [h, String.toList_inj]
  have e2 : ∀ s : String, (s.toList = d) = (s = "pre") := by intro s; rw [h, String.toList_inj]
  clear h
  type_side; gen_side; calls_side; model_side <;> rfl

set_option maxHeartbeats 400000 in
theorem node_blockquote (c : Colors) (d : Str) (a : List Attribute) (ks : List Node)
    (hRC : ∀ parent ctx (ls : LinkSt), GenHypertext.renderChildren c E hExt (.mk .ElementNode d a ks) parent ctx ls.links =
      R (Hypertext.renderChildren c (toDomList ks) (toCtx ctx) (decide (d = "li".toList)) ls))
    (hBad : ∀ parent ctx (ls : LinkSt), GenHypertext.bad c E hExt (.mk .ElementNode d a ks) parent ctx ls.links =
      R (badText c d (Hypertext.renderChildren c (toDomList ks) (toCtx ctx) (decide (d = "li".toList)) ls)))
    (hBL : ∀ parent ctx (ls : LinkSt), GenHypertext.bulletedList c E hExt (.mk .ElementNode d a ks) parent ctx ls.links =
      R (let r := bulleted c (toDomList ks) { toCtx ctx with width := ctx.width - 2 } ls
         if pLi parent then r else (Hypertext.block r.1, r.2)))
    (parent : Option Str) (ctx : GenHypertext.context) (ls : LinkSt) (h : d = "blockquote".toList) :
    GenHypertext.renderNode c E hExt (.mk .ElementNode d a ks) parent ctx ls.links =
      R (Hypertext.renderNode c (.elem d (toAttrs a) (toDomList ks)) (toCtx ctx) (pLi parent) ls) := by
  rw [GenHypertext.renderNode]
  have e1 : ∀ s : String, (d = s.toList) = ("blockquote" = s) := by intro s; rw [h, String.toList_inj]
  have e2 : ∀ s : String, (s.toList = d) = (s = "blockquote") := by intro s; rw [h, String.toList_inj]
  clear h
  type_side; gen_side; calls_side; model_side <;> rfl

set_option maxHeartbeats 400000 in
theorem node_ul (c : Colors) (d : Str) (a : List Attribute) (ks : List Node)
    (hRC : ∀ parent ctx (ls : LinkSt), GenHypertext.renderChildren c E hExt (.mk .ElementNode d a ks) parent ctx ls.links =
      R (Hypertext.renderChildren c (toDomList ks) (toCtx ctx) (decide (d = "li".toList)) ls))
    (hBad : ∀ parent ctx (ls : LinkSt), GenHypertext.bad c E hExt (.mk .ElementNode d a ks) parent ctx ls.links =
      R (badText c d (Hypertext.renderChildren c (toDomList ks) (toCtx ctx) (decide (d = "li".toList)) ls)))
    (hBL : ∀ parent ctx (ls : LinkSt), GenHypertext.bulletedList c E hExt (.mk .ElementNode d a ks) parent ctx ls.links =
      R (let r := bulleted c (toDomList ks) { toCtx ctx with width := ctx.width - 2 } ls
         if pLi parent then r else (Hypertext.block r.1, r.2)))
    (parent : Option Str) (ctx : GenHypertext.context) (ls : LinkSt) (h : d = "ul".toList) :
    GenHypertext.renderNode c E hExt (.mk .ElementNode d a ks) parent ctx ls.links =
      R (Hypertext.renderNode c (.elem d (toAttrs a) (toDomList ks)) (toCtx ctx) (pLi parent) ls) := by
  rw [GenHypertext.renderNode]
  have e1 : ∀ s : String, (d = s.toList) = ("ul" = s) := by intro s; rw [h, String.toList_inj]
  have e2 : ∀ s : String, (s.toList = d) = (s = "ul") := by intro s; rw [h, String.toList_inj]
  clear h
  type_side; gen_side; calls_side; model_side <;> rfl

set_option maxHeartbeats 400000 in
theorem node_h1 (c : Colors) (d : Str) (a : List Attribute) (ks : List Node)
    (hRC : ∀ parent ctx (ls : LinkSt), GenHypertext.renderChildren c E hExt (.mk .ElementNode d a ks) parent ctx ls.links =
      R (Hypertext.renderChildren c (toDomList ks) (toCtx ctx) (decide (d = "li".toList)) ls))
    (hBad : ∀ parent ctx (ls : LinkSt), GenHypertext.bad c E hExt (.mk .ElementNode d a ks) parent ctx ls.links =
      R (badText c d (Hypertext.renderChildren c (toDomList ks) (toCtx ctx) (decide (d = "li".toList)) ls)))
    (hBL : ∀ parent ctx (ls : LinkSt), GenHypertext.bulletedList c E hExt (.mk .ElementNode d a ks) parent ctx ls.links =
      R (let r := bulleted c (toDomList ks) { toCtx ctx with width := ctx.width - 2 } ls
         if pLi parent then r else (Hypertext.block r.1, r.2)))
    (parent : Option Str) (ctx : GenHypertext.context) (ls : LinkSt) (h : d = "h1".toList) :
    GenHypertext.renderNode c E hExt (.mk .ElementNode d a ks) parent ctx ls.links =
      R (Hypertext.renderNode c (.elem d (toAttrs a) (toDomList ks)) (toCtx ctx) (pLi parent) ls) := by
  rw [GenHypertext.renderNode]
  have e1 : ∀ s : String, (d = s.toList) = ("h1" = s) := by intro s; rw [h, String.toList_inj]
  have e2 : ∀ s : String, (s.toList = d) = (s = "h1") := by intro s; rw [h, String.toList_inj]
  clear h
  type_side; gen_side; calls_side; model_side <;> rfl

set_option maxHeartbeats 400000 in
theorem node_h2 (c : Colors) (d : Str) (a : List Attribute) (ks : List Node)
    (hRC : ∀ parent ctx (ls : LinkSt), GenHypertext.renderChildren c E hExt (.mk .ElementNode d a ks) parent ctx ls.links =
      R (Hypertext.renderChildren c (toDomList ks) (toCtx ctx) (decide (d = "li".toList)) ls))
    (hBad : ∀ parent ctx (ls : LinkSt), GenHypertext.bad c E hExt (.mk .ElementNode d a ks) parent ctx ls.links =
      R (badText c d (Hypertext.renderChildren c (toDomList ks) (toCtx ctx) (decide (d = "li".toList)) ls)))
    (hBL : ∀ parent ctx (ls : LinkSt), GenHypertext.bulletedList c E hExt (.mk .ElementNode d a ks) parent ctx ls.links =
      R (let r := bulleted c (toDomList ks) { toCtx ctx with width := ctx.width - 2 } ls
         if pLi parent then r else (Hypertext.block r.1, r.2)))
    (parent : Option Str) (ctx : GenHypertext.context) (ls : LinkSt) (h : d = "h2".toList) :
    GenHypertext.renderNode c E hExt (.mk .ElementNode d a ks) parent ctx ls.links =
      R (Hypertext.renderNode c (.elem d (toAttrs a) (toDomList ks)) (toCtx ctx) (pLi parent) ls) := by
  rw [GenHypertext.renderNode]
  have e1 : ∀ s : String, (d = s.toList) = ("h2" = s) := by intro s; rw [h, String.toList_inj]
  have e2 : ∀ s : String, (s.toList = d) = (s = "h2") := by intro s; rw [h, String.toList_inj]
  clear h
  type_side; gen_side; calls_side; model_side <;> rfl

set_option maxHeartbeats 400000 in
theorem node_h3 (c : Colors) (d : Str) (a : List Attribute) (ks : List Node)
    (hRC : ∀ parent ctx (ls : LinkSt), GenHypertext.renderChildren c E hExt (.mk .ElementNode d a ks) parent ctx ls.links =
      R (Hypertext.renderChildren c (toDomList ks) (toCtx ctx) (decide (d = "li".toList)) ls))
    (hBad : ∀ parent ctx (ls : LinkSt), GenHypertext.bad c E hExt (.mk .ElementNode d a ks) parent ctx ls.links =
      R (badText c d (Hypertext.renderChildren c (toDomList ks) (toCtx ctx) (decide (d = "li".toList)) ls)))
    (hBL : ∀ parent ctx (ls : LinkSt), GenHypertext.bulletedList c E hExt (.mk .ElementNode d a ks) parent ctx ls.links =
      R (let r := bulleted c (toDomList ks) { toCtx ctx with width := ctx.width - 2 } ls
         if pLi parent then r else (Hypertext.block r.1, r.2)))
    (parent : Option Str) (ctx : GenHypertext.context) (ls : LinkSt) (h : d = "h3".toList) :
    GenHypertext.renderNode c E hExt (.mk .ElementNode d a ks) parent ctx ls.links =
      R (Hypertext.renderNode c (.elem d (toAttrs a) (toDomList ks)) (toCtx ctx) (pLi parent) ls) := by
  rw [GenHypertext.renderNode]
  have e1 : ∀ s : String, (d = s.toList) = ("h3" = s) := by intro s; rw [h, String.toList_inj]
  have e2 : ∀ s : String, (s.toList = d) = (s = "h3") := by intro s; rw [h, String.toList_inj]
  clear h
  type_side; gen_side; calls_side; model_side <;> rfl

set_option maxHeartbeats 400000 in
theorem node_h4 (c : Colors) (d : Str) (a : List Attribute) (ks : List Node)
    (hRC : ∀ parent ctx (ls : LinkSt), GenHypertext.renderChildren c E hExt (.mk .ElementNode d a ks) parent ctx ls.links =
      R (Hypertext.renderChildren c (toDomList ks) (toCtx ctx) (decide (d = "li".toList)) ls))
    (hBad : ∀ parent ctx (ls : LinkSt), GenHypertext.bad c E hExt (.mk .ElementNode d a ks) parent ctx ls.links =
      R (badText c d (Hypertext.renderChildren c (toDomList ks) (toCtx ctx) (decide (d = "li".toList)) ls)))
    (hBL : ∀ parent ctx (ls : LinkSt), GenHypertext.bulletedList c E hExt (.mk .ElementNode d a ks) parent ctx ls.links =
      R (let r := bulleted c (toDomList ks) { toCtx ctx with width := ctx.width - 2 } ls
         if pLi parent then r else (Hypertext.block r.1, r.2)))
    (parent : Option Str) (ctx : GenHypertext.context) (ls : LinkSt) (h : d = "h4".toList) :
    GenHypertext.renderNode c E hExt (.mk .ElementNode d a ks) parent ctx ls.links =
      R (Hypertext.renderNode c (.elem d (toAttrs a) (toDomList ks)) (toCtx ctx) (pLi parent) ls) := by
  rw [GenHypertext.renderNode]
  have e1 : ∀ s : String, (d = s.toList) = ("h4" = s) := by intro s; rw [h, String.toList_inj]
  have e2 : ∀ s : String, (s.toList = d) = (s = "h4") := by intro s; rw [h, String.toList_inj]
  clear h
  type_side; gen_side; calls_side; model_side <;> rfl

set_option maxHeartbeats 400000 in
theorem node_h5 (c : Colors) (d : Str) (a : List Attribute) (ks : List Node)
    (hRC : ∀ parent ctx (ls : LinkSt), GenHypertext.renderChildren c E hExt (.mk .ElementNode d a ks) parent ctx ls.links =
      R (Hypertext.renderChildren c (toDomList ks) (toCtx ctx) (decide (d = "li".toList)) ls))
    (hBad : ∀ parent ctx (ls : LinkSt), GenHypertext.bad c E hExt (.mk .ElementNode d a ks) parent ctx ls.links =
      R (badText c d (Hypertext.renderChildren c (toDomList ks) (toCtx ctx) (decide (d = "li".toList)) ls)))
    (hBL : ∀ parent ctx (ls : LinkSt), GenHypertext.bulletedList c E hExt (.mk .ElementNode d a ks) parent ctx ls.links =
      R (let r := bulleted c (toDomList ks) { toCtx ctx with width := ctx.width - 2 } ls
         if pLi parent then r else (Hypertext.block r.1, r.2)))
    (parent : Option Str) (ctx : GenHypertext.context) (ls : LinkSt) (h : d = "h5".toList) :
    GenHypertext.renderNode c E hExt (.mk .ElementNode d a ks) parent ctx ls.links =
      R (Hypertext.renderNode c (.elem d (toAttrs a) (toDomList ks)) (toCtx ctx) (pLi parent) ls) := by
  rw [GenHypertext.renderNode]
  have e1 : ∀ s : String, (d = s.toList) = ("h5" = s) := by intro s; rw [h, String.toList_inj]
  have e2 : ∀ s : String, (s.toList = d) = (s = "h5") := by intro s; rw [h, String.toList_inj]
  clear h
  type_side; gen_side; calls_side; model_side <;> rfl

set_option maxHeartbeats 400000 in
theorem node_h6 (c : Colors) (d : Str) (a : List Attribute) (ks : List Node)
    (hRC : ∀ parent ctx (ls : LinkSt), GenHypertext.renderChildren c E hExt (.mk .ElementNode d a ks) parent ctx ls.links =
      R (Hypertext.renderChildren c (toDomList ks) (toCtx ctx) (decide (d = "li".toList)) ls))
    (hBad : ∀ parent ctx (ls : LinkSt), GenHypertext.bad c E hExt (.mk .ElementNode d a ks) parent ctx ls.links =
      R (badText c d (Hypertext.renderChildren c (toDomList ks) (toCtx ctx) (decide (d = "li".toList)) ls)))
    (hBL : ∀ parent ctx (ls : LinkSt), GenHypertext.bulletedList c E hExt (.mk .ElementNode d a ks) parent ctx ls.links =
      R (let r := bulleted c (toDomList ks) { toCtx ctx with width := ctx.width - 2 } ls
         if pLi parent then r else (Hypertext.block r.1, r.2)))
    (parent : Option Str) (ctx : GenHypertext.context) (ls : LinkSt) (h : d = "h6".toList) :
    GenHypertext.renderNode c E hExt (.mk .ElementNode d a ks) parent ctx ls.links =
      R (Hypertext.renderNode c (.elem d (toAttrs a) (toDomList ks)) (toCtx ctx) (pLi parent) ls) := by
  rw [GenHypertext.renderNode]
  have e1 : ∀ s : String, (d = s.toList) = ("h6" = s) := by intro s; rw [h, String.toList_inj]
  have e2 : ∀ s : String, (s.toList = d) = (s = "h6") := by intro s; rw [h, String.toList_inj]
  clear h
  type_side; gen_side; calls_side; model_side <;> rfl

set_option maxHeartbeats 400000 in
theorem node_a (c : Colors) (d : Str) (a : List Attribute) (ks : List Node)
    (hRC : ∀ parent ctx (ls : LinkSt), GenHypertext.renderChildren c E hExt (.mk .ElementNode d a ks) parent ctx ls.links =
      R (Hypertext.renderChildren c (toDomList ks) (toCtx ctx) (decide (d = "li".toList)) ls))
    (hBad : ∀ parent ctx (ls : LinkSt), GenHypertext.bad c E hExt (.mk .ElementNode d a ks) parent ctx ls.links =
      R (badText c d (Hypertext.renderChildren c (toDomList ks) (toCtx ctx) (decide (d = "li".toList)) ls)))
    (hBL : ∀ parent ctx (ls : LinkSt), GenHypertext.bulletedList c E hExt (.mk .ElementNode d a ks) parent ctx ls.links =
      R (let r := bulleted c (toDomList ks) { toCtx ctx with width := ctx.width - 2 } ls
         if pLi parent then r else (Hypertext.block r.1, r.2)))
    (parent : Option Str) (ctx : GenHypertext.context) (ls : LinkSt) (h : d = "a".toList) :
    GenHypertext.renderNode c E hExt (.mk .ElementNode d a ks) parent ctx ls.links =
      R (Hypertext.renderNode c (.elem d (toAttrs a) (toDomList ks)) (toCtx ctx) (pLi parent) ls) := by
  rw [GenHypertext.renderNode]
  have e1 : ∀ s : String, (d = s.toList) = ("a" = s) := by intro s; rw [h, String.toList_inj]
  have e2 : ∀ s : String, (s.toList = d) = (s = "a") := by intro s; rw [h, String.toList_inj]
  clear h
  type_side; gen_side; calls_side; model_side
  generalize getAttribute "href".toList (toAttrs a) = link
  cases link <;> rfl


set_option maxHeartbeats 400000 in
theorem node_img (c : Colors) (d : Str) (a : List Attribute) (ks : List Node)
    (hRC : ∀ parent ctx (ls : LinkSt), GenHypertext.renderChildren c E hExt (.mk .ElementNode d a ks) parent ctx ls.links =
      R (Hypertext.renderChildren c (toDomList ks) (toCtx ctx) (decide (d = "li".toList)) ls))
    (hBad : ∀ parent ctx (ls : LinkSt), GenHypertext.bad c E hExt (.mk .ElementNode d a ks) parent ctx ls.links =
      R (badText c d (Hypertext.renderChildren c (toDomList ks) (toCtx ctx) (decide (d = "li".toList)) ls)))
    (hBL : ∀ parent ctx (ls : LinkSt), GenHypertext.bulletedList c E hExt (.mk .ElementNode d a ks) parent ctx ls.links =
      R (let r := bulleted c (toDomList ks) { toCtx ctx with width := ctx.width - 2 } ls
         if pLi parent then r else (Hypertext.block r.1, r.2)))
    (parent : Option Str) (ctx : GenHypertext.context) (ls : LinkSt) (h : d = "img".toList) :
    GenHypertext.renderNode c E hExt (.mk .ElementNode d a ks) parent ctx ls.links =
      R (Hypertext.renderNode c (.elem d (toAttrs a) (toDomList ks)) (toCtx ctx) (pLi parent) ls) := by
  rw [GenHypertext.renderNode]
  have e1 : ∀ s : String, (d = s.toList) = ("img" = s) := by intro s; rw [h, String.toList_inj]
  have e2 : ∀ s : String, (s.toList = d) = (s = "img") := by intro s; rw [h, String.toList_inj]
  clear h
  type_side; gen_side; calls_side; model_side
  generalize getAttribute "alt".toList (toAttrs a) = alt
  generalize getAttribute "src".toList (toAttrs a) = src
  cases alt <;> cases src <;> rfl


set_option maxHeartbeats 400000 in
theorem node_video (c : Colors) (d : Str) (a : List Attribute) (ks : List Node)
    (hRC : ∀ parent ctx (ls : LinkSt), GenHypertext.renderChildren c E hExt (.mk .ElementNode d a ks) parent ctx ls.links =
      R (Hypertext.renderChildren c (toDomList ks) (toCtx ctx) (decide (d = "li".toList)) ls))
    (hBad : ∀ parent ctx (ls : LinkSt), GenHypertext.bad c E hExt (.mk .ElementNode d a ks) parent ctx ls.links =
      R (badText c d (Hypertext.renderChildren c (toDomList ks) (toCtx ctx) (decide (d = "li".toList)) ls)))
    (hBL : ∀ parent ctx (ls : LinkSt), GenHypertext.bulletedList c E hExt (.mk .ElementNode d a ks) parent ctx ls.links =
      R (let r := bulleted c (toDomList ks) { toCtx ctx with width := ctx.width - 2 } ls
         if pLi parent then r else (Hypertext.block r.1, r.2)))
    (parent : Option Str) (ctx : GenHypertext.context) (ls : LinkSt) (h : d = "video".toList) :
    GenHypertext.renderNode c E hExt (.mk .ElementNode d a ks) parent ctx ls.links =
      R (Hypertext.renderNode c (.elem d (toAttrs a) (toDomList ks)) (toCtx ctx) (pLi parent) ls) := by
  rw [GenHypertext.renderNode]
  have e1 : ∀ s : String, (d = s.toList) = ("video" = s) := by intro s; rw [h, String.toList_inj]
  have e2 : ∀ s : String, (s.toList = d) = (s = "video") := by intro s; rw [h, String.toList_inj]
  clear h
  type_side; gen_side; calls_side; model_side
  generalize getAttribute "alt".toList (toAttrs a) = alt
  generalize getAttribute "src".toList (toAttrs a) = src
  cases alt <;> cases src <;> rfl


set_option maxHeartbeats 400000 in
theorem node_audio (c : Colors) (d : Str) (a : List Attribute) (ks : List Node)
    (hRC : ∀ parent ctx (ls : LinkSt), GenHypertext.renderChildren c E hExt (.mk .ElementNode d a ks) parent ctx ls.links =
      R (Hypertext.renderChildren c (toDomList ks) (toCtx ctx) (decide (d = "li".toList)) ls))
    (hBad : ∀ parent ctx (ls : LinkSt), GenHypertext.bad c E hExt (.mk .ElementNode d a ks) parent ctx ls.links =
      R (badText c d (Hypertext.renderChildren c (toDomList ks) (toCtx ctx) (decide (d = "li".toList)) ls)))
    (hBL : ∀ parent ctx (ls : LinkSt), GenHypertext.bulletedList c E hExt (.mk .ElementNode d a ks) parent ctx ls.links =
      R (let r := bulleted c (toDomList ks) { toCtx ctx with width := ctx.width - 2 } ls
         if pLi parent then r else (Hypertext.block r.1, r.2)))
    (parent : Option Str) (ctx : GenHypertext.context) (ls : LinkSt) (h : d = "audio".toList) :
    GenHypertext.renderNode c E hExt (.mk .ElementNode d a ks) parent ctx ls.links =
      R (Hypertext.renderNode c (.elem d (toAttrs a) (toDomList ks)) (toCtx ctx) (pLi parent) ls) := by
  rw [GenHypertext.renderNode]
  have e1 : ∀ s : String, (d = s.toList) = ("audio" = s) := by intro s; rw [h, String.toList_inj]
  have e2 : ∀ s : String, (s.toList = d) = (s = "audio") := by intro s; rw [h, String.toList_inj]
  clear h
  type_side; gen_side; calls_side; model_side
  generalize getAttribute "alt".toList (toAttrs a) = alt
  generalize getAttribute "src".toList (toAttrs a) = src
  cases alt <;> cases src <;> rfl


set_option maxHeartbeats 400000 in
theorem node_iframe (c : Colors) (d : Str) (a : List Attribute) (ks : List Node)
    (hRC : ∀ parent ctx (ls : LinkSt), GenHypertext.renderChildren c E hExt (.mk .ElementNode d a ks) parent ctx ls.links =
      R (Hypertext.renderChildren c (toDomList ks) (toCtx ctx) (decide (d = "li".toList)) ls))
    (hBad : ∀ parent ctx (ls : LinkSt), GenHypertext.bad c E hExt (.mk .ElementNode d a ks) parent ctx ls.links =
      R (badText c d (Hypertext.renderChildren c (toDomList ks) (toCtx ctx) (decide (d = "li".toList)) ls)))
    (hBL : ∀ parent ctx (ls : LinkSt), GenHypertext.bulletedList c E hExt (.mk .ElementNode d a ks) parent ctx ls.links =
      R (let r := bulleted c (toDomList ks) { toCtx ctx with width := ctx.width - 2 } ls
         if pLi parent then r else (Hypertext.block r.1, r.2)))
    (parent : Option Str) (ctx : GenHypertext.context) (ls : LinkSt) (h : d = "iframe".toList) :
    GenHypertext.renderNode c E hExt (.mk .ElementNode d a ks) parent ctx ls.links =
      R (Hypertext.renderNode c (.elem d (toAttrs a) (toDomList ks)) (toCtx ctx) (pLi parent) ls) := by
  rw [GenHypertext.renderNode]
  have e1 : ∀ s : String, (d = s.toList) = ("iframe" = s) := by intro s; rw [h, String.toList_inj]
  have e2 : ∀ s : String, (s.toList = d) = (s = "iframe") := by intro s; rw [h, String.toList_inj]
  clear h
  type_side; gen_side; calls_side; model_side
  generalize getAttribute "title".toList (toAttrs a) = alt
  generalize getAttribute "src".toList (toAttrs a) = src
  cases alt <;> cases src <;> rfl


set_option maxHeartbeats 400000 in
theorem node_hr (c : Colors) (d : Str) (a : List Attribute) (ks : List Node)
    (hRC : ∀ parent ctx (ls : LinkSt), GenHypertext.renderChildren c E hExt (.mk .ElementNode d a ks) parent ctx ls.links =
      R (Hypertext.renderChildren c (toDomList ks) (toCtx ctx) (decide (d = "li".toList)) ls))
    (hBad : ∀ parent ctx (ls : LinkSt), GenHypertext.bad c E hExt (.mk .ElementNode d a ks) parent ctx ls.links =
      R (badText c d (Hypertext.renderChildren c (toDomList ks) (toCtx ctx) (decide (d = "li".toList)) ls)))
    (hBL : ∀ parent ctx (ls : LinkSt), GenHypertext.bulletedList c E hExt (.mk .ElementNode d a ks) parent ctx ls.links =
      R (let r := bulleted c (toDomList ks) { toCtx ctx with width := ctx.width - 2 } ls
         if pLi parent then r else (Hypertext.block r.1, r.2)))
    (parent : Option Str) (ctx : GenHypertext.context) (ls : LinkSt) (h : d = "hr".toList) :
    GenHypertext.renderNode c E hExt (.mk .ElementNode d a ks) parent ctx ls.links =
      R (Hypertext.renderNode c (.elem d (toAttrs a) (toDomList ks)) (toCtx ctx) (pLi parent) ls) := by
  rw [GenHypertext.renderNode]
  have e1 : ∀ s : String, (d = s.toList) = ("hr" = s) := by intro s; rw [h, String.toList_inj]
  have e2 : ∀ s : String, (s.toList = d) = (s = "hr") := by intro s; rw [h, String.toList_inj]
  clear h
  type_side; gen_side; calls_side; model_side
  by_cases hw : ctx.width < 0
  · simp [hw, hrText]
  · have hw' : 0 ≤ ctx.width := by omega
    have e : "⎯".toList = ['⎯'] := rfl
    simp [hw, hrText, goRepeat, e, Gen16.repeat_nonneg _ _ hw', Gen14.bind_ok, Except.map]


/-- The tag literals of the `switch node.Data` (every other name is shown as a bad tag). -/
def knownTags : List String := ["a", "s", "del", "code", "i", "em", "b", "strong", "u", "ins", "mark", "span", "li", "br", "p", "div", "pre", "blockquote", "ul", "h1", "h2", "h3", "h4", "h5", "h6", "hr", "img", "video", "audio", "iframe"]

set_option maxHeartbeats 400000 in
theorem node_default (c : Colors) (d : Str) (a : List Attribute) (ks : List Node)
    (hRC : ∀ parent ctx (ls : LinkSt), GenHypertext.renderChildren c E hExt (.mk .ElementNode d a ks) parent ctx ls.links =
      R (Hypertext.renderChildren c (toDomList ks) (toCtx ctx) (decide (d = "li".toList)) ls))
    (hBad : ∀ parent ctx (ls : LinkSt), GenHypertext.bad c E hExt (.mk .ElementNode d a ks) parent ctx ls.links =
      R (badText c d (Hypertext.renderChildren c (toDomList ks) (toCtx ctx) (decide (d = "li".toList)) ls)))
    (hBL : ∀ parent ctx (ls : LinkSt), GenHypertext.bulletedList c E hExt (.mk .ElementNode d a ks) parent ctx ls.links =
      R (let r := bulleted c (toDomList ks) { toCtx ctx with width := ctx.width - 2 } ls
         if pLi parent then r else (Hypertext.block r.1, r.2)))
    (parent : Option Str) (ctx : GenHypertext.context) (ls : LinkSt) (hne : ∀ s : String, s ∈ knownTags → d ≠ s.toList) :
    GenHypertext.renderNode c E hExt (.mk .ElementNode d a ks) parent ctx ls.links =
      R (Hypertext.renderNode c (.elem d (toAttrs a) (toDomList ks)) (toCtx ctx) (pLi parent) ls) := by
  rw [GenHypertext.renderNode]
  have p0 : (d = "a".toList) = False := eq_false (hne "a" (by decide))
  have q0 : ("a".toList = d) = False := eq_false (fun e => hne "a" (by decide) e.symm)
  have p1 : (d = "s".toList) = False := eq_false (hne "s" (by decide))
  have q1 : ("s".toList = d) = False := eq_false (fun e => hne "s" (by decide) e.symm)
  have p2 : (d = "del".toList) = False := eq_false (hne "del" (by decide))
  have q2 : ("del".toList = d) = False := eq_false (fun e => hne "del" (by decide) e.symm)
  have p3 : (d = "code".toList) = False := eq_false (hne "code" (by decide))
  have q3 : ("code".toList = d) = False := eq_false (fun e => hne "code" (by decide) e.symm)
  have p4 : (d = "i".toList) = False := eq_false (hne "i" (by decide))
  have q4 : ("i".toList = d) = False := eq_false (fun e => hne "i" (by decide) e.symm)
  have p5 : (d = "em".toList) = False := eq_false (hne "em" (by decide))
  have q5 : ("em".toList = d) = False := eq_false (fun e => hne "em" (by decide) e.symm)
  have p6 : (d = "b".toList) = False := eq_false (hne "b" (by decide))
  have q6 : ("b".toList = d) = False := eq_false (fun e => hne "b" (by decide) e.symm)
  have p7 : (d = "strong".toList) = False := eq_false (hne "strong" (by decide))
  have q7 : ("strong".toList = d) = False := eq_false (fun e => hne "strong" (by decide) e.symm)
  have p8 : (d = "u".toList) = False := eq_false (hne "u" (by decide))
  have q8 : ("u".toList = d) = False := eq_false (fun e => hne "u" (by decide) e.symm)
  have p9 : (d = "ins".toList) = False := eq_false (hne "ins" (by decide))
  have q9 : ("ins".toList = d) = False := eq_false (fun e => hne "ins" (by decide) e.symm)
  have p10 : (d = "mark".toList) = False := eq_false (hne "mark" (by decide))
  have q10 : ("mark".toList = d) = False := eq_false (fun e => hne "mark" (by decide) e.symm)
  have p11 : (d = "span".toList) = False := eq_false (hne "span" (by decide))
  have q11 : ("span".toList = d) = False := eq_false (fun e => hne "span" (by decide) e.symm)
  have p12 : (d = "li".toList) = False := eq_false (hne "li" (by decide))
  have q12 : ("li".toList = d) = False := eq_false (fun e => hne "li" (by decide) e.symm)
  have p13 : (d = "br".toList) = False := eq_false (hne "br" (by decide))
  have q13 : ("br".toList = d) = False := eq_false (fun e => hne "br" (by decide) e.symm)
  have p14 : (d = "p".toList) = False := eq_false (hne "p" (by decide))
  have q14 : ("p".toList = d) = False := eq_false (fun e => hne "p" (by decide) e.symm)
  have p15 : (d = "div".toList) = False := eq_false (hne "div" (by decide))
  have q15 : ("div".toList = d) = False := eq_false (fun e => hne "div" (by decide) e.symm)
  have p16 : (d = "pre".toList) = False := eq_false (hne "pre" (by decide))
  have q16 : ("pre".toList = d) = False := eq_false (fun e => hne "pre" (by decide) e.symm)
  have p17 : (d = "blockquote".toList) = False := eq_false (hne "blockquote" (by decide))
  have q17 : ("blockquote".toList = d) = False := eq_false (fun e => hne "blockquote" (by decide) e.symm)
  have p18 : (d = "ul".toList) = False := eq_false (hne "ul" (by decide))
  have q18 : ("ul".toList = d) = False := eq_false (fun e => hne "ul" (by decide) e.symm)
  have p19 : (d = "h1".toList) = False := eq_false (hne "h1" (by decide))
  have q19 : ("h1".toList = d) = False := eq_false (fun e => hne "h1" (by decide) e.symm)
  have p20 : (d = "h2".toList) = False := eq_false (hne "h2" (by decide))
  have q20 : ("h2".toList = d) = False := eq_false (fun e => hne "h2" (by decide) e.symm)
  have p21 : (d = "h3".toList) = False := eq_false (hne "h3" (by decide))
  have q21 : ("h3".toList = d) = False := eq_false (fun e => hne "h3" (by decide) e.symm)
  have p22 : (d = "h4".toList) = False := eq_false (hne "h4" (by decide))
  have q22 : ("h4".toList = d) = False := eq_false (fun e => hne "h4" (by decide) e.symm)
  have p23 : (d = "h5".toList) = False := eq_false (hne "h5" (by decide))
  have q23 : ("h5".toList = d) = False := eq_false (fun e => hne "h5" (by decide) e.symm)
  have p24 : (d = "h6".toList) = False := eq_false (hne "h6" (by decide))
  have q24 : ("h6".toList = d) = False := eq_false (fun e => hne "h6" (by decide) e.symm)
  have p25 : (d = "hr".toList) = False := eq_false (hne "hr" (by decide))
  have q25 : ("hr".toList = d) = False := eq_false (fun e => hne "hr" (by decide) e.symm)
  have p26 : (d = "img".toList) = False := eq_false (hne "img" (by decide))
  have q26 : ("img".toList = d) = False := eq_false (fun e => hne "img" (by decide) e.symm)
  have p27 : (d = "video".toList) = False := eq_false (hne "video" (by decide))
  have q27 : ("video".toList = d) = False := eq_false (fun e => hne "video" (by decide) e.symm)
  have p28 : (d = "audio".toList) = False := eq_false (hne "audio" (by decide))
  have q28 : ("audio".toList = d) = False := eq_false (fun e => hne "audio" (by decide) e.symm)
  have p29 : (d = "iframe".toList) = False := eq_false (hne "iframe" (by decide))
  have q29 : ("iframe".toList = d) = False := eq_false (fun e => hne "iframe" (by decide) e.symm)
  clear hne
  type_side; gen_side; calls_side; model_side
  rfl

theorem node_elem (c : Colors) (d : Str) (a : List Attribute) (ks : List Node)
    (hRC : ∀ parent ctx (ls : LinkSt), GenHypertext.renderChildren c E hExt (.mk .ElementNode d a ks) parent ctx ls.links =
      R (Hypertext.renderChildren c (toDomList ks) (toCtx ctx) (decide (d = "li".toList)) ls))
    (hBad : ∀ parent ctx (ls : LinkSt), GenHypertext.bad c E hExt (.mk .ElementNode d a ks) parent ctx ls.links =
      R (badText c d (Hypertext.renderChildren c (toDomList ks) (toCtx ctx) (decide (d = "li".toList)) ls)))
    (hBL : ∀ parent ctx (ls : LinkSt), GenHypertext.bulletedList c E hExt (.mk .ElementNode d a ks) parent ctx ls.links =
      R (let r := bulleted c (toDomList ks) { toCtx ctx with width := ctx.width - 2 } ls
         if pLi parent then r else (Hypertext.block r.1, r.2)))
    (parent : Option Str) (ctx : GenHypertext.context) (ls : LinkSt) :
    GenHypertext.renderNode c E hExt (.mk .ElementNode d a ks) parent ctx ls.links =
      R (Hypertext.renderNode c (.elem d (toAttrs a) (toDomList ks)) (toCtx ctx) (pLi parent) ls) := by
  by_cases h_a : d = "a".toList
  · exact node_a c d a ks hRC hBad hBL parent ctx ls h_a
  by_cases h_s : d = "s".toList
  · exact node_s c d a ks hRC hBad hBL parent ctx ls h_s
  by_cases h_del : d = "del".toList
  · exact node_del c d a ks hRC hBad hBL parent ctx ls h_del
  by_cases h_code : d = "code".toList
  · exact node_code c d a ks hRC hBad hBL parent ctx ls h_code
  by_cases h_i : d = "i".toList
  · exact node_i c d a ks hRC hBad hBL parent ctx ls h_i
  by_cases h_em : d = "em".toList
  · exact node_em c d a ks hRC hBad hBL parent ctx ls h_em
  by_cases h_b : d = "b".toList
  · exact node_b c d a ks hRC hBad hBL parent ctx ls h_b
  by_cases h_strong : d = "strong".toList
  · exact node_strong c d a ks hRC hBad hBL parent ctx ls h_strong
  by_cases h_u : d = "u".toList
  · exact node_u c d a ks hRC hBad hBL parent ctx ls h_u
  by_cases h_ins : d = "ins".toList
  · exact node_ins c d a ks hRC hBad hBL parent ctx ls h_ins
  by_cases h_mark : d = "mark".toList
  · exact node_mark c d a ks hRC hBad hBL parent ctx ls h_mark
  by_cases h_span : d = "span".toList
  · exact node_span c d a ks hRC hBad hBL parent ctx ls h_span
  by_cases h_li : d = "li".toList
  · exact node_li c d a ks hRC hBad hBL parent ctx ls h_li
  by_cases h_br : d = "br".toList
  · exact node_br c d a ks hRC hBad hBL parent ctx ls h_br
  by_cases h_p : d = "p".toList
  · exact node_p c d a ks hRC hBad hBL parent ctx ls h_p
  by_cases h_div : d = "div".toList
  · exact node_div c d a ks hRC hBad hBL parent ctx ls h_div
  by_cases h_pre : d = "pre".toList
  · exact node_pre c d a ks hRC hBad hBL parent ctx ls h_pre
  by_cases h_blockquote : d = "blockquote".toList
  · exact node_blockquote c d a ks hRC hBad hBL parent ctx ls h_blockquote
  by_cases h_ul : d = "ul".toList
  · exact node_ul c d a ks hRC hBad hBL parent ctx ls h_ul
  by_cases h_h1 : d = "h1".toList
  · exact node_h1 c d a ks hRC hBad hBL parent ctx ls h_h1
  by_cases h_h2 : d = "h2".toList
  · exact node_h2 c d a ks hRC hBad hBL parent ctx ls h_h2
  by_cases h_h3 : d = "h3".toList
  · exact node_h3 c d a ks hRC hBad hBL parent ctx ls h_h3
  by_cases h_h4 : d = "h4".toList
  · exact node_h4 c d a ks hRC hBad hBL parent ctx ls h_h4
  by_cases h_h5 : d = "h5".toList
  · exact node_h5 c d a ks hRC hBad hBL parent ctx ls h_h5
  by_cases h_h6 : d = "h6".toList
  · exact node_h6 c d a ks hRC hBad hBL parent ctx ls h_h6
  by_cases h_hr : d = "hr".toList
  · exact node_hr c d a ks hRC hBad hBL parent ctx ls h_hr
  by_cases h_img : d = "img".toList
  · exact node_img c d a ks hRC hBad hBL parent ctx ls h_img
  by_cases h_video : d = "video".toList
  · exact node_video c d a ks hRC hBad hBL parent ctx ls h_video
  by_cases h_audio : d = "audio".toList
  · exact node_audio c d a ks hRC hBad hBL parent ctx ls h_audio
  by_cases h_iframe : d = "iframe".toList
  · exact node_iframe c d a ks hRC hBad hBL parent ctx ls h_iframe
  apply node_default c d a ks hRC hBad hBL parent ctx ls
  intro s hs
  simp only [knownTags, List.mem_cons, List.not_mem_nil, or_false] at hs
  rcases hs with rfl | rfl | rfl | rfl | rfl | rfl | rfl | rfl | rfl | rfl | rfl | rfl | rfl | rfl | rfl | rfl | rfl | rfl | rfl | rfl | rfl | rfl | rfl | rfl | rfl | rfl | rfl | rfl | rfl | rfl <;> assumption

/-! ### text nodes and the rest -/

theorem node_text (c : Colors) (d : Str) (a : List Attribute) (ks : List Node)
    (parent : Option Str) (ctx : GenHypertext.context) (ls : LinkSt) :
    GenHypertext.renderNode c E hExt (.mk .TextNode d a ks) parent ctx ls.links =
      R (Hypertext.renderNode c (.text d) (toCtx ctx) (pLi parent) ls) := by
  rw [GenHypertext.renderNode]
  type_side
  simp only [Node.data_mk, replaceAll_ws, Hypertext.renderNode, toCtx, R]
  cases ctx.preserveWhitespace <;> rfl

theorem node_other (c : Colors) (t : NodeType) (d : Str) (a : List Attribute) (ks : List Node)
    (ht : t ≠ .TextNode) (he : t ≠ .ElementNode)
    (parent : Option Str) (ctx : GenHypertext.context) (ls : LinkSt) :
    GenHypertext.renderNode c E hExt (.mk t d a ks) parent ctx ls.links =
      R (Hypertext.renderNode c .other (toCtx ctx) (pLi parent) ls) := by
  rw [GenHypertext.renderNode]
  simp only [Node.type_mk, ht, he, decide_false, decide_true, Bool.false_eq_true, if_false, if_true, ne_eq, not_false_eq_true,
    Hypertext.renderNode, R]
  rfl

/-! ### the tree -/

/-- An `li` is rendered the same whatever its parent is (only `ul` looks at it). -/
theorem li_parent (c : Colors) (attrs : List (Str × Str)) (kids : List Dom.Node) (ctx : Ctx) (p q : Bool) (ls : LinkSt) :
    Hypertext.renderNode c (.elem "li".toList attrs kids) ctx p ls = Hypertext.renderNode c (.elem "li".toList attrs kids) ctx q ls := by
  model_side

mutual
theorem renderNode_eq (c : Colors) : (n : Node) → ∀ (parent : Option Str) (ctx : GenHypertext.context) (ls : LinkSt),
    GenHypertext.renderNode c E hExt n parent ctx ls.links =
      R (Hypertext.renderNode c (toDom n) (toCtx ctx) (pLi parent) ls)
  | .mk t d a ks => by
    intro parent ctx ls
    have ihK := kids_eq c ks
    have ihB := bkids_eq c ks
    cases t with
    | TextNode => rw [toDom_text]; exact node_text c d a ks parent ctx ls
    | ElementNode =>
      rw [toDom_elem]
      exact node_elem c d a ks (renderChildren_of c _ d a ks ihK) (bad_of c _ d a ks ihK) (bulletedList_of c _ d a ks ihB)
        parent ctx ls
    | ErrorNode => exact node_other c _ d a ks (by decide) (by decide) parent ctx ls
    | DocumentNode => exact node_other c _ d a ks (by decide) (by decide) parent ctx ls
    | CommentNode => exact node_other c _ d a ks (by decide) (by decide) parent ctx ls
    | DoctypeNode => exact node_other c _ d a ks (by decide) (by decide) parent ctx ls
    | RawNode => exact node_other c _ d a ks (by decide) (by decide) parent ctx ls
theorem kids_eq (c : Colors) : (ks : List Node) → ∀ (parent : Option Str) (ctx : GenHypertext.context) (ls : LinkSt) (acc : Str),
    GenHypertext.renderChildren_loop1 c E hExt ks parent ctx ls.links acc =
      RL (renderKids c (toDomList ks) (toCtx ctx) (pLi parent) ls acc)
  | [] => by
    intro parent ctx ls acc
    rw [GenHypertext.renderChildren_loop1]; simp only [toDomList, renderKids, RL]; rfl
  | k :: ks => by
    intro parent ctx ls acc
    rw [GenHypertext.renderChildren_loop1]
    simp only [renderNode_eq c k, R, Gen14.bind_ok, mergeText_eq, kids_eq c ks, toDomList, renderKids]
theorem bkids_eq (c : Colors) : (ks : List Node) → ∀ (parent : Option Str) (ctx : GenHypertext.context) (ls : LinkSt) (acc : Str),
    GenHypertext.bulletedList_loop1 c E hExt ks parent ctx ls.links acc =
      RL (bulletedKids c (toDomList ks) (toCtx ctx) ls acc)
  | [] => by
    intro parent ctx ls acc
    rw [GenHypertext.bulletedList_loop1]; simp only [toDomList, bulletedKids, RL]; rfl
  | .mk t d a gk :: ks => by
    intro parent ctx ls acc
    have ihN := renderNode_eq c (.mk t d a gk)
    have ihK := kids_eq c gk
    have ihR := bkids_eq c ks
    rw [GenHypertext.bulletedList_loop1]
    cases t with
    | ElementNode =>
      by_cases hli : d = "li".toList
      · subst hli
        have e : ("li".toList = Go.str "li") = True := eq_true rfl
        simp only [Node.type_mk, Node.data_mk, ne_eq, not_true_eq_false, decide_false, decide_true, Bool.false_eq_true, if_false,
          e, ihN, R, Gen14.bind_ok, situationalWrap_eq, Gen14.bullet_eq, ihR, toDomList, toDom_elem, bulletedKids, if_true,
          str_nl, str_empty, RL, li_parent c _ _ _ (pLi parent) false]
        try rfl
      · have e : (d = Go.str "li") = False := eq_false hli
        simp only [Node.type_mk, Node.data_mk, ne_eq, not_true_eq_false, not_false_eq_true, decide_false, decide_true,
          Bool.false_eq_true, if_false, if_true,
          e, bad_of c _ d a gk ihK, R, Gen14.bind_ok, situationalWrap_eq, Gen14.bullet_eq, ihR, toDomList, toDom_elem, bulletedKids,
          hli, str_nl, str_empty, RL, badText]
        try rfl
    | TextNode =>
      simp only [Node.type_mk, ne_eq, reduceCtorEq, not_false_eq_true, decide_true, if_true, ihR, Gen14.bind_ok, toDomList,
        toDom_text, bulletedKids, RL]
      try rfl
    | ErrorNode | DocumentNode | CommentNode | DoctypeNode | RawNode =>
      simp only [Node.type_mk, ne_eq, reduceCtorEq, not_false_eq_true, decide_true, if_true, ihR, Gen14.bind_ok, toDomList,
        toDom, bulletedKids, RL]
      try rfl
end

/-! ### the document -/

def topStep (c : Colors) (ctx : GenHypertext.context) (t : LinkSt × Str) (n : Node) : LinkSt × Str :=
  ((Hypertext.renderNode c (toDom n) (toCtx ctx) false t.1).2,
   Hypertext.mergeText t.2 (Hypertext.renderNode c (toDom n) (toCtx ctx) false t.1).1)

theorem renderKids_fold (c : Colors) (ctx : GenHypertext.context) : ∀ (ns : List Node) (ls : LinkSt) (acc : Str),
    renderKids c (toDomList ns) (toCtx ctx) false ls acc =
      ((ns.foldl (topStep c ctx) (ls, acc)).2, (ns.foldl (topStep c ctx) (ls, acc)).1)
  | [], ls, acc => by simp only [toDomList, renderKids, List.foldl_nil]
  | n :: ns, ls, acc => by
    simp only [toDomList, renderKids, List.foldl_cons]
    exact renderKids_fold c ctx ns _ _

theorem renderWithLinks_eq (c : Colors) (nodes : List Node) (w : Int) :
    GenHypertext.renderWithLinks c E hExt nodes w = .ok (Hypertext.renderWithLinks c (toDomList nodes) w) := by
  unfold GenHypertext.renderWithLinks
  simp only []
  have hp : pLi none = false := rfl
  have key := Gen15P.forIn_fold' (fun t : LinkSt × Str => (t.1.links, t.2))
    (fun current __s => do
            let r1_ ← GenHypertext.renderNode c E hExt current none { preserveWhitespace := false, width := w } __s.fst
            let __do_lift ← GenHypertext.mergeText c E hExt __s.snd r1_.fst
            pure (ForInStep.yield (r1_.snd, __do_lift)))
    (topStep c ⟨false, w⟩) nodes
    (by
      intro n _ t
      have h := renderNode_eq c n none ⟨false, w⟩ t.1
      rw [hp] at h
      simp only [h, R, Gen14.bind_ok, mergeText_eq, topStep]
      rfl)
    ({}, []) ([], Go.str "") rfl
  rw [key]
  have hk := renderKids_fold c ⟨false, w⟩ nodes {} []
  simp only [toCtx] at hk
  simp only [Gen14.bind_ok, Gen13.wrap_eq, trim_spnl, Hypertext.renderWithLinks, Hypertext.renderFull, hk]
  rfl

def toGenH (m : Markup.M (List Node)) : GenHypertext.Markup := ⟨m.tree, m.cached, m.cachedWidth⟩

/-- The pure renderer of a forest of Go nodes: the model's on what the model sees of it. -/
def htmlR' (c : Colors) (nodes : List Node) (w : Int) : Str := Markup.htmlR c (toDomList nodes) w

theorem render_eq (c : Colors) (m : Markup.M (List Node)) (w : Int) :
    GenHypertext.Render c E hExt (toGenH m) w =
      .ok ((Markup.render (htmlR' c) m w).1, toGenH (Markup.render (htmlR' c) m w).2) := by
  simp only [GenHypertext.Render, renderWithLinks_eq, Gen14.bind_ok, toGenH, Markup.render, htmlR', Markup.htmlR]
  by_cases h : m.cachedWidth = w
  · simp [h]; rfl
  · simp [h]; rfl


mutual
theorem toDom_ofDom : (n : Dom.Node) → toDom (ofDom n) = n
  | .text d => by simp [ofDom, toDom]
  | .other => by simp [ofDom, toDom]
  | .elem tag attrs kids => by
    simp only [ofDom, toDom, toDomList_ofDomList kids, List.map_map]
    congr 1
    induction attrs with
    | nil => rfl
    | cons x xs ih => simp [ih]
theorem toDomList_ofDomList : (f : List Dom.Node) → toDomList (ofDomList f) = f
  | [] => by simp [ofDomList, toDomList]
  | n :: ns => by simp [ofDomList, toDomList, toDom_ofDom n, toDomList_ofDomList ns]
end

end Gen15hP
