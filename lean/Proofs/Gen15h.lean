import Model
import Model.GoStrings
import Model.GoHtml
import Generated.GoHypertext
import Props.Gen13
import Props.Gen14
import Proofs.Gen15

/-
  Helper lemmas for Props/Gen15h.lean.
-/

set_option linter.unusedSimpArgs false

namespace Gen15hP
open Str Ansi Hypertext Go.Html

/-! ### what the three regular expressions of hypertext.go answer, in the model's terms -/

/-- `(?s)^(.*?)([ \n]*)$`: the text without its trailing blanks and newlines, and those. -/
def trimRightMatch (s : Str) : List Str :=
  [s, trimRight isSpNl s, s.drop (trimRight isSpNl s).length]

/-- `(?s)^([ \n]*)(.*)$`: the leading blanks and newlines, and the rest. -/
def trimLeftMatch (s : Str) : List Str :=
  [s, s.takeWhile isSpNl, s.dropWhile isSpNl]

/-- `[ \t\n\r]+`: the text cut into its maximal runs of the four characters and what lies
    between them. -/
def wsPieces : Str → List Go.Piece
  | [] => []
  | ch :: cs =>
    if isWs4 ch then
      match wsPieces cs with
      | ⟨true, t⟩ :: ps => ⟨true, ch :: t⟩ :: ps
      | ps => ⟨true, [ch]⟩ :: ps
    else
      match wsPieces cs with
      | ⟨false, t⟩ :: ps => ⟨false, ch :: t⟩ :: ps
      | ps => ⟨false, [ch]⟩ :: ps

def hExt : GenHypertext.Ext := ⟨trimRightMatch, trimLeftMatch, wsPieces⟩


def toCtx (x : GenHypertext.context) : Ctx := ⟨x.preserveWhitespace, x.width⟩

def toAttrs (a : List Attribute) : List (Str × Str) := a.map fun x => (x.Key, x.Val)

theorem str_spnl : Go.str " \n" = [' ', '\n'] := rfl
theorem str_nl : Go.str "\n" = ['\n'] := rfl
theorem str_sp : Go.str " " = [' '] := rfl
theorem str_nlnl : Go.str "\n\n" = ['\n', '\n'] := rfl
theorem str_empty : Go.str "" = [] := rfl

theorem trim_spnl (s : Str) : Go.Strings.trim s (Go.str " \n") = trim isSpNl s := by
  have : (fun ch => (Go.str " \n").contains ch) = isSpNl := by
    funext ch; simp [str_spnl, isSpNl]
  simp only [Go.Strings.trim, this]

theorem index1 {α : Type} (a b d : α) : Go.index [a, b, d] 1 = .ok b := rfl
theorem index2 {α : Type} (a b d : α) : Go.index [a, b, d] 2 = .ok d := rfl

theorem take_len_sub (s : Str) (p : Char → Bool) :
    s.take (s.length - (s.dropWhile p).length) = s.takeWhile p := by
  have h := List.takeWhile_append_dropWhile (p := p) (l := s)
  have hl : s.length - (s.dropWhile p).length = (s.takeWhile p).length := by
    have := congrArg List.length h
    rw [List.length_append] at this
    omega
  rw [hl]
  have h2 : (s.takeWhile p ++ s.dropWhile p).take (s.takeWhile p).length = s.takeWhile p := List.take_left' rfl
  rw [h] at h2
  exact h2

theorem mergeText_eq (c : Colors) (l r : Str) :
    GenHypertext.mergeText c Gen13.goExpand hExt l r = .ok (Hypertext.mergeText l r) := by
  have e1 : hExt.re1 l = trimRightMatch l := rfl
  have e2 : hExt.re2 r = trimLeftMatch r := rfl
  simp only [GenHypertext.mergeText, e1, e2, trimRightMatch, trimLeftMatch, index1, index2, Gen14.bind_ok,
    Hypertext.mergeText, trimLeft, take_len_sub, str_empty, str_sp, str_nl, str_nlnl, Go.Strings.countChar,
    countNL]
  have hch : Char.ofNat 10 = '\n' := rfl
  rw [hch]
  generalize (List.drop (trimRight isSpNl l).length l ++ List.takeWhile isSpNl r) = ws
  cases ws with
  | nil => rfl
  | cons a ws =>
    have hne' : (a :: ws).isEmpty = false := rfl
    simp only [hne', reduceCtorEq, decide_false, Bool.false_eq_true, if_false]
    have h3 : List.count '\n' (a :: ws) = 0 ∨ List.count '\n' (a :: ws) = 1 ∨ 2 ≤ List.count '\n' (a :: ws) := by omega
    rcases h3 with h | h | h
    · simp [h, pure, Except.pure]
    · simp [h, pure, Except.pure]
    · have h0 : ¬ ((List.count '\n' (a :: ws) : Int) = 0) := by omega
      have h1 : ¬ ((List.count '\n' (a :: ws) : Int) = 1) := by omega
      have h0' : ¬ (List.count '\n' (a :: ws) = 0) := by omega
      have h1' : ¬ (List.count '\n' (a :: ws) = 1) := by omega
      simp only [h0, h1, h0', h1', decide_false, Bool.false_eq_true, if_false]
      simp [pure, Except.pure]

theorem block_eq (c : Colors) (t : Str) :
    GenHypertext.block c Gen13.goExpand hExt t = .ok (Hypertext.block t) := by
  simp only [GenHypertext.block, trim_spnl, str_nlnl, Hypertext.block]
  rfl


theorem getAttribute_cons (name k v : Str) (rest : List (Str × Str)) :
    Hypertext.getAttribute name ((k, v) :: rest) = if k = name then Ansi.scrub v else Hypertext.getAttribute name rest := by
  unfold Hypertext.getAttribute
  by_cases h : k = name <;> simp [h]

theorem getAttribute_eq (c : Colors) (name : Str) (attrs : List Attribute) :
    GenHypertext.getAttribute c Gen13.goExpand hExt name attrs = .ok (Hypertext.getAttribute name (toAttrs attrs)) := by
  unfold GenHypertext.getAttribute
  induction attrs with
  | nil => rfl
  | cons a as ih =>
    have e : toAttrs (a :: as) = (a.Key, a.Val) :: toAttrs as := rfl
    rw [e, getAttribute_cons]
    simp only [List.forIn_cons]
    by_cases h : a.Key = name
    · simp only [h, decide_true, if_true]; rfl
    · simp only [h, decide_false, Bool.false_eq_true, if_false, pure_bind]
      exact ih

theorem situationalWrap_eq (c : Colors) (t : Str) (ctx : GenHypertext.context) :
    GenHypertext.situationalWrap c Gen13.goExpand hExt t ctx = .ok (Hypertext.situationalWrap t (toCtx ctx)) := by
  simp only [GenHypertext.situationalWrap, Hypertext.situationalWrap, toCtx, Gen13.wrap_eq, Gen13.dumbWrap_eq,
    Gen14.bind_ok]
  by_cases h1 : ctx.width < 1
  · simp [h1]; rfl
  · obtain ⟨pw, w⟩ := ctx
    cases pw <;> simp [h1] <;> rfl

/-! ### the whitespace pattern -/

def repl (ps : List Go.Piece) : Str := Go.Regexp.replaceAllString ps [' ']

theorem repl_cons (p : Go.Piece) (ps : List Go.Piece) :
    repl (p :: ps) = (if p.hit then [' '] else p.text) ++ repl ps := by
  simp [repl, Go.Regexp.replaceAllString]

/-- What is left to do after a whitespace character was seen. -/
def afterRun (ps : List Go.Piece) : Str :=
  match ps with
  | ⟨true, _⟩ :: rest => repl rest
  | _ => repl ps

theorem wsPieces_collapse : ∀ (s : Str),
    collapseWsAux false s = repl (wsPieces s) ∧ collapseWsAux true s = afterRun (wsPieces s)
  | [] => ⟨rfl, rfl⟩
  | ch :: cs => by
    obtain ⟨ihF, ihT⟩ := wsPieces_collapse cs
    by_cases hw : isWs4 ch = true
    · simp only [collapseWsAux, wsPieces, hw, if_true, Bool.false_eq_true, if_false]
      rw [ihT]
      cases hp : wsPieces cs with
      | nil => simp [afterRun, repl_cons, repl, Go.Regexp.replaceAllString]
      | cons p ps =>
        obtain ⟨hit, t⟩ := p
        cases hit <;> simp [afterRun, repl_cons]
    · have hw' : isWs4 ch = false := by simpa using hw
      simp only [collapseWsAux, wsPieces, hw', Bool.false_eq_true, if_false]
      rw [ihF]
      cases hp : wsPieces cs with
      | nil => simp [afterRun, repl_cons, repl, Go.Regexp.replaceAllString]
      | cons p ps =>
        obtain ⟨hit, t⟩ := p
        cases hit <;> simp [afterRun, repl_cons]

theorem replaceAll_ws (s : Str) :
    Go.Regexp.replaceAllString (hExt.re3 s) (Go.str " ") = collapseWs s :=
  ((wsPieces_collapse s).1).symm

/-- The pieces `wsPieces` cuts a text into are the text. -/
theorem wsPieces_cover : ∀ (s : Str), ((wsPieces s).map (·.text)).flatten = s
  | [] => rfl
  | ch :: cs => by
    have ih := wsPieces_cover cs
    unfold wsPieces
    cases hp : wsPieces cs with
    | nil =>
      rw [hp] at ih
      have : cs = [] := by simpa using ih.symm
      subst this
      by_cases hw : isWs4 ch = true <;> simp [hw]
    | cons p ps =>
      rw [hp] at ih
      obtain ⟨hit, t⟩ := p
      by_cases hw : isWs4 ch = true <;> cases hit <;> simp [hw] <;> simpa using ih

end Gen15hP
