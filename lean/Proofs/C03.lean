import Model

/-
  Helper lemmas for C03: header recognisers, redirect chains, the LRU cache and `get`.
-/

namespace Jtp
open Str
variable {Doc : Type}

theorem readLine_spec : ∀ {s l r : Str}, readLine s = some (l, r) → s = l ++ r ∧ 0 < l.length
  | [], _, _, h => by simp [readLine] at h
  | c :: cs, l, r, h => by
    simp only [readLine] at h
    split at h
    · simp at h; obtain ⟨rfl, rfl⟩ := h; simp [*]
    · split at h
      · rename_i l' r' heq; simp at h; obtain ⟨rfl, rfl⟩ := h
        have := readLine_spec heq; simp [this.1]
      · simp at h

def LinesOk (tolerated : List Str) (lines : List Str) : Prop :=
  ∀ l ∈ lines, match parseContentType l with
    | .notCT => True
    | .bad => False
    | .ok m => m.matchesAny tolerated = true

def HasCT (lines : List Str) : Prop := ∃ l ∈ lines, ∃ m, parseContentType l = .ok m

def HeadersOk (tolerated : List Str) (lines : List Str) : Prop :=
  (∀ l ∈ lines, match parseContentType l with
    | .notCT => True
    | .bad => False
    | .ok m => m.matchesAny tolerated = true) ∧
  (∃ l ∈ lines, ∃ m, parseContentType l = .ok m)

theorem validateHeaders_iff_gen (tol : List Str) : ∀ (fuel : Nat) (s : Str) (v : Bool) (body : Str),
    validateHeaders tol fuel s v = some body ↔
      ∃ lines, splitHeaders fuel s = some (lines, body) ∧ LinesOk tol lines ∧ (v = true ∨ HasCT lines) := by
  intro fuel
  induction fuel with
  | zero => intro s v body; simp [validateHeaders, splitHeaders]
  | succ fuel ih =>
    intro s v body
    simp only [validateHeaders, splitHeaders]
    cases hrl : readLine s with
    | none => simp
    | some p =>
      obtain ⟨line, rest⟩ := p
      simp only
      by_cases hb : isBlankLine line = true
      · simp only [hb, if_true]
        constructor
        · intro h
          cases v <;> simp at h
          subst h
          exact ⟨[], rfl, by simp [LinesOk], Or.inl rfl⟩
        · rintro ⟨lines, h1, _, h3⟩
          simp at h1; obtain ⟨rfl, rfl⟩ := h1
          rcases h3 with rfl | ⟨l, hl, _⟩
          · simp
          · simp at hl
      · simp only [hb]
        cases hct : parseContentType line with
        | notCT =>
          simp only [Bool.false_eq_true, if_false]
          rw [ih]
          constructor
          · rintro ⟨ls, h1, h2, h3⟩
            refine ⟨line :: ls, by simp [h1], ?_, ?_⟩
            · intro l hl
              rcases List.mem_cons.1 hl with rfl | hl
              · simp [hct]
              · exact h2 l hl
            · rcases h3 with h3 | ⟨l, hl, m, hm⟩
              · exact Or.inl h3
              · exact Or.inr ⟨l, List.mem_cons_of_mem _ hl, m, hm⟩
          · rintro ⟨lines, h1, h2, h3⟩
            cases hsp : splitHeaders fuel rest with
            | none => simp [hsp] at h1
            | some q =>
              obtain ⟨ls, bd⟩ := q
              simp [hsp] at h1
              obtain ⟨rfl, rfl⟩ := h1
              refine ⟨ls, rfl, fun l hl => h2 l (List.mem_cons_of_mem _ hl), ?_⟩
              rcases h3 with h3 | ⟨l, hl, m, hm⟩
              · exact Or.inl h3
              · rcases List.mem_cons.1 hl with rfl | hl
                · simp [hct] at hm
                · exact Or.inr ⟨l, hl, m, hm⟩
        | bad =>
          simp only [Bool.false_eq_true, if_false]
          constructor
          · simp
          · rintro ⟨lines, h1, h2, h3⟩
            cases hsp : splitHeaders fuel rest with
            | none => simp [hsp] at h1
            | some q =>
              obtain ⟨ls, bd⟩ := q
              simp [hsp] at h1
              obtain ⟨rfl, rfl⟩ := h1
              have := h2 line (List.mem_cons_self)
              simp [hct] at this
        | ok m =>
          simp only [Bool.false_eq_true, if_false]
          by_cases hm : m.matchesAny tol = true
          · simp only [hm, if_true]
            rw [ih]
            constructor
            · rintro ⟨ls, h1, h2, h3⟩
              refine ⟨line :: ls, by simp [h1], ?_, ?_⟩
              · intro l hl
                rcases List.mem_cons.1 hl with rfl | hl
                · simp [hct, hm]
                · exact h2 l hl
              · exact Or.inr ⟨line, List.mem_cons_self, m, hct⟩
            · rintro ⟨lines, h1, h2, h3⟩
              cases hsp : splitHeaders fuel rest with
              | none => simp [hsp] at h1
              | some q =>
                obtain ⟨ls, bd⟩ := q
                simp [hsp] at h1
                obtain ⟨rfl, rfl⟩ := h1
                exact ⟨ls, rfl, fun l hl => h2 l (List.mem_cons_of_mem _ hl), Or.inl rfl⟩
          · simp only [hm]
            constructor
            · simp
            · rintro ⟨lines, h1, h2, h3⟩
              cases hsp : splitHeaders fuel rest with
              | none => simp [hsp] at h1
              | some q =>
                obtain ⟨ls, bd⟩ := q
                simp [hsp] at h1
                obtain ⟨rfl, rfl⟩ := h1
                have := h2 line (List.mem_cons_self)
                simp [hct, hm] at this

theorem validateHeaders_iff' (tol : List Str) (s body : Str) :
    validateHeaders tol (s.length + 1) s false = some body ↔
      ∃ lines, splitHeaders (s.length + 1) s = some (lines, body) ∧ HeadersOk tol lines := by
  rw [validateHeaders_iff_gen]
  simp [HeadersOk, LinesOk, HasCT]

theorem okStatuses_head {status : Str} (h : status ∈ okStatuses) : status.head? ≠ some '3' := by
  simp only [okStatuses, List.mem_cons, List.not_mem_nil, or_false] at h
  rcases h with rfl | rfl | rfl | rfl <;> decide

theorem exchange_doc_iff' (tol : List Str) (resp body : Str) :
    exchange tol resp = .doc body ↔
      ∃ sl rest status lines, readLine resp = some (sl, rest) ∧ parseStatusLine sl = some status ∧
        status ∈ okStatuses ∧ splitHeaders (rest.length + 1) rest = some (lines, body) ∧
        HeadersOk tol lines := by
  unfold exchange
  constructor
  · intro h
    split at h
    · simp at h
    · rename_i sl rest hrl
      split at h
      · simp at h
      · rename_i status hst
        split at h
        · split at h <;> simp at h
        · split at h
          · rename_i hok
            split at h
            · rename_i b hv
              simp at h; subst h
              obtain ⟨lines, h1, h2⟩ := (validateHeaders_iff' tol rest b).1 hv
              exact ⟨sl, rest, status, lines, hrl, hst, by simpa using hok, h1, h2⟩
            · simp at h
          · simp at h
  · rintro ⟨sl, rest, status, lines, hrl, hst, hok, h1, h2⟩
    have hv := (validateHeaders_iff' tol rest body).2 ⟨lines, h1, h2⟩
    have h3 := okStatuses_head hok
    simp [hrl, hst, h3, hok, hv]

theorem exchange_redirect_iff' (tol : List Str) (resp v : Str) :
    exchange tol resp = .redirect v ↔
      ∃ sl rest status, readLine resp = some (sl, rest) ∧ parseStatusLine sl = some status ∧
        status.head? = some '3' ∧ findLocation (rest.length + 1) rest = some v := by
  unfold exchange
  constructor
  · intro h
    split at h
    · simp at h
    · rename_i sl rest hrl
      split at h
      · simp at h
      · rename_i status hst
        split at h
        · rename_i h3
          split at h
          · rename_i v' hv
            simp at h; subst h
            exact ⟨sl, rest, status, hrl, hst, h3, hv⟩
          · simp at h
        · split at h
          · split at h <;> simp at h
          · simp at h
  · rintro ⟨sl, rest, status, hrl, hst, h3, hv⟩
    simp [hrl, hst, h3, hv]

theorem statusLine_shape' (line status : Str) (h : parseStatusLine line = some status) :
    ∃ d a b c rest, line = "HTTP/1.".toList ++ d :: ' ' :: a :: b :: c :: rest ∧ status = [a, b, c] ∧
      d.isDigit = true ∧ a.isDigit = true ∧ b.isDigit = true ∧ c.isDigit = true ∧
      rest.getLast? = some '\n' := by
  unfold parseStatusLine at h
  split at h
  · rename_i d a b c rest
    split at h
    · rename_i hc
      simp at h
      simp only [Bool.and_eq_true] at hc
      obtain ⟨⟨⟨⟨hd, ha⟩, hb⟩, hc⟩, hbody⟩ := hc
      refine ⟨d, a, b, c, rest, by simp, h.symm, hd, ha, hb, hc, ?_⟩
      unfold bodyOfLine at hbody
      split at hbody
      · assumption
      · simp at hbody
    · simp at h
  · simp at h

/-! ### Chains -/

theorem chain_inv {env : Env Doc} {tol : List Str} {u : Url} {k : Nat} {d : Doc} {src : Url}
    (h : Chain env tol u k d src) :
    env.https u = true ∧ ∃ resp, env.serve u = some resp ∧
      ((k = 0 ∧ src = u ∧ ∃ body, exchange tol resp = .doc body ∧ env.decode body = some d) ∨
       (∃ v t k', k = k' + 1 ∧ exchange tol resp = .redirect v ∧ env.resolve u v = some t ∧
          Chain env tol t k' d src)) := by
  cases h with
  | done _ resp body _ h1 h2 h3 h4 => exact ⟨h1, resp, h2, Or.inl ⟨rfl, rfl, body, h3, h4⟩⟩
  | hop _ t resp v k _ _ h1 h2 h3 h4 h5 => exact ⟨h1, resp, h2, Or.inr ⟨v, t, k, rfl, h3, h4, h5⟩⟩

theorem chain_functional' (env : Env Doc) (tol : List Str) (u : Url) (k k' : Nat) (d d' : Doc) (s s' : Url)
    (h : Chain env tol u k d s) (h' : Chain env tol u k' d' s') : k = k' ∧ d = d' ∧ s = s' := by
  induction h generalizing k' d' s' with
  | done u resp body d h1 h2 h3 h4 =>
    obtain ⟨_, resp', hs, hc⟩ := chain_inv h'
    rw [h2] at hs; cases hs
    rcases hc with ⟨rfl, rfl, body', he, hd⟩ | ⟨v, t, k'', _, he, _⟩
    · rw [h3] at he; cases he
      rw [h4] at hd; cases hd
      exact ⟨rfl, rfl, rfl⟩
    · rw [h3] at he; cases he
  | hop u t resp v k d src h1 h2 h3 h4 _ ih =>
    obtain ⟨_, resp', hs, hc⟩ := chain_inv h'
    rw [h2] at hs; cases hs
    rcases hc with ⟨rfl, rfl, body', he, hd⟩ | ⟨v', t', k'', rfl, he, hr, hch⟩
    · rw [h3] at he; cases he
    · rw [h3] at he; cases he
      rw [h4] at hr; cases hr
      obtain ⟨rfl, rfl, rfl⟩ := ih _ _ _ hch
      exact ⟨rfl, rfl, rfl⟩

theorem chain_redirect_iff {env : Env Doc} {tol : List Str} {u t : Url} {resp v : Str}
    (hh : env.https u = true) (hs : env.serve u = some resp) (he : exchange tol resp = .redirect v)
    (hr : env.resolve u v = some t) (k : Nat) (d : Doc) (src : Url) :
    Chain env tol u k d src ↔ ∃ k', k = k' + 1 ∧ Chain env tol t k' d src := by
  constructor
  · intro h
    obtain ⟨_, resp', hs', hc⟩ := chain_inv h
    rw [hs] at hs'; cases hs'
    rcases hc with ⟨_, _, body', he', _⟩ | ⟨v', t', k'', rfl, he', hr', hch⟩
    · rw [he] at he'; cases he'
    · rw [he] at he'; cases he'
      rw [hr] at hr'; cases hr'
      exact ⟨k'', rfl, hch⟩
  · rintro ⟨k', rfl, hch⟩
    exact Chain.hop u t resp v k' d src hh hs he hr hch

theorem chain_doc_iff {env : Env Doc} {tol : List Str} {u : Url} {resp body : Str}
    (hh : env.https u = true) (hs : env.serve u = some resp) (he : exchange tol resp = .doc body)
    (k : Nat) (d : Doc) (src : Url) :
    Chain env tol u k d src ↔ k = 0 ∧ src = u ∧ env.decode body = some d := by
  constructor
  · intro h
    obtain ⟨_, resp', hs', hc⟩ := chain_inv h
    rw [hs] at hs'; cases hs'
    rcases hc with ⟨h0, h1, body', he', hd⟩ | ⟨v', t', k'', rfl, he', _⟩
    · rw [he] at he'; cases he'
      exact ⟨h0, h1, hd⟩
    · rw [he] at he'; cases he'
  · rintro ⟨rfl, rfl, hd⟩
    exact Chain.done _ resp body d hh hs he hd

/-! ### Cache -/

theorem Cache.get_mem (c : Cache Doc) (k : Url) :
    ∀ e, e ∈ (c.get k).2.entries → e ∈ c.entries := by
  intro e he
  unfold Cache.get at he
  split at he
  · rename_i e' hf
    simp only [List.mem_cons, List.mem_filter] at he
    rcases he with rfl | ⟨h, _⟩
    · exact List.mem_of_find?_eq_some hf
    · exact h
  · exact he

theorem Cache.get_some {c : Cache Doc} {k : Url} {e : Entry Doc} (h : (c.get k).1 = some e) :
    (k, e) ∈ c.entries := by
  unfold Cache.get at h
  split at h
  · rename_i e' hf
    have h1 := List.mem_of_find?_eq_some hf
    have h2 := List.find?_some hf
    simp at h h2
    subst h; subst h2
    exact h1
  · simp at h

theorem Cache.add_mem (c : Cache Doc) (k : Url) (v : Entry Doc) :
    ∀ e, e ∈ (c.add k v).entries → e = (k, v) ∨ e ∈ c.entries := by
  intro e he
  unfold Cache.add at he
  have := List.mem_of_mem_take he
  simp only [List.mem_cons, List.mem_filter] at this
  rcases this with rfl | ⟨h, _⟩
  · exact Or.inl rfl
  · exact Or.inr h

theorem sound_sub' (env : Env Doc) (tol : List Str) (c c' : Cache Doc) (hs : Sound env tol c)
    (hsub : ∀ e, e ∈ c'.entries → e ∈ c.entries) : Sound env tol c' :=
  fun k e h => hs k e (hsub _ h)

theorem sound_empty' (env : Env Doc) (tol : List Str) (cap : Nat) :
    Sound env tol ({ cap := cap } : Cache Doc) := by
  intro k e h; simp at h

theorem sound_get {env : Env Doc} {tol : List Str} {c : Cache Doc} (hs : Sound env tol c) (k : Url) :
    Sound env tol (c.get k).2 :=
  sound_sub' env tol c _ hs (Cache.get_mem c k)

/-! ### Cache keys -/

theorem cacheKey_inj {tol : List Str} {u u' : Url} (h : cacheKey tol u = cacheKey tol u') : u = u' := by
  unfold cacheKey at h
  have := List.append_cancel_left h
  simpa using this

/-- Two texts `a ++ s :: u` and `a' ++ s :: u'` whose heads `a`, `a'` do not contain the
    separator `s` agree only if the heads agree. -/
theorem append_sep_inj {α : Type} {s : α} : ∀ {a a' u u' : List α}, s ∉ a → s ∉ a' →
    a ++ s :: u = a' ++ s :: u' → a = a'
  | [], [], _, _, _, _, _ => rfl
  | [], y :: ys, _, _, _, h', h => by
    simp only [List.nil_append, List.cons_append, List.cons.injEq] at h
    exact absurd (h.1 ▸ List.mem_cons_self) h'
  | x :: xs, [], _, _, h', _, h => by
    simp only [List.nil_append, List.cons_append, List.cons.injEq] at h
    exact absurd (h.1 ▸ List.mem_cons_self) h'
  | x :: xs, y :: ys, _, _, hx, hy, h => by
    simp only [List.cons_append, List.cons.injEq] at h
    have := append_sep_inj (fun m => hx (List.mem_cons_of_mem _ m))
      (fun m => hy (List.mem_cons_of_mem _ m)) h.2
    rw [h.1, this]

theorem cacheKey_disjoint' (tol tol' : List Str)
    (h : List.intercalate [','] tol ≠ List.intercalate [','] tol')
    (hs : ' ' ∉ List.intercalate [','] tol) (hs' : ' ' ∉ List.intercalate [','] tol')
    (u u' : Url) : cacheKey tol u ≠ cacheKey tol' u' := by
  intro heq
  unfold cacheKey at heq
  exact h (append_sep_inj hs hs' heq)

theorem sound_add_doc {env : Env Doc} {tol : List Str} {c : Cache Doc} (hs : Sound env tol c)
    {u : Url} {d : Doc} (h : Chain env tol u 0 d u) :
    Sound env tol (c.add (cacheKey tol u) (.doc d u)) := by
  intro k e he u' hk
  rcases Cache.add_mem c _ _ _ he with heq | hmem
  · cases heq
    cases cacheKey_inj hk
    exact ⟨rfl, h⟩
  · exact hs k e hmem u' hk

theorem sound_add_redirect {env : Env Doc} {tol : List Str} {c : Cache Doc} (hs : Sound env tol c)
    {u t : Url} {resp v : Str} (hh : env.https u = true) (hsv : env.serve u = some resp)
    (he : exchange tol resp = .redirect v) (hr : env.resolve u v = some t) :
    Sound env tol (c.add (cacheKey tol u) (.redirect t)) := by
  intro k e hmem u' hk
  rcases Cache.add_mem c _ _ _ hmem with heq | hmem
  · cases heq
    cases cacheKey_inj hk
    exact ⟨hh, resp, v, hsv, he, hr⟩
  · exact hs k e hmem u' hk

/-- A cache all of whose entries either come from a cache sound for `tol'` or are filed under
    keys that no request of kind `tol'` uses is sound for `tol'`. -/
theorem sound_of_foreign {env : Env Doc} {tol' : List Str} {c c' : Cache Doc}
    (hs : Sound env tol' c) (P : Url → Prop) (hP : ∀ u', ¬ P (cacheKey tol' u'))
    (hsub : ∀ e, e ∈ c'.entries → e ∈ c.entries ∨ P e.1) : Sound env tol' c' := by
  intro k e he u' hk
  rcases hsub _ he with hmem | hp
  · exact hs k e hmem u' hk
  · exact absurd (hk ▸ hp) (hP u')

theorem sound_of_get {env : Env Doc} {tol : List Str} {c c' : Cache Doc} {u : Url}
    {x : Option (Entry Doc)} (hs : Sound env tol c) (h : c.get u = (x, c')) : Sound env tol c' := by
  have := sound_get hs u; rw [h] at this; exact this

theorem mem_of_get {c c' : Cache Doc} {u : Url} {e : Entry Doc} (h : c.get u = (some e, c')) :
    (u, e) ∈ c.entries := Cache.get_some (by rw [h])

theorem get_spec (env : Env Doc) (tol : List Str) (b : Nat) (c : Cache Doc) (u : Url) (hs : Sound env tol c) :
   Sound env tol (get env tol b c u).cache ∧
     ∀ d src, ((get env tol b c u).res = .ok d src ↔ ∃ k, k ≤ b ∧ Chain env tol u k d src) := by
  fun_induction get env tol b c u with
  | case1 budget cache u d0 src0 cache' hget =>
    refine ⟨sound_of_get hs hget, fun d src => ?_⟩
    obtain ⟨rfl, hch⟩ := hs _ _ (mem_of_get hget) u rfl
    constructor
    · intro h; cases h; exact ⟨0, Nat.zero_le _, hch⟩
    · rintro ⟨k, _, h⟩
      obtain ⟨_, rfl, rfl⟩ := chain_functional' env tol _ _ _ _ _ _ _ hch h
      rfl
  | case2 cache u t cache' hget =>
    refine ⟨sound_of_get hs hget, fun d src => ?_⟩
    obtain ⟨hh, resp, v, hsv, he, hr⟩ := hs _ _ (mem_of_get hget) u rfl
    constructor
    · intro h; cases h
    · rintro ⟨k, hk, h⟩
      obtain ⟨k', rfl, _⟩ := (chain_redirect_iff hh hsv he hr k d src).1 h
      omega
  | case3 cache u t cache' hget b ih =>
    obtain ⟨ih1, ih2⟩ := ih (sound_of_get hs hget)
    refine ⟨ih1, fun d src => ?_⟩
    obtain ⟨hh, resp, v, hsv, he, hr⟩ := hs _ _ (mem_of_get hget) u rfl
    rw [ih2]
    constructor
    · rintro ⟨k, hk, h⟩
      exact ⟨k + 1, by omega, (chain_redirect_iff hh hsv he hr _ d src).2 ⟨k, rfl, h⟩⟩
    · rintro ⟨k, hk, h⟩
      obtain ⟨k', rfl, h'⟩ := (chain_redirect_iff hh hsv he hr k d src).1 h
      exact ⟨k', by omega, h'⟩
  | case4 budget cache u cache' hget hh =>
    refine ⟨sound_of_get hs hget, fun d src => ?_⟩
    constructor
    · intro h; cases h
    · rintro ⟨k, _, h⟩
      have := (chain_inv h).1
      simp [this] at hh
  | case5 budget cache u cache' hget hh hsv =>
    refine ⟨sound_of_get hs hget, fun d src => ?_⟩
    constructor
    · intro h; cases h
    · rintro ⟨k, _, h⟩
      obtain ⟨_, resp, hsv', _⟩ := chain_inv h
      rw [hsv] at hsv'; cases hsv'
  | case6 budget cache u cache' hget hh resp hsv he =>
    refine ⟨sound_of_get hs hget, fun d src => ?_⟩
    constructor
    · intro h; cases h
    · rintro ⟨k, _, h⟩
      obtain ⟨_, resp', hsv', hc⟩ := chain_inv h
      rw [hsv] at hsv'; cases hsv'
      rcases hc with ⟨_, _, _, he', _⟩ | ⟨_, _, _, _, he', _⟩ <;> (rw [he] at he'; cases he')
  | case7 budget cache u cache' hget hh resp hsv body he d0 hd =>
    have hh' : env.https u = true := by simpa using hh
    have hch : Chain env tol u 0 d0 u := Chain.done u resp body d0 hh' hsv he hd
    refine ⟨sound_add_doc (sound_of_get hs hget) hch, fun d src => ?_⟩
    constructor
    · intro h; cases h; exact ⟨0, Nat.zero_le _, hch⟩
    · rintro ⟨k, _, h⟩
      obtain ⟨_, rfl, rfl⟩ := chain_functional' env tol _ _ _ _ _ _ _ hch h
      rfl
  | case8 budget cache u cache' hget hh resp hsv body he hd =>
    have hh' : env.https u = true := by simpa using hh
    refine ⟨sound_of_get hs hget, fun d src => ?_⟩
    constructor
    · intro h; cases h
    · rintro ⟨k, _, h⟩
      obtain ⟨_, _, hd'⟩ := (chain_doc_iff hh' hsv he k d src).1 h
      rw [hd] at hd'; cases hd'
  | case9 budget cache u cache' hget hh resp hsv v he hr =>
    refine ⟨sound_of_get hs hget, fun d src => ?_⟩
    constructor
    · intro h; cases h
    · rintro ⟨k, _, h⟩
      obtain ⟨_, resp', hsv', hc⟩ := chain_inv h
      rw [hsv] at hsv'; cases hsv'
      rcases hc with ⟨_, _, _, he', _⟩ | ⟨_, _, _, _, he', hr', _⟩
      · rw [he] at he'; cases he'
      · rw [he] at he'; cases he'
        rw [hr] at hr'; cases hr'
  | case10 cache u cache' hget hh resp hsv v he t hr =>
    have hh' : env.https u = true := by simpa using hh
    refine ⟨sound_of_get hs hget, fun d src => ?_⟩
    constructor
    · intro h; cases h
    · rintro ⟨k, hk, h⟩
      obtain ⟨k', rfl, _⟩ := (chain_redirect_iff hh' hsv he hr k d src).1 h
      omega
  | case11 cache u cache' hget hh resp hsv v he t hr b r ih =>
    have hh' : env.https u = true := by simpa using hh
    obtain ⟨ih1, ih2⟩ := ih (sound_add_redirect (sound_of_get hs hget) hh' hsv he hr)
    refine ⟨ih1, fun d src => ?_⟩
    show r.res = _ ↔ _
    rw [ih2]
    constructor
    · rintro ⟨k, hk, h⟩
      exact ⟨k + 1, by omega, (chain_redirect_iff hh' hsv he hr _ d src).2 ⟨k, rfl, h⟩⟩
    · rintro ⟨k, hk, h⟩
      obtain ⟨k', rfl, h'⟩ := (chain_redirect_iff hh' hsv he hr k d src).1 h
      exact ⟨k', by omega, h'⟩

theorem get_requests (env : Env Doc) (tol : List Str) (b : Nat) (c : Cache Doc) (u : Url) :
    (get env tol b c u).requests.length ≤ b + 1 ∧
    ∀ r ∈ (get env tol b c u).requests, env.https r = true := by
  fun_induction get env tol b c u with
  | case1 | case2 | case4 => simp
  | case3 cache u t cache' hget b ih => exact ⟨by have := ih.1; omega, ih.2⟩
  | case5 budget cache u cache' hget hh | case6 budget cache u cache' hget hh
  | case7 budget cache u cache' hget hh | case8 budget cache u cache' hget hh
  | case9 budget cache u cache' hget hh | case10 cache u cache' hget hh => simpa using hh
  | case11 cache u cache' hget hh resp hsv v he t hr b r ih =>
    have hh' : env.https u = true := by simpa using hh
    refine ⟨by simpa using ih.1, ?_⟩
    intro r hr
    rcases List.mem_cons.1 hr with rfl | hr
    · exact hh'
    · exact ih.2 r hr

/-- Everything a fetch of kind `tol` leaves in the cache was there before or is filed under a
    key of kind `tol` (it only ever adds under its own keys; the rest is kept, reordered or
    evicted). -/
theorem get_cache_mem (env : Env Doc) (tol : List Str) (b : Nat) (c : Cache Doc) (u : Url) :
    ∀ e, e ∈ (get env tol b c u).cache.entries → e ∈ c.entries ∨ ∃ x, e.1 = cacheKey tol x := by
  have hg : ∀ {c c' : Cache Doc} {k : Url} {x : Option (Entry Doc)}, c.get k = (x, c') →
      ∀ e, e ∈ c'.entries → e ∈ c.entries := by
    intro c c' k x h e he
    have := Cache.get_mem c k e; rw [h] at this; exact this he
  fun_induction get env tol b c u with
  | case1 budget cache u d0 src0 cache' hget
  | case2 cache u t cache' hget
  | case4 budget cache u cache' hget
  | case5 budget cache u cache' hget
  | case6 budget cache u cache' hget
  | case8 budget cache u cache' hget
  | case9 budget cache u cache' hget
  | case10 cache u cache' hget => exact fun e he => Or.inl (hg hget e he)
  | case3 cache u t cache' hget b ih =>
    intro e he
    rcases ih e he with h | h
    · exact Or.inl (hg hget e h)
    · exact Or.inr h
  | case7 budget cache u cache' hget hh resp hsv body he d0 hd =>
    intro e he
    rcases Cache.add_mem _ _ _ e he with rfl | h
    · exact Or.inr ⟨u, rfl⟩
    · exact Or.inl (hg hget e h)
  | case11 cache u cache' hget hh resp hsv v he t hr b r ih =>
    intro e he
    rcases ih e he with h | h
    · rcases Cache.add_mem _ _ _ e h with rfl | h
      · exact Or.inr ⟨u, rfl⟩
      · exact Or.inl (hg hget e h)
    · exact Or.inr h

theorem get_keeps_sound_for_others' (env : Env Doc) (tol tol' : List Str)
    (hdis : ∀ u u', cacheKey tol u ≠ cacheKey tol' u') (b : Nat) (c : Cache Doc) (u : Url)
    (hs : Sound env tol' c) : Sound env tol' (get env tol b c u).cache :=
  sound_of_foreign hs (fun k => ∃ x, k = cacheKey tol x)
    (fun u' ⟨x, hx⟩ => hdis x u' hx.symm) (get_cache_mem env tol b c u)

theorem get_iff_chain' (env : Env Doc) (tol : List Str) (b : Nat) (c : Cache Doc) (u : Url)
    (hs : Sound env tol c) (d : Doc) (src : Url) :
    ((∃ st, st = get env tol b c u ∧ st.res = .ok d src) ↔ ∃ k, k ≤ b ∧ Chain env tol u k d src) := by
  rw [← (get_spec env tol b c u hs).2]
  constructor
  · rintro ⟨_, rfl, h⟩; exact h
  · intro h; exact ⟨_, rfl, h⟩

theorem cross_kind_transparent' (env : Env Doc) (tol tol' : List Str)
    (hdis : ∀ u u', cacheKey tol u ≠ cacheKey tol' u') (b b' : Nat) (c : Cache Doc) (u u' : Url)
    (hs : Sound env tol' c) (d : Doc) (src : Url) :
    ((∃ st, st = get env tol' b' (get env tol b c u).cache u' ∧ st.res = .ok d src) ↔
      ∃ k, k ≤ b' ∧ Chain env tol' u' k d src) :=
  get_iff_chain' env tol' b' _ u' (get_keeps_sound_for_others' env tol tol' hdis b c u hs) d src

theorem get_err_of_no_chain' (env : Env Doc) (tol : List Str) (b : Nat) (c : Cache Doc) (u : Url)
    (hs : Sound env tol c) (hno : ¬ ∃ k d src, k ≤ b ∧ Chain env tol u k d src) :
    ∃ st, st = get env tol b c u ∧ (match st.res with | .err => True | .ok _ _ => False) := by
  refine ⟨_, rfl, ?_⟩
  cases hres : (get env tol b c u).res with
  | err => trivial
  | ok d src =>
    obtain ⟨k, hk, h⟩ := ((get_spec env tol b c u hs).2 d src).1 hres
    exact hno ⟨k, d, src, hk, h⟩

theorem cache_transparent' (env : Env Doc) (tol : List Str) (b : Nat) (c c' : Cache Doc) (u : Url)
    (hs : Sound env tol c) (hs' : Sound env tol c') :
    (match (get env tol b c u).res, (get env tol b c' u).res with
     | .ok d s, .ok d' s' => d = d' ∧ s = s'
     | .err, .err => True
     | _, _ => False) := by
  have h1 := (get_spec env tol b c u hs).2
  have h2 := (get_spec env tol b c' u hs').2
  cases hr1 : (get env tol b c u).res with
  | ok d s =>
    have hc := (h1 d s).1 hr1
    have hr2 := (h2 d s).2 hc
    rw [hr2]; exact ⟨rfl, rfl⟩
  | err =>
    cases hr2 : (get env tol b c' u).res with
    | err => trivial
    | ok d s =>
      have hc := (h2 d s).1 hr2
      have := (h1 d s).2 hc
      rw [hr1] at this; cases this

end Jtp
