import Model

/-
  Helper lemmas for C19 (`Config.hexToAnsi`, `Config.postprocess`).
-/

namespace Config

/-- Propositional version of "is a hexadecimal digit". -/
def IsHex (c : Char) : Prop :=
  ('0' ≤ c ∧ c ≤ '9') ∨ ('a' ≤ c ∧ c ≤ 'f') ∨ ('A' ≤ c ∧ c ≤ 'F')

theorem char_le_iff_toNat {a b : Char} : a ≤ b ↔ a.toNat ≤ b.toNat := by
  rw [Char.le_def, UInt32.le_iff_toNat_le]; rfl

theorem hexVal_isSome_iff (c : Char) : (hexVal c).isSome ↔ IsHex c := by
  unfold hexVal IsHex
  split
  · simp [*]
  · split
    · simp [*]
    · split <;> simp [*]

theorem hexVal_le {c : Char} {v : Nat} (h : hexVal c = some v) : v ≤ 15 := by
  unfold hexVal at h
  simp only [char_le_iff_toNat] at h
  have h0 : '0'.toNat = 48 := rfl
  have h9 : '9'.toNat = 57 := rfl
  have ha : 'a'.toNat = 97 := rfl
  have hf : 'f'.toNat = 102 := rfl
  have hA : 'A'.toNat = 65 := rfl
  have hF : 'F'.toNat = 70 := rfl
  rw [h0, h9, ha, hf, hA, hF] at h
  split at h
  · cases h; omega
  · split at h
    · cases h; omega
    · split at h
      · cases h; omega
      · cases h

theorem utf8Len_of_isHex {c : Char} (h : IsHex c) : utf8Len c = 1 := by
  unfold IsHex at h
  simp only [char_le_iff_toNat] at h
  have h9 : '9'.toNat = 57 := rfl
  have hf : 'f'.toNat = 102 := rfl
  have hF : 'F'.toNat = 70 := rfl
  rw [h9, hf, hF] at h
  have : c.toNat < 0x80 := by omega
  simp [utf8Len, this]

theorem parseHexPair_isSome_iff (a b : Char) :
    (parseHexPair a b).isSome ↔ IsHex a ∧ IsHex b := by
  rw [← hexVal_isSome_iff, ← hexVal_isSome_iff]
  unfold parseHexPair
  cases hexVal a <;> cases hexVal b <;> simp

theorem parseHexPair_le {a b : Char} {v : Nat} (h : parseHexPair a b = some v) : v ≤ 255 := by
  unfold parseHexPair at h
  cases ha : hexVal a with
  | none => simp [ha] at h
  | some x =>
    cases hb : hexVal b with
    | none => simp [ha, hb] at h
    | some y =>
      simp only [ha, hb, Option.some.injEq] at h
      have := hexVal_le ha
      have := hexVal_le hb
      omega

/-- The shape of a colour string. -/
def IsColor (s : Str) : Prop :=
  ∃ r g b : Nat, r ≤ 255 ∧ g ≤ 255 ∧ b ≤ 255 ∧
    s = Style.itoa r ++ ';' :: Style.itoa g ++ ';' :: Style.itoa b

/-- Inversion of a successful `hexToAnsi`. -/
theorem hexToAnsi_some_inv {text out : Str} (h : hexToAnsi text = some out) :
    ∃ a b c d e f r g bl, text = ['#', a, b, c, d, e, f] ∧
      parseHexPair a b = some r ∧ parseHexPair c d = some g ∧ parseHexPair e f = some bl ∧
      out = Style.itoa r ++ ';' :: Style.itoa g ++ ';' :: Style.itoa bl := by
  unfold hexToAnsi at h
  split at h
  · split at h
    · cases h
    · split at h
      · split at h
        · rename_i a b c d e f _ _ _ _ r g bl hr hg hb
          exact ⟨a, b, c, d, e, f, r, g, bl, rfl, hr, hg, hb, (Option.some.inj h).symm⟩
        · cases h
      · cases h
  · cases h

theorem hexToAnsi_of_hex {a b c d e f : Char}
    (ha : IsHex a) (hb : IsHex b) (hc : IsHex c) (hd : IsHex d) (he : IsHex e) (hf : IsHex f) :
    (hexToAnsi ['#', a, b, c, d, e, f]).isSome := by
  have hlen : byteLen ['#', a, b, c, d, e, f] = 7 := by
    have hsharp : utf8Len '#' = 1 := by decide
    simp [byteLen, utf8Len_of_isHex, *]
  obtain ⟨r, hr⟩ := Option.isSome_iff_exists.mp ((parseHexPair_isSome_iff a b).mpr ⟨ha, hb⟩)
  obtain ⟨g, hg⟩ := Option.isSome_iff_exists.mp ((parseHexPair_isSome_iff c d).mpr ⟨hc, hd⟩)
  obtain ⟨bl, hbl⟩ := Option.isSome_iff_exists.mp ((parseHexPair_isSome_iff e f).mpr ⟨he, hf⟩)
  simp [hexToAnsi, hlen, hr, hg, hbl]

theorem hexToAnsi_isSome_iff (text : Str) :
    (hexToAnsi text).isSome ↔ ∃ a b c d e f, text = ['#', a, b, c, d, e, f] ∧
      IsHex a ∧ IsHex b ∧ IsHex c ∧ IsHex d ∧ IsHex e ∧ IsHex f := by
  constructor
  · intro h
    obtain ⟨out, hout⟩ := Option.isSome_iff_exists.mp h
    obtain ⟨a, b, c, d, e, f, r, g, bl, rfl, hr, hg, hb, -⟩ := hexToAnsi_some_inv hout
    have h1 := (parseHexPair_isSome_iff a b).mp (by simp [hr])
    have h2 := (parseHexPair_isSome_iff c d).mp (by simp [hg])
    have h3 := (parseHexPair_isSome_iff e f).mp (by simp [hb])
    exact ⟨a, b, c, d, e, f, rfl, h1.1, h1.2, h2.1, h2.2, h3.1, h3.2⟩
  · rintro ⟨a, b, c, d, e, f, rfl, ha, hb, hc, hd, he, hf⟩
    exact hexToAnsi_of_hex ha hb hc hd he hf

theorem hexToAnsi_isColor {text out : Str} (h : hexToAnsi text = some out) : IsColor out := by
  obtain ⟨a, b, c, d, e, f, r, g, bl, -, hr, hg, hb, rfl⟩ := hexToAnsi_some_inv h
  exact ⟨r, g, bl, parseHexPair_le hr, parseHexPair_le hg, parseHexPair_le hb, rfl⟩

theorem itoa_ne_nil (n : Nat) : Style.itoa n ≠ [] := by
  intro h
  have := @Nat.length_toDigits_pos 10 n
  unfold Style.itoa at h
  rw [h] at this
  exact Nat.lt_irrefl _ this

theorem itoa_isDigit (n : Nat) : ∀ c ∈ Style.itoa n, c.isDigit = true := by
  intro c hc
  exact Nat.isDigit_of_mem_toDigits (by decide) (by decide) hc

/-- A number of seconds that fits a duration is converted without wrap-around. -/
theorem wrap64_seconds {t : Int} (h0 : 0 ≤ t) (h1 : t ≤ maxSeconds) :
    wrap64 (t * 1000000000) = t * 1000000000 := by
  unfold wrap64
  unfold maxSeconds at h1
  omega

/-- Inversion of a successful `postprocess`. -/
theorem postprocess_ok_inv {r : Raw} {p : Parsed} (h : postprocess r = .ok p) :
    ∃ cp ce ch cc, hexToAnsi r.primary = some cp ∧ hexToAnsi r.error = some ce ∧
      hexToAnsi r.highlight = some ch ∧ hexToAnsi r.code = some cc ∧
      r.hook ≠ [] ∧ 0 ≤ r.context ∧ 0 ≤ r.timeout ∧ 1 ≤ r.cacheSize ∧ r.timeout ≤ maxSeconds ∧
      r.context ≤ maxPreload ∧
      p = { hook := r.hook, colors := ⟨cp, ce, ch, cc⟩, context := r.context,
            timeoutSeconds := r.timeout, cacheSize := r.cacheSize,
            timeoutNanos := wrap64 (r.timeout * 1000000000) } := by
  unfold postprocess at h
  split at h; · cases h
  split at h; · cases h
  split at h; · cases h
  split at h; · cases h
  split at h; · cases h
  split at h; · cases h
  split at h; · cases h
  split at h; · cases h
  split at h; · cases h
  split at h; · cases h
  rename_i _ cp hp _ ce he _ ch hh _ cc hc hhook hctx hpre hto hcs hmax
  refine ⟨cp, ce, ch, cc, hp, he, hh, hc, ?_, by omega, by omega, by omega, by omega, by omega, (Except.ok.inj h).symm⟩
  intro hnil
  simp [hnil] at hhook

theorem postprocess_ok_of_valid (r : Raw) {cp ce ch cc : Str}
    (hp : hexToAnsi r.primary = some cp) (he : hexToAnsi r.error = some ce)
    (hh : hexToAnsi r.highlight = some ch) (hc : hexToAnsi r.code = some cc)
    (hhook : r.hook ≠ []) (h1 : 0 ≤ r.context) (h2 : 0 ≤ r.timeout) (h3 : 1 ≤ r.cacheSize)
    (h4 : r.timeout ≤ maxSeconds) (h5 : r.context ≤ maxPreload) :
    postprocess r = .ok (Parsed.mk r.hook ⟨cp, ce, ch, cc⟩ r.context r.timeout r.cacheSize
      (wrap64 (r.timeout * 1000000000))) := by
  have e1 : r.hook.isEmpty = false := by
    cases hk : r.hook with
    | nil => exact absurd hk hhook
    | cons _ _ => rfl
  have e2 : ¬ r.context < 0 := by omega
  have e3 : ¬ r.timeout < 0 := by omega
  have e4 : ¬ r.cacheSize < 1 := by omega
  have e5 : ¬ r.timeout > maxSeconds := by omega
  have e6 : ¬ r.context > maxPreload := by omega
  simp [postprocess, hp, he, hh, hc, e1, e2, e3, e4, e5, e6]

theorem postprocess_safe {r : Raw} {p : Parsed} (h : postprocess r = .ok p) : Safe p := by
  obtain ⟨cp, ce, ch, cc, hp, he, hh, hc, hhook, h1, h2, h3, h4, h5, rfl⟩ := postprocess_ok_inv h
  refine ⟨hhook, h3, h1, h2, h5, wrap64_seconds h2 h4, ?_⟩
  intro s hs
  simp only [List.mem_cons, List.not_mem_nil, or_false] at hs
  rcases hs with rfl | rfl | rfl | rfl
  · exact hexToAnsi_isColor hp
  · exact hexToAnsi_isColor he
  · exact hexToAnsi_isColor hh
  · exact hexToAnsi_isColor hc

theorem postprocess_error {r : Raw} {d : Diag} (h : postprocess r = .error d) :
    match d with
    | .primary => hexToAnsi r.primary = none
    | .error => hexToAnsi r.error = none
    | .highlight => hexToAnsi r.highlight = none
    | .code => hexToAnsi r.code = none
    | .hook => r.hook = []
    | .context => r.context < 0 ∨ r.context > maxPreload
    | .timeout => r.timeout < 0 ∨ r.timeout > maxSeconds
    | .cacheSize => r.cacheSize < 1 := by
  unfold postprocess at h
  split at h
  · cases h; assumption
  split at h
  · cases h; assumption
  split at h
  · cases h; assumption
  split at h
  · cases h; assumption
  split at h
  · cases h; simpa using ‹r.hook.isEmpty = true›
  split at h
  · cases h; exact Or.inl ‹_›
  split at h
  · cases h; exact Or.inr ‹_›
  split at h
  · cases h; exact Or.inl ‹_›
  split at h
  · cases h; assumption
  split at h
  · cases h; exact Or.inr ‹_›
  · cases h

end Config
