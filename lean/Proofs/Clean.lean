import Model
import Proofs.Cells
import Proofs.C13
import Proofs.C16
import Proofs.CleanBasic
import Proofs.CleanTrim
import Proofs.CleanAnsi
import Proofs.CleanStyle
import Proofs.CleanRender
import Proofs.CleanGem

/-
  Helper lemmas for Props/Clean.lean:

  * `Proofs.CleanBasic`  — sources of clean text, append, split/join, apply, indent, safety.
  * `Proofs.CleanTrim`   — trimming removes whole bare cells.
  * `Proofs.CleanAnsi`   — wrap, dumbWrap, pad, snip, centerVertically, replaceLastLine, setLength.
  * `Proofs.CleanStyle`  — the style layer.
  * `Proofs.CleanRender` — the HTML renderer (mutual induction over the forest).
  * `Proofs.CleanGem`    — the gemtext and plaintext renderers.
-/
