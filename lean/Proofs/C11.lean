import Model

/-
  Helper lemmas for property C11 (splicer: k-way newest-first merge).
-/

namespace C11P
open Splicer

variable {C T : Type}

/-- Total number of buffered items. -/
def total (s : List (Source C T)) : Nat := (s.map fun src => src.elements.length).sum

/-- Copy of `C11.heads`. -/
def heads (s : List (Source C T)) : List (Nat × T) :=
  (s.zipIdx.filterMap fun (src, i) => src.elements.head?.map fun e => (i, e))

/-- Copy of `C11.popTrace`. -/
def popTrace (ts : T → Int) : Nat → List (Source C T) → List (Nat × T)
  | 0, _ => []
  | q + 1, s =>
    match pick ts s 0 none with
    | none => []
    | some (i, e) => (i, e) :: popTrace ts q (popAt s i)

theorem mem_heads (s : List (Source C T)) (j : Nat) (x : T) :
    (j, x) ∈ heads s ↔ ∃ src, s[j]? = some src ∧ src.elements.head? = some x := by
  unfold heads
  rw [List.mem_filterMap]
  constructor
  · rintro ⟨⟨src, i⟩, hm, hf⟩
    rw [List.mem_zipIdx_iff_getElem?] at hm
    simp only [Option.map_eq_some_iff, Prod.mk.injEq] at hf
    obtain ⟨a, ha, rfl, rfl⟩ := hf
    exact ⟨src, hm, ha⟩
  · rintro ⟨src, hs, hh⟩
    refine ⟨(src, j), ?_, ?_⟩
    · rw [List.mem_zipIdx_iff_getElem?]; exact hs
    · simp [hh]

/-! ### `pick` -/

theorem pick_eq_none (ts : T → Int) (s : List (Source C T)) (i : Nat) (best : Option (Nat × T)) :
    pick ts s i best = none ↔ best = none ∧ ∀ src ∈ s, src.elements = [] := by
  induction s generalizing i best with
  | nil => simp [pick]
  | cons src rest ih =>
    unfold pick
    split
    · next he => rw [ih]; simp [he]
    · next e l he =>
      split
      · rw [ih]; simp [he]
      · next j b =>
        split <;> (rw [ih]; simp [he])

theorem pick_spec (ts : T → Int) (s : List (Source C T)) (i : Nat) (best : Option (Nat × T))
    (j : Nat) (e : T) (h : pick ts s i best = some (j, e)) :
    (best = some (j, e) ∧
      ∀ (k : Nat) (src : Source C T) (x : T), s[k]? = some src → src.elements.head? = some x → ts x ≤ ts e) ∨
    (∃ k src, j = i + k ∧ s[k]? = some src ∧ src.elements.head? = some e ∧
      (∀ b, best = some b → ts b.2 < ts e) ∧
      (∀ (k' : Nat) (src' : Source C T) (x : T), k' < k → s[k']? = some src' → src'.elements.head? = some x → ts x < ts e) ∧
      (∀ (k' : Nat) (src' : Source C T) (x : T), s[k']? = some src' → src'.elements.head? = some x → ts x ≤ ts e)) := by
  induction s generalizing i best with
  | nil =>
    simp only [pick] at h
    left; exact ⟨h, by simp⟩
  | cons src rest ih =>
    unfold pick at h
    split at h
    · next he =>
      rcases ih _ _ h with ⟨hb, hle⟩ | ⟨k, src0, hj, hk, hh, hb, hlt, hle⟩
      · left
        refine ⟨hb, ?_⟩
        intro k' src' x hk' hx
        cases k' with
        | zero => simp at hk'; subst hk'; simp [he] at hx
        | succ k' => exact hle k' src' x (by simpa using hk') hx
      · right
        refine ⟨k + 1, src0, by omega, by simpa using hk, hh, hb, ?_, ?_⟩
        · intro k' src' x hlt' hk' hx
          cases k' with
          | zero => simp at hk'; subst hk'; simp [he] at hx
          | succ k' => exact hlt k' src' x (by omega) (by simpa using hk') hx
        · intro k' src' x hk' hx
          cases k' with
          | zero => simp at hk'; subst hk'; simp [he] at hx
          | succ k' => exact hle k' src' x (by simpa using hk') hx
    · next e0 l he =>
      split at h
      · -- best = none
        rcases ih _ _ h with ⟨hb, hle⟩ | ⟨k, src0, hj, hk, hh, hb, hlt, hle⟩
        · simp only [Option.some.injEq, Prod.mk.injEq] at hb
          obtain ⟨rfl, rfl⟩ := hb
          right
          refine ⟨0, src, by omega, by simp, by simp [he], by simp, by omega, ?_⟩
          intro k' src' x hk' hx
          cases k' with
          | zero =>
            simp at hk'; subst hk'; simp [he] at hx; subst hx; exact Int.le_refl _
          | succ k' => exact hle k' src' x (by simpa using hk') hx
        · have h0 : ts e0 < ts e := hb (i, e0) rfl
          right
          refine ⟨k + 1, src0, by omega, by simpa using hk, hh, by simp, ?_, ?_⟩
          · intro k' src' x hlt' hk' hx
            cases k' with
            | zero => simp at hk'; subst hk'; simp [he] at hx; subst hx; exact h0
            | succ k' => exact hlt k' src' x (by omega) (by simpa using hk') hx
          · intro k' src' x hk' hx
            cases k' with
            | zero =>
              simp at hk'; subst hk'; simp [he] at hx; subst hx; exact Int.le_of_lt h0
            | succ k' => exact hle k' src' x (by simpa using hk') hx
      · next j0 b =>
        split at h
        · next hgt =>
          rcases ih _ _ h with ⟨hb, hle⟩ | ⟨k, src0, hj, hk, hh, hb, hlt, hle⟩
          · simp only [Option.some.injEq, Prod.mk.injEq] at hb
            obtain ⟨rfl, rfl⟩ := hb
            right
            refine ⟨0, src, by omega, by simp, by simp [he], ?_, by omega, ?_⟩
            · intro b' hb'
              simp only [Option.some.injEq] at hb'
              subst hb'
              exact hgt
            · intro k' src' x hk' hx
              cases k' with
              | zero =>
                simp at hk'; subst hk'; simp [he] at hx; subst hx; exact Int.le_refl _
              | succ k' => exact hle k' src' x (by simpa using hk') hx
          · have h0 : ts e0 < ts e := hb (i, e0) rfl
            right
            refine ⟨k + 1, src0, by omega, by simpa using hk, hh, ?_, ?_, ?_⟩
            · intro b' hb'
              simp only [Option.some.injEq] at hb'
              subst hb'
              have : ts b < ts e0 := hgt
              show ts b < ts e
              omega
            · intro k' src' x hlt' hk' hx
              cases k' with
              | zero => simp at hk'; subst hk'; simp [he] at hx; subst hx; exact h0
              | succ k' => exact hlt k' src' x (by omega) (by simpa using hk') hx
            · intro k' src' x hk' hx
              cases k' with
              | zero =>
                simp at hk'; subst hk'; simp [he] at hx; subst hx; exact Int.le_of_lt h0
              | succ k' => exact hle k' src' x (by simpa using hk') hx
        · next hngt =>
          have hle0 : ts e0 ≤ ts b := by
            have : ¬ ts b < ts e0 := hngt
            omega
          rcases ih _ _ h with ⟨hb, hle⟩ | ⟨k, src0, hj, hk, hh, hb, hlt, hle⟩
          · simp only [Option.some.injEq, Prod.mk.injEq] at hb
            obtain ⟨rfl, rfl⟩ := hb
            left
            refine ⟨rfl, ?_⟩
            intro k' src' x hk' hx
            cases k' with
            | zero => simp at hk'; subst hk'; simp [he] at hx; subst hx; exact hle0
            | succ k' => exact hle k' src' x (by simpa using hk') hx
          · have h0 : ts b < ts e := hb (j0, b) rfl
            right
            refine ⟨k + 1, src0, by omega, by simpa using hk, hh, ?_, ?_, ?_⟩
            · intro b' hb'
              simp only [Option.some.injEq] at hb'
              subst hb'
              exact h0
            · intro k' src' x hlt' hk' hx
              cases k' with
              | zero => simp at hk'; subst hk'; simp [he] at hx; subst hx; omega
              | succ k' => exact hlt k' src' x (by omega) (by simpa using hk') hx
            · intro k' src' x hk' hx
              cases k' with
              | zero => simp at hk'; subst hk'; simp [he] at hx; subst hx; omega
              | succ k' => exact hle k' src' x (by simpa using hk') hx

/-- Top-level specification of the scan. -/
theorem pick_top (ts : T → Int) (s : List (Source C T)) (i : Nat) (e : T)
    (h : pick ts s 0 none = some (i, e)) :
    ∃ src, s[i]? = some src ∧ src.elements.head? = some e ∧
      (∀ (k' : Nat) (src' : Source C T) (x : T), k' < i → s[k']? = some src' → src'.elements.head? = some x → ts x < ts e) ∧
      (∀ (k' : Nat) (src' : Source C T) (x : T), s[k']? = some src' → src'.elements.head? = some x → ts x ≤ ts e) := by
  rcases pick_spec ts s 0 none i e h with ⟨hb, _⟩ | ⟨k, src, hj, hk, hh, _, hlt, hle⟩
  · simp at hb
  · have : i = k := by omega
    subst this
    exact ⟨src, hk, hh, hlt, hle⟩

/-! ### `popAt` -/

theorem popAt_eq_set (s : List (Source C T)) (i : Nat) (src : Source C T) (h : s[i]? = some src) :
    popAt s i = s.set i { src with elements := src.elements.tail } := by
  induction s generalizing i with
  | nil => simp at h
  | cons a rest ih =>
    cases i with
    | zero => simp at h; subst h; simp [popAt]
    | succ i => simp at h; simp [popAt, ih i h]

theorem popAt_total (s : List (Source C T)) (i : Nat) (src : Source C T) (h : s[i]? = some src)
    (hne : src.elements ≠ []) : total (popAt s i) + 1 = total s := by
  induction s generalizing i with
  | nil => simp at h
  | cons a rest ih =>
    cases i with
    | zero =>
      simp at h; subst h
      have : 0 < a.elements.length := List.length_pos_iff.mpr hne
      simp [popAt, total]; omega
    | succ i =>
      simp at h
      have := ih i h
      simp [popAt, total] at this ⊢; omega

theorem total_eq_zero (s : List (Source C T)) (h : ∀ src ∈ s, src.elements = []) : total s = 0 := by
  induction s with
  | nil => rfl
  | cons a rest ih =>
    have h1 := h a (by simp)
    have h2 := ih (fun src hs => h src (by simp [hs]))
    simp [total] at h2 ⊢
    simp [h1, h2]

theorem pick_total (ts : T → Int) (s : List (Source C T)) (i : Nat) (e : T)
    (h : pick ts s 0 none = some (i, e)) : total (popAt s i) + 1 = total s := by
  obtain ⟨src, hs, hh, _, _⟩ := pick_top ts s i e h
  refine popAt_total s i src hs ?_
  intro hn; simp [hn] at hh

/-! ### unfolding `microharvest`, `take`, `skip` -/

theorem microharvest_of_none (ts : T → Int) (s : List (Source C T))
    (h : pick ts s 0 none = none) : microharvest ts s = (none, s) := by
  simp [microharvest, h]

theorem microharvest_of_some (ts : T → Int) (s : List (Source C T)) (i : Nat) (e : T)
    (h : pick ts s 0 none = some (i, e)) : microharvest ts s = (some e, popAt s i) := by
  simp [microharvest, h]

theorem take_succ_none (ts : T → Int) (q : Nat) (s : List (Source C T))
    (h : pick ts s 0 none = none) : take ts (q + 1) s = ([], none) := by
  simp [take, microharvest_of_none ts s h]

theorem take_succ_some (ts : T → Int) (q : Nat) (s : List (Source C T)) (i : Nat) (e : T)
    (h : pick ts s 0 none = some (i, e)) :
    take ts (q + 1) s = (e :: (take ts q (popAt s i)).1, (take ts q (popAt s i)).2) := by
  simp [take, microharvest_of_some ts s i e h]

theorem skip_succ_none (ts : T → Int) (n : Nat) (s : List (Source C T))
    (h : pick ts s 0 none = none) : skip ts (n + 1) s = skip ts n s := by
  simp [skip, microharvest_of_none ts s h]

theorem skip_succ_some (ts : T → Int) (n : Nat) (s : List (Source C T)) (i : Nat) (e : T)
    (h : pick ts s 0 none = some (i, e)) : skip ts (n + 1) s = skip ts n (popAt s i) := by
  simp [skip, microharvest_of_some ts s i e h]

/-! ### property-level lemmas -/

theorem microharvest_spec (ts : T → Int) (s : List (Source C T)) (e : T) (s' : List (Source C T))
    (h : microharvest ts s = (some e, s')) :
    ∃ i src, s[i]? = some src ∧ src.elements.head? = some e ∧
      (∀ j x, (j, x) ∈ heads s → ts x ≤ ts e) ∧
      (∀ j x, (j, x) ∈ heads s → j < i → ts x < ts e) ∧
      s' = s.set i { src with elements := src.elements.tail } := by
  cases hp : pick ts s 0 none with
  | none => rw [microharvest_of_none ts s hp] at h; simp at h
  | some p =>
    obtain ⟨i, e0⟩ := p
    rw [microharvest_of_some ts s i e0 hp] at h
    simp only [Prod.mk.injEq, Option.some.injEq] at h
    obtain ⟨rfl, rfl⟩ := h
    obtain ⟨src, hs, hh, hlt, hle⟩ := pick_top ts s i e0 hp
    refine ⟨i, src, hs, hh, ?_, ?_, popAt_eq_set s i src hs⟩
    · intro j x hm
      obtain ⟨src', h1, h2⟩ := (mem_heads s j x).mp hm
      exact hle j src' x h1 h2
    · intro j x hm hji
      obtain ⟨src', h1, h2⟩ := (mem_heads s j x).mp hm
      exact hlt j src' x hji h1 h2

theorem microharvest_none (ts : T → Int) (s : List (Source C T)) :
    (microharvest ts s).1 = none ↔ ∀ src ∈ s, src.elements = [] := by
  cases hp : pick ts s 0 none with
  | none =>
    rw [microharvest_of_none ts s hp]
    have := (pick_eq_none ts s 0 none).mp hp
    simpa using this.2
  | some p =>
    obtain ⟨i, e0⟩ := p
    rw [microharvest_of_some ts s i e0 hp]
    constructor
    · intro h; simp at h
    · intro h
      have := (pick_eq_none ts s 0 none).mpr ⟨rfl, h⟩
      rw [hp] at this; simp at this

theorem take_is_trace (ts : T → Int) (q : Nat) (s : List (Source C T)) :
    (take ts q s).1 = (popTrace ts q s).map (·.2) := by
  induction q generalizing s with
  | zero => simp [take, popTrace]
  | succ q ih =>
    cases hp : pick ts s 0 none with
    | none => rw [take_succ_none ts q s hp]; simp [popTrace, hp]
    | some p =>
      obtain ⟨i, e⟩ := p
      rw [take_succ_some ts q s i e hp]
      simp [popTrace, hp, ih]

theorem take_exactly_once (ts : T → Int) (q : Nat) (s : List (Source C T)) (s' : List (Source C T))
    (h : (take ts q s).2 = some s') (i : Nat) (src : Source C T) (hi : s[i]? = some src) :
    ∃ src', s'[i]? = some src' ∧
      ((popTrace ts q s).filter (fun p => p.1 = i)).map (·.2) ++ src'.elements = src.elements := by
  induction q generalizing s src with
  | zero =>
    simp [take] at h; subst h
    exact ⟨src, hi, by simp [popTrace]⟩
  | succ q ih =>
    cases hp : pick ts s 0 none with
    | none => rw [take_succ_none ts q s hp] at h; simp at h
    | some p =>
      obtain ⟨j, e⟩ := p
      rw [take_succ_some ts q s j e hp] at h
      simp only at h
      obtain ⟨srcj, hsj, hh, _, _⟩ := pick_top ts s j e hp
      have hlen : j < s.length := by
        rcases Nat.lt_or_ge j s.length with h1 | h1
        · exact h1
        · rw [List.getElem?_eq_none h1] at hsj; simp at hsj
      by_cases hji : j = i
      · subst hji
        rw [hsj] at hi
        simp only [Option.some.injEq] at hi
        subst hi
        have hpop : (popAt s j)[j]? = some { srcj with elements := srcj.elements.tail } := by
          rw [popAt_eq_set s j srcj hsj, List.getElem?_set_self hlen]
        obtain ⟨src', h1, h2⟩ := ih (popAt s j) h _ hpop
        refine ⟨src', h1, ?_⟩
        obtain ⟨l, hl⟩ := List.head?_eq_some_iff.mp hh
        simp only [popTrace, hp]
        simp [hl] at h2 ⊢
        exact h2
      · have hpop : (popAt s j)[i]? = some src := by
          rw [popAt_eq_set s j srcj hsj, List.getElem?_set_ne hji]; exact hi
        obtain ⟨src', h1, h2⟩ := ih (popAt s j) h src hpop
        refine ⟨src', h1, ?_⟩
        simp only [popTrace, hp]
        simp [hji]
        simpa using h2

theorem take_count (ts : T → Int) (q : Nat) (s : List (Source C T)) :
    match (take ts q s).2 with
    | some _ => (take ts q s).1.length = q
    | none => (take ts q s).1.length < q ∧ (take ts q s).1.length = total s := by
  induction q generalizing s with
  | zero => simp [take]
  | succ q ih =>
    cases hp : pick ts s 0 none with
    | none =>
      rw [take_succ_none ts q s hp]
      have := total_eq_zero s ((pick_eq_none ts s 0 none).mp hp).2
      simp [this]
    | some p =>
      obtain ⟨i, e⟩ := p
      rw [take_succ_some ts q s i e hp]
      have ht := pick_total ts s i e hp
      have := ih (popAt s i)
      simp only
      split at this
      · next h => simp [this]
      · next h => simp; omega

theorem exhausted_is_none (ts : T → Int) (q : Nat) (s : List (Source C T))
    (h : total s < q) : (take ts q s).2 = none := by
  have := take_count ts q s
  split at this
  · next s' hs =>
    exfalso
    -- length = q, but length ≤ total
    revert this hs h
    induction q generalizing s s' with
    | zero => intro h; omega
    | succ q ih =>
      intro h hs hl
      cases hp : pick ts s 0 none with
      | none => rw [take_succ_none ts q s hp] at hs; simp at hs
      | some p =>
        obtain ⟨i, e⟩ := p
        rw [take_succ_some ts q s i e hp] at hs hl
        have ht := pick_total ts s i e hp
        simp only at hs
        simp only [List.length_cons] at hl
        exact ih (popAt s i) s' (by omega) hs (by omega)
  · next h' => exact h'

theorem take_compose (ts : T → Int) (q₁ q₂ : Nat) (s s₁ : List (Source C T))
    (h : (take ts q₁ s).2 = some s₁) :
    (take ts (q₁ + q₂) s).1 = (take ts q₁ s).1 ++ (take ts q₂ s₁).1 ∧
    (take ts (q₁ + q₂) s).2 = (take ts q₂ s₁).2 := by
  induction q₁ generalizing s with
  | zero => simp [take] at h; subst h; simp [take]
  | succ q ih =>
    cases hp : pick ts s 0 none with
    | none => rw [take_succ_none ts q s hp] at h; simp at h
    | some p =>
      obtain ⟨i, e⟩ := p
      rw [take_succ_some ts q s i e hp] at h
      simp only at h
      have := ih (popAt s i) h
      rw [show q + 1 + q₂ = (q + q₂) + 1 by omega, take_succ_some ts _ s i e hp,
        take_succ_some ts q s i e hp]
      simp [this.1, this.2]

theorem take_eq_skip (ts : T → Int) (a : Nat) (s s₁ : List (Source C T))
    (h : (take ts a s).2 = some s₁) : s₁ = skip ts a s := by
  induction a generalizing s with
  | zero => simp [take] at h; subst h; simp [skip]
  | succ a ih =>
    cases hp : pick ts s 0 none with
    | none => rw [take_succ_none ts a s hp] at h; simp at h
    | some p =>
      obtain ⟨i, e⟩ := p
      rw [take_succ_some ts a s i e hp] at h
      rw [skip_succ_some ts a s i e hp]
      exact ih (popAt s i) h

theorem skip_take (ts : T → Int) (a q : Nat) (s : List (Source C T)) :
    (take ts (a + q) s).1.drop a = (take ts q (skip ts a s)).1 ∨ (take ts a s).2 = none := by
  cases h : (take ts a s).2 with
  | none => right; rfl
  | some s₁ =>
    left
    have hc := take_compose ts a q s s₁ h
    have hl := take_count ts a s
    rw [h] at hl
    simp only at hl
    rw [hc.1, ← take_eq_skip ts a s s₁ h, List.drop_left' hl]

theorem replenish_enough (hv : Hv C T) (n : Nat) (s : List (Source C T)) (i : Nat) (src : Source C T)
    (hi : s[i]? = some src) :
    ∃ src', (replenish hv n s)[i]? = some src' ∧ src.elements <+: src'.elements ∧
      (n ≤ src'.elements.length ∨ src.page = none ∨
        ∃ p, src.page = some p ∧
          (hv p (n - src.elements.length) src.basepoint).1.length < n - src.elements.length) := by
  unfold replenish
  rw [List.getElem?_map, hi]
  simp only [Option.map_some]
  refine ⟨_, rfl, ?_⟩
  cases hp : src.page with
  | none => simp
  | some p =>
    simp only
    split
    · next hlt =>
      simp only [List.prefix_append, List.length_append, true_and]
      by_cases hc : (hv p (n - src.elements.length) src.basepoint).1.length < n - src.elements.length
      · right; right; exact ⟨p, rfl, hc⟩
      · left; omega
    · next hge =>
      refine ⟨List.prefix_refl _, ?_⟩
      left; omega

end C11P
