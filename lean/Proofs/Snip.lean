import Proofs.Layout

/-
  `ansi.Snip`: height, width and prefix properties.
-/

namespace SnipP
open Str Ansi AnsiSpec LayoutP

abbrev ce (l : Str) : Str := collapse (expand l)

/-! ### Shape of the back-to-front loop -/

theorem lineIsOnlyWhitespace_nil : lineIsOnlyWhitespace [] = true := rfl

theorem snipLoop_ws (w : Int) (l : Str) (rest : List Str) (req : Bool)
    (h : lineIsOnlyWhitespace (expand l) = true) :
    snipLoop w (l :: rest) req = snipLoop w rest true := by
  simp [snipLoop, h]

theorem snipLoop_keep (w : Int) (l : Str) (rest : List Str) (req : Bool)
    (h : ¬ lineIsOnlyWhitespace (expand l) = true) :
    snipLoop w (l :: rest) req = (rest.reverse.map ce ++
      [collapse (if ((expand l).length : Int) = w && req then (expand l).dropLast else expand l)],
      req) := by
  simp [snipLoop, h]

/-- Either nothing is kept, or the loop skipped the whitespace-only lines `a`, kept `l`
    (possibly shortened by one match) and everything before it. -/
theorem snipLoop_shape (w : Int) : ∀ (L : List Str) (req : Bool),
    (snipLoop w L req).1 = [] ∨
    ∃ a l b x, L = a ++ l :: b ∧ (snipLoop w L req).1 = b.reverse.map ce ++ [x] ∧
      (x = ce l ∨ x = collapse (expand l).dropLast) := by
  intro L
  induction L with
  | nil => intro req; left; rfl
  | cons l rest ih =>
    intro req
    by_cases hws : lineIsOnlyWhitespace (expand l) = true
    · rw [snipLoop_ws w l rest req hws]
      rcases ih true with h | ⟨a, l', b, x, h1, h2, h3⟩
      · left; exact h
      · right
        exact ⟨l :: a, l', b, x, by simp [h1], h2, h3⟩
    · rw [snipLoop_keep w l rest req hws]
      right
      refine ⟨[], l, rest, _, rfl, rfl, ?_⟩
      split
      · right; rfl
      · left; rfl

theorem snipLoop_length (w : Int) (L : List Str) (req : Bool) :
    (snipLoop w L req).1.length ≤ L.length := by
  rcases snipLoop_shape w L req with h | ⟨a, l, b, x, h1, h2, _⟩
  · rw [h]; simp
  · rw [h2, h1]; simp <;> omega

theorem collapse_dropLast_prefix (cs : List RawCell) : collapse cs.dropLast <+: collapse cs := by
  obtain ⟨t, ht⟩ := List.dropLast_prefix cs
  refine ⟨collapse t, ?_⟩
  rw [← collapse_append, ht]

theorem snipLoop_no_nl (w : Int) (L : List Str) (req : Bool) (hL : ∀ l ∈ L, '\n' ∉ l) :
    ∀ k ∈ (snipLoop w L req).1, '\n' ∉ k := by
  rcases snipLoop_shape w L req with h | ⟨a, l, b, x, h1, h2, h3⟩
  · rw [h]; simp
  · intro k hk
    rw [h2] at hk
    simp only [List.mem_append, List.mem_map, List.mem_reverse, List.mem_singleton] at hk
    rcases hk with ⟨l', hl', rfl⟩ | rfl
    · rw [ce, collapse_expand]
      exact hL l' (by simp [h1, hl'])
    · have hl : '\n' ∉ l := hL l (by simp [h1])
      rcases h3 with rfl | rfl
      · rw [ce, collapse_expand]; exact hl
      · intro hmem
        have := (collapse_dropLast_prefix (expand l)).subset hmem
        rw [collapse_expand] at this
        exact hl this

/-! ### Height -/

theorem splitNL_no_nl (s : Str) : ∀ l ∈ splitNL s, '\n' ∉ l := by
  induction s with
  | nil => simp [splitNL]
  | cons c cs ih =>
    unfold splitNL
    split
    · simp
    · rename_i l ls heq
      rw [heq] at ih
      split
      · intro x hx
        simp only [List.mem_cons] at hx
        rcases hx with rfl | hx
        · simp
        · exact ih x (by simpa using hx)
      · rename_i hc
        intro x hx
        simp only [List.mem_cons] at hx
        rcases hx with rfl | hx
        · have := ih l (by simp)
          simp only [List.mem_cons, not_or]
          exact ⟨fun h => hc h.symm, this⟩
        · exact ih x (by simp [hx])

theorem countNL_append (a b : Str) : countNL (a ++ b) = countNL a + countNL b := by
  simp [countNL]

theorem countNL_of_not_mem {l : Str} (h : '\n' ∉ l) : countNL l = 0 := by
  simp [countNL, List.count_eq_zero, h]

theorem countNL_joinNL (ls : List Str) (h : ∀ l ∈ ls, '\n' ∉ l) :
    countNL (joinNL ls) = ls.length - 1 := by
  induction ls with
  | nil => rfl
  | cons l ls ih =>
    cases ls with
    | nil => simpa [joinNL] using countNL_of_not_mem (h l (by simp))
    | cons l' ls' =>
      rw [joinNL_cons_cons, countNL_append, countNL_of_not_mem (h l (by simp)),
        show '\n' :: joinNL (l' :: ls') = ['\n'] ++ joinNL (l' :: ls') from rfl, countNL_append,
        ih (fun x hx => h x (by simp [hx]))]
      simp [countNL]
      omega

theorem snip_height (text : Str) (w h : Int) (e : Str) (hh : 0 ≤ h) (he : '\n' ∉ e) :
    ∃ out, snip text w h e = .ok out ∧ (height out : Int) ≤ max h 1 := by
  have hnot : ¬ h < 0 := by omega
  simp only [snip, hnot, if_false]
  refine ⟨_, rfl, ?_⟩
  generalize hreq : decide ((splitNL text).length > h) = req
  generalize hn : (if ((splitNL text).length : Int) ≤ h then (splitNL text).length else h.toNat) = n
  have hlen := snipLoop_length w ((splitNL text).take n).reverse req
  have hno := snipLoop_no_nl w ((splitNL text).take n).reverse req (by
    intro l hl
    rw [List.mem_reverse] at hl
    exact splitNL_no_nl text l (List.mem_of_mem_take hl))
  have hcount := countNL_joinNL _ hno
  have hn' : (n : Int) ≤ max h 1 := by
    rw [← hn]; split <;> omega
  have he0 : countNL (if (snipLoop w ((splitNL text).take n).reverse req).2 = true then e else []) = 0 := by
    split
    · exact countNL_of_not_mem he
    · rfl
  simp only [List.length_reverse, List.length_take] at hlen
  rw [height, countNL_append, hcount, he0]
  omega

/-! ### Prefix -/

theorem snip_prefix_gen (w : Int) (lines T rest : List Str) (hl : lines = T ++ rest) (req : Bool) :
    let r := snipLoop w T.reverse req
    ∃ k, r.1.length = k ∧ k ≤ lines.length ∧
      (∀ i, i + 1 < k → r.1[i]? = (lines[i]?).map (fun l => collapse (expand l))) ∧
      (k > 0 → ∃ last, r.1[k - 1]? = some last ∧ ∃ l, lines[k - 1]? = some l ∧
          (last = collapse (expand l) ∨ last = collapse ((expand l).dropLast))) := by
  intro r
  rcases snipLoop_shape w T.reverse req with h | ⟨a, l, b, x, h1, h2, h3⟩
  · refine ⟨0, ?_, by omega, by intro i hi; omega, by intro h0; omega⟩
    show (snipLoop w T.reverse req).1.length = 0
    rw [h]; rfl
  · have hT : T = b.reverse ++ l :: a.reverse := by
      have := congrArg List.reverse h1
      simpa using this
    have hr : r.1 = b.reverse.map ce ++ [x] := h2
    have hlines : lines = b.reverse ++ l :: (a.reverse ++ rest) := by
      rw [hl, hT]; simp
    refine ⟨b.length + 1, ?_, ?_, ?_, ?_⟩
    · rw [hr]; simp
    · rw [hlines]; simp <;> omega
    · intro i hi
      have hi' : i < b.length := by omega
      rw [hr, hlines, List.getElem?_append_left (by simpa using hi'),
        List.getElem?_append_left (by simpa using hi'), List.getElem?_map]
    · intro _
      refine ⟨x, ?_, l, ?_, h3⟩
      · rw [hr, List.getElem?_append_right (by simp)]
        simp
      · rw [hlines, List.getElem?_append_right (by simp)]
        simp

/-! ### Width -/

theorem snip_width (lines : List Str) (w : Int) (req : Bool)
    (hfit : ∀ l ∈ lines, ((expand l).length : Int) ≤ w) :
    let r := snipLoop w lines req
    ∀ i l, r.1[i]? = some l → ∃ cs : List RawCell, l = collapse cs ∧
      ((cs.length : Int) + (if i + 1 = r.1.length ∧ r.2 then 1 else 0) ≤ w ∨ w ≤ 0) := by
  induction lines generalizing req with
  | nil =>
    intro r i l h
    simp [r, snipLoop] at h
  | cons l0 rest ih =>
    intro r
    have hrest : ∀ l ∈ rest, ((expand l).length : Int) ≤ w := fun l hl => hfit l (by simp [hl])
    by_cases hws : lineIsOnlyWhitespace (expand l0) = true
    · have hr : r = snipLoop w rest true := snipLoop_ws w l0 rest req hws
      rw [hr]
      exact ih true hrest
    · have hr : r = (rest.reverse.map ce ++
          [collapse (if ((expand l0).length : Int) = w && req then (expand l0).dropLast else expand l0)],
          req) := snipLoop_keep w l0 rest req hws
      have hne : expand l0 ≠ [] := by
        intro h0; rw [h0] at hws; exact hws lineIsOnlyWhitespace_nil
      have hpos : (expand l0).length > 0 := List.length_pos_iff.mpr hne
      have hfit0 := hfit l0 (by simp)
      intro i l h
      rw [hr] at h ⊢
      simp only at h ⊢
      by_cases hi : i < rest.length
      · rw [List.getElem?_append_left (by simpa using hi), List.getElem?_map] at h
        simp only [List.length_append, List.length_map, List.length_reverse, List.length_cons,
          List.length_nil]
        cases hx : rest.reverse[i]? with
        | none => rw [hx] at h; simp at h
        | some l' =>
          rw [hx] at h
          simp at h
          have hmem : l' ∈ rest := by
            have := List.mem_of_getElem? hx
            simpa using this
          refine ⟨expand l', h.symm, Or.inl ?_⟩
          have := hrest l' hmem
          have hne' : ¬ (i + 1 = rest.length + (0 + 1) ∧ req = true) := by omega
          rw [if_neg hne']
          omega
      · by_cases hi2 : i = rest.length
        · subst hi2
          rw [List.getElem?_append_right (by simp)] at h
          simp at h
          refine ⟨_, h.symm, Or.inl ?_⟩
          simp only [List.length_append, List.length_map, List.length_reverse, List.length_cons,
            List.length_nil]
          cases req with
          | false => simp; omega
          | true =>
            by_cases hw : ((expand l0).length : Int) = w
            · simp [hw]; omega
            · simp [hw]; omega
        · have : (rest.reverse.map ce ++
              [collapse (if ((expand l0).length : Int) = w && req then (expand l0).dropLast else expand l0)])[i]? = none := by
            apply List.getElem?_eq_none
            simp; omega
          rw [this] at h
          cases h

end SnipP
