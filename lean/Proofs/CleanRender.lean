import Proofs.CleanStyle

/-
  The three renderers produce clean text.
-/

namespace Cells
open Str Ansi Hypertext Dom

/-! ### Hypertext helpers -/

theorem clean_mergeText (l r : Str) (hl : Clean l) (hr : Clean r) : Clean (mergeText l r) := by
  unfold mergeText
  have h1 := clean_trimRight' isSpNl isSpNl_spec l hl
  have h2 := clean_trimLeft' isSpNl isSpNl_spec r hr
  simp only
  split
  · exact clean_append _ _ h1 h2
  · split
    · exact clean_append _ _ h1 (clean_cons ' ' (Or.inr (by decide)) _ h2)
    · split
      · exact clean_append _ _ h1 (clean_cons '\n' (Or.inl rfl) _ h2)
      · exact clean_append _ _ h1 (clean_cons '\n' (Or.inl rfl) _ (clean_cons '\n' (Or.inl rfl) _ h2))

theorem clean_block (t : Str) (h : Clean t) : Clean (block t) := by
  unfold block
  refine clean_cons '\n' (Or.inl rfl) _ (clean_cons '\n' (Or.inl rfl) _ ?_)
  exact clean_append _ _ (clean_trim isSpNl isSpNl_spec t h) (clean_plain _ (by decide))

theorem getAttribute_noCtl (name : Str) (attrs : List (Str × Str)) :
    Safe.noCtl (getAttribute name attrs) = true := by
  unfold getAttribute
  split
  · exact scrub_noCtl _
  · rfl

theorem clean_getAttribute (name : Str) (attrs : List (Str × Str)) :
    Clean (getAttribute name attrs) := clean_plain _ (getAttribute_noCtl name attrs)

theorem clean_situationalWrap (t : Str) (ctx : Ctx) (h : Clean t) : Clean (situationalWrap t ctx) := by
  unfold situationalWrap
  split
  · exact h
  · split
    · exact clean_dumbWrap _ _ h
    · exact clean_wrap _ _ h

theorem clean_hrText (w : Int) (t : Str) (h : hrText w = .ok t) : Clean t := by
  unfold hrText at h
  split at h
  · cases h; exact clean_block _ clean_nil
  · unfold goRepeat at h
    split at h
    · cases h
    · cases h
      exact clean_block _ (clean_plain _ (noCtl_rep _ _ (by decide)))

theorem tag_noCtl (tag : Str) (h : (tag.all fun ch => !Uni.isControl ch) = true) :
    Safe.noCtl tag = true := by
  rw [noCtl_iff]
  intro c hc
  rw [List.all_eq_true] at h
  right
  simpa using h c hc

section
variable (c : Colors) (hc : ColorsOk c)
include hc

theorem clean_badOpen (tag : Str) (h : (tag.all fun ch => !Uni.isControl ch) = true) :
    Clean (Style.red c ('<' :: tag ++ ['>'])) := by
  apply clean_red c hc
  apply clean_plain
  have := tag_noCtl tag h
  rw [noCtl_iff] at this ⊢
  intro x hx
  simp only [List.cons_append, List.mem_cons, List.mem_append, List.not_mem_nil, or_false] at hx
  rcases hx with rfl | hx | rfl
  · right; decide
  · exact this x hx
  · right; decide

theorem clean_badClose (tag : Str) (h : (tag.all fun ch => !Uni.isControl ch) = true) :
    Clean (Style.red c ('<' :: '/' :: tag ++ ['>'])) := by
  apply clean_red c hc
  apply clean_plain
  have := tag_noCtl tag h
  rw [noCtl_iff] at this ⊢
  intro x hx
  simp only [List.cons_append, List.mem_cons, List.mem_append, List.not_mem_nil, or_false] at hx
  rcases hx with rfl | rfl | hx | rfl
  · right; decide
  · right; decide
  · exact this x hx
  · right; decide

theorem elem_clean (tag : Str) (attrs : List (Str × Str)) (kids : List Node)
    (htag : (tag.all fun ch => !Uni.isControl ch) = true)
    (hk : ∀ ctx sl links, Clean (renderChildren c kids ctx sl links).1)
    (hb : ∀ ctx links, Clean (bulleted c kids ctx links).1) :
    ∀ ctx pl links, Clean (renderNode c (.elem tag attrs kids) ctx pl links).1 := by
  intro ctx pl links
  rw [renderNode]
  by_cases h1 : tag = "a".toList
  · rw [if_pos h1]
    by_cases h2 : (getAttribute "href".toList attrs).isEmpty = true
    · rw [if_pos h2]; exact hk _ _ _
    · rw [if_neg h2]; exact clean_link c hc _ _ (hk _ _ _)
  rw [if_neg h1]
  by_cases h2 : tagIn tag ["s", "del"] = true
  · rw [if_pos h2]; exact clean_strikethrough _ (hk _ _ _)
  rw [if_neg h2]
  by_cases h3 : tag = "code".toList
  · rw [if_pos h3]; exact clean_code c hc _ (hk _ _ _)
  rw [if_neg h3]
  by_cases h4 : tagIn tag ["i", "em"] = true
  · rw [if_pos h4]; exact clean_italic _ (hk _ _ _)
  rw [if_neg h4]
  by_cases h5 : tagIn tag ["b", "strong"] = true
  · rw [if_pos h5]; exact clean_bold _ (hk _ _ _)
  rw [if_neg h5]
  by_cases h6 : tagIn tag ["u", "ins"] = true
  · rw [if_pos h6]; exact clean_underline _ (hk _ _ _)
  rw [if_neg h6]
  by_cases h7 : tag = "mark".toList
  · rw [if_pos h7]; exact clean_highlight c hc _ (hk _ _ _)
  rw [if_neg h7]
  by_cases h8 : tag = "span".toList
  · rw [if_pos h8]; exact hk _ _ _
  rw [if_neg h8]
  by_cases h9 : tag = "li".toList
  · rw [if_pos h9]; exact clean_trim isSpNl isSpNl_spec _ (hk _ _ _)
  rw [if_neg h9]
  by_cases h10 : tag = "br".toList
  · rw [if_pos h10]; exact clean_nl
  rw [if_neg h10]
  by_cases h11 : tagIn tag ["p", "div"] = true
  · rw [if_pos h11]; exact clean_block _ (hk _ _ _)
  rw [if_neg h11]
  by_cases h12 : tag = "pre".toList
  · rw [if_pos h12]
    exact clean_block _ (clean_codeBlock c hc _ (clean_pad _ _ (clean_situationalWrap _ _ (hk _ _ _))))
  rw [if_neg h12]
  by_cases h13 : tag = "blockquote".toList
  · rw [if_pos h13]
    exact clean_block _ (clean_quoteBlock c hc _
      (clean_trim isSpNl isSpNl_spec _ (clean_situationalWrap _ _ (hk _ _ _))))
  rw [if_neg h13]
  by_cases h14 : tag = "ul".toList
  · rw [if_pos h14]
    by_cases hp : pl = true
    · rw [if_pos hp]; exact hb _ _
    · rw [if_neg hp]; exact clean_block _ (hb _ _)
  rw [if_neg h14]
  cases hh : headerLevel tag with
  | some k =>
    exact clean_block _ (clean_header c hc _ _ (clean_situationalWrap _ _ (hk _ _ _)))
  | none =>
  show Clean (Prod.fst (if tag = "hr".toList then _ else _))
  by_cases h15 : tag = "hr".toList
  · rw [if_pos h15]
    cases ht : hrText ctx.width with
    | ok t => exact clean_hrText _ t ht
    | error e => exact clean_nil
  rw [if_neg h15]
  by_cases h16 : tagIn tag ["img", "video", "audio", "iframe"] = true
  · rw [if_pos h16]
    have halt : Clean (if (getAttribute (if tag = "iframe".toList then "title".toList else "alt".toList)
          attrs).isEmpty = true then getAttribute "src".toList attrs
        else getAttribute (if tag = "iframe".toList then "title".toList else "alt".toList) attrs) := by
      by_cases ha : (getAttribute (if tag = "iframe".toList then "title".toList else "alt".toList)
          attrs).isEmpty = true
      · rw [if_pos ha]; exact clean_getAttribute _ _
      · rw [if_neg ha]; exact clean_getAttribute _ _
    by_cases hl : (getAttribute "src".toList attrs).isEmpty = true
    · rw [if_pos hl]; exact clean_block _ halt
    · rw [if_neg hl]
      exact clean_block _ (clean_linkBlock c hc _ _ (clean_situationalWrap _ _ halt))
  · rw [if_neg h16]
    exact clean_append _ _ (clean_append _ _ (clean_badOpen c hc tag htag) (hk _ _ _))
      (clean_badClose c hc tag htag)


set_option linter.unusedSectionVars false in
mutual

theorem node_clean : (n : Node) → tagsClean n = true →
    ∀ ctx pl links, Clean (renderNode c n ctx pl links).1
  | .other, _ => by
    intro ctx pl links
    rw [renderNode]
    exact clean_nil
  | .text d, _ => by
    intro ctx pl links
    rw [renderNode]
    by_cases hp : (!ctx.preserve) = true
    · rw [if_pos hp]; exact clean_plain _ (scrub_noCtl _)
    · rw [if_neg hp]; exact clean_plain _ (scrub_noCtl _)
  | .elem tag attrs kids, h => by
    rw [tagsClean, Bool.and_eq_true] at h
    exact elem_clean c hc tag attrs kids h.1
      (fun ctx sl links => by
        rw [renderChildren]; exact kids_clean kids h.2 ctx sl links [] clean_nil)
      (fun ctx links => by
        rw [bulleted]; exact bkids_clean kids h.2 ctx links [] clean_nil)

theorem kids_clean : (kids : List Node) → tagsCleanList kids = true →
    ∀ ctx sl links acc, Clean acc → Clean (renderKids c kids ctx sl links acc).1
  | [], _ => by
    intro ctx sl links acc hacc
    rw [renderKids]
    exact hacc
  | k :: ks, h => by
    intro ctx sl links acc hacc
    rw [tagsCleanList, Bool.and_eq_true] at h
    rw [renderKids]
    exact kids_clean ks h.2 _ _ _ _ (clean_mergeText _ _ hacc (node_clean k h.1 _ _ _))

theorem bkids_clean : (kids : List Node) → tagsCleanList kids = true →
    ∀ ctx links acc, Clean acc → Clean (bulletedKids c kids ctx links acc).1
  | [], _ => by
    intro ctx links acc hacc
    rw [bulletedKids]
    exact hacc
  | .other :: ks, h => by
    intro ctx links acc hacc
    rw [tagsCleanList, Bool.and_eq_true] at h
    rw [bulletedKids]
    · exact bkids_clean ks h.2 _ _ _ hacc
    · intro _ _ _ he; cases he
  | .text d :: ks, h => by
    intro ctx links acc hacc
    rw [tagsCleanList, Bool.and_eq_true] at h
    rw [bulletedKids]
    · exact bkids_clean ks h.2 _ _ _ hacc
    · intro _ _ _ he; cases he
  | .elem tag attrs gk :: ks, h => by
    intro ctx links acc hacc
    rw [tagsCleanList, Bool.and_eq_true] at h
    have hn := node_clean (.elem tag attrs gk) h.1
    have h' := h.1
    rw [tagsClean, Bool.and_eq_true] at h'
    have hg := kids_clean gk h'.2
    rw [bulletedKids]
    apply bkids_clean ks h.2
    apply clean_append _ _ hacc
    apply clean_cons '\n' (Or.inl rfl)
    apply clean_bullet
    apply clean_situationalWrap
    by_cases hli : tag = "li".toList
    · rw [if_pos hli]; exact hn _ _ _
    · rw [if_neg hli]
      rw [renderChildren]
      exact clean_append _ _ (clean_append _ _ (clean_badOpen c hc tag h'.1) (hg _ _ _ _ clean_nil))
        (clean_badClose c hc tag h'.1)

end

theorem html_clean (nodes : List Dom.Node) (ht : tagsCleanList nodes = true) (w : Int) :
    Clean (Markup.htmlR c nodes w) := by
  unfold Markup.htmlR renderWithLinks renderFull
  exact clean_trim isSpNl isSpNl_spec _ (clean_wrap _ _ (kids_clean c hc nodes ht _ _ _ _ clean_nil))

end

end Cells
