import Model

/-
  Helper lemmas for C04: the strict request reader applied to the request template, and the
  "https only" property of `get`.
-/

namespace Jtp
open Str
variable {Doc : Type}

def noCRLF (s : Str) : Prop := '\r' ∉ s ∧ '\n' ∉ s

theorem splitCRLF_cons_ne {c : Char} (cs : Str) (hc : c ≠ '\r') :
    splitCRLF (c :: cs) = match splitCRLF cs with
      | some (a, b) => some (c :: a, b)
      | none => none := by
  rw [splitCRLF.eq_def]
  split
  · simp_all
  · simp_all
  · rename_i c' cs' _ heq
    cases heq; rfl

theorem splitCRLF_append : ∀ (a rest : Str), '\r' ∉ a →
    splitCRLF (a ++ '\r' :: '\n' :: rest) = some (a, rest)
  | [], rest, _ => by simp [splitCRLF]
  | c :: a, rest, h => by
    have hc : c ≠ '\r' := fun e => h (by simp [e])
    have ha : '\r' ∉ a := fun e => h (by simp [e])
    rw [List.cons_append, splitCRLF_cons_ne _ hc, splitCRLF_append a rest ha]

theorem readHeaders_two (h a rest : Str) (h2 : '\r' ∉ h) (h3 : '\r' ∉ a)
    (n2 : h.isEmpty = false) (n3 : a.isEmpty = false) (fuel : Nat) (hf : 3 ≤ fuel) :
    readHeaders fuel (h ++ '\r' :: '\n' :: (a ++ '\r' :: '\n' :: ([] ++ '\r' :: '\n' :: rest))) =
      some ([h, a], rest) := by
  obtain ⟨n, rfl⟩ : ∃ n, fuel = n + 3 := ⟨fuel - 3, by omega⟩
  simp only [readHeaders, splitCRLF_append _ _ h2, splitCRLF_append _ _ h3,
    splitCRLF_append [] rest (by simp), n2, n3, List.isEmpty_nil]
  simp

theorem request_exact' (uri host accept : Str) (hu : noCRLF uri) (hh : noCRLF host) (ha : noCRLF accept) :
    parseReq (request uri host accept) =
      some ⟨"GET ".toList ++ uri ++ " HTTP/1.0".toList,
            ["Host: ".toList ++ host, "Accept: ".toList ++ accept], []⟩ := by
  have l1 : " HTTP/1.0\r\nHost: ".toList = " HTTP/1.0".toList ++ '\r' :: '\n' :: "Host: ".toList := by
    decide
  have l2 : "\r\nAccept: ".toList = '\r' :: '\n' :: "Accept: ".toList := by decide
  have l3 : "\r\n\r\n".toList = '\r' :: '\n' :: ([] ++ '\r' :: '\n' :: []) := by decide
  have e : request uri host accept =
      ("GET ".toList ++ uri ++ " HTTP/1.0".toList) ++ '\r' :: '\n' ::
        (("Host: ".toList ++ host) ++ '\r' :: '\n' ::
          (("Accept: ".toList ++ accept) ++ '\r' :: '\n' :: ([] ++ '\r' :: '\n' :: []))) := by
    unfold request
    simp only [l1, l2, l3, List.append_assoc, List.cons_append, List.nil_append]
  have g1 : '\r' ∉ "GET ".toList := by decide
  have g2 : '\r' ∉ " HTTP/1.0".toList := by decide
  have g3 : '\r' ∉ "Host: ".toList := by decide
  have g4 : '\r' ∉ "Accept: ".toList := by decide
  have h1 : '\r' ∉ "GET ".toList ++ uri ++ " HTTP/1.0".toList := by
    simp only [List.mem_append, not_or]; exact ⟨⟨g1, hu.1⟩, g2⟩
  have h2 : '\r' ∉ "Host: ".toList ++ host := by
    simp only [List.mem_append, not_or]; exact ⟨g3, hh.1⟩
  have h3 : '\r' ∉ "Accept: ".toList ++ accept := by
    simp only [List.mem_append, not_or]; exact ⟨g4, ha.1⟩
  have n2 : ("Host: ".toList ++ host).isEmpty = false := by
    rw [show "Host: ".toList = 'H' :: "ost: ".toList by decide]; rfl
  have n3 : ("Accept: ".toList ++ accept).isEmpty = false := by
    rw [show "Accept: ".toList = 'A' :: "ccept: ".toList by decide]; rfl
  rw [e]
  unfold parseReq
  rw [splitCRLF_append _ _ h1]
  simp only
  rw [readHeaders_two _ _ _ h2 h3 n2 n3 _ (by simp only [List.length_append, List.length_cons]; omega)]

theorem request_length' (uri host accept : Str) :
    (request uri host accept).length = uri.length + host.length + accept.length + 35 := by
  have l0 : "GET ".toList.length = 4 := by decide
  have l1 : " HTTP/1.0\r\nHost: ".toList.length = 17 := by decide
  have l2 : "\r\nAccept: ".toList.length = 10 := by decide
  have l3 : "\r\n\r\n".toList.length = 4 := by decide
  unfold request
  simp only [List.length_append, l0, l1, l2, l3]
  omega

theorem request_injection' :
    (parseReq (request "/x\r\nX-Evil: 1".toList "h".toList "a".toList)).map (·.headers.length) = some 3 := by
  decide

theorem get_https (env : Env Doc) (tol : List Str) (b : Nat) (c : Cache Doc) (u : Url) :
    ∀ r ∈ (get env tol b c u).requests, env.https r = true := by
  fun_induction get env tol b c u with
  | case1 | case2 | case4 => simp
  | case3 cache u t cache' hget b ih => exact ih
  | case5 budget cache u cache' hget hh | case6 budget cache u cache' hget hh
  | case7 budget cache u cache' hget hh | case8 budget cache u cache' hget hh
  | case9 budget cache u cache' hget hh | case10 cache u cache' hget hh => simpa using hh
  | case11 cache u cache' hget hh resp hsv v he t hr b r ih =>
    have hh' : env.https u = true := by simpa using hh
    intro r hr
    rcases List.mem_cons.1 hr with rfl | hr
    · exact hh'
    · exact ih r hr

end Jtp
