import Model.History
import Model.Feed
import Generated.GoHistory
import Generated.GoFeed

/-
  Helper lemmas for `Props/Gen18.lean`: closed forms for the `for i, e := range input` loops of
  the generated `GenFeed.Append` / `GenFeed.Prepend`.
-/

namespace Gen18

/-- Indexing at a natural number never takes the negative branch. -/
theorem index_natCast {β : Type} (xs : List β) (n : Nat) :
    Go.index xs (n : Int) =
      match xs[n]? with
      | some x => .ok x
      | none => .error .indexOutOfRange := by
  have h1 : ¬ ((n : Int) < 0) := by omega
  unfold Go.index
  rw [if_neg h1, Int.toNat_natCast]
  cases xs[n]? <;> rfl

/-- `Go.enumerate` starting at index `k`. -/
def enumFrom {β : Type} (k : Nat) (xs : List β) : List (Int × β) :=
  (xs.zipIdx k).map fun p => ((p.2 : Int), p.1)

theorem enumerate_eq_enumFrom {β : Type} (xs : List β) : Go.enumerate xs = enumFrom 0 xs := rfl

@[simp] theorem enumFrom_nil {β : Type} (k : Nat) : enumFrom k ([] : List β) = [] := rfl

@[simp] theorem enumFrom_cons {β : Type} (k : Nat) (x : β) (xs : List β) :
    enumFrom k (x :: xs) = ((k : Int), x) :: enumFrom (k + 1) xs := by
  simp [enumFrom, List.zipIdx_cons]

/-- Writing `some x` for the elements of `xs` at the keys `u + k, u + k + 1, …`. -/
theorem foldl_set_up {α : Type} (xs : List α) (k : Nat) (u : Int) (m : Int → Option α) (j : Int) :
    (List.foldl (fun (m : Go.Map Int (Option α)) (p : Int × Option α) => Go.mapSet m (u + p.1) p.2) m
        (enumFrom k (xs.map some))) j
      = if u + k ≤ j ∧ j < u + k + xs.length then xs[(j - u - k).toNat]? else m j := by
  induction xs generalizing k m with
  | nil =>
    have : ¬ (u + (k : Int) ≤ j ∧ j < u + k + ((0 : Nat) : Int)) := by omega
    simp only [List.map_nil, enumFrom_nil, List.foldl_nil, List.length_nil]
    rw [if_neg this]
  | cons x rest ih =>
    simp only [List.map_cons, enumFrom_cons, List.foldl_cons, ih, List.length_cons]
    by_cases h1 : j = u + k
    · subst h1
      have e : (u + (k : Int) - u - k).toNat = 0 := by omega
      have c1 : ¬ (u + ((k + 1 : Nat) : Int) ≤ u + k ∧ u + (k : Int) < u + ((k + 1 : Nat) : Int) + rest.length) := by omega
      have c2 : u + (k : Int) ≤ u + k ∧ u + (k : Int) < u + k + ((rest.length + 1 : Nat) : Int) := by omega
      rw [if_neg c1, if_pos c2, e]
      simp [Go.mapSet]
    · by_cases h2 : u + ((k + 1 : Nat) : Int) ≤ j ∧ j < u + ((k + 1 : Nat) : Int) + rest.length
      · have c2 : u + (k : Int) ≤ j ∧ j < u + k + ((rest.length + 1 : Nat) : Int) := by omega
        have e : (j - u - (k : Int)).toNat = (j - u - ((k + 1 : Nat) : Int)).toNat + 1 := by omega
        rw [if_pos h2, if_pos c2, e, List.getElem?_cons_succ]
      · have c2 : ¬ (u + (k : Int) ≤ j ∧ j < u + k + ((rest.length + 1 : Nat) : Int)) := by omega
        rw [if_neg h2, if_neg c2]
        simp [Go.mapSet, h1]

/-- Writing `some x` for the elements of `xs` at the keys `l - k, l - k - 1, …`. -/
theorem foldl_set_down {α : Type} (xs : List α) (k : Nat) (l : Int) (m : Int → Option α) (j : Int) :
    (List.foldl (fun (m : Go.Map Int (Option α)) (p : Int × Option α) => Go.mapSet m (l - p.1) p.2) m
        (enumFrom k (xs.map some))) j
      = if l - k - xs.length < j ∧ j ≤ l - k then xs[(l - k - j).toNat]? else m j := by
  induction xs generalizing k m with
  | nil =>
    have : ¬ (l - (k : Int) - ((0 : Nat) : Int) < j ∧ j ≤ l - k) := by omega
    simp only [List.map_nil, enumFrom_nil, List.foldl_nil, List.length_nil]
    rw [if_neg this]
  | cons x rest ih =>
    simp only [List.map_cons, enumFrom_cons, List.foldl_cons, ih, List.length_cons]
    by_cases h1 : j = l - k
    · subst h1
      have e : (l - (k : Int) - (l - k)).toNat = 0 := by omega
      have c1 : ¬ (l - ((k + 1 : Nat) : Int) - rest.length < l - k ∧ l - (k : Int) ≤ l - ((k + 1 : Nat) : Int)) := by omega
      have c2 : l - (k : Int) - ((rest.length + 1 : Nat) : Int) < l - k ∧ l - (k : Int) ≤ l - k := by omega
      rw [if_neg c1, if_pos c2, e]
      simp [Go.mapSet]
    · by_cases h2 : l - ((k + 1 : Nat) : Int) - rest.length < j ∧ j ≤ l - ((k + 1 : Nat) : Int)
      · have c2 : l - (k : Int) - ((rest.length + 1 : Nat) : Int) < j ∧ j ≤ l - k := by omega
        have e : (l - (k : Int) - j).toNat = (l - ((k + 1 : Nat) : Int) - j).toNat + 1 := by omega
        rw [if_pos h2, if_pos c2, e, List.getElem?_cons_succ]
      · have c2 : ¬ (l - (k : Int) - ((rest.length + 1 : Nat) : Int) < j ∧ j ≤ l - k) := by omega
        rw [if_neg h2, if_neg c2]
        simp [Go.mapSet, h1]

/-- A loop that only rewrites the `feed` field, at a key computed from the unchanged fields. -/
theorem foldl_feed_only {T : Type} (key : GenFeed.Feed T → Int)
    (hkey : ∀ s m, key { s with feed := m } = key s)
    (op : Int → Int → Int) (ps : List (Int × Option T)) (f : GenFeed.Feed T) :
    List.foldl (fun (s : GenFeed.Feed T) (p : Int × Option T) =>
        { s with feed := Go.mapSet s.feed (op (key s) p.1) p.2 }) f ps
      = { f with feed := List.foldl (fun (m : Go.Map Int (Option T)) (p : Int × Option T) =>
            Go.mapSet m (op (key f) p.1) p.2) f.feed ps } := by
  induction ps generalizing f with
  | nil => rfl
  | cons p ps ih => simp only [List.foldl_cons, ih, hkey]

end Gen18
