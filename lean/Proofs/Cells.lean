import Model

/-
  Helper lemmas for Props/Cells.lean (layer-B facts about canonical styled text).
-/

namespace Cells
open Str Ansi

/-! ### Basic facts about attribute strings -/

/-- Digits and semicolons only. -/
def Digs (a : Str) : Prop := ∀ x ∈ a, x.isDigit = true ∨ x = ';'

theorem digs_cons {c : Char} {a : Str} (h : Digs (c :: a)) :
    (c.isDigit = true ∨ c = ';') ∧ Digs a :=
  ⟨h c (by simp), fun x hx => h x (by simp [hx])⟩

theorem sgrOk_digs {a : Str} (h : sgrOk a = true) : Digs a := by
  intro x hx
  cases a with
  | nil => simp [sgrOk] at h
  | cons c t =>
    simp only [sgrOk, Bool.and_eq_true, List.all_eq_true] at h
    have := h.2 x hx
    simpa using this

theorem sgrOk_head {a : Str} (h : sgrOk a = true) :
    ∃ d t, a = d :: t ∧ d ≠ '0' ∧ d ≠ ESC := by
  cases a with
  | nil => simp [sgrOk] at h
  | cons c t =>
    refine ⟨c, t, rfl, ?_, ?_⟩
    · simp only [sgrOk, Bool.and_eq_true] at h
      simpa using h.1.2
    · simp only [sgrOk, Bool.and_eq_true] at h
      intro hc
      have h1 := h.1.1
      rw [hc] at h1
      revert h1
      decide

theorem digs_ne_m {c : Char} (h : c.isDigit = true ∨ c = ';') : c ≠ 'm' := by
  intro hc
  subst hc
  revert h
  decide

theorem digs_ne_nl {c : Char} (h : c.isDigit = true ∨ c = ';') : c ≠ '\n' := by
  intro hc
  subst hc
  revert h
  decide

theorem cell_ok_iff (c : Cell) :
    c.ok = true ↔ c.ch ≠ ESC ∧ (∀ a ∈ c.attrs, sgrOk a = true) ∧ (c.ch ≠ '\n' ∨ c.attrs = []) := by
  simp [Cell.ok, and_assoc]

/-! ### Rendering -/

def preOf (as : List Str) : Str := (as.map sgr).flatten

theorem cell_pre_eq (c : Cell) : c.pre = preOf c.attrs := rfl

@[simp] theorem preOf_nil : preOf [] = [] := rfl

theorem preOf_cons (a : Str) (as : List Str) :
    preOf (a :: as) = ESC :: '[' :: (a ++ 'm' :: preOf as) := by
  simp [preOf, sgr]

theorem preOf_length (as : List Str) : as.length ≤ (preOf as).length := by
  induction as with
  | nil => simp
  | cons a as ih => simp [preOf_cons]; omega

theorem render_nil : render [] = [] := rfl

theorem render_cons (c : Cell) (cs : List Cell) : render (c :: cs) = c.render ++ render cs := by
  simp [render]

theorem render_append (a b : List Cell) : render (a ++ b) = render a ++ render b := by
  simp [render]

theorem render_bare (c : Cell) (h : c.attrs = []) : c.render = [c.ch] := by
  simp [Cell.render, h]

theorem render_styled (c : Cell) (h : c.attrs ≠ []) : c.render = preOf c.attrs ++ c.ch :: reset := by
  simp [Cell.render, h, cell_pre_eq]

theorem render_plain (s : Str) : render (plain s) = s := by
  induction s with
  | nil => rfl
  | cons c s ih =>
    have : plain (c :: s) = ⟨[], c⟩ :: plain s := rfl
    rw [this, render_cons, ih]
    simp [Cell.render]

/-- A rendering of well-formed cells never starts with the reset sequence. -/
theorem reset_not_prefix (cs : List Cell) (h : ∀ c ∈ cs, c.ok = true) :
    reset.isPrefixOf (render cs) = false := by
  cases cs with
  | nil => simp [render_nil, reset]
  | cons c cs =>
    have hc := (cell_ok_iff c).1 (h c (by simp))
    rw [render_cons]
    cases has : c.attrs with
    | nil =>
      rw [render_bare c has]
      have : ESC ≠ c.ch := fun e => hc.1 e.symm
      simp [reset, List.isPrefixOf, this]
    | cons a as =>
      rw [render_styled c (by simp [has]), has, preOf_cons]
      obtain ⟨d, t, rfl, hd0, _⟩ := sgrOk_head (hc.2.1 a (by simp [has]))
      have : '0' ≠ d := fun e => hd0 e.symm
      simp [reset, List.isPrefixOf, this]

/-! ### The scanner -/

theorem splitAtM_digs (a r : Str) (h : Digs a) : splitAtM (a ++ 'm' :: r) = some (a, r) := by
  induction a with
  | nil => simp [splitAtM]
  | cons c a ih =>
    have hc := digs_cons h
    simp [splitAtM, digs_ne_m hc.1, ih hc.2]

theorem takePre_stop (fuel : Nat) (ch : Char) (rest : Str) (h : ch ≠ ESC) :
    takePre fuel (ch :: rest) = ([], ch :: rest) := by
  cases fuel with
  | zero => rfl
  | succ f =>
    cases rest with
    | nil => rfl
    | cons b t => simp [takePre, h]

theorem takePre_pre (as : List Str) (has : ∀ a ∈ as, Digs a) (ch : Char) (hch : ch ≠ ESC)
    (rest : Str) : ∀ fuel, as.length ≤ fuel →
      takePre fuel (preOf as ++ ch :: rest) = (preOf as, ch :: rest) := by
  induction as with
  | nil => intro fuel _; simpa using takePre_stop fuel ch rest hch
  | cons a as ih =>
    intro fuel hf
    cases fuel with
    | zero => simp at hf
    | succ f =>
      have hda : Digs a := has a (by simp)
      have ih' := ih (fun x hx => has x (by simp [hx])) f (by simpa using hf)
      have e : preOf (a :: as) ++ ch :: rest
          = ESC :: '[' :: (a ++ 'm' :: (preOf as ++ ch :: rest)) := by
        simp [preOf_cons]
      rw [e, takePre]
      simp only [and_self, if_true]
      rw [splitAtM_digs _ _ hda]
      simp only [ih']
      simp [preOf_cons]

theorem expandF_bare (f : Nat) (ch : Char) (rest : Str) (h1 : ch ≠ ESC)
    (h2 : reset.isPrefixOf rest = false) :
    expandF (f + 1) (ch :: rest) = ⟨[], ch, [ch]⟩ :: expandF f rest := by
  rw [expandF]
  simp [takePre_stop _ ch rest h1, h2]

theorem expandF_styled (f : Nat) (as : List Str) (has : ∀ a ∈ as, Digs a) (ch : Char)
    (hch : ch ≠ ESC) (rest : Str) :
    expandF (f + 1) (preOf as ++ ch :: (reset ++ rest))
      = ⟨preOf as, ch, preOf as ++ ch :: reset⟩ :: expandF f rest := by
  rw [expandF]
  have hl : as.length ≤ (preOf as ++ ch :: (reset ++ rest)).length := by
    have := preOf_length as
    simp only [List.length_append, List.length_cons]
    omega
  rw [takePre_pre as has ch hch (reset ++ rest) _ hl]
  have hp : reset.isPrefixOf (reset ++ rest) = true := by simp [reset]
  have hd : (reset ++ rest).drop 4 = rest := by simp [reset]
  simp [hp, hd]

theorem expandF_render (cs : List Cell) (h : ∀ c ∈ cs, c.ok = true) :
    ∀ fuel, (render cs).length ≤ fuel → expandF fuel (render cs) = cs.map Cell.raw := by
  induction cs with
  | nil =>
    intro fuel _
    cases fuel <;> simp [render_nil, expandF]
  | cons c cs ih =>
    intro fuel hf
    have hcs : ∀ c ∈ cs, c.ok = true := fun x hx => h x (by simp [hx])
    have hc := (cell_ok_iff c).1 (h c (by simp))
    rw [render_cons] at hf ⊢
    by_cases has : c.attrs = []
    · rw [render_bare c has] at hf ⊢
      cases fuel with
      | zero => simp at hf
      | succ f =>
        simp only [List.cons_append, List.nil_append]
        rw [expandF_bare f c.ch _ hc.1 (reset_not_prefix cs hcs)]
        rw [ih hcs f (by simp at hf; omega)]
        simp [Cell.raw, cell_pre_eq, has, render_bare c has]
    · rw [render_styled c has] at hf ⊢
      cases fuel with
      | zero => simp at hf
      | succ f =>
        have e : preOf c.attrs ++ c.ch :: reset ++ render cs
            = preOf c.attrs ++ c.ch :: (reset ++ render cs) := by simp
        rw [e, expandF_styled f c.attrs (fun a ha => sgrOk_digs (hc.2.1 a ha)) c.ch hc.1]
        rw [ih hcs f (by simp at hf; omega)]
        simp [Cell.raw, cell_pre_eq, render_styled c has]

theorem expand_render (cs : List Cell) (h : ∀ c ∈ cs, c.ok = true) :
    expand (render cs) = cs.map Cell.raw :=
  expandF_render cs h _ (Nat.le_refl _)

/-! ### Apply and Indent -/

theorem addAttr_ok (c : Cell) (a : Str) (hc : c.ok = true) (ha : sgrOk a = true) :
    (addAttr a c).ok = true := by
  unfold addAttr
  split
  · exact hc
  · rename_i hn
    rw [cell_ok_iff] at hc ⊢
    refine ⟨hc.1, ?_, Or.inl hn⟩
    intro x hx
    simp only [List.mem_cons] at hx
    rcases hx with rfl | hx
    · exact ha
    · exact hc.2.1 x hx

theorem apply_cell (c : Cell) (hc : c.ok = true) (a : Str) :
    (if c.raw.letter = '\n' then ['\n']
      else ESC :: '[' :: (a ++ 'm' :: (c.raw.pre ++ c.raw.letter :: reset)))
      = (addAttr a c).render := by
  have hc' := (cell_ok_iff c).1 hc
  by_cases hn : c.ch = '\n'
  · have has : c.attrs = [] := by
      rcases hc'.2.2 with h | h
      · exact absurd hn h
      · exact h
    simp [Cell.raw, addAttr, hn, Cell.render, has]
  · simp [Cell.raw, addAttr, hn, Cell.render, Cell.pre, sgr]

theorem apply_render (cs : List Cell) (h : ∀ c ∈ cs, c.ok = true) (a : Str) :
    apply (render cs) a = render (cs.map (addAttr a)) := by
  unfold apply
  rw [expand_render cs h]
  induction cs with
  | nil => rfl
  | cons c cs ih =>
    have hcs : ∀ c ∈ cs, c.ok = true := fun x hx => h x (by simp [hx])
    simp only [List.map_cons, List.flatten_cons, render_cons]
    rw [apply_cell c (h c (by simp)) a, ih hcs]

theorem indent_cell (c : Cell) (hc : c.ok = true) (pfx : Str) :
    (if c.raw.letter = '\n' then '\n' :: pfx else c.raw.full)
      = render (if c.ch = '\n' then c :: plain pfx else [c]) := by
  have hc' := (cell_ok_iff c).1 hc
  by_cases hn : c.ch = '\n'
  · have has : c.attrs = [] := by
      rcases hc'.2.2 with h | h
      · exact absurd hn h
      · exact h
    simp [Cell.raw, hn, render_cons, render_plain, render_bare c has]
  · simp [Cell.raw, hn, render_cons, render_nil]

theorem indent_render (cs : List Cell) (h : ∀ c ∈ cs, c.ok = true) (pfx : Str) (first : Bool) :
    indent (render cs) pfx first =
      render ((if first then plain pfx else []) ++
        (cs.map fun c => if c.ch = '\n' then c :: plain pfx else [c]).flatten) := by
  unfold indent
  rw [expand_render cs h, render_append]
  congr 1
  · cases first <;> simp [render_plain, render_nil]
  · induction cs with
    | nil => rfl
    | cons c cs ih =>
      have hcs : ∀ c ∈ cs, c.ok = true := fun x hx => h x (by simp [hx])
      simp only [List.map_cons, List.flatten_cons, render_append]
      rw [indent_cell c (h c (by simp)) pfx, ih hcs]

/-! ### The terminal -/

theorem sgrParams_digs (a r : Str) (h : Digs a) : sgrParams (a ++ 'm' :: r) = some (a, r) := by
  induction a with
  | nil => simp [sgrParams]
  | cons c a ih =>
    have hc := digs_cons h
    have hd : (c.isDigit || decide (c = ';')) = true := by
      rcases hc.1 with h | h <;> simp [h]
    simp [sgrParams, digs_ne_m hc.1, ih hc.2, hd]

theorem termRun_char (f : Nat) (ch : Char) (hch : ch ≠ ESC) (s : Str) (act : List Str) :
    termRun (f + 1) (ch :: s) act = ((ch, act) :: (termRun f s act).1, (termRun f s act).2) := by
  simp [termRun, hch]

theorem termRun_reset (f : Nat) (s : Str) (act : List Str) :
    termRun (f + 1) (reset ++ s) act = termRun f s [] := by
  have e : reset ++ s = ESC :: '[' :: (['0'] ++ 'm' :: s) := rfl
  have hd : Digs ['0'] := by
    intro x hx
    simp only [List.mem_singleton] at hx
    subst hx
    decide
  rw [e, termRun]
  simp only [if_true]
  rw [sgrParams_digs _ _ hd]
  simp

theorem termRun_pre (as : List Str) (has : ∀ a ∈ as, sgrOk a = true) (s : Str) (f : Nat) :
    ∀ act, termRun (f + as.length) (preOf as ++ s) act = termRun f s (act ++ as) := by
  induction as with
  | nil => intro act; simp
  | cons a as ih =>
    intro act
    have ha := has a (by simp)
    have ih' := ih (fun x hx => has x (by simp [hx]))
    have e : preOf (a :: as) ++ s = ESC :: '[' :: (a ++ 'm' :: (preOf as ++ s)) := by
      simp [preOf_cons]
    have e2 : f + (a :: as).length = (f + as.length) + 1 := by simp; omega
    rw [e, e2, termRun]
    simp only [if_true]
    rw [sgrParams_digs _ _ (sgrOk_digs ha)]
    obtain ⟨d, t, rfl, hd0, _⟩ := sgrOk_head ha
    have h0 : ¬ (d :: t = ['0']) := by
      intro h
      simp only [List.cons.injEq] at h
      exact hd0 h.1
    simp only [h0, decide_false, List.isEmpty_cons, Bool.or_self, Bool.false_eq_true, if_false]
    rw [ih']
    simp

theorem termRun_render (cs : List Cell) (h : ∀ c ∈ cs, c.ok = true) :
    ∀ fuel, (render cs).length ≤ fuel →
      termRun fuel (render cs) [] = (cs.map fun c => (c.ch, c.attrs), []) := by
  induction cs with
  | nil =>
    intro fuel _
    cases fuel <;> simp [render_nil, termRun]
  | cons c cs ih =>
    intro fuel hf
    have hcs : ∀ c ∈ cs, c.ok = true := fun x hx => h x (by simp [hx])
    have hc := (cell_ok_iff c).1 (h c (by simp))
    rw [render_cons] at hf ⊢
    by_cases has : c.attrs = []
    · rw [render_bare c has] at hf ⊢
      cases fuel with
      | zero => simp at hf
      | succ f =>
        simp only [List.cons_append, List.nil_append]
        rw [termRun_char f c.ch hc.1, ih hcs f (by simp at hf; omega)]
        simp [has]
    · rw [render_styled c has] at hf ⊢
      have hl := preOf_length c.attrs
      simp only [List.length_append, List.length_cons, reset, List.length_nil] at hf
      obtain ⟨f, rfl⟩ : ∃ f, fuel = ((f + 1) + 1) + c.attrs.length :=
        ⟨fuel - c.attrs.length - 2, by omega⟩
      have e : preOf c.attrs ++ c.ch :: reset ++ render cs
          = preOf c.attrs ++ (c.ch :: (reset ++ render cs)) := by simp
      rw [e, termRun_pre c.attrs hc.2.1, termRun_char _ c.ch hc.1, termRun_reset,
        ih hcs f (by omega)]
      simp

theorem term_render (cs : List Cell) (h : ∀ c ∈ cs, c.ok = true) :
    term (render cs) = (cs.map fun c => (c.ch, c.attrs), []) :=
  termRun_render cs h _ (Nat.le_refl _)

theorem canon_neutral (s : Str) (h : Canon s) : neutralAtBreaks s = true := by
  obtain ⟨cs, hcs, rfl⟩ := h
  unfold neutralAtBreaks
  simp only [term_render cs hcs, List.isEmpty_nil, Bool.true_and, List.all_eq_true]
  intro x hx
  simp only [List.mem_map] at hx
  obtain ⟨c, hc, rfl⟩ := hx
  have := ((cell_ok_iff c).1 (hcs c hc)).2.2
  rcases this with h | h <;> simp [h]

/-! ### Closure properties -/

theorem canon_append (s t : Str) (hs : Canon s) (ht : Canon t) : Canon (s ++ t) := by
  obtain ⟨a, ha, rfl⟩ := hs
  obtain ⟨b, hb, rfl⟩ := ht
  refine ⟨a ++ b, ?_, (render_append a b).symm⟩
  intro c hc
  rcases List.mem_append.1 hc with h | h
  · exact ha c h
  · exact hb c h

theorem canon_plain (s : Str) (h : ESC ∉ s) : Canon s := by
  refine ⟨plain s, ?_, (render_plain s).symm⟩
  intro c hc
  simp only [plain, List.mem_map] at hc
  obtain ⟨x, hx, rfl⟩ := hc
  rw [cell_ok_iff]
  refine ⟨?_, by simp, Or.inr rfl⟩
  intro e
  exact h (e ▸ hx)

theorem canon_nil : Canon [] := ⟨[], by simp, rfl⟩

theorem canon_nl : Canon ['\n'] :=
  ⟨[⟨[], '\n'⟩], by decide, rfl⟩

theorem canon_cell (c : Cell) (hc : c.ok = true) : Canon c.render :=
  ⟨[c], by simpa using hc, by simp [render]⟩

theorem canon_joinNL (ls : List Str) (h : ∀ l ∈ ls, Canon l) : Canon (joinNL ls) := by
  induction ls with
  | nil => exact canon_nil
  | cons l ls ih =>
    cases ls with
    | nil => simpa [joinNL] using h l (by simp)
    | cons l' ls =>
      have e : joinNL (l :: l' :: ls) = l ++ (['\n'] ++ joinNL (l' :: ls)) := rfl
      rw [e]
      exact canon_append _ _ (h l (by simp))
        (canon_append _ _ canon_nl (ih (fun x hx => h x (by simp [hx]))))

theorem splitNL_ne_nil (s : Str) : splitNL s ≠ [] := by
  induction s with
  | nil => simp [splitNL]
  | cons c s ih =>
    rw [splitNL]
    split
    · simp
    · split <;> simp

theorem splitNL_nl (s : Str) : splitNL ('\n' :: s) = [] :: splitNL s := by
  rw [splitNL]
  split
  · rename_i h; exact absurd h (splitNL_ne_nil s)
  · rename_i h; simp [h]

theorem splitNL_prepend (p s l : Str) (ls : List Str) (hp : '\n' ∉ p) (hs : splitNL s = l :: ls) :
    splitNL (p ++ s) = (p ++ l) :: ls := by
  induction p with
  | nil => simpa using hs
  | cons c p ih =>
    have hc : c ≠ '\n' := fun e => hp (by simp [e])
    have ih' := ih (fun hx => hp (by simp [hx]))
    simp only [List.cons_append]
    rw [splitNL, ih']
    simp [hc]

theorem nl_not_mem_pre (as : List Str) (has : ∀ a ∈ as, Digs a) : '\n' ∉ preOf as := by
  induction as with
  | nil => simp
  | cons a as ih =>
    rw [preOf_cons]
    have h1 : '\n' ∉ a := fun hx => digs_ne_nl (has a (by simp) _ hx) rfl
    have h2 := ih (fun x hx => has x (by simp [hx]))
    have h3 : '\n' ≠ ESC := by decide
    simp [h1, h2, h3]

theorem nl_not_mem_render (c : Cell) (hc : c.ok = true) (hn : c.ch ≠ '\n') : '\n' ∉ c.render := by
  have hc' := (cell_ok_iff c).1 hc
  by_cases has : c.attrs = []
  · rw [render_bare c has]
    simpa using fun e => hn e.symm
  · rw [render_styled c has]
    have h1 := nl_not_mem_pre c.attrs (fun a ha => sgrOk_digs (hc'.2.1 a ha))
    have h2 : '\n' ≠ c.ch := fun e => hn e.symm
    have h3 : '\n' ≠ ESC := by decide
    simp [h1, h2, h3, reset]

theorem canon_splitNL_render (cs : List Cell) (h : ∀ c ∈ cs, c.ok = true) :
    ∀ l ∈ splitNL (render cs), Canon l := by
  induction cs with
  | nil =>
    intro l hl
    simp only [render_nil, splitNL, List.mem_singleton] at hl
    subst hl
    exact canon_nil
  | cons c cs ih =>
    have hcs : ∀ c ∈ cs, c.ok = true := fun x hx => h x (by simp [hx])
    have hc := h c (by simp)
    have hc' := (cell_ok_iff c).1 hc
    have ih' := ih hcs
    rw [render_cons]
    by_cases hn : c.ch = '\n'
    · have has : c.attrs = [] := by
        rcases hc'.2.2 with h | h
        · exact absurd hn h
        · exact h
      rw [render_bare c has, hn]
      simp only [List.cons_append, List.nil_append]
      rw [splitNL_nl]
      intro l hl
      simp only [List.mem_cons] at hl
      rcases hl with rfl | hl
      · exact canon_nil
      · exact ih' l hl
    · cases hs : splitNL (render cs) with
      | nil => exact absurd hs (splitNL_ne_nil _)
      | cons l0 ls =>
        rw [hs] at ih'
        rw [splitNL_prepend _ _ l0 ls (nl_not_mem_render c hc hn) hs]
        intro l hl
        simp only [List.mem_cons] at hl
        rcases hl with rfl | hl
        · exact canon_append _ _ (canon_cell c hc) (ih' l0 (by simp))
        · exact ih' l (by simp [hl])

theorem canon_splitNL (s : Str) (h : Canon s) : ∀ l ∈ splitNL s, Canon l := by
  obtain ⟨cs, hcs, rfl⟩ := h
  exact canon_splitNL_render cs hcs

end Cells
