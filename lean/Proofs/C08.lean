import Model

namespace Conc

theorem stepThread_spec (pol : Policy) (s : Sys) (t t' : Thread)
    (hd : disciplinedFrom pol t.rest t.holdsM t.toks = true)
    (hs : stepThread s t = some t') :
    disciplinedFrom pol t'.rest t'.holdsM t'.toks = true ∧
    (t'.holdsM = true → t.holdsM = true ∨ s.mutexFree = true) ∧
    (∀ k ∈ t'.toks, k ∈ t.toks ∨ s.tokFree k = true) ∧
    t'.rest.length < t.rest.length := by
  obtain ⟨rest, m, toks⟩ := t
  cases rest with
  | nil => simp [stepThread] at hs
  | cons a r =>
    cases a with
    | lock =>
      simp only [disciplinedFrom, Bool.and_eq_true] at hd
      simp only [stepThread] at hs
      split at hs
      · cases hs; simp_all
      · cases hs
    | unlock =>
      simp only [disciplinedFrom, Bool.and_eq_true] at hd
      simp only [stepThread] at hs
      cases hs; simp_all
    | acquire k =>
      simp only [disciplinedFrom, Bool.and_eq_true] at hd
      simp only [stepThread] at hs
      obtain ⟨⟨hm, he⟩, hr⟩ := hd
      have he' : toks = [] := by simpa using he
      subst he'
      subst hm
      split at hs
      · cases hs; simp_all
      · cases hs
        cases r with
        | nil => simp [disciplinedFrom] at hr
        | cons b r' => simp [disciplinedFrom]
    | release k =>
      simp only [disciplinedFrom, Bool.and_eq_true] at hd
      simp only [stepThread] at hs
      cases hs
      obtain ⟨⟨hm, he⟩, hr⟩ := hd
      subst hm
      refine ⟨hr, by simp, ?_, by simp⟩
      intro k' hk'
      exact Or.inl (List.mem_of_mem_erase hk')
    | read v =>
      simp only [disciplinedFrom, Bool.and_eq_true] at hd
      simp only [stepThread] at hs
      cases hs
      exact ⟨hd.2, fun h => Or.inl h, fun _ h => Or.inl h, by simp⟩
    | write v =>
      simp only [disciplinedFrom, Bool.and_eq_true] at hd
      simp only [stepThread] at hs
      cases hs
      exact ⟨hd.2, fun h => Or.inl h, fun _ h => Or.inl h, by simp⟩
    | emit =>
      simp only [disciplinedFrom, Bool.and_eq_true] at hd
      simp only [stepThread] at hs
      cases hs
      exact ⟨hd.2, fun h => Or.inl h, fun _ h => Or.inl h, by simp⟩

structure Good (pol : Policy) (s : Sys) : Prop where
  disc : ∀ (i : Nat) (t : Thread), s.threads[i]? = some t → disciplinedFrom pol t.rest t.holdsM t.toks = true
  mutex : ∀ (i j : Nat) (ti tj : Thread), s.threads[i]? = some ti → s.threads[j]? = some tj →
    ti.holdsM = true → tj.holdsM = true → i = j
  tok : ∀ (i j : Nat) (ti tj : Thread) (k : Tok), s.threads[i]? = some ti → s.threads[j]? = some tj →
    k ∈ ti.toks → k ∈ tj.toks → i = j

theorem step_inv {s s' : Sys} {i : Nat} (hs : step s i = some s') :
    ∃ t t', s.threads[i]? = some t ∧ stepThread s t = some t' ∧ s'.threads = s.threads.set i t' := by
  unfold step at hs
  split at hs
  · cases hs
  · rename_i t ht
    split at hs
    · cases hs
    · rename_i t' ht'
      cases hs
      exact ⟨t, t', ht, ht', rfl⟩

theorem mutexFree_false {s : Sys} (h : s.mutexFree = true) {j : Nat} {tj : Thread}
    (hj : s.threads[j]? = some tj) : tj.holdsM = false := by
  have := List.all_eq_true.mp h tj (List.mem_of_getElem? hj)
  simpa using this

theorem tokFree_not_mem {s : Sys} {k : Tok} (h : s.tokFree k = true) {j : Nat} {tj : Thread}
    (hj : s.threads[j]? = some tj) : k ∉ tj.toks := by
  have := List.all_eq_true.mp h tj (List.mem_of_getElem? hj)
  simpa using this

theorem getElem?_set_cases {l : List Thread} {i j : Nat} {t' tj : Thread}
    (h : (l.set i t')[j]? = some tj) : (j = i ∧ tj = t') ∨ (j ≠ i ∧ l[j]? = some tj) := by
  rw [List.getElem?_set] at h
  split at h
  · split at h
    · left; exact ⟨by omega, by cases h; rfl⟩
    · cases h
  · right; exact ⟨by omega, h⟩

theorem Good.step {pol : Policy} {s s' : Sys} {i : Nat} (hg : Good pol s)
    (hs : Conc.step s i = some s') : Good pol s' := by
  obtain ⟨t, t', ht, hst, hs'⟩ := step_inv hs
  obtain ⟨hd, hm, hk, _⟩ := stepThread_spec pol s t t' (hg.disc i t ht) hst
  constructor
  · intro j tj hj
    rw [hs'] at hj
    rcases getElem?_set_cases hj with ⟨_, rfl⟩ | ⟨_, hj⟩
    · exact hd
    · exact hg.disc j tj hj
  · intro a b ta tb ha0 hb0 hma hmb
    rw [hs'] at ha0 hb0
    rcases getElem?_set_cases ha0 with ⟨rfl, rfl⟩ | ⟨hai, ha⟩ <;>
    rcases getElem?_set_cases hb0 with ⟨rfl, rfl⟩ | ⟨hbi, hb⟩
    · rfl
    · rcases hm hma with h | h
      · exact hg.mutex _ _ _ _ ht hb h hmb
      · have := mutexFree_false h hb; simp_all
    · rcases hm hmb with h | h
      · exact hg.mutex _ _ _ _ ha ht hma h
      · have := mutexFree_false h ha; simp_all
    · exact hg.mutex _ _ _ _ ha hb hma hmb
  · intro a b ta tb k ha0 hb0 hka hkb
    rw [hs'] at ha0 hb0
    rcases getElem?_set_cases ha0 with ⟨rfl, rfl⟩ | ⟨hai, ha⟩ <;>
    rcases getElem?_set_cases hb0 with ⟨rfl, rfl⟩ | ⟨hbi, hb⟩
    · rfl
    · rcases hk k hka with h | h
      · exact hg.tok _ _ _ _ k ht hb h hkb
      · exact absurd hkb (tokFree_not_mem h hb)
    · rcases hk k hkb with h | h
      · exact hg.tok _ _ _ _ k ha ht hka h
      · exact absurd hka (tokFree_not_mem h ha)
    · exact hg.tok _ _ _ _ k ha hb hka hkb

theorem Good.init {pol : Policy} {prog : List Template} (h : Disciplined pol prog) :
    Good pol { threads := prog.map fun tpl => { rest := tpl } } := by
  constructor
  · intro i t hi
    simp only [List.getElem?_map, Option.map_eq_some_iff] at hi
    obtain ⟨tpl, htpl, rfl⟩ := hi
    exact h tpl (List.mem_of_getElem? htpl)
  · intro i j ti tj hi hj hmi
    simp only [List.getElem?_map, Option.map_eq_some_iff] at hi
    obtain ⟨tpl, htpl, rfl⟩ := hi
    simp at hmi
  · intro i j ti tj k hi hj hki
    simp only [List.getElem?_map, Option.map_eq_some_iff] at hi
    obtain ⟨tpl, htpl, rfl⟩ := hi
    simp at hki

theorem good_of_reachable {pol : Policy} {prog : List Template} (h : Disciplined pol prog)
    {s : Sys} (hr : Reachable prog s) : Good pol s := by
  induction hr with
  | init => exact Good.init h
  | step s s' i _ hs ih => exact ih.step hs

theorem Good.no_race {pol : Policy} {s : Sys} (hg : Good pol s) : ¬ Race s := by
  rintro ⟨i, j, ti, tj, a, b, ri, rj, hij, hi, hj, hri, hrj, hc⟩
  have hdi := hg.disc i ti hi
  have hdj := hg.disc j tj hj
  rw [hri] at hdi
  rw [hrj] at hdj
  cases a <;> cases b <;> simp only [conflict, Bool.false_eq_true, decide_eq_true_eq] at hc
  · -- read / write
    subst hc
    simp only [disciplinedFrom, Bool.and_eq_true, Bool.or_eq_true] at hdi hdj
    obtain ⟨⟨hmj, hpj⟩, _⟩ := hdj
    rcases hdi.1 with hmi | hpi
    · exact hij (hg.mutex i j ti tj hi hj hmi hmj)
    · split at hpi
      · rename_i k hk
        rw [hk] at hpj
        simp only [List.contains_eq_mem, decide_eq_true_eq] at hpi hpj
        exact hij (hg.tok i j ti tj k hi hj hpi hpj)
      · cases hpi
  · -- write / read
    subst hc
    simp only [disciplinedFrom, Bool.and_eq_true, Bool.or_eq_true] at hdi hdj
    obtain ⟨⟨hmi, hpi⟩, _⟩ := hdi
    rcases hdj.1 with hmj | hpj
    · exact hij (hg.mutex i j ti tj hi hj hmi hmj)
    · split at hpj
      · rename_i k hk
        rw [hk] at hpi
        simp only [List.contains_eq_mem, decide_eq_true_eq] at hpi hpj
        exact hij (hg.tok i j ti tj k hi hj hpi hpj)
      · cases hpj
  · -- write / write
    simp only [disciplinedFrom, Bool.and_eq_true] at hdi hdj
    exact hij (hg.mutex i j ti tj hi hj hdi.1.1 hdj.1.1)

theorem Good.no_double_emit {pol : Policy} {s : Sys} (hg : Good pol s) : ¬ DoubleEmit s := by
  rintro ⟨i, j, ti, tj, ri, rj, hij, hi, hj, hri, hrj⟩
  have hdi := hg.disc i ti hi
  have hdj := hg.disc j tj hj
  rw [hri] at hdi
  rw [hrj] at hdj
  simp only [disciplinedFrom, Bool.and_eq_true] at hdi hdj
  exact hij (hg.mutex i j ti tj hi hj hdi.1 hdj.1)

theorem stepThread_none {s : Sys} {t : Thread} (h : stepThread s t = none) :
    t.rest = [] ∨ (∃ r, t.rest = Act.lock :: r ∧ s.mutexFree = false) := by
  obtain ⟨rest, m, toks⟩ := t
  cases rest with
  | nil => exact Or.inl rfl
  | cons a r =>
    right
    cases a <;> simp only [stepThread] at h
    · split at h
      · cases h
      · exact ⟨r, rfl, by simp_all⟩
    all_goals first | cases h | (split at h <;> cases h)

theorem step_none {s : Sys} {i : Nat} {t : Thread} (hi : s.threads[i]? = some t)
    (h : step s i = none) : stepThread s t = none := by
  unfold step at h
  rw [hi] at h
  simp only at h
  split at h
  · assumption
  · cases h

theorem Good.no_deadlock {pol : Policy} {s : Sys} (hg : Good pol s) : ¬ Deadlock s := by
  rintro ⟨⟨t, ht, hne⟩, hall⟩
  obtain ⟨i, hi⟩ := List.getElem?_of_mem ht
  rcases stepThread_none (step_none hi (hall i)) with h | ⟨r, _, hmf⟩
  · exact hne h
  · have : ∃ t2 ∈ s.threads, t2.holdsM = true := by
      simp only [Sys.mutexFree] at hmf
      have := (List.all_eq_false.mp hmf)
      obtain ⟨x, hx, hx'⟩ := this
      exact ⟨x, hx, by simpa using hx'⟩
    obtain ⟨t2, ht2, hm2⟩ := this
    obtain ⟨j, hj⟩ := List.getElem?_of_mem ht2
    have hd := hg.disc j t2 hj
    rcases stepThread_none (step_none hj (hall j)) with h | ⟨r2, h, _⟩
    · rw [h, hm2] at hd; simp [disciplinedFrom] at hd
    · rw [h, hm2] at hd; simp [disciplinedFrom] at hd

theorem sum_set_lt {α : Type} (f : α → Nat) (l : List α) (i : Nat) (t t' : α)
    (hi : l[i]? = some t) (hlt : f t' < f t) :
    ((l.set i t').map f).sum < (l.map f).sum := by
  induction l generalizing i with
  | nil => simp at hi
  | cons x xs ih =>
    cases i with
    | zero =>
      simp only [List.getElem?_cons_zero, Option.some.injEq] at hi
      subst hi
      simp only [List.set_cons_zero, List.map_cons, List.sum_cons]
      omega
    | succ n =>
      simp only [List.getElem?_cons_succ] at hi
      have := ih n hi
      simp only [List.set_cons_succ, List.map_cons, List.sum_cons]
      omega

theorem Good.steps_decrease {pol : Policy} {s s' : Sys} {i : Nat} (hg : Good pol s)
    (hs : Conc.step s i = some s') :
    (s'.threads.map fun t => t.rest.length).sum < (s.threads.map fun t => t.rest.length).sum := by
  obtain ⟨t, t', ht, hst, hs'⟩ := step_inv hs
  obtain ⟨_, _, _, hlt⟩ := stepThread_spec pol s t t' (hg.disc i t ht) hst
  rw [hs']
  exact sum_set_lt (fun t => t.rest.length) s.threads i t t' ht hlt

end Conc

namespace C08aux

def splitF : Nat → String → String → String.Pos.Raw → String.Pos.Raw → String.Pos.Raw → List String → Option (List String)
  | 0, _, _, _, _, _, _ => none
  | n+1, s, sep, b, i, j, r =>
    if String.Pos.Raw.atEnd s i = true then
      some (String.Pos.Raw.extract s b i :: r).reverse
    else
      if (String.Pos.Raw.get s i == String.Pos.Raw.get sep j) = true then
        if String.Pos.Raw.atEnd sep (String.Pos.Raw.next sep j) = true then
          splitF n s sep (String.Pos.Raw.next s i) (String.Pos.Raw.next s i) 0
            (String.Pos.Raw.extract s b ((String.Pos.Raw.next s i).unoffsetBy (String.Pos.Raw.next sep j)) :: r)
        else splitF n s sep b (String.Pos.Raw.next s i) (String.Pos.Raw.next sep j) r
      else splitF n s sep b (String.Pos.Raw.next s (i.unoffsetBy j)) 0 r

theorem splitF_sound (n : Nat) (s sep : String) (b i j : String.Pos.Raw) (r l : List String)
    (h : splitF n s sep b i j r = some l) : s.splitOnAux sep b i j r = l := by
  induction n generalizing b i j r with
  | zero => simp [splitF] at h
  | succ n ih =>
    rw [String.splitOnAux.eq_1]
    simp only [splitF] at h
    split
    · simp_all
    · rename_i h1
      rw [if_neg h1] at h
      split
      · rename_i h2
        rw [if_pos h2] at h
        simp only
        split
        · rename_i h3
          rw [if_pos h3] at h
          exact ih _ _ _ _ h
        · rename_i h3
          rw [if_neg h3] at h
          exact ih _ _ _ _ h
      · rename_i h2
        rw [if_neg h2] at h
        exact ih _ _ _ _ h

/-- Evaluable `splitOn`. -/
def splitOnE (s sep : String) : Option (List String) :=
  if sep == "" then some [s] else splitF (2 * (s.utf8ByteSize + 2) * (sep.utf8ByteSize + 2)) s sep 0 0 0 []

theorem splitOnE_sound (s sep : String) (h : (splitOnE s sep).isSome = true) :
    s.splitOn sep = (splitOnE s sep).getD [] := by
  unfold splitOnE at *
  unfold String.splitOn
  split
  · simp_all
  · rename_i h1
    rw [if_neg h1] at h
    obtain ⟨l, hl⟩ := Option.isSome_iff_exists.mp h
    rw [hl]
    exact splitF_sound _ _ _ _ _ _ _ _ hl

/-- Total evaluable `splitOn`: the fuel version when it terminates within the fuel, else the
    original.  Equal to `String.splitOn` everywhere, but reducible by the kernel on literals. -/
def splitOnT (s sep : String) : List String :=
  match splitOnE s sep with
  | some l => l
  | none => s.splitOn sep

theorem splitOn_eq (s sep : String) : s.splitOn sep = splitOnT s sep := by
  unfold splitOnT
  split
  · rename_i l hl
    rw [splitOnE_sound s sep (by simp [hl]), hl]; rfl
  · rfl

end C08aux
