import Model

/-
  Helper lemmas for C17 (typed accessors).  Everything about the accessors is derived from the
  three-way case split `getAny_cases`.
-/

namespace C17L
open Obj

/-- The only three behaviours of `getAny`. -/
theorem getAny_cases (o : List (Str × JVal)) (k : Str) :
    (lookup o k = none ∧ getAny o k = .error .absent) ∨
    (lookup o k = some .null ∧ getAny o k = .error .absent) ∨
    (∃ v, lookup o k = some v ∧ v ≠ .null ∧ getAny o k = .ok v) := by
  unfold getAny
  cases h : lookup o k with
  | none => simp
  | some v => cases v <;> simp

theorem getAny_absent (o : List (Str × JVal)) (k : Str) :
    getAny o k = .error .absent ↔ (lookup o k = none ∨ lookup o k = some .null) := by
  rcases getAny_cases o k with ⟨h, g⟩ | ⟨h, g⟩ | ⟨v, h, hv, g⟩
  · simp [h, g]
  · simp [h, g]
  · simp [h, g, hv]

theorem getAny_ok (o : List (Str × JVal)) (k : Str) (v : JVal) :
    getAny o k = .ok v ↔ (lookup o k = some v ∧ v ≠ .null) := by
  rcases getAny_cases o k with ⟨h, g⟩ | ⟨h, g⟩ | ⟨w, h, hw, g⟩
  · simp [h, g]
  · simp [h, g]
    intro e; exact e.symm
  · simp only [h, g, Except.ok.injEq, Option.some.injEq]
    constructor
    · rintro rfl; exact ⟨rfl, hw⟩
    · exact fun e => e.1

theorem getAny_never_wrong (o : List (Str × JVal)) (k : Str) : getAny o k ≠ .error .wrong := by
  rcases getAny_cases o k with ⟨_, g⟩ | ⟨_, g⟩ | ⟨w, _, _, g⟩ <;> simp [g]

/-! ### Doubles -/

theorem pow_pos' (k : Nat) : 0 < 2 ^ k := Nat.pow_pos (by decide)

theorem div_exact (m n p : Nat) (hp : 0 < p) : (m % p = 0 ∧ n = m / p) ↔ n * p = m := by
  constructor
  · rintro ⟨h, rfl⟩
    have := Nat.div_add_mod m p
    rw [h] at this
    rw [Nat.mul_comm]; omega
  · rintro rfl
    exact ⟨Nat.mul_mod_left _ _, (Nat.mul_div_cancel _ hp).symm⟩


/-- `Denotes`, unfolded (the definition lives in `Props/C17.lean`). -/
def Den (bits n : Nat) : Prop :=
  ∃ neg m e, F64.dyadic bits = some (neg, m, e) ∧
    ((m = 0 ∧ n = 0) ∨
     (m ≠ 0 ∧ neg = false ∧ ((0 ≤ e ∧ n = m * 2 ^ e.toNat) ∨ (e < 0 ∧ n * 2 ^ (-e).toNat = m))))

theorem toNat_exact (bits n : Nat) : F64.toNat? bits = some n ↔ Den bits n := by
  unfold F64.toNat? Den
  cases h : F64.dyadic bits with
  | none => simp
  | some t =>
    obtain ⟨neg, m, e⟩ := t
    simp only [Option.some.injEq, Prod.mk.injEq]
    constructor
    · intro H
      refine ⟨neg, m, e, ⟨rfl, rfl, rfl⟩, ?_⟩
      by_cases hm : m = 0
      · simp [hm] at H; exact Or.inl ⟨hm, H.symm⟩
      · rw [if_neg hm] at H
        cases neg with
        | true => simp at H
        | false =>
          simp only [Bool.false_eq_true, if_false] at H
          refine Or.inr ⟨hm, rfl, ?_⟩
          by_cases he : e ≥ 0
          · rw [if_pos he] at H
            exact Or.inl ⟨he, (Option.some.inj H).symm⟩
          · rw [if_neg he] at H
            by_cases hd : m % 2 ^ (-e).toNat = 0
            · rw [if_pos hd] at H
              exact Or.inr ⟨by omega,
                (div_exact m n _ (pow_pos' _)).1 ⟨hd, (Option.some.inj H).symm⟩⟩
            · rw [if_neg hd] at H; simp at H
    · rintro ⟨neg', m', e', ⟨rfl, rfl, rfl⟩, H⟩
      rcases H with ⟨hm, hn⟩ | ⟨hm, hneg, H⟩
      · simp [hm, hn]
      · subst hneg
        rw [if_neg hm]
        simp only [Bool.false_eq_true, if_false]
        rcases H with ⟨he, hn⟩ | ⟨he, hn⟩
        · rw [if_pos he, hn]
        · rw [if_neg (by omega)]
          have := (div_exact _ n _ (pow_pos' (-e).toNat)).2 hn
          rw [if_pos this.1, this.2]

theorem getNumber_exact (o : List (Str × JVal)) (k : Str) (n : Nat) :
    getNumber o k = .ok n ↔ ∃ bits, lookup o k = some (.num bits) ∧ Den bits n ∧ n < 2 ^ 64 := by
  unfold getNumber
  rcases getAny_cases o k with ⟨h, g⟩ | ⟨h, g⟩ | ⟨v, h, hv, g⟩
  · simp [h, g]
  · simp [h, g]
  · rw [g, h]
    cases v with
    | num bits =>
      simp only [Option.some.injEq, JVal.num.injEq, ← toNat_exact]
      constructor
      · intro H
        cases ht : F64.toNat? bits with
        | none => simp [ht] at H
        | some n' =>
          simp only [ht] at H
          by_cases hn : n' < 2 ^ 64
          · rw [if_pos hn] at H
            cases H
            exact ⟨bits, rfl, ht, hn⟩
          · rw [if_neg hn] at H; simp at H
      · rintro ⟨b, rfl, ht, hn⟩
        simp only [ht]
        rw [if_pos hn]
    | _ => simp

theorem getNumber_absent (o : List (Str × JVal)) (k : Str) :
    getNumber o k = .error .absent ↔ (lookup o k = none ∨ lookup o k = some .null) := by
  unfold getNumber
  rcases getAny_cases o k with ⟨h, g⟩ | ⟨h, g⟩ | ⟨v, h, hv, g⟩
  · simp [h, g]
  · simp [h, g]
  · rw [g, h]
    cases v with
    | num bits =>
      simp only [Option.some.injEq, reduceCtorEq, or_self, iff_false]
      cases F64.toNat? bits with
      | none => simp
      | some n => by_cases hn : n < 2 ^ 64 <;> simp [hn]
    | null => exact absurd rfl hv
    | _ => simp

/-! ### Strings -/

theorem isEmpty_iff {α} (l : List α) : l.isEmpty = true ↔ l = [] := List.isEmpty_iff

theorem getString_ok (o : List (Str × JVal)) (k : Str) (v : Str) :
    getString o k = .ok v ↔ ∃ s, lookup o k = some (.str s) ∧ v = Ansi.scrub s ∧ v ≠ [] := by
  unfold getString
  rcases getAny_cases o k with ⟨h, g⟩ | ⟨h, g⟩ | ⟨w, h, hw, g⟩
  · simp [h, g]
  · simp [h, g]
  · rw [g, h]
    cases w with
    | str s =>
      simp only [Option.some.injEq, JVal.str.injEq]
      by_cases he : (Ansi.scrub s).isEmpty = true
      · rw [if_pos he]
        have he' := List.isEmpty_iff.1 he
        constructor
        · intro H; cases H
        · rintro ⟨s', rfl, rfl, hne⟩; exact absurd he' hne
      · rw [if_neg he]
        have he' : Ansi.scrub s ≠ [] := fun e => he (List.isEmpty_iff.2 e)
        constructor
        · intro H; cases H; exact ⟨s, rfl, rfl, he'⟩
        · rintro ⟨s', rfl, rfl, _⟩; rfl
    | _ => simp

theorem getString_absent (o : List (Str × JVal)) (k : Str) :
    getString o k = .error .absent ↔
      (lookup o k = none ∨ lookup o k = some .null ∨
        ∃ s, lookup o k = some (.str s) ∧ Ansi.scrub s = []) := by
  unfold getString
  rcases getAny_cases o k with ⟨h, g⟩ | ⟨h, g⟩ | ⟨w, h, hw, g⟩
  · simp [h, g]
  · simp [h, g]
  · rw [g, h]
    cases w with
    | str s =>
      simp only [Option.some.injEq, JVal.str.injEq, reduceCtorEq, false_or]
      by_cases he : (Ansi.scrub s).isEmpty = true
      · rw [if_pos he]
        exact ⟨fun _ => ⟨s, rfl, List.isEmpty_iff.1 he⟩, fun _ => rfl⟩
      · rw [if_neg he]
        constructor
        · intro H; cases H
        · rintro ⟨s', rfl, e⟩; exact absurd (List.isEmpty_iff.2 e) he
    | null => exact absurd rfl hw
    | _ => simp

theorem getString_wrong (o : List (Str × JVal)) (k : Str) :
    getString o k = .error .wrong ↔
      ∃ v, lookup o k = some v ∧ v ≠ .null ∧ ∀ s, v ≠ .str s := by
  unfold getString
  rcases getAny_cases o k with ⟨h, g⟩ | ⟨h, g⟩ | ⟨w, h, hw, g⟩
  · simp [h, g]
  · simp [h, g]
  · rw [g, h]
    cases w with
    | str s =>
      simp only [Option.some.injEq]
      constructor
      · intro H
        by_cases he : (Ansi.scrub s).isEmpty = true
        · rw [if_pos he] at H; cases H
        · rw [if_neg he] at H; cases H
      · rintro ⟨v, rfl, _, hs⟩; exact absurd rfl (hs s)
    | null => exact absurd rfl hw
    | bool b => exact ⟨fun _ => ⟨_, rfl, hw, fun s e => by cases e⟩, fun _ => rfl⟩
    | num b => exact ⟨fun _ => ⟨_, rfl, hw, fun s e => by cases e⟩, fun _ => rfl⟩
    | arr b => exact ⟨fun _ => ⟨_, rfl, hw, fun s e => by cases e⟩, fun _ => rfl⟩
    | obj b => exact ⟨fun _ => ⟨_, rfl, hw, fun s e => by cases e⟩, fun _ => rfl⟩

theorem scrub_mem (s : Str) (c : Char) (h : c ∈ Ansi.scrub s) :
    c = '\n' ∨ Uni.isControl c = false := by
  unfold Ansi.scrub at h
  have := (List.mem_filter.1 h).2
  simpa using this

theorem getString_sanitised (o : List (Str × JVal)) (k : Str) (v : Str)
    (h : getString o k = .ok v) :
    v ≠ [] ∧ ∀ c ∈ v, c = '\n' ∨ Uni.isControl c = false := by
  obtain ⟨s, _, rfl, hne⟩ := (getString_ok o k v).1 h
  exact ⟨hne, fun c hc => scrub_mem s c hc⟩

/-! ### Lists and objects -/

theorem getList_ok (o : List (Str × JVal)) (k : Str) (l : List JVal) :
    getList o k = .ok l ↔
      ((lookup o k = some (.arr l)) ∨
       (∃ v, lookup o k = some v ∧ v ≠ .null ∧ (∀ xs, v ≠ .arr xs) ∧ l = [v])) := by
  unfold getList
  rcases getAny_cases o k with ⟨h, g⟩ | ⟨h, g⟩ | ⟨w, h, hw, g⟩
  · simp [h, g]
  · simp [h, g]
  · rw [g, h]
    cases w with
    | arr xs =>
      simp only [Except.ok.injEq, Option.some.injEq, JVal.arr.injEq]
      constructor
      · intro e; exact Or.inl e
      · rintro (e | ⟨v, rfl, _, hx, _⟩)
        · exact e
        · exact absurd rfl (hx xs)
    | null => exact absurd rfl hw
    | bool b =>
      simp only [Except.ok.injEq, Option.some.injEq, reduceCtorEq, false_or]
      constructor
      · intro e; exact ⟨_, rfl, hw, (fun xs e => by cases e), e.symm⟩
      · rintro ⟨v, rfl, _, _, e⟩; exact e.symm
    | num b =>
      simp only [Except.ok.injEq, Option.some.injEq, reduceCtorEq, false_or]
      constructor
      · intro e; exact ⟨_, rfl, hw, (fun xs e => by cases e), e.symm⟩
      · rintro ⟨v, rfl, _, _, e⟩; exact e.symm
    | str b =>
      simp only [Except.ok.injEq, Option.some.injEq, reduceCtorEq, false_or]
      constructor
      · intro e; exact ⟨_, rfl, hw, (fun xs e => by cases e), e.symm⟩
      · rintro ⟨v, rfl, _, _, e⟩; exact e.symm
    | obj b =>
      simp only [Except.ok.injEq, Option.some.injEq, reduceCtorEq, false_or]
      constructor
      · intro e; exact ⟨_, rfl, hw, (fun xs e => by cases e), e.symm⟩
      · rintro ⟨v, rfl, _, _, e⟩; exact e.symm

theorem getObject_ok (o : List (Str × JVal)) (k : Str) (kvs : List (Str × JVal)) :
    getObject o k = .ok kvs ↔ lookup o k = some (.obj kvs) := by
  unfold getObject
  rcases getAny_cases o k with ⟨h, g⟩ | ⟨h, g⟩ | ⟨w, h, hw, g⟩
  · simp [h, g]
  · simp [h, g]
  · rw [g, h]
    cases w <;> simp

theorem getObject_wrong (o : List (Str × JVal)) (k : Str) :
    getObject o k = .error .wrong ↔
      ∃ v, lookup o k = some v ∧ v ≠ .null ∧ ∀ kvs, v ≠ .obj kvs := by
  unfold getObject
  rcases getAny_cases o k with ⟨h, g⟩ | ⟨h, g⟩ | ⟨w, h, hw, g⟩
  · simp [h, g]
  · simp [h, g]
  · rw [g, h]
    cases w with
    | obj kvs =>
      simp only [Option.some.injEq, reduceCtorEq, false_iff]
      rintro ⟨v, rfl, _, hx⟩; exact hx kvs rfl
    | null => exact absurd rfl hw
    | bool b => exact ⟨fun _ => ⟨_, rfl, hw, fun s e => by cases e⟩, fun _ => rfl⟩
    | num b => exact ⟨fun _ => ⟨_, rfl, hw, fun s e => by cases e⟩, fun _ => rfl⟩
    | arr b => exact ⟨fun _ => ⟨_, rfl, hw, fun s e => by cases e⟩, fun _ => rfl⟩
    | str b => exact ⟨fun _ => ⟨_, rfl, hw, fun s e => by cases e⟩, fun _ => rfl⟩

/-! ### Parsed accessors -/

theorem getTime_spec {Time Url : Type} (L : Libs Time Url) (o : List (Str × JVal)) (k : Str)
    (t : Time) :
    getTime L o k = .ok t ↔ ∃ s, getString o k = .ok s ∧ L.parseTime s = some t := by
  unfold getTime
  cases getString o k with
  | error e => simp
  | ok s =>
    cases hp : L.parseTime s with
    | none =>
      simp only [hp, reduceCtorEq, Except.ok.injEq, false_iff]
      rintro ⟨s', rfl, h'⟩; rw [hp] at h'; cases h'
    | some t' =>
      simp only [hp, Except.ok.injEq]
      constructor
      · rintro rfl; exact ⟨s, rfl, hp⟩
      · rintro ⟨s', rfl, h'⟩; rw [hp] at h'; exact Option.some.inj h'

theorem getURL_spec {Time Url : Type} (L : Libs Time Url) (o : List (Str × JVal)) (k : Str)
    (u : Url) :
    getURL L o k = .ok u ↔ ∃ s, getString o k = .ok s ∧ L.parseUrl s = some u := by
  unfold getURL
  cases getString o k with
  | error e => simp
  | ok s =>
    cases hp : L.parseUrl s with
    | none =>
      simp only [hp, reduceCtorEq, Except.ok.injEq, false_iff]
      rintro ⟨s', rfl, h'⟩; rw [hp] at h'; cases h'
    | some t' =>
      simp only [hp, Except.ok.injEq]
      constructor
      · rintro rfl; exact ⟨s, rfl, hp⟩
      · rintro ⟨s', rfl, h'⟩; rw [hp] at h'; exact Option.some.inj h'

/-! ### Media types -/

theorem mem_takeWhile {p : Char → Bool} : ∀ (l : List Char) (c : Char),
    c ∈ l.takeWhile p → p c = true
  | [], _, h => by simp at h
  | a :: l, c, h => by
    rw [List.takeWhile_cons] at h
    by_cases ha : p a = true
    · rw [if_pos ha] at h
      rcases List.mem_cons.1 h with rfl | h
      · exact ha
      · exact mem_takeWhile l c h
    · rw [if_neg ha] at h; simp at h

theorem head_dropWhile {p : Char → Bool} : ∀ (l : List Char) (c : Char),
    (l.dropWhile p).head? = some c → p c = false
  | [], _, h => by simp at h
  | a :: l, c, h => by
    rw [List.dropWhile_cons] at h
    by_cases ha : p a = true
    · rw [if_pos ha] at h; exact head_dropWhile l c h
    · rw [if_neg ha] at h
      simp only [List.head?_cons, Option.some.injEq] at h
      subst h; simpa using ha

theorem mime_parse_spec (s : Str) (m : Mime.MediaType) (h : Mime.parse s = some m) :
    m.essence = m.supertype ++ '/' :: m.subtype ∧ m.supertype ≠ [] ∧ m.subtype ≠ [] ∧
    (∀ c ∈ m.supertype, Mime.isTok c = true) ∧ (∀ c ∈ m.subtype, Mime.isTok c = true) ∧
    ∃ rest, s = m.essence ++ rest ∧ (∀ c, rest.head? = some c → Mime.isTok c = false) := by
  unfold Mime.parse at h
  simp only at h
  by_cases h1 : (s.takeWhile Mime.isTok).isEmpty = true
  · rw [if_pos h1] at h; cases h
  · rw [if_neg h1] at h
    have hs : s = s.takeWhile Mime.isTok ++ s.dropWhile Mime.isTok :=
      (List.takeWhile_append_dropWhile).symm
    cases hr : s.dropWhile Mime.isTok with
    | nil => rw [hr] at h; cases h
    | cons a r =>
      rw [hr] at h
      by_cases ha : a = '/'
      · subst ha
        simp only at h
        by_cases h2 : (r.takeWhile Mime.isTok).isEmpty = true
        · rw [if_pos h2] at h; cases h
        · rw [if_neg h2] at h
          cases h
          refine ⟨rfl, fun e => h1 (List.isEmpty_iff.2 e), fun e => h2 (List.isEmpty_iff.2 e),
            fun c hc => mem_takeWhile _ c hc, fun c hc => mem_takeWhile _ c hc,
            r.dropWhile Mime.isTok, ?_, fun c hc => head_dropWhile _ c hc⟩
          simp only
          rw [List.append_assoc, List.cons_append, List.takeWhile_append_dropWhile, ← hr]
          exact hs
      · exfalso
        split at h
        · next heq => cases heq; exact ha rfl
        · cases h

end C17L
