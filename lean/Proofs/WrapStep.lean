import Model

/-
  The loop body of `ansi.Wrap`, split into its cases, and the state invariant.
-/

namespace WrapP
open Str Ansi AnsiSpec

theorem isSpace_nl : Uni.isSpace '\n' = true := by decide

/-- The `if len(word) > 0 { line += space + word … }` block. -/
def flush (s : WrapSt) : WrapSt :=
  if s.word.length > 0 then
    { s with line := s.line ++ s.space ++ s.word, space := [], word := [] }
  else s

/-- The whitespace branch after the flush. -/
def spStep (w : Int) (s : WrapSt) (m : RawCell) : WrapSt :=
  if m.letter = '\n' then
    let l := if (s.line.length + s.space.length : Int) ≤ w then s.line ++ s.space else s.line
    { result := s.result ++ [l], line := [], space := [], word := [] }
  else
    { s with space := s.space ++ [m] }

theorem wrapStep_space (w : Int) (s : WrapSt) (m : RawCell) (h : Uni.isSpace m.letter = true) :
    wrapStep w s m = spStep w (flush s) m := by
  simp [wrapStep, h, spStep, flush]

theorem wrapStep_full (w : Int) (s : WrapSt) (m : RawCell) (hw : 1 ≤ w)
    (h : Uni.isSpace m.letter = false) (hf : (s.word.length : Int) = w) :
    wrapStep w s m = { result := s.result ++ [s.word], line := [], space := [], word := [m] } := by
  have : ¬ (w ≤ 0) := by omega
  simp [wrapStep, h, hf, this]

theorem wrapStep_push (w : Int) (s : WrapSt) (m : RawCell)
    (h : Uni.isSpace m.letter = false) (hf : (s.word.length : Int) ≠ w)
    (hp : (s.line.length + s.space.length + s.word.length : Int) ≥ w) :
    wrapStep w s m =
      { result := s.result ++ [s.line], line := [], space := [], word := s.word ++ [m] } := by
  simp [wrapStep, h, hf, hp]

theorem wrapStep_keep (w : Int) (s : WrapSt) (m : RawCell)
    (h : Uni.isSpace m.letter = false) (hf : (s.word.length : Int) ≠ w)
    (hp : ¬ (s.line.length + s.space.length + s.word.length : Int) ≥ w) :
    wrapStep w s m = { s with word := s.word ++ [m] } := by
  simp [wrapStep, h, hf, hp]

/-- Case eliminator for one loop iteration (`1 ≤ w`). -/
theorem wrapStep_cases {w : Int} (hw : 1 ≤ w) (s : WrapSt) (m : RawCell) (P : WrapSt → Prop)
    (hfull : Uni.isSpace m.letter = false → (s.word.length : Int) = w →
      P { result := s.result ++ [s.word], line := [], space := [], word := [m] })
    (hpush : Uni.isSpace m.letter = false → (s.word.length : Int) ≠ w →
      (s.line.length + s.space.length + s.word.length : Int) ≥ w →
      P { result := s.result ++ [s.line], line := [], space := [], word := s.word ++ [m] })
    (hkeep : Uni.isSpace m.letter = false → (s.word.length : Int) ≠ w →
      ¬ (s.line.length + s.space.length + s.word.length : Int) ≥ w →
      P { s with word := s.word ++ [m] })
    (hsp : Uni.isSpace m.letter = true → P (spStep w (flush s) m)) :
    P (wrapStep w s m) := by
  cases h : Uni.isSpace m.letter with
  | true => rw [wrapStep_space w s m h]; exact hsp h
  | false =>
    by_cases hf : (s.word.length : Int) = w
    · rw [wrapStep_full w s m hw h hf]; exact hfull h hf
    · by_cases hp : (s.line.length + s.space.length + s.word.length : Int) ≥ w
      · rw [wrapStep_push w s m h hf hp]; exact hpush h hf hp
      · rw [wrapStep_keep w s m h hf hp]; exact hkeep h hf hp

/-- The loop invariant of `ansi.Wrap` for a positive width. -/
structure Inv (w : Int) (s : WrapSt) : Prop where
  res : ∀ l ∈ s.result, (l.length : Int) ≤ w
  line : (s.line.length : Int) ≤ w
  word : (s.word.length : Int) ≤ w
  tot : s.word ≠ [] → (s.line.length + s.space.length + s.word.length : Int) ≤ w
  spc : ∀ m ∈ s.space, Uni.isSpace m.letter = true ∧ m.letter ≠ '\n'
  wrd : ∀ m ∈ s.word, Uni.isSpace m.letter = false

theorem Inv_init (w : Int) (hw : 1 ≤ w) : Inv w {} := by
  constructor <;> simp <;> omega

theorem Inv.full_line {w : Int} {s : WrapSt} (hw : 1 ≤ w) (h : Inv w s)
    (hf : (s.word.length : Int) = w) : s.line = [] ∧ s.space = [] := by
  have hne : s.word ≠ [] := by
    intro h0; rw [h0] at hf; simp at hf; omega
  have := h.tot hne
  constructor
  · apply List.eq_nil_of_length_eq_zero; omega
  · apply List.eq_nil_of_length_eq_zero; omega

theorem Inv_flush {w : Int} {s : WrapSt} (h : Inv w s) : Inv w (flush s) := by
  unfold flush
  split
  · rename_i hp
    have hne : s.word ≠ [] := by intro h0; rw [h0] at hp; simp at hp
    have := h.tot hne
    have := h.line
    constructor <;> simp
    · exact h.res
    · omega
    · omega
  · exact h

theorem flush_word (s : WrapSt) : (flush s).word = [] := by
  unfold flush
  split
  · rfl
  · rename_i hp
    simpa using hp

theorem flush_result (s : WrapSt) : (flush s).result = s.result := by
  unfold flush; split <;> rfl

theorem Inv_spStep {w : Int} {s : WrapSt} (m : RawCell) (h : Inv w s) (hw0 : s.word = [])
    (hm : Uni.isSpace m.letter = true) : Inv w (spStep w s m) := by
  unfold spStep
  have hl0 := h.line
  split
  · constructor <;> simp
    · intro l hl
      rcases hl with hl | rfl
      · exact h.res l hl
      · split
        · simpa using ‹_›
        · exact h.line
    · omega
    · omega
  · rename_i hnl
    constructor <;> simp
    · exact h.res
    · exact h.line
    · simp [hw0]; omega
    · simp [hw0]
    · intro x hx
      rcases hx with hx | rfl
      · exact h.spc x hx
      · exact ⟨hm, hnl⟩
    · simp [hw0]

theorem Inv_step {w : Int} (hw : 1 ≤ w) {s : WrapSt} (m : RawCell) (h : Inv w s) :
    Inv w (wrapStep w s m) := by
  apply wrapStep_cases hw s m
  · intro hm hf
    constructor <;> simp
    · intro l hl
      rcases hl with hl | rfl
      · exact h.res l hl
      · omega
    · omega
    · omega
    · omega
    · exact hm
  · intro hm hf hp
    have := h.word
    constructor <;> simp
    · intro l hl
      rcases hl with hl | rfl
      · exact h.res l hl
      · exact h.line
    · omega
    · omega
    · omega
    · intro x hx
      rcases hx with hx | rfl
      · exact h.wrd x hx
      · exact hm
  · intro hm hf hp
    have := h.word
    constructor <;> simp
    · exact h.res
    · exact h.line
    · omega
    · omega
    · exact h.spc
    · intro x hx
      rcases hx with hx | rfl
      · exact h.wrd x hx
      · exact hm
  · intro hm
    exact Inv_spStep m (Inv_flush h) (flush_word s) hm

theorem Inv_foldl {w : Int} (hw : 1 ≤ w) (cells : List RawCell) :
    ∀ s, Inv w s → Inv w (cells.foldl (wrapStep w) s) := by
  induction cells with
  | nil => intro s h; exact h
  | cons m ms ih => intro s h; exact ih _ (Inv_step hw m h)

end WrapP
