import Proofs.CleanAnsi

/-
  Clean text is closed under the style layer.
-/

namespace Cells
open Str Ansi

theorem clean_bold (s : Str) (h : Clean s) : Clean (Style.bold s) :=
  clean_apply s _ h (by decide)

theorem clean_italic (s : Str) (h : Clean s) : Clean (Style.italic s) :=
  clean_apply s _ h (by decide)

theorem clean_underline (s : Str) (h : Clean s) : Clean (Style.underline s) :=
  clean_apply s _ h (by decide)

theorem clean_strikethrough (s : Str) (h : Clean s) : Clean (Style.strikethrough s) :=
  clean_apply s _ h (by decide)

theorem superDigit_printable (d : Char) : Uni.isControl (Style.superDigit d) = false := by
  unfold Style.superDigit
  split <;> decide

theorem superscript_noCtl (n : Nat) : Safe.noCtl (Style.superscript n) = true := by
  rw [noCtl_iff]
  intro c hc
  simp only [Style.superscript, List.mem_map] at hc
  obtain ⟨d, _, rfl⟩ := hc
  exact Or.inr (superDigit_printable d)

section
variable (c : Colors) (hc : ColorsOk c)
include hc

theorem clean_color (s : Str) (h : Clean s) : Clean (Style.color c s) :=
  clean_apply s _ h hc.1

theorem clean_red (s : Str) (h : Clean s) : Clean (Style.red c s) :=
  clean_apply s _ h hc.2.1

theorem clean_highlight (s : Str) (h : Clean s) : Clean (Style.highlight c s) :=
  clean_apply s _ h hc.2.2.1

theorem clean_code (s : Str) (h : Clean s) : Clean (Style.code c s) :=
  clean_apply s _ h hc.2.2.2

theorem clean_codeBlock (s : Str) (h : Clean s) : Clean (Style.codeBlock c s) :=
  clean_code c hc s h

theorem clean_link (s : Str) (n : Nat) (h : Clean s) : Clean (Style.link c s n) :=
  clean_color c hc _ (clean_append _ _ (clean_underline s h) (clean_plain _ (superscript_noCtl n)))

theorem clean_linkBlock (s : Str) (n : Nat) (h : Clean s) : Clean (Style.linkBlock c s n) :=
  clean_append _ _ (clean_plain _ (by decide))
    (clean_indent _ _ _ (clean_link c hc s n h) (by decide))

theorem clean_quoteBlock (s : Str) (h : Clean s) : Clean (Style.quoteBlock c s) :=
  clean_color c hc _ (clean_indent _ _ _ h (by decide))

theorem clean_header (s : Str) (k : Nat) (h : Clean s) : Clean (Style.header c s k) := by
  unfold Style.header
  refine clean_color c hc _ (clean_bold _ ?_)
  refine clean_append _ _ (clean_plain _ (noCtl_rep _ _ (by decide))) ?_
  exact clean_cons ' ' (Or.inr (by decide)) _
    (clean_indent _ _ _ h (noCtl_rep _ _ (by decide)))

end

theorem clean_bullet (s : Str) (h : Clean s) : Clean (Style.bullet s) :=
  clean_append _ _ (clean_plain _ (by decide)) (clean_indent _ _ _ h (by decide))

end Cells
