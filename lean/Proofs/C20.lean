import Model

/-
  Helper lemmas for C20 (`Hook.build`).
-/

namespace Hook

theorem substitute_def (link : Str) (mt : Mime.MediaType) (a : Str) :
    substitute link mt a =
      (if a = "%url".toList then link
       else if a = "%mimetype".toList then mt.essence
       else if a = "%subtype".toList then mt.subtype
       else if a = "%supertype".toList then mt.supertype
       else a) := rfl

theorem build_cons (prog : Str) (args : List Str) (link : Str) (mt : Mime.MediaType) :
    build (prog :: args) link mt =
      .ok { argv := prog :: args.map (substitute link mt),
            stdin := if args.contains "%url".toList then none else some link } := rfl

/-- Inversion of a successful `build`. -/
theorem build_ok_inv {hook : List Str} {link : Str} {mt : Mime.MediaType} {c : Cmd}
    (h : build hook link mt = .ok c) :
    ∃ prog args, hook = prog :: args ∧
      c = { argv := prog :: args.map (substitute link mt),
            stdin := if args.contains "%url".toList then none else some link } := by
  cases hook with
  | nil => simp [build] at h
  | cons prog args =>
    refine ⟨prog, args, rfl, ?_⟩
    rw [build_cons] at h
    exact (Except.ok.inj h).symm

theorem build_error_iff (hook : List Str) (link : Str) (mt : Mime.MediaType) :
    (∃ e, build hook link mt = .error e) ↔ hook = [] := by
  cases hook with
  | nil => simp [build]
  | cons prog args => simp [build]

/-- argv at index `i ≥ 1`. -/
theorem argv_get (prog : Str) (args : List Str) (link : Str) (mt : Mime.MediaType)
    (i : Nat) (hi : 1 ≤ i) (a : Str) (ha : (prog :: args)[i]? = some a) :
    (prog :: args.map (substitute link mt))[i]? = some (substitute link mt a) := by
  obtain ⟨j, rfl⟩ : ∃ j, i = j + 1 := ⟨i - 1, by omega⟩
  simp only [List.getElem?_cons_succ] at ha ⊢
  simp [List.getElem?_map, ha]

theorem contains_iff_index (args : List Str) (prog x : Str) :
    args.contains x = true ↔ ∃ i, 1 ≤ i ∧ (prog :: args)[i]? = some x := by
  rw [List.contains_iff_mem, List.mem_iff_getElem?]
  constructor
  · rintro ⟨j, hj⟩
    exact ⟨j + 1, by omega, by simpa using hj⟩
  · rintro ⟨i, hi, h⟩
    obtain ⟨j, rfl⟩ : ∃ j, i = j + 1 := ⟨i - 1, by omega⟩
    exact ⟨j, by simpa using h⟩

theorem substitute_of_not_placeholder (link : Str) (mt : Mime.MediaType) (a : Str)
    (h1 : a ≠ "%url".toList) (h2 : a ≠ "%mimetype".toList) (h3 : a ≠ "%subtype".toList)
    (h4 : a ≠ "%supertype".toList) : substitute link mt a = a := by
  rw [substitute_def, if_neg h1, if_neg h2, if_neg h3, if_neg h4]

theorem substitute_url (link : Str) (mt : Mime.MediaType) :
    substitute link mt "%url".toList = link := by
  rw [substitute_def, if_pos rfl]

end Hook
