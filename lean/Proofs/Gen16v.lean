import Model.Ui
import Model.GoCtl
import Generated.GoView

/-
  Helper lemmas for `Props/Gen16v.lean`: closed forms for the three loops of the translated
  `view` (`Generated/GoView.lean`), each stated over an arbitrary loop body with a hypothesis that
  says what one turn does, so that the shape the `do` notation gives the body does not matter.
-/

namespace Gen16v
open Ui

variable {α : Type}

/-- `for first > -ctx && Contains(first-1) { first-- }` over its budget. -/
theorem up_loop (f : Feed.F α) (ctx : Int) (body : Unit → Int → Except Panic (ForInStep Int))
    (hb : ∀ u x, body u x =
      .ok (if (decide (x > -ctx) && Feed.contains f (x - 1)) = true then .yield (x - 1) else .done x))
    (n : Nat) (x : Int) (hx : (x + ctx).toNat = n) :
    forIn (List.replicate n ()) x body = .ok (walkUp f n x) := by
  induction n generalizing x with
  | zero => rfl
  | succ n ih =>
    simp only [List.replicate_succ, List.forIn_cons, hb, walkUp]
    have h1 : x > -ctx := by omega
    simp only [h1, decide_true, Bool.true_and]
    by_cases hc : Feed.contains f (x - 1) = true
    · simp only [hc, if_true]
      exact ih (x - 1) (by omega)
    · simp only [hc, if_false, Bool.false_eq_true]
      rfl

/-- `for last < ctx && Contains(last+1) { last++ }` over its budget. -/
theorem down_loop (f : Feed.F α) (ctx : Int) (body : Unit → Int → Except Panic (ForInStep Int))
    (hb : ∀ u x, body u x =
      .ok (if (decide (x < ctx) && Feed.contains f (x + 1)) = true then .yield (x + 1) else .done x))
    (n : Nat) (x : Int) (hx : (ctx - x).toNat = n) :
    forIn (List.replicate n ()) x body = .ok (walkDown f n x) := by
  induction n generalizing x with
  | zero => rfl
  | succ n ih =>
    simp only [List.replicate_succ, List.forIn_cons, hb, walkDown]
    have h1 : x < ctx := by omega
    simp only [h1, decide_true, Bool.true_and]
    by_cases hc : Feed.contains f (x + 1) = true
    · simp only [hc, if_true]
      exact ih (x + 1) (by omega)
    · simp only [hc, if_false, Bool.false_eq_true]
      rfl

/-- The loop over the offsets: a body that never leaves early is the fold of its step. -/
theorem parts_loop (r : Render α) (f : Feed.F α) (width : Int)
    (body : Int → Str × Str × Str → Except Panic (ForInStep (Str × Str × Str)))
    (hb : ∀ i a, body i a =
      match partsStep r f width a i with
      | .error e => .error e
      | .ok a' => .ok (.yield a'))
    (L : List Int) (a : Str × Str × Str) :
    forIn L a body = foldParts r f width L a := by
  induction L generalizing a with
  | nil => rfl
  | cons i is ih =>
    simp only [List.forIn_cons, hb, foldParts]
    cases partsStep r f width a i with
    | error e => rfl
    | ok a' => exact ih a'

/-- A loop whose first turn panics panics. -/
theorem forIn_error {σ β : Type} (body : β → σ → Except Panic (ForInStep σ)) (e : Panic)
    (x : β) (L : List β) (a : σ) (hb : body x a = .error e) :
    forIn (x :: L) a body = .error e := by
  simp only [List.forIn_cons, hb]
  rfl

theorem countUp_eq_offsets (first last : Int) : Go.countUp first (last + 1) = offsets first last := rfl

theorem budget_up (ctx : Int) : Go.budget 0 (-ctx) = List.replicate ctx.toNat () := by
  unfold Go.budget
  congr 1
  omega

theorem budget_down (ctx : Int) : Go.budget ctx 0 = List.replicate ctx.toNat () := by
  unfold Go.budget
  congr 1
  omega

end Gen16v
