import Model

namespace Coll
variable {R E : Type}

/-! ### chain / flat facts -/

theorem chain_succ_ref (load : R → Option (Page R E)) (fuel : Nat) (c : Page R E) (r : R) (p : Page R E)
    (hf : ¬ c.elemsFailed = true) (hn : c.next = .ref r) (hl : load r = some p) :
    chain load (fuel + 1) c = c :: chain load fuel p := by
  simp [chain, hf, hn, hl]

theorem chain_cons (load : R → Option (Page R E)) (fuel : Nat) (c : Page R E) :
    ∃ ps, chain load fuel c = c :: ps := by
  cases fuel with
  | zero => exact ⟨[], rfl⟩
  | succ n =>
    unfold chain
    split
    · exact ⟨[], rfl⟩
    · split
      · split
        · exact ⟨_, rfl⟩
        · exact ⟨[], rfl⟩
      · exact ⟨[], rfl⟩

theorem flat_zero (load : R → Option (Page R E)) (c : Page R E) (start : Nat) :
    flat load 0 c start = c.items.drop start := by
  simp [flat, chain]

theorem flat_succ_ref (load : R → Option (Page R E)) (fuel : Nat) (c : Page R E) (start : Nat) (r : R)
    (p : Page R E) (hf : ¬ c.elemsFailed = true) (hn : c.next = .ref r) (hl : load r = some p) :
    flat load (fuel + 1) c start = c.items.drop start ++ flat load fuel p 0 := by
  obtain ⟨ps, hps⟩ := chain_cons load fuel p
  simp [flat, chain_succ_ref load fuel c r p hf hn hl, hps]

theorem endsCleanly_succ_ref (load : R → Option (Page R E)) (fuel : Nat) (c : Page R E) (r : R)
    (p : Page R E) (hf : ¬ c.elemsFailed = true) (hn : c.next = .ref r) (hl : load r = some p) :
    endsCleanly load (fuel + 1) c = endsCleanly load fuel p := by
  simp [endsCleanly, hf, hn, hl]

theorem endsCleanly_zero_absent (load : R → Option (Page R E)) (c : Page R E)
    (hf : ¬ c.elemsFailed = true) (hn : c.next = .absent) :
    endsCleanly load 0 c = true := by
  simp [endsCleanly, hf, hn]


/-! ### one-step unfoldings -/

theorem harvest_cases (load : R → Option (Page R E)) (c : Page R E) (amount start : Nat)
    (motive : Res R E → Prop)
    (h1 : c.elemsFailed = true → motive ⟨[.failElems], none, 1⟩)
    (h2 : ¬ c.elemsFailed = true → c.items.length > amount + start →
      motive ⟨((c.items.drop start).take amount).map .item, some (c, amount + start), 1⟩)
    (h3 : ¬ c.elemsFailed = true → c.items.length ≤ amount + start → c.next = .absent →
      motive ⟨(c.items.drop start).map .item, none, 1⟩)
    (h4 : ¬ c.elemsFailed = true → c.items.length ≤ amount + start → c.next = .err →
      motive ⟨(c.items.drop start).map .item ++ [.failNext], none, 1⟩)
    (h5 : ¬ c.elemsFailed = true → c.items.length ≤ amount + start → ∀ r, c.next = .ref r →
      load r = none → motive ⟨(c.items.drop start).map .item ++ [.failLoad], none, 1⟩)
    (h6 : ¬ c.elemsFailed = true → c.items.length ≤ amount + start → ∀ r, c.next = .ref r →
      ∀ p, load r = some p →
      motive ⟨(c.items.drop start).map .item ++
          (harvest0 load p (amount - (c.items.length - start)) (nextEmpties c.items.length 0)).out,
        (harvest0 load p (amount - (c.items.length - start)) (nextEmpties c.items.length 0)).cont,
        (harvest0 load p (amount - (c.items.length - start)) (nextEmpties c.items.length 0)).pages + 1⟩) :
    motive (harvest load c amount start) := by
  unfold harvest
  by_cases hf : c.elemsFailed = true
  · simpa [hf] using h1 hf
  · by_cases hl : c.items.length > amount + start
    · have : ¬ start ≥ c.items.length := by omega
      simpa [hf, hl, this] using h2 hf hl
    · have hk : (if start ≥ c.items.length then 0 else c.items.length - start) = c.items.length - start := by
        split <;> omega
      have ht : List.take (c.items.length - start) (List.drop start c.items) = List.drop start c.items := by
        apply List.take_of_length_le; simp
      simp only [hf, hl, if_false, hk, ht]
      cases hn : c.next with
      | absent => simpa using h3 hf (by omega) hn
      | err => simpa using h4 hf (by omega) hn
      | ref r =>
        cases hld : load r with
        | none => simpa [hld] using h5 hf (by omega) r hn hld
        | some p => simpa [hld] using h6 hf (by omega) r hn p hld

theorem harvest_gt (load : R → Option (Page R E)) (c : Page R E) (amount start : Nat)
    (hf : ¬ c.elemsFailed = true) (hl : c.items.length > amount + start) :
    harvest load c amount start =
      ⟨((c.items.drop start).take amount).map .item, some (c, amount + start), 1⟩ := by
  apply harvest_cases load c amount start (fun r => r = _)
  · intro h; exact absurd h hf
  · intros; rfl
  all_goals (intros; omega)

theorem harvest_le (load : R → Option (Page R E)) (c : Page R E) (amount start : Nat)
    (hf : ¬ c.elemsFailed = true) (hl : c.items.length ≤ amount + start) :
    harvest load c amount start =
      match c.next with
      | .absent => ⟨(c.items.drop start).map .item, none, 1⟩
      | .err => ⟨(c.items.drop start).map .item ++ [.failNext], none, 1⟩
      | .ref r =>
        match load r with
        | none => ⟨(c.items.drop start).map .item ++ [.failLoad], none, 1⟩
        | some p =>
          ⟨(c.items.drop start).map .item ++
            (harvest0 load p (amount - (c.items.length - start)) (nextEmpties c.items.length 0)).out,
          (harvest0 load p (amount - (c.items.length - start)) (nextEmpties c.items.length 0)).cont,
          (harvest0 load p (amount - (c.items.length - start)) (nextEmpties c.items.length 0)).pages + 1⟩ := by
  apply harvest_cases load c amount start (fun r => r = _)
  · intro h; exact absurd h hf
  · intros; omega
  · intro _ _ hn; simp [hn]
  · intro _ _ hn; simp [hn]
  · intro _ _ r hn hld; simp [hn, hld]
  · intro _ _ r hn p hld; simp [hn, hld]

theorem harvest0_gt (load : R → Option (Page R E)) (c : Page R E) (amount e : Nat)
    (hf : ¬ c.elemsFailed = true) (he : ¬ nextEmpties c.items.length e > threshold)
    (hl : c.items.length > amount) :
    harvest0 load c amount e = ⟨(c.items.take amount).map .item, some (c, amount), 1⟩ := by
  rw [harvest0]; simp [hf, he, hl]

theorem harvest0_le (load : R → Option (Page R E)) (c : Page R E) (amount e : Nat)
    (hf : ¬ c.elemsFailed = true) (he : ¬ nextEmpties c.items.length e > threshold)
    (hl : ¬ c.items.length > amount) :
    harvest0 load c amount e =
      match c.next with
      | .absent => ⟨c.items.map .item, none, 1⟩
      | .err => ⟨c.items.map .item ++ [.failNext], none, 1⟩
      | .ref r =>
        match load r with
        | none => ⟨c.items.map .item ++ [.failLoad], none, 1⟩
        | some p =>
          ⟨c.items.map .item ++
            (harvest0 load p (amount - c.items.length) (nextEmpties c.items.length e)).out,
          (harvest0 load p (amount - c.items.length) (nextEmpties c.items.length e)).cont,
          (harvest0 load p (amount - c.items.length) (nextEmpties c.items.length e)).pages + 1⟩ := by
  rw [harvest0]; simp only [hf, he, hl]
  rfl

theorem nextEmpties_pos (l e : Nat) (h : l ≠ 0) : nextEmpties l e = 0 := by
  simp [nextEmpties, h]

theorem refuse_not_mem_map (xs : List E) : Out.refuse ∉ xs.map Out.item := by
  simp

theorem mem_map_item (f : Out E) (xs : List E) (h : f ∈ xs.map Out.item) : f.isItem = true := by
  simp only [List.mem_map] at h
  obtain ⟨a, _, rfl⟩ := h
  rfl

/-! ### (1) boundedness -/

theorem harvest0_pages (load : R → Option (Page R E)) (c : Page R E) (amount e : Nat)
    (he : e ≤ threshold) :
    (harvest0 load c amount e).pages ≤ amount * (threshold + 1) + (threshold + 1 - e) := by
  fun_induction harvest0 load c amount e with
  | case7 c amount e hf xs e' he' hlen here r hn p hl rest ih =>
    have ih' := ih (by omega)
    show rest.pages + 1 ≤ _
    have hr : rest.pages = (harvest0 load p (amount - xs.length) e').pages := rfl
    rw [hr]
    generalize (harvest0 load p (amount - xs.length) e').pages = n at *
    have he'' : e' = if xs.length = 0 then e + 1 else 0 := rfl
    generalize xs.length = l at *
    generalize e' = e2 at *
    clear ih hr
    simp only [threshold] at *
    split at he''
    · subst l; simp at ih'; omega
    · obtain ⟨k, hk⟩ : ∃ k, amount = l + k := ⟨amount - l, by omega⟩
      subst hk
      simp at ih'
      omega
  | _ => simp only [threshold] at *; omega

theorem harvest_pages (load : R → Option (Page R E)) (c : Page R E) (amount start : Nat) :
    (harvest load c amount start).pages ≤ (amount + 1) * (threshold + 1) + 1 := by
  apply harvest_cases load c amount start (fun r => r.pages ≤ _)
  case h6 =>
    intro _ _ r _ p _
    have h1 : nextEmpties c.items.length 0 ≤ threshold := by
      simp [nextEmpties, threshold]; split <;> omega
    have := harvest0_pages load p (amount - (c.items.length - start)) _ h1
    have h2 : amount - (c.items.length - start) ≤ amount := by omega
    have := Nat.mul_le_mul_right (threshold + 1) h2
    simp only [threshold] at *
    omega
  all_goals (intros; simp)

/-! ### continuation -/

theorem harvest0_cont (load : R → Option (Page R E)) (c : Page R E) (amount e : Nat)
    (p : Page R E) (off : Nat) (h : (harvest0 load c amount e).cont = some (p, off)) :
    (∃ items : List E, (harvest0 load c amount e).out = items.map Out.item ∧ items.length = amount) ∧
    off < p.items.length := by
  fun_induction harvest0 load c amount e with
  | case3 c amount e hf xs e' he' hlen =>
    simp only [Option.some.injEq, Prod.mk.injEq] at h
    obtain ⟨rfl, rfl⟩ := h
    exact ⟨⟨xs.take amount, rfl, by simp; omega⟩, hlen⟩
  | case7 c amount e hf xs e' he' hlen here r hn p' hl rest ih =>
    obtain ⟨⟨items, ho, hlen'⟩, hoff⟩ := ih h
    refine ⟨⟨xs ++ items, ?_, ?_⟩, hoff⟩
    · show here ++ rest.out = _
      rw [show rest.out = _ from ho]; simp [here]
    · simp [hlen']; omega
  | _ => simp at h

theorem harvest_cont' (load : R → Option (Page R E)) (c : Page R E) (amount start : Nat)
    (p : Page R E) (off : Nat) (h : (harvest load c amount start).cont = some (p, off)) :
    (∃ items : List E, (harvest load c amount start).out = items.map Out.item ∧ items.length = amount) ∧
    off < p.items.length := by
  revert h
  apply harvest_cases load c amount start
    (fun r => r.cont = some (p, off) →
      (∃ items : List E, r.out = items.map Out.item ∧ items.length = amount) ∧ off < p.items.length)
  case h2 =>
    intro _ hl h
    simp only [Option.some.injEq, Prod.mk.injEq] at h
    obtain ⟨rfl, rfl⟩ := h
    exact ⟨⟨_, rfl, by simp; omega⟩, hl⟩
  case h6 =>
    intro _ hl r _ p' _ h
    obtain ⟨⟨items, ho, hlen'⟩, hoff⟩ := harvest0_cont load p' _ _ p off h
    refine ⟨⟨c.items.drop start ++ items, ?_, ?_⟩, hoff⟩
    · simp only [ho]; simp
    · simp [hlen']; omega
  all_goals (intros; simp_all)

/-! ### (2) prefix -/

theorem harvest0_prefix (load : R → Option (Page R E)) (c : Page R E) (amount e : Nat) :
    ∃ (items : List E) (tail : List (Out E)),
      (harvest0 load c amount e).out = items.map Out.item ++ tail ∧
      items.length ≤ amount ∧
      (tail = [] ∨ (∃ f, tail = [f] ∧ f.isItem = false ∧ (harvest0 load c amount e).cont = none)) ∧
      ∃ fuel, items <+: flat load fuel c 0 := by
  fun_induction harvest0 load c amount e with
  | case1 c amount e hf =>
    exact ⟨[], [.failElems], rfl, by simp, Or.inr ⟨_, rfl, rfl, rfl⟩, 0, List.nil_prefix⟩
  | case2 c amount e hf xs e' he' =>
    exact ⟨[], [.refuse], rfl, by simp, Or.inr ⟨_, rfl, rfl, rfl⟩, 0, List.nil_prefix⟩
  | case3 c amount e hf xs e' he' hlen =>
    refine ⟨xs.take amount, [], by simp, List.length_take_le _ _, Or.inl rfl, 0, ?_⟩
    rw [flat_zero]; exact List.take_prefix _ _
  | case4 c amount e hf xs e' he' hlen here hn =>
    refine ⟨xs, [], by simp [here], by omega, Or.inl rfl, 0, ?_⟩
    rw [flat_zero]; exact List.prefix_refl _
  | case5 c amount e hf xs e' he' hlen here hn =>
    refine ⟨xs, [.failNext], rfl, by omega, Or.inr ⟨_, rfl, rfl, rfl⟩, 0, ?_⟩
    rw [flat_zero]; exact List.prefix_refl _
  | case6 c amount e hf xs e' he' hlen here r hn hl =>
    refine ⟨xs, [.failLoad], rfl, by omega, Or.inr ⟨_, rfl, rfl, rfl⟩, 0, ?_⟩
    rw [flat_zero]; exact List.prefix_refl _
  | case7 c amount e hf xs e' he' hlen here r hn p hl rest ih =>
    obtain ⟨items, tail, ho, hlen', ht, fuel, hp⟩ := ih
    refine ⟨xs ++ items, tail, ?_, ?_, ht, fuel + 1, ?_⟩
    · show here ++ rest.out = _
      rw [show rest.out = _ from ho]; simp [here]
    · simp; omega
    · rw [flat_succ_ref load fuel c 0 r p hf hn hl]
      simpa [xs] using hp

theorem harvest_prefix' (load : R → Option (Page R E)) (c : Page R E) (amount start : Nat) :
    ∃ (items : List E) (tail : List (Out E)),
      (harvest load c amount start).out = items.map Out.item ++ tail ∧
      items.length ≤ amount ∧
      (tail = [] ∨ (∃ f, tail = [f] ∧ f.isItem = false ∧ (harvest load c amount start).cont = none)) ∧
      ∃ fuel, items <+: flat load fuel c start := by
  apply harvest_cases load c amount start
    (fun res => ∃ (items : List E) (tail : List (Out E)),
      res.out = items.map Out.item ++ tail ∧ items.length ≤ amount ∧
      (tail = [] ∨ (∃ f, tail = [f] ∧ f.isItem = false ∧ res.cont = none)) ∧
      ∃ fuel, items <+: flat load fuel c start)
  · intro hf
    exact ⟨[], [.failElems], rfl, by simp, Or.inr ⟨_, rfl, rfl, rfl⟩, 0, List.nil_prefix⟩
  · intro hf hl
    refine ⟨(c.items.drop start).take amount, [], by simp, List.length_take_le _ _, Or.inl rfl, 0, ?_⟩
    rw [flat_zero]; exact List.take_prefix _ _
  · intro hf hl hn
    refine ⟨c.items.drop start, [], by simp, by simp; omega, Or.inl rfl, 0, ?_⟩
    rw [flat_zero]; exact List.prefix_refl _
  · intro hf hl hn
    refine ⟨c.items.drop start, [.failNext], rfl, by simp; omega, Or.inr ⟨_, rfl, rfl, rfl⟩, 0, ?_⟩
    rw [flat_zero]; exact List.prefix_refl _
  · intro hf hl r hn hld
    refine ⟨c.items.drop start, [.failLoad], rfl, by simp; omega, Or.inr ⟨_, rfl, rfl, rfl⟩, 0, ?_⟩
    rw [flat_zero]; exact List.prefix_refl _
  · intro hf hl r hn p hld
    obtain ⟨items, tail, ho, hlen', ht, fuel, hp⟩ :=
      harvest0_prefix load p (amount - (c.items.length - start)) (nextEmpties c.items.length 0)
    refine ⟨c.items.drop start ++ items, tail, ?_, ?_, ht, fuel + 1, ?_⟩
    · simp only [ho]; simp
    · simp; omega
    · rw [flat_succ_ref load fuel c start r p hf hn hld]
      simpa using hp

/-! ### (4) completeness -/

theorem harvest0_complete (load : R → Option (Page R E)) (c : Page R E) (amount e : Nat)
    (hn : (harvest0 load c amount e).cont = none)
    (hi : ∀ o ∈ (harvest0 load c amount e).out, o.isItem = true) :
    ∃ fuel, endsCleanly load fuel c = true ∧
      (harvest0 load c amount e).out = (flat load fuel c 0).map Out.item := by
  fun_induction harvest0 load c amount e with
  | case1 c amount e hf => simp [Out.isItem] at hi
  | case2 c amount e hf xs e' he' => simp [Out.isItem] at hi
  | case3 c amount e hf xs e' he' hlen => simp at hn
  | case4 c amount e hf xs e' he' hlen here hnx =>
    exact ⟨0, endsCleanly_zero_absent load c hf hnx, by simp [flat_zero, here, xs]⟩
  | case5 c amount e hf xs e' he' hlen here hnx =>
    have := hi .failNext (by simp); simp [Out.isItem] at this
  | case6 c amount e hf xs e' he' hlen here r hnx hl =>
    have := hi .failLoad (by simp); simp [Out.isItem] at this
  | case7 c amount e hf xs e' he' hlen here r hnx p hl rest ih =>
    obtain ⟨fuel, hec, ho⟩ := ih hn (fun o ho => hi o (List.mem_append_right _ ho))
    refine ⟨fuel + 1, ?_, ?_⟩
    · rw [endsCleanly_succ_ref load fuel c r p hf hnx hl]; exact hec
    · rw [flat_succ_ref load fuel c 0 r p hf hnx hl]
      show here ++ rest.out = _
      rw [show rest.out = _ from ho]; simp [here, xs]

theorem harvest_complete' (load : R → Option (Page R E)) (c : Page R E) (amount start : Nat)
    (hn : (harvest load c amount start).cont = none)
    (hi : ∀ o ∈ (harvest load c amount start).out, o.isItem = true) :
    ∃ fuel, endsCleanly load fuel c = true ∧
      (harvest load c amount start).out = (flat load fuel c start).map Out.item := by
  revert hn hi
  apply harvest_cases load c amount start
    (fun res => res.cont = none → (∀ o ∈ res.out, o.isItem = true) →
      ∃ fuel, endsCleanly load fuel c = true ∧ res.out = (flat load fuel c start).map Out.item)
  · intro hf hn hi; simp [Out.isItem] at hi
  · intro hf hl hn hi; simp at hn
  · intro hf hl hnx hn hi
    exact ⟨0, endsCleanly_zero_absent load c hf hnx, by simp [flat_zero]⟩
  · intro hf hl hnx hn hi
    have := hi .failNext (by simp); simp [Out.isItem] at this
  · intro hf hl r hnx hld hn hi
    have := hi .failLoad (by simp); simp [Out.isItem] at this
  · intro hf hl r hnx p hld hn hi
    obtain ⟨fuel, hec, ho⟩ := harvest0_complete load p _ _ hn
      (fun o ho => hi o (List.mem_append_right _ ho))
    refine ⟨fuel + 1, ?_, ?_⟩
    · rw [endsCleanly_succ_ref load fuel c r p hf hnx hld]; exact hec
    · rw [flat_succ_ref load fuel c start r p hf hnx hld]
      simp only [ho]; simp

/-! ### (5) refusal -/

theorem harvest0_refuse (load : R → Option (Page R E)) (c : Page R E) (amount e : Nat)
    (h : Out.refuse ∈ (harvest0 load c amount e).out) :
    (∃ fuel i, ∀ j, j ≤ threshold → ∃ q, (chain load fuel c)[i + j]? = some q ∧ q.items = []) ∨
    (∃ fuel, ∀ j, j + e ≤ threshold → ∃ q, (chain load fuel c)[j]? = some q ∧ q.items = []) := by
  fun_induction harvest0 load c amount e with
  | case2 c amount e hf xs e' he' =>
    right
    refine ⟨0, fun j hj => ?_⟩
    have he'' : e' = if xs.length = 0 then e + 1 else 0 := rfl
    rw [he''] at he'
    split at he'
    · rename_i h0
      have : j = 0 := by simp only [threshold] at *; omega
      subst this
      exact ⟨c, by simp [chain], List.eq_nil_of_length_eq_zero h0⟩
    · simp at he'
  | case7 c amount e hf xs e' he' hlen here r hn p hl rest ih =>
    have h' : Out.refuse ∈ rest.out := by
      rcases List.mem_append.mp h with h | h
      · simp [here] at h
      · exact h
    have hch := fun fuel => chain_succ_ref load fuel c r p hf hn hl
    rcases ih h' with ⟨fuel, i, H⟩ | ⟨fuel, H⟩
    · left
      refine ⟨fuel + 1, i + 1, fun j hj => ?_⟩
      rw [hch, show i + 1 + j = (i + j) + 1 by omega, List.getElem?_cons_succ]
      exact H j hj
    · by_cases h0 : xs.length = 0
      · right
        have he'' : e' = e + 1 := by simp [e', nextEmpties, h0]
        refine ⟨fuel + 1, fun j hj => ?_⟩
        rw [hch]
        cases j with
        | zero => exact ⟨c, by simp, List.eq_nil_of_length_eq_zero h0⟩
        | succ j =>
          rw [List.getElem?_cons_succ]
          exact H j (by omega)
      · left
        have he'' : e' = 0 := nextEmpties_pos _ _ h0
        refine ⟨fuel + 1, 1, fun j hj => ?_⟩
        rw [hch, show 1 + j = j + 1 by omega, List.getElem?_cons_succ]
        exact H j (by omega)
  | case1 c amount e hf => simp at h
  | case3 c amount e hf xs e' he' hlen => exact absurd h (refuse_not_mem_map _)
  | case4 c amount e hf xs e' he' hlen here hn => exact absurd h (refuse_not_mem_map _)
  | case5 c amount e hf xs e' he' hlen here hn =>
    rcases List.mem_append.mp h with h | h
    · exact absurd h (refuse_not_mem_map _)
    · simp at h
  | case6 c amount e hf xs e' he' hlen here r hn hl =>
    rcases List.mem_append.mp h with h | h
    · exact absurd h (refuse_not_mem_map _)
    · simp at h

theorem harvest_refuse (load : R → Option (Page R E)) (c : Page R E) (amount start : Nat)
    (h : Out.refuse ∈ (harvest load c amount start).out) :
    ∃ fuel i, ∀ j, j ≤ threshold → ∃ q, (chain load fuel c)[i + j]? = some q ∧ q.items = [] := by
  revert h
  apply harvest_cases load c amount start
    (fun res => Out.refuse ∈ res.out →
      ∃ fuel i, ∀ j, j ≤ threshold → ∃ q, (chain load fuel c)[i + j]? = some q ∧ q.items = [])
  case h6 =>
    intro hf hl r hn p hld h
    have h' : Out.refuse ∈ (harvest0 load p (amount - (c.items.length - start))
        (nextEmpties c.items.length 0)).out := by
      rcases List.mem_append.mp h with h | h
      · exact absurd h (refuse_not_mem_map _)
      · exact h
    have hch := fun fuel => chain_succ_ref load fuel c r p hf hn hld
    rcases harvest0_refuse load p _ _ h' with ⟨fuel, i, H⟩ | ⟨fuel, H⟩
    · refine ⟨fuel + 1, i + 1, fun j hj => ?_⟩
      rw [hch, show i + 1 + j = (i + j) + 1 by omega, List.getElem?_cons_succ]
      exact H j hj
    · by_cases h0 : c.items.length = 0
      · have he'' : nextEmpties c.items.length 0 = 1 := by simp [nextEmpties, h0]
        rw [he''] at H
        refine ⟨fuel + 1, 0, fun j hj => ?_⟩
        rw [hch, Nat.zero_add]
        cases j with
        | zero => exact ⟨c, by simp, List.eq_nil_of_length_eq_zero h0⟩
        | succ j =>
          rw [List.getElem?_cons_succ]
          exact H j (by omega)
      · have he'' : nextEmpties c.items.length 0 = 0 := nextEmpties_pos _ _ h0
        rw [he''] at H
        refine ⟨fuel + 1, 1, fun j hj => ?_⟩
        rw [hch, show 1 + j = j + 1 by omega, List.getElem?_cons_succ]
        exact H j (by omega)
  case h1 => intro _ h; simp at h
  case h2 => intro _ _ h; exact absurd h (refuse_not_mem_map _)
  case h3 => intro _ _ _ h; exact absurd h (refuse_not_mem_map _)
  case h4 =>
    intro _ _ _ h
    rcases List.mem_append.mp h with h | h
    · exact absurd h (refuse_not_mem_map _)
    · simp at h
  case h5 =>
    intro _ _ _ _ _ h
    rcases List.mem_append.mp h with h | h
    · exact absurd h (refuse_not_mem_map _)
    · simp at h

/-! ### failures -/

/-- A page that fails: its elements fail, or its `next` is malformed or fails to load. -/
def broken (load : R → Option (Page R E)) (q : Page R E) : Prop :=
  q.elemsFailed = true ∨ (match q.next with
    | .err => True
    | .ref r => load r = none
    | .absent => False)

theorem chain_zero_mem (load : R → Option (Page R E)) (c : Page R E) : c ∈ chain load 0 c := by
  simp [chain]

theorem harvest0_failure (load : R → Option (Page R E)) (c : Page R E) (amount e : Nat)
    (f : Out E) (hf : f ∈ (harvest0 load c amount e).out) (hni : f.isItem = false) (hr : f ≠ .refuse) :
    ∃ fuel, ∃ q ∈ chain load fuel c, broken load q := by
  fun_induction harvest0 load c amount e with
  | case1 c amount e hfl => exact ⟨0, c, chain_zero_mem load c, Or.inl hfl⟩
  | case2 c amount e hfl xs e' he' => simp at hf; exact absurd hf hr
  | case3 c amount e hfl xs e' he' hlen =>
    have := mem_map_item f _ hf; simp [hni] at this
  | case4 c amount e hfl xs e' he' hlen here hn =>
    have := mem_map_item f _ hf; simp [hni] at this
  | case5 c amount e hfl xs e' he' hlen here hn =>
    exact ⟨0, c, chain_zero_mem load c, Or.inr (by simp [hn])⟩
  | case6 c amount e hfl xs e' he' hlen here r hn hl =>
    exact ⟨0, c, chain_zero_mem load c, Or.inr (by simp [hn, hl])⟩
  | case7 c amount e hfl xs e' he' hlen here r hn p hl rest ih =>
    rcases List.mem_append.mp hf with h | h
    · have := mem_map_item f _ h; simp [hni] at this
    · obtain ⟨fuel, q, hq, hb⟩ := ih h
      exact ⟨fuel + 1, q, by rw [chain_succ_ref load fuel c r p hfl hn hl]; exact List.mem_cons_of_mem _ hq, hb⟩

theorem harvest_failure (load : R → Option (Page R E)) (c : Page R E) (amount start : Nat)
    (f : Out E) (hf : f ∈ (harvest load c amount start).out) (hni : f.isItem = false) (hr : f ≠ .refuse) :
    ∃ fuel, ∃ q ∈ chain load fuel c, broken load q := by
  revert hf
  apply harvest_cases load c amount start
    (fun res => f ∈ res.out → ∃ fuel, ∃ q ∈ chain load fuel c, broken load q)
  · intro hfl _; exact ⟨0, c, chain_zero_mem load c, Or.inl hfl⟩
  · intro hfl hl hf
    have := mem_map_item f _ hf; simp [hni] at this
  · intro hfl hl hn hf
    have := mem_map_item f _ hf; simp [hni] at this
  · intro hfl hl hn _
    exact ⟨0, c, chain_zero_mem load c, Or.inr (by simp [hn])⟩
  · intro hfl hl r hn hld _
    exact ⟨0, c, chain_zero_mem load c, Or.inr (by simp [hn, hld])⟩
  · intro hfl hl r hn p hld hf
    rcases List.mem_append.mp hf with h | h
    · have := mem_map_item f _ h; simp [hni] at this
    · obtain ⟨fuel, q, hq, hb⟩ := harvest0_failure load p _ _ f h hni hr
      exact ⟨fuel + 1, q, by rw [chain_succ_ref load fuel c r p hfl hn hld]; exact List.mem_cons_of_mem _ hq, hb⟩

/-! ### (3) composition -/

theorem harvest0_compose (load : R → Option (Page R E)) (c : Page R E) (n₁ n₂ e : Nat)
    (p : Page R E) (off : Nat) (h : (harvest0 load c n₁ e).cont = some (p, off)) :
    (harvest0 load c (n₁ + n₂) e).out = (harvest0 load c n₁ e).out ++ (harvest load p n₂ off).out ∧
    (harvest0 load c (n₁ + n₂) e).cont = (harvest load p n₂ off).cont := by
  fun_induction harvest0 load c n₁ e with
  | case3 c n₁ e hf xs e' he' hlen =>
    simp only [Option.some.injEq, Prod.mk.injEq] at h
    obtain ⟨rfl, rfl⟩ := h
    have hx : xs = c.items := rfl
    have hpos : c.items.length ≠ 0 := by rw [← hx]; omega
    by_cases hl2 : c.items.length > n₁ + n₂
    · rw [harvest0_gt load c (n₁ + n₂) e hf he' hl2,
        harvest_gt load c n₂ n₁ hf (by omega)]
      refine ⟨?_, ?_⟩
      · simp only [hx, ← List.map_append, ← List.take_add]
      · simp only [Nat.add_comm]
    · rw [harvest0_le load c (n₁ + n₂) e hf he' hl2,
        harvest_le load c n₂ n₁ hf (by omega)]
      have ha : n₁ + n₂ - c.items.length = n₂ - (c.items.length - n₁) := by rw [hx] at hlen; omega
      have hs : List.map Out.item c.items =
          List.map Out.item (List.take n₁ c.items) ++ List.map Out.item (List.drop n₁ c.items) := by
        rw [← List.map_append, List.take_append_drop]
      rw [nextEmpties_pos _ e hpos, nextEmpties_pos _ 0 hpos, ha]
      cases c.next with
      | absent => exact ⟨hs, rfl⟩
      | err => exact ⟨by simp only [hx]; rw [hs, List.append_assoc], rfl⟩
      | ref r =>
        dsimp only
        cases load r with
        | none => exact ⟨by simp only [hx]; rw [hs, List.append_assoc], rfl⟩
        | some p' => exact ⟨by simp only [hx]; rw [hs, List.append_assoc], rfl⟩
  | case7 c n₁ e hf xs e' he' hlen here r hn p' hl rest ih =>
    obtain ⟨ho, hc⟩ := ih h
    have hx : xs = c.items := rfl
    have hl2 : ¬ c.items.length > n₁ + n₂ := by rw [hx] at hlen; omega
    have ha : n₁ + n₂ - c.items.length = n₁ - xs.length + n₂ := by rw [hx] at hlen ⊢; omega
    rw [harvest0_le load c (n₁ + n₂) e hf he' hl2]
    simp only [hn, hl]
    rw [ha]
    refine ⟨?_, hc⟩
    show _ = (here ++ rest.out) ++ _
    rw [List.append_assoc]
    exact congrArg _ ho
  | _ => simp at h

theorem harvest_compose' (load : R → Option (Page R E)) (c : Page R E) (n₁ n₂ start : Nat)
    (p : Page R E) (off : Nat) (h : (harvest load c n₁ start).cont = some (p, off)) :
    (harvest load c (n₁ + n₂) start).out =
      (harvest load c n₁ start).out ++ (harvest load p n₂ off).out ∧
    (harvest load c (n₁ + n₂) start).cont = (harvest load p n₂ off).cont := by
  revert h
  apply harvest_cases load c n₁ start
    (fun res => res.cont = some (p, off) →
      (harvest load c (n₁ + n₂) start).out = res.out ++ (harvest load p n₂ off).out ∧
      (harvest load c (n₁ + n₂) start).cont = (harvest load p n₂ off).cont)
  case h2 =>
    intro hf hlen h
    simp only [Option.some.injEq, Prod.mk.injEq] at h
    obtain ⟨rfl, rfl⟩ := h
    have hpos : c.items.length ≠ 0 := by omega
    by_cases hl2 : c.items.length > n₁ + n₂ + start
    · rw [harvest_gt load c (n₁ + n₂) start hf hl2,
        harvest_gt load c n₂ (n₁ + start) hf (by omega)]
      refine ⟨?_, ?_⟩
      · simp only [← List.map_append, List.take_add, List.drop_drop, Nat.add_comm]
      · simp only [Nat.add_comm, Nat.add_left_comm]
    · rw [harvest_le load c (n₁ + n₂) start hf (by omega),
        harvest_le load c n₂ (n₁ + start) hf (by omega)]
      have ha : n₁ + n₂ - (c.items.length - start) = n₂ - (c.items.length - (n₁ + start)) := by omega
      have hs : List.map Out.item (List.drop start c.items) =
          List.map Out.item (List.take n₁ (List.drop start c.items)) ++
            List.map Out.item (List.drop (n₁ + start) c.items) := by
        rw [← List.map_append, Nat.add_comm n₁ start, ← List.drop_drop, List.take_append_drop]
      rw [ha]
      cases c.next with
      | absent => exact ⟨hs, rfl⟩
      | err => exact ⟨by simp only []; rw [hs, List.append_assoc], rfl⟩
      | ref r =>
        dsimp only
        cases load r with
        | none => exact ⟨by simp only []; rw [hs, List.append_assoc], rfl⟩
        | some p' => exact ⟨by simp only []; rw [hs, List.append_assoc], rfl⟩
  case h6 =>
    intro hf hlen r hn p' hld h
    have ha : n₁ + n₂ - (c.items.length - start) = n₁ - (c.items.length - start) + n₂ := by omega
    obtain ⟨ho, hc⟩ := harvest0_compose load p' (n₁ - (c.items.length - start)) n₂ _ p off h
    rw [harvest_le load c (n₁ + n₂) start hf (by omega)]
    simp only [hn, hld]
    rw [ha]
    refine ⟨?_, hc⟩
    rw [List.append_assoc]
    exact congrArg _ ho
  all_goals (intros; simp_all)

end Coll
