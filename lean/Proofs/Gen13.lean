import Model.Ansi
import Model.GoText
import Generated.GoAnsih
import Proofs.Gen16
import Proofs.Layout
import Proofs.Snip
open Str Ansi

namespace Gen13P

def toM (c : RawCell) : Go.Match := ⟨c.full, c.pre, [c.letter]⟩

theorem forIn_sim {α β σ τ : Type} (φ : τ → σ) (conv : α → β)
    (f : β → σ → Except Panic (ForInStep σ)) (g : τ → α → τ) (l : List α)
    (h : ∀ a ∈ l, ∀ t, f (conv a) (φ t) = .ok (.yield (φ (g t a)))) :
    ∀ t, forIn (l.map conv) (φ t) f = .ok (φ (l.foldl g t)) := by
  induction l with
  | nil => intro t; rfl
  | cons a l ih =>
    intro t
    rw [List.map_cons, List.forIn_cons, h a (List.mem_cons_self ..) t]
    exact ih (fun b hb => h b (List.mem_cons_of_mem _ hb)) _

theorem forIn_sim' {α β σ τ : Type} (φ : τ → σ) (conv : α → β)
    (f : β → σ → Except Panic (ForInStep σ)) (g : τ → α → τ) (l : List α)
    (h : ∀ a ∈ l, ∀ t, f (conv a) (φ t) = .ok (.yield (φ (g t a)))) (t : τ) (s0 : σ)
    (hs : s0 = φ t) : forIn (l.map conv) s0 f = .ok (φ (l.foldl g t)) := by
  rw [hs]; exact forIn_sim φ conv f g l h t

theorem str_nl : Go.str "\n" = ['\n'] := rfl
theorem str_empty : Go.str "" = [] := rfl
theorem str_m : Go.str "m" = ['m'] := rfl
theorem str_csi : Go.str "\x1b[" = [ESC, '['] := by decide
theorem str_reset : Go.str "\x1b[0m" = reset := by decide
theorem suffix_eq : GenAnsiH.suffix_ = [' '] := rfl

theorem singleton_eq_nl (c : Char) : ([c] = ['\n']) ↔ c = '\n' := by simp

theorem foldl_append_flatten {α : Type} (p : α → Str) (l : List α) (r : Str) :
    l.foldl (fun r a => r ++ p a) r = r ++ (l.map p).flatten := by
  induction l generalizing r with
  | nil => simp
  | cons a l ih => simp [ih]


theorem collapse_eq (cells : List RawCell) :
    GenAnsiH.collapse (cells.map toM) = .ok (collapse cells) := by
  simp only [GenAnsiH.collapse]
  rw [forIn_sim (fun (s : Str) => s) toM _ (fun r c => r ++ c.full) cells (fun _ _ _ => rfl) []]
  simp only [foldl_append_flatten]
  rfl

def applyC (cells : List RawCell) (style : Str) : Str :=
  (cells.map fun m =>
    if m.letter = '\n' then ['\n']
    else ESC :: '[' :: (style ++ 'm' :: (m.pre ++ m.letter :: reset))).flatten

theorem apply_eq (ex : Str → List Go.Match) (text style : Str) (cells : List RawCell)
    (hex : ex text = cells.map toM) :
    GenAnsiH.Apply ex text style = .ok (applyC cells style) := by
  simp only [GenAnsiH.Apply, hex]
  rw [forIn_sim (fun (s : Str) => s) toM _ (fun r m => r ++ (if m.letter = '\n' then ['\n']
    else ESC :: '[' :: (style ++ 'm' :: (m.pre ++ m.letter :: reset)))) cells ?h []]
  case h =>
    intro c _ r
    by_cases hc : c.letter = '\n' <;> simp [toM, hc, str_nl, str_m, str_csi, str_reset, pure, Except.pure]
  simp only [foldl_append_flatten]
  rfl

/-! ### Indent -/

def indentC (cells : List RawCell) (pfx : Str) (includeFirst : Bool) : Str :=
  (if includeFirst then pfx else []) ++
  (cells.map fun m => if m.letter = '\n' then '\n' :: pfx else m.full).flatten

theorem forIn_pieces (p : RawCell → Str) (f : Go.Match → Str → Except Panic (ForInStep Str))
    (cells : List RawCell) (h : ∀ c ∈ cells, ∀ r, f (toM c) r = .ok (.yield (r ++ p c))) (r0 : Str) :
    forIn (cells.map toM) r0 f = .ok (r0 ++ (cells.map p).flatten) := by
  rw [forIn_sim (fun (s : Str) => s) toM f (fun r c => r ++ p c) cells h r0, foldl_append_flatten]

theorem indent_eq (ex : Str → List Go.Match) (text pfx : Str) (first : Bool) (cells : List RawCell)
    (hex : ex text = cells.map toM) :
    GenAnsiH.Indent ex text pfx first = .ok (indentC cells pfx first) := by
  have hstep : ∀ c ∈ cells, ∀ r : Str,
      (if decide ((toM c).m2 = Go.str "\n") = true then
        (pure (ForInStep.yield (r ++ (Go.str "\n" ++ pfx))) : Except Panic _)
      else pure (ForInStep.yield (r ++ (toM c).m0))) =
      .ok (.yield (r ++ (if c.letter = '\n' then '\n' :: pfx else c.full))) := by
    intro c _ r
    by_cases hc : c.letter = '\n' <;> simp [toM, hc, str_nl, pure, Except.pure]
  cases first <;>
    simp only [GenAnsiH.Indent, hex, if_true, if_false, Bool.false_eq_true] <;>
    rw [forIn_pieces _ _ cells hstep] <;>
    simp [indentC, bind, Except.bind, pure, Except.pure]

/-! ### Pad -/

def padStep (n : Int) (st : Str × Int) (c : RawCell) : Str × Int :=
  if c.letter = '\n' then (st.1 ++ (rep ' ' (n - st.2).toNat ++ ['\n']), 0)
  else (st.1 ++ c.full, st.2 + 1)

theorem repeat_sp (n : Int) (h : ¬ n ≤ 0) :
    Go.Strings.repeat [' '] n = .ok (rep ' ' n.toNat) := Gen16.repeat_nonneg ' ' n (by omega)

theorem pad_loop (ex : Str → List Go.Match) (text : Str) (n : Int) (cells : List RawCell)
    (hex : ex text = cells.map toM) :
    GenAnsiH.Pad ex text n = .ok (
      let st := cells.foldl (padStep n) ([], 0)
      st.1 ++ rep ' ' (n - st.2).toNat) := by
  simp only [GenAnsiH.Pad, hex]
  rw [forIn_sim (fun (s : Str × Int) => s) toM _ (padStep n) cells ?h ([], 0)]
  case h =>
    intro c _ st
    by_cases hc : c.letter = '\n'
    · by_cases ha : n - st.2 ≤ 0
      · have : (n - st.2).toNat = 0 := by omega
        simp [toM, hc, str_nl, pure, Except.pure, padStep, ha, this, rep]
      · simp [toM, hc, str_nl, pure, Except.pure, padStep, ha, suffix_eq, repeat_sp _ ha, bind,
          Except.bind]
    · simp [toM, hc, str_nl, pure, Except.pure, padStep]
  generalize cells.foldl (padStep n) ([], 0) = st
  by_cases ha : st.2 < n
  · have ha' : ¬ n - st.2 ≤ 0 := by omega
    simp [ha, suffix_eq, repeat_sp _ ha', bind, Except.bind, pure, Except.pure]
  · have : (n - st.2).toNat = 0 := by omega
    simp [ha, this, rep, bind, Except.bind, pure, Except.pure]

/-- The lines of `cells`, padded, when `k` characters of the first line have been seen already. -/
def padFrom (n k : Int) (cells : List RawCell) : Str :=
  match cellLines cells with
  | [] => []
  | l :: ls => joinNL ((collapse l ++ rep ' ' (n - (k + l.length)).toNat) :: ls.map (padLine · n))

theorem padFrom_zero (n : Int) (cells : List RawCell) :
    padFrom n 0 cells = joinNL ((cellLines cells).map (padLine · n)) := by
  unfold padFrom
  cases h : cellLines cells with
  | nil => rfl
  | cons l ls => simp [padLine]

theorem pad_fold (n : Int) (cells : List RawCell) : ∀ (r : Str) (k : Int),
    (let st := cells.foldl (padStep n) (r, k); st.1 ++ rep ' ' (n - st.2).toNat) =
      r ++ padFrom n k cells := by
  induction cells with
  | nil => intro r k; simp [padFrom, cellLines, joinNL, Ansi.collapse_nil]
  | cons c cs ih =>
    intro r k
    obtain ⟨l, ls, h1, h2⟩ := LayoutP.cellLines_cons c cs
    rw [List.foldl_cons]
    by_cases hc : c.letter = '\n'
    · have hs : padStep n (r, k) c = (r ++ (rep ' ' (n - k).toNat ++ ['\n']), 0) := by
        simp [padStep, hc]
      rw [hs, ih, padFrom_zero]
      simp [padFrom, h2, h1, hc, joinNL, Ansi.collapse_nil]
    · have hs : padStep n (r, k) c = (r ++ c.full, k + 1) := by simp [padStep, hc]
      rw [hs, ih]
      simp only [padFrom, h2, h1, hc, if_false]
      have : k + 1 + (l.length : Int) = k + ((c :: l).length : Int) := by
        simp only [List.length_cons]; omega
      rw [this]
      cases ls with
      | nil => simp [joinNL, Ansi.collapse_cons]
      | cons l' ls' => simp [joinNL, Ansi.collapse_cons]

def padC (cells : List RawCell) (n : Int) : Str := joinNL ((cellLines cells).map (padLine · n))

theorem pad_eq (ex : Str → List Go.Match) (text : Str) (n : Int) (cells : List RawCell)
    (hex : ex text = cells.map toM) : GenAnsiH.Pad ex text n = .ok (padC cells n) := by
  rw [pad_loop ex text n cells hex, pad_fold, padFrom_zero]
  rfl

/-! ### DumbWrap -/

def dumbWrapC (cells : List RawCell) (w : Int) : Str := (cells.foldl (dumbWrapStep w) ([], 0)).1

theorem dumbWrap_eq (ex : Str → List Go.Match) (text : Str) (w : Int) (cells : List RawCell)
    (hex : ex text = cells.map toM) : GenAnsiH.DumbWrap ex text w = .ok (dumbWrapC cells w) := by
  simp only [GenAnsiH.DumbWrap, hex]
  rw [forIn_sim' (fun (s : Str × Nat) => (s.1, (s.2 : Int))) toM _ (dumbWrapStep w) cells ?h ([], 0)
    _ ?hs]
  case hs => rfl
  case h =>
    intro c _ st
    by_cases hc : c.letter = '\n'
    · simp [toM, hc, str_nl, pure, Except.pure, dumbWrapStep]
    · by_cases hw : (st.2 : Int) = w <;>
        simp [toM, hc, hw, str_nl, pure, Except.pure, dumbWrapStep]
  rfl

/-! ### Wrap -/

theorem isSpace_nl : Uni.isSpace '\n' = true := by decide

theorem index_singleton (c : Char) : Go.index [c] 0 = .ok c := rfl

/-- The state of the translated loop that corresponds to a state of the model's loop. -/
def wrapPhi (t : WrapSt) : List Str × Str × Str × Str × Int × Int × Int :=
  (t.result.map collapse, collapse t.line, collapse t.space, collapse t.word,
    (t.line.length : Int), (t.space.length : Int), (t.word.length : Int))


theorem index_last (init : List RawCell) (c : RawCell) :
    Go.index ((init ++ [c]).map toM) (Go.len ((init ++ [c]).map toM) - 1) = .ok (toM c) := by
  unfold Go.index Go.len
  simp only [List.length_map, List.length_append, List.length_singleton]
  have h : ¬ (((init.length + 1 : Nat) : Int) - 1 < 0) := by omega
  rw [if_neg h]
  have : (((init.length + 1 : Nat) : Int) - 1).toNat = init.length := by omega
  rw [this]
  simp

def wrapC (cells : List RawCell) (n : Int) : Str := joinNL ((wrapLines cells n).map collapse)

theorem wrap_loop (ex : Str → List Go.Match) (text : Str) (n : Int) (cells : List RawCell)
    (hex : ex text = cells.map toM) : GenAnsiH.Wrap ex text n = .ok (wrapC cells n) := by
  simp only [GenAnsiH.Wrap, hex]
  rw [forIn_sim' wrapPhi toM _ (wrapStep n) cells ?h {} _ ?hs]
  case hs => rfl
  case h =>
    intro c _ t
    simp only [toM, index_singleton, bind, Except.bind, str_empty, str_nl, wrapPhi]
    unfold wrapStep
    by_cases h1 : Uni.isSpace c.letter = true
    · by_cases h5 : t.word.length > 0 <;> by_cases h6 : c.letter = '\n' <;>
        by_cases h7 : (t.line.length + t.space.length : Int) ≤ n <;>
        simp [h1, h5, h6, h7, isSpace_nl, pure, Except.pure, collapse_nil, collapse_append,
          collapse_cons]
    · by_cases h2 : (t.word.length : Int) = n
      · by_cases h3 : (0 : Int) ≥ n <;>
          simp [h1, h2, h3, pure, Except.pure, collapse_nil, collapse_cons]
      · by_cases h4 : (t.line.length + t.space.length + t.word.length : Int) ≥ n <;>
          simp [h1, h2, h4, pure, Except.pure, collapse_nil, collapse_cons, collapse_append]
  simp only [bind, Except.bind, wrapPhi, wrapC, wrapLines, str_nl, str_empty, Gen16.join_nl]
  generalize cells.foldl (wrapStep n) {} = s
  clear hex
  have h4 : s.word.length > 0 → (0:Int) < ↑s.line.length + (↑s.space.length + ↑s.word.length) := by
    omega
  have h5 : s.word.length > 0 → 0 < s.line.length + (s.space.length + s.word.length) := by omega
  rcases List.eq_nil_or_concat cells with rfl | ⟨init, c, rfl⟩
  · by_cases h1 : s.word.length > 0 <;> by_cases h2 : s.line.length > 0 <;>
      simp [h1, h2, h4, h5, Go.len, pure, Except.pure, collapse_append]
  · rw [List.concat_eq_append, index_last]
    by_cases h1 : s.word.length > 0 <;> by_cases h2 : s.line.length > 0 <;>
      by_cases h3 : c.letter = '\n' <;>
      simp [h1, h2, h3, h4, h5, Go.len, toM, pure, Except.pure, collapse_append]

/-! ### lineIsOnlyWhitespace -/

theorem liow_loop (f : Go.Match → (Option Bool × Unit) → Except Panic (ForInStep (Option Bool × Unit)))
    (hf : ∀ c s, f (toM c) s =
      .ok (if Uni.isSpace c.letter then .yield (none, ()) else .done (some false, ()))) :
    ∀ cells : List RawCell, forIn (cells.map toM) (none, ()) f =
      .ok (if lineIsOnlyWhitespace cells then (none, ()) else (some false, ())) := by
  intro cells
  induction cells with
  | nil => rfl
  | cons c cs ih =>
    rw [List.map_cons, List.forIn_cons, hf]
    by_cases hc : Uni.isSpace c.letter = true
    · simp only [hc, if_true, bind, Except.bind]
      rw [ih]
      simp [lineIsOnlyWhitespace, hc]
    · simp [lineIsOnlyWhitespace, hc, bind, Except.bind, pure, Except.pure]

theorem lineIsOnlyWhitespace_eq (cells : List RawCell) :
    GenAnsiH.lineIsOnlyWhitespace (cells.map toM) = .ok (lineIsOnlyWhitespace cells) := by
  simp only [GenAnsiH.lineIsOnlyWhitespace]
  rw [liow_loop _ ?hf cells]
  case hf =>
    intro c s
    by_cases hc : Uni.isSpace c.letter = true <;>
      simp [toM, index_singleton, hc, bind, Except.bind, pure, Except.pure]
  by_cases h : lineIsOnlyWhitespace cells = true <;> simp [h, bind, Except.bind, pure, Except.pure]

/-! ### Snip -/

/-- The regular expression as the translated code sees it: the model's scanner, each match as the
    three strings `match[0]`, `match[1]`, `match[2]`. -/
def goExpand (s : Str) : List Go.Match := (expand s).map toM

/-- One iteration of the loop of `Snip`. -/
def snipStep (w : Int) (st : List Str × Bool) (l : Str) : List Str × Bool :=
  if st.1.length = 0 then
    if lineIsOnlyWhitespace (expand l) then (st.1, true)
    else ([collapse (if ((expand l).length : Int) = w && st.2 then (expand l).dropLast else expand l)]
      ++ st.1, st.2)
  else ([collapse (expand l)] ++ st.1, st.2)

theorem snip_fold_kept (w : Int) (L : List Str) : ∀ (kept : List Str) (req : Bool), kept ≠ [] →
    L.foldl (snipStep w) (kept, req) = (L.reverse.map (fun l => collapse (expand l)) ++ kept, req) := by
  induction L with
  | nil => intro kept req _; simp
  | cons l rest ih =>
    intro kept req hk
    have hlen : ¬ kept.length = 0 := by
      intro h; exact hk (List.eq_nil_of_length_eq_zero h)
    rw [List.foldl_cons]
    have : snipStep w (kept, req) l = ([collapse (expand l)] ++ kept, req) := by
      simp [snipStep, hlen]
    rw [this, ih _ _ (by simp)]
    simp

theorem snip_fold (w : Int) (L : List Str) : ∀ req : Bool,
    L.foldl (snipStep w) ([], req) = snipLoop w L req := by
  induction L with
  | nil => intro req; rfl
  | cons l rest ih =>
    intro req
    rw [List.foldl_cons]
    by_cases hws : lineIsOnlyWhitespace (expand l) = true
    · rw [SnipP.snipLoop_ws w l rest req hws]
      have : snipStep w ([], req) l = ([], true) := by simp [snipStep, hws]
      rw [this, ih]
    · rw [SnipP.snipLoop_keep w l rest req hws]
      have : snipStep w ([], req) l = ([collapse (if ((expand l).length : Int) = w && req
          then (expand l).dropLast else expand l)], req) := by simp [snipStep, hws]
      rw [this, snip_fold_kept w rest _ _ (by simp)]

theorem countDown_succ (H : Nat) :
    Go.countDown (((H + 1 : Nat) : Int) - 1) 0 = (H : Int) :: Go.countDown ((H : Int) - 1) 0 := by
  unfold Go.countDown
  have h1 : (((H + 1 : Nat) : Int) - 1 - 0 + 1).toNat = (((H : Int) - 1 - 0 + 1).toNat) + 1 := by omega
  rw [h1, List.range_succ_eq_map]
  simp only [List.map_cons, List.map_map]
  congr 1
  · simp
  · apply List.map_congr_left
    intro k _
    simp only [Function.comp]
    omega

theorem countDown_zero : Go.countDown (((0 : Nat) : Int) - 1) 0 = [] := by
  unfold Go.countDown; rfl

theorem snip_loop (w : Int) (lines : List Str)
    (f : Int → (List Str × Bool) → Except Panic (ForInStep (List Str × Bool)))
    (hf : ∀ (k : Nat) (l : Str), lines[k]? = some l → ∀ st, f k st = .ok (.yield (snipStep w st l))) :
    ∀ (H : Nat), H ≤ lines.length → ∀ st,
      forIn (Go.countDown ((H : Int) - 1) 0) st f = .ok ((lines.take H).reverse.foldl (snipStep w) st) := by
  intro H
  induction H with
  | zero => intro _ st; rw [countDown_zero]; rfl
  | succ H ih =>
    intro hH st
    have hlt : H < lines.length := by omega
    rw [countDown_succ, List.forIn_cons, hf H lines[H] (by simp [hlt])]
    simp only [bind, Except.bind]
    rw [ih (by omega)]
    rw [List.take_succ_eq_append_getElem hlt, List.reverse_append]
    simp

theorem sliceTo_dropLast (cells : List RawCell) (h : cells ≠ []) :
    Go.sliceTo (cells.map toM) (Go.len (cells.map toM) - 1) = .ok (cells.dropLast.map toM) := by
  have hl : 0 < cells.length := List.length_pos_iff.mpr h
  unfold Go.sliceTo Go.len
  simp only [List.length_map]
  have h1 : ¬ ((cells.length : Int) - 1 < 0 ∨ (cells.length : Int) - 1 > (cells.length : Int)) := by omega
  have h2 : ((cells.length : Int) - 1).toNat = cells.length - 1 := by omega
  rw [if_neg h1, h2, List.dropLast_eq_take, List.map_take]

theorem liow_ne_nil {cells : List RawCell} (h : ¬ lineIsOnlyWhitespace cells = true) : cells ≠ [] := by
  intro hn; subst hn; exact h rfl

theorem index_nat {α : Type} (xs : List α) (k : Nat) (x : α) (h : xs[k]? = some x) :
    Go.index xs (k : Int) = .ok x := by
  unfold Go.index
  have : ¬ ((k : Int) < 0) := by omega
  rw [if_neg this, Int.toNat_natCast, h]

/- The body of the loop of the translated `Snip` is `snipStep` (a macro because the body occurs
   once per branch of the `if` before the loop). -/
set_option hygiene false in
macro "snip_step" : tactic => `(tactic| (
  intro k l hl st
  rw [index_nat _ k l hl]
  simp only [bind, Except.bind, goExpand, lineIsOnlyWhitespace_eq, collapse_eq, Go.len,
    List.length_map]
  unfold snipStep
  by_cases h0 : st.1.length = 0
  · by_cases hws : lineIsOnlyWhitespace (expand l) = true
    · simp [h0, hws, pure, Except.pure]
    · by_cases hw : ((expand l).length : Int) = w <;> cases hr : st.2 <;>
        simp [h0, hws, hw, hr, pure, Except.pure, collapse_eq]
      have := sliceTo_dropLast (expand l) (liow_ne_nil hws)
      simp only [Go.len, List.length_map] at this
      rw [hw] at this
      simp [this, ← List.map_dropLast, collapse_eq]
  · simp [h0, pure, Except.pure]))

theorem snip_eq (text : Str) (w h : Int) (e : Str) :
    GenAnsiH.Snip goExpand text w h e = Ansi.snip text w h e := by
  simp only [GenAnsiH.Snip, Ansi.snip, Gen16.ofNat10, Gen16.splitChar_nl, Go.makeCap, Gen16.str_nl,
    Gen16.join_nl, Go.len]
  by_cases hh : h < 0
  · simp [hh, bind, Except.bind]
  · have h0 : ¬ ((0 : Int) < 0) := by omega
    have hz : List.replicate (Int.toNat 0) (Go.zero : Str) = [] := rfl
    simp only [hh, h0, if_false, bind, Except.bind, hz]
    obtain ⟨k, rfl⟩ := Int.eq_ofNat_of_zero_le (by omega : 0 ≤ h)
    simp only [Int.toNat_natCast]
    by_cases hL : ((splitNL text).length : Int) ≤ (k : Int)
    · simp only [hL, decide_true, if_true]
      rw [snip_loop w (splitNL text) _ ?hf (splitNL text).length (Nat.le_refl _)]
      case hf => snip_step
      have hgt : ¬ ((splitNL text).length : Int) > (k : Int) := by omega
      rw [snip_fold]
      simp only [hgt, decide_false]
      cases hr : (snipLoop w (List.take (splitNL text).length (splitNL text)).reverse false).2 <;>
        simp [hr, pure, Except.pure]
    · have hgt : ((splitNL text).length : Int) > (k : Int) := by omega
      simp only [hL, hgt, decide_true, decide_false, if_false, Bool.false_eq_true]
      rw [snip_loop w (splitNL text) _ ?hf k (by omega)]
      case hf => snip_step
      rw [snip_fold]
      cases hr : (snipLoop w (List.take k (splitNL text)).reverse true).2 <;>
        simp [hr, pure, Except.pure]

end Gen13P
