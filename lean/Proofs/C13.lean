import Model
import Proofs.Expand
import Proofs.WrapStep
import Proofs.WrapWidth
import Proofs.WrapContent
import Proofs.WrapBreaks
import Proofs.WrapWords
import Proofs.Layout
import Proofs.Snip

/-
  Helper lemmas for the C13 properties (wrapping, padding, indenting, snipping).

  * `Proofs.Expand`      — the matches of `expand` tile the string.
  * `Proofs.WrapStep`    — the loop body of `ansi.Wrap` by cases, and its invariant.
  * `Proofs.WrapWidth`   — width and newline-freeness of the wrapped lines.
  * `Proofs.WrapContent` — visible characters are kept.
  * `Proofs.WrapBreaks`  — line breaks between visible characters are kept.
  * `Proofs.WrapWords`   — short words are not broken.
  * `Proofs.Layout`      — `DumbWrap`, `Pad`, `Indent`.
  * `Proofs.Snip`        — `Snip`.
-/
