import Model.Json
import Generated.GoObject

/-
  Helper lemmas for Props/Gen17.lean: the instantiations of `getPrimitive` in the generated code,
  expressed through the model's `Obj.getAny`.
-/

namespace Gen17

theorem getPrimitive_any_eq (o : List (Str × JVal)) (k : Str) :
    GenObject.getPrimitive_any o k = Obj.getAny o k := by
  unfold GenObject.getPrimitive_any Obj.getAny Go.mapLookup
  cases h : Obj.lookup o k with
  | none => rfl
  | some v => cases v <;> rfl

theorem getPrimitive_string_eq (o : List (Str × JVal)) (k : Str) :
    GenObject.getPrimitive_string o k =
      (match Obj.getAny o k with
       | .error e => .error e
       | .ok (.str s) => .ok s
       | .ok _ => .error .wrong) := by
  unfold GenObject.getPrimitive_string Obj.getAny Go.mapLookup
  cases h : Obj.lookup o k with
  | none => rfl
  | some v => cases v <;> rfl

theorem getPrimitive_map_eq (o : List (Str × JVal)) (k : Str) :
    GenObject.getPrimitive_map o k =
      (match Obj.getAny o k with
       | .error e => .error e
       | .ok (.obj kvs) => .ok kvs
       | .ok _ => .error .wrong) := by
  unfold GenObject.getPrimitive_map Obj.getAny Go.mapLookup
  cases h : Obj.lookup o k with
  | none => rfl
  | some v => cases v <;> rfl

theorem str_empty : Go.str "" = [] := rfl

theorem decide_eq_nil_eq_isEmpty (v : Str) : decide (v = Go.str "") = v.isEmpty := by
  cases v <;> simp [str_empty]

end Gen17
