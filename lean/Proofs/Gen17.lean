import Model.Json
import Generated.GoObject

/-
  Helper lemmas for Props/Gen17.lean: the instantiations of `getPrimitive` in the generated code,
  expressed through the model's `Obj.getAny`.
-/

namespace Gen17

theorem getPrimitive_any_eq (o : List (Str × JVal)) (k : Str) :
    GenObject.getPrimitive_any o k = Obj.getAny o k := by
  unfold GenObject.getPrimitive_any Obj.getAny Go.mapLookup
  cases h : Obj.lookup o k with
  | none => rfl
  | some v => cases v <;> rfl

theorem getPrimitive_string_eq (o : List (Str × JVal)) (k : Str) :
    GenObject.getPrimitive_string o k =
      (match Obj.getAny o k with
       | .error e => .error e
       | .ok (.str s) => .ok s
       | .ok _ => .error .wrong) := by
  unfold GenObject.getPrimitive_string Obj.getAny Go.mapLookup
  cases h : Obj.lookup o k with
  | none => rfl
  | some v => cases v <;> rfl

theorem getPrimitive_map_eq (o : List (Str × JVal)) (k : Str) :
    GenObject.getPrimitive_map o k =
      (match Obj.getAny o k with
       | .error e => .error e
       | .ok (.obj kvs) => .ok kvs
       | .ok _ => .error .wrong) := by
  unfold GenObject.getPrimitive_map Obj.getAny Go.mapLookup
  cases h : Obj.lookup o k with
  | none => rfl
  | some v => cases v <;> rfl

theorem str_empty : Go.str "" = [] := rfl

theorem decide_eq_nil_eq_isEmpty (v : Str) : decide (v = Go.str "") = v.isEmpty := by
  cases v <;> simp [str_empty]

theorem getPrimitive_float64_eq (o : List (Str × JVal)) (k : Str) :
    GenObject.getPrimitive_float64 o k =
      (match Obj.getAny o k with
       | .error e => .error e
       | .ok (.num bits) => .ok bits
       | .ok _ => .error .wrong) := by
  unfold GenObject.getPrimitive_float64 Obj.getAny Go.mapLookup
  cases h : Obj.lookup o k with
  | none => rfl
  | some v => cases v <;> rfl

/-! ### `GetNumber` on one bit pattern -/

/-- the statement about one bit pattern -/
def NumCore (bits : Nat) : Prop :=
  (if Go.f64ne bits (Go.f64trunc bits) then (.error Obj.Err.wrong : Obj.R Nat)
   else if (Go.f64ltNat bits 0 || Go.f64geNat bits 18446744073709551616) then .error Obj.Err.wrong
   else .ok (Go.f64toUint64 bits)) =
  (match F64.toNat? bits with
   | some n => if n < 2 ^ 64 then .ok n else .error .wrong
   | none => .error .wrong)

theorem f64_decomp (bits : Nat) (h : bits < 2 ^ 64) :
    bits = F64.sign bits * 2 ^ 63 + F64.expo bits * 2 ^ 52 + F64.mant bits ∧
    F64.sign bits < 2 ∧ F64.expo bits < 2048 ∧ F64.mant bits < 2 ^ 52 := by
  unfold F64.sign F64.expo F64.mant
  omega

theorem core_2047 (bits : Nat) (h : bits < 2 ^ 64) (hex : F64.expo bits = 2047) : NumCore bits := by
  obtain ⟨hd, hs, _, hm⟩ := f64_decomp bits h
  unfold NumCore Go.f64ne Go.f64trunc Go.f64ltNat Go.f64geNat F64.toNat? F64.dyadic F64.isNaN F64.isInf
  simp only [hex]
  by_cases hm0 : F64.mant bits = 0
  · have : F64.sign bits = 0 ∨ F64.sign bits = 1 := by omega
    have hb : ¬ (bits % 2 ^ 63 = 0) := by omega
    rcases this with hs | hs <;> simp [hm0, hs, hb]
  · simp [hm0]


theorem sign_signbit (s : Nat) (hs : s < 2) :
    F64.sign (s * 2 ^ 63) = s ∧ F64.expo (s * 2 ^ 63) = 0 ∧ F64.mant (s * 2 ^ 63) = 0 := by
  unfold F64.sign F64.expo F64.mant
  omega

theorem core_zero (bits : Nat) (h : bits < 2 ^ 64) (hex : F64.expo bits = 0)
    (hm0 : F64.mant bits = 0) : NumCore bits := by
  obtain ⟨hd, hs, _, hm⟩ := f64_decomp bits h
  obtain ⟨h1, h2, h3⟩ := sign_signbit _ hs
  have hb : bits % 2 ^ 63 = 0 := by omega
  have hb' : F64.sign bits * 2 ^ 63 % 2 ^ 63 = 0 := by omega
  unfold NumCore Go.f64toUint64 Go.f64ne Go.f64trunc Go.f64ltNat Go.f64geNat F64.toNat? F64.dyadic F64.isNaN F64.isInf
  simp [hex, hm0, h2, h3, hb, hb']

theorem lt_pow (m k : Nat) (hm : m < 2 ^ 52) (hk : 52 ≤ k) : m < 2 ^ k :=
  Nat.lt_of_lt_of_le hm (Nat.pow_le_pow_right (by decide) hk)

theorem core_small (bits : Nat) (h : bits < 2 ^ 64) (hex : F64.expo bits < 1023)
    (hnz : ¬ (F64.expo bits = 0 ∧ F64.mant bits = 0)) : NumCore bits := by
  obtain ⟨hd, hs, _, hm⟩ := f64_decomp bits h
  obtain ⟨h1, h2, h3⟩ := sign_signbit _ hs
  have hb : ¬ (bits % 2 ^ 63 = 0) := by omega
  have hne : bits ≠ F64.sign bits * 2 ^ 63 := by omega
  have ht : Go.f64trunc bits = F64.sign bits * 2 ^ 63 := by
    unfold Go.f64trunc
    simp only [ge_iff_le]
    rw [if_neg (by omega), if_pos hex]
  have hne1 : Go.f64ne bits (Go.f64trunc bits) = true := by
    rw [ht]
    unfold Go.f64ne F64.isNaN
    simp [h2, hb, hne]
  have hr : F64.toNat? bits = none := by
    unfold F64.toNat? F64.dyadic
    by_cases h0 : F64.expo bits = 0
    · have : F64.mant bits ≠ 0 := fun hh => hnz ⟨h0, hh⟩
      simp [-Nat.reducePow, h0, this, Nat.mod_eq_of_lt (lt_pow _ 1074 hm (by decide))]
    · have hlt : 2 ^ 52 + F64.mant bits < 2 ^ (1075 - F64.expo bits) := by
        have : 2 ^ 53 ≤ 2 ^ (1075 - F64.expo bits) := Nat.pow_le_pow_right (by decide) (by omega)
        omega
      have e1 : (-((F64.expo bits : Int) - 1075)).toNat = 1075 - F64.expo bits := by omega
      have e2 : ¬ ((F64.expo bits : Int) - 1075 ≥ 0) := by omega
      have e3 : F64.expo bits ≠ 2047 := by omega
      have e4 : 2 ^ 52 + F64.mant bits ≠ 0 := by omega
      simp only [h0, e3, if_false, e4, e2, e1, Nat.mod_eq_of_lt hlt]
      simp
  unfold NumCore
  rw [hne1, hr]
  rfl


theorem dyadic_normal (bits : Nat) (h0 : F64.expo bits ≠ 0) (h1 : F64.expo bits ≠ 2047) :
    F64.dyadic bits =
      some (decide (F64.sign bits = 1), 2 ^ 52 + F64.mant bits, (F64.expo bits : Int) - 1075) := by
  unfold F64.dyadic
  rw [if_neg h1, if_neg h0]

theorem core_big (bits : Nat) (h : bits < 2 ^ 64) (hex : 1075 ≤ F64.expo bits)
    (hex' : F64.expo bits ≠ 2047) : NumCore bits := by
  obtain ⟨hd, hs, _, hm⟩ := f64_decomp bits h
  have hb : ¬ (bits % 2 ^ 63 = 0) := by omega
  have ht : Go.f64trunc bits = bits := by
    unfold Go.f64trunc
    simp only [ge_iff_le]
    rw [if_pos hex]
  have hnan : F64.isNaN bits = false := by
    unfold F64.isNaN; simp [hex']
  have hinf : F64.isInf bits = false := by
    unfold F64.isInf; simp [hex']
  have hne1 : Go.f64ne bits bits = false := by
    unfold Go.f64ne
    simp [hnan, hb]
  have e1 : ((F64.expo bits : Int) - 1075).toNat = F64.expo bits - 1075 := by omega
  have e2 : ((F64.expo bits : Int) - 1075 ≥ 0) := by omega
  have e4 : 2 ^ 52 + F64.mant bits ≠ 0 := by omega
  have hdy := dyadic_normal bits (by omega) hex'
  have hs' : F64.sign bits = 0 ∨ F64.sign bits = 1 := by omega
  unfold NumCore Go.f64toUint64
  rw [ht, hne1]
  unfold Go.f64ltNat Go.f64geNat F64.toNat?
  rw [hnan, hinf, hdy]
  simp only [e1, e2, e4, if_false, if_true, Bool.false_eq_true]
  rcases hs' with hs' | hs'
  · simp only [hs']
    by_cases hlt : (2 ^ 52 + F64.mant bits) * 2 ^ (F64.expo bits - 1075) < 2 ^ 64
    · simp [hlt]
    · simp [hlt]
  · simp [hs']


theorem mod_low (bits j : Nat) (hj : j ≤ 52) :
    F64.mant bits % 2 ^ j = bits % 2 ^ j ∧ (2 ^ 52 + F64.mant bits) % 2 ^ j = bits % 2 ^ j := by
  have hdvd : 2 ^ j ∣ 2 ^ 52 := Nat.pow_dvd_pow 2 hj
  have h1 : F64.mant bits % 2 ^ j = bits % 2 ^ j := by
    unfold F64.mant
    exact Nat.mod_mod_of_dvd bits hdvd
  refine ⟨h1, ?_⟩
  obtain ⟨c, hc⟩ := hdvd
  rw [hc, Nat.mul_add_mod, h1]

theorem core_mid (bits : Nat) (h : bits < 2 ^ 64) (hlo : 1023 ≤ F64.expo bits)
    (hhi : F64.expo bits < 1075) : NumCore bits := by
  obtain ⟨hd, hs, _, hm⟩ := f64_decomp bits h
  have hex' : F64.expo bits ≠ 2047 := by omega
  have hb : ¬ (bits % 2 ^ 63 = 0) := by omega
  obtain ⟨_, hmod⟩ := mod_low bits (1075 - F64.expo bits) (by omega)
  have ht : Go.f64trunc bits = bits - bits % 2 ^ (1075 - F64.expo bits) := by
    unfold Go.f64trunc
    simp only [ge_iff_le]
    rw [if_neg (by omega), if_neg (by omega)]
  have hnan : F64.isNaN bits = false := by
    unfold F64.isNaN; simp [hex']
  have hinf : F64.isInf bits = false := by
    unfold F64.isInf; simp [hex']
  have e1 : (-((F64.expo bits : Int) - 1075)).toNat = 1075 - F64.expo bits := by omega
  have e2 : ¬ ((F64.expo bits : Int) - 1075 ≥ 0) := by omega
  have e4 : 2 ^ 52 + F64.mant bits ≠ 0 := by omega
  have hdy := dyadic_normal bits (by omega) hex'
  have hs' : F64.sign bits = 0 ∨ F64.sign bits = 1 := by omega
  have hr : F64.toNat? bits =
      if F64.sign bits = 1 then none
      else if bits % 2 ^ (1075 - F64.expo bits) = 0 then
        some ((2 ^ 52 + F64.mant bits) / 2 ^ (1075 - F64.expo bits)) else none := by
    unfold F64.toNat?
    rw [hdy]
    simp only [e1, e2, e4, if_false, hmod, decide_eq_true_eq]
  by_cases hr0 : bits % 2 ^ (1075 - F64.expo bits) = 0
  · rw [hr0, Nat.sub_zero] at ht
    have hne1 : Go.f64ne bits bits = false := by
      unfold Go.f64ne
      simp [hnan, hb]
    have hdiv : (2 ^ 52 + F64.mant bits) / 2 ^ (1075 - F64.expo bits) < 2 ^ 64 :=
      Nat.lt_of_le_of_lt (Nat.div_le_self _ _) (by omega)
    have hge : ¬ (2 ^ 52 + F64.mant bits ≥ 18446744073709551616 * 2 ^ (1075 - F64.expo bits)) := by
      have : 1 ≤ 2 ^ (1075 - F64.expo bits) := Nat.pow_pos (by decide)
      have : 18446744073709551616 * 1 ≤ 18446744073709551616 * 2 ^ (1075 - F64.expo bits) :=
        Nat.mul_le_mul_left _ this
      omega
    unfold NumCore Go.f64toUint64
    rw [ht, hne1, hr]
    unfold Go.f64ltNat Go.f64geNat
    rw [hnan, hinf, hdy]
    simp only [e1, e2, e4, hge, hr0, if_false, if_true, Bool.false_eq_true]
    rcases hs' with hs' | hs'
    · simp [hs', hdiv]
    · simp [hs']
  · have hne1 : Go.f64ne bits (Go.f64trunc bits) = true := by
      rw [ht]
      have hle : bits % 2 ^ (1075 - F64.expo bits) ≤ bits := Nat.mod_le _ _
      have : bits ≠ bits - bits % 2 ^ (1075 - F64.expo bits) := by omega
      unfold Go.f64ne
      simp [hnan, hb, this]
    unfold NumCore
    rw [hne1, hr]
    rcases hs' with hs' | hs' <;> simp [hs', hr0]

theorem numCore (bits : Nat) (h : bits < 2 ^ 64) : NumCore bits := by
  by_cases h1 : F64.expo bits = 2047
  · exact core_2047 bits h h1
  by_cases h2 : 1075 ≤ F64.expo bits
  · exact core_big bits h h2 h1
  by_cases h3 : 1023 ≤ F64.expo bits
  · exact core_mid bits h h3 (by omega)
  by_cases h4 : F64.expo bits = 0 ∧ F64.mant bits = 0
  · exact core_zero bits h h4.1 h4.2
  · exact core_small bits h (by omega) h4

end Gen17
