import Proofs.CleanStyle

/-
  Gemtext and plaintext renderers produce clean text.
-/

namespace Cells
open Str Ansi

/-! ### Gemtext -/

def LineSub (line : Str) : Gemtext.Line → Prop
  | .link u a => u.Sublist line ∧ a.Sublist line
  | .header _ t => t.Sublist line
  | .bullet t => t.Sublist line
  | .quote t => t.Sublist line
  | .plain t => t.Sublist line

theorem headerText_sub (k : Nat) (line t : Str) (h : Gemtext.headerText k line = some t) :
    t.Sublist line := by
  unfold Gemtext.headerText at h
  split at h
  · split at h
    · rename_i ch rest heq
      split at h
      · cases h
        have h1 : (ch :: rest).Sublist line := heq ▸ List.drop_sublist k line
        exact ((List.dropWhile_sublist _).trans (List.sublist_cons_self ch rest)).trans h1
      · cases h
    · cases h
  · cases h

theorem classify_sub (line : Str) : LineSub line (Gemtext.classify line) := by
  unfold Gemtext.classify
  split
  · rename_i rest
    have hr : (rest.dropWhile Gemtext.isBlank).Sublist ('=' :: '>' :: rest) :=
      (List.dropWhile_sublist _).trans
        ((List.sublist_cons_self '>' rest).trans (List.sublist_cons_self '=' _))
    have hu := (List.takeWhile_sublist (fun c => !Gemtext.isBlank c)
      (l := rest.dropWhile Gemtext.isBlank)).trans hr
    refine ⟨hu, ?_⟩
    split
    · exact hu
    · exact ((List.dropWhile_sublist _).trans (List.dropWhile_sublist _)).trans hr
  · split
    · rename_i t ht; exact headerText_sub _ _ _ ht
    · split
      · rename_i t ht; exact headerText_sub _ _ _ ht
      · split
        · rename_i t ht; exact headerText_sub _ _ _ ht
        · split
          · exact (List.sublist_cons_self ' ' _).trans (List.sublist_cons_self '*' _)
          · exact (List.sublist_cons_self ' ' _).trans (List.sublist_cons_self '>' _)
          · exact List.sublist_cons_self '>' _
          · exact List.Sublist.refl _

section
variable (c : Colors) (hc : ColorsOk c)
include hc

theorem clean_codeBlockOf (buf : Str) (w : Int) (h : Safe.noCtl buf = true) :
    Clean (Gemtext.codeBlockOf c buf w) := by
  unfold Gemtext.codeBlockOf
  exact clean_append _ _
    (clean_codeBlock c hc _ (clean_dumbWrap _ _ (clean_trimSuffix_nl _ (clean_plain _ h)))) clean_nl

def GemInv (s : Gemtext.St) : Prop := Clean s.result ∧ Safe.noCtl s.buf = true

theorem gem_step (w : Int) (s : Gemtext.St) (line : Str) (hs : GemInv s)
    (hl : Safe.noCtl line = true) : GemInv (Gemtext.step c w s line) := by
  obtain ⟨h1, h2⟩ := hs
  unfold Gemtext.step
  split
  · split
    · exact ⟨clean_append _ _ h1 (clean_codeBlockOf c hc _ _ h2), rfl⟩
    · exact ⟨h1, h2⟩
  · split
    · refine ⟨h1, ?_⟩
      simp only
      rw [noCtl_append, noCtl_append]
      exact ⟨⟨h2, hl⟩, by decide⟩
    · have hsub := classify_sub line
      split
      · rename_i uri alt heq
        rw [heq] at hsub
        refine ⟨?_, h2⟩
        exact clean_append _ _ (clean_append _ _ h1 (clean_linkBlock c hc _ _
          (clean_wrap _ _ (clean_plain _ (noCtl_sublist hsub.2 hl))))) clean_nl
      · rename_i k t heq
        rw [heq] at hsub
        refine ⟨?_, h2⟩
        exact clean_append _ _ (clean_append _ _ h1 (clean_header c hc _ _
          (clean_wrap _ _ (clean_plain _ (noCtl_sublist hsub hl))))) clean_nl
      · rename_i t heq
        rw [heq] at hsub
        refine ⟨?_, h2⟩
        exact clean_append _ _ (clean_append _ _ h1 (clean_bullet _
          (clean_wrap _ _ (clean_plain _ (noCtl_sublist hsub hl))))) clean_nl
      · rename_i t heq
        rw [heq] at hsub
        refine ⟨?_, h2⟩
        exact clean_append _ _ (clean_append _ _ h1 (clean_quoteBlock c hc _
          (clean_wrap _ _ (clean_plain _ (noCtl_sublist hsub hl))))) clean_nl
      · rename_i t heq
        rw [heq] at hsub
        refine ⟨?_, h2⟩
        exact clean_append _ _ (clean_append _ _ h1 (clean_plain _ (noCtl_sublist hsub hl))) clean_nl

theorem gem_foldl (w : Int) (lines : List Str) (hl : ∀ l ∈ lines, Safe.noCtl l = true) :
    ∀ s, GemInv s → GemInv (lines.foldl (Gemtext.step c w) s) := by
  induction lines with
  | nil => intro s h; exact h
  | cons l ls ih =>
    intro s h
    exact ih (fun x hx => hl x (by simp [hx])) _ (gem_step c hc w s l h (hl l (by simp)))

theorem gemtext_clean (lines : List Str) (hl : ∀ l ∈ lines, Safe.noCtl l = true) (w : Int) :
    Clean (Markup.gemR c lines w) := by
  unfold Markup.gemR Gemtext.renderWithLinks Gemtext.renderFull
  have h := gem_foldl c hc w lines hl {} ⟨clean_nil, rfl⟩
  apply clean_trim isNl isNl_spec
  apply clean_wrap
  split
  · exact clean_append _ _ h.1 (clean_codeBlockOf c hc _ _ h.2)
  · exact h.1

end

/-! ### Plaintext -/

theorem matchUrl_append (s link after : Str) (h : Plaintext.matchUrl s = some (link, after)) :
    link ++ after = s := by
  unfold Plaintext.matchUrl at h
  split at h
  · rename_i ch cs
    split at h
    · dsimp only at h
      split at h
      · rename_i r heq
        split at h
        · cases h
        · simp only [Option.some.injEq, Prod.mk.injEq] at h
          obtain ⟨rfl, rfl⟩ := h
          have e1 := List.takeWhile_append_dropWhile (p := Plaintext.isHierChar) (l := r)
          have e2 := List.takeWhile_append_dropWhile (p := Plaintext.isSchemeChar) (l := cs)
          rw [heq] at e2
          simp only [List.cons_append, List.append_assoc, e1, e2]
      · cases h
    · cases h
  · cases h

section
variable (c : Colors) (hc : ColorsOk c)
include hc

theorem replaceUrls_clean : ∀ (fuel : Nat) (s : Str) (links : List Str) (ghost : List (Nat × Str)),
    Safe.noCtl s = true → Clean (Plaintext.replaceUrls c fuel s links ghost).1 := by
  intro fuel
  induction fuel with
  | zero => intro s links ghost _; rw [Plaintext.replaceUrls]; exact clean_nil
  | succ f ih =>
    intro s links ghost hs
    cases s with
    | nil => rw [Plaintext.replaceUrls]; exact clean_nil
    | cons ch rest =>
      rw [Plaintext.replaceUrls]
      split
      · rename_i link after heq
        have happ := matchUrl_append _ _ _ heq
        rw [← happ, noCtl_append] at hs
        exact clean_append _ _ (clean_link c hc _ _ (clean_plain _ hs.1)) (ih _ _ _ hs.2)
      · have hs' : Safe.noCtl ([ch] ++ rest) = true := hs
        rw [noCtl_append] at hs'
        exact clean_append [ch] _ (clean_plain _ hs'.1) (ih _ _ _ hs'.2)

theorem plaintext_clean (text : Str) (ht : Safe.noCtl text = true) (w : Int) :
    Clean (Markup.plainR c text w) := by
  simp only [Markup.plainR, Plaintext.renderWithLinks, Plaintext.renderFull]
  exact clean_trim isNl isNl_spec _ (clean_wrap _ _ (replaceUrls_clean c hc _ _ _ _ ht))

end


end Cells
