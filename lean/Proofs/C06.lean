import Model
import Proofs.C13
import Proofs.C16
import Proofs.C18
import Proofs.C19
import Proofs.C20

/-
  Helper lemmas for Props/C06.lean (no-panic facts and the linear size bound of `wrapLines`).
-/

namespace C06P
open Str Ansi

/-- Number of cells held by a wrap state. -/
def size (s : WrapSt) : Nat :=
  (s.result.map List.length).sum + s.line.length + s.space.length + s.word.length

theorem size_step (w : Int) (s : WrapSt) (m : RawCell) : size (wrapStep w s m) ≤ size s + 1 := by
  rcases s with ⟨r, l, sp, wd⟩
  simp only [wrapStep, size]
  repeat' split
  all_goals (try simp only [List.map_append, List.sum_append, List.length_append, List.map_cons,
    List.map_nil, List.sum_cons, List.sum_nil, List.length_cons, List.length_nil])
  all_goals omega

theorem size_foldl (w : Int) (cells : List RawCell) (s : WrapSt) :
    size (cells.foldl (wrapStep w) s) ≤ size s + cells.length := by
  induction cells generalizing s with
  | nil => simp
  | cons m ms ih =>
    have h1 := ih (wrapStep w s m)
    have h2 := size_step w s m
    simp only [List.foldl_cons, List.length_cons]
    omega

theorem final_le (s : WrapSt) (b : Bool) :
    ((if (if s.word.length > 0 then s.line ++ s.space ++ s.word else s.line).length > 0 || b
        then s.result ++ [if s.word.length > 0 then s.line ++ s.space ++ s.word else s.line]
        else s.result).map List.length).sum ≤ size s := by
  rcases s with ⟨r, l, sp, wd⟩
  simp only [size]
  repeat' split
  all_goals (try simp only [List.map_append, List.sum_append, List.length_append, List.map_cons,
    List.map_nil, List.sum_cons, List.sum_nil])
  all_goals omega

theorem wrap_lines_total (cells : List RawCell) (w : Int) :
    ((wrapLines cells w).map List.length).sum ≤ cells.length := by
  have h := size_foldl w cells {}
  have h0 : size ({} : WrapSt) = 0 := rfl
  rw [h0] at h
  have h2 := final_le (cells.foldl (wrapStep w) {})
    (match cells.getLast? with | some m => decide (m.letter = '\n') | none => false)
  unfold wrapLines
  exact Nat.le_trans h2 (by omega)

end C06P
