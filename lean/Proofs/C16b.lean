import Model

/-
  Helper lemmas for Props/C16b.lean: `ansi.Apply` introduces no newline.  The cells `expand`
  returns only carry characters of the input (no assumption on the input), so styling a
  newline-free text with a newline-free parameter string gives a newline-free text.
-/

namespace C16b
open Str Ansi

theorem splitAtM_mem : ∀ (t a r : Str), splitAtM t = some (a, r) →
    (∀ x ∈ a, x ∈ t) ∧ (∀ x ∈ r, x ∈ t)
  | [], a, r, h => by simp [splitAtM] at h
  | c :: cs, a, r, h => by
    unfold splitAtM at h
    split at h
    · cases h
      exact ⟨by simp, fun x hx => List.mem_cons_of_mem _ hx⟩
    · split at h
      · rename_i a' b' hab
        cases h
        obtain ⟨h1, h2⟩ := splitAtM_mem cs a' r hab
        refine ⟨?_, fun x hx => List.mem_cons_of_mem _ (h2 x hx)⟩
        intro x hx
        rcases List.mem_cons.mp hx with rfl | hx
        · exact List.mem_cons_self
        · exact List.mem_cons_of_mem _ (h1 x hx)
      · cases h

theorem takePre_nl : ∀ (fuel : Nat) (s : Str), '\n' ∉ s →
    '\n' ∉ (takePre fuel s).1 ∧ '\n' ∉ (takePre fuel s).2
  | 0, s, hs => by simpa [takePre] using hs
  | fuel + 1, s, hs => by
    unfold takePre
    split
    · rename_i e b t
      split
      · split
        · rename_i a r har
          obtain ⟨ha, hr⟩ := splitAtM_mem t a r har
          have hts : ∀ x ∈ t, x ∈ e :: b :: t := fun x hx =>
            List.mem_cons_of_mem _ (List.mem_cons_of_mem _ hx)
          split
          · exact ⟨by simp, hs⟩
          · have hrn : '\n' ∉ r := fun hx => hs (hts _ (hr _ hx))
            obtain ⟨i1, i2⟩ := takePre_nl fuel r hrn
            refine ⟨?_, i2⟩
            intro hx
            simp only [List.mem_cons, List.mem_append] at hx
            rcases hx with h | h | h | h | h
            · exact hs (by rw [h]; simp)
            · exact hs (by rw [h]; simp)
            · exact hs (hts _ (ha _ h))
            · exact absurd h (by decide)
            · exact i1 h
        · exact ⟨by simp, hs⟩
      · exact ⟨by simp, hs⟩
    · exact ⟨by simp, hs⟩

theorem expandF_nl : ∀ (fuel : Nat) (s : Str), '\n' ∉ s →
    ∀ m ∈ expandF fuel s, m.letter ≠ '\n' ∧ '\n' ∉ m.pre
  | 0, s, _ => by simp [expandF]
  | fuel + 1, s, hs => by
    unfold expandF
    split
    · simp
    · obtain ⟨h1, h2⟩ := takePre_nl s.length s hs
      simp only
      split
      · simp
      · rename_i c r hcr
        rw [hcr] at h2
        have hc : c ≠ '\n' := fun h => h2 (by rw [h]; simp)
        have hr : '\n' ∉ r := fun h => h2 (List.mem_cons_of_mem _ h)
        split
        · intro m hm
          rcases List.mem_cons.mp hm with rfl | hm
          · exact ⟨hc, h1⟩
          · exact expandF_nl fuel (r.drop 4) (fun h => hr (List.mem_of_mem_drop h)) m hm
        · intro m hm
          rcases List.mem_cons.mp hm with rfl | hm
          · exact ⟨hc, h1⟩
          · exact expandF_nl fuel r hr m hm

/-- `ansi.Apply` of a newline-free text with a newline-free parameter string is newline-free. -/
theorem apply_no_newline (text style : Str) (ht : '\n' ∉ text) (hs : '\n' ∉ style) :
    '\n' ∉ apply text style := by
  unfold apply
  intro h
  rw [List.mem_flatten] at h
  obtain ⟨l, hl, hx⟩ := h
  rw [List.mem_map] at hl
  obtain ⟨m, hm, rfl⟩ := hl
  obtain ⟨h1, h2⟩ := expandF_nl _ _ ht m hm
  rw [if_neg h1] at hx
  simp only [List.mem_cons, List.mem_append, reset, Str.ESC] at hx
  rcases hx with h | h | h | h | h | h | h | h | h | h
  all_goals first
    | exact absurd h (by decide)
    | exact hs h
    | exact h2 h
    | exact h1 h.symm
    | simp at h

end C16b
