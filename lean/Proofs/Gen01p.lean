import Model.Present
import Model.GoItem
import Generated.GoPresent
import Props.Gen12
import Props.Gen13
import Props.Gen14

/-
  Helper lemmas for Props/Gen01p.lean.
-/

namespace Gen01pP
open Str Ansi Present GenPresent Gen13

/-- `strings.Map` with a function that only drops characters is a filter. -/
theorem mapDrop_filter (p : Char → Bool) (s : Str) :
    Go.mapDrop (fun x => if p x then none else some x) s = s.filter (fun x => !p x) := by
  induction s with
  | nil => rfl
  | cons a s ih =>
    simp only [Go.mapDrop] at ih ⊢
    by_cases h : p a <;> simp [h, ih]

end Gen01pP
