import Model.Link

/-
  Helper lemmas for C20b (`Link.selectBest`, `Link.selectWithDefault`).
-/

namespace Link
open Obj

/-- Inversion of one successful iteration of the loop in `SelectBestLink`. -/
theorem bestStep_inv {sup : Str} {best this b : T} (h : bestStep sup best this = .ok b) :
    ∃ bm tm, supertypeMatches best sup = .ok bm ∧ supertypeMatches this sup = .ok tm ∧
      supertypeMatches b sup = .ok (bm || tm) ∧ (b = best ∨ b = this) ∧
      (∀ x, (x = best ∨ x = this) → supertypeMatches x sup = supertypeMatches b sup →
        x = b ∨ ∃ rx rb, rating x = .ok rx ∧ rating b = .ok rb ∧ rx ≤ rb) := by
  unfold bestStep at h
  cases hb : supertypeMatches best sup with
  | error e => rw [hb] at h; simp at h
  | ok bm =>
    cases ht : supertypeMatches this sup with
    | error e => rw [hb, ht] at h; simp at h
    | ok tm =>
      rw [hb, ht] at h
      simp only at h
      refine ⟨bm, tm, rfl, rfl, ?_⟩
      cases bm <;> cases tm <;> simp only [Bool.and_true, Bool.and_false, Bool.not_true,
        Bool.not_false, Bool.false_eq_true, if_false, if_true] at h
      · -- both false: compare ratings
        cases htr : rating this with
        | error e => rw [htr] at h; simp at h
        | ok tr =>
          cases hbr : rating best with
          | error e => rw [htr, hbr] at h; simp at h
          | ok br =>
            rw [htr, hbr] at h
            simp only [Except.ok.injEq] at h
            by_cases hgt : tr > br
            · rw [if_pos hgt] at h; subst h
              refine ⟨by simpa using ht, Or.inr rfl, ?_⟩
              intro x hx _
              rcases hx with rfl | rfl
              · exact Or.inr ⟨br, tr, hbr, htr, by omega⟩
              · exact Or.inl rfl
            · rw [if_neg hgt] at h; subst h
              refine ⟨by simpa using hb, Or.inl rfl, ?_⟩
              intro x hx _
              rcases hx with rfl | rfl
              · exact Or.inl rfl
              · exact Or.inr ⟨tr, br, htr, hbr, by omega⟩
      · -- this matches, best does not
        simp only [Except.ok.injEq] at h; subst h
        refine ⟨by simpa using ht, Or.inr rfl, ?_⟩
        intro x hx hs
        rcases hx with rfl | rfl
        · rw [hb, ht] at hs; simp at hs
        · exact Or.inl rfl
      · -- best matches, this does not
        simp only [Except.ok.injEq] at h; subst h
        refine ⟨by simpa using hb, Or.inl rfl, ?_⟩
        intro x hx hs
        rcases hx with rfl | rfl
        · exact Or.inl rfl
        · rw [hb, ht] at hs; simp at hs
      · -- both match: compare ratings
        cases htr : rating this with
        | error e => rw [htr] at h; simp at h
        | ok tr =>
          cases hbr : rating best with
          | error e => rw [htr, hbr] at h; simp at h
          | ok br =>
            rw [htr, hbr] at h
            simp only [Except.ok.injEq] at h
            by_cases hgt : tr > br
            · rw [if_pos hgt] at h; subst h
              refine ⟨by simpa using ht, Or.inr rfl, ?_⟩
              intro x hx _
              rcases hx with rfl | rfl
              · exact Or.inr ⟨br, tr, hbr, htr, by omega⟩
              · exact Or.inl rfl
            · rw [if_neg hgt] at h; subst h
              refine ⟨by simpa using hb, Or.inl rfl, ?_⟩
              intro x hx _
              rcases hx with rfl | rfl
              · exact Or.inl rfl
              · exact Or.inr ⟨tr, br, htr, hbr, by omega⟩

theorem bestLoop_cons_inv {sup : Str} {best this b : T} {rest : List T}
    (h : bestLoop sup best (this :: rest) = .ok b) :
    ∃ b1, bestStep sup best this = .ok b1 ∧ bestLoop sup b1 rest = .ok b := by
  rw [bestLoop] at h
  cases hs : bestStep sup best this with
  | error e => rw [hs] at h; simp at h
  | ok b1 => rw [hs] at h; exact ⟨b1, rfl, h⟩

theorem bestLoop_mem {sup : Str} {rest : List T} {best b : T}
    (h : bestLoop sup best rest = .ok b) : b = best ∨ b ∈ rest := by
  induction rest generalizing best with
  | nil => simp only [bestLoop, Except.ok.injEq] at h; exact Or.inl h.symm
  | cons this rest ih =>
    obtain ⟨b1, hs, hl⟩ := bestLoop_cons_inv h
    obtain ⟨_, _, _, _, _, hmem, _⟩ := bestStep_inv hs
    rcases ih hl with rfl | hin
    · rcases hmem with rfl | rfl
      · exact Or.inl rfl
      · exact Or.inr (List.mem_cons_self ..)
    · exact Or.inr (List.mem_cons_of_mem _ hin)

theorem bestLoop_match {sup : Str} {rest : List T} {best b : T}
    (h : bestLoop sup best rest = .ok b) (x : T) (hx : x = best ∨ x ∈ rest)
    (hm : supertypeMatches x sup = .ok true) : supertypeMatches b sup = .ok true := by
  induction rest generalizing best x with
  | nil =>
    simp only [bestLoop, Except.ok.injEq] at h
    rcases hx with rfl | hx
    · rw [← h]; exact hm
    · cases hx
  | cons this rest ih =>
    obtain ⟨b1, hs, hl⟩ := bestLoop_cons_inv h
    obtain ⟨bm, tm, hb, ht, hb1, _, _⟩ := bestStep_inv hs
    rcases hx with rfl | hx
    · rw [hb] at hm
      simp only [Except.ok.injEq] at hm; subst hm
      exact ih hl b1 (Or.inl rfl) (by simpa using hb1)
    · rcases List.mem_cons.mp hx with rfl | hx
      · rw [ht] at hm
        simp only [Except.ok.injEq] at hm; subst hm
        exact ih hl b1 (Or.inl rfl) (by simpa using hb1)
      · exact ih hl x (Or.inr hx) hm

theorem bestLoop_rating {sup : Str} {rest : List T} {best b : T}
    (h : bestLoop sup best rest = .ok b) (r : Nat) (hr : rating b = .ok r)
    (x : T) (hx : x = best ∨ x ∈ rest)
    (hs : supertypeMatches x sup = supertypeMatches b sup)
    (r' : Nat) (hr' : rating x = .ok r') : r' ≤ r := by
  induction rest generalizing best x r' with
  | nil =>
    simp only [bestLoop, Except.ok.injEq] at h
    rcases hx with rfl | hx
    · subst h; rw [hr] at hr'; simp only [Except.ok.injEq] at hr'; omega
    · cases hx
  | cons this rest ih =>
    obtain ⟨b1, hst, hl⟩ := bestLoop_cons_inv h
    obtain ⟨bm, tm, hb, ht, hb1, _, hcmp⟩ := bestStep_inv hst
    have hx' : (x = best ∨ x = this) ∨ x ∈ rest := by
      rcases hx with h1 | h2
      · exact Or.inl (Or.inl h1)
      · rcases List.mem_cons.mp h2 with h3 | h3
        · exact Or.inl (Or.inr h3)
        · exact Or.inr h3
    rcases hx' with hx1 | hx2
    · -- x took part in the first step
      obtain ⟨sx, hsx, himp⟩ : ∃ sx, supertypeMatches x sup = .ok sx ∧ (sx = true → (bm || tm) = true) := by
        rcases hx1 with rfl | rfl
        · exact ⟨bm, hb, by intro h; simp [h]⟩
        · exact ⟨tm, ht, by intro h; simp [h]⟩
      have hsb : supertypeMatches b sup = .ok sx := by rw [← hs]; exact hsx
      have heq : supertypeMatches x sup = supertypeMatches b1 sup := by
        rw [hsx, hb1]
        cases hbt : (bm || tm) with
        | true =>
          have := bestLoop_match hl b1 (Or.inl rfl) (by rw [hb1, hbt])
          rw [hsb] at this
          exact this
        | false =>
          cases sx with
          | false => rfl
          | true => have := himp rfl; rw [hbt] at this; cases this
      rcases hcmp x hx1 heq with rfl | ⟨rx, rb, hrx, hrb, hle⟩
      · exact ih hl x (Or.inl rfl) hs r' hr'
      · rw [hr'] at hrx
        simp only [Except.ok.injEq] at hrx; subst hrx
        have := ih hl b1 (Or.inl rfl) (by rw [← heq]; exact hs) rb hrb
        omega
    · exact ih hl x (Or.inr hx2) hs r' hr'

theorem selectBest_inv {ls : List T} {sup : Str} {l : T} (h : selectBest ls sup = .ok l) :
    ∃ l0 rest, ls = l0 :: rest ∧ bestLoop sup l0 rest = .ok l := by
  cases ls with
  | nil => simp [selectBest] at h
  | cons l0 rest =>
    refine ⟨l0, rest, rfl, ?_⟩
    simp only [selectBest] at h
    cases hl : bestLoop sup l0 rest with
    | error e => rw [hl] at h; simp at h
    | ok b => rw [hl] at h; simp only [Except.ok.injEq] at h; rw [h]

/-- Inversion of a successful `selectWithDefault`. -/
theorem selectWithDefault_inv {l : T} {d : Mime.MediaType} {s : Sel}
    (h : selectWithDefault l d = some s) :
    l.uri = .ok s.link ∧
      (l.mediaType = .ok s.mt ∨
       ((∃ e, l.mediaType = .error e) ∧
        s.mt = (if isMediaKind l.kind then Mime.unknownSubtype (lower l.kind) else d))) := by
  unfold selectWithDefault at h
  cases hu : l.uri with
  | error e => rw [hu] at h; simp at h
  | ok u =>
    rw [hu] at h
    cases hm : l.mediaType with
    | ok m =>
      rw [hm] at h
      simp only [Option.some.injEq] at h; subst h
      exact ⟨rfl, Or.inl rfl⟩
    | error e =>
      rw [hm] at h
      simp only at h
      refine ⟨?_, Or.inr ⟨⟨e, rfl⟩, ?_⟩⟩
      · by_cases hk : isMediaKind l.kind = true
        · rw [if_pos hk] at h; simp only [Option.some.injEq] at h; subst h; rfl
        · rw [if_neg hk] at h; simp only [Option.some.injEq] at h; subst h; rfl
      · by_cases hk : isMediaKind l.kind = true
        · rw [if_pos hk] at h ⊢; simp only [Option.some.injEq] at h; subst h; rfl
        · rw [if_neg hk] at h ⊢; simp only [Option.some.injEq] at h; subst h; rfl

end Link
