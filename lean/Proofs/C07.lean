import Model
import Proofs.C18

/-
  Helper lemmas for Props/C07.lean: every function `Ui.update` calls returns `.ok` on a state
  whose history index is in range, and keeps it in range.
-/

namespace C07
open Ui Pub

/-- The history has a current page. -/
def HistOk (s : State) : Prop := s.hist.index < s.hist.elements.length

/-! ### History -/

theorem current_eq {α : Type} (h : History.H α) (hi : h.index < h.elements.length) :
    History.current h = .ok h.elements[h.index] := by
  simp [History.current, List.getElem?_eq_getElem hi]

theorem current_lt {α : Type} (h : History.H α) (x : α) (hc : History.current h = .ok x) :
    h.index < h.elements.length := by
  unfold History.current at hc
  split at hc
  · rename_i y hy
    exact (List.getElem?_eq_some_iff.mp hy).1
  · cases hc

theorem add_ok {α : Type} (h : History.H α) (x : α) (hi : History.Inv h) :
    ∃ h', History.add h x = .ok h' ∧ h'.index < h'.elements.length ∧
      (h.index < h.elements.length →
        h'.index = h.index + 1 ∧ h'.elements = h.elements.take (h.index + 1) ++ [x]) := by
  obtain ⟨els, i⟩ := h
  rcases hi with ⟨he, h0⟩ | hlt
  · simp only at he h0
    subst he; subst h0
    exact ⟨{ elements := [x], index := 0 }, by simp [History.add], by simp, by simp⟩
  · simp only at hlt
    have hne : els.isEmpty = false := by
      cases els with
      | nil => simp at hlt
      | cons a t => rfl
    have hnot : ¬ (i + 1 > els.length) := by omega
    refine ⟨{ elements := els.take (i + 1) ++ [x], index := i + 1 }, ?_, ?_, ?_⟩
    · simp [History.add, hne, hnot]
    · simp only [List.length_append, List.length_take, List.length_cons, List.length_nil]
      omega
    · intro _; exact ⟨rfl, rfl⟩

/-! ### `setCurrent` -/

@[simp] theorem setCurrent_index (s : State) (p : Ui.Page) : (setCurrent s p).hist.index = s.hist.index := rfl
@[simp] theorem setCurrent_elements (s : State) (p : Ui.Page) :
    (setCurrent s p).hist.elements = s.hist.elements.set s.hist.index p := rfl
@[simp] theorem setCurrent_mode (s : State) (p : Ui.Page) : (setCurrent s p).mode = s.mode := rfl
@[simp] theorem setCurrent_buffer (s : State) (p : Ui.Page) : (setCurrent s p).buffer = s.buffer := rfl
@[simp] theorem setCurrent_context (s : State) (p : Ui.Page) : (setCurrent s p).context = s.context := rfl

theorem setCurrent_histOk (s : State) (p : Ui.Page) (h : HistOk s) : HistOk (setCurrent s p) := by
  simp [HistOk] at *; exact h

theorem current_setCurrent (s : State) (p : Ui.Page) (h : HistOk s) :
    History.current (setCurrent s p).hist = .ok p := by
  have h' : (setCurrent s p).hist.index < (setCurrent s p).hist.elements.length := setCurrent_histOk s p h
  rw [current_eq _ h']
  simp

/-! ### `loadSurroundings` -/

theorem loadSurroundings_spec (w : World) (s : State) (page : Ui.Page)
    (hc : History.current s.hist = .ok page) :
    ∃ page', loadSurroundings w s = .ok (setCurrent s page') ∧ page'.feed.index = page.feed.index := by
  unfold loadSurroundings
  rw [hc]
  simp only
  refine ⟨_, rfl, ?_⟩
  cases hf : page.frontier <;> cases hch : page.children <;> simp only
  all_goals (repeat' split) <;> simp [Feed.append, Feed.prepend]

theorem loadSurroundings_ok (w : World) (s : State) (h : HistOk s) :
    ∃ page', loadSurroundings w s = .ok (setCurrent s page') := by
  obtain ⟨p, hp, _⟩ := loadSurroundings_spec w s _ (current_eq s.hist h)
  exact ⟨p, hp⟩

/-! ### `switchTo` -/

/-- `s'` is `s` with exactly one page pushed right after the current one (when there is one). -/
def Pushed (s s' : State) : Prop :=
  HistOk s' ∧
  (HistOk s → s'.hist.index = s.hist.index + 1 ∧ s'.hist.elements.length = s.hist.index + 2 ∧
    s'.hist.elements.take (s.hist.index + 1) = s.hist.elements.take (s.hist.index + 1))

/-- The common tail of every non-trivial `switchTo` branch. -/
theorem addLoad (w : World) (s : State) (p : Ui.Page) (m : Mode) (b : Str) (hi : History.Inv s.hist) :
    ∃ h', History.add s.hist p = .ok h' ∧
    ∃ s', loadSurroundings w { s with hist := h', mode := m, buffer := b } = .ok s' ∧
      Pushed s s' ∧ s'.mode = m ∧ s'.buffer = b := by
  obtain ⟨h', hadd, hlt, hpush⟩ := add_ok s.hist p hi
  refine ⟨h', hadd, ?_⟩
  have hok : HistOk { s with hist := h', mode := m, buffer := b } := hlt
  obtain ⟨p', hp'⟩ := loadSurroundings_ok w _ hok
  refine ⟨_, hp', ⟨setCurrent_histOk _ _ hok, ?_⟩, rfl, rfl⟩
  intro hs
  obtain ⟨h1, h2⟩ := hpush hs
  have hs' : s.hist.index < s.hist.elements.length := hs
  simp only [setCurrent_index, setCurrent_elements, h1, h2, List.length_set, List.length_append,
    List.length_take, List.length_cons, List.length_nil]
  refine ⟨trivial, by omega, ?_⟩
  rw [List.take_set_of_le (by omega), List.take_append_of_le_length (by simp; omega), List.take_take]
  simp

theorem switchTo_item (w : World) (s : State) (x : T) (hi : History.Inv s.hist) :
    ∃ s', switchTo w s (.item x) = .ok s' ∧ Pushed s s' ∧ s'.mode = s.mode ∧ s'.buffer = s.buffer := by
  obtain ⟨h', ha, s', h1, h2, h3, h4⟩ := addLoad w s (pageOf w x) s.mode s.buffer hi
  refine ⟨s', ?_, h2, h3, h4⟩
  simp only [switchTo, ha]; exact h1

theorem switchTo_container (w : World) (s : State) (c : Container) (hi : History.Inv s.hist) :
    ∃ s', switchTo w s (.container c) = .ok s' ∧ Pushed s s' ∧ s'.mode = .normal ∧ s'.buffer = [] := by
  obtain ⟨h', ha, s', h1, h2, h3, h4⟩ := addLoad w s
    { feed := Feed.createAndAppend (c.harvest w (s.context + 1) 0).1,
      children := (c.harvest w (s.context + 1) 0).2.1,
      basepoint := (c.harvest w (s.context + 1) 0).2.2 } .normal [] hi
  refine ⟨s', ?_, h2, h3, h4⟩
  simp only [switchTo, ha]; exact h1

theorem switchTo_list (w : World) (s : State) (xs : List T) (hi : History.Inv s.hist) :
    ∃ s', switchTo w s (.list xs) = .ok s' ∧ (s' = s ∨ Pushed s s') ∧ s'.mode = s.mode ∧ s'.buffer = s.buffer := by
  match xs with
  | [] => exact ⟨s, rfl, .inl rfl, rfl, rfl⟩
  | [x] =>
    obtain ⟨h', ha, s', h1, h2, h3, h4⟩ := addLoad w s (pageOf w x) s.mode s.buffer hi
    refine ⟨s', ?_, .inr h2, h3, h4⟩
    simp only [switchTo, ha]; exact h1
  | x :: y :: zs =>
    obtain ⟨h', ha, s', h1, h2, h3, h4⟩ :=
      addLoad w s { feed := Feed.createAndAppend (x :: y :: zs) } s.mode s.buffer hi
    refine ⟨s', ?_, .inr h2, h3, h4⟩
    simp only [switchTo, ha]; exact h1

theorem inv_of_histOk (s : State) (h : HistOk s) : History.Inv s.hist := .inr h

/-- Whatever `switchTo` is called with, a state with a current page keeps one. -/
theorem switchTo_ok (w : World) (s : State) (t : Ui.Target) (h : HistOk s) :
    ∃ s', switchTo w s t = .ok s' ∧ HistOk s' ∧
      (s'.mode = s.mode ∧ s'.buffer = s.buffer ∨ s'.mode = .normal ∧ s'.buffer = []) := by
  cases t with
  | list xs =>
    obtain ⟨s', h1, h2, h3, h4⟩ := switchTo_list w s xs (.inr h)
    refine ⟨s', h1, ?_, .inl ⟨h3, h4⟩⟩
    rcases h2 with rfl | h2
    · exact h
    · exact h2.1
  | item x =>
    obtain ⟨s', h1, h2, h3, h4⟩ := switchTo_item w s x (.inr h)
    exact ⟨s', h1, h2.1, .inl ⟨h3, h4⟩⟩
  | container c =>
    obtain ⟨s', h1, h2, h3, h4⟩ := switchTo_container w s c (.inr h)
    exact ⟨s', h1, h2.1, .inr ⟨h3, h4⟩⟩

/-! ### `openItem`, `subcommand` -/

theorem openItem_ok (w : World) (s : State) (it : Item) (hi : History.Inv s.hist) :
    ∃ s', openItem w s it = .ok s' ∧ HistOk s' ∧ s'.mode = .normal ∧ s'.buffer = [] := by
  unfold openItem
  have hi' : History.Inv ({ s with mode := Mode.loading, buffer := [] } : State).hist := hi
  have key : ∃ s', switchTo w { s with mode := .loading, buffer := [] } (targetOfItem it) = .ok s' ∧ HistOk s' := by
    unfold targetOfItem
    split
    · obtain ⟨s', h1, h2, _⟩ := switchTo_container w _ _ hi'
      exact ⟨s', h1, h2.1⟩
    · obtain ⟨s', h1, h2, _⟩ := switchTo_item w _ _ hi'
      exact ⟨s', h1, h2.1⟩
  obtain ⟨s', h1, h2⟩ := key
  rw [h1]
  exact ⟨_, rfl, h2, rfl, rfl⟩

theorem subcommand_ok (w : World) (s : State) (name arg : Str) (h : HistOk s) :
    ∃ s', subcommand w s name arg = .ok s' ∧ HistOk s' ∧ s'.mode = .normal ∧ s'.buffer = [] := by
  unfold subcommand
  split
  · exact openItem_ok w s _ (.inr h)
  · split
    · split
      · exact ⟨_, rfl, h, rfl, rfl⟩
      · rename_i inputs _
        have hi' : History.Inv ({ s with mode := Mode.loading, buffer := [] } : State).hist := .inr h
        obtain ⟨s', h1, h2, _⟩ := switchTo_container w _ (.feed (newSplicer w inputs)) hi'
        rw [h1]
        exact ⟨_, rfl, h2.1, rfl, rfl⟩
    · exact ⟨_, rfl, h, rfl, rfl⟩

/-- `:feed <name>`: an unknown name only returns to normal mode; a configured one pushes one page. -/
theorem subcommand_feed (w : World) (s s' : State) (name : Str) (h : HistOk s)
    (hs : subcommand w s "feed".toList name = .ok s') :
    s'.mode = .normal ∧ s'.buffer = [] ∧
    ((s.feeds.find? (fun f => f.1 = name)).isNone → s'.hist = s.hist) ∧
    ((s.feeds.find? (fun f => f.1 = name)).isSome →
       s'.hist.index = s.hist.index + 1 ∧ s'.hist.elements.length = s.hist.index + 2) := by
  unfold subcommand at hs
  rw [if_neg (by decide), if_pos rfl] at hs
  split at hs
  · rename_i hf
    cases hs
    refine ⟨rfl, rfl, fun _ => rfl, ?_⟩
    rw [hf]; intro hc; cases hc
  · rename_i nm inputs hf
    have hi' : History.Inv ({ s with mode := Mode.loading, buffer := [] } : State).hist := .inr h
    obtain ⟨s1, h1, h2, _⟩ := switchTo_container w _ (.feed (newSplicer w inputs)) hi'
    rw [h1] at hs
    cases hs
    refine ⟨rfl, rfl, ?_, fun _ => ?_⟩
    · rw [hf]; intro hc; cases hc
    · obtain ⟨a, b, _⟩ := h2.2 h
      exact ⟨a, b⟩

/-! ### `keySwitch` -/

theorem withFeed_spec (s : State) (f : Feed.F T → Feed.F T) (page : Ui.Page)
    (hc : History.current s.hist = .ok page) :
    withFeed s f = .ok (setCurrent s { page with feed := f page.feed }) := by
  simp [withFeed, hc]

theorem currentItem_spec (s : State) (page : Ui.Page) (hc : History.current s.hist = .ok page) :
    currentItem s = .ok (Feed.current page.feed) := by
  simp [currentItem, hc]

theorem moveLoad (w : World) (s : State) (f : Feed.F T → Feed.F T) (page : Ui.Page)
    (hc : History.current s.hist = .ok page) :
    ∃ page', (withFeed s f).bind (loadSurroundings w) = .ok (setCurrent s page') ∧
      page'.feed.index = (f page.feed).index := by
  have hok : HistOk s := current_lt _ _ hc
  rw [withFeed_spec s f page hc]
  obtain ⟨p', h1, h2⟩ := loadSurroundings_spec w (setCurrent s { page with feed := f page.feed }) _
    (current_setCurrent s _ hok)
  refine ⟨p', ?_, h2⟩
  show loadSurroundings w _ = _
  rw [h1]
  congr 1
  simp [setCurrent]

theorem back_histOk (s : State) (h : HistOk s) : HistOk { s with hist := History.back s.hist } := by
  unfold HistOk at *
  simp only [History.back]
  split
  · show s.hist.index - 1 < s.hist.elements.length
    omega
  · exact h

theorem forward_histOk (s : State) (h : HistOk s) : HistOk { s with hist := History.forward s.hist } := by
  unfold HistOk at *
  simp only [History.forward]
  split
  · show s.hist.index + 1 < s.hist.elements.length
    omega
  · exact h

theorem keySwitch_ok (w : World) (s : State) (k : Nat) (h : HistOk s) :
    ∃ s', keySwitch w s k = .ok s' ∧ HistOk s' ∧
      (s'.mode = s.mode ∧ s'.buffer = s.buffer ∨ s'.mode = .opening) := by
  have hc := current_eq s.hist h
  have hci := currentItem_spec s _ hc
  have sw : ∀ t, (∀ c, t ≠ Ui.Target.container c) →
      ∃ s', switchTo w s t = .ok s' ∧ HistOk s' ∧
        (s'.mode = s.mode ∧ s'.buffer = s.buffer ∨ s'.mode = .opening) := by
    intro t ht
    cases t with
    | list xs =>
      obtain ⟨s', h1, h2, h3, h4⟩ := switchTo_list w s xs (.inr h)
      refine ⟨s', h1, ?_, .inl ⟨h3, h4⟩⟩
      rcases h2 with rfl | h2
      · exact h
      · exact h2.1
    | item x =>
      obtain ⟨s', h1, h2, h3, h4⟩ := switchTo_item w s x (.inr h)
      exact ⟨s', h1, h2.1, .inl ⟨h3, h4⟩⟩
    | container c => exact absurd rfl (ht c)
  have same : ∀ s' : State, s'.mode = s.mode → s'.buffer = s.buffer →
      (s'.mode = s.mode ∧ s'.buffer = s.buffer ∨ s'.mode = .opening) := fun _ a b => .inl ⟨a, b⟩
  unfold keySwitch
  split
  · obtain ⟨p', h1, _⟩ := moveLoad w s Feed.moveUp _ hc
    exact ⟨_, h1, setCurrent_histOk _ _ h, same _ rfl rfl⟩
  split
  · obtain ⟨p', h1, _⟩ := moveLoad w s Feed.moveDown _ hc
    exact ⟨_, h1, setCurrent_histOk _ _ h, same _ rfl rfl⟩
  split
  · exact ⟨_, withFeed_spec s _ _ hc, setCurrent_histOk _ _ h, same _ rfl rfl⟩
  split
  · exact ⟨_, rfl, back_histOk s h, same _ rfl rfl⟩
  split
  · exact ⟨_, rfl, forward_histOk s h, same _ rfl rfl⟩
  split
  · rw [hci]
    split
    · rename_i e he; cases he
    · exact ⟨s, rfl, h, same _ rfl rfl⟩
    · exact sw _ (by intro c hc; cases hc)
  split
  · rw [hci]
    simp only
    split
    · exact sw _ (by intro c hc; cases hc)
    · exact ⟨s, rfl, h, same _ rfl rfl⟩
  split
  · rw [hci]
    split
    · rename_i e he; cases he
    · exact sw _ (by intro c hc; cases hc)
    · exact ⟨s, rfl, h, same _ rfl rfl⟩
  split
  · rw [hci]
    simp only
    split
    · exact ⟨_, rfl, h, .inr rfl⟩
    · exact ⟨s, rfl, h, same _ rfl rfl⟩
  · exact ⟨s, rfl, h, same _ rfl rfl⟩

/-! ### `update` -/

theorem digit_isDigit (d : Nat) (hd : '0'.toNat ≤ d ∧ d ≤ '9'.toNat) : (Char.ofNat d).isDigit = true := by
  have h0 : '0'.toNat = 48 := by decide
  have h9 : '9'.toNat = 57 := by decide
  rw [h0, h9] at hd
  have : d = 48 ∨ d = 49 ∨ d = 50 ∨ d = 51 ∨ d = 52 ∨ d = 53 ∨ d = 54 ∨ d = 55 ∨ d = 56 ∨ d = 57 := by
    omega
  rcases this with rfl | rfl | rfl | rfl | rfl | rfl | rfl | rfl | rfl | rfl <;> decide

theorem inv_normal (s : State) (h : HistOk s) (hm : s.mode ≠ .selection) : Inv s := by
  refine ⟨fun _ => h, ?_, fun hs => absurd hs hm⟩
  intro he
  unfold HistOk at h
  rw [he] at h
  simp at h

theorem update_inv (w : World) (s : State) (k : Nat) (h : Inv s) :
    ∃ s', update w s k = .ok s' ∧ Inv s' := by
  obtain ⟨h1, h2, h3⟩ := h
  unfold update
  split
  · exact ⟨s, rfl, h1, h2, h3⟩
  rename_i hl
  have hok : HistOk s := h1 hl
  split
  · exact ⟨_, rfl, inv_normal _ hok (by simp)⟩
  split
  · split
    · exact ⟨_, rfl, inv_normal _ hok (by simp)⟩
    · rename_i hne
      refine ⟨_, rfl, fun _ => hok, h2, ?_⟩
      simp only
      intro hsel
      split at hsel
      · cases hsel
      · rename_i hnot
        have hb : s.buffer.dropLast ≠ [] := by
          intro he
          apply hnot
          simp [he, hsel]
        refine ⟨hb, fun ch hch => (h3 hsel).2 ch (List.dropLast_subset _ hch)⟩
  split
  · split
    · split
      · obtain ⟨s', e1, e2, e3, _⟩ := subcommand_ok w s _ _ hok
        exact ⟨s', e1, inv_normal _ e2 (by simp [e3])⟩
      · exact ⟨_, rfl, inv_normal _ hok (by simp)⟩
    · rename_i hcmd _
      exact ⟨_, rfl, inv_normal _ hok (by simp [hcmd])⟩
  split
  · exact ⟨_, rfl, inv_normal _ hok (by simp)⟩
  split
  · rename_i hd
    refine ⟨_, rfl, fun _ => hok, h2, fun _ => ⟨by simp, ?_⟩⟩
    intro ch hch
    simp only [List.mem_append, List.mem_singleton] at hch
    rcases hch with hch | rfl
    · split at hch
      · rename_i hsel; exact (h3 hsel).2 ch hch
      · simp at hch
    · exact digit_isDigit k hd
  split
  · split
    · have hc := current_eq s.hist hok
      rw [currentItem_spec s _ hc]
      simp only
      split
      · exact ⟨_, rfl, inv_normal _ hok (by simp)⟩
      · split
        · obtain ⟨s', e1, e2, e3, _⟩ := openItem_ok w s _ (.inr hok)
          exact ⟨s', e1, inv_normal _ e2 (by simp [e3])⟩
        · exact ⟨_, rfl, inv_normal _ hok (by simp [openExternally])⟩
    · obtain ⟨s', e1, e2, e3⟩ := keySwitch_ok w { s with mode := .normal, buffer := [] } k hok
      refine ⟨s', e1, inv_normal _ e2 ?_⟩
      rcases e3 with ⟨e3, _⟩ | e3 <;> simp [e3]
  · rename_i hsel
    obtain ⟨s', e1, e2, e3⟩ := keySwitch_ok w s k hok
    refine ⟨s', e1, inv_normal _ e2 ?_⟩
    rcases e3 with ⟨e3, _⟩ | e3
    · rw [e3]; exact hsel
    · simp [e3]

theorem start_aux (w : World) (context : Nat) (arg : Str) (feeds : List (Str × List Str)) :
    ∃ s, start w context arg feeds = .ok s ∧ Inv s ∧ s.mode = .normal := by
  obtain ⟨s', e1, e2, e3, _⟩ := openItem_ok w { context := context, feeds := feeds } (fetchUserInput w arg) (.inl ⟨rfl, rfl⟩)
  exact ⟨s', e1, inv_normal _ e2 (by simp [e3]), e3⟩

theorem run_inv (w : World) (keys : List Nat) (s : State) (h : Inv s) :
    ∃ s', run w s keys = .ok s' ∧ Inv s' := by
  induction keys generalizing s with
  | nil => exact ⟨s, rfl, h⟩
  | cons k ks ih =>
    obtain ⟨s1, e1, i1⟩ := update_inv w s k h
    obtain ⟨s2, e2, i2⟩ := ih s1 i1
    refine ⟨s2, ?_, i2⟩
    simp only [run, e1]
    exact e2

/-! ### The keymap -/

/-- In normal mode every key other than Esc, backspace, colon and the digits goes to the key switch. -/
theorem update_normal (w : World) (s : State) (k : Nat) (hm : s.mode = .normal)
    (h1 : k ≠ 27) (h2 : k ≠ 127) (h3 : k ≠ 58) (h4 : ¬ (48 ≤ k ∧ k ≤ 57)) :
    update w s k = keySwitch w s k := by
  have e1 : ':'.toNat = 58 := by decide
  have e2 : '0'.toNat = 48 := by decide
  have e3 : '9'.toNat = 57 := by decide
  unfold update
  simp [hm, h1, h2, h3, h4, e1, e2, e3]

theorem moveDown_index (f : Feed.F T) :
    (Feed.moveDown f).index = (if Feed.contains f 1 then f.index + 1 else f.index) := by
  unfold Feed.moveDown; split <;> rfl

theorem moveUp_index (f : Feed.F T) :
    (Feed.moveUp f).index = (if Feed.contains f (-1) then f.index - 1 else f.index) := by
  unfold Feed.moveUp; split <;> rfl

theorem moveToCenter_index (f : Feed.F T) :
    (Feed.moveToCenter f).index = (if Feed.contains f (-f.index) then 0 else f.index) := by
  unfold Feed.moveToCenter; split <;> rfl

theorem keySwitch_j (w : World) (s : State) :
    keySwitch w s 'j'.toNat = (withFeed s Feed.moveDown).bind (loadSurroundings w) := by
  unfold keySwitch
  rw [if_neg (by decide), if_pos rfl]

theorem keySwitch_k (w : World) (s : State) :
    keySwitch w s 'k'.toNat = (withFeed s Feed.moveUp).bind (loadSurroundings w) := by
  unfold keySwitch
  rw [if_pos rfl]

theorem keySwitch_g (w : World) (s : State) :
    keySwitch w s 'g'.toNat = withFeed s Feed.moveToCenter := by
  unfold keySwitch
  rw [if_neg (by decide), if_neg (by decide), if_pos rfl]

theorem keySwitch_h (w : World) (s : State) :
    keySwitch w s 'h'.toNat = .ok { s with hist := History.back s.hist } := by
  unfold keySwitch
  rw [if_neg (by decide), if_neg (by decide), if_neg (by decide), if_pos rfl]

theorem keySwitch_l (w : World) (s : State) :
    keySwitch w s 'l'.toNat = .ok { s with hist := History.forward s.hist } := by
  unfold keySwitch
  rw [if_neg (by decide), if_neg (by decide), if_neg (by decide), if_neg (by decide), if_pos rfl]

theorem keySwitch_space_none (w : World) (s : State) (hc : currentItem s = .ok none) :
    keySwitch w s ' '.toNat = .ok s := by
  unfold keySwitch
  rw [if_neg (by decide), if_neg (by decide), if_neg (by decide), if_neg (by decide), if_neg (by decide),
    if_pos rfl, hc]

theorem keySwitch_space_some (w : World) (s : State) (x : T) (hc : currentItem s = .ok (some x)) :
    keySwitch w s ' '.toNat = switchTo w s (.item x) := by
  unfold keySwitch
  rw [if_neg (by decide), if_neg (by decide), if_neg (by decide), if_neg (by decide), if_neg (by decide),
    if_pos rfl, hc]

theorem move_aux (w : World) (s s' : State) (page : Ui.Page) (f : Feed.F T → Feed.F T)
    (hp : History.current s.hist = .ok page)
    (hs : (withFeed s f).bind (loadSurroundings w) = .ok s') :
    ∃ page', History.current s'.hist = .ok page' ∧
      page'.feed.index = (f page.feed).index ∧
      s'.hist.index = s.hist.index ∧ s'.hist.elements.length = s.hist.elements.length ∧ s'.mode = s.mode := by
  obtain ⟨p', e1, e2⟩ := moveLoad w s f page hp
  rw [e1] at hs
  cases hs
  exact ⟨p', current_setCurrent s p' (current_lt _ _ hp), e2, rfl, by simp, rfl⟩

/-- The media keys: `o` / `p` / `b` reach the last branch of the key switch. -/
theorem keySwitch_media (w : World) (s : State) (k : Nat) (cur : Option T)
    (hk : k = 'o'.toNat ∨ k = 'p'.toNat ∨ k = 'b'.toNat) (hc : currentItem s = .ok cur) :
    keySwitch w s k =
      .ok (match (if k = 'o'.toNat then mediaOf w cur else pictureOf w (k = 'b'.toNat) cur) with
           | some x => openExternally s x.link
           | none => s) := by
  have ek : 'k'.toNat = 107 := by decide
  have ej : 'j'.toNat = 106 := by decide
  have eg : 'g'.toNat = 103 := by decide
  have eh : 'h'.toNat = 104 := by decide
  have el : 'l'.toNat = 108 := by decide
  have es : ' '.toNat = 32 := by decide
  have ec : 'c'.toNat = 99 := by decide
  have er : 'r'.toNat = 114 := by decide
  have ea : 'a'.toNat = 97 := by decide
  have eo : 'o'.toNat = 111 := by decide
  have ep : 'p'.toNat = 112 := by decide
  have eb : 'b'.toNat = 98 := by decide
  rw [eo, ep, eb] at hk
  unfold keySwitch
  rw [ek, ej, eg, eh, el, es, ec, er, ea, eo, ep, eb]
  rw [if_neg (by omega), if_neg (by omega), if_neg (by omega), if_neg (by omega), if_neg (by omega),
    if_neg (by omega), if_neg (by omega), if_neg (by omega), if_pos hk, hc]
  simp only
  split <;> rename_i hsel <;> simp only [hsel]

/-- A media key that finds a link starts the hook from every mode in which keys are read as
    keys (normal, selection — which it first leaves —, opening, problem). -/
theorem update_media (w : World) (s : State) (k : Nat) (cur : Option T) (x : Link.Sel)
    (g1 : s.mode ≠ .loading) (g4 : s.mode ≠ .command)
    (hk : k = 'o'.toNat ∨ k = 'p'.toNat ∨ k = 'b'.toNat) (hc : currentItem s = .ok cur)
    (hx : (if k = 'o'.toNat then mediaOf w cur else pictureOf w (k = 'b'.toNat) cur) = some x) :
    ∃ s', update w s k = .ok s' ∧ s'.mode = .opening ∧ s'.buffer = x.link := by
  have e0 : '0'.toNat = 48 := by decide
  have e9 : '9'.toNat = 57 := by decide
  have ec : ':'.toNat = 58 := by decide
  have ed : '.'.toNat = 46 := by decide
  have eo : 'o'.toNat = 111 := by decide
  have ep : 'p'.toNat = 112 := by decide
  have eb : 'b'.toNat = 98 := by decide
  have hk' : k = 111 ∨ k = 112 ∨ k = 98 := by rw [eo, ep, eb] at hk; exact hk
  have hu : update w s k =
      keySwitch w (if s.mode = .selection then { s with mode := .normal, buffer := [] } else s) k := by
    unfold update
    rw [if_neg g1, if_neg (by omega), if_neg (by omega), if_neg g4, ec, if_neg (by omega), e0, e9,
      if_neg (by omega), ed]
    split
    · rw [if_neg (by omega)]
    · rfl
  by_cases hsel : s.mode = .selection
  · rw [if_pos hsel] at hu
    have hc' : currentItem ({ s with mode := .normal, buffer := [] } : State) = .ok cur := hc
    rw [hu, keySwitch_media w _ k cur hk hc', hx]
    exact ⟨_, rfl, rfl, rfl⟩
  · rw [if_neg hsel] at hu
    rw [hu, keySwitch_media w _ k cur hk hc, hx]
    exact ⟨_, rfl, rfl, rfl⟩

end C07
