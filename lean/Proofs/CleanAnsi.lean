import Proofs.CleanTrim
import Proofs.C13
import Proofs.C16

/-
  Clean text is closed under the layout functions of the ansi layer.
-/

namespace Cells
open Str Ansi

/-! ### Wrap: every cell held in the state satisfies a predicate the input cells satisfy -/

structure AllP (P : RawCell → Prop) (s : WrapSt) : Prop where
  res : ∀ l ∈ s.result, ∀ m ∈ l, P m
  line : ∀ m ∈ s.line, P m
  space : ∀ m ∈ s.space, P m
  word : ∀ m ∈ s.word, P m

theorem AllP_flush {P : RawCell → Prop} {s : WrapSt} (h : AllP P s) : AllP P (WrapP.flush s) := by
  unfold WrapP.flush
  split
  · constructor <;> simp
    · exact h.res
    · intro m hm
      rcases hm with hm | hm | hm
      · exact h.line m hm
      · exact h.space m hm
      · exact h.word m hm
  · exact h

theorem AllP_spStep {P : RawCell → Prop} {w : Int} {s : WrapSt} (m : RawCell) (hm : P m)
    (h : AllP P s) : AllP P (WrapP.spStep w s m) := by
  unfold WrapP.spStep
  split
  · constructor <;> simp
    intro l hl
    rcases hl with hl | rfl
    · exact h.res l hl
    · split
      · intro x hx
        rw [List.mem_append] at hx
        rcases hx with hx | hx
        · exact h.line x hx
        · exact h.space x hx
      · exact h.line
  · constructor <;> simp
    · exact h.res
    · exact h.line
    · intro x hx
      rcases hx with hx | rfl
      · exact h.space x hx
      · exact hm
    · exact h.word

theorem AllP_step {P : RawCell → Prop} (w : Int) {s : WrapSt} (m : RawCell) (hm : P m)
    (h : AllP P s) : AllP P (wrapStep w s m) := by
  cases hsp : Uni.isSpace m.letter with
  | true => rw [WrapP.wrapStep_space w s m hsp]; exact AllP_spStep m hm (AllP_flush h)
  | false =>
    have hres := h.res
    have hline := h.line
    have hspace := h.space
    have hword := h.word
    simp only [wrapStep, hsp, Bool.not_false, if_true]
    split <;> split <;> (constructor <;> simp) <;> grind

theorem AllP_foldl {P : RawCell → Prop} (w : Int) (cells : List RawCell) (hc : ∀ m ∈ cells, P m) :
    ∀ s, AllP P s → AllP P (cells.foldl (wrapStep w) s) := by
  induction cells with
  | nil => intro s h; exact h
  | cons m ms ih =>
    intro s h
    exact ih (fun x hx => hc x (by simp [hx])) _ (AllP_step w m (hc m (by simp)) h)

theorem wrapLines_all {P : RawCell → Prop} (cells : List RawCell) (w : Int)
    (hc : ∀ m ∈ cells, P m) : ∀ l ∈ wrapLines cells w, ∀ m ∈ l, P m := by
  rw [WrapP.wrapLines_eq]
  have h := AllP_foldl w cells hc {} ⟨by simp, by simp, by simp, by simp⟩
  intro l hl
  have hlast : ∀ m ∈ WrapP.lastLine (cells.foldl (wrapStep w) {}), P m := by
    unfold WrapP.lastLine
    split
    · intro m hm
      simp only [List.mem_append] at hm
      rcases hm with (hm | hm) | hm
      · exact h.line m hm
      · exact h.space m hm
      · exact h.word m hm
    · exact h.line
  rcases WrapP.mem_finalLines hl with hl | hl
  · exact h.res l hl
  · rw [hl]; exact hlast

theorem clean_wrap (s : Str) (w : Int) (h : Clean s) : Clean (wrap s w) := by
  unfold wrap
  apply clean_joinNL
  intro l hl
  simp only [List.mem_map] at hl
  obtain ⟨x, hx, rfl⟩ := hl
  exact clean_collapse x (wrapLines_all (expand s) w (clean_expand s h) x hx)

/-! ### DumbWrap -/

theorem clean_dumbWrap (s : Str) (w : Int) (h : Clean s) : Clean (dumbWrap s w) := by
  rw [LayoutP.dumbWrap_refines]
  apply clean_joinNL
  intro l hl
  simp only [List.mem_map] at hl
  obtain ⟨x, hx, rfl⟩ := hl
  apply clean_collapse
  intro m hm
  have hmem : m ∈ (LayoutP.dumbLinesP (expand s) w).flatten := List.mem_flatten.2 ⟨x, hx, hm⟩
  rw [LayoutP.dumbWrap_keeps_all] at hmem
  exact clean_expand s h m (List.mem_filter.1 hmem).1

/-! ### Pad -/

theorem cellLines_all {P : RawCell → Prop} (cells : List RawCell) (hc : ∀ m ∈ cells, P m) :
    ∀ l ∈ cellLines cells, ∀ m ∈ l, P m := by
  induction cells with
  | nil =>
    intro l hl
    simp only [cellLines, List.mem_singleton] at hl
    subst hl
    simp
  | cons c cs ih =>
    have ih' := ih (fun x hx => hc x (by simp [hx]))
    obtain ⟨l0, ls, h1, h2⟩ := LayoutP.cellLines_cons c cs
    rw [h1] at ih'
    rw [h2]
    intro l hl
    split at hl
    · simp only [List.mem_cons] at hl
      rcases hl with rfl | rfl | hl
      · simp
      · exact ih' _ (by simp)
      · exact ih' l (by simp [hl])
    · simp only [List.mem_cons] at hl
      rcases hl with rfl | hl
      · intro m hm
        simp only [List.mem_cons] at hm
        rcases hm with rfl | hm
        · exact hc _ (by simp)
        · exact ih' l0 (by simp) m hm
      · exact ih' l (by simp [hl])

theorem clean_pad (s : Str) (w : Int) (h : Clean s) : Clean (pad s w) := by
  unfold pad
  apply clean_joinNL
  intro l hl
  simp only [List.mem_map] at hl
  obtain ⟨x, hx, rfl⟩ := hl
  unfold padLine
  exact clean_append _ _ (clean_collapse x (cellLines_all _ (clean_expand s h) x hx))
    (clean_plain _ (noCtl_rep ' ' _ (by decide)))

/-! ### Snip -/

theorem clean_snipLoop (w : Int) : ∀ (L : List Str) (req : Bool), (∀ l ∈ L, Clean l) →
    ∀ x ∈ (snipLoop w L req).1, Clean x := by
  intro L
  induction L with
  | nil => intro req _ x hx; simp [snipLoop] at hx
  | cons l rest ih =>
    intro req hL
    by_cases hws : lineIsOnlyWhitespace (expand l) = true
    · rw [SnipP.snipLoop_ws w l rest req hws]
      exact ih true (fun x hx => hL x (by simp [hx]))
    · rw [SnipP.snipLoop_keep w l rest req hws]
      intro x hx
      simp only [List.mem_append, List.mem_map, List.mem_reverse, List.mem_singleton] at hx
      rcases hx with ⟨y, hy, rfl⟩ | rfl
      · rw [SnipP.ce, collapse_expand]
        exact hL y (by simp [hy])
      · apply clean_collapse
        have hl := clean_expand l (hL l (by simp))
        split
        · intro m hm
          exact hl m ((List.dropLast_sublist _).subset hm)
        · exact hl

theorem clean_snip (s : Str) (w h : Int) (e out : Str) (hs : Clean s) (he : Clean e)
    (ho : snip s w h e = .ok out) : Clean out := by
  unfold snip at ho
  split at ho
  · cases ho
  · simp only [Except.ok.injEq] at ho
    subst ho
    apply clean_append
    · apply clean_joinNL
      apply clean_snipLoop
      intro l hl
      exact clean_splitNL s hs l (List.mem_of_mem_take (List.mem_reverse.1 hl))
    · have hb : ∀ b : Bool, Clean (if b = true then e else []) := by
        intro b
        cases b
        · exact clean_nil
        · exact he
      exact hb _

/-! ### CenterVertically -/

theorem clean_centerVertically (p c s : Str) (h : Nat) (hp : Clean p) (hc : Clean c) (hs : Clean s) :
    Clean (centerVertically p c s h) := by
  rw [C16.center_refines_aux]
  apply clean_joinNL
  intro l hl
  rcases C16.mem_centerLines _ _ _ _ l hl with h1 | h1 | h1 | h1
  · rw [h1]; exact clean_nil
  · exact clean_splitNL p hp l h1
  · exact clean_splitNL c hc l h1
  · exact clean_splitNL s hs l h1

/-! ### ReplaceLastLine -/

theorem idxOf?_append_notMem (a : Char) (x y : Str) (h : a ∉ x) :
    (x ++ y).idxOf? a = (y.idxOf? a).map (· + x.length) := by
  induction x with
  | nil => simp
  | cons b x ih =>
    have hb : (b == a) = false := by
      simp only [beq_eq_false_iff_ne, ne_eq]
      intro e
      exact h (by simp [e])
    rw [List.cons_append, List.idxOf?_cons, ih (fun hx => h (by simp [hx]))]
    simp only [hb, Bool.false_eq_true, if_false, Option.map_map, List.length_cons]
    congr 1

theorem idxOf?_lt (a : Char) (x : Str) (j : Nat) (h : x.idxOf? a = some j) : j < x.length := by
  induction x generalizing j with
  | nil => simp at h
  | cons b x ih =>
    rw [List.idxOf?_cons] at h
    split at h
    · simp at h; subst h; simp
    · simp only [Option.map_eq_some_iff] at h
      obtain ⟨j', hj', rfl⟩ := h
      have := ih j' hj'
      simp
      omega

theorem clean_take_lastNL (cs : List Cell) (h : ∀ c ∈ cs, c.clean = true) :
    ∀ j, (render cs).reverse.idxOf? '\n' = some j →
      Clean ((render cs).take ((render cs).length - 1 - j)) := by
  induction cs using snoc_induction with
  | nil => intro j hj; simp [render_nil] at hj
  | snoc cs c ih =>
    intro j hj
    have hcs : ∀ c ∈ cs, c.clean = true := fun x hx => h x (by simp [hx])
    have hcc := h c (by simp)
    have hok := Cell.clean_ok hcc
    have hc' := (cell_ok_iff c).1 hok
    have hr : render (cs ++ [c]) = render cs ++ c.render := by
      rw [render_append, render_cons, render_nil, List.append_nil]
    rw [hr] at hj ⊢
    by_cases hn : c.ch = '\n'
    · have has : c.attrs = [] := by
        rcases hc'.2.2 with h | h
        · exact absurd hn h
        · exact h
      rw [render_bare c has, hn] at hj ⊢
      simp only [List.reverse_append, List.reverse_cons, List.reverse_nil, List.nil_append,
        List.cons_append, List.idxOf?_cons, beq_self_eq_true, if_true, Option.some.injEq] at hj
      subst hj
      have : (render cs ++ ['\n']).length - 1 - 0 = (render cs).length := by simp
      rw [this, List.take_left']
      · exact clean_cells cs hcs
      · rfl
    · have hnm : '\n' ∉ c.render.reverse := by
        simpa using nl_not_mem_render c hok hn
      rw [List.reverse_append, idxOf?_append_notMem _ _ _ hnm] at hj
      simp only [Option.map_eq_some_iff] at hj
      obtain ⟨j', hj', rfl⟩ := hj
      have hlt := idxOf?_lt _ _ _ hj'
      simp only [List.length_reverse] at hlt
      have e : (render cs ++ c.render).length - 1 - (j' + c.render.reverse.length)
          = (render cs).length - 1 - j' := by
        simp only [List.length_append, List.length_reverse]
        omega
      rw [e, List.take_append_of_le_length (by omega)]
      exact ih hcs j' hj'

theorem clean_replaceLastLine (s r out : Str) (hs : Clean s) (hr : Clean r)
    (ho : replaceLastLine s r = .ok out) : Clean out := by
  unfold replaceLastLine at ho
  split at ho
  · cases ho
  · simp only [Except.ok.injEq] at ho
    subst ho
    apply clean_append
    · obtain ⟨cs, hcs, rfl⟩ := hs
      cases hidx : (render cs).reverse.idxOf? '\n' with
      | none =>
        simp only [lastIndexNL, hidx, List.take_zero]
        exact clean_nil
      | some j =>
        simp only [lastIndexNL, hidx]
        exact clean_take_lastNL cs hcs j hidx
    · exact clean_cons '\n' (Or.inl rfl) r hr

/-! ### SetLength -/

theorem squash_printable (t : Str) (h : Safe.noCtl t = true) :
    ∀ c ∈ squash t, Uni.isControl c = false := by
  rw [noCtl_iff] at h
  intro c hc
  simp only [squash, List.mem_map] at hc
  obtain ⟨x, hx, rfl⟩ := hc
  split
  · decide
  · rename_i hne
    rcases h x hx with h1 | h1
    · exact absurd h1 hne
    · exact h1

theorem noCtl_of_printable (t : Str) (h : ∀ c ∈ t, Uni.isControl c = false) :
    Safe.noCtl t = true := by
  rw [noCtl_iff]
  exact fun c hc => Or.inr (h c hc)

theorem clean_setLength (s : Str) (w : Int) (e : Char) (out : Str) (he : Uni.isControl e = false)
    (ho : setLength s w [e] = .ok out) : Clean out := by
  have ht : Safe.noCtl (squash (scrub s)) = true :=
    noCtl_of_printable _ (squash_printable _ (scrub_noCtl s))
  unfold setLength at ho
  generalize squash (scrub s) = t at ht ho
  simp only at ho
  split at ho
  · cases ho; exact clean_nil
  · split at ho
    · split at ho
      · cases ho
      · cases ho
        exact clean_append _ _ (clean_plain _ (noCtl_sublist (List.take_sublist _ _) ht))
          (clean_char e (Or.inr he))
    · split at ho
      · cases ho
        exact clean_append _ _ (clean_plain _ ht) (clean_plain _ (noCtl_rep ' ' _ (by decide)))
      · cases ho
        exact clean_plain _ ht

end Cells
