import Model

/- Helper lemmas for Props/Gen15h.lean: what the recognisers of the trim patterns return. -/

set_option linter.unusedSimpArgs false

open Str
namespace Gen15hP
theorem tw_all (p : Char → Bool) : ∀ (l : Str), (l.takeWhile p).all p = true
  | [] => rfl
  | a :: l => by
    by_cases h : p a = true
    · simp [List.takeWhile_cons, h, tw_all p l]
    · simp [List.takeWhile_cons, h]

theorem rev_split (s : Str) :
    s = (List.dropWhile isSpNl s.reverse).reverse ++ (List.takeWhile isSpNl s.reverse).reverse := by
  have hd := List.takeWhile_append_dropWhile (p := isSpNl) (l := s.reverse)
  have h2 := congrArg List.reverse hd
  rw [List.reverse_append, List.reverse_reverse] at h2
  exact h2.symm

theorem trimRight_split (s : Str) : trimRight isSpNl s ++ s.drop (trimRight isSpNl s).length = s := by
  unfold trimRight
  have hs := rev_split s
  generalize (List.dropWhile isSpNl s.reverse).reverse = a at hs ⊢
  generalize (List.takeWhile isSpNl s.reverse).reverse = b at hs
  subst hs
  simp

theorem trimRight_rest (s : Str) : (s.drop (trimRight isSpNl s).length).all isSpNl = true := by
  unfold trimRight
  have hs := rev_split s
  have hall : ((List.takeWhile isSpNl s.reverse).reverse).all isSpNl = true := by
    rw [List.all_reverse]; exact tw_all _ _
  generalize (List.dropWhile isSpNl s.reverse).reverse = a at hs ⊢
  generalize (List.takeWhile isSpNl s.reverse).reverse = b at hs hall
  subst hs
  simpa using hall

theorem trimRight_last (s : Str) : ∀ ch, (trimRight isSpNl s).getLast? = some ch → isSpNl ch = false := by
  intro ch h
  unfold trimRight at h
  rw [List.getLast?_reverse] at h
  have := List.head?_dropWhile_not isSpNl s.reverse
  rw [h] at this
  simpa using this

theorem dropWhile_head (s : Str) : ∀ ch, (s.dropWhile isSpNl).head? = some ch → isSpNl ch = false := by
  intro ch h
  have := List.head?_dropWhile_not isSpNl s
  rw [h] at this
  simpa using this
end Gen15hP
