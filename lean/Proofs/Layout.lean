import Proofs.Expand

/-
  `DumbWrap`, `Pad` and `Indent` as line-level functions.
-/

namespace LayoutP
open Str Ansi AnsiSpec

/-! ### Joining -/

/-- Every line followed by a newline. -/
def jpre (A : List Str) : Str := (A.map (· ++ ['\n'])).flatten

theorem jpre_snoc (A : List Str) (x : Str) : jpre (A ++ [x]) = jpre A ++ x ++ ['\n'] := by
  simp [jpre]

theorem joinNL_cons_cons (l l' : Str) (ls : List Str) :
    joinNL (l :: l' :: ls) = l ++ '\n' :: joinNL (l' :: ls) := rfl

theorem joinNL_snoc (A : List Str) (x : Str) : joinNL (A ++ [x]) = jpre A ++ x := by
  induction A with
  | nil => rfl
  | cons l A ih =>
    cases A with
    | nil => simp [joinNL, jpre]
    | cons l' A' =>
      rw [List.cons_append, List.cons_append, joinNL_cons_cons, ← List.cons_append, ih]
      simp [jpre]

/-! ### Hard wrapping -/

/-- One iteration of `DumbWrap` on the line-level state. -/
def dstep (w : Int) (st : List (List RawCell) × List RawCell) (m : RawCell) :
    List (List RawCell) × List RawCell :=
  if m.letter = '\n' then (st.1 ++ [st.2], [])
  else if (st.2.length : Int) = w then (st.1 ++ [st.2], [m])
  else (st.1, st.2 ++ [m])

def dumbLinesP (cells : List RawCell) (w : Int) : List (List RawCell) :=
  let st := cells.foldl (dstep w) ([], [])
  st.1 ++ [st.2]

/-- The string-level state of `DumbWrap` describes the line-level state. -/
def DRel (st : Str × Nat) (L : List (List RawCell) × List RawCell) : Prop :=
  st.1 = jpre (L.1.map collapse) ++ collapse L.2 ∧ st.2 = L.2.length

theorem DRel_step (w : Int) {st : Str × Nat} {L : List (List RawCell) × List RawCell} (m : RawCell)
    (h : DRel st L) : DRel (dumbWrapStep w st m) (dstep w L m) := by
  obtain ⟨h1, h2⟩ := h
  unfold dumbWrapStep dstep
  rw [h2]
  split
  · constructor
    · simp [h1, jpre_snoc, collapse_nil]
    · rfl
  · split
    · constructor
      · simp [h1, jpre_snoc, collapse_cons, collapse_nil]
      · rfl
    · constructor
      · simp [h1, collapse_append, collapse_cons, collapse_nil]
      · simp

theorem DRel_foldl (w : Int) (cells : List RawCell) : ∀ st L, DRel st L →
    DRel (cells.foldl (dumbWrapStep w) st) (cells.foldl (dstep w) L) := by
  induction cells with
  | nil => intro st L h; exact h
  | cons m ms ih => intro st L h; exact ih _ _ (DRel_step w m h)

theorem dumbWrap_refines (text : Str) (w : Int) :
    dumbWrap text w = joinNL ((dumbLinesP (expand text) w).map collapse) := by
  have h := DRel_foldl w (expand text) ([], 0) ([], []) ⟨rfl, rfl⟩
  unfold dumbWrap dumbLinesP
  simp only [List.map_append, List.map_cons, List.map_nil]
  rw [joinNL_snoc, h.1]

theorem dstep_flat (w : Int) (L : List (List RawCell) × List RawCell) (m : RawCell) :
    (dstep w L m).1.flatten ++ (dstep w L m).2 =
      L.1.flatten ++ L.2 ++ [m].filter (fun m => m.letter ≠ '\n') := by
  unfold dstep
  split
  · rename_i h; simp [h]
  · rename_i h
    split <;> simp [h]

theorem dfold_flat (w : Int) (cells : List RawCell) : ∀ L : List (List RawCell) × List RawCell,
    (cells.foldl (dstep w) L).1.flatten ++ (cells.foldl (dstep w) L).2 =
      L.1.flatten ++ L.2 ++ cells.filter (fun m => m.letter ≠ '\n') := by
  induction cells with
  | nil => intro L; simp
  | cons m ms ih =>
    intro L
    rw [List.foldl_cons, ih, dstep_flat, show m :: ms = [m] ++ ms from rfl, List.filter_append]
    simp

theorem dumbWrap_keeps_all (cells : List RawCell) (w : Int) :
    (dumbLinesP cells w).flatten = cells.filter (fun m => m.letter ≠ '\n') := by
  have := dfold_flat w cells ([], [])
  unfold dumbLinesP
  simpa using this

def DInv (w : Int) (L : List (List RawCell) × List RawCell) : Prop :=
  (∀ l ∈ L.1, (l.length : Int) ≤ w) ∧ (L.2.length : Int) ≤ w

theorem DInv_step {w : Int} (hw : 1 ≤ w) {L : List (List RawCell) × List RawCell} (m : RawCell)
    (h : DInv w L) : DInv w (dstep w L m) := by
  obtain ⟨h1, h2⟩ := h
  have hpush : ∀ l ∈ L.1 ++ [L.2], (l.length : Int) ≤ w := by
    intro l hl
    rw [List.mem_append] at hl
    rcases hl with hl | hl
    · exact h1 l hl
    · simp at hl; rw [hl]; exact h2
  unfold dstep
  split
  · exact ⟨hpush, by simp; omega⟩
  · split
    · exact ⟨hpush, by simp; omega⟩
    · exact ⟨h1, by simp; omega⟩

theorem DInv_foldl {w : Int} (hw : 1 ≤ w) (cells : List RawCell) :
    ∀ L, DInv w L → DInv w (cells.foldl (dstep w) L) := by
  induction cells with
  | nil => intro L h; exact h
  | cons m ms ih => intro L h; exact ih _ (DInv_step hw m h)

theorem dumbWrap_width (cells : List RawCell) (w : Int) (hw : 1 ≤ w) :
    ∀ l ∈ dumbLinesP cells w, (l.length : Int) ≤ w := by
  have h := DInv_foldl hw cells ([], []) ⟨by simp, by simp; omega⟩
  intro l hl
  unfold dumbLinesP at hl
  simp only [List.mem_append, List.mem_singleton] at hl
  rcases hl with hl | hl
  · exact h.1 l hl
  · rw [hl]; exact h.2

/-! ### Padding -/

theorem pad_shape (line : List RawCell) (w : Int) :
    ∃ k : Nat, padLine line w = collapse line ++ rep ' ' k ∧
      ((line.length + k : Nat) : Int) = max (line.length : Int) w := by
  refine ⟨(w - line.length).toNat, rfl, ?_⟩
  omega

/-! ### Indenting -/

/-- Lines joined by `"\n" ++ pfx` (same as `C13.joinNLWith`). -/
def joinNLWithP (pfx : Str) : List Str → Str
  | [] => []
  | [l] => l
  | l :: ls => l ++ '\n' :: (pfx ++ joinNLWithP pfx ls)

theorem cellLines_ne_nil (cells : List RawCell) : cellLines cells ≠ [] := by
  cases cells with
  | nil => simp [cellLines]
  | cons c cs =>
    unfold cellLines
    split
    · simp
    · split <;> simp

theorem cellLines_cons (c : RawCell) (cs : List RawCell) :
    ∃ l ls, cellLines cs = l :: ls ∧
      cellLines (c :: cs) = if c.letter = '\n' then [] :: l :: ls else (c :: l) :: ls := by
  cases h : cellLines cs with
  | nil => exact absurd h (cellLines_ne_nil cs)
  | cons l ls => exact ⟨l, ls, rfl, by simp [cellLines, h]⟩

theorem joinNLWithP_cons_append (pfx a l : Str) (ls : List Str) :
    joinNLWithP pfx ((a ++ l) :: ls) = a ++ joinNLWithP pfx (l :: ls) := by
  cases ls with
  | nil => rfl
  | cons l' ls' => simp [joinNLWithP]

theorem indent_cells (pfx : Str) (cells : List RawCell) :
    (cells.map fun m => if m.letter = '\n' then '\n' :: pfx else m.full).flatten =
      joinNLWithP pfx ((cellLines cells).map collapse) := by
  induction cells with
  | nil => rfl
  | cons c cs ih =>
    rw [List.map_cons, List.flatten_cons, ih]
    obtain ⟨l, ls, h1, h2⟩ := cellLines_cons c cs
    rw [h2, h1]
    split
    · simp [joinNLWithP, collapse_nil]
    · rw [List.map_cons, List.map_cons, collapse_cons, joinNLWithP_cons_append]

theorem indent_shape (text pfx : Str) (first : Bool) :
    indent text pfx first =
      (if first then pfx else []) ++
      joinNLWithP pfx ((cellLines (expand text)).map collapse) := by
  unfold indent
  rw [indent_cells]

end LayoutP
