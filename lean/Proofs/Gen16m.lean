import Model.Main
import Generated.GoMain
import Proofs.Cells

/-
  Helper lemmas for `Props/Gen16m.lean`: `strings.ReplaceAll(s, "\n", "\r\n")` as `Main.crlf`,
  and the shape of `Main.crlf s`.
-/

namespace Gen16mP
open Go.Term

theorem str_nl : Go.str "\n" = ['\n'] := rfl
theorem str_crlf : Go.str "\r\n" = ['\r', '\n'] := rfl
theorem str_empty : Go.str "" = [] := rfl
theorem str_prefix : Go.str "\x1b[0;0H\x1b[2J" = Main.home ++ Main.clear := by decide

theorem crlf_nil : Main.crlf [] = [] := rfl
theorem crlf_nl (cs : Str) : Main.crlf ('\n' :: cs) = '\r' :: '\n' :: Main.crlf cs := by
  simp [Main.crlf]
theorem crlf_other (c : Char) (cs : Str) (hc : c ≠ '\n') : Main.crlf (c :: cs) = c :: Main.crlf cs := by
  simp [Main.crlf, hc]

theorem replaceAllF_crlf (fuel : Nat) (s : Str) (h : s.length ≤ fuel) :
    Go.Strings.replaceAllF ['\n'] ['\r', '\n'] fuel s = Main.crlf s := by
  induction fuel generalizing s with
  | zero =>
    cases s with
    | nil => rfl
    | cons c cs => simp at h
  | succ n ih =>
    cases s with
    | nil => simp [Go.Strings.replaceAllF, Main.crlf]
    | cons c cs =>
      have hl : cs.length ≤ n := by simpa using h
      by_cases hc : c = '\n'
      · subst hc
        simp [Go.Strings.replaceAllF, Main.crlf, ih cs hl]
      · have hc2 : ¬ '\n' = c := fun e => hc e.symm
        simp [Go.Strings.replaceAllF, Main.crlf, ih cs hl, hc, hc2]

theorem replaceAll_crlf (s : Str) :
    Go.Strings.replaceAll s (Go.str "\n") (Go.str "\r\n") = Main.crlf s := by
  rw [str_nl, str_crlf]
  exact replaceAllF_crlf _ _ (Nat.le_succ _)

/-- What replaces a frame never starts with a line feed. -/
theorem crlf_head (s : Str) : (Main.crlf s).head? ≠ some '\n' := by
  cases s with
  | nil => simp [Main.crlf]
  | cons c cs =>
    by_cases hc : c = '\n'
    · subst hc; rw [crlf_nl]; simp
    · rw [crlf_other c cs hc]; simpa using hc

theorem crlf_pairs (s : Str) : Main.crlfPairs (Main.crlf s) = Str.countNL s := by
  induction s with
  | nil => rfl
  | cons c cs ih =>
    by_cases hc : c = '\n'
    · subst hc
      rw [crlf_nl]
      simp only [Main.crlfPairs, Str.countNL] at ih ⊢
      simp [ih]
      omega
    · rw [crlf_other c cs hc]
      have hr : ¬ (c = '\r' ∧ (Main.crlf cs).head? = some '\n') := fun h => crlf_head cs h.2
      simp only [Main.crlfPairs, Str.countNL] at ih ⊢
      rw [if_neg hr, ih, List.count_cons_of_ne hc]
      omega

theorem crlf_countNL (s : Str) : Str.countNL (Main.crlf s) = Str.countNL s := by
  induction s with
  | nil => rfl
  | cons c cs ih =>
    by_cases hc : c = '\n'
    · subst hc
      rw [crlf_nl]
      simp only [Str.countNL] at ih ⊢
      simp [ih]
    · rw [crlf_other c cs hc]
      simp only [Str.countNL] at ih ⊢
      rw [List.count_cons_of_ne hc, List.count_cons_of_ne hc, ih]

theorem crlf_strip (s : Str) (h : '\r' ∉ s) : (Main.crlf s).filter (· ≠ '\r') = s := by
  induction s with
  | nil => rfl
  | cons c cs ih =>
    have hc' : c ≠ '\r' := fun e => h (by simp [e])
    have hcs : '\r' ∉ cs := fun e => h (List.mem_cons_of_mem _ e)
    by_cases hc : c = '\n'
    · subst hc
      rw [crlf_nl]
      have := ih hcs
      simp at this ⊢
      exact this
    · rw [crlf_other c cs hc]
      have := ih hcs
      simp [hc'] at this ⊢
      exact this

theorem crlf_cr_before_lf (s : Str) (h : '\r' ∉ s) (a b : Str) (hs : Main.crlf s = a ++ '\r' :: b) :
    b.head? = some '\n' := by
  induction s generalizing a with
  | nil => simp [Main.crlf] at hs
  | cons c cs ih =>
    have hc' : c ≠ '\r' := fun e => h (by simp [e])
    have hcs : '\r' ∉ cs := fun e => h (List.mem_cons_of_mem _ e)
    by_cases hc : c = '\n'
    · subst hc
      rw [crlf_nl] at hs
      cases a with
      | nil =>
        simp at hs
        simp [← hs]
      | cons x a' =>
        cases a' with
        | nil => simp at hs
        | cons y a'' =>
          simp at hs
          exact ih hcs a'' hs.2.2
    · rw [crlf_other c cs hc] at hs
      cases a with
      | nil => simp at hs; exact absurd hs.1 hc'
      | cons x a' =>
        simp at hs
        exact ih hcs a' hs.2

/-- Every character of what replaces the frame is a carriage return or a character of the frame. -/
theorem crlf_mem (s : Str) (ch : Char) (h : ch ∈ Main.crlf s) : ch = '\r' ∨ ch ∈ s := by
  induction s with
  | nil => simp [Main.crlf] at h
  | cons c cs ih =>
    by_cases hc : c = '\n'
    · subst hc
      rw [crlf_nl] at h
      simp at h
      rcases h with h | h | h
      · exact Or.inl h
      · exact Or.inr (by simp [h])
      · rcases ih h with h | h
        · exact Or.inl h
        · exact Or.inr (List.mem_cons_of_mem _ h)
    · rw [crlf_other c cs hc] at h
      simp at h
      rcases h with h | h
      · exact Or.inr (by simp [h])
      · rcases ih h with h | h
        · exact Or.inl h
        · exact Or.inr (List.mem_cons_of_mem _ h)

/-! ### translated = model -/

theorem printRaw_ok (frame : Str) :
    GenMain.printRaw none frame = .ok [Act.write (Go.str "\x1b[0;0H\x1b[2J" ++ Go.Strings.replaceAll frame (Go.str "\n") (Go.str "\r\n"))] := rfl

theorem printRaw_eq (frame : Str) :
    GenMain.printRaw none frame = .ok [Act.write (Main.printRaw frame)] := by
  rw [printRaw_ok, replaceAll_crlf, str_prefix]
  rfl

theorem printRaw_err (e frame : Str) :
    GenMain.printRaw (some e) frame = .error (.explicit "panic(err)") := rfl

theorem pollStep_eq (v : GenMain.PollVars) (got : SizeResult) :
    GenMain.pollStep v got = (Main.pollStep got).map fun acts => ⟨v, acts, false⟩ := by
  obtain ⟨w, h, e⟩ := got
  cases e <;> rfl

theorem pollStep_ok (v : GenMain.PollVars) (w h : Int) :
    GenMain.pollStep v ⟨w, h, none⟩
      = .ok ⟨v, [Act.sleep 25000000, Act.getSize, Act.setWidthHeight w h], false⟩ := rfl

theorem pollStep_err (v : GenMain.PollVars) (w h : Int) (e : Str) :
    GenMain.pollStep v ⟨w, h, some e⟩ = .error (.explicit "panic(err)") := rfl

theorem keyStep_eq (b0 : Nat) (read : List Nat) :
    GenMain.keyStep ⟨[b0]⟩ read none
      = .ok ⟨⟨[read.head?.getD b0]⟩, (Main.keyStep (read.head?.getD b0)).1, (Main.keyStep (read.head?.getD b0)).2⟩ := by
  have hb : Go.Term.readInto [b0] read = [read.head?.getD b0] := by
    cases read with
    | nil => rfl
    | cons x xs => simp [Go.Term.readInto, Go.copy]
  generalize hx : read.head?.getD b0 = x at hb
  have hi : Go.index [x] 0 = .ok x := rfl
  unfold GenMain.keyStep
  simp only [hb, hi]
  by_cases h3 : x = 3
  · subst h3
    show (do let a ← GenMain.printRaw none (Go.str ""); pure (⟨⟨[3]⟩, [] ++ a, true⟩ : Step GenMain.KeyVars)) = _
    rw [str_empty, printRaw_eq]
    rfl
  · show (if decide (x = 3) = true then _ else _) = _
    rw [if_neg (by simpa using h3)]
    simp only [Main.keyStep, if_neg h3]
    rfl

theorem keyStep_byte (b0 b : Nat) :
    GenMain.keyStep ⟨[b0]⟩ [b] none
      = .ok ⟨⟨[b]⟩, if b = 3 then [Act.write (Main.printRaw [])] else [Act.update b true], decide (b = 3)⟩ := by
  rw [keyStep_eq]
  by_cases h : b = 3 <;> simp [Main.keyStep, h]

theorem keyStep_short (b0 : Nat) :
    GenMain.keyStep ⟨[b0]⟩ [] none = GenMain.keyStep ⟨[b0]⟩ [b0] none := by
  rw [keyStep_eq, keyStep_eq]; rfl

theorem subcommandStep_eq (v : GenMain.SubVars) (a0 a1 a2 : Str) (rest : List Str) (result : Option Str) :
    GenMain.subcommandStep v (a0 :: a1 :: a2 :: rest) result
      = .ok ⟨⟨result⟩, Main.subcommandStep a1 a2 result, true⟩ := by
  cases result <;> rfl

theorem start_acts (args : List Str) (raw : Option Str) (got : SizeResult) :
    (GenMain.start args raw got).map (·.acts) = Main.start args raw got := by
  obtain ⟨w, h, e⟩ := got
  unfold GenMain.start Main.start
  by_cases hl : args.length < 3
  · have : decide (Go.len args < 3) = true :=
      decide_eq_true (by show (args.length : Int) < 3; omega)
    simp only [this, if_pos hl]
    rfl
  · have : decide (Go.len args < 3) = false :=
      decide_eq_false (by show ¬ (args.length : Int) < 3; omega)
    simp only [this, if_neg hl]
    cases raw with
    | some r => rfl
    | none =>
      cases e with
      | some e => rfl
      | none => rfl

theorem start_vars (a0 a1 a2 : Str) (rest : List Str) (w h : Int) :
    ∃ st, GenMain.start (a0 :: a1 :: a2 :: rest) none ⟨w, h, none⟩ = .ok st ∧
      st.keyVars = some ⟨[0]⟩ ∧ st.pollVars = some ⟨⟩ ∧ st.subVars = some ⟨none⟩ ∧
      Act.newState w h "printRaw" ∈ st.acts := by
  have hl : decide (Go.len (a0 :: a1 :: a2 :: rest) < 3) = false :=
    decide_eq_false (by show ¬ ((a0 :: a1 :: a2 :: rest).length : Int) < 3; simp only [List.length_cons]; omega)
  unfold GenMain.start
  simp only [hl]
  refine ⟨_, rfl, rfl, rfl, rfl, ?_⟩
  simp

theorem newStateSize_eq (w h : Int) : GenMain.newStateSize w h = (w, h) := rfl

theorem setWidthHeight_eq (s : GenView.State) (w h : Int) :
    GenMain.SetWidthHeight s w h
      = .ok (if s.width = w ∧ s.height = h then (s, [])
             else ({ s with width := w, height := h }, [{ s with width := w, height := h }])) := by
  unfold GenMain.SetWidthHeight
  by_cases hc : s.width = w ∧ s.height = h
  · have : (decide (s.width = w) && decide (s.height = h)) = true := by simp [hc.1, hc.2]
    simp only [this, if_pos hc]
    rfl
  · have : (decide (s.width = w) && decide (s.height = h)) = false := by
      simp only [Bool.and_eq_false_iff, decide_eq_false_iff_not]
      by_cases h1 : s.width = w
      · exact Or.inr fun h2 => hc ⟨h1, h2⟩
      · exact Or.inl h1
    simp only [this, if_neg hc]
    rfl

theorem setWidthHeight_resize (s : GenView.State) (w h : Int) :
    ∃ s' frames, GenMain.SetWidthHeight s w h = .ok (s', frames) ∧
      (s'.width, s'.height) = (Main.resize (s.width, s.height) w h).1 ∧
      (frames.length = if (Main.resize (s.width, s.height) w h).2 then 1 else 0) ∧
      ∀ d ∈ frames, d = s' := by
  rw [setWidthHeight_eq]
  by_cases hc : s.width = w ∧ s.height = h
  · refine ⟨s, [], by rw [if_pos hc], ?_, ?_, by simp⟩
    · simp [Main.resize, hc.1, hc.2]
    · simp [Main.resize, hc.1, hc.2]
  · refine ⟨{ s with width := w, height := h }, [{ s with width := w, height := h }], by rw [if_neg hc], ?_, ?_, by simp⟩
    · have : ¬ (s.width, s.height) = (w, h) := by simpa using hc
      simp [Main.resize, this]
    · have : ¬ (s.width, s.height) = (w, h) := by simpa using hc
      simp [Main.resize, this]

/-- Whatever the buffer: a round of the key loop that does not panic does one write and leaves,
    or starts one `Update` and goes on. -/
theorem keyStep_shape (v : GenMain.KeyVars) (read : List Nat) (st : Step GenMain.KeyVars)
    (h : GenMain.keyStep v read none = .ok st) :
    (st.acts = [Act.write (Main.printRaw [])] ∧ st.done = true) ∨
      ∃ b, st.acts = [Act.update b true] ∧ st.done = false := by
  unfold GenMain.keyStep at h
  cases hi : Go.index (Go.Term.readInto v.buffer read) 0 with
  | error e => simp only [hi] at h; cases h
  | ok x =>
    simp only [hi] at h
    by_cases h3 : x = 3
    · subst h3
      left
      have h' : (do let a ← GenMain.printRaw none (Go.str "");
                    pure (⟨⟨Go.Term.readInto v.buffer read⟩, [] ++ a, true⟩ : Step GenMain.KeyVars)) = .ok st := h
      rw [str_empty, printRaw_eq] at h'
      cases h'
      exact ⟨rfl, rfl⟩
    · right
      have h' : (if decide (x = 3) = true then _ else _) = Except.ok st := h
      rw [if_neg (by simpa using h3)] at h'
      cases h'
      exact ⟨x, rfl, rfl⟩

/-! ### clean text has no carriage return -/

theorem digs_ne_cr {c : Char} (h : c.isDigit = true ∨ c = ';') : c ≠ '\r' := by
  intro hc
  subst hc
  revert h
  decide

theorem cr_not_mem_pre (as : List Str) (has : ∀ a ∈ as, Cells.Digs a) : '\r' ∉ Cells.preOf as := by
  induction as with
  | nil => simp
  | cons a as ih =>
    rw [Cells.preOf_cons]
    have h1 : '\r' ∉ a := fun hx => digs_ne_cr (has a (by simp) _ hx) rfl
    have h2 := ih (fun x hx => has x (by simp [hx]))
    have h3 : '\r' ≠ Str.ESC := by decide
    simp [h1, h2, h3]

theorem cr_not_mem_render (c : Cells.Cell) (hc : c.clean = true) : '\r' ∉ c.render := by
  simp only [Cells.Cell.clean, Bool.and_eq_true, Bool.or_eq_true, decide_eq_true_eq,
    Bool.not_eq_true'] at hc
  have hc' := (Cells.cell_ok_iff c).1 hc.1
  have hn : '\r' ≠ c.ch := by
    intro e
    rcases hc.2 with h | h
    · rw [← e] at h; revert h; decide
    · rw [← e] at h; revert h; decide
  by_cases has : c.attrs = []
  · rw [Cells.render_bare c has]
    simpa using hn
  · rw [Cells.render_styled c has]
    have h1 := cr_not_mem_pre c.attrs (fun a ha => Cells.sgrOk_digs (hc'.2.1 a ha))
    have h3 : '\r' ≠ Str.ESC := by decide
    simp [h1, hn, h3, Ansi.reset]

theorem clean_no_cr (s : Str) (h : Cells.Clean s) : '\r' ∉ s := by
  obtain ⟨cs, hcs, rfl⟩ := h
  induction cs with
  | nil => simp [Cells.render_nil]
  | cons c cs ih =>
    rw [Cells.render_cons]
    have h1 := cr_not_mem_render c (hcs c (by simp))
    have h2 := ih (fun x hx => hcs x (by simp [hx]))
    simp [h1, h2]

end Gen16mP
