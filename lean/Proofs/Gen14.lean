import Model.Style
import Generated.GoStyle
import Proofs.Gen16

/-
  Helper lemmas for Props/Gen14.lean: the literals of style/style.go and the two
  `strings.Repeat` calls of `Header`.
-/

namespace Gen14
open Str

theorem str_diamond : Go.str "⯁" = ['⯁'] := rfl
theorem str_bar : Go.str "▌" = ['▌'] := rfl
theorem str_two_sp : Go.str "  " = [' ', ' '] := rfl
theorem str_tri : Go.str "‣ " = "‣ ".toList := rfl
theorem str_dot : Go.str "• " = "• ".toList := rfl
theorem str_bg : Go.str "48;2;" = "48;2;".toList := rfl
theorem str_fg : Go.str "38;2;" = "38;2;".toList := rfl

theorem superscriptInt_nat (n : Nat) : Style.superscriptInt (n : Int) = Style.superscript n := by
  simp [Style.superscriptInt]

/-- `Except.bind` through a known value. -/
theorem bind_ok {ε α β : Type} (a : α) (f : α → Except ε β) :
    (Except.ok a >>= f) = f a := rfl

end Gen14
