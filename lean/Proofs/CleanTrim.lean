import Proofs.CleanBasic

/-
  Trimming clean text removes whole bare cells.
-/

namespace Cells
open Str Ansi

theorem snoc_induction {α : Type} {P : List α → Prop} (nil : P [])
    (snoc : ∀ l a, P l → P (l ++ [a])) : ∀ l, P l := by
  have h : ∀ l : List α, P l.reverse := by
    intro l
    induction l with
    | nil => exact nil
    | cons a l ih => rw [List.reverse_cons]; exact snoc _ _ ih
  intro l
  have := h l.reverse
  rwa [List.reverse_reverse] at this

/-- A styled cell's rendering starts with ESC. -/
theorem render_styled_head (c : Cell) (h : c.attrs ≠ []) :
    ∃ t, c.render = ESC :: t := by
  rw [render_styled c h]
  cases has : c.attrs with
  | nil => exact absurd has h
  | cons a as => rw [preOf_cons]; exact ⟨_, rfl⟩

/-- A styled cell's rendering ends with `m`. -/
theorem render_styled_last (c : Cell) (h : c.attrs ≠ []) :
    ∃ t, c.render = t ++ ['m'] := by
  rw [render_styled c h]
  exact ⟨preOf c.attrs ++ [c.ch, ESC, '[', '0'], by simp [reset]⟩

theorem clean_trimLeft (p : Char → Bool) (hp : ∀ c, p c = true → c = ' ' ∨ c = '\n')
    (cs : List Cell) (h : ∀ c ∈ cs, c.clean = true) : Clean (trimLeft p (render cs)) := by
  induction cs with
  | nil => simpa [trimLeft, render_nil] using clean_nil
  | cons c cs ih =>
    have hcs : ∀ c ∈ cs, c.clean = true := fun x hx => h x (by simp [hx])
    rw [render_cons]
    by_cases has : c.attrs = []
    · rw [render_bare c has]
      by_cases hpc : p c.ch = true
      · simpa [trimLeft, List.dropWhile, hpc] using ih hcs
      · have e : trimLeft p ([c.ch] ++ render cs) = [c.ch] ++ render cs := by
          simp [trimLeft, hpc]
        rw [e, ← render_bare c has, ← render_cons]
        exact clean_cells _ h
    · obtain ⟨t, ht⟩ := render_styled_head c has
      have hpe : ¬ p ESC = true := by
        intro hh
        rcases hp _ hh with h1 | h1 <;> revert h1 <;> decide
      have e : trimLeft p (c.render ++ render cs) = c.render ++ render cs := by
        rw [ht]
        simp [trimLeft, hpe]
      rw [e, ← render_cons]
      exact clean_cells _ h

theorem trimRight_snoc_keep (p : Char → Bool) (s : Str) (ch : Char) (h : ¬ p ch = true) :
    trimRight p (s ++ [ch]) = s ++ [ch] := by
  simp [trimRight, h]

theorem trimRight_snoc_drop (p : Char → Bool) (s : Str) (ch : Char) (h : p ch = true) :
    trimRight p (s ++ [ch]) = trimRight p s := by
  simp [trimRight, h]

theorem clean_trimRight (p : Char → Bool) (hp : ∀ c, p c = true → c = ' ' ∨ c = '\n')
    (cs : List Cell) (h : ∀ c ∈ cs, c.clean = true) : Clean (trimRight p (render cs)) := by
  induction cs using snoc_induction with
  | nil => simpa [trimRight, render_nil] using clean_nil
  | snoc cs c ih =>
    have hcs : ∀ c ∈ cs, c.clean = true := fun x hx => h x (by simp [hx])
    have hr : render (cs ++ [c]) = render cs ++ c.render := by
      rw [render_append, render_cons, render_nil, List.append_nil]
    by_cases has : c.attrs = []
    · rw [hr, render_bare c has]
      by_cases hpc : p c.ch = true
      · rw [trimRight_snoc_drop p _ _ hpc]
        exact ih hcs
      · rw [trimRight_snoc_keep p _ _ hpc, ← render_bare c has, ← hr]
        exact clean_cells _ h
    · obtain ⟨t, ht⟩ := render_styled_last c has
      have hpm : ¬ p 'm' = true := by
        intro hh
        rcases hp _ hh with h1 | h1 <;> revert h1 <;> decide
      have e : trimRight p (render cs ++ c.render) = render cs ++ c.render := by
        rw [ht, ← List.append_assoc]
        exact trimRight_snoc_keep p _ _ hpm
      rw [hr, e, ← hr]
      exact clean_cells _ h

theorem clean_trimLeft' (p : Char → Bool) (hp : ∀ c, p c = true → c = ' ' ∨ c = '\n') (s : Str)
    (h : Clean s) : Clean (trimLeft p s) := by
  obtain ⟨cs, hcs, rfl⟩ := h
  exact clean_trimLeft p hp cs hcs

theorem clean_trimRight' (p : Char → Bool) (hp : ∀ c, p c = true → c = ' ' ∨ c = '\n') (s : Str)
    (h : Clean s) : Clean (trimRight p s) := by
  obtain ⟨cs, hcs, rfl⟩ := h
  exact clean_trimRight p hp cs hcs

theorem clean_trim (p : Char → Bool) (hp : ∀ c, p c = true → c = ' ' ∨ c = '\n') (s : Str)
    (h : Clean s) : Clean (trim p s) :=
  clean_trimRight' p hp _ (clean_trimLeft' p hp s h)

theorem isSpNl_spec : ∀ c, isSpNl c = true → c = ' ' ∨ c = '\n' := by
  intro c h
  simpa [isSpNl] using h

theorem isNl_spec : ∀ c, isNl c = true → c = ' ' ∨ c = '\n' := by
  intro c h
  right
  simpa [isNl] using h

theorem trimSuffix_snoc_ne (s : Str) (ch : Char) (h : ch ≠ '\n') :
    trimSuffix ['\n'] (s ++ [ch]) = s ++ [ch] := by
  have : ¬ (['\n'] <:+ s ++ [ch]) := by
    intro hs
    obtain ⟨t, ht⟩ := hs
    have := congrArg List.getLast? ht
    simp at this
    exact h this.symm
  simp [trimSuffix, List.isSuffixOf_iff_suffix, this]

theorem trimSuffix_snoc_nl (s : Str) : trimSuffix ['\n'] (s ++ ['\n']) = s := by
  have : ['\n'] <:+ s ++ ['\n'] := ⟨s, rfl⟩
  simp [trimSuffix, List.isSuffixOf_iff_suffix, this]

theorem clean_trimSuffix_nl (s : Str) (h : Clean s) : Clean (trimSuffix ['\n'] s) := by
  obtain ⟨cs, hcs, rfl⟩ := h
  induction cs using snoc_induction with
  | nil => simpa [trimSuffix, render_nil] using clean_nil
  | snoc cs c _ =>
    have hcs' : ∀ c ∈ cs, c.clean = true := fun x hx => hcs x (by simp [hx])
    have hr : render (cs ++ [c]) = render cs ++ c.render := by
      rw [render_append, render_cons, render_nil, List.append_nil]
    by_cases has : c.attrs = []
    · rw [hr, render_bare c has]
      by_cases hn : c.ch = '\n'
      · rw [hn, trimSuffix_snoc_nl]
        exact clean_cells _ hcs'
      · rw [trimSuffix_snoc_ne _ _ hn, ← render_bare c has, ← hr]
        exact clean_cells _ hcs
    · obtain ⟨t, ht⟩ := render_styled_last c has
      have e : trimSuffix ['\n'] (render cs ++ c.render) = render cs ++ c.render := by
        rw [ht, ← List.append_assoc]
        exact trimSuffix_snoc_ne _ _ (by decide)
      rw [hr, e, ← hr]
      exact clean_cells _ hcs

end Cells
