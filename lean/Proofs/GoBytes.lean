import Model
import Model.GoBytes
import Proofs.C19

/-
  Helper lemmas about the byte semantics (`Model/GoBytes.lean`): UTF-8 as the bridge between the
  model's strings of code points and Go's strings of bytes; `strconv.ParseUint` on two bytes.
-/

namespace GoB

/-! ### UTF-8 -/

@[simp] theorem utf8_nil : utf8 [] = [] := rfl

theorem utf8_cons (c : Char) (s : Str) : utf8 (c :: s) = String.utf8EncodeChar c ++ utf8 s := by
  simp [utf8]

theorem utf8_append (s t : Str) : utf8 (s ++ t) = utf8 s ++ utf8 t := by
  simp [utf8]

/-- Decoding undoes encoding (core's `List.utf8Decode?_utf8Encode`). -/
theorem ofUtf8_utf8 (s : Str) : ofUtf8 (utf8 s) = some s := by
  have h : (utf8 s).toByteArray = s.utf8Encode := rfl
  simp [ofUtf8, h]

theorem utf8_injective {s t : Str} (h : utf8 s = utf8 t) : s = t := by
  have := ofUtf8_utf8 s
  rw [h, ofUtf8_utf8] at this
  exact (Option.some.inj this).symm

theorem utf8Len_eq (c : Char) : Config.utf8Len c = c.utf8Size := by
  have hv : c.val.toNat = c.toNat := rfl
  simp only [Config.utf8Len, Char.utf8Size, UInt32.le_iff_toNat_le, hv]
  simp only [UInt32.toNat_ofNatLT]
  by_cases h1 : c.toNat < 128
  · have : c.toNat ≤ 127 := by omega
    simp [h1, this]
  · have : ¬ c.toNat ≤ 127 := by omega
    simp only [h1, this, if_false]
    by_cases h2 : c.toNat < 2048
    · have : c.toNat ≤ 2047 := by omega
      simp [h2, this]
    · have : ¬ c.toNat ≤ 2047 := by omega
      simp only [h2, this, if_false]
      by_cases h3 : c.toNat < 65536
      · have : c.toNat ≤ 65535 := by omega
        simp [h3, this]
      · have : ¬ c.toNat ≤ 65535 := by omega
        simp [h3, this]

/-- `len` of the Go string is the model's `byteLen`. -/
theorem length_utf8 (s : Str) : (utf8 s).length = Config.byteLen s := by
  induction s with
  | nil => rfl
  | cons c s ih =>
    rw [utf8_cons, List.length_append, ih, String.length_utf8EncodeChar]
    simp [Config.byteLen, utf8Len_eq]

/-- The byte of an ASCII character. -/
def byteOf (c : Char) : UInt8 := c.val.toUInt8

theorem toNat_byteOf {c : Char} (h : c.toNat < 128) : (byteOf c).toNat = c.toNat := by
  have hv : c.val.toNat = c.toNat := rfl
  simp only [byteOf, UInt32.toNat_toUInt8, hv]
  omega

theorem enc_ascii {c : Char} (h : c.toNat < 128) : String.utf8EncodeChar c = [byteOf c] := by
  apply String.utf8EncodeChar_eq_singleton
  rw [Char.utf8Size_eq_one_iff, UInt32.le_iff_toNat_le]
  have hv : c.val.toNat = c.toNat := rfl
  have e : (127 : UInt32).toNat = 127 := rfl
  rw [hv, e]; omega

theorem or_ge (x y : UInt8) (h : 128 ≤ y.toNat) : 128 ≤ (x ||| y).toNat := by
  rw [UInt8.toNat_or]
  exact Nat.le_trans h Nat.right_le_or

/-- Every byte of the encoding of a non-ASCII character has its high bit set. -/
theorem enc_nonascii {c : Char} (h : 128 ≤ c.toNat) :
    ∀ b ∈ String.utf8EncodeChar c, 128 ≤ b.toNat := by
  have hs : c.utf8Size ≠ 1 := by
    rw [Ne, Char.utf8Size_eq_one_iff, UInt32.le_iff_toNat_le]
    have hv : c.val.toNat = c.toNat := rfl
    have e : (127 : UInt32).toNat = 127 := rfl
    rw [hv, e]; omega
  intro b hb
  rcases c.utf8Size_eq with h1 | h2 | h3 | h4
  · exact absurd h1 hs
  · rw [String.utf8EncodeChar_eq_cons_cons h2] at hb
    simp only [List.mem_cons, List.not_mem_nil, or_false] at hb
    rcases hb with rfl | rfl <;> exact or_ge _ _ (by decide)
  · rw [String.utf8EncodeChar_eq_cons_cons_cons h3] at hb
    simp only [List.mem_cons, List.not_mem_nil, or_false] at hb
    rcases hb with rfl | rfl | rfl <;> exact or_ge _ _ (by decide)
  · rw [String.utf8EncodeChar_eq_cons_cons_cons_cons h4] at hb
    simp only [List.mem_cons, List.not_mem_nil, or_false] at hb
    rcases hb with rfl | rfl | rfl | rfl <;> exact or_ge _ _ (by decide)

/-- A byte string with ASCII bytes only encodes ASCII characters only, one byte each. -/
theorem ascii_of_bytes (s : Str) (h : ∀ b ∈ utf8 s, b.toNat < 128) :
    (∀ c ∈ s, c.toNat < 128) ∧ utf8 s = s.map byteOf := by
  induction s with
  | nil => exact ⟨by simp, rfl⟩
  | cons c s ih =>
    rw [utf8_cons] at h
    have hc : c.toNat < 128 := by
      apply Decidable.byContradiction
      intro hn
      have hne : String.utf8EncodeChar c ≠ [] := String.utf8EncodeChar_ne_nil
      match he : String.utf8EncodeChar c, hne with
      | b :: bs, _ =>
        have hb : b ∈ String.utf8EncodeChar c := by rw [he]; exact List.mem_cons_self
        have := enc_nonascii (c := c) (by omega) b hb
        have := h b (List.mem_append_left _ hb)
        omega
    obtain ⟨ih1, ih2⟩ := ih (fun b hb => h b (List.mem_append_right _ hb))
    refine ⟨?_, ?_⟩
    · intro d hd
      rcases List.mem_cons.mp hd with rfl | hd
      · exact hc
      · exact ih1 d hd
    · rw [utf8_cons, enc_ascii hc, ih2]; rfl

theorem utf8_ascii (s : Str) (h : ∀ c ∈ s, c.toNat < 128) : utf8 s = s.map byteOf := by
  induction s with
  | nil => rfl
  | cons c s ih =>
    rw [utf8_cons, enc_ascii (h c List.mem_cons_self), ih (fun d hd => h d (List.mem_cons_of_mem _ hd))]
    rfl

theorem byteOf_injective {c d : Char} (hc : c.toNat < 128) (hd : d.toNat < 128)
    (h : byteOf c = byteOf d) : c = d := by
  have := congrArg UInt8.toNat h
  rw [toNat_byteOf hc, toNat_byteOf hd] at this
  rw [← Char.ofNat_toNat c, ← Char.ofNat_toNat d, this]

/-! ### `strconv` on bytes -/

open Strconv

/-- A byte as a hexadecimal digit: what the loop of `ParseUint` makes of it under base 16. -/
def hexByte (x : UInt8) : Option Nat :=
  match digitVal x with
  | some d => if d ≥ 16 then none else some d
  | none => none

theorem hexByte_lt {x : UInt8} {d : Nat} (h : hexByte x = some d) : d < 16 := by
  unfold hexByte at h
  split at h
  · split at h
    · cases h
    · cases h; omega
  · cases h

/-- Only ASCII bytes are digits. -/
theorem hexByte_ascii {x : UInt8} {d : Nat} (h : hexByte x = some d) : x.toNat < 128 := by
  have key : ∀ n, n < 256 → (hexByte (UInt8.ofNat n)).isSome = true → n < 128 := by decide +kernel
  have hx : UInt8.ofNat x.toNat = x := by
    apply UInt8.toNat_inj.mp
    rw [UInt8.toNat_ofNat']
    have := x.toNat_lt
    omega
  have := key x.toNat x.toNat_lt (by rw [hx, h]; rfl)
  exact this

/-- On an ASCII character the digit value of its byte is the model's `hexVal`. -/
theorem hexByte_byteOf {c : Char} (h : c.toNat < 128) : hexByte (byteOf c) = Config.hexVal c := by
  have key : ∀ n, n < 128 → hexByte (UInt8.ofNat n) = Config.hexVal (Char.ofNat n) := by
    decide +kernel
  have hb : byteOf c = UInt8.ofNat c.toNat := by
    apply UInt8.toNat_inj.mp
    rw [toNat_byteOf h, UInt8.toNat_ofNat']
    omega
  rw [hb, key c.toNat h, Char.ofNat_toNat]

/-- `ParseUint` of two hexadecimal digits. -/
theorem parseUint_two_ok {x y : UInt8} {a b : Nat} (hx : hexByte x = some a) (hy : hexByte y = some b) :
    parseUint [x, y] 16 0 = (16 * a + b, none) := by
  have ha := hexByte_lt hx
  have hb := hexByte_lt hy
  unfold hexByte at hx hy
  cases dx : digitVal x with
  | none => simp [dx] at hx
  | some a' =>
    cases dy : digitVal y with
    | none => simp [dy] at hy
    | some b' =>
      simp only [dx, dy] at hx hy
      have hxa : a' = a := by split at hx <;> simp_all
      have hyb : b' = b := by split at hy <;> simp_all
      subst hxa hyb
      have h1 : ¬ (a' ≥ 16) := by omega
      have h2 : ¬ (b' ≥ 16) := by omega
      have e1 : a' % 18446744073709551616 = a' := Nat.mod_eq_of_lt (by omega)
      have e2 : a' * 16 % 18446744073709551616 = a' * 16 := Nat.mod_eq_of_lt (by omega)
      have e3 : (a' * 16 + b') % 18446744073709551616 = a' * 16 + b' := Nat.mod_eq_of_lt (by omega)
      have h3 : ¬ (18446744073709551615 < a') := by omega
      have h4 : ¬ (1152921504606846976 ≤ a') := by omega
      have h5 : ¬ (18446744073709551615 < a' * 16 + b') := by omega
      have h6 : ¬ (a' * 16 + b' < a' * 16) := by omega
      simp only [parseUint, parseUintRaw, digitsLoop, dx, dy]
      simp [e1, e2, e3, h1, h2, h3, h4, h5, h6]
      omega

/-- `ParseUint` of two bytes one of which is no hexadecimal digit fails. -/
theorem parseUint_two_err {x y : UInt8} (h : hexByte x = none ∨ hexByte y = none) :
    (parseUint [x, y] 16 0).2.isSome = true := by
  unfold hexByte at h
  simp only [parseUint, parseUintRaw, digitsLoop]
  cases dx : digitVal x with
  | none => simp
  | some a =>
    by_cases ha : a ≥ 16
    · simp [ha]
    · have e1 : a % 18446744073709551616 = a := Nat.mod_eq_of_lt (by omega)
      have h3 : ¬ (18446744073709551615 < a) := by omega
      have h4 : ¬ (1152921504606846976 ≤ a) := by omega
      have ha' : ¬ (16 ≤ a) := ha
      cases dy : digitVal y with
      | none => simp [ha', e1, h3]
      | some b =>
        by_cases hb : b ≥ 16
        · have hb' : 16 ≤ b := hb
          simp [ha', e1, h3, hb']
        · simp [dx, dy, ha, hb] at h

end GoB
