import Model
import Proofs.Cells
import Proofs.Clean

/-
  Helper lemmas for Props/C14.lean: plain ESC-free text as cells, and one step of the style
  layer (`Apply` with a well-formed parameter) on rendered well-formed cells.
-/

namespace C14P
open Str Ansi Cells

/-- The cells of plain ESC-free text are well-formed. -/
theorem plain_ok (s : Str) (h : ESC ∉ s) : ∀ x ∈ plain s, x.ok = true := by
  intro c hc
  simp only [plain, List.mem_map] at hc
  obtain ⟨x, hx, rfl⟩ := hc
  rw [Cells.cell_ok_iff]
  refine ⟨?_, by simp, Or.inr rfl⟩
  intro e
  exact h (e ▸ hx)

/-- … and render as the text itself. -/
theorem render_plain (s : Str) : render (plain s) = s := Cells.render_plain s

/-- One style function: `Apply` with a well-formed parameter on the rendering of well-formed
    cells adds the attribute to every cell, and the cells stay well-formed. -/
theorem apply_step (t : Str) (cs : List Cell) (a : Str) (ha : sgrOk a = true)
    (h : t = render cs ∧ ∀ x ∈ cs, x.ok = true) :
    apply t a = render (cs.map (addAttr a)) ∧ ∀ x ∈ cs.map (addAttr a), x.ok = true := by
  obtain ⟨rfl, hok⟩ := h
  refine ⟨Cells.apply_render cs hok a, ?_⟩
  intro x hx
  simp only [List.mem_map] at hx
  obtain ⟨y, hy, rfl⟩ := hx
  exact Cells.addAttr_ok y a (hok y hy) ha

/-- Concatenation. -/
theorem append_step (s t : Str) (a b : List Cell)
    (hs : s = render a ∧ ∀ x ∈ a, x.ok = true) (ht : t = render b ∧ ∀ x ∈ b, x.ok = true) :
    s ++ t = render (a ++ b) ∧ ∀ x ∈ a ++ b, x.ok = true := by
  obtain ⟨rfl, ha⟩ := hs
  obtain ⟨rfl, hb⟩ := ht
  refine ⟨(Cells.render_append a b).symm, ?_⟩
  intro x hx
  rcases List.mem_append.1 hx with h | h
  · exact ha x h
  · exact hb x h

theorem sgrOk_1 : sgrOk ['1'] = true := by decide
theorem sgrOk_3 : sgrOk ['3'] = true := by decide
theorem sgrOk_4 : sgrOk ['4'] = true := by decide
theorem sgrOk_9 : sgrOk ['9'] = true := by decide

end C14P
