import Model
import Generated.GoNewitem
import Props.C02
import Props.C09
import Props.Gen02n
import Props.GenT02

/-
  C02 and C09 stated directly about the constructors of package pub as translated from the Go
  source (`Generated/GoNewitem.lean`): the theorems of `Props/C02.lean` and `Props/C09.lean`
  carried across the equalities of `Props/Gen02n.lean`.  The world supplies what the code takes
  from outside (`Gen02n.libs`, `Gen02n.ext`); the presentation part is any implementation `P`
  whose `GetMarkup` reports the world's links (`P.Agrees w`); the model appears only in the
  vocabulary of the specification (`ItemOk`, `Served`, `Pre`, `getId`).
-/

namespace GenT02n
open Pub GenNewitem GenListing Gen02n

/-- C02 (2) on the code: whatever `pub.New` as translated builds — and with it every constructor
    it calls — is a tree in which every item with an id was built from JSON served by that id's
    host (embedded and kept only under the same host, re-fetched from there otherwise); and it
    never panics. -/
theorem new_provenance (w : World) (P : Pres) (hP : P.Agrees w) (input : JVal) (source : Option U)
    (hpre : C02.Pre w input source) :
    ∃ a, GenNewitem.New (libs w) (ext w P) input source = .ok a ∧ C02.ItemOk w (Gen09.anyToItem a) := by
  obtain ⟨a, ha, ha'⟩ := new_eq w P hP input source
  exact ⟨a, ha, by rw [ha']; exact C02.new_provenance w input source hpre⟩

/-- The same for `NewTangible`, the constructor of the entries of a collection opened directly. -/
theorem newTangible_provenance (w : World) (P : Pres) (hP : P.Agrees w) (e : E) (hpre : C02.Pre w e.1 e.2) :
    ∃ t, GenNewitem.NewTangible (libs w) (ext w P) e.1 e.2 = .ok t ∧ C02.ItemOk w (Gen09.toItem t) := by
  obtain ⟨t, ht, ht'⟩ := newTangible_eq w P hP e
  refine ⟨t, ht, ?_⟩
  rw [ht']
  have := C02.new_provenance w e.1 e.2 hpre
  unfold genericItem
  cases h : Pub.new w e.1 e.2 with
  | collection c => trivial
  | failure => trivial
  | actor a => rw [h] at this; exact this
  | post p => rw [h] at this; exact this
  | activity a => rw [h] at this; exact this

/-- a post of the model is built from the object handed in -/
theorem post_obj (w : World) (o : O) (id : Option U) (p : PostM) (h : newPostFromObject w o id = .ok p) :
    p.obj = o := by
  unfold newPostFromObject at h
  cases hs : Obj.getString o "type".toList with
  | error e => rw [hs] at h; cases e <;> cases h
  | ok kind =>
    rw [hs] at h
    simp only at h
    by_cases h1 : kind = "Tombstone".toList
    · simp only [h1, if_true] at h; cases h
    · by_cases h2 : postKinds.contains kind = true
      · simp only [h1, h2, if_false, Bool.not_true, Bool.false_eq_true] at h
        by_cases h3 : (Pub.getActors w o "attributedTo".toList id).all (creatorOk id) = true
        · simp only [h3, if_true] at h
          injection h with h
          rw [← h]
        · simp only [h3, Bool.false_eq_true, if_false] at h
          cases h
      · rw [Bool.not_eq_true] at h2
        simp only [h1, h2, if_false, Bool.not_false, if_true] at h
        cases h

/-- a post the translated `NewPost` builds is built from what `FetchUnknown` accepted, under the id it accepted -/
theorem newPost_inv (w : World) (P : Pres) (hP : P.Agrees w) (input : JVal) (source : Option U) (p : PostM)
    (h : NewPost (libs w) (ext w P) input source = .ok (.ok p)) :
    fetchUnknown w input source = .ok (p.obj, p.id) := by
  obtain ⟨r, hr, hr'⟩ := newPost_eq w P hP input source
  rw [h] at hr
  injection hr with hr
  subst hr
  simp only [cls] at hr'
  unfold newPost at hr'
  cases hf : fetchUnknown w input source with
  | error e => rw [hf] at hr'; cases hr'
  | ok r =>
    obtain ⟨o, id⟩ := r
    rw [hf] at hr'
    simp only at hr'
    rw [post_obj w o id p hr'.symm, (C09.post_authors_same_host w o id p hr'.symm).1]

/-- C02 (3b) on the code: a post the translated `NewPost` shows under an id was built from an
    object that was re-fetched from the URL in the id of the first object and came from the host
    its own id names, or kept embedded under a source of the id's host, or fetched by reference
    from the id's host — a document claiming an id of another host than the one that served it is
    never shown. -/
theorem forged_rejected (w : World) (P : Pres) (hP : P.Agrees w) (input : JVal) (source : Option U)
    (p : PostM) (id : U) (h : NewPost (libs w) (ext w P) input source = .ok (.ok p)) (hid : p.id = some id) :
    (∃ o0 id0 src, (input = .obj o0 ∨ ∃ ref u src0, input = .str ref ∧ w.parse ref = some u ∧
          w.fetch (w.target source u).str = some (o0, src0)) ∧
        getId w o0 = .ok (some id0) ∧ w.fetch id0.str = some (p.obj, src) ∧
        src.host = id.host ∧ getId w p.obj = .ok (some id)) ∨
    (∃ s, source = some s ∧ s.host = id.host ∧ input = .obj p.obj) ∨
    (∃ ref src, input = .str ref ∧ src.host = id.host ∧ ∃ u, w.parse ref = some u ∧
        w.fetch (w.target source u).str = some (p.obj, src)) := by
  have := newPost_inv w P hP input source p h
  rw [hid] at this
  exact C02.forged_rejected w input source p.obj id this

/-- C09 (3) on the code: a post the translated `NewPostFromObject` builds carries the id it was
    handed, and every author shown with it lives on the host of that id (or neither has an id);
    a post with an author from elsewhere is refused (`Gen02n.forged_iff`). -/
theorem post_authors_same_host (w : World) (P : Pres) (hP : P.Agrees w) (o : O) (id : Option U) (p : PostM)
    (h : NewPostFromObject (libs w) (ext w P) o id = .ok (.ok p)) :
    p.id = id ∧ ∀ a, AorF.actor a ∈ p.creators →
      (a.id = none ∧ id = none) ∨ (∃ ai pi, a.id = some ai ∧ id = some pi ∧ ai.host = pi.host) := by
  obtain ⟨r, hr, hr'⟩ := newPostFromObject_eq w P hP o id
  rw [h] at hr
  injection hr with hr
  subst hr
  exact C09.post_authors_same_host w o id p hr'.symm

/-! ### Non-vacuity -/

def demoPres : Pres where
  Markup := Unit
  Link := Unit
  GetMarkup := fun _ _ _ => .ok ((), [])
  NewLink := fun _ => .ok ()
  NewLinkOfObject := fun _ => .ok ()
  SelectBestLink := fun _ _ => .ok (.ok ())
  SelectFirstLink := fun _ => .ok (.ok ())
  ToLower := id
  best_returns := fun _ _ => ⟨_, rfl⟩
  first_returns := fun _ => ⟨_, rfl⟩

theorem demoPres_agrees : demoPres.Agrees GenT02.demoWorld := fun _ _ _ => rfl

/-- The translated `NewPostFromObject` does build posts: a note without authors, no id. -/
example : ∃ p, NewPostFromObject (libs GenT02.demoWorld) (ext GenT02.demoWorld demoPres)
    [("type".toList, .str "Note".toList)] none = .ok (.ok p) ∧ p.creators = [] := by
  obtain ⟨r, hr, hr'⟩ := newPostFromObject_eq GenT02.demoWorld demoPres demoPres_agrees
    [("type".toList, .str "Note".toList)] none
  have hm : ∃ p, newPostFromObject GenT02.demoWorld [("type".toList, .str "Note".toList)] none = .ok p ∧ p.creators = [] :=
    ⟨_, rfl, rfl⟩
  obtain ⟨p, hp, hc⟩ := hm
  rw [hp] at hr'
  cases r with
  | error e => cases hr'
  | ok q =>
    simp only [cls, Except.ok.injEq] at hr'
    subst hr'
    exact ⟨_, hr, hc⟩

/-- … and it does refuse: an author embedded without an id under a post that has one. -/
example : ∃ e, NewPostFromObject (libs GenT02.demoWorld) (ext GenT02.demoWorld demoPres)
    [("type".toList, .str "Note".toList),
     ("attributedTo".toList, .obj [("type".toList, .str "Person".toList)])] (some ⟨['b', '2'], ['b']⟩) = .ok (.error e) ∧
    e.cls = .other := by
  obtain ⟨r, hr, hr'⟩ := newPostFromObject_eq GenT02.demoWorld demoPres demoPres_agrees
    [("type".toList, .str "Note".toList),
     ("attributedTo".toList, .obj [("type".toList, .str "Person".toList)])] (some ⟨['b', '2'], ['b']⟩)
  have hm : newPostFromObject GenT02.demoWorld [("type".toList, .str "Note".toList),
     ("attributedTo".toList, .obj [("type".toList, .str "Person".toList)])] (some ⟨['b', '2'], ['b']⟩) = .error .other := rfl
  rw [hm] at hr'
  cases r with
  | ok q => cases hr'
  | error e =>
    simp only [cls, Except.error.injEq] at hr'
    exact ⟨e, hr, hr'⟩

end GenT02n

