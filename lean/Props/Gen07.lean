import Model.Ui
import Model.GoConv
import Generated.GoUpdate
import Props.Gen18

/-
  The tie by translation for C07: `(*State).Update` of ui/ui.go — the function every key byte goes
  through — is translated from the source on every run (`extract/go2lean16.go` →
  `Generated/GoUpdate.lean`, namespace `GenUpdate`): the `loading` early return, Escape, Backspace,
  the command line, `:` and the digits, selection mode with `strconv.Atoi` and `SelectLink`, the
  fall-through into the final `switch input`, one case per key.  What a branch does beyond mode and
  buffer are calls of the parameter `env` (the other methods of `*State`, the methods of package
  pub), with the arguments the source gives them.

  Here the actions are interpreted by the model's own functions (`env`: `Ui.loadSurroundings`,
  `Ui.switchTo`, `Ui.openExternally`, `Ui.openItem`, `Ui.subcommand`, `Ui.selectLink`,
  `Link.postMedia` …; history and feed methods are the translated ones of `Generated/GoHistory.lean`
  and `GoFeed.lean`), and the theorem is

    `update_eq`:  GenUpdate.Update (env w s.context s.feeds) (enc s) k = (Ui.update w s k).map enc

  for every model state `s` and every `k`, under the one clause of the model's invariant that
  `strconv.Atoi` needs (in selection mode the buffer is a non-empty digit string).  `enc` encodes a
  model state as a translated state: modes by the numbers of the `const` block, items by the sum
  of the four types behind `pub.Tangible` (the model's fifth kind of item, a collection, which no
  feed holds, travels in the `Failure` slot: every key treats it as it treats a failure), the
  fields of a page that `Update` does not touch as `rest`.  `dec` is its inverse (`dec_enc`).

  One action needs a word: Go's `subcommand` returns an error for an unknown name and `Update`
  shows it; the model's `Ui.subcommand` has that branch of `Update` folded in.  `env.subcommand`
  therefore answers an unknown name with the error `subcommand` of ui.go builds (state unchanged)
  and is `Ui.subcommand` for `open` and `feed`; the theorem then says `Update`'s error branch ends
  where the model's third branch ends.
-/

set_option linter.unusedSimpArgs false

namespace Gen07
open Ui Pub

/-- What a page carries besides its feed (`frontier`, `children`, `basepoint`; `loadingUp` /
    `loadingDown` are false in every settled state). -/
abbrev Rest := Option T × Option Container × Nat

abbrev GT := GenUpdate.Tangible ActivityM ActorM (Option CollM) PostM
abbrev GPage := GenUpdate.Page ActivityM ActorM (Option CollM) PostM Rest
abbrev GState := GenUpdate.State ActivityM ActorM (Option CollM) PostM Rest
abbrev GEnv := GenUpdate.Env ActivityM ActorM (Option CollM) PostM Rest
abbrev GArg := GenUpdate.Arg_switchTo ActivityM ActorM (Option CollM) PostM

def encT : T → GT
  | .failure => .failure none
  | .collection c => .failure (some c)
  | .actor a => .actor a
  | .post p => .post p
  | .activity a => .activity a

def decT : GT → T
  | .failure none => .failure
  | .failure (some c) => .collection c
  | .actor a => .actor a
  | .post p => .post p
  | .activity a => .activity a

@[simp] theorem decT_encT (x : T) : decT (encT x) = x := by cases x <;> rfl

def encFeed (f : Feed.F T) : GenFeed.Feed GT :=
  ⟨fun i => (f.feed i).map encT, f.upper, f.lower, f.index⟩

def decFeed (g : GenFeed.Feed GT) : Feed.F T :=
  ⟨fun i => (g.feed i).map decT, g.upperBound, g.lowerBound, g.index⟩

@[simp] theorem decFeed_encFeed (f : Feed.F T) : decFeed (encFeed f) = f := by
  cases f with
  | mk fd u l i =>
    simp only [decFeed, encFeed, Option.map_map]
    congr 1
    funext j
    cases fd j <;> simp

def encPage (p : Ui.Page) : GPage := ⟨encFeed p.feed, (p.frontier, p.children, p.basepoint)⟩

def decPage (g : GPage) : Ui.Page :=
  { feed := decFeed g.feed, frontier := g.rest.1, children := g.rest.2.1, basepoint := g.rest.2.2 }

@[simp] theorem decPage_encPage (p : Ui.Page) : decPage (encPage p) = p := by
  cases p; simp [decPage, encPage]

def modeNum : Mode → Int
  | .loading => GenUpdate.loading
  | .normal => GenUpdate.normal
  | .command => GenUpdate.command
  | .selection => GenUpdate.selection
  | .opening => GenUpdate.opening
  | .problem => GenUpdate.problem

def modeOf (k : Int) : Mode :=
  if k = 0 then .loading else if k = 1 then .normal else if k = 2 then .command
  else if k = 3 then .selection else if k = 4 then .opening else .problem

@[simp] theorem modeOf_modeNum (m : Mode) : modeOf (modeNum m) = m := by cases m <;> rfl

def encH (h : History.H Ui.Page) : GenHistory.History GPage := ⟨h.elements.map encPage, h.index⟩

def enc (s : Ui.State) : GState := ⟨encH s.hist, modeNum s.mode, s.buffer⟩

@[simp] theorem enc_h (s : Ui.State) : (enc s).h = encH s.hist := rfl
@[simp] theorem enc_mode (s : Ui.State) : (enc s).mode = modeNum s.mode := rfl
@[simp] theorem enc_buffer (s : Ui.State) : (enc s).buffer = s.buffer := rfl

def dec (ctx : Nat) (feeds : List (Str × List Str)) (g : GState) : Ui.State :=
  { mode := modeOf g.mode, buffer := g.buffer,
    hist := ⟨g.h.elements.map decPage, g.h.index.toNat⟩, context := ctx, feeds := feeds }

theorem dec_enc (s : Ui.State) : dec s.context s.feeds (enc s) = s := by
  cases s with
  | mk m b h c f =>
    cases h with
    | mk els ix =>
      simp only [dec, enc, encH, modeOf_modeNum, List.map_map, Int.toNat_natCast]
      have : (decPage ∘ encPage) = id := by funext p; simp
      rw [this, List.map_id]

theorem dec_mk (c : Nat) (f : List (Str × List Str)) (h : History.H Ui.Page) (k : Int) (b : Str) :
    dec c f ⟨encH h, k, b⟩ = { mode := modeOf k, buffer := b, hist := h, context := c, feeds := f } := by
  cases h with
  | mk els ix =>
    simp only [dec, encH, List.map_map, Int.toNat_natCast]
    have : (decPage ∘ encPage) = id := by funext p; simp
    rw [this, List.map_id]


/-! ### Every translated state is the encoding of a model state -/

theorem encT_decT (x : GT) : encT (decT x) = x := by
  cases x with
  | failure v => cases v <;> rfl
  | _ => rfl

theorem encFeed_decFeed (g : GenFeed.Feed GT) : encFeed (decFeed g) = g := by
  cases g with
  | mk fd u l i =>
    simp only [decFeed, encFeed, Option.map_map]
    congr 1
    funext j
    cases fd j <;> simp [encT_decT]

theorem encPage_decPage (g : GPage) : encPage (decPage g) = g := by
  cases g with
  | mk f r => simp only [encPage, decPage, encFeed_decFeed]

/-- A translated state whose mode is one of the six declared and whose history index is not
    negative (it starts at 0 and `Back` decrements it only when positive) is the encoding of a
    model state: `update_eq` covers every state the code can be in. -/
theorem enc_dec (c : Nat) (f : List (Str × List Str)) (g : GState) (hm : 0 ≤ g.mode ∧ g.mode ≤ 5)
    (hi : 0 ≤ g.h.index) : enc (dec c f g) = g := by
  obtain ⟨⟨els, ix⟩, m, b⟩ := g
  have e1 : (encPage ∘ decPage) = id := by funext p; simp [encPage_decPage]
  have e2 : modeNum (modeOf m) = m := by
    have : m = 0 ∨ m = 1 ∨ m = 2 ∨ m = 3 ∨ m = 4 ∨ m = 5 := by simp only at hm; omega
    rcases this with h | h | h | h | h | h <;> subst h <;> rfl
  simp only at hi
  simp only [enc, dec, encH, List.map_map, e1, List.map_id, e2, Int.toNat_of_nonneg hi]


/-! ### The actions, interpreted by the model -/

/-- A model function on states, on translated states. -/
def lift (ctx : Nat) (feeds : List (Str × List Str)) (f : Ui.State → Except Panic Ui.State) (g : GState) :
    Except Panic GState :=
  match f (dec ctx feeds g) with
  | .error e => .error e
  | .ok s' => .ok (enc s')

/-- `(link, mediaType, present)` of a selection of the link model. -/
def triple : Option Link.Sel → Str × Option Mime.MediaType × Bool
  | some x => (x.link, some x.mt, true)
  | none => ([], none, false)

def allSome : List (Option GT) → Option (List T)
  | [] => some []
  | none :: _ => none
  | some x :: xs => (allSome xs).map (decT x :: ·)

/-- What `switchTo` gets: a nil `pub.Tangible` in an `any` is neither Tangible nor Container. -/
def argOf : GArg → Except Panic Ui.Target
  | .tangible (some x) => .ok (.item (decT x))
  | .tangible none => .error (.explicit "can't switch to non-Tangible non-Container")
  | .tangibles xs => match allSome xs with
    | some ys => .ok (.list ys)
    | none => .error .nilDeref

def targetT : Pub.Target → GT
  | .post p => .post p
  | .actor a => .actor a
  | .failure => .failure none

/-- The environment of the translated `Update`: every action is the model's own function. -/
def env (w : World) (ctx : Nat) (feeds : List (Str × List Str)) : GEnv where
  subcommand g name arg :=
    if name = "open".toList ∨ name = "feed".toList then
      match Ui.subcommand w (dec ctx feeds g) name arg with
      | .error e => .error e
      | .ok s' => .ok (enc s', none)
    else .ok (g, some ("unrecognized subcommand: ".toList ++ name))
  openInternally g link := lift ctx feeds (fun s => Ui.openItem w s (Pub.new w (.str link) none)) g
  openExternally g link _ := .ok (enc (Ui.openExternally (dec ctx feeds g) link))
  loadSurroundings g := lift ctx feeds (Ui.loadSurroundings w) g
  switchTo g a :=
    match argOf a with
    | .error e => .error e
    | .ok t => lift ctx feeds (fun s => Ui.switchTo w s t) g
  redraw _ := .ok ()
  Tangible_SelectLink x n :=
    .ok (match Ui.selectLink (decT x) n with
         | some l => (l, none, true)
         | none => ([], none, false))
  Activity_Target a := .ok (some (targetT a.target))
  Post_Creators p := .ok ((p.creators.map ofAorF).map fun x => some (encT x))
  Post_Recipients p := .ok ((p.recipients.map ofAorF).map fun x => some (encT x))
  Activity_Actor a := .ok (some (match a.actor with | .ok ac => .actor ac | .error _ => .failure none))
  Post_Media p := .ok (triple (Link.postMedia (libs w) p.kind p.obj))
  Actor_ProfilePic a := .ok (triple (Link.actorPfp (libs w) a.obj))
  Actor_Banner a := .ok (triple (Link.actorBanner (libs w) a.obj))

theorem str_empty : Go.str "" = [] := rfl

/-! ### History and feed of an encoded state -/

theorem current_encH (h : History.H Ui.Page) :
    GenHistory.Current (encH h) =
      match History.current h with
      | .error e => .error e
      | .ok p => .ok (encPage p) := by
  have := Gen18.current_eq (⟨h.elements.map encPage, h.index⟩ : History.H GPage)
  simp only [Gen18.toGenH] at this
  simp only [encH, this, History.current, List.getElem?_map]
  cases h.elements[h.index]? <;> rfl

theorem back_encH (h : History.H Ui.Page) : GenHistory.Back (encH h) = .ok (encH (History.back h)) := by
  have := Gen18.back_eq (⟨h.elements.map encPage, h.index⟩ : History.H GPage)
  simp only [Gen18.toGenH] at this
  simp only [encH, this, History.back]
  split <;> rfl

theorem forward_encH (h : History.H Ui.Page) : GenHistory.Forward (encH h) = .ok (encH (History.forward h)) := by
  have := Gen18.forward_eq (⟨h.elements.map encPage, h.index⟩ : History.H GPage)
  simp only [Gen18.toGenH] at this
  simp only [encH, this, History.forward, List.length_map]
  split <;> rfl

theorem setCurrent_encH (h : History.H Ui.Page) (p : Ui.Page) :
    GenUpdate.setCurrent (encH h) (encPage p) = encH { h with elements := h.elements.set h.index p } := by
  simp only [GenUpdate.setCurrent, encH, Int.toNat_natCast, List.map_set]

theorem feedCurrent_enc (p : Ui.Page) :
    GenFeed.Current (encPage p).feed = .ok ((Feed.current p.feed).map encT) := rfl

theorem contains_enc (f : Feed.F T) (o : Int) : GenFeed.Contains (encFeed f) o = .ok (Feed.contains f o) := rfl

theorem moveUp_enc (f : Feed.F T) : GenFeed.MoveUp (encFeed f) = .ok (encFeed (Feed.moveUp f)) := by
  simp only [GenFeed.MoveUp, Feed.moveUp, contains_enc]
  cases Feed.contains f (-1) <;> rfl

theorem moveDown_enc (f : Feed.F T) : GenFeed.MoveDown (encFeed f) = .ok (encFeed (Feed.moveDown f)) := by
  simp only [GenFeed.MoveDown, Feed.moveDown, contains_enc]
  cases Feed.contains f 1 <;> rfl

theorem moveToCenter_enc (f : Feed.F T) :
    GenFeed.MoveToCenter (encFeed f) = .ok (encFeed (Feed.moveToCenter f)) := by
  simp only [GenFeed.MoveToCenter, Feed.moveToCenter]
  have e : (encFeed f).index = f.index := rfl
  rw [e, contains_enc]
  cases Feed.contains f (-f.index) <;> rfl

/-- Unfolds the constants of the generated file and decides the tests between literals. -/
macro "pick" "[" ts:Lean.Parser.Tactic.simpLemma,* "]" : tactic =>
  `(tactic| simp only [enc_h, enc_mode, enc_buffer, modeNum, modeOf, GenUpdate.loading, GenUpdate.normal,
      GenUpdate.command, GenUpdate.selection,
      GenUpdate.opening, GenUpdate.problem, GenUpdate.enterKey, GenUpdate.escapeKey, GenUpdate.backspaceKey,
      Int.reduceEq, Char.reduceToNat, Nat.reduceEqDiff, Nat.reduceLeDiff, decide_false, decide_true, Bool.false_eq_true,
      ↓reduceIte, ne_eq, not_true_eq_false, not_false_eq_true, Bool.or_self, Bool.or_false, Bool.or_true, Bool.false_or,
      Bool.true_or, Bool.and_true, Bool.and_false, Bool.true_and, Bool.false_and, ge_iff_le, Except.map, pure,
      Except.pure, bind, Except.bind, env, lift, dec_enc, dec_mk, reduceCtorEq, str_empty, $ts,*])

theorem upd_loading (w : World) (s : Ui.State) (k : Nat) (hm : s.mode = .loading) :
    GenUpdate.Update (env w s.context s.feeds) (enc s) k = (Ui.update w s k).map enc := by
  unfold GenUpdate.Update Ui.update
  pick [hm, enc]

theorem upd_esc (w : World) (s : Ui.State) (hm : s.mode ≠ .loading) :
    GenUpdate.Update (env w s.context s.feeds) (enc s) 27 = (Ui.update w s 27).map enc := by
  unfold GenUpdate.Update Ui.update
  cases hmm : s.mode <;> first | exact absurd hmm hm | (pick [hmm, enc] <;> rfl)

theorem sliceTo_dropLast (b : Str) (hb : b ≠ []) :
    Go.sliceTo (Go.runes b) (Go.len (Go.runes b) - 1) = .ok b.dropLast := by
  have hl : 0 < b.length := List.length_pos_iff.mpr hb
  have h1 : ¬ (((b.length : Int) - 1 < 0) ∨ ((b.length : Int) - 1 > (b.length : Int))) := by omega
  have h2 : ((b.length : Int) - 1).toNat = b.length - 1 := by omega
  simp only [Go.sliceTo, Go.runes, Go.len, h1, if_false, h2, List.dropLast_eq_take]

theorem upd_backspace (w : World) (s : Ui.State) (hm : s.mode ≠ .loading) :
    GenUpdate.Update (env w s.context s.feeds) (enc s) 127 = (Ui.update w s 127).map enc := by
  unfold GenUpdate.Update Ui.update
  by_cases hb : s.buffer = []
  · cases hmm : s.mode <;> first | exact absurd hmm hm | (pick [hmm, hb, enc, List.isEmpty] <;> rfl)
  · have hb' : s.buffer.isEmpty = false := by cases hh : s.buffer <;> first | exact absurd hh hb | rfl
    by_cases hd : s.buffer.dropLast = []
    · cases hmm : s.mode <;> first
        | exact absurd hmm hm
        | (pick [hmm, hb, hb', hd, enc, sliceTo_dropLast s.buffer hb, Go.runesString, List.isEmpty_nil, true_and, and_true, and_false] <;> rfl)
    · have hd' : s.buffer.dropLast.isEmpty = false := by
        cases hh : s.buffer.dropLast <;> first | exact absurd hh hd | rfl
      cases hmm : s.mode <;> first
        | exact absurd hmm hm
        | (pick [hmm, hb, hb', hd, hd', enc, sliceTo_dropLast s.buffer hb, Go.runesString, false_and] <;> rfl)

theorem upd_colon (w : World) (s : Ui.State) (hm : s.mode ≠ .loading) (hc : s.mode ≠ .command) :
    GenUpdate.Update (env w s.context s.feeds) (enc s) 58 = (Ui.update w s 58).map enc := by
  unfold GenUpdate.Update Ui.update
  cases hmm : s.mode <;> first | exact absurd hmm hm | exact absurd hmm hc | (pick [hmm, enc] <;> rfl)

theorem digit_test (k : Nat) (h0 : 48 ≤ k) (h9 : k ≤ 57) :
    k ≠ 27 ∧ k ≠ 127 ∧ k ≠ 13 ∧ k ≠ 58 ∧ (decide (48 ≤ k) && decide (k ≤ 57)) = true := by
  refine ⟨by omega, by omega, by omega, by omega, ?_⟩
  simp [h0, h9]

theorem upd_digit (w : World) (s : Ui.State) (k : Nat) (hm : s.mode ≠ .loading) (hc : s.mode ≠ .command)
    (h0 : 48 ≤ k) (h9 : k ≤ 57) :
    GenUpdate.Update (env w s.context s.feeds) (enc s) k = (Ui.update w s k).map enc := by
  obtain ⟨k1, k2, k3, k4, k5⟩ := digit_test k h0 h9
  unfold GenUpdate.Update Ui.update
  cases hmm : s.mode <;> first
    | exact absurd hmm hm
    | exact absurd hmm hc
    | (pick [hmm, enc, k1, k2, k3, k4, k5, h0, h9, Go.byteString, List.nil_append, and_self] <;> rfl)

theorem upd_command_other (w : World) (s : Ui.State) (k : Nat) (hm : s.mode = .command)
    (h27 : k ≠ 27) (h127 : k ≠ 127) (h13 : k ≠ 13) :
    GenUpdate.Update (env w s.context s.feeds) (enc s) k = (Ui.update w s k).map enc := by
  unfold GenUpdate.Update Ui.update
  pick [hm, enc, h27, h127, h13, Go.byteString]

theorem cut_space (b : Str) :
    Go.Strings.cut [' '] b =
      if b.contains ' ' then some (b.takeWhile (· != ' '), (b.dropWhile (· != ' ')).drop 1) else none := by
  induction b with
  | nil => rfl
  | cons c t ih =>
    by_cases hc : c = ' '
    · subst hc
      simp [Go.Strings.cut, List.isPrefixOf]
    · have h1 : (' ' == c) = false := by simp [Ne.symm hc]
      have h2 : (c != ' ') = true := by simp [hc]
      simp only [Go.Strings.cut, List.isPrefixOf, h1, Bool.false_and, Bool.false_eq_true, if_false, ih,
        List.contains_cons, Bool.false_or, List.takeWhile_cons, List.dropWhile_cons, h2, if_true]
      split <;> rfl

theorem splitN_space (b : Str) :
    Go.Strings.splitN b (Go.str " ") 2 =
      match splitCommand b with
      | some na => [na.1, na.2]
      | none => [b] := by
  have e : Go.str " " = [' '] := rfl
  have e2 : ((2 : Int) = 0) = False := by simp
  have e3 : ((2 : Int) < 0) = False := by simp
  have e4 : ([' '] = ([] : Str)) = False := by simp
  have e5 : (2 : Int).toNat - 1 = 1 := rfl
  simp only [Go.Strings.splitN, e, e2, e3, e4, e5, if_false, Go.Strings.splitAux, cut_space, splitCommand]
  by_cases hc : b.contains ' ' = true
  · simp only [hc, if_true]
  · simp only [hc, Bool.false_eq_true, if_false]

theorem upd_command_enter (w : World) (s : Ui.State) (hm : s.mode = .command) :
    GenUpdate.Update (env w s.context s.feeds) (enc s) 13 = (Ui.update w s 13).map enc := by
  unfold GenUpdate.Update Ui.update
  pick [hm, splitN_space]
  cases hsp : splitCommand s.buffer with
  | none => pick [enc, hm, Go.len, List.length_cons, List.length_nil]; rfl
  | some na =>
    obtain ⟨name, arg⟩ := na
    have i0 : Go.index [name, arg] 0 = .ok name := rfl
    have i1 : Go.index [name, arg] 1 = .ok arg := rfl
    by_cases hn : name = "open".toList ∨ name = "feed".toList
    · pick [Go.len, List.length_cons, List.length_nil, i0, i1, hn]
      cases Ui.subcommand w s name arg <;> rfl
    · have hs : Ui.subcommand w s name arg = .ok { s with mode := .normal, buffer := [] } := by
        simp only [not_or] at hn
        simp only [Ui.subcommand, hn.1, hn.2, if_false]
      pick [Go.len, List.length_cons, List.length_nil, i0, i1, hn, hs, Option.isSome, Go.deref, enc]
      rfl

/-! ### `strconv.Atoi` on what selection mode holds -/

def val (cs : List Char) (n : Nat) : Nat := cs.foldl (fun acc c => 10 * acc + (c.toNat - '0'.toNat)) n

theorem val_ge (cs : List Char) (n : Nat) : n ≤ val cs n := by
  induction cs generalizing n with
  | nil => exact Nat.le_refl n
  | cons c cs ih =>
    have := ih (10 * n + (c.toNat - '0'.toNat))
    simp only [val, List.foldl_cons] at this ⊢
    omega

theorem digitsLoop_digits (cs : List Char) (hd : ∀ c ∈ cs, c.isDigit = true) (n : Nat) (hn : n < 2 ^ 64) :
    Go.Strconv.digitsLoop cs n = if val cs n < 2 ^ 64 then .ok (val cs n) else .error .range := by
  induction cs generalizing n with
  | nil => simp [Go.Strconv.digitsLoop, val, hn]
  | cons c cs ih =>
    have hc : c.isDigit = true := hd c (by simp)
    have hcs : ∀ c ∈ cs, c.isDigit = true := fun x hx => hd x (by simp [hx])
    have hv : val (c :: cs) n = val cs (n * 10 + (c.toNat - '0'.toNat)) := by
      simp only [val, List.foldl_cons, Nat.mul_comm]
    have e64 : (2 : Nat) ^ 64 = 18446744073709551616 := by decide
    have ecut : ((2 : Nat) ^ 64 - 1) / 10 + 1 = 1844674407370955162 := by decide
    have hge := val_ge cs (n * 10 + (c.toNat - '0'.toNat))
    simp only [Go.Strconv.digitsLoop, hc, if_true, hv, ecut]
    by_cases h1 : n ≥ 1844674407370955162
    · have : ¬ val cs (n * 10 + (c.toNat - '0'.toNat)) < 2 ^ 64 := by omega
      simp only [h1, if_true, this, if_false]
    · by_cases h2 : n * 10 + (c.toNat - '0'.toNat) ≥ 2 ^ 64
      · have : ¬ val cs (n * 10 + (c.toNat - '0'.toNat)) < 2 ^ 64 := by omega
        simp only [h1, h2, if_true, if_false, this]
      · simp only [h1, h2, if_false]
        exact ih hcs _ (by omega)

theorem atoi_digits (b : Str) (hne : b ≠ []) (hd : ∀ ch ∈ b, ch.isDigit = true) :
    Go.Strconv.atoi b =
      match Ui.atoi b with
      | some n => (n, none)
      | none => (2 ^ 63 - 1, some .range) := by
  cases b with
  | nil => exact absurd rfl hne
  | cons c t =>
    have hc : c.isDigit = true := hd c (by simp)
    have hm : c ≠ '-' := by intro h; subst h; exact absurd hc (by decide)
    have hp : c ≠ '+' := by intro h; subst h; exact absurd hc (by decide)
    have e63 : (2 : Nat) ^ 63 = 9223372036854775808 := by decide
    have e64 : (2 : Nat) ^ 64 = 18446744073709551616 := by decide
    have hv : Ui.atoi (c :: t) = if val (c :: t) 0 < 2 ^ 63 then some ((val (c :: t) 0 : Nat) : Int) else none := rfl
    simp only [Go.Strconv.atoi, List.head?_cons, Option.some.injEq, hm, hp, or_self, if_false, decide_false,
      reduceCtorEq, digitsLoop_digits (c :: t) hd 0 (by omega), hv]
    by_cases h1 : val (c :: t) 0 < 2 ^ 63
    · have h2 : val (c :: t) 0 < 2 ^ 64 := by omega
      have h3 : ¬ val (c :: t) 0 ≥ 2 ^ 63 := by omega
      simp [h1, h2, h3]
    · by_cases h2 : val (c :: t) 0 < 2 ^ 64
      · have h3 : val (c :: t) 0 ≥ 2 ^ 63 := by omega
        simp [h1, h2, h3]
      · simp [h1, h2]

theorem upd_select (w : World) (s : Ui.State) (k : Nat) (hm : s.mode = .selection) (hk : k = 46 ∨ k = 13)
    (hne : s.buffer ≠ []) (hd : ∀ ch ∈ s.buffer, ch.isDigit = true) :
    GenUpdate.Update (env w s.context s.feeds) (enc s) k = (Ui.update w s k).map enc := by
  unfold GenUpdate.Update Ui.update
  have ha := atoi_digits s.buffer hne hd
  rcases hk with hk | hk <;> subst hk <;> pick [hm, current_encH, currentItem, false_and, and_true, true_or, or_true, or_false] <;>
    (cases hcur : History.current s.hist with
     | error e => rfl
     | ok page =>
       simp only [feedCurrent_enc]
       cases hit : Feed.current page.feed with
       | none =>
         cases hat : Ui.atoi s.buffer <;> simp [enc, modeNum, GenUpdate.normal]
       | some x =>
         cases hat : Ui.atoi s.buffer with
         | none => simp [ha, hat, enc, modeNum, GenUpdate.normal]
         | some n =>
           simp only [ha, hat, Option.map_some, Option.isNone_none, Option.isSome_some, Bool.and_self, if_true, Go.deref,
             decT_encT]
           cases hsl : selectLink x n with
           | none => simp [enc, modeNum, GenUpdate.normal]
           | some l =>
             simp only [Bool.not_true, Bool.false_eq_true, if_false, Ui.openExternally, enc, modeNum, GenUpdate.opening]
             try (first | rfl | (cases openItem w s (new w (JVal.str l) none) <;> rfl)))

@[simp] theorem encPage_feed (p : Ui.Page) : (encPage p).feed = encFeed p.feed := rfl
@[simp] theorem encPage_rest (p : Ui.Page) : (encPage p).rest = (p.frontier, p.children, p.basepoint) := rfl

theorem mk_encPage (f : Feed.F T) (p : Ui.Page) :
    (⟨encFeed f, (p.frontier, p.children, p.basepoint)⟩ : GPage) = encPage { p with feed := f } := rfl

theorem nodigit (k : Nat) (hd : ¬ (48 ≤ k ∧ k ≤ 57)) : (decide (48 ≤ k) && decide (k ≤ 57)) = false := by
  by_cases h : 48 ≤ k
  · have : ¬ k ≤ 57 := fun h2 => hd ⟨h, h2⟩
    simp [h, this]
  · simp [h]

@[simp] theorem encT_post (p : PostM) : encT (.post p) = .post p := rfl
@[simp] theorem encT_actor (p : ActorM) : encT (.actor p) = .actor p := rfl
@[simp] theorem encT_activity (p : ActivityM) : encT (.activity p) = .activity p := rfl
@[simp] theorem encT_failure : encT .failure = .failure none := rfl
@[simp] theorem encT_collection (c : CollM) : encT (.collection c) = .failure (some c) := rfl

theorem allSome_map (xs : List T) : allSome (xs.map fun x => some (encT x)) = some xs := by
  induction xs with
  | nil => rfl
  | cons x xs ih => simp [allSome, ih]

/-- The keys that move inside the current page's feed (`k`, `j`, `g`). -/
macro "movekey" : tactic =>
  `(tactic| (
    unfold GenUpdate.Update Ui.keySwitch
    rename_i hm
    rcases hm with hmm | hmm | hmm <;>
    (pick [hmm, current_encH, withFeed, currentItem]
     cases hcur : History.current _ with
     | error e => rfl
     | ok page =>
       simp only [encPage_feed, encPage_rest, moveUp_enc, moveDown_enc, moveToCenter_enc, mk_encPage, setCurrent_encH,
         dec_mk, modeOf, Ui.setCurrent, hmm, Int.reduceEq, ↓reduceIte, enc, modeNum, GenUpdate.normal,
         GenUpdate.opening, GenUpdate.problem]
       try (first
         | rfl
         | (generalize loadSurroundings _ _ = r; cases r <;> rfl)))))

/-- The keys that act on the highlighted item (space, `c`, `r`, `a`, `o`, `p`, `b`). -/
macro "itemkey" : tactic =>
  `(tactic| (
    unfold GenUpdate.Update Ui.keySwitch
    rename_i hm
    rcases hm with hmm | hmm | hmm <;>
    (pick [hmm, current_encH, withFeed, currentItem, mediaOf, pictureOf, unwrapPost]
     cases hcur : History.current _ with
     | error e => rfl
     | ok page =>
       simp only [feedCurrent_enc]
       cases hit : Feed.current page.feed with
       | none => simp
       | some x =>
         cases x with
         | activity a =>
           cases hta : a.target <;> cases hact : a.actor <;>
             simp only [encT_post, encT_actor, encT_activity, encT_failure, encT_collection, targetT, hta, hact,
               Option.map_some, Option.isSome_some, argOf, allSome_map, decT, true_or, or_true, or_false, false_or,
               if_true, if_false, Bool.false_eq_true, decide_true, decide_false] <;>
             (try (generalize switchTo _ _ _ = r; cases r <;> rfl)) <;>
             (try (generalize Link.postMedia _ _ _ = r; cases r <;> rfl)) <;>
             (try rfl)
         | _ =>
           simp only [encT_post, encT_actor, encT_activity, encT_failure, encT_collection, targetT,
               Option.map_some, Option.isSome_some, argOf, allSome_map, decT, true_or, or_true, or_false, false_or,
               if_true, if_false, Bool.false_eq_true, decide_true, decide_false] <;>
             (try (generalize switchTo _ _ _ = r; cases r <;> rfl)) <;>
             (try (generalize Link.postMedia _ _ _ = r; cases r <;> rfl)) <;>
             (try (generalize Link.actorPfp _ _ = r; cases r <;> rfl)) <;>
             (try (generalize Link.actorBanner _ _ = r; cases r <;> rfl)) <;>
             (try rfl))))

section Switch
variable (w : World) (s : Ui.State) (hm : s.mode = .normal ∨ s.mode = .opening ∨ s.mode = .problem)
include hm

theorem sw_k : GenUpdate.Update (env w s.context s.feeds) (enc s) 107 = (Ui.keySwitch w s 107).map enc := by movekey
theorem sw_j : GenUpdate.Update (env w s.context s.feeds) (enc s) 106 = (Ui.keySwitch w s 106).map enc := by movekey
theorem sw_g : GenUpdate.Update (env w s.context s.feeds) (enc s) 103 = (Ui.keySwitch w s 103).map enc := by movekey
theorem sw_space : GenUpdate.Update (env w s.context s.feeds) (enc s) 32 = (Ui.keySwitch w s 32).map enc := by itemkey
theorem sw_c : GenUpdate.Update (env w s.context s.feeds) (enc s) 99 = (Ui.keySwitch w s 99).map enc := by itemkey
theorem sw_r : GenUpdate.Update (env w s.context s.feeds) (enc s) 114 = (Ui.keySwitch w s 114).map enc := by itemkey
theorem sw_a : GenUpdate.Update (env w s.context s.feeds) (enc s) 97 = (Ui.keySwitch w s 97).map enc := by itemkey
theorem sw_o : GenUpdate.Update (env w s.context s.feeds) (enc s) 111 = (Ui.keySwitch w s 111).map enc := by itemkey
theorem sw_p : GenUpdate.Update (env w s.context s.feeds) (enc s) 112 = (Ui.keySwitch w s 112).map enc := by itemkey
theorem sw_b : GenUpdate.Update (env w s.context s.feeds) (enc s) 98 = (Ui.keySwitch w s 98).map enc := by itemkey

theorem sw_h : GenUpdate.Update (env w s.context s.feeds) (enc s) 104 = (Ui.keySwitch w s 104).map enc := by
  unfold GenUpdate.Update Ui.keySwitch
  rcases hm with hmm | hmm | hmm <;> pick [hmm, back_encH, enc] <;> rfl

theorem sw_l : GenUpdate.Update (env w s.context s.feeds) (enc s) 108 = (Ui.keySwitch w s 108).map enc := by
  unfold GenUpdate.Update Ui.keySwitch
  rcases hm with hmm | hmm | hmm <;> pick [hmm, forward_encH, enc] <;> rfl

theorem sw_other (k : Nat) (h27 : k ≠ 27) (h127 : k ≠ 127) (h58 : k ≠ 58) (hd : ¬ (48 ≤ k ∧ k ≤ 57))
    (c1 : k ≠ 107) (c2 : k ≠ 106) (c3 : k ≠ 103) (c4 : k ≠ 104) (c5 : k ≠ 108) (c6 : k ≠ 32) (c7 : k ≠ 99)
    (c8 : k ≠ 114) (c9 : k ≠ 97) (c10 : k ≠ 111) (c11 : k ≠ 112) (c12 : k ≠ 98) :
    GenUpdate.Update (env w s.context s.feeds) (enc s) k = (Ui.keySwitch w s k).map enc := by
  have hd' := nodigit k hd
  unfold GenUpdate.Update Ui.keySwitch
  rcases hm with hmm | hmm | hmm <;>
    pick [hmm, h27, h127, h58, hd', c1, c2, c3, c4, c5, c6, c7, c8, c9, c10, c11, c12, or_self, enc] <;> rfl

end Switch

/-- Every key of the final `switch`, and every byte that is none of them. -/
theorem upd_switch (w : World) (s : Ui.State) (k : Nat)
    (hm : s.mode = .normal ∨ s.mode = .opening ∨ s.mode = .problem)
    (h27 : k ≠ 27) (h127 : k ≠ 127) (h58 : k ≠ 58) (hd : ¬ (48 ≤ k ∧ k ≤ 57)) :
    GenUpdate.Update (env w s.context s.feeds) (enc s) k = (Ui.keySwitch w s k).map enc := by
  by_cases c1 : k = 107; · subst c1; exact sw_k w s hm
  by_cases c2 : k = 106; · subst c2; exact sw_j w s hm
  by_cases c3 : k = 103; · subst c3; exact sw_g w s hm
  by_cases c4 : k = 104; · subst c4; exact sw_h w s hm
  by_cases c5 : k = 108; · subst c5; exact sw_l w s hm
  by_cases c6 : k = 32; · subst c6; exact sw_space w s hm
  by_cases c7 : k = 99; · subst c7; exact sw_c w s hm
  by_cases c8 : k = 114; · subst c8; exact sw_r w s hm
  by_cases c9 : k = 97; · subst c9; exact sw_a w s hm
  by_cases c10 : k = 111; · subst c10; exact sw_o w s hm
  by_cases c11 : k = 112; · subst c11; exact sw_p w s hm
  by_cases c12 : k = 98; · subst c12; exact sw_b w s hm
  exact sw_other w s hm k h27 h127 h58 hd c1 c2 c3 c4 c5 c6 c7 c8 c9 c10 c11 c12

/-- In selection mode a key that is neither special nor a digit nor `.` nor Enter resets the mode
    and the buffer and is then handled as in normal mode (the fall-through of the source), whatever
    the actions are. -/
theorem fallthrough (e : GEnv) (g : GState) (k : Nat) (hm : g.mode = GenUpdate.selection)
    (h27 : k ≠ 27) (h127 : k ≠ 127) (h58 : k ≠ 58) (hd : ¬ (48 ≤ k ∧ k ≤ 57)) (h46 : k ≠ 46) (h13 : k ≠ 13) :
    GenUpdate.Update e g k = GenUpdate.Update e { g with mode := GenUpdate.normal, buffer := [] } k := by
  have hd' := nodigit k hd
  unfold GenUpdate.Update
  simp only [hm, GenUpdate.loading, GenUpdate.normal, GenUpdate.command, GenUpdate.selection,
      GenUpdate.enterKey, GenUpdate.escapeKey, GenUpdate.backspaceKey,
      Int.reduceEq, Char.reduceToNat, decide_false, decide_true, Bool.false_eq_true,
      ↓reduceIte, Bool.or_self, ge_iff_le, str_empty, h27, h127, h58, hd', h46, h13]

/-- The model's side of the same: outside the three modes that have a branch of their own, and
    for a key that is neither special nor `:` nor a digit, `update` is `keySwitch`. -/
theorem update_plain (w : World) (s : Ui.State) (k : Nat)
    (hm : s.mode = .normal ∨ s.mode = .opening ∨ s.mode = .problem)
    (h27 : k ≠ 27) (h127 : k ≠ 127) (h58 : k ≠ 58) (hd : ¬ (48 ≤ k ∧ k ≤ 57)) :
    Ui.update w s k = Ui.keySwitch w s k := by
  unfold Ui.update
  rcases hm with hmm | hmm | hmm <;>
    simp only [hmm, reduceCtorEq, if_false, h27, h127, h58, Char.reduceToNat, hd]

theorem update_fall (w : World) (s : Ui.State) (k : Nat) (hm : s.mode = .selection)
    (h27 : k ≠ 27) (h127 : k ≠ 127) (h58 : k ≠ 58) (hd : ¬ (48 ≤ k ∧ k ≤ 57)) (h46 : k ≠ 46) (h13 : k ≠ 13) :
    Ui.update w s k = Ui.keySwitch w { s with mode := .normal, buffer := [] } k := by
  unfold Ui.update
  simp only [hm, reduceCtorEq, if_false, if_true, h27, h127, h58, h46, h13, Char.reduceToNat, hd, or_self]

/-- **The translated `Update` is the model's `update`**, the actions being the model's own
    functions (`env`): on every state of the model — every mode, every history (also the empty
    one: the panic of `Current()`), every feed, every highlighted item — and every key byte, the
    translated code run on the encoded state ends in the encoding of the state `Ui.update`
    computes, or in the same panic.  The one hypothesis is the part of the model's invariant
    (`Ui.Inv`) that `strconv.Atoi` needs: in selection mode the buffer is a non-empty digit string
    (on other strings the model's `atoi` is not `strconv.Atoi`). -/
theorem update_eq (w : World) (s : Ui.State) (k : Nat)
    (hsel : s.mode = .selection → s.buffer ≠ [] ∧ ∀ ch ∈ s.buffer, ch.isDigit = true) :
    GenUpdate.Update (env w s.context s.feeds) (enc s) k = (Ui.update w s k).map enc := by
  by_cases hl : s.mode = .loading
  · exact upd_loading w s k hl
  by_cases h27 : k = 27
  · subst h27; exact upd_esc w s hl
  by_cases h127 : k = 127
  · subst h127; exact upd_backspace w s hl
  by_cases hc : s.mode = .command
  · by_cases h13 : k = 13
    · subst h13; exact upd_command_enter w s hc
    · exact upd_command_other w s k hc h27 h127 h13
  by_cases h58 : k = 58
  · subst h58; exact upd_colon w s hl hc
  by_cases hd : 48 ≤ k ∧ k ≤ 57
  · exact upd_digit w s k hl hc hd.1 hd.2
  by_cases hs : s.mode = .selection
  · by_cases hk : k = 46 ∨ k = 13
    · exact upd_select w s k hs hk (hsel hs).1 (hsel hs).2
    · simp only [not_or] at hk
      rw [fallthrough _ _ k (by rw [enc_mode, hs]; rfl) h27 h127 h58 hd hk.1 hk.2,
        update_fall w s k hs h27 h127 h58 hd hk.1 hk.2]
      exact upd_switch w { s with mode := .normal, buffer := [] } k (.inl rfl) h27 h127 h58 hd
  · have hm : s.mode = .normal ∨ s.mode = .opening ∨ s.mode = .problem := by
      cases hmm : s.mode <;> simp_all
    rw [update_plain w s k hm h27 h127 h58 hd]
    exact upd_switch w s k hm h27 h127 h58 hd

end Gen07
