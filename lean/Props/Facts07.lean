import Model
import Generated.Facts

/-
  The key dispatch of `ui.State.Update`, read from the source on every run (`Generated.keymap`,
  `Generated.uiConstants`, `Generated.inputTests`), is the one the model `Ui.update` implements and
  the C07 theorems describe (`k` up, `j` down, `g` centre, `h` back, `l` forward, space opens,
  `c`/`r`/`a` creators/recipients/actor, `o`/`p`/`b` media/picture/banner).  Calls of the pure
  accessor `Current` are dropped before comparing, so that hoisting `s.h.Current().feed.Current()`
  into a variable does not disturb the comparison.
-/

namespace Facts07

def essential (calls : List String) : List String := calls.filter (· != "Current")

/-- Which key does what, as written in `switch input`. -/
theorem keymap_is_the_documented_one :
    Generated.keymap.map (fun kc => (kc.1, essential kc.2)) =
      [(["'k'"], ["MoveUp", "loadSurroundings"]),
       (["'j'"], ["MoveDown", "loadSurroundings"]),
       (["'g'"], ["MoveToCenter"]),
       (["'h'"], ["Back"]),
       (["'l'"], ["Forward"]),
       (["' '"], ["switchTo"]),
       (["'c'"], ["as *pub.Activity", "Target", "as *pub.Post", "Creators", "switchTo"]),
       (["'r'"], ["as *pub.Activity", "Target", "as *pub.Post", "Recipients", "switchTo"]),
       (["'a'"], ["as *pub.Activity", "Actor", "switchTo"]),
       (["'o'"], ["as *pub.Activity", "Target", "as *pub.Post", "Media", "openExternally"]),
       (["'p'"], ["as *pub.Actor", "ProfilePic", "openExternally"]),
       (["'b'"], ["as *pub.Actor", "Banner", "openExternally"])] := by decide

/-- The special keys are the codes the model tests for (`Ui.update`: 27, 127, 13). -/
theorem special_keys : Generated.uiConstants = ["enterKey='\\r'", "escapeKey=27", "backspaceKey=127"] := by decide

/-- Before the dispatch, `input` is only compared with Escape, Backspace, Enter, `:`, the digit
    range and `.` — in this order (Escape and Backspace first, in every mode but loading). -/
theorem pre_dispatch_tests :
    Generated.inputTests =
      ["input==escapeKey", "input==backspaceKey", "input==enterKey", "input==':'", "input>='0'",
       "input<='9'", "input=='.'", "input==enterKey", "input=='.'", "input==enterKey"] := by decide

/-- Every key of the dispatch is a single printable ASCII character, distinct from the others. -/
theorem keys_distinct : (Generated.keymap.map (·.1)).flatten.Nodup := by decide

end Facts07
