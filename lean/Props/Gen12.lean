import Model.Link
import Model.Present
import Generated.GoLink
import Generated.GoSelect
import Props.Gen14
import Props.Gen20

/-
  The tie by translation for C12 / C20 (the numbers next to links): `Generated/GoSelect.lean` is
  produced by `extract/go2lean11.go` on every run from pub/post.go (`SelectLink`, `Media`,
  `supplement`), pub/activity.go (`SelectLink`), pub/actor.go (`SelectLink`, `ProfilePic`,
  `Banner`) and pub/failure.go (`SelectLink`, reached through the `Tangible` interface).  The
  theorems below say that each translated method computes what the hand-written model computes
  (`Select.post` / `Link.postSelectOf` / `Link.postSelect`, `Link.postMedia`, `Link.actorSelect`,
  `Link.actorPfp`, `Link.actorBanner`, `Link.itemSelect`, `Present.PostV.supplement`) and, for the
  ones that index a slice or call `style.LinkBlock`, that they never panic (`… = .ok …`).

  The translated structs hold the fields the constructors filled; the model's functions of
  `Model/Link.lean` start from the document.  The theorems that mention the document (`o`) carry
  the hypothesis that the field holds what the model computes for it (for instance
  `p.attachments = (Link.links L o "attachment").map (List.map back)`); the theorems without `o`
  are about the struct alone.  `Present.PostV` carries error texts where the translation carries
  error classes: `fld E` gives every error of class `e` the text `E e`, for any `E`.
-/

namespace Gen12
open Obj Gen20 Str

/-! ### Slices -/

theorem index_nat {α : Type} (xs : List α) (i : Int) (h0 : ¬ i < 0) (x : α) (hx : xs[i.toNat]? = some x) :
    Go.index xs i = .ok x := by
  simp only [Go.index, h0, if_false, hx]

/-- The attachments a post holds: the loaded list, or the empty slice next to an error. -/
def attsOf (p : GenSelect.Post) : List GenLink.Link := Go.pairVal p.attachments

/-- What `SelectLink` returns for each choice of the selection model. -/
def pick : Select.Choice GenLink.Link → Option (Str × Mime.MediaType)
  | .none => none
  | .body l => some (l, Mime.unknown)
  | .attachment a => GenLink.Select a

/-! ### `Post.SelectLink` -/

/-- The translated `Post.SelectLink` is the selection model `Select.post` (the one the C12 theorems
    are about) over the post's body links and attachments; it never panics. -/
theorem post_selectLink_choice (p : GenSelect.Post) (n : Int) :
    p.SelectLink n = .ok (pick (Select.post p.bodyLinks (attsOf p) n)) := by
  unfold GenSelect.Post.SelectLink Select.post
  simp only [Go.len]
  by_cases h0 : n - 1 < 0
  · simp only [h0, decide_true, if_true]; rfl
  · simp only [h0, decide_false, if_false, Bool.false_eq_true]
    by_cases h1 : (p.bodyLinks.length : Int) > n - 1
    · have hlt : (n - 1).toNat < p.bodyLinks.length := by omega
      have hx : p.bodyLinks[(n - 1).toNat]? = some (p.bodyLinks[(n - 1).toNat]) := List.getElem?_eq_getElem hlt
      simp only [h1, decide_true, if_true, index_nat _ _ h0 _ hx, hx]; rfl
    · have hge : p.bodyLinks.length ≤ (n - 1).toNat := by omega
      have hx : p.bodyLinks[(n - 1).toNat]? = none := List.getElem?_eq_none hge
      simp only [h1, decide_false, if_false, Bool.false_eq_true, hx]
      have hidx : (n - 1 - (p.bodyLinks.length : Int)).toNat = (n - 1).toNat - p.bodyLinks.length := by omega
      have hnn : ¬ (n - 1 - (p.bodyLinks.length : Int)) < 0 := by omega
      show (if decide (((attsOf p).length : Int) > n - 1 - (p.bodyLinks.length : Int)) = true then _ else _) = _
      by_cases h2 : ((attsOf p).length : Int) > n - 1 - (p.bodyLinks.length : Int)
      · have hlt : (n - 1).toNat - p.bodyLinks.length < (attsOf p).length := by omega
        have hy : (attsOf p)[(n - 1).toNat - p.bodyLinks.length]? = some ((attsOf p)[(n - 1).toNat - p.bodyLinks.length]) :=
          List.getElem?_eq_getElem hlt
        have hi : Go.index (attsOf p) (n - 1 - (p.bodyLinks.length : Int)) = .ok ((attsOf p)[(n - 1).toNat - p.bodyLinks.length]) :=
          index_nat _ _ hnn _ (by rw [hidx]; exact hy)
        simp only [h2, decide_true, if_true, hy]
        show (match Go.index (attsOf p) (n - 1 - (p.bodyLinks.length : Int)) with
          | .error e => (.error e : Except Panic (Option (Str × Mime.MediaType)))
          | .ok x => .ok (GenLink.Select x)) = _
        rw [hi]; rfl
      · have hge : (attsOf p).length ≤ (n - 1).toNat - p.bodyLinks.length := by omega
        have hy : (attsOf p)[(n - 1).toNat - p.bodyLinks.length]? = none := List.getElem?_eq_none hge
        simp only [h2, decide_false, if_false, Bool.false_eq_true, hy]; rfl

/-- … hence the model's `Link.postSelectOf` on the same lists. -/
theorem post_selectLink_of (p : GenSelect.Post) (n : Int) :
    (p.SelectLink n).map (Option.map sel) = .ok (Link.postSelectOf p.bodyLinks ((attsOf p).map conv) n) := by
  rw [post_selectLink_choice]
  unfold Link.postSelectOf Select.post
  simp only [Except.map]
  by_cases h0 : n - 1 < 0
  · simp only [h0, if_true]; rfl
  · simp only [h0, if_false]
    cases hb : p.bodyLinks[(n - 1).toNat]? with
    | some l => rfl
    | none =>
      simp only [List.getElem?_map]
      cases ha : (attsOf p)[(n - 1).toNat - p.bodyLinks.length]? with
      | none => rfl
      | some a =>
        simp only [Option.map_some, pick]
        exact congrArg Except.ok (select_eq a)

/-- … and `Link.postSelect` on the document the attachments were loaded from. -/
theorem post_selectLink_eq {Time : Type} (L : Libs Time Link.Url) (o : List (Str × JVal)) (p : GenSelect.Post)
    (h : p.attachments = (Link.links L o "attachment".toList).map (List.map back)) (n : Int) :
    (p.SelectLink n).map (Option.map sel) = .ok (Link.postSelect L p.bodyLinks o n) := by
  rw [post_selectLink_of]
  have : (attsOf p).map conv = (match Link.links L o "attachment".toList with | .ok ls => ls | .error _ => []) := by
    unfold attsOf
    rw [h]
    cases Link.links L o "attachment".toList with
    | error e => rfl
    | ok ls =>
      show (ls.map back).map conv = ls
      rw [List.map_map]
      have : conv ∘ back = id := by funext t; rfl
      rw [this, List.map_id]
  rw [this]; rfl

/-! ### `Post.Media` -/

theorem post_media_struct (p : GenSelect.Post) :
    p.Media.map sel = match p.media with
      | .error _ => none
      | .ok l => if Link.isMediaKind p.kind then Link.selectWithDefault (conv l) (Mime.unknownSubtype (Link.lower p.kind))
                 else Link.select (conv l) := by
  unfold GenSelect.Post.Media
  cases p.media with
  | error e => rfl
  | ok l =>
    show Option.map sel (if Link.isMediaKind p.kind = true then _ else _) = _
    by_cases hk : Link.isMediaKind p.kind = true
    · simp only [hk, if_true]; exact selectWithDefault_eq l _
    · simp only [hk, if_false, Bool.false_eq_true]; exact select_eq l

theorem post_media_eq {Time : Type} (L : Libs Time Link.Url) (o : List (Str × JVal)) (p : GenSelect.Post)
    (h : p.media = (Link.postMediaLink L p.kind o).map back) :
    p.Media.map sel = Link.postMedia L p.kind o := by
  rw [post_media_struct, h]
  unfold Link.postMedia
  cases Link.postMediaLink L p.kind o with
  | error e => rfl
  | ok l => rfl

/-! ### `Actor.SelectLink`, `ProfilePic`, `Banner` -/

theorem actor_selectLink_eq (a : GenSelect.Actor) (n : Int) :
    (a.SelectLink n).map (Option.map sel) = .ok (Link.actorSelect a.bioLinks n) := by
  unfold GenSelect.Actor.SelectLink Link.actorSelect Select.actor
  simp only [Go.len]
  by_cases h0 : n - 1 < 0
  · simp only [h0, decide_true, if_true]; rfl
  · simp only [h0, decide_false, if_false, Bool.false_eq_true]
    by_cases h1 : (a.bioLinks.length : Int) ≤ n - 1
    · have hge : a.bioLinks.length ≤ (n - 1).toNat := by omega
      have hx : a.bioLinks[(n - 1).toNat]? = none := List.getElem?_eq_none hge
      simp only [h1, decide_true, if_true, hx]; rfl
    · have hlt : (n - 1).toNat < a.bioLinks.length := by omega
      have hx : a.bioLinks[(n - 1).toNat]? = some (a.bioLinks[(n - 1).toNat]) := List.getElem?_eq_getElem hlt
      simp only [h1, decide_false, if_false, Bool.false_eq_true, index_nat _ _ h0 _ hx, hx]; rfl

/-- `getBestLink(o, key, "image")` as the model computes it. -/
def bestImage {Time : Type} (L : Libs Time Link.Url) (o : List (Str × JVal)) (key : Str) : R Link.T :=
  match Link.links L o key with
  | .error e => .error e
  | .ok ls => Link.selectBest ls "image".toList

theorem image_eq {Time : Type} (L : Libs Time Link.Url) (o : List (Str × JVal)) (key : Str) (r : R GenLink.Link)
    (h : r = (bestImage L o key).map back) :
    (match r with
      | .error _ => none
      | .ok l => GenLink.SelectWithDefaultMediaType l (Mime.unknownSubtype (Go.str "image"))).map sel =
      Link.actorImage L o key := by
  subst h
  unfold bestImage Link.actorImage
  cases Link.links L o key with
  | error e => rfl
  | ok ls =>
    dsimp only
    cases Link.selectBest ls "image".toList with
    | error e => rfl
    | ok l => exact selectWithDefault_eq (back l) _

theorem actor_profilePic_eq {Time : Type} (L : Libs Time Link.Url) (o : List (Str × JVal)) (a : GenSelect.Actor)
    (h : a.pfp = (bestImage L o "icon".toList).map back) : a.ProfilePic.map sel = Link.actorPfp L o :=
  image_eq L o _ a.pfp h

theorem actor_banner_eq {Time : Type} (L : Libs Time Link.Url) (o : List (Str × JVal)) (a : GenSelect.Actor)
    (h : a.banner = (bestImage L o "image".toList).map back) : a.Banner.map sel = Link.actorBanner L o :=
  image_eq L o _ a.banner h

/-! ### `Activity.SelectLink` and the dispatch through `Tangible` -/

mutual
  /-- What the selection model needs to know of a translated item. -/
  def itemOf : GenSelect.Tangible → Link.Item
    | .activity a => .activity (targetOf a)
    | .actor a => .actor a.bioLinks
    | .failure _ => .failure
    | .post p => .post p.bodyLinks ((attsOf p).map conv)
  /-- … of an activity's target. -/
  def targetOf : GenSelect.Activity → Link.Item
    | .mk t => itemOf t
end

mutual
  /-- `x.SelectLink(n)` for any item `x`: the model's `Link.itemSelect`; it never panics. -/
  theorem tangible_selectLink_eq : ∀ (t : GenSelect.Tangible) (n : Int),
      (GenSelect.Tangible.SelectLink t n).map (Option.map sel) = .ok (Link.itemSelect (itemOf t) n)
    | .activity a, n => by
      rw [GenSelect.Tangible.SelectLink, itemOf, Link.itemSelect]; exact activity_selectLink_eq a n
    | .actor a, n => by
      rw [GenSelect.Tangible.SelectLink, itemOf, Link.itemSelect]; exact actor_selectLink_eq a n
    | .failure f, n => by
      rw [GenSelect.Tangible.SelectLink, itemOf, Link.itemSelect]; rfl
    | .post p, n => by
      rw [GenSelect.Tangible.SelectLink, itemOf, Link.itemSelect]; exact post_selectLink_of p n
  /-- `Activity.SelectLink(n)` is its target's answer to the same `n`. -/
  theorem activity_selectLink_eq : ∀ (a : GenSelect.Activity) (n : Int),
      (GenSelect.Activity.SelectLink a n).map (Option.map sel) = .ok (Link.activitySelect (targetOf a) n)
    | .mk t, n => by
      rw [GenSelect.Activity.SelectLink, targetOf, Link.activitySelect]; exact tangible_selectLink_eq t n
end

/-! ### `Post.supplement` -/

/-- A field pair of the translation as a field of the presentation model: an error of class `e`
    has the text `E e`. -/
def fld {α : Type} (E : Err → Str) : R α → Present.Fld α
  | .ok v => .ok v
  | .error .absent => .absent (E .absent)
  | .error .wrong => .err (E .wrong)

def linkV (E : Err → Str) (l : GenLink.Link) : Present.LinkV := { alt := fld E l.alt, uri := fld E l.uri }

def attsV (E : Err → Str) : R (List GenLink.Link) → Present.Fld (List Present.LinkV)
  | .ok ls => .ok (ls.map (linkV E))
  | .error .absent => .absent (E .absent)
  | .error .wrong => .err (E .wrong)

theorem altText_eq (E : Err → Str) (l : GenLink.Link) :
    (linkV E l).altText = match GenLink.Alt l with
      | .ok a => .ok a
      | .error e => .error (E e) := by
  obtain ⟨k, m, u, a, h, w⟩ := l
  rcases a with (_ | _) | a <;> rcases u with (_ | _) | u <;> rfl

/-- What the loop has appended so far, then the lines still to come. -/
def acc : Str → List Str → Str
  | out, [] => out
  | out, l :: ls => acc ((if out ≠ [] then out ++ ['\n'] else out) ++ l) ls

theorem acc_nonempty (ls : List Str) (hl : ∀ l ∈ ls, l ≠ []) : ∀ (out : Str), out ≠ [] →
    acc out ls = match ls with
      | [] => out
      | _ :: _ => out ++ '\n' :: joinNL ls := by
  induction ls with
  | nil => intro out _; rfl
  | cons l ls ih =>
    intro out ho
    have hl' : ∀ x ∈ ls, x ≠ [] := fun x hx => hl x (List.mem_cons_of_mem _ hx)
    have hne : (out ++ ['\n']) ++ l ≠ [] := by simp
    simp only [acc, ho, ne_eq, not_false_eq_true, if_true]
    rw [ih hl' _ hne]
    cases ls with
    | nil => simp [joinNL]
    | cons l2 ls2 => simp [joinNL]

theorem acc_nil (ls : List Str) (hl : ∀ l ∈ ls, l ≠ []) : acc [] ls = joinNL ls := by
  cases ls with
  | nil => rfl
  | cons l ls =>
    have hl' : ∀ x ∈ ls, x ≠ [] := fun x hx => hl x (List.mem_cons_of_mem _ hx)
    have hne : l ≠ [] := hl l (List.mem_cons_self)
    simp only [acc, ne_eq, not_true_eq_false, if_false, List.nil_append]
    rw [acc_nonempty ls hl' l hne]
    cases ls with
    | nil => rfl
    | cons l2 ls2 => rfl

theorem linkBlock_ne (c : Colors) (t : Str) (n : Nat) : Style.linkBlock c t n ≠ [] := by
  simp [Style.linkBlock]

theorem supplementLines_ne (c : Colors) (w : Int) (base : Nat) (as : List Present.LinkV) :
    ∀ (i : Nat), ∀ l ∈ Present.supplementLines c w base as i, l ≠ [] := by
  induction as with
  | nil => intro i l hl; simp [Present.supplementLines] at hl
  | cons a as ih =>
    intro i l hl
    simp only [Present.supplementLines, List.mem_cons] at hl
    rcases hl with h | h
    · subst h
      cases a.altText <;> exact linkBlock_ne _ _ _
    · exact ih _ _ h

/-- The loop of `supplement`, from any state: it appends the model's lines, never panics. -/
theorem supplement_loop_eq (c : Colors) (E : Err → Str) (p : GenSelect.Post) (w : Int) (as : List GenLink.Link) :
    ∀ (i0 : Nat) (out : Str),
      GenSelect.Post.supplement_loop c E p w out ((as.zipIdx i0).map fun q => ((q.2 : Int), q.1)) =
        .ok (some (acc out (Present.supplementLines c w p.bodyLinks.length (as.map (linkV E)) i0))) := by
  induction as with
  | nil => intro i0 out; rfl
  | cons a as ih =>
    intro i0 out
    have hnum : ((Go.len p.bodyLinks + (i0 : Int)) + 1) = ((p.bodyLinks.length + i0 + 1 : Nat) : Int) := by
      simp only [Go.len]; omega
    simp only [List.zipIdx_cons, List.map_cons, GenSelect.Post.supplement_loop, hnum, Gen14.linkBlock_eq,
      Present.supplementLines, acc, altText_eq]
    have hs : Go.str "" = ([] : Str) := rfl
    have hn : Go.str "\n" = ['\n'] := rfl
    simp only [hs, hn]
    by_cases ho : out ≠ []
    · simp only [ho, decide_true, if_true, ne_eq, not_false_eq_true]
      cases GenLink.Alt a with
      | error e => exact ih (i0 + 1) _
      | ok alt => exact ih (i0 + 1) _
    · have ho' : out = [] := by simpa using ho
      subst ho'
      simp only [ne_eq, not_true_eq_false, decide_false, if_false, Bool.false_eq_true]
      cases GenLink.Alt a with
      | error e => exact ih (i0 + 1) _
      | ok alt => exact ih (i0 + 1) _

/-- The translated `Post.supplement` is the presentation model's `PostV.supplement`, for every
    presentation view of the post that has the same body links and attachments; it never panics. -/
theorem post_supplement_eq (c : Colors) (E : Err → Str) (p : GenSelect.Post) (w : Int) (v : Present.PostV)
    (hb : v.bodyLinks = p.bodyLinks) (ha : v.attachments = attsV E p.attachments) :
    p.supplement c E w = .ok (v.supplement c w) := by
  unfold GenSelect.Post.supplement Present.PostV.supplement
  rw [ha, hb]
  rcases hp : p.attachments with (_ | _) | as
  · rfl
  · rfl
  · cases as with
    | nil => rfl
    | cons a as =>
      have hlen : ¬ (Go.len (a :: as) = 0) := by simp only [Go.len, List.length_cons]; omega
      simp only [Go.errIs, attsV, hlen, decide_false, if_false, Bool.false_eq_true]
      have he : Go.enumerate (a :: as) = ((a :: as).zipIdx 0).map fun q => ((q.2 : Int), q.1) := rfl
      rw [he, supplement_loop_eq c E p w (a :: as) 0 (Go.str "")]
      have hs : Go.str "" = ([] : Str) := rfl
      rw [hs, acc_nil _ (supplementLines_ne c w _ _ 0)]
      rfl

end Gen12
