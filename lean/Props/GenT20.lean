import Model.Link
import Generated.GoLink
import Props.C20b
import Props.Gen20

/-
  Property theorems stated directly about `pub/link.go` as translated from the source
  (`Generated/GoLink.lean`): the C20b theorems about which link is chosen and which media type is
  handed to the hook, carried across the equalities of `Props/Gen20.lean`.  The hand-written model
  appears in no statement below.
-/

namespace GenT20
open Obj

/-- "The link's media type has the wanted supertype", on the translated struct. -/
def Matches (l : GenLink.Link) (sup : Str) : Prop := ∃ m, l.mediaType = .ok m ∧ m.supertype = sup

theorem matches_iff (l : GenLink.Link) (sup : Str) :
    Matches l sup ↔ Link.supertypeMatches (Gen20.conv l) sup = .ok true := by
  obtain ⟨k, m, u, a, h, w⟩ := l
  unfold Matches Link.supertypeMatches Gen20.conv
  rcases m with (_ | _) | m <;> simp

/-- What the model's `selectBest` says about a result of the translated `SelectBestLink`. -/
theorem selectBest_of_gen {ls : List GenLink.Link} {sup : Str} {l : GenLink.Link}
    (h : GenLink.SelectBestLink ls sup = .ok (.ok l)) :
    Link.selectBest (ls.map Gen20.conv) sup = .ok (Gen20.conv l) := by
  rw [Gen20.selectBest_eq] at h
  cases hb : Link.selectBest (ls.map Gen20.conv) sup with
  | error e => rw [hb] at h; cases h
  | ok b =>
    rw [hb] at h
    have : Gen20.back b = l := by simpa [Except.map] using h
    rw [← this]; rfl

/-- `SelectBestLink` never panics: `links[0]` and `links[1:]` are only reached with a non-empty
    list. -/
theorem selectBestLink_no_panic (ls : List GenLink.Link) (sup : Str) :
    ∃ r, GenLink.SelectBestLink ls sup = .ok r := by
  rw [Gen20.selectBest_eq]; exact ⟨_, rfl⟩

/-- `SelectFirstLink` never panics. -/
theorem selectFirstLink_no_panic (ls : List GenLink.Link) :
    ∃ r, GenLink.SelectFirstLink ls = .ok r := by
  rw [Gen20.selectFirst_eq]; exact ⟨_, rfl⟩

/-- `SelectBestLink` returns one of the candidates it was given. -/
theorem selectBestLink_mem (ls : List GenLink.Link) (sup : Str) (l : GenLink.Link)
    (h : GenLink.SelectBestLink ls sup = .ok (.ok l)) : l ∈ ls := by
  have hm := C20b.selectBest_mem _ _ _ (selectBest_of_gen h)
  obtain ⟨l0, hl0, he⟩ := List.mem_map.mp hm
  have : l0 = l := by
    have := congrArg Gen20.back he
    simpa [Gen20.back_conv] using this
  exact this ▸ hl0

/-- A candidate whose media type has the wanted supertype is never passed over for one without. -/
theorem selectBestLink_prefers_match (ls : List GenLink.Link) (sup : Str) (l l' : GenLink.Link)
    (h : GenLink.SelectBestLink ls sup = .ok (.ok l)) (hl' : l' ∈ ls) (hm' : Matches l' sup) :
    Matches l sup := by
  rw [matches_iff] at hm' ⊢
  exact C20b.selectBest_prefers_match _ sup _ _ (selectBest_of_gen h) (List.mem_map_of_mem hl') hm'

/-- Among candidates of the same standing the chosen one has the largest `height * width`
    (in `uint64` arithmetic, as `rating` computes it). -/
theorem selectBestLink_rating_max (ls : List GenLink.Link) (sup : Str) (l l' : GenLink.Link) (r r' : Nat)
    (h : GenLink.SelectBestLink ls sup = .ok (.ok l)) (hl' : l' ∈ ls)
    (hs : Matches l' sup ↔ Matches l sup)
    (he : ∀ e, l'.mediaType = .error e → e = .absent) (he0 : ∀ e, l.mediaType = .error e → e = .absent)
    (hr : GenLink.rating l = .ok r) (hr' : GenLink.rating l' = .ok r') : r' ≤ r := by
  rw [Gen20.rating_eq] at hr hr'
  refine C20b.selectBest_rating_max _ sup _ _ r r' (selectBest_of_gen h) (List.mem_map_of_mem hl') ?_ hr hr'
  -- same standing in the model's terms
  have key : ∀ x : GenLink.Link, (∀ e, x.mediaType = .error e → e = .absent) →
      ∃ b, Link.supertypeMatches (Gen20.conv x) sup = .ok b ∧ (b = true ↔ Matches x sup) := by
    intro x hx
    obtain ⟨k, m, u, a, hh, w⟩ := x
    rcases m with (_ | _) | m
    · exact ⟨false, rfl, by simp [Matches]⟩
    · have := hx _ rfl; cases this
    · exact ⟨decide (m.supertype = sup), rfl, by simp [Matches]⟩
  obtain ⟨b1, e1, i1⟩ := key l' he
  obtain ⟨b2, e2, i2⟩ := key l he0
  rw [e1, e2]
  congr 1
  exact Bool.eq_iff_iff.mpr (i1.trans (hs.trans i2.symm))

/-- A link with a media type of its own is opened with exactly that type and its own URL. -/
theorem select_own_type (l : GenLink.Link) (d m : Mime.MediaType) (u : Str)
    (hu : l.uri = .ok u) (hm : l.mediaType = .ok m) :
    GenLink.SelectWithDefaultMediaType l d = some (u, m) := by
  have h := Gen20.selectWithDefault_eq l d
  rw [C20b.select_own_type (Gen20.conv l) d m u hu hm] at h
  cases hg : GenLink.SelectWithDefaultMediaType l d with
  | none => rw [hg] at h; cases h
  | some p =>
    rw [hg] at h
    obtain ⟨a, b⟩ := p
    simp only [Option.map, Gen20.sel, Option.some.injEq, Link.Sel.mk.injEq] at h
    rw [h.1, h.2]

/-- A link without a usable media type is opened with the default of its own kind (`audio/*`,
    `video/*`, `image/*`), else with the caller's default; nothing else can be handed on. -/
theorem select_default_type (l : GenLink.Link) (d : Mime.MediaType) (u : Str) (e : Err)
    (hu : l.uri = .ok u) (hm : l.mediaType = .error e) :
    GenLink.SelectWithDefaultMediaType l d =
      some (u, if l.kind = "Audio".toList ∨ l.kind = "Video".toList ∨ l.kind = "Image".toList
               then Mime.unknownSubtype (l.kind.map Char.toLower) else d) := by
  have h := Gen20.selectWithDefault_eq l d
  rw [C20b.select_default_type (Gen20.conv l) d u e hu hm] at h
  cases hg : GenLink.SelectWithDefaultMediaType l d with
  | none => rw [hg] at h; cases h
  | some p =>
    rw [hg] at h
    obtain ⟨a, b⟩ := p
    simp only [Option.map, Gen20.sel, Option.some.injEq, Link.Sel.mk.injEq] at h
    rw [h.1, h.2]
    congr 2
    show (if Link.isMediaKind l.kind = true then _ else _) = _
    by_cases hk : l.kind = "Audio".toList ∨ l.kind = "Video".toList ∨ l.kind = "Image".toList
    · have : Link.isMediaKind l.kind = true := by
        simp only [Link.isMediaKind, Bool.or_eq_true, decide_eq_true_eq]
        rcases hk with h1 | h1 | h1
        · exact Or.inl (Or.inl h1)
        · exact Or.inl (Or.inr h1)
        · exact Or.inr h1
      rw [if_pos this, if_pos hk]; rfl
    · have : ¬ Link.isMediaKind l.kind = true := by
        simp only [Link.isMediaKind, Bool.or_eq_true, decide_eq_true_eq]
        rintro ((h1 | h1) | h1)
        · exact hk (Or.inl h1)
        · exact hk (Or.inr (Or.inl h1))
        · exact hk (Or.inr (Or.inr h1))
      rw [if_neg this, if_neg hk]

/-- Only a link without a usable URL cannot be opened. -/
theorem select_none_iff (l : GenLink.Link) (d : Mime.MediaType) :
    GenLink.SelectWithDefaultMediaType l d = none ↔ ∃ e, l.uri = .error e := by
  show _ ↔ ∃ e, (Gen20.conv l).uri = .error e
  rw [← C20b.select_none_iff (Gen20.conv l) d, ← Gen20.selectWithDefault_eq]
  cases GenLink.SelectWithDefaultMediaType l d <;> simp

/-- What `NewLink` puts into a link it accepts: the kind is one of the five link kinds; a `Link`
    takes its URL from `href` and may carry dimensions, every other kind takes it from `url` and
    has none (its rating is 1); media type and name are read the same way for all. -/
theorem newLink_fields {Time : Type} (L : Libs Time Link.Url) (o : List (Str × JVal)) (l : GenLink.Link)
    (h : GenLink.NewLink L (.obj o) = .ok l) :
    getString o "type".toList = .ok l.kind ∧
    l.kind ∈ ["Link", "Audio", "Document", "Image", "Video"].map String.toList ∧
    l.mediaType = getMediaType o "mediaType".toList ∧ l.alt = getString o "name".toList ∧
    (l.kind = "Link".toList →
      l.uri = getURL L o "href".toList ∧ l.height = getNumber o "height".toList ∧
        l.width = getNumber o "width".toList) ∧
    (l.kind ≠ "Link".toList →
      l.uri = getURL L o "url".toList ∧ l.height = .error .absent ∧ l.width = .error .absent) := by
  have e := Gen20.newLink_eq L (.obj o)
  rw [h] at e
  have e' : Link.ofObject L o = some (Gen20.conv l) := e.symm
  unfold Link.ofObject at e'
  cases hs : getString o "type".toList with
  | error err => rw [hs] at e'; cases e'
  | ok kind =>
    rw [hs] at e'
    simp only at e'
    by_cases hc : (!Link.kinds.contains kind) = true
    · rw [if_pos hc] at e'; cases e'
    · rw [if_neg hc] at e'
      have hmem : kind ∈ Link.kinds := by
        simpa using hc
      by_cases hk : kind = "Link".toList
      · rw [if_pos hk] at e'
        have := congrArg Gen20.back (Option.some.inj e')
        rw [Gen20.back_conv] at this
        subst this
        exact ⟨rfl, hmem, rfl, rfl, fun _ => ⟨rfl, rfl, rfl⟩, fun hne => absurd hk hne⟩
      · rw [if_neg hk] at e'
        have := congrArg Gen20.back (Option.some.inj e')
        rw [Gen20.back_conv] at this
        subst this
        exact ⟨rfl, hmem, rfl, rfl, fun he => absurd he hk, fun _ => ⟨rfl, rfl, rfl⟩⟩

end GenT20
