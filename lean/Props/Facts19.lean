import Model
import Generated.Facts

/- Facts for C19 (defaults), C20 (how the hook process is created), C01/C14 (SGR literals). -/
namespace Facts19

/-- The built-in defaults of `config.parse` are the model's `Config.defaults`. -/
theorem defaults_match : Generated.configDefaults =
    ["config.Feeds=[]", "config.Media.Hook=[xdg-open,%url]", "config.Style.Colors.Primary=#A4f59b",
     "config.Style.Colors.Error=#9c3535", "config.Style.Colors.Highlight=#0d7d00",
     "config.Style.Colors.Code=#4b4b4b", "config.Network.Context=5", "config.Network.Timeout=10",
     "config.Network.CacheSize=128"] ∧
    Config.defaults.hook = ["xdg-open".toList, "%url".toList] ∧
    Config.defaults.primary = "#A4f59b".toList ∧ Config.defaults.error = "#9c3535".toList ∧
    Config.defaults.highlight = "#0d7d00".toList ∧ Config.defaults.code = "#4b4b4b".toList ∧
    Config.defaults.context = 5 ∧ Config.defaults.timeout = 10 ∧ Config.defaults.cacheSize = 128 := by
  refine ⟨by decide, by decide, by decide, by decide, by decide, by decide, by decide, by decide, by decide⟩

/-- C20: the hook process is created by `exec.Command(command[0], command[1:]...)` and nowhere
    else — no shell, no command line built by concatenation. -/
theorem exec_shape : Generated.execCommands = ["command[0], command[1:]..."] := by decide

/-- C01/C14: the SGR parameters the style layer hands to `ansi.Apply` are the four literals and
    the two colour prefixes followed by a configured colour. -/
theorem sgr_arguments : Generated.sgrArguments =
    ["prefix=48;2;@rgb", "@prefix", "prefix=38;2;@rgb", "@prefix", "1", "9", "4", "3"] := by decide

theorem sgr_literals_ok : Cells.sgrOk ['1'] = true ∧ Cells.sgrOk ['9'] = true ∧ Cells.sgrOk ['4'] = true ∧
    Cells.sgrOk ['3'] = true := by decide

end Facts19
