import Model
import Proofs.C06

/-
  C06 — rendering any fetched object at any terminal size neither crashes nor hangs.
  In the model a Go function that can panic returns `Except Panic _`; every other modelled
  function is total by construction (structural or well-founded recursion accepted by Lean).
  These theorems cover every panic site on the rendering path.  Property theorems only.
-/

namespace C06
open Str Ansi

/-- `strings.Repeat` panics exactly for a negative count — the site is real … -/
theorem goRepeat_panics_iff (c : Char) (n : Int) :
    (∃ e, Hypertext.goRepeat c n = .error e) ↔ n < 0 := by
  unfold Hypertext.goRepeat
  constructor
  · rintro ⟨e, he⟩
    split at he
    · assumption
    · cases he
  · intro h
    exact ⟨_, by rw [if_pos h]⟩

/-- … and `<hr>` never reaches it, at any effective width (negative widths arise from deep
    nesting and narrow terminals). -/
theorem hr_no_panic (w : Int) : ∃ t, Hypertext.hrText w = .ok t := by
  unfold Hypertext.hrText Hypertext.goRepeat
  by_cases h : w < 0
  · exact ⟨_, by rw [if_pos h]⟩
  · exact ⟨_, by rw [if_neg h, if_neg h]; rfl⟩

/-- Link selection is total on every integer; below 1 it returns nothing (no index is formed). -/
theorem select_below_one {α : Type} (body : List Str) (atts : List α) (k : Int) (h : k < 1) :
    Select.post body atts k = .none ∧ Select.actor body k = .none := by
  have h' : k - 1 < 0 := by omega
  constructor
  · simp only [Select.post, h', ↓reduceIte]
  · simp only [Select.actor, h', ↓reduceIte]

/-- `SetLength` (status line) succeeds for every text and every width ≥ 0. -/
theorem setLength_no_panic (s : Str) (w : Int) (e : Str) (hw : 0 ≤ w) : ∃ out, setLength s w e = .ok out := by
  unfold setLength
  simp only []
  split
  · exact ⟨_, rfl⟩
  · split
    · split
      · omega
      · exact ⟨_, rfl⟩
    · split <;> exact ⟨_, rfl⟩

/-- … and a negative width is exactly where its slice expression panics. -/
theorem setLength_panics_iff (s : Str) (w : Int) (e : Str) :
    (∃ p, setLength s w e = .error p) ↔ w < 0 := by
  constructor
  · rintro ⟨p, hp⟩
    by_cases hw : w < 0
    · exact hw
    · obtain ⟨out, ho⟩ := setLength_no_panic s w e (by omega)
      rw [ho] at hp
      cases hp
  · intro hw
    refine ⟨.indexOutOfRange, ?_⟩
    unfold setLength
    simp only []
    have h1 : ¬ w = 0 := by omega
    have h2 : ((squash (scrub s)).length : Int) > w := by omega
    have h3 : w - 1 < 0 := by omega
    rw [if_neg h1, if_pos h2, if_pos h3]

/-- `Snip` (previews use height 4) succeeds for every text, width and height ≥ 0. -/
theorem snip_no_panic (s : Str) (w h : Int) (e : Str) (hh : 0 ≤ h) : ∃ out, snip s w h e = .ok out := by
  unfold snip
  have h' : ¬ h < 0 := by omega
  rw [if_neg h']
  exact ⟨_, rfl⟩

/-- `ReplaceLastLine` succeeds whenever the replacement is newline-free (it is: `SetLength`
    squashes newlines, C16). -/
theorem replaceLastLine_no_panic (s r : Str) (hr : '\n' ∉ r) : ∃ out, replaceLastLine s r = .ok out := by
  unfold replaceLastLine
  have h' : ¬ (r.contains '\n' = true) := by simpa using hr
  rw [if_neg h']
  exact ⟨_, rfl⟩

/-- The media hook's only index expression needs a non-empty hook (`Config.Safe`, C19). -/
theorem hook_no_panic (p : Config.Parsed) (hs : Config.Safe p) (link : Str) (mt : Mime.MediaType) :
    ∃ c, Hook.build p.hook link mt = .ok c := by
  have hne : p.hook ≠ [] := hs.1
  cases hh : p.hook with
  | nil => exact absurd hh hne
  | cons prog args => exact ⟨_, rfl⟩

/-- History: `Current()` after any operation sequence containing an `Add` does not panic, and
    `Add` itself never does. -/
theorem history_no_panic {α : Type} (ops : List (History.Op α)) :
    ∃ h, History.run {} ops = .ok h := by
  obtain ⟨h, hr, _⟩ := C18.run_ok ops ({} : History.H α) C18.inv_empty
  exact ⟨h, hr⟩

/-- Output size of the ansi layer is linear: wrapping never adds characters beyond one newline
    per match, so it cannot blow up by itself (the cost of deep nesting is in the repeated
    restyling, see the known finding). -/
theorem wrap_lines_total (cells : List RawCell) (w : Int) :
    ((wrapLines cells w).map List.length).sum ≤ cells.length := by
  exact C06P.wrap_lines_total cells w

end C06
