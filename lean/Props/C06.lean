import Model
namespace C06
theorem placeholder : True := trivial
end C06
