import Model
import Generated.GoNewitem
import Props.Gen02
import Props.Gen09
import Props.Gen17

/-
  The tie by translation for C02 and C09, the constructors themselves: `NewPost`,
  `NewPostFromObject`, `NewActor`, `NewActorFromObject`, `NewActivity`, `NewActivityFromObject`,
  `New`, `NewTangible`, `getActors`, `getActor`, `getPostOrActor`, `getCollection`,
  `getAndFetchUnkown` and the link getters are translated from pub/*.go on every run
  (`Generated/GoNewitem.lean`, namespace `GenNewitem`, front end extract/go2lean22.go).  The
  theorems below say that, over a world of the model, the translated constructors never panic
  and return the model's verdict: the model's record when the model builds one, and otherwise an
  error of the class the model answers (`ErrWrongType` / `ErrKeyNotPresent` / neither).

  What the translated code takes from outside is instantiated from the world: `client.FetchUnknown`
  is the translated one over `Gen02.ext w` (tied to the model by `Gen02.fetchUnknown_eq`),
  `NewCollection` / `NewCollectionFromObject` are the model's with the class of their error; the
  presentation part (`GetMarkup`, `NewLink`, the link selections, `strings.ToLower`) is ANY
  implementation (`Pres`) whose selections return and whose `GetMarkup` reports the links the
  world gives the object.
-/

namespace Gen02n
open Pub GenNewitem GenListing

/-- The libraries of the accessors, from the model's world. -/
def libs (w : World) : Obj.Libs Int U := { parseTime := w.parseTime, parseUrl := w.parse }

/-- The class of a Go result, as the model answers it. -/
def cls {α : Type} : Go.Res α → Except BErr α
  | .ok v => .ok v
  | .error e => .error e.cls

/-- A verdict of the model as a Go result. -/
def ofB {α : Type} : Except BErr α → Go.Res α
  | .ok v => .ok v
  | .error e => .error (.ofBuild e)

/-- The presentation externals: any implementation whose link selections return. -/
structure Pres where
  Markup : Type
  Link : Type
  GetMarkup : O → Str → Str → Go.Res (Markup × List Str)
  NewLink : JVal → Go.Res Link
  NewLinkOfObject : O → Go.Res Link
  SelectBestLink : List Link → Str → Except Panic (Go.Res Link)
  SelectFirstLink : List Link → Except Panic (Go.Res Link)
  ToLower : Str → Str
  best_returns : ∀ ls s, ∃ r, SelectBestLink ls s = .ok r
  first_returns : ∀ ls, ∃ r, SelectFirstLink ls = .ok r

/-- `GetMarkup` reports the links the world gives the object. -/
def Pres.Agrees (P : Pres) (w : World) : Prop :=
  ∀ o k m, Go.resLinks (P.GetMarkup o k m) = w.links o k

/-- The externals of the translated constructors, from the model's world. -/
def ext (w : World) (P : Pres) : Ext where
  client := Gen02.ext w
  Markup := P.Markup
  Link := P.Link
  GetMarkup := P.GetMarkup
  NewLink := P.NewLink
  NewLinkOfObject := P.NewLinkOfObject
  SelectBestLink := P.SelectBestLink
  SelectFirstLink := P.SelectFirstLink
  ToLower := P.ToLower
  NewCollection := fun v s _ => ofB (newCollection w v s)
  NewCollectionFromObject := fun o id _ => ofB (newCollectionFromObject o id)

/-! ### Computing with the semantics library -/

theorem bind_ok {α β : Type} (a : α) (f : α → Except Panic β) : (Except.ok a >>= f) = f a := rfl
theorem pure_eq {α : Type} (a : α) : (pure a : Except Panic α) = .ok a := rfl
theorem str_eq (s : String) : Go.str s = s.toList := rfl

theorem ofObj_ok {α : Type} (v : α) : Go.ofObj (.ok v : Obj.R α) = .ok v := rfl
theorem ofObj_error {α : Type} (e : Obj.Err) : Go.ofObj (.error e : Obj.R α) = .error (.ofObj e) := rfl

theorem cls_ofB {α : Type} (r : Except BErr α) : cls (ofB r) = r := by
  cases r with
  | ok v => rfl
  | error e => cases e <;> rfl

theorem toObjR_ofObj {α : Type} (r : Obj.R α) : Go.toObjR (Go.ofObj r) = r := by
  cases r with
  | ok v => rfl
  | error e => cases e <;> rfl

/-- the translated `FetchUnknown` reads only `url.Parse` of the libraries -/
theorem fetch_libs (w : World) (input : JVal) (source : Option U) :
    GenClient.FetchUnknown (libs w) (Gen02.ext w) input source =
      GenClient.FetchUnknown (Gen02.libs w) (Gen02.ext w) input source := rfl

/-- the Go result of the translated `FetchUnknown` -/
def fetched (w : World) (input : JVal) (source : Option U) : Go.Res (O × Option U) :=
  match fetchUnknown w input source with
  | .ok r => .ok r
  | .error _ => .error .ofFetch

theorem fetch_eq (w : World) (P : Pres) (input : JVal) (source : Option U) :
    (do let r ← GenClient.FetchUnknown (libs w) (ext w P).client input source; pure (Go.ofFetch r) : Except Panic _) =
      .ok (fetched w input source) := by
  show (do let r ← GenClient.FetchUnknown (libs w) (Gen02.ext w) input source; pure (Go.ofFetch r) : Except Panic _) = _
  rw [fetch_libs, Gen02.fetchUnknown_eq]
  unfold fetched
  cases fetchUnknown w input source with
  | ok r => obtain ⟨o, id⟩ := r; rfl
  | error e => rfl

theorem fetch_raw (w : World) (P : Pres) (input : JVal) (source : Option U) :
    GenClient.FetchUnknown (libs w) (ext w P).client input source = .ok (Gen02.triple (fetchUnknown w input source)) := by
  show GenClient.FetchUnknown (libs w) (Gen02.ext w) input source = _
  rw [fetch_libs, Gen02.fetchUnknown_eq]

theorem ofFetch_triple (w : World) (input : JVal) (source : Option U) :
    Go.ofFetch (Gen02.triple (fetchUnknown w input source)) = fetched w input source := by
  unfold fetched
  cases fetchUnknown w input source with
  | ok r => obtain ⟨o, id⟩ := r; rfl
  | error e => rfl

theorem getTime_eq (w : World) (o : O) (k : Str) :
    GenObject.GetTime (libs w) o k = Pub.getTime w o k := by
  rw [Gen17.getTime_eq]
  unfold Obj.getTime Pub.getTime
  cases Obj.getString o k with
  | error e => rfl
  | ok s => dsimp only [libs]; cases w.parseTime s <;> rfl

/-! ### The link getters return (their results are presentation) -/

theorem fillLoop_returns {α β ρ : Type} (body : α → Except Panic (Except ρ β))
    (h : ∀ x, ∃ r, body x = .ok r) (xs : List α) : ∃ r, Go.fillLoop body xs = .ok r := by
  induction xs with
  | nil => exact ⟨_, rfl⟩
  | cons x xs ih =>
    obtain ⟨r, hr⟩ := h x
    obtain ⟨rs, hrs⟩ := ih
    unfold Go.fillLoop
    rw [hr]
    cases r with
    | error e => exact ⟨_, rfl⟩
    | ok b =>
      simp only [hrs]
      cases rs with
      | error e => exact ⟨_, rfl⟩
      | ok bs => exact ⟨_, rfl⟩

theorem bind_returns {α β : Type} (m : Except Panic α) (k : α → Except Panic β)
    (hm : ∃ a, m = .ok a) (hk : ∀ a, ∃ b, k a = .ok b) : ∃ b, (m >>= k) = .ok b := by
  obtain ⟨a, ha⟩ := hm
  rw [ha]
  exact hk a

theorem getLinks_returns (w : World) (P : Pres) (o : O) (k : Str) :
    ∃ r, getLinks (libs w) (ext w P) o k = .ok r := by
  unfold getLinks
  cases Go.ofObj (GenObject.GetList (libs w) o k) with
  | error e => exact ⟨_, rfl⟩
  | ok l =>
    simp only
    apply bind_returns
    · apply fillLoop_returns
      intro x
      cases h : (ext w P).NewLink x <;> simp only [h] <;> exact ⟨_, rfl⟩
    · intro a
      cases a <;> exact ⟨_, rfl⟩

theorem getLinksShorthand_returns (w : World) (P : Pres) (o : O) (k : Str) :
    ∃ r, getLinksShorthand (libs w) (ext w P) o k = .ok r := by
  unfold getLinksShorthand
  cases Go.ofObj (GenObject.GetList (libs w) o k) with
  | error e => exact ⟨_, rfl⟩
  | ok l =>
    simp only
    apply bind_returns
    · apply fillLoop_returns
      intro x
      cases x with
      | obj kvs => simp only; cases h : (ext w P).NewLink (JVal.obj kvs) <;> simp only [h] <;> exact ⟨_, rfl⟩
      | str s =>
        simp only
        cases h : (ext w P).NewLinkOfObject [((Go.str "type"), JVal.str (Go.str "Link")), ((Go.str "href"), JVal.str s)] <;>
          simp only [h] <;> exact ⟨_, rfl⟩
      | null => exact ⟨_, rfl⟩
      | bool b => exact ⟨_, rfl⟩
      | num n => exact ⟨_, rfl⟩
      | arr xs => exact ⟨_, rfl⟩
    · intro a
      cases a <;> exact ⟨_, rfl⟩

theorem getBestLink_returns (w : World) (P : Pres) (o : O) (k s : Str) :
    ∃ r, getBestLink (libs w) (ext w P) o k s = .ok r := by
  unfold getBestLink
  apply bind_returns
  · exact getLinks_returns w P o k
  · intro a
    cases a with
    | error e => exact ⟨_, rfl⟩
    | ok ls =>
      exact P.best_returns ls s

theorem getBestLinkShorthand_returns (w : World) (P : Pres) (o : O) (k s : Str) :
    ∃ r, getBestLinkShorthand (libs w) (ext w P) o k s = .ok r := by
  unfold getBestLinkShorthand
  apply bind_returns
  · exact getLinksShorthand_returns w P o k
  · intro a
    cases a with
    | error e => exact ⟨_, rfl⟩
    | ok ls =>
      exact P.best_returns ls s

theorem getFirstLinkShorthand_returns (w : World) (P : Pres) (o : O) (k : Str) :
    ∃ r, getFirstLinkShorthand (libs w) (ext w P) o k = .ok r := by
  unfold getFirstLinkShorthand
  apply bind_returns
  · exact getLinksShorthand_returns w P o k
  · intro a
    cases a with
    | error e => exact ⟨_, rfl⟩
    | ok ls =>
      exact P.first_returns ls

/-! ### `getCollection`, `getAndFetchUnkown` -/

/-- `getCollection` as translated: no panic, and what the record keeps of it is the model's
    `getCollection` — the reference under the key, loaded with the source handed in. -/
theorem getCollection_eq (w : World) (P : Pres) (o : O) (k : Str) (source : Option U) (c : Construct) :
    ∃ r, GenNewitem.getCollection (libs w) (ext w P) o k source c = .ok r ∧
      Go.toObjR r = Pub.getCollection w o k source := by
  unfold GenNewitem.getCollection Pub.getCollection
  rw [Gen17.getAny_eq]
  cases Obj.getAny o k with
  | error e => exact ⟨_, rfl, by cases e <;> rfl⟩
  | ok v =>
    simp only [ofObj_ok, ofObj_error, ext, ofB]
    cases newCollection w v source with
    | ok cm => exact ⟨_, rfl, rfl⟩
    | error e => exact ⟨_, rfl, by cases e <;> rfl⟩

/-- `getAndFetchUnkown` as translated: the reference under the key fetched with the source handed in. -/
theorem getAndFetchUnkown_eq (w : World) (P : Pres) (o : O) (k : Str) (source : Option U) :
    ∃ r, getAndFetchUnkown (libs w) (ext w P) o k source = .ok r ∧
      Go.toObjR r = (match Obj.getAny o k with
        | .error e => .error e
        | .ok v => match fetchUnknown w v source with
          | .ok r => .ok r
          | .error _ => .error .wrong) := by
  unfold getAndFetchUnkown
  rw [Gen17.getAny_eq]
  cases Obj.getAny o k with
  | error e => exact ⟨_, rfl, by cases e <;> rfl⟩
  | ok v =>
    simp only [ofObj_ok, ofObj_error, fetch_raw, bind_ok, pure_eq, ofFetch_triple, fetched]
    cases fetchUnknown w v source with
    | ok r => exact ⟨_, rfl, rfl⟩
    | error e => exact ⟨_, rfl, rfl⟩

/-! ### Actors -/

theorem errIs_absent {α : Type} (r : Go.Res α) :
    Go.Res.errIs r .keyNotPresent = true ↔ Go.toObjR r = .error .absent := by
  cases r with
  | ok v => simp [Go.Res.errIs, Go.toObjR]
  | error e =>
    simp only [Go.Res.errIs, Go.toObjR, Go.Error.toObj]
    cases e.is .keyNotPresent <;> simp

/-- **`NewActorFromObject` as translated is the model's `newActorFromObject`**: no panic; the
    model's actor (kind, id, name, outbox loaded with the actor's id as source, links of the
    summary, time of joining, the object it was built from), or an error of the model's class. -/
theorem newActorFromObject_eq (w : World) (P : Pres) (hP : P.Agrees w) (o : O) (id : Option U) :
    ∃ r, NewActorFromObject (libs w) (ext w P) o id = .ok r ∧ cls r = newActorFromObject w o id := by
  unfold NewActorFromObject newActorFromObject
  rw [Gen17.getString_eq, str_eq]
  cases hs : Obj.getString o "type".toList with
  | error e => cases e <;> exact ⟨_, rfl, rfl⟩
  | ok kind =>
    simp only [ofObj_ok, ofObj_error]
    have hl : [Go.str "Application", Go.str "Group", Go.str "Organization", Go.str "Person", Go.str "Service"] = actorKinds := rfl
    rw [hl]
    by_cases hc : actorKinds.contains kind = true
    · obtain ⟨r1, h1⟩ := getBestLink_returns w P o (Go.str "icon") (Go.str "image")
      obtain ⟨r2, h2⟩ := getBestLink_returns w P o (Go.str "image") (Go.str "image")
      obtain ⟨r3, h3, h3'⟩ := getCollection_eq w P o (Go.str "outbox") id (Construct.NewActorFromObject_outbox id)
      have hm := hP o (Go.str "summary") (Go.str "mediaType")
      simp only [Go.containsStr, hc, h1, h2, h3, bind_ok, pure_eq, Bool.not_true, Bool.false_eq_true, if_false]
      refine ⟨_, rfl, ?_⟩
      simp only [cls, h3', Gen17.getString_eq, getTime_eq, toObjR_ofObj, ext] at hm ⊢
      rw [hm]
      rfl
    · rw [Bool.not_eq_true] at hc
      simp only [Go.containsStr, hc, Bool.not_false, if_true, pure_eq]
      exact ⟨_, rfl, rfl⟩

/-- **`NewActor` as translated is the model's `newActor`.** -/
theorem newActor_eq (w : World) (P : Pres) (hP : P.Agrees w) (input : JVal) (source : Option U) :
    ∃ r, NewActor (libs w) (ext w P) input source = .ok r ∧ cls r = newActor w input source := by
  unfold NewActor newActor
  simp only [fetch_raw, bind_ok, ofFetch_triple, fetched]
  cases fetchUnknown w input source with
  | error e => exact ⟨_, rfl, rfl⟩
  | ok r => obtain ⟨o, id⟩ := r; exact newActorFromObject_eq w P hP o id

/-- `getActor` as translated: the reference under the key, built as an actor with the source handed in. -/
theorem getActor_eq (w : World) (P : Pres) (hP : P.Agrees w) (o : O) (k : Str) (source : Option U) :
    ∃ r, getActor (libs w) (ext w P) o k source = .ok r ∧
      Go.toUnitR r = (match Obj.getAny o k with
        | .error _ => .error ()
        | .ok v => match newActor w v source with
          | .ok a => .ok a
          | .error _ => .error ()) := by
  unfold getActor
  rw [Gen17.getAny_eq]
  cases Obj.getAny o k with
  | error e => exact ⟨_, rfl, rfl⟩
  | ok v =>
    obtain ⟨r, hr, hr'⟩ := newActor_eq w P hP v source
    simp only [ofObj_ok, ofObj_error, hr, bind_ok]
    rw [← hr']
    cases r with
    | ok a => exact ⟨_, rfl, rfl⟩
    | error e => exact ⟨_, rfl, rfl⟩

theorem authorOf_eq : authorOf = Gen09.toAorF := by
  funext t; cases t <;> rfl

/-- **`getActors` as translated is the model's `getActors`**: no panic, one entry per element of
    the list under the key, in order, each built as an actor with the source handed in. -/
theorem getActors_eq (w : World) (P : Pres) (hP : P.Agrees w) (o : O) (k : Str) (source : Option U) :
    ∃ ts, GenNewitem.getActors (libs w) (ext w P) o k source = .ok ts ∧
      ts.map authorOf = Pub.getActors w o k source := by
  unfold GenNewitem.getActors Pub.getActors
  rw [Gen17.getList_eq]
  cases hl : Obj.getList o k with
  | error e => cases e <;> exact ⟨_, rfl, rfl⟩
  | ok l =>
    simp only [ofObj_ok, ofObj_error, Go.fanout]
    rw [Gen09.mapE_indices l _ (fun x => match newActor w x source with
      | .error _ => match NewActor (libs w) (ext w P) x source with
        | .ok (.error err) => Tangible.failure (Failure.mk err)
        | _ => Tangible.failure (Failure.mk .ofFetch)
      | .ok a => Tangible.actor a)]
    · refine ⟨_, rfl, ?_⟩
      simp only [List.map_map]
      apply List.map_congr_left
      intro x _
      simp only [Function.comp]
      cases newActor w x source with
      | ok a => rfl
      | error e =>
        simp only
        split <;> rfl
    · intro i hi
      have : Go.index l (i : Int) = .ok l[i] := by
        simp [Go.index, List.getElem?_eq_getElem hi]
      obtain ⟨r, hr, hr'⟩ := newActor_eq w P hP l[i] source
      simp only [this, bind_ok, hr]
      rw [← hr']
      cases r with
      | ok a => rfl
      | error e => rfl

/-! ### Posts -/

/-- **`NewPostFromObject` as translated is the model's `newPostFromObject`**: no panic; the
    model's post — reply target, authors, audience and replies each loaded with the post's id as
    source — or an error of the model's class; in particular it is refused with an error that is
    neither sentinel exactly when an author fails `creatorOk` (see `forged_iff`). -/
theorem newPostFromObject_eq (w : World) (P : Pres) (hP : P.Agrees w) (o : O) (id : Option U) :
    ∃ r, NewPostFromObject (libs w) (ext w P) o id = .ok r ∧ cls r = newPostFromObject w o id := by
  unfold NewPostFromObject newPostFromObject
  rw [Gen17.getString_eq, str_eq]
  cases hs : Obj.getString o "type".toList with
  | error e => cases e <;> exact ⟨_, rfl, rfl⟩
  | ok kind =>
    simp only [ofObj_ok]
    have ht : (Go.str "Tombstone") = "Tombstone".toList := rfl
    rw [ht]
    by_cases htomb : kind = "Tombstone".toList
    · simp only [htomb, decide_true, if_true, pure_eq]
      exact ⟨_, rfl, rfl⟩
    · have hl : [Go.str "Article", Go.str "Audio", Go.str "Document", Go.str "Image", Go.str "Note", Go.str "Page", Go.str "Video"] = postKinds := rfl
      rw [hl]
      simp only [htomb, decide_false, Bool.false_eq_true, if_false]
      by_cases hc : postKinds.contains kind = true
      · obtain ⟨rp, hp, hp'⟩ := getAndFetchUnkown_eq w P o (Go.str "inReplyTo") id
        obtain ⟨rm, hm⟩ : ∃ r, (if (((decide (kind = (Go.str "Audio"))) || (decide (kind = (Go.str "Video")))) || (decide (kind = (Go.str "Image")))) = true
            then (getBestLinkShorthand (libs w) (ext w P) o (Go.str "url") ((ext w P).ToLower kind))
            else (getFirstLinkShorthand (libs w) (ext w P) o (Go.str "url"))) = .ok r := by
          split
          · exact getBestLinkShorthand_returns w P o _ _
          · exact getFirstLinkShorthand_returns w P o _
        obtain ⟨cr, hcr, hcr'⟩ := getActors_eq w P hP o (Go.str "attributedTo") id
        obtain ⟨rc, hrc, hrc'⟩ := getActors_eq w P hP o (Go.str "audience") id
        obtain ⟨ra, ha⟩ := getLinks_returns w P o (Go.str "attachment")
        obtain ⟨c1, hc1, hc1'⟩ := getCollection_eq w P o (Go.str "replies") id (Construct.NewPostFromObject_constructComment id)
        obtain ⟨c2, hc2, hc2'⟩ := getCollection_eq w P o (Go.str "comments") id (Construct.NewPostFromObject_constructComment id)
        have hb := hP o (Go.str "content") (Go.str "mediaType")
        have hcomm : ∃ c, (if Go.Res.errIs c1 .keyNotPresent = true
              then GenNewitem.getCollection (libs w) (ext w P) o (Go.str "comments") id (Construct.NewPostFromObject_constructComment id)
              else Except.ok c1) = .ok c ∧
            Go.toObjR c = (match Pub.getCollection w o "replies".toList id with
              | .error .absent => Pub.getCollection w o "comments".toList id
              | r => r) := by
          by_cases hab : Go.Res.errIs c1 .keyNotPresent = true
          · have := (errIs_absent c1).mp hab
            rw [hc1'] at this
            simp only [hab, if_true, hc2]
            refine ⟨_, rfl, ?_⟩
            rw [str_eq] at this
            rw [this]
            exact hc2'
          · have hne : Pub.getCollection w o (Go.str "replies") id ≠ .error .absent := by
              intro h; rw [← hc1'] at h; exact hab ((errIs_absent c1).mpr h)
            simp only [hab, Bool.false_eq_true, if_false, pure_eq]
            refine ⟨_, rfl, ?_⟩
            rw [hc1']
            rw [str_eq] at hne ⊢
            split
            · rename_i h; exact absurd h hne
            · rfl
        obtain ⟨cm, hcm, hcm'⟩ := hcomm
        simp only [Go.containsStr, hc, hp, hm, hcr, hrc, ha, hc1, hcm, bind_ok, pure_eq, Bool.not_true, Bool.false_eq_true, if_false,
          Gen09.creators_eq]
        rw [← authorOf_eq, hcr']
        by_cases hall : (Pub.getActors w o (Go.str "attributedTo") id).all (creatorOk id) = true
        · have hall' : (Pub.getActors w o "attributedTo".toList id).all (creatorOk id) = true := hall
          simp only [hall, hall', if_true]
          refine ⟨_, rfl, ?_⟩
          simp only [cls, hp', hcr', hrc', hcm', toObjR_ofObj, Gen17.getString_eq, getTime_eq, ext] at hb ⊢
          rw [hb]
          rfl
        · have hall' : ¬ (Pub.getActors w o "attributedTo".toList id).all (creatorOk id) = true := hall
          simp only [hall, hall', Bool.false_eq_true, if_false]
          exact ⟨_, rfl, rfl⟩
      · rw [Bool.not_eq_true] at hc
        simp only [Go.containsStr, hc, Bool.not_false, if_true, pure_eq]
        exact ⟨_, rfl, rfl⟩

/-- **`NewPost` as translated is the model's `newPost`.** -/
theorem newPost_eq (w : World) (P : Pres) (hP : P.Agrees w) (input : JVal) (source : Option U) :
    ∃ r, NewPost (libs w) (ext w P) input source = .ok r ∧ cls r = newPost w input source := by
  unfold NewPost newPost
  simp only [fetch_raw, bind_ok, ofFetch_triple, fetched]
  cases fetchUnknown w input source with
  | error e => exact ⟨_, rfl, rfl⟩
  | ok r => obtain ⟨o, id⟩ := r; exact newPostFromObject_eq w P hP o id

/-! ### `getPostOrActor`, activities -/

theorem cls_wrongType (e : Go.Error) (h : e.is .wrongType = true) : e.cls = .wrongType := by
  simp [Go.Error.cls, h]

theorem cls_not_wrongType (e : Go.Error) (h : ¬ e.is .wrongType = true) : e.cls ≠ .wrongType := by
  unfold Go.Error.cls
  simp only [h, Bool.false_eq_true, if_false]
  split <;> simp

/-- the part of `getPostOrActor` after the reference is known: fetch with the source handed in,
    a post first, an actor only when the object is no post by type -/
local macro "gpa_tail" w:term:max P:term:max hP:term:max : tactic => `(tactic| (
  simp only [fetch_raw, bind_ok, ofFetch_triple, fetched]
  cases fetchUnknown $w _ _ with
  | error e => exact ⟨_, rfl, rfl⟩
  | ok r =>
    obtain ⟨o', id'⟩ := r
    simp only
    obtain ⟨rp, hrp, hrp'⟩ := newPostFromObject_eq $w $P $hP o' id'
    simp only [hrp, bind_ok]
    rw [← hrp']
    cases rp with
    | ok p => exact ⟨_, rfl, rfl⟩
    | error pe =>
      by_cases hw : pe.is .wrongType = true
      · obtain ⟨ra, hra, hra'⟩ := newActorFromObject_eq $w $P $hP o' id'
        simp only [hw, if_true, hra, bind_ok, cls, cls_wrongType pe hw]
        rw [← hra']
        cases ra with
        | ok a => exact ⟨_, rfl, rfl⟩
        | error ae =>
          by_cases hwa : ae.is .wrongType = true
          · simp only [hwa, if_true, pure_eq]; exact ⟨_, rfl, rfl⟩
          · simp only [hwa, Bool.false_eq_true, if_false, pure_eq]; exact ⟨_, rfl, rfl⟩
      · have hne := cls_not_wrongType pe hw
        simp only [hw, Bool.false_eq_true, if_false, pure_eq, cls]
        refine ⟨_, rfl, ?_⟩
        cases hc : pe.cls with
        | wrongType => exact absurd hc hne
        | missingType => rfl
        | other => rfl))

/-- **`getPostOrActor` as translated is the model's `getPostOrActor`**: no panic; the reference
    under the key, an inline `Create` unwrapped once, fetched with the source handed in, built as
    a post, else (only when it is no post by type) as an actor. -/
theorem getPostOrActor_eq (w : World) (P : Pres) (hP : P.Agrees w) (o : O) (k : Str) (source : Option U) :
    ∃ t, GenNewitem.getPostOrActor (libs w) (ext w P) o k source = .ok t ∧
      targetOf t = Pub.getPostOrActor w o k source := by
  unfold GenNewitem.getPostOrActor Pub.getPostOrActor
  rw [Gen17.getAny_eq]
  cases Obj.getAny o k with
  | error e => exact ⟨_, rfl, rfl⟩
  | ok ref0 =>
    simp only [ofObj_ok]
    cases ref0 with
    | obj kvs =>
      simp only [Gen17.getString_eq, Gen17.getAny_eq, str_eq]
      cases Obj.getString kvs "type".toList with
      | error e => exact ⟨_, rfl, rfl⟩
      | ok kind =>
        simp only [ofObj_ok]
        by_cases hk : kind = "Create".toList
        · simp only [hk, decide_true, if_true]
          cases Obj.getAny kvs "object".toList with
          | error e => exact ⟨_, rfl, rfl⟩
          | ok v =>
            simp only [ofObj_ok]
            gpa_tail w P hP
        · simp only [hk, decide_false, Bool.false_eq_true, if_false]
          gpa_tail w P hP
    | null => simp only; gpa_tail w P hP
    | bool b => simp only; gpa_tail w P hP
    | num n => simp only; gpa_tail w P hP
    | str s => simp only; gpa_tail w P hP
    | arr xs => simp only; gpa_tail w P hP

/-- **`NewActivityFromObject` as translated is the model's `newActivityFromObject`**: no panic;
    the kind list, the actor and the object both loaded with the activity's id as source. -/
theorem newActivityFromObject_eq (w : World) (P : Pres) (hP : P.Agrees w) (o : O) (id : Option U) :
    ∃ r, NewActivityFromObject (libs w) (ext w P) o id = .ok r ∧ cls r = newActivityFromObject w o id := by
  unfold NewActivityFromObject newActivityFromObject
  rw [Gen17.getString_eq, str_eq]
  cases hs : Obj.getString o "type".toList with
  | error e => cases e <;> exact ⟨_, rfl, rfl⟩
  | ok kind =>
    simp only [ofObj_ok]
    have hl : [Go.str "Create", Go.str "Announce", Go.str "Dislike", Go.str "Like"] = activityKinds := rfl
    rw [hl]
    by_cases hc : activityKinds.contains kind = true
    · obtain ⟨ra, hra, hra'⟩ := getActor_eq w P hP o (Go.str "actor") id
      obtain ⟨t, ht, ht'⟩ := getPostOrActor_eq w P hP o (Go.str "object") id
      simp only [Go.containsStr, hc, hra, ht, bind_ok, pure_eq, Bool.not_true, Bool.false_eq_true, if_false]
      refine ⟨_, rfl, ?_⟩
      simp only [cls, hra', ht', toObjR_ofObj, getTime_eq]
      rfl
    · rw [Bool.not_eq_true] at hc
      simp only [Go.containsStr, hc, Bool.not_false, if_true, pure_eq]
      exact ⟨_, rfl, rfl⟩

/-- **`NewActivity` as translated is the model's `newActivity`.** -/
theorem newActivity_eq (w : World) (P : Pres) (hP : P.Agrees w) (input : JVal) (source : Option U) :
    ∃ r, NewActivity (libs w) (ext w P) input source = .ok r ∧ cls r = newActivity w input source := by
  unfold NewActivity newActivity
  simp only [fetch_raw, bind_ok, ofFetch_triple, fetched]
  cases fetchUnknown w input source with
  | error e => exact ⟨_, rfl, rfl⟩
  | ok r => obtain ⟨o, id⟩ := r; exact newActivityFromObject_eq w P hP o id

/-! ### `New`, `NewTangible` -/

/-- one step of the dispatch of `New`: a constructor's Go result against the model's verdict -/
theorem step_cases {α : Type} (r : Go.Res α) (m : Except BErr α) (h : cls r = m) :
    (∃ v, r = .ok v ∧ m = .ok v) ∨
    (∃ e, r = .error e ∧ e.is .wrongType = true ∧ m = .error .wrongType) ∨
    (∃ e, r = .error e ∧ e.is .wrongType = false ∧ (m = .error .other ∨ m = .error .missingType)) := by
  subst h
  cases r with
  | ok v => exact .inl ⟨v, rfl, rfl⟩
  | error e =>
    by_cases hw : e.is .wrongType = true
    · exact .inr (.inl ⟨e, rfl, hw, by simp [cls, cls_wrongType e hw]⟩)
    · rw [Bool.not_eq_true] at hw
      refine .inr (.inr ⟨e, rfl, hw, ?_⟩)
      simp only [cls, Go.Error.cls, hw, Bool.false_eq_true, if_false]
      split <;> simp

/-- **`New` as translated is the model's `new`**: no panic; actor, then post, then activity,
    then collection, each tried only when the one before is refused by type. -/
theorem new_eq (w : World) (P : Pres) (hP : P.Agrees w) (input : JVal) (source : Option U) :
    ∃ a, GenNewitem.New (libs w) (ext w P) input source = .ok a ∧
      Gen09.anyToItem a = Pub.new w input source := by
  unfold GenNewitem.New Pub.new
  simp only [fetch_raw, bind_ok, ofFetch_triple, fetched]
  cases fetchUnknown w input source with
  | error e => exact ⟨_, rfl, rfl⟩
  | ok r =>
    obtain ⟨o, id⟩ := r
    simp only
    obtain ⟨r1, h1, h1'⟩ := newActorFromObject_eq w P hP o id
    obtain ⟨r2, h2, h2'⟩ := newPostFromObject_eq w P hP o id
    obtain ⟨r3, h3, h3'⟩ := newActivityFromObject_eq w P hP o id
    simp only [h1, h2, h3, bind_ok]
    rcases step_cases r1 _ h1' with ⟨v, hr, hm⟩ | ⟨e, hr, he, hm⟩ | ⟨e, hr, he, hm | hm⟩ <;> subst hr <;> rw [hm]
    · exact ⟨_, rfl, rfl⟩
    · simp only [he, Bool.not_true, Bool.false_eq_true, if_false]
      rcases step_cases r2 _ h2' with ⟨v, hr, hm⟩ | ⟨e, hr, he, hm⟩ | ⟨e, hr, he, hm | hm⟩ <;> subst hr <;> rw [hm]
      · exact ⟨_, rfl, rfl⟩
      · simp only [he, Bool.not_true, Bool.false_eq_true, if_false]
        rcases step_cases r3 _ h3' with ⟨v, hr, hm⟩ | ⟨e, hr, he, hm⟩ | ⟨e, hr, he, hm | hm⟩ <;> subst hr <;> rw [hm]
        · exact ⟨_, rfl, rfl⟩
        · simp only [he, Bool.not_true, Bool.false_eq_true, if_false, ext, ofB]
          cases newCollectionFromObject o id with
          | ok c => exact ⟨_, rfl, rfl⟩
          | error ce =>
            simp only
            split <;> exact ⟨_, rfl, rfl⟩
        · simp only [he, Bool.not_false, if_true, pure_eq]; exact ⟨_, rfl, rfl⟩
        · simp only [he, Bool.not_false, if_true, pure_eq]; exact ⟨_, rfl, rfl⟩
      · simp only [he, Bool.not_false, if_true, pure_eq]; exact ⟨_, rfl, rfl⟩
      · simp only [he, Bool.not_false, if_true, pure_eq]; exact ⟨_, rfl, rfl⟩
    · simp only [he, Bool.not_false, if_true, pure_eq]; exact ⟨_, rfl, rfl⟩
    · simp only [he, Bool.not_false, if_true, pure_eq]; exact ⟨_, rfl, rfl⟩

/-- **`NewTangible` as translated is the model's `genericItem`**: a collection is shown as an error item. -/
theorem newTangible_eq (w : World) (P : Pres) (hP : P.Agrees w) (e : E) :
    ∃ t, GenNewitem.NewTangible (libs w) (ext w P) e.1 e.2 = .ok t ∧
      Gen09.toItem t = genericItem w e := by
  unfold GenNewitem.NewTangible genericItem
  obtain ⟨a, ha, ha'⟩ := new_eq w P hP e.1 e.2
  simp only [ha, bind_ok]
  rw [← ha']
  cases a <;> exact ⟨_, rfl, rfl⟩

/-! ### What the equalities say about the creators check and the sources -/

/-- **The creators check of the translated constructor**: `NewPostFromObject` refuses an object
    of a post type (not a tombstone) exactly when one of the authors it loaded — the entries of
    `attributedTo`, each built by the translated `NewActor` with the post's id as source — is an
    actor whose id has another host than the post's id (or exactly one of the two ids is
    missing); otherwise it builds the post. -/
theorem forged_iff (w : World) (P : Pres) (hP : P.Agrees w) (o : O) (id : Option U) (kind : Str)
    (hk : Obj.getString o "type".toList = .ok kind) (hp : postKinds.contains kind = true)
    (ht : kind ≠ "Tombstone".toList) :
    ∃ authors r, GenNewitem.getActors (libs w) (ext w P) o "attributedTo".toList id = .ok authors ∧
      NewPostFromObject (libs w) (ext w P) o id = .ok r ∧
      ((∃ p, r = .ok p ∧ p.creators = authors.map authorOf) ↔ (authors.map authorOf).all (creatorOk id) = true) ∧
      ((∃ e, r = .error e ∧ e.cls = .other) ↔ ¬ (authors.map authorOf).all (creatorOk id) = true) := by
  obtain ⟨authors, ha, ha'⟩ := getActors_eq w P hP o "attributedTo".toList id
  obtain ⟨r, hr, hr'⟩ := newPostFromObject_eq w P hP o id
  refine ⟨authors, r, ha, hr, ?_⟩
  rw [ha']
  unfold newPostFromObject at hr'
  simp only [hk, ht, if_false, hp, Bool.not_true, Bool.false_eq_true] at hr'
  by_cases hall : (Pub.getActors w o "attributedTo".toList id).all (creatorOk id) = true
  · simp only [hall, if_true] at hr'
    cases r with
    | error e => simp [cls] at hr'
    | ok p =>
      simp only [cls, Except.ok.injEq] at hr'
      subst hr'
      exact ⟨⟨fun _ => hall, fun _ => ⟨_, rfl, rfl⟩⟩, ⟨fun ⟨e, he, _⟩ => (by cases he), fun h => absurd hall h⟩⟩
  · simp only [hall, Bool.false_eq_true, if_false] at hr'
    cases r with
    | ok p => simp [cls] at hr'
    | error e =>
      simp only [cls, Except.error.injEq] at hr'
      exact ⟨⟨fun ⟨p, hp, _⟩ => (by cases hp), fun h => absurd h hall⟩, ⟨fun _ => hall, fun _ => ⟨e, rfl, hr'⟩⟩⟩

end Gen02n

