import Model
import Generated.GoGemtext
import Props.Gen13
import Props.Gen14
import Proofs.Gen15

/-
  The tie by translation for C15 (and C12 through the link lists): gemtext/gemtext.go and
  plaintext/plaintext.go — the `Markup` struct with its cache fields, `NewMarkup`, `Render`,
  `renderWithLinks` — are translated from the source on every run (`extract/go2lean15.go` →
  `Generated/GoGemtext.lean`, namespaces `GenGemtext` and `GenPlaintext`); the theorems below say
  the generated code computes what the hand-written model (`Model/Gemtext.lean`,
  `Model/Markup.lean`) computes, on every source text and every width, the link lists included,
  and that the cache behaves as the model's over any sequence of widths.  Every right-hand side
  is `.ok …`: the translated functions do not panic (`match[1]`, `match[2]` are read only after
  `len(match)` was compared with the number of groups plus one).

  The parameters of the translated code are instantiated as follows.
  * `c`: the processed colours, as in Gen14.  `expand` (ansi.go's regular expression): the
    model's scanner, `Gen13.goExpand`; the calls of `ansi.Wrap` / `ansi.DumbWrap` and of
    `style.*` go to the translated `GenAnsiH.*` / `GenStyle.*`, which Gen13 / Gen14 equate with
    the model's.
  * `W`, the regular expressions of the two files.  gemtext.go asks six patterns
    `FindStringSubmatch` on a line; `gemExt` answers with what `Gemtext.classify` uses to
    recognise such a line (`linkMatch`, `headerMatch k`, `bulletMatch`, `quoteMatch`: the whole
    line and the groups, or nil); `recognisers_classify` says these six answers, asked in the
    order of the source, are `classify`.  plaintext.go asks one pattern `ReplaceAllStringFunc`;
    `plainExt` cuts the text where `Plaintext.matchUrl` finds a URL, scanning from the left as
    `Plaintext.replaceUrls` does.  The pattern literals themselves are compared with the ones
    the model's comments transcribe (`gemtext_patterns_eq`, `plaintext_patterns_eq`); that the
    recognisers do what Go's regexp does with these patterns is the differential side of C15
    and C12 (lines never contain '\n' there: they come out of `strings.Split(text, "\n")`, and
    `.` and `$` of the patterns would treat a '\n' differently from the model's recognisers).
  * `int` is the unbounded `Int`, as in the model: `width-2` … do not wrap for any width a
    terminal reports.
  No model/code difference was found.
  Property theorems only; helper lemmas live in Proofs/Gen15.lean.
-/

namespace Gen15
open Str Ansi Gen15P

/-- The regular expressions of gemtext.go as the model recognises the lines. -/
def gemExt : GenGemtext.Ext := Gen15P.gemExt

/-- The regular expression of plaintext.go as the model recognises URLs. -/
def plainExt : GenPlaintext.Ext := Gen15P.plainExt

/-- A model markup as a value of the generated structure (gemtext: the tree is the lines). -/
def toGenG (m : Markup.M (List Str)) : GenGemtext.Markup := ⟨m.tree, m.cached, m.cachedWidth⟩

/-- A model markup as a value of the generated structure (plain text: the tree is the text). -/
def toGenP (m : Markup.M Str) : GenPlaintext.Markup := ⟨m.tree, m.cached, m.cachedWidth⟩

/-! ### the patterns -/

/-- The six patterns of gemtext.go, in the order the code tries them, are the ones
    `Model/Gemtext.lean` transcribes. -/
theorem gemtext_patterns_eq : GenGemtext.patterns =
    ["^=>[ \\t]*(.*?)(?:[ \\t]+(.*))?$", "^#[ \\t]+(.*)$", "^##[ \\t]+(.*)$", "^###[ \\t]+(.*)$",
     "^\\* (.*)$", "^> ?(.*)$"] := by decide

/-- The URL pattern of plaintext.go is the one `Plaintext.matchUrl` transcribes
    (`isSchemeChar`, `isHierChar`). -/
theorem plaintext_patterns_eq : GenPlaintext.patterns =
    ["[A-Za-z][A-Za-z0-9+\\-.]*://[A-Za-z0-9.?#/@:%_~!$&'()*+,;=\\[\\]\\-]+"] := by decide

/-- Asked in the order of the source, the six recognisers are `Gemtext.classify`: the first that
    answers decides, with the groups as the texts (and a link without a label shows its URI). -/
theorem recognisers_classify (line : Str) :
    Gemtext.classify line =
      match gemExt.re1 line with
      | [_, uri, alt] => .link uri (if alt.isEmpty then uri else alt)
      | _ =>
      match gemExt.re2 line with
      | [_, t] => .header 1 t
      | _ =>
      match gemExt.re3 line with
      | [_, t] => .header 2 t
      | _ =>
      match gemExt.re4 line with
      | [_, t] => .header 3 t
      | _ =>
      match gemExt.re5 line with
      | [_, t] => .bullet t
      | _ =>
      match gemExt.re6 line with
      | [_, t] => .quote t
      | _ => .plain line := by
  have e1 : gemExt.re1 line = linkMatch line := rfl
  have e2 : gemExt.re2 line = headerMatch 1 line := rfl
  have e3 : gemExt.re3 line = headerMatch 2 line := rfl
  have e4 : gemExt.re4 line = headerMatch 3 line := rfl
  have e5 : gemExt.re5 line = bulletMatch line := rfl
  have e6 : gemExt.re6 line = quoteMatch line := rfl
  rw [e1, e2, e3, e4, e5, e6]
  rcases shapes line with ⟨u, a, h1, hc⟩ | ⟨h1, t, h2, hc⟩ | ⟨h1, h2, t, h3, hc⟩ | ⟨h1, h2, h3, t, h4, hc⟩ |
    ⟨h1, h2, h3, h4, t, h5, hc⟩ | ⟨h1, h2, h3, h4, h5, t, h6, hc⟩ | ⟨h1, h2, h3, h4, h5, h6, hc⟩
  · rw [h1, hc]
  · rw [h1, h2, hc]
  · rw [h1, h2, h3, hc]
  · rw [h1, h2, h3, h4, hc]
  · rw [h1, h2, h3, h4, h5, hc]
  · rw [h1, h2, h3, h4, h5, h6, hc]
  · rw [h1, h2, h3, h4, h5, h6, hc]

/-- The pieces `plainExt` cuts a text into are the text. -/
theorem plainExt_covers (text : Str) : ((plainExt.re1 text).map (·.text)).flatten = text :=
  Gen15P.pieces_cover text

/-! ### gemtext -/

/-- `renderWithLinks` of gemtext.go: the text and the link list, for all lines and every width
    (also zero and negative ones). -/
theorem gemtext_renderWithLinks_eq (c : Colors) (lines : List Str) (w : Int) :
    GenGemtext.renderWithLinks c Gen13.goExpand gemExt lines w = .ok (Gemtext.renderWithLinks c lines w) :=
  gem_loop c lines w

/-- `NewMarkup`: the lines of the text, rendered once at width 80 and remembered; the links. -/
theorem gemtext_newMarkup_eq (c : Colors) (text : Str) :
    GenGemtext.NewMarkup c Gen13.goExpand gemExt text =
      .ok (toGenG (Markup.new (Markup.gemR c) (splitNL text)), (Gemtext.renderWithLinks c (splitNL text) 80).2) :=
  gem_new c text

/-- `Render`: compare the width, else render and remember — the model's `Markup.render`, in the
    text returned and in the markup left behind. -/
theorem gemtext_render_eq (c : Colors) (m : Markup.M (List Str)) (w : Int) :
    GenGemtext.Render c Gen13.goExpand gemExt (toGenG m) w =
      .ok ((Markup.render (Markup.gemR c) m w).1, toGenG (Markup.render (Markup.gemR c) m w).2) :=
  gem_render c m w

/-- The translated `Render` called at a sequence of widths, each call on the markup the previous
    one left: all the texts and the final markup. -/
def gemtextRenderSeq (c : Colors) (m : GenGemtext.Markup) : List Int → Except Panic (List Str × GenGemtext.Markup)
  | [] => .ok ([], m)
  | w :: ws => do
    let r ← GenGemtext.Render c Gen13.goExpand gemExt m w
    let rest ← gemtextRenderSeq c r.2 ws
    return (r.1 :: rest.1, rest.2)

/-- The cache over any sequence of widths is the model's. -/
theorem gemtext_renderSeq_eq (c : Colors) (m : Markup.M (List Str)) (ws : List Int) :
    gemtextRenderSeq c (toGenG m) ws =
      .ok ((Markup.renderSeq (Markup.gemR c) m ws).1, toGenG (Markup.renderSeq (Markup.gemR c) m ws).2) := by
  induction ws generalizing m with
  | nil => rfl
  | cons w ws ih =>
    simp only [gemtextRenderSeq, gemtext_render_eq, Gen14.bind_ok, ih, Markup.renderSeq]
    rfl

/-! ### plain text -/

theorem plaintext_renderWithLinks_eq (c : Colors) (text : Str) (w : Int) :
    GenPlaintext.renderWithLinks c Gen13.goExpand plainExt text w = .ok (Plaintext.renderWithLinks c text w) :=
  plain_loop c text w

theorem plaintext_newMarkup_eq (c : Colors) (text : Str) :
    GenPlaintext.NewMarkup c Gen13.goExpand plainExt text =
      .ok (toGenP (Markup.new (Markup.plainR c) text), (Plaintext.renderWithLinks c text 80).2) :=
  plain_new c text

theorem plaintext_render_eq (c : Colors) (m : Markup.M Str) (w : Int) :
    GenPlaintext.Render c Gen13.goExpand plainExt (toGenP m) w =
      .ok ((Markup.render (Markup.plainR c) m w).1, toGenP (Markup.render (Markup.plainR c) m w).2) :=
  plain_render c m w

def plaintextRenderSeq (c : Colors) (m : GenPlaintext.Markup) : List Int → Except Panic (List Str × GenPlaintext.Markup)
  | [] => .ok ([], m)
  | w :: ws => do
    let r ← GenPlaintext.Render c Gen13.goExpand plainExt m w
    let rest ← plaintextRenderSeq c r.2 ws
    return (r.1 :: rest.1, rest.2)

theorem plaintext_renderSeq_eq (c : Colors) (m : Markup.M Str) (ws : List Int) :
    plaintextRenderSeq c (toGenP m) ws =
      .ok ((Markup.renderSeq (Markup.plainR c) m ws).1, toGenP (Markup.renderSeq (Markup.plainR c) m ws).2) := by
  induction ws generalizing m with
  | nil => rfl
  | cons w ws ih =>
    simp only [plaintextRenderSeq, plaintext_render_eq, Gen14.bind_ok, ih, Markup.renderSeq]
    rfl

end Gen15
