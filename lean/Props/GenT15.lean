import Model
import Generated.GoGemtext
import Props.C15
import Props.C12
import Props.Gen15
import Proofs.GenT15

/-
  C15 and C12 stated directly about the code as translated from gemtext/gemtext.go and
  plaintext/plaintext.go (`Generated/GoGemtext.lean`), carried across the equalities of
  `Props/Gen15.lean`: the translated functions return (no panic), every line of what they return
  is within the width (under the hypothesis `C15.gemtext_fits` has: `1 ≤ w`), `Render` at a
  width gives the text of `renderWithLinks` at that width whatever was rendered before, and the
  k-th link line carries the number k and is entry k of the link list.
  The model appears as the specification only (`C15.FitsShape`, `C12.ideal`, `GenT15.numbered`).
-/

namespace GenT15
open Str Ansi Gen15

/-! ### C15 (1): within the width -/

theorem gemtext_fits (c : Colors) (lines : List Str) (w : Int) (hw : 1 ≤ w) :
    ∃ out links, GenGemtext.renderWithLinks c Gen13.goExpand gemExt lines w = .ok (out, links) ∧
      C15.FitsShape isNl w out :=
  ⟨(Gemtext.renderWithLinks c lines w).1, (Gemtext.renderWithLinks c lines w).2,
    gemtext_renderWithLinks_eq c lines w, C15.gemtext_fits c lines w hw⟩

theorem plaintext_fits (c : Colors) (text : Str) (w : Int) (hw : 1 ≤ w) :
    ∃ out links, GenPlaintext.renderWithLinks c Gen13.goExpand plainExt text w = .ok (out, links) ∧
      C15.FitsShape isNl w out :=
  ⟨(Plaintext.renderWithLinks c text w).1, (Plaintext.renderWithLinks c text w).2,
    plaintext_renderWithLinks_eq c text w, C15.plaintext_fits c text w hw⟩

/-! ### C15 (2), (3): only content and width -/

/-- gemtext: make the markup from a text, render it at any sequence of widths, then at `w`: none
    of the calls panics, and the last one returns exactly what the translated `renderWithLinks`
    returns for the lines of the text at `w` (so, for `1 ≤ w`, a text within the width). -/
theorem gemtext_render_history_free (c : Colors) (text : Str) (ws : List Int) (w : Int) :
    ∃ m0 links0 outs m out m' links,
      GenGemtext.NewMarkup c Gen13.goExpand gemExt text = .ok (m0, links0) ∧
      gemtextRenderSeq c m0 ws = .ok (outs, m) ∧
      GenGemtext.Render c Gen13.goExpand gemExt m w = .ok (out, m') ∧
      GenGemtext.renderWithLinks c Gen13.goExpand gemExt (splitNL text) w = .ok (out, links) := by
  refine ⟨_, _, _, _, _, _, (Gemtext.renderWithLinks c (splitNL text) w).2, gemtext_newMarkup_eq c text,
    gemtext_renderSeq_eq c _ ws, gemtext_render_eq c _ w, ?_⟩
  rw [gemtext_renderWithLinks_eq, C15.render_history_free]
  rfl

/-- … and every text returned on the way is the one `renderWithLinks` returns at its width. -/
theorem gemtext_renderSeq_pure (c : Colors) (text : Str) (ws : List Int) :
    ∃ m0 links0 outs m,
      GenGemtext.NewMarkup c Gen13.goExpand gemExt text = .ok (m0, links0) ∧
      gemtextRenderSeq c m0 ws = .ok (outs, m) ∧
      ∀ i (h : i < ws.length), ∃ links,
        GenGemtext.renderWithLinks c Gen13.goExpand gemExt (splitNL text) ws[i] = .ok (outs[i]?.getD [], links) := by
  refine ⟨_, _, _, _, gemtext_newMarkup_eq c text, gemtext_renderSeq_eq c _ ws, ?_⟩
  intro i h
  rw [C15.renderSeq_pure, gemtext_renderWithLinks_eq]
  refine ⟨(Gemtext.renderWithLinks c (splitNL text) ws[i]).2, ?_⟩
  simp [h, Markup.gemR]

theorem plaintext_render_history_free (c : Colors) (text : Str) (ws : List Int) (w : Int) :
    ∃ m0 links0 outs m out m' links,
      GenPlaintext.NewMarkup c Gen13.goExpand plainExt text = .ok (m0, links0) ∧
      plaintextRenderSeq c m0 ws = .ok (outs, m) ∧
      GenPlaintext.Render c Gen13.goExpand plainExt m w = .ok (out, m') ∧
      GenPlaintext.renderWithLinks c Gen13.goExpand plainExt text w = .ok (out, links) := by
  refine ⟨_, _, _, _, _, _, (Plaintext.renderWithLinks c text w).2, plaintext_newMarkup_eq c text,
    plaintext_renderSeq_eq c _ ws, plaintext_render_eq c _ w, ?_⟩
  rw [plaintext_renderWithLinks_eq, C15.render_history_free]
  rfl

/-- The link list `NewMarkup` returns (at width 80) is the one `renderWithLinks` returns at any
    width: the numbers stay valid across resizes. -/
theorem gemtext_links_width_independent (c : Colors) (text : Str) (w : Int) :
    ∃ m0 links out,
      GenGemtext.NewMarkup c Gen13.goExpand gemExt text = .ok (m0, links) ∧
      GenGemtext.renderWithLinks c Gen13.goExpand gemExt (splitNL text) w = .ok (out, links) := by
  refine ⟨_, _, (Gemtext.renderWithLinks c (splitNL text) w).1, gemtext_newMarkup_eq c text, ?_⟩
  rw [gemtext_renderWithLinks_eq]
  exact congrArg Except.ok (Prod.ext rfl (C12.gemtext_links_width_independent c _ w 80))

/-! ### C12: the number after a link is its position in the link list -/

/-- gemtext: the translated code returns the model's text and link list, and the record of
    (number handed to `style.LinkBlock`, the line's own URI) is the ideal labelling of that list:
    the k-th link line carries the number k. -/
theorem gemtext_labels (c : Colors) (lines : List Str) (w : Int) :
    ∃ out links, GenGemtext.renderWithLinks c Gen13.goExpand gemExt lines w = .ok (out, links) ∧
      links = (Gemtext.renderFull c lines w).2.links ∧
      (Gemtext.renderFull c lines w).2.ghost = C12.ideal links :=
  ⟨(Gemtext.renderWithLinks c lines w).1, (Gemtext.renderWithLinks c lines w).2,
    gemtext_renderWithLinks_eq c lines w, rfl, C12.gemtext_labels c lines w⟩

theorem plaintext_labels (c : Colors) (text : Str) (w : Int) :
    ∃ out links, GenPlaintext.renderWithLinks c Gen13.goExpand plainExt text w = .ok (out, links) ∧
      links = (Plaintext.renderFull c text w).2.1 ∧
      (Plaintext.renderFull c text w).2.2 = C12.ideal links :=
  ⟨(Plaintext.renderWithLinks c text w).1, (Plaintext.renderWithLinks c text w).2,
    plaintext_renderWithLinks_eq c text w, rfl, C12.plaintext_labels c text w⟩

/-- The same without the ghost record: what the translated gemtext renderer returns is the final
    wrap and trim of `numbered … 0 …`, the document in which the link lines are numbered by an
    explicit count of the link lines before them, and its link list is `linkLines`, the URIs of
    those same lines in order. -/
theorem gemtext_numbered (c : Colors) (lines : List Str) (w : Int) :
    GenGemtext.renderWithLinks c Gen13.goExpand gemExt lines w =
      .ok (trim isNl (Ansi.wrap (GenT15P.numbered c w 0 false [] lines) w), GenT15P.linkLines false lines) := by
  rw [gemtext_renderWithLinks_eq]
  exact congrArg Except.ok (GenT15P.renderWithLinks_numbered c lines w)

/-- A link line outside a preformatted block that has `n` link lines before it is shown with the
    number `n + 1` — whatever comes before (that leaves no block open) and after — and is entry
    `n` of the link list. -/
theorem gemtext_kth_link_line (c : Colors) (w : Int) (before after : List Str) (line uri alt : Str)
    (hopen : GenT15P.openAfter false before = false) (hf : hasPrefix "```".toList line = false)
    (hl : Gemtext.classify line = .link uri alt) :
    let n := (GenT15P.linkLines false before).length
    GenT15P.numbered c w 0 false [] (before ++ line :: after) =
      GenT15P.body c w 0 false [] before ++
        (Style.linkBlock c (Ansi.wrap alt (w - 2)) (n + 1) ++ ['\n'] ++ GenT15P.numbered c w (n + 1) false [] after) ∧
    (GenT15P.linkLines false (before ++ line :: after))[n]? = some uri :=
  GenT15P.kth_link_line c w before after line uri alt hopen hf hl

/-! ### non-vacuity -/

/-- The translated code, run (`toOption`: `some` of the result when there is no panic): two link
    lines around a preformatted block that contains something looking like a link — the links
    are `a` and `b`, shown as ¹ and ², the block is kept as it is; rendered at 20, then at 80
    again (from nothing: the cache holds width 20 by then), the markup ends with width 80. -/
example :
    ((do let r ← GenGemtext.NewMarkup ⟨[], [], [], []⟩ Gen13.goExpand gemExt
                   "=> a A\n```\n=> x\n```\n=>b".toList
         let o ← gemtextRenderSeq ⟨[], [], [], []⟩ r.1 [20, 80]
         pure (r.2, o.1, o.2.cachedWidth)) : Except Panic _).toOption =
    some (["a".toList, "b".toList],
      ["‣ \x1b[38;2;m\x1b[4mA\x1b[0m\x1b[38;2;m¹\x1b[0m\n\x1b[48;2;m=\x1b[0m\x1b[48;2;m>\x1b[0m\x1b[48;2;m \x1b[0m\x1b[48;2;mx\x1b[0m\n‣ \x1b[38;2;m\x1b[4mb\x1b[0m\x1b[38;2;m²\x1b[0m".toList,
       "‣ \x1b[38;2;m\x1b[4mA\x1b[0m\x1b[38;2;m¹\x1b[0m\n\x1b[48;2;m=\x1b[0m\x1b[48;2;m>\x1b[0m\x1b[48;2;m \x1b[0m\x1b[48;2;mx\x1b[0m\n‣ \x1b[38;2;m\x1b[4mb\x1b[0m\x1b[38;2;m²\x1b[0m".toList],
      80) := by
  decide +kernel

/-- Plain text: two URLs, numbered ¹ and ², wrapped at 10. -/
example :
    ((GenPlaintext.renderWithLinks ⟨[], [], [], []⟩ Gen13.goExpand plainExt
        "see http://a.b/c and x://y".toList 10).toOption.map (·.2)) =
      some ["http://a.b/c".toList, "x://y".toList] := by
  decide +kernel

end GenT15
