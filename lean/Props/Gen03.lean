import Model
import Generated.GoJtp
import Proofs.C03

/-
  The tie by translation for C03 (what a response means): `Generated/GoJtp.lean` is produced from
  jtp/jtp.go by `extract/go2lean9.go` on every run — `parseStatusLine`, `parseContentType`,
  `parseLocation`, `validateHeaders` and `findLocation` (their `for { … }` as the recursive
  `…_loop`, terminating because every iteration reads a line and the rest is shorter: no fuel),
  and `Get_response`, the statements of `Get` after `buf := bufio.NewReader(connection)`.

  The world the code calls is the parameter `W : GenJtp.Ext …`.  Three theorems hold for every
  `W` (`parse…_sub`): the recognisers keep the one group of a match of exactly two elements and
  treat every other result of `FindStringSubmatch` as "no match" — never an index panic.  The
  others are about a `W` that is `Faithful`: `ReadString('\n')` is the model's `readLine`, the three
  regular expressions match what `Jtp.parseStatusLine` / `Jtp.headerValue` recognise (whole match
  and the group), `mime.Parse` and `Matches` are the model's.  `url.Parse`, `ResolveReference`,
  the JSON decoder stay arbitrary; `connection.Close()` is assumed to succeed where its result is
  tested (the model has no failing Close).  For such a `W` the translated functions compute what
  `Model/Jtp.lean` computes: `validateHeaders` = `Jtp.validateHeaders` (including the reader
  state handed to the decoder), `findLocation` = `Jtp.findLocation` followed by parsing and
  resolving the value, `Get_response` = `Jtp.exchange` followed by what `Jtp.get` does with the
  outcome (`replyOf`: decode / resolve, budget, the entry added to the cache).  A model failure
  corresponds to a returned error, so the equalities also say that the code never panics.
-/

namespace Gen03
open Jtp

variable {Url Doc : Type}

theorem readLine_shorter (s l r : Str) (h : readLine s = some (l, r)) : r.length < s.length := by
  have := readLine_spec h
  rw [this.1, List.length_append]; omega

/-- What the parameters of the translated code must be for it to be about the model's world. -/
structure Faithful (W : GenJtp.Ext Url Mime.MediaType Doc) : Prop where
  readString : W.readString = readLine
  statusLine : ∀ t, W.statusLineRegexp t = (parseStatusLine t).map fun s => [t, s]
  contentType : ∀ t, W.contentTypeRegexp t = (headerValue "content-type".toList t).map fun v => [t, v]
  location : ∀ t, W.locationRegexp t = (headerValue "location".toList t).map fun v => [t, v]
  mimeParse : W.mimeParse = Mime.parse
  mediaTypeMatches : W.mediaTypeMatches = Mime.MediaType.matchesAny

def ext (urlParse : Str → Option Url) (resolveReference : Url → Url → Url) (decode : Str → Option Doc)
    (closeFails : Bool) : GenJtp.Ext Url Mime.MediaType Doc where
  readString := readLine
  readString_shorter := readLine_shorter
  statusLineRegexp := fun t => (parseStatusLine t).map fun s => [t, s]
  contentTypeRegexp := fun t => (headerValue "content-type".toList t).map fun v => [t, v]
  locationRegexp := fun t => (headerValue "location".toList t).map fun v => [t, v]
  mimeParse := Mime.parse
  mediaTypeMatches := Mime.MediaType.matchesAny
  urlParse := urlParse
  resolveReference := resolveReference
  decode := decode
  closeFails := closeFails

theorem ext_faithful (up : Str → Option Url) (rr : Url → Url → Url) (dec : Str → Option Doc) (cf : Bool) :
    Faithful (ext up rr dec cf) :=
  ⟨rfl, fun _ => rfl, fun _ => rfl, fun _ => rfl, rfl, rfl⟩

/-- The one group of a submatch result: `len(matches) != 2` then `matches[1]`. -/
def group1 : Option (List Str) → Option Str
  | some [_, g] => some g
  | _ => none

theorem submatch_cases (m : Option (List Str)) :
    (decide (Go.len (Go.submatch m) ≠ 2) = true ∧ group1 m = none) ∨
    (∃ w g, m = some [w, g]) := by
  rcases m with _ | l
  · left; simp [Go.submatch, Go.len, group1]
  · rcases l with _ | ⟨a, _ | ⟨b, _ | ⟨c, l⟩⟩⟩
    · left; simp [Go.submatch, Go.len, group1]
    · left; simp [Go.submatch, Go.len, group1]
    · right; exact ⟨a, b, rfl⟩
    · left; simp [Go.submatch, Go.len, group1]; apply decide_eq_true; omega

variable (W : GenJtp.Ext Url Mime.MediaType Doc)

theorem parseStatusLine_sub (text : Str) :
    GenJtp.parseStatusLine W text = match group1 (W.statusLineRegexp text) with
      | some s => .ok s
      | none => .error .err := by
  unfold GenJtp.parseStatusLine
  rcases submatch_cases (W.statusLineRegexp text) with ⟨h1, h2⟩ | ⟨w, g, h⟩
  · simp only [h1, h2]; rfl
  · simp [h, Go.submatch, Go.len, Go.index, group1]


theorem parseContentType_sub (text : Str) :
    GenJtp.parseContentType W text = match group1 (W.contentTypeRegexp text) with
      | none => .ok (none, false)
      | some v => match W.mimeParse v with
        | none => .error .err
        | some m => .ok (some m, true) := by
  unfold GenJtp.parseContentType
  rcases submatch_cases (W.contentTypeRegexp text) with ⟨h1, h2⟩ | ⟨w, g, h⟩
  · simp only [h1, h2]; rfl
  · simp only [h, Go.submatch, Go.len, Go.index, group1]
    cases hm : W.mimeParse g <;> simp [hm]

theorem parseLocation_sub (text : Str) (base : Url) :
    GenJtp.parseLocation W text base = match group1 (W.locationRegexp text) with
      | none => .ok (none, false)
      | some v => match W.urlParse v with
        | none => .error .err
        | some r => .ok (some (W.resolveReference base r), true) := by
  unfold GenJtp.parseLocation
  rcases submatch_cases (W.locationRegexp text) with ⟨h1, h2⟩ | ⟨w, g, h⟩
  · simp only [h1, h2]; rfl
  · simp only [h, Go.submatch, Go.len, Go.index, group1]
    cases hm : W.urlParse g <;> simp [hm]

variable {W}

/-- A model result as a result of the translated code: the model's failure is a returned error. -/
def ofOption {α : Type} : Option α → Except Go.Fail α
  | some a => .ok a
  | none => .error .err

theorem parseStatusLine_eq (hW : Faithful W) (text : Str) :
    GenJtp.parseStatusLine W text = ofOption (Jtp.parseStatusLine text) := by
  rw [parseStatusLine_sub, hW.statusLine]
  cases Jtp.parseStatusLine text <;> rfl

theorem parseContentType_eq (hW : Faithful W) (text : Str) :
    GenJtp.parseContentType W text = match Jtp.parseContentType text with
      | .notCT => .ok (none, false)
      | .bad => .error .err
      | .ok m => .ok (some m, true) := by
  rw [parseContentType_sub, hW.contentType, hW.mimeParse]
  unfold Jtp.parseContentType
  cases headerValue "content-type".toList text with
  | none => rfl
  | some v => simp only [Option.map, group1]; cases Mime.parse v <;> rfl

theorem parseLocation_eq (hW : Faithful W) (text : Str) (base : Url) :
    GenJtp.parseLocation W text base = match headerValue "location".toList text with
      | none => .ok (none, false)
      | some v => match W.urlParse v with
        | none => .error .err
        | some r => .ok (some (W.resolveReference base r), true) := by
  rw [parseLocation_sub, hW.location]
  cases headerValue "location".toList text <;> rfl

theorem blank_eq (line : Str) :
    (decide (line = Go.str "\r\n") || decide (line = Go.str "\n")) = isBlankLine line := rfl

theorem validateHeaders_loop_eq (hW : Faithful W) (tol : List Str) :
    ∀ (fuel : Nat) (s : Str) (v : Bool), s.length < fuel →
      GenJtp.validateHeaders_loop W tol v s = ofOption (Jtp.validateHeaders tol fuel s v) := by
  intro fuel
  induction fuel with
  | zero => intro s v h; omega
  | succ fuel ih =>
    intro s v hlen
    rw [GenJtp.validateHeaders_loop, Jtp.validateHeaders]
    split
    · rename_i h; rw [hW.readString] at h; rw [h]; rfl
    · rename_i line rest h
      rw [hW.readString] at h; rw [h]
      have hr := readLine_shorter _ _ _ h
      simp only [blank_eq]
      cases hb : isBlankLine line with
      | true => cases v <;> rfl
      | false =>
        simp only [Bool.false_eq_true, if_false]
        rw [parseContentType_eq hW]
        cases Jtp.parseContentType line with
        | notCT => simp only []; exact ih rest v (by omega)
        | bad => rfl
        | ok m =>
          simp only [hW.mediaTypeMatches]
          cases m.matchesAny tol with
          | true => simpa using ih rest true (by omega)
          | false => rfl

theorem validateHeaders_eq (hW : Faithful W) (tol : List Str) (s : Str) :
    GenJtp.validateHeaders W s tol = ofOption (Jtp.validateHeaders tol (s.length + 1) s false) := by
  unfold GenJtp.validateHeaders
  exact validateHeaders_loop_eq hW tol _ s false (by omega)


/-- What `Get` makes of the raw value of a Location line: `url.Parse`, then `ResolveReference`
    on the link that was asked for. -/
def locOf (W : GenJtp.Ext Url Mime.MediaType Doc) (base : Url) : Option Str → Except Go.Fail (Option Url)
  | none => .error .err
  | some v => match W.urlParse v with
    | none => .error .err
    | some r => .ok (some (W.resolveReference base r))

theorem findLocation_loop_eq (hW : Faithful W) (base : Url) :
    ∀ (fuel : Nat) (s : Str), s.length < fuel →
      (GenJtp.findLocation_loop W base s).map Prod.fst = locOf W base (Jtp.findLocation fuel s) := by
  intro fuel
  induction fuel with
  | zero => intro s h; omega
  | succ fuel ih =>
    intro s hlen
    rw [GenJtp.findLocation_loop, Jtp.findLocation]
    split
    · rename_i h; rw [hW.readString] at h; rw [h]; rfl
    · rename_i line rest h
      rw [hW.readString] at h; rw [h]
      have hr := readLine_shorter _ _ _ h
      have hbl : isBlankLine line = (decide (line = Go.str "\r\n") || decide (line = Go.str "\n")) := rfl
      simp only []
      rw [hbl]
      by_cases hb : (decide (line = Go.str "\r\n") || decide (line = Go.str "\n")) = true
      · rw [if_pos hb, if_pos hb]; rfl
      · rw [if_neg hb, if_neg hb]
        rw [parseLocation_eq hW]
        cases headerValue "location".toList line with
        | none => simp only []; exact ih rest (by omega)
        | some v =>
          simp only [locOf]
          cases W.urlParse v <;> rfl

theorem findLocation_eq (hW : Faithful W) (s : Str) (base : Url) :
    (GenJtp.findLocation W s base).map Prod.fst = locOf W base (Jtp.findLocation (s.length + 1) s) := by
  unfold GenJtp.findLocation
  exact findLocation_loop_eq hW base _ s (by omega)

theorem redirect_test (status : Str) :
    Str.hasPrefix (Go.str "3") status = decide (status.head? = some '3') := by
  rcases status with _ | ⟨c, cs⟩
  · rfl
  · by_cases h : c = '3'
    · subst h; rfl
    · have h' : ¬ '3' = c := fun e => h e.symm
      simp [Str.hasPrefix, Go.str, List.isPrefixOf, h, h']

theorem success_test (status : Str) :
    (((decide (status ≠ Go.str "200") && decide (status ≠ Go.str "201")) && decide (status ≠ Go.str "202")) &&
      decide (status ≠ Go.str "203")) = !okStatuses.contains status := by
  have : okStatuses.contains status = decide (status ∈ okStatuses) := by simp
  rw [this, Bool.eq_iff_iff]
  simp [okStatuses, Go.str, and_assoc]
  exact ⟨fun ⟨a, b, c, d⟩ => ⟨of_decide_eq_true a, of_decide_eq_true b, of_decide_eq_true c, of_decide_eq_true d⟩,
    fun ⟨a, b, c, d⟩ => ⟨decide_eq_true a, decide_eq_true b, decide_eq_true c, decide_eq_true d⟩⟩

/-- What `Get` does with a classified response (the model's `get`, between `exchange` and the
    recursion): decode a document, resolve a Location and spend one unit of the budget. -/
def replyOf (W : GenJtp.Ext Url Mime.MediaType Doc) (link : Url) (maxRedirects : Nat) (key : Str) :
    Outcome → Except Go.Fail (GenJtp.Reply Url Doc)
  | .err => .error .err
  | .doc body => match W.decode body with
    | none => .error .err
    | some d => .ok (.done d (some link) [(key, { item := some d, source := some link, redirect := none })])
  | .redirect v => match W.urlParse v with
    | none => .error .err
    | some r =>
      if maxRedirects = 0 then .error .err
      else .ok (.again (some (W.resolveReference link r)) (maxRedirects - 1)
        [(key, { item := none, source := none, redirect := some (W.resolveReference link r) })])

/-- The statements of `Get` after the reader is set up compute the model's `exchange` on the bytes
    of the response, and then do with the outcome what the model's `get` does. -/
theorem response_eq (hW : Faithful W) (hc : W.closeFails = false) (link : Url) (tol : List Str)
    (n : Nat) (key : Str) (resp : Str) :
    GenJtp.Get_response W link tol n key resp = replyOf W link n key (exchange tol resp) := by
  unfold GenJtp.Get_response exchange
  rw [hW.readString]
  cases readLine resp with
  | none => rfl
  | some p =>
    obtain ⟨sl, rest⟩ := p
    simp only []
    rw [parseStatusLine_eq hW]
    cases Jtp.parseStatusLine sl with
    | none => rfl
    | some status =>
      simp only [ofOption, redirect_test, success_test, hc]
      by_cases h3 : status.head? = some '3'
      · simp only [h3, decide_true, if_true]
        have hf := findLocation_eq hW rest link
        cases hg : GenJtp.findLocation W rest link with
        | error e =>
          rw [hg] at hf
          cases hm : Jtp.findLocation (rest.length + 1) rest with
          | none => rw [hm] at hf; simp [Except.map, locOf] at hf; subst hf; rfl
          | some v =>
            rw [hm] at hf; simp only [locOf, Except.map] at hf
            simp only [replyOf]
            cases hu : W.urlParse v with
            | none => rw [hu] at hf; simp at hf; subst hf; rfl
            | some r => rw [hu] at hf; simp at hf
        | ok p =>
          obtain ⟨loc, b⟩ := p
          rw [hg] at hf
          cases hm : Jtp.findLocation (rest.length + 1) rest with
          | none => rw [hm] at hf; simp [Except.map, locOf] at hf
          | some v =>
            rw [hm] at hf; simp only [locOf, Except.map] at hf
            simp only [replyOf]
            cases hu : W.urlParse v with
            | none => rw [hu] at hf; simp at hf
            | some r =>
              rw [hu] at hf; simp at hf; subst hf
              by_cases hn : n = 0
              · simp [hn]
              · simp [hn, Go.usub]
      · simp only [h3, decide_false, Bool.false_eq_true, if_false]
        cases hok : okStatuses.contains status with
        | false => rfl
        | true =>
          simp only [Bool.not_true, Bool.false_eq_true, if_false, if_true]
          rw [validateHeaders_eq hW]
          cases Jtp.validateHeaders tol (rest.length + 1) rest false with
          | none => rfl
          | some body =>
            simp only [ofOption, replyOf]
            cases W.decode body <;> simp


/-- One hop of the model's `get` is the translated code: on a cache miss for an https link whose
    server answers `resp`, `Jtp.get` returns what the translated statements of `Get` return on
    `resp` — the document with its source, an error, or the recursive call on the resolved
    Location with the budget the code passes on — and files in the cache what the code adds
    (`Cache.add` under the same key).  Hypotheses: the decoder and `url.Parse`+`ResolveReference`
    of the code's world are the model's `Env.decode` / `Env.resolve` (URLs as their `String()`). -/
theorem get_fresh_eq (env : Env Doc) (W : GenJtp.Ext Jtp.Url Mime.MediaType Doc) (hW : Faithful W)
    (hc : W.closeFails = false) (hd : W.decode = env.decode) (tol : List Str) (u : Jtp.Url)
    (hr : ∀ v, (W.urlParse v).map (W.resolveReference u) = env.resolve u v)
    (budget : Nat) (cache : Cache Doc) (resp : Str)
    (hmiss : (cache.get (cacheKey tol u)).1 = none) (hs : env.https u = true)
    (hserve : env.serve u = some resp) :
    get env tol budget cache u =
      match GenJtp.Get_response W u tol budget (cacheKey tol u) resp with
      | .error _ => ⟨.err, (cache.get (cacheKey tol u)).2, [u]⟩
      | .ok (.done d _ _) =>
        ⟨.ok d u, ((cache.get (cacheKey tol u)).2).add (cacheKey tol u) (.doc d u), [u]⟩
      | .ok (.again none _ _) => ⟨.err, (cache.get (cacheKey tol u)).2, [u]⟩
      | .ok (.again (some t) b _) =>
        let r := get env tol b (((cache.get (cacheKey tol u)).2).add (cacheKey tol u) (.redirect t)) t
        ⟨r.res, r.cache, u :: r.requests⟩ := by
  rw [response_eq hW hc, Jtp.get]
  rcases hg : cache.get (cacheKey tol u) with ⟨e, c'⟩
  rw [hg] at hmiss; simp only at hmiss; subst hmiss
  simp only [hs, hserve, Bool.not_true, Bool.false_eq_true, if_false]
  cases exchange tol resp with
  | err => rfl
  | doc body =>
    simp only [replyOf, hd]
    cases env.decode body <;> rfl
  | redirect v =>
    simp only [replyOf]
    rw [← hr v]
    cases W.urlParse v with
    | none => rfl
    | some r =>
      cases budget with
      | zero => rfl
      | succ b => simp

end Gen03
