import Model
import Proofs.C12

/-
  C12 — the number shown next to a link opens exactly that link.
  The renderers carry a ghost list `(number printed, own target)` written at exactly the places
  where the number is handed to `style.Link` / `style.LinkBlock` (Model/Hypertext.lean,
  Model/Gemtext.lean).  Property theorems only; helper lemmas live in Proofs/C12.lean.
-/

namespace C12
open Str

/-- The labelling a link list ought to have: target `i` (0-based) is printed as `i + 1`. -/
def ideal (links : List Str) : List (Nat × Str) := links.zipIdx.map fun (l, i) => (i + 1, l)

/-- `ideal` is the copy the helper lemmas in Proofs/C12.lean are stated about. -/
theorem ideal_eq : @ideal = @C12P.ideal := rfl

/-- (1) HTML / Markdown: for every forest and width, each numbered element prints the index of
    its own target — nesting (a linked image, links in links) included — and the numbers are
    exactly 1..N in order of appearance. -/
theorem html_labels (c : Colors) (nodes : List Dom.Node) (w : Int) :
    (Hypertext.renderFull c nodes w).2.ghost = ideal (Hypertext.renderFull c nodes w).2.links :=
  (C12P.html_pair c nodes w w).2

/-- The link list itself does not depend on the width (numbers stay valid across resizes). -/
theorem html_links_width_independent (c : Colors) (nodes : List Dom.Node) (w w' : Int) :
    (Hypertext.renderFull c nodes w).2.links = (Hypertext.renderFull c nodes w').2.links :=
  congrArg Hypertext.LinkSt.links (C12P.html_pair c nodes w w').1

theorem gemtext_labels (c : Colors) (lines : List Str) (w : Int) :
    (Gemtext.renderFull c lines w).2.ghost = ideal (Gemtext.renderFull c lines w).2.links :=
  (C12P.gem_pair c lines w w).2

theorem gemtext_links_width_independent (c : Colors) (lines : List Str) (w w' : Int) :
    (Gemtext.renderFull c lines w).2.links = (Gemtext.renderFull c lines w').2.links :=
  (C12P.gem_pair c lines w w').1

theorem plaintext_labels (c : Colors) (text : Str) (w : Int) :
    (Plaintext.renderFull c text w).2.2 = ideal (Plaintext.renderFull c text w).2.1 :=
  C12P.plain_labels c text w

/-- Consequence: whatever number `k` an element printed, entry `k` of the link list is that
    element's own target. -/
theorem label_opens_own_target (links : List Str) (k : Nat) (t : Str) (h : (k, t) ∈ ideal links) :
    1 ≤ k ∧ links[k - 1]? = some t :=
  C12P.mem_ideal links k t h

/-- (3) Typing `k` opens exactly link `k`: body links first, then attachments, and nothing for
    any other integer. -/
theorem select_exact {α : Type} (body : List Str) (atts : List α) (k : Int) :
    Select.post body atts k =
      if h : 1 ≤ k ∧ k ≤ body.length then .body (body[(k - 1).toNat]'(by omega))
      else if h : body.length < k ∧ k ≤ body.length + atts.length then
        .attachment (atts[(k - 1).toNat - body.length]'(by omega))
      else .none :=
  C12P.select_exact body atts k

/-- The number `supplement` prints for attachment `i` selects attachment `i`. -/
theorem attachment_number_selects {α : Type} (body : List Str) (atts : List α) (i : Nat) (a : α)
    (h : atts[i]? = some a) :
    Select.post body atts (Select.attachmentNumber body i) = .attachment a :=
  C12P.attachment_number_selects body atts i a h

/-- Body link `i` (0-based, printed as `i+1` by the renderers) is selected by `i+1`. -/
theorem body_number_selects {α : Type} (body : List Str) (atts : List α) (i : Nat) (l : Str)
    (h : body[i]? = some l) : Select.post body atts ((i : Int) + 1) = .body l :=
  C12P.body_number_selects body atts i l h

theorem actor_select_exact (bio : List Str) (k : Int) :
    Select.actor bio k = if h : 1 ≤ k ∧ k ≤ bio.length then .body (bio[(k - 1).toNat]'(by omega)) else .none :=
  C12P.actor_select_exact bio k

/-- Numbers outside 1..N open nothing; in particular 0 and negative numbers. -/
theorem select_out_of_range {α : Type} (body : List Str) (atts : List α) (k : Int)
    (h : k < 1 ∨ k > body.length + atts.length) : Select.post body atts k = .none :=
  C12P.select_out_of_range body atts k h

/-- Non-vacuity: the linked image that used to be labelled 2/2. -/
example : (Hypertext.renderFull ⟨[], [], [], []⟩
    [.elem "a".toList [("href".toList, "A".toList)] [.elem "img".toList [("src".toList, "I".toList)] []]] 80).2.ghost
    = [(1, "A".toList), (2, "I".toList)] := by
  have hA : Ansi.scrub ['A'] = ['A'] := by decide
  have hI : Ansi.scrub ['I'] = ['I'] := by decide
  simp [Hypertext.renderFull, Hypertext.renderKids, Hypertext.renderNode, Hypertext.renderChildren,
    Hypertext.getAttribute, Hypertext.LinkSt.push, Hypertext.tagIn, Hypertext.headerLevel, hA, hI]

end C12
