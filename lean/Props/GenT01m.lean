import Props.Gen16m
import Props.Clean

/-
  C01 at the last step before the terminal, on translated code: `printRaw` of main.go
  (`GenMain.printRaw`, regenerated from the source on every run, `Props/Gen16m.lean`) is the
  function every frame passes through.

  * `terminal_gets_frame_and_cr`: what reaches the terminal for a clean frame (`Cells.Clean`) is
    the fixed prefix — cursor home, clear screen — and a text that, with its carriage returns
    removed, IS the frame, every carriage return standing directly before a line feed; so it is
    safe text in the sense of C01 once the two fixed sequences and the CRs are set aside.
  * `terminal_controls`: no character is added to the frame other than carriage returns.
-/

namespace GenT01m
open Go.Term Gen16m

/-- A clean frame has no carriage return in it. -/
theorem clean_no_cr (s : Str) (h : Cells.Clean s) : '\r' ∉ s := by
  exact Gen16mP.clean_no_cr s h

/-- **C01 at the terminal.**  What `printRaw` writes for a clean frame is the two fixed sequences
    and a text `t` that is the frame with carriage returns added: removing them gives the frame
    back (so what is left is clean, hence safe, text), and each of them stands directly before a
    line feed. -/
theorem terminal_gets_frame_and_cr (frame : Str) (h : Cells.Clean frame) :
    ∃ t, GenMain.printRaw none frame = .ok [Act.write (Main.home ++ Main.clear ++ t)] ∧
      t.filter (· ≠ '\r') = frame ∧
      Safe.safe (t.filter (· ≠ '\r')) = true ∧
      ∀ a b, t = a ++ '\r' :: b → b.head? = some '\n' := by
  have hcr := clean_no_cr frame h
  refine ⟨Main.crlf frame, by rw [printRaw_eq]; rfl, crlf_strip frame hcr, ?_,
    fun a b hs => crlf_cr_before_lf frame hcr a b hs⟩
  rw [crlf_strip frame hcr]
  exact CleanProps.clean_safe frame h

/-- The only control characters of what is written for a clean frame, beyond those of the frame
    itself (line feeds, the ESC of its SGR sequences), are carriage returns and the ESCs of the two
    fixed sequences. -/
theorem terminal_controls (frame : Str) (h : Cells.Clean frame) :
    ∃ t, GenMain.printRaw none frame = .ok [Act.write (Main.home ++ Main.clear ++ t)] ∧
      ∀ ch ∈ t, ch = '\r' ∨ ch ∈ frame := by
  -- cleanness is not needed here: this holds for every frame
  have _ := h
  exact ⟨Main.crlf frame, by rw [printRaw_eq]; rfl, fun ch hch => Gen16mP.crlf_mem frame ch hch⟩

end GenT01m
