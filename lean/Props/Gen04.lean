import Model
import Generated.GoJtpfront
import Proofs.C03
import Props.Gen03

/-
  The tie by translation for C04 / C05 (and the cache and redirect bookkeeping of C03): the
  statements of `jtp.Get` BEFORE `buf := bufio.NewReader(connection)` are translated from the
  source on every run by `extract/go2lean18.go` into `Generated/GoJtpfront.lean`
  (`GenJtpFront.Get_front`; `Get_once` = `Get_front` followed by the already translated
  `GenJtp.Get_response`).

  The world the code calls is the parameter `W : GenJtpFront.Ext Doc Conn` (what `cache.Get`
  finds, whether `tls.DialWithDialer` yields a connection, whether `SetDeadline` / `Write` fail,
  what the connection delivers); the link is a `Go.Net.URL`, the record of what the accessors of
  `*url.URL` return; `timeout` is `config.Parsed.Network.Timeout`.  Proved for EVERY `W`, link,
  accept string, tolerated list, budget and timeout:

  * the cache key is the model's `cacheKey` (`key_eq`), and `Get_front` is, case by case, what
    `front_spec` says (`front_eq`): the three outcomes of the lookup, the scheme test, the
    dial target, the deadline, the one write — with the model's `Jtp.request` for the bytes;
  * what is written is `Jtp.request link.RequestURI link.Host accept` (`written_eq`);
  * every connection goes to `JoinHostPort(Hostname, Port or "443")` (`dial_target`), which is
    `Hostname:Port` for a host without a colon (`joinHostPort_plain`);
  * a link whose scheme is not `https` never reaches the dialer (`non_https_never_dials`).

  And for a world that is the model's (`Tied`: the cache holds what the model's holds, `https`
  is the scheme test, `serve` is dial + what the connection delivers, decoder and resolver as
  in `Gen03`): one call of the translated `Get` is one step of `Jtp.get` (`get_step_eq`) —
  the cache hit, the remembered redirect followed with one unit less or refused at 0, and the
  miss with everything `Gen03.get_fresh_eq` says about the response.
-/

namespace Gen04
open Jtp GenJtpFront
open Go.Net (URL)

variable {Doc Conn : Type}

/-! ### The pieces -/

theorem join_eq (tol : List Str) : Go.Strings.join tol (Go.str ",") = List.intercalate [','] tol := by
  induction tol with
  | nil => rfl
  | cons a t ih =>
    cases t with
    | nil => simp [Go.Strings.join, List.intercalate]
    | cons b t =>
      rw [Go.Strings.join, ih]
      simp [List.intercalate, Go.str]
      intro h; cases h

/-- The key under which `Get` looks a link up: the model's. -/
theorem key_eq (tol : List Str) (link : URL) :
    ((Go.Strings.join tol (Go.str ",")) ++ (Go.str " ")) ++ link.String = cacheKey tol link.String := by
  rw [join_eq]; simp [cacheKey, Go.str]

/-- The operands of the one `connection.Write`, in the order of the source: the model's request. -/
theorem request_eq (uri host accept : Str) :
    ((((((((((Go.str "GET ") ++ uri) ++ (Go.str " HTTP/1.0\r\n")) ++ (Go.str "Host: ")) ++ host) ++
      (Go.str "\r\n")) ++ (Go.str "Accept: ")) ++ accept) ++ (Go.str "\r\n")) ++ (Go.str "\r\n"))
      = Jtp.request uri host accept := by
  have s1 : " HTTP/1.0\r\nHost: ".toList = " HTTP/1.0\r\n".toList ++ "Host: ".toList := by decide
  have s2 : "\r\nAccept: ".toList = "\r\n".toList ++ "Accept: ".toList := by decide
  have s3 : "\r\n\r\n".toList = "\r\n".toList ++ "\r\n".toList := by decide
  unfold Jtp.request Go.str
  rw [s1, s2, s3]
  simp only [List.append_assoc]

/-- The port a connection goes to: the link's, 443 when it names none. -/
def portOf (link : URL) : Str := if link.Port = Go.str "" then Go.str "443" else link.Port

/-- The address handed to the dialer. -/
def targetOf (link : URL) : Str := Go.Net.joinHostPort link.Hostname (portOf link)

/-- `net.JoinHostPort` on a host name or IPv4 literal: `host:port`. -/
theorem joinHostPort_plain (host port : Str) (h : ':' ∉ host) :
    Go.Net.joinHostPort host port = host ++ ':' :: port := by
  unfold Go.Net.joinHostPort
  have : host.contains ':' = false := by simpa using h
  rw [this]; simp [Go.str]

/-- … and on an IPv6 literal (`Hostname()` strips the brackets, `JoinHostPort` puts them back). -/
theorem joinHostPort_v6 (host port : Str) (h : ':' ∈ host) :
    Go.Net.joinHostPort host port = '[' :: host ++ ']' :: ':' :: port := by
  unfold Go.Net.joinHostPort
  have : host.contains ':' = true := by simpa using h
  rw [this]; simp [Go.str]

theorem usub_one (n : Nat) (h : n ≠ 0) : Go.usub n 1 = n - 1 := by
  unfold Go.usub; rw [if_pos (by omega)]

/-! ### What `Get_front` is -/

def refusedText : Str := Go.str "received a redirect after redirecting too many times"

def unsupportedText (scheme : Str) : Str := scheme ++ Go.str " is not supported in requests, only https"

/-- After a successful dial: the deadline if one is configured, then the request. -/
def afterDial (W : Ext Doc Conn) (timeout : Int) (link : URL) (accept : Str) (key : Str) (c : Conn) :
    Front Doc Conn :=
  let dialed : Act Conn := .dial (dialer timeout) (Go.str "tcp") (targetOf link)
  let req := Jtp.request link.RequestURI link.Host accept
  if timeout > 0 then
    if W.setDeadlineFails then
      .failed (.of "connection.SetDeadline") [dialed, .setDeadline c timeout, .close c]
    else if W.writeFails then
      .failed (.of "connection.Write") [dialed, .setDeadline c timeout, .write c req, .close c]
    else .reading key c [dialed, .setDeadline c timeout, .write c req]
  else
    if W.writeFails then .failed (.of "connection.Write") [dialed, .write c req, .close c]
    else .reading key c [dialed, .write c req]

/-- The front part of `Get`, written out by hand against the model's `cacheKey` and `request`. -/
def front_spec (W : Ext Doc Conn) (timeout : Int) (link : URL) (accept : Str) (tol : List Str)
    (n : Nat) : Front Doc Conn :=
  match W.cacheGet (cacheKey tol link.String) with
  | some b =>
    match b.redirect with
    | none => .done b.item b.source
    | some t => if n = 0 then .failed (.new refusedText) [] else .again (some t) (n - 1)
  | none =>
    if link.Scheme ≠ Go.str "https" then .failed (.new (unsupportedText link.Scheme)) []
    else match W.dial (dialer timeout) (Go.str "tcp") (targetOf link) with
      | none => .failed (.of "tls.DialWithDialer") [.dial (dialer timeout) (Go.str "tcp") (targetOf link)]
      | some c => afterDial W timeout link accept (cacheKey tol link.String) c

theorem front_eq (W : Ext Doc Conn) (timeout : Int) (link : URL) (accept : Str) (tol : List Str)
    (n : Nat) : Get_front W timeout link accept tol n = front_spec W timeout link accept tol n := by
  unfold Get_front front_spec
  simp only [key_eq, request_eq, decide_eq_true_eq, List.nil_append, List.cons_append]
  cases hg : W.cacheGet (cacheKey tol link.String) with
  | some b =>
    simp only []
    cases hr : b.redirect with
    | none => rfl
    | some t =>
      cases n with
      | zero => rfl
      | succ m =>
        have h0 : ¬ (m + 1 = 0) := by omega
        simp only [h0, if_false, usub_one _ h0]
        rfl
  | none =>
    have hp : (if link.Port = Go.str "" then Go.str "443" else link.Port) = portOf link := rfl
    have htg : Go.Net.joinHostPort link.Hostname (portOf link) = targetOf link := rfl
    simp only [hp, htg]
    by_cases hs : link.Scheme = Go.str "https"
    · rw [if_neg (show ¬ (link.Scheme ≠ Go.str "https") from fun h => h hs),
        if_neg (show ¬ (link.Scheme ≠ Go.str "https") from fun h => h hs)]
      change (match W.dial (dialer timeout) (Go.str "tcp") (targetOf link) with
        | none => _ | some c => _) = _
      cases hd : W.dial (dialer timeout) (Go.str "tcp") (targetOf link) with
      | none => rfl
      | some c =>
        simp only [afterDial]
    · rw [if_pos (show link.Scheme ≠ Go.str "https" from hs),
        if_pos (show link.Scheme ≠ Go.str "https" from hs)]; rfl

/-! ### Consequences, for every world -/

/-- What a result says was done on the network. -/
def actsOf : Front Doc Conn → List (Act Conn)
  | .done _ _ => []
  | .again _ _ => []
  | .failed _ a => a
  | .reading _ _ a => a

/-- Every result's network record is one of six shapes: nothing; a dial; a dial, then (if a
    positive timeout is configured) a deadline, then at most one write, then possibly a close. -/
theorem acts_shapes (W : Ext Doc Conn) (timeout : Int) (link : URL) (accept : Str) (tol : List Str) (n : Nat) :
    let d : Act Conn := .dial (dialer timeout) (Go.str "tcp") (targetOf link)
    let req := Jtp.request link.RequestURI link.Host accept
    actsOf (Get_front W timeout link accept tol n) = [] ∨
    actsOf (Get_front W timeout link accept tol n) = [d] ∨
    (∃ c, W.dial (dialer timeout) (Go.str "tcp") (targetOf link) = some c ∧ link.Scheme = Go.str "https" ∧
      ((timeout > 0 ∧ (actsOf (Get_front W timeout link accept tol n) = [d, .setDeadline c timeout, .close c] ∨
          actsOf (Get_front W timeout link accept tol n) = [d, .setDeadline c timeout, .write c req, .close c] ∨
          actsOf (Get_front W timeout link accept tol n) = [d, .setDeadline c timeout, .write c req])) ∨
       (¬ timeout > 0 ∧ (actsOf (Get_front W timeout link accept tol n) = [d, .write c req, .close c] ∨
          actsOf (Get_front W timeout link accept tol n) = [d, .write c req])))) := by
  intro d req
  rw [front_eq]; unfold front_spec
  cases W.cacheGet (cacheKey tol link.String) with
  | some b =>
    simp only []
    cases b.redirect with
    | none => left; rfl
    | some t => by_cases hn : n = 0 <;> simp [hn, actsOf]
  | none =>
    simp only []
    by_cases hs : link.Scheme = Go.str "https"
    · rw [if_neg (show ¬ (link.Scheme ≠ Go.str "https") from fun h => h hs)]
      cases hd : W.dial (dialer timeout) (Go.str "tcp") (targetOf link) with
      | none => right; left; rfl
      | some c =>
        right; right
        refine ⟨c, rfl, hs, ?_⟩
        simp only [afterDial]
        by_cases ht : timeout > 0
        · left; refine ⟨ht, ?_⟩
          rw [if_pos ht]
          cases W.setDeadlineFails <;> cases W.writeFails <;> simp [actsOf, d, req]
        · right; refine ⟨ht, ?_⟩
          rw [if_neg ht]
          cases W.writeFails <;> simp [actsOf, d, req]
    · rw [if_pos (show link.Scheme ≠ Go.str "https" from hs)]; left; rfl

/-- The bytes the translated code writes are the model's request, for every link and accept
    string: request line with `RequestURI()`, `Host:` with `link.Host`, `Accept:`, blank line. -/
theorem written_eq (W : Ext Doc Conn) (timeout : Int) (link : URL) (accept : Str) (tol : List Str) (n : Nat)
    (c : Conn) (bytes : Str) (h : Act.write c bytes ∈ actsOf (Get_front W timeout link accept tol n)) :
    bytes = Jtp.request link.RequestURI link.Host accept := by
  rcases acts_shapes W timeout link accept tol n with e | e | ⟨c', _, _, ⟨_, e | e | e⟩ | ⟨_, e | e⟩⟩ <;>
    rw [e] at h <;> simp at h <;> exact h.2

/-- Every connection goes to `JoinHostPort(Hostname(), Port())`, port 443 when the link names none,
    over "tcp" with the package's dialer. -/
theorem dial_target (W : Ext Doc Conn) (timeout : Int) (link : URL) (accept : Str) (tol : List Str) (n : Nat)
    (d : Go.Net.Dialer) (network addr : Str)
    (h : Act.dial d network addr ∈ actsOf (Get_front W timeout link accept tol n)) :
    d = dialer timeout ∧ network = Go.str "tcp" ∧
      addr = Go.Net.joinHostPort link.Hostname (if link.Port = [] then "443".toList else link.Port) := by
  have ht : targetOf link = Go.Net.joinHostPort link.Hostname (if link.Port = [] then "443".toList else link.Port) := rfl
  rw [← ht]
  rcases acts_shapes W timeout link accept tol n with e | e | ⟨c', _, _, ⟨_, e | e | e⟩ | ⟨_, e | e⟩⟩ <;>
    rw [e] at h <;> simp at h <;> exact h

/-- A link whose scheme is not `https` never reaches the dialer: nothing at all is done on the
    network, whatever the cache holds. -/
theorem non_https_never_dials (W : Ext Doc Conn) (timeout : Int) (link : URL) (accept : Str) (tol : List Str)
    (n : Nat) (hs : link.Scheme ≠ Go.str "https") :
    actsOf (Get_front W timeout link accept tol n) = [] := by
  rw [front_eq]; unfold front_spec
  cases W.cacheGet (cacheKey tol link.String) with
  | some b =>
    simp only []
    cases b.redirect with
    | none => rfl
    | some t => by_cases hn : n = 0 <;> simp [hn, actsOf]
  | none => simp only []; rw [if_pos hs]; rfl

/-! ### One call of the translated `Get` is one step of the model's `get` -/

/-- A bundle in the code's cache stands for an entry of the model's (URLs as their `String()`):
    the two shapes `Get` files (`GenJtp.Get_response`, `Gen03.replyOf`). -/
inductive Rep : GenJtp.bundle URL Doc → Entry Doc → Prop where
  | doc (d : Doc) (s : URL) : Rep { item := some d, source := some s, redirect := none } (.doc d s.String)
  | redirect (t : URL) : Rep { item := none, source := none, redirect := some t } (.redirect t.String)

/-- The connections a network record opened, as the model counts them: one per dial. -/
def opened (u : Url) (acts : List (Act Conn)) : List Url :=
  acts.filterMap fun a => match a with
    | .dial _ _ _ => some u
    | _ => none

/-- One call of `Get` as translated — `Get_front`, the reader, `Get_response` — in a world that is
    the model's at this link: the cache lookup finds what the model's cache holds under the key,
    `https` is the scheme test, `serve` is the dial followed by what the connection delivers,
    `SetDeadline`/`Write`/`Close` do not fail (the model has no such failures), decoder and
    resolver as in `Gen03.get_fresh_eq`.  Then `Jtp.get` at this link is: the remembered document;
    the model's `get` at the remembered redirect with one unit less, or an error at budget 0; an
    error without a connection for another scheme; an error after one connection when the dial
    fails; otherwise what the translated response part returns, with the entry it files. -/
theorem get_step_eq (env : Env Doc) (V : GenJtp.Ext URL Mime.MediaType Doc) (W : Ext Doc Conn)
    (timeout : Int) (link : URL) (accept : Str) (tol : List Str) (budget : Nat) (cache : Cache Doc)
    (hV : Gen03.Faithful V) (hc : V.closeFails = false) (hd : V.decode = env.decode)
    (hr : ∀ v, (V.urlParse v).map (fun r => (V.resolveReference link r).String) = env.resolve link.String v)
    (hs : env.https link.String = decide (link.Scheme = Go.str "https"))
    (hserve : env.serve link.String = (W.dial (dialer timeout) (Go.str "tcp") (targetOf link)).map W.newReader)
    (hdl : W.setDeadlineFails = false) (hw : W.writeFails = false)
    (hcache : match (cache.get (cacheKey tol link.String)).1 with
      | none => W.cacheGet (cacheKey tol link.String) = none
      | some e => ∃ b, W.cacheGet (cacheKey tol link.String) = some b ∧ Rep b e) :
    get env tol budget cache link.String =
      (let u := link.String
       let key := cacheKey tol u
       let cache' := (cache.get key).2
       match Get_once V W timeout link accept tol budget with
       | .front (.done (some d) (some src)) => ⟨.ok d src.String, cache', []⟩
       | .front (.again (some t) b) => get env tol b cache' t.String
       | .front (.failed _ acts) => ⟨.err, cache', opened u acts⟩
       | .front _ => ⟨.err, cache', []⟩
       | .response acts (.error _) => ⟨.err, cache', opened u acts⟩
       | .response acts (.ok (.done d _ _)) => ⟨.ok d u, cache'.add key (.doc d u), opened u acts⟩
       | .response acts (.ok (.again none _ _)) => ⟨.err, cache', opened u acts⟩
       | .response acts (.ok (.again (some t) b _)) =>
         let r := get env tol b (cache'.add key (.redirect t.String)) t.String
         ⟨r.res, r.cache, opened u acts ++ r.requests⟩) := by
  unfold Get_once
  rw [front_eq, Jtp.get]; unfold front_spec
  dsimp only
  rcases hg : cache.get (cacheKey tol link.String) with ⟨e, c'⟩
  rw [hg] at hcache
  simp only
  cases e with
  | some e =>
    obtain ⟨b, hb, hrep⟩ := hcache
    rw [hb]
    cases hrep with
    | doc d s => rfl
    | redirect t =>
      cases budget with
      | zero => rfl
      | succ m => rfl
  | none =>
    simp only at hcache
    rw [hcache]
    simp only [hs]
    by_cases hsch : link.Scheme = Go.str "https"
    · rw [if_neg (show ¬ (link.Scheme ≠ Go.str "https") from fun h => h hsch)]
      simp only [hsch, decide_true, Bool.not_true, Bool.false_eq_true, if_false, hserve]
      cases hdial : W.dial (dialer timeout) (Go.str "tcp") (targetOf link) with
      | none => rfl
      | some c =>
        simp only [afterDial, hdl, hw, Bool.false_eq_true, if_false, Option.map]
        by_cases ht : timeout > 0
        · rw [if_pos ht]
          simp only [Gen03.response_eq hV hc]
          cases exchange tol (W.newReader c) with
          | err => rfl
          | doc body =>
            simp only [Gen03.replyOf, hd]
            cases env.decode body <;> rfl
          | redirect v =>
            simp only [Gen03.replyOf]
            rw [← hr v]
            cases V.urlParse v with
            | none => rfl
            | some r =>
              cases budget with
              | zero => rfl
              | succ b => simp [opened]
        · rw [if_neg ht]
          simp only [Gen03.response_eq hV hc]
          cases exchange tol (W.newReader c) with
          | err => rfl
          | doc body =>
            simp only [Gen03.replyOf, hd]
            cases env.decode body <;> rfl
          | redirect v =>
            simp only [Gen03.replyOf]
            rw [← hr v]
            cases V.urlParse v with
            | none => rfl
            | some r =>
              cases budget with
              | zero => rfl
              | succ b => simp [opened]
    · rw [if_pos (show link.Scheme ≠ Go.str "https" from hsch)]
      simp [hsch, opened]

/-- The hypotheses of `get_step_eq` can be met, for every model world, cache and link whose
    scheme field agrees with the model's `https`: connections are the responses they deliver, the
    cache lookup is the model's, URLs are records of their `String()`. -/
def urlOf (s : Str) : URL := { String := s }

def bundleOf : Entry Doc → GenJtp.bundle URL Doc
  | .doc d s => { item := some d, source := some (urlOf s), redirect := none }
  | .redirect t => { item := none, source := none, redirect := some (urlOf t) }

theorem step_hypotheses_hold (env : Env Doc) (cache : Cache Doc) (tol : List Str) (timeout : Int) (link : URL) :
    ∃ (V : GenJtp.Ext URL Mime.MediaType Doc) (W : Ext Doc Str),
      Gen03.Faithful V ∧ V.closeFails = false ∧ V.decode = env.decode ∧
      (∀ v, (V.urlParse v).map (fun r => (V.resolveReference link r).String) = env.resolve link.String v) ∧
      env.serve link.String = (W.dial (dialer timeout) (Go.str "tcp") (targetOf link)).map W.newReader ∧
      W.setDeadlineFails = false ∧ W.writeFails = false ∧
      (match (cache.get (cacheKey tol link.String)).1 with
        | none => W.cacheGet (cacheKey tol link.String) = none
        | some e => ∃ b, W.cacheGet (cacheKey tol link.String) = some b ∧ Rep b e) := by
  refine ⟨Gen03.ext (fun v => (env.resolve link.String v).map urlOf) (fun _ r => r) env.decode false,
    { cacheGet := fun k => ((cache.get k).1).map bundleOf, dial := fun _ _ _ => env.serve link.String,
      setDeadlineFails := false, writeFails := false, newReader := id },
    Gen03.ext_faithful _ _ _ _, rfl, rfl, ?_, ?_, rfl, rfl, ?_⟩
  · intro v
    show ((env.resolve link.String v).map urlOf).map (fun r => r.String) = _
    cases env.resolve link.String v <;> rfl
  · show _ = (env.serve link.String).map id
    cases env.serve link.String <;> rfl
  · show match (cache.get (cacheKey tol link.String)).1 with
      | none => ((cache.get (cacheKey tol link.String)).1).map bundleOf = none
      | some e => ∃ b, ((cache.get (cacheKey tol link.String)).1).map bundleOf = some b ∧ Rep b e
    cases (cache.get (cacheKey tol link.String)).1 with
    | none => rfl
    | some e =>
      refine ⟨bundleOf e, rfl, ?_⟩
      cases e with
      | doc d s => exact Rep.doc d (urlOf s)
      | redirect t => exact Rep.redirect (urlOf t)

end Gen04
