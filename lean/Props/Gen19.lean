import Model
import Generated.GoConfig
import Props.C19

/-
  C19 on the code as it is written: `config.postprocess`, the `Config` struct and the defaults of
  `parse`, translated from config/config.go on every run (`Generated/GoConfig.lean`), agree with
  the hand-written model the C19 theorems are about — on every decoded configuration, with the
  sizes in wrapping 64-bit arithmetic.  A bound dropped from the Go code, a changed order of the
  checks, another default or another unit conversion breaks one of these theorems.
-/

namespace Gen19
open Config

/-- A decoded configuration as the translated struct. -/
def ofRaw (r : Raw) : GenConfig.Config :=
  { Media_Hook := r.hook, Style_Colors_Primary := r.primary, Style_Colors_Error := r.error,
    Style_Colors_Highlight := r.highlight, Style_Colors_Code := r.code,
    Network_Context := r.context, Network_Timeout := r.timeout, Network_CacheSize := r.cacheSize }

/-- An accepted configuration as the translated struct (the duration in nanoseconds). -/
def ofParsed (p : Parsed) : GenConfig.Config :=
  { Media_Hook := p.hook, Style_Colors_Primary := p.colors.primary, Style_Colors_Error := p.colors.error,
    Style_Colors_Highlight := p.colors.highlight, Style_Colors_Code := p.colors.code,
    Network_Context := p.context, Network_Timeout := p.timeoutNanos, Network_CacheSize := p.cacheSize }

/-- The key a diagnostic names, as in the Go messages. -/
def key : Diag → String
  | .primary => "style.colors.primary"
  | .error => "style.colors.error"
  | .highlight => "style.colors.highlight"
  | .code => "style.colors.code"
  | .hook => "media.hook"
  | .context => "network.preload_amount"
  | .timeout => "network.timeout_seconds"
  | .cacheSize => "network.cache_size"

theorem wrap64_eq (x : Int) : Go.wrap64 x = Config.wrap64 x := rfl

/-- The translated `postprocess` is the modelled one: same verdict, same key, same result. -/
theorem postprocess_eq (r : Raw) :
    GenConfig.postprocess hexToAnsi (ofRaw r) =
      match postprocess r with
      | .error d => .error (key d)
      | .ok p => .ok (ofParsed p) := by
  have hmax : Go.idiv 9223372036854775807 1000000000 = 9223372036 := by decide
  have hlen : ∀ l : List Str, (Go.len l = 0) ↔ l = [] := by
    intro l; cases l <;> simp [Go.len] <;> omega
  obtain ⟨hook, pr, er, hi, co, ctx, to, cs⟩ := r
  unfold GenConfig.postprocess Config.postprocess
  simp only [ofRaw, hmax]
  cases h1 : hexToAnsi pr <;> simp [bind, Except.bind, throw, throwThe, MonadExceptOf.throw, pure, Except.pure, key]
  cases h2 : hexToAnsi er <;> simp
  cases h3 : hexToAnsi hi <;> simp
  cases h4 : hexToAnsi co <;> simp
  by_cases c1 : hook = []
  · simp [c1, Go.len]
  have c1' : ¬ Go.len hook = 0 := fun h => c1 ((hlen hook).1 h)
  simp [c1, c1']
  by_cases c2 : ctx < 0
  · simp [c2]
  by_cases c3 : ctx > maxPreload
  · have c3' : ctx > 2147483647 := c3
    simp [c2, c3, c3']
  have c3' : ¬ ctx > 2147483647 := c3
  by_cases c4 : to < 0
  · simp [c2, c3, c3', c4]
  by_cases c5 : cs < 1
  · simp [c2, c3, c3', c4, c5]
  by_cases c6 : to > maxSeconds
  · have c6' : to > 9223372036 := c6
    simp [c2, c3, c3', c4, c5, c6, c6']
  have c6' : ¬ to > 9223372036 := c6
  simp [c2, c3, c3', c4, c5, c6, c6', ofParsed, wrap64_eq]

/-- The defaults `parse` installs are the modelled ones. -/
theorem defaults_eq : GenConfig.defaults = ofRaw defaults := by
  rfl

/-- C19 (2) on the translated code: whatever the Go `postprocess` accepts is safe to run with —
    and the duration it leaves in the struct is the configured number of seconds, not wrapped. -/
theorem generated_accepted_safe (r : Raw) (c : GenConfig.Config)
    (h : GenConfig.postprocess hexToAnsi (ofRaw r) = .ok c) :
    ∃ p, postprocess r = .ok p ∧ Safe p ∧ c = ofParsed p ∧
      c.Network_Timeout = r.timeout * 1000000000 ∧ 0 ≤ c.Network_Timeout ∧
      0 ≤ c.Network_Context ∧ c.Network_Context ≤ 2147483647 ∧ 1 ≤ c.Network_CacheSize ∧
      c.Media_Hook ≠ [] := by
  rw [postprocess_eq] at h
  cases hp : postprocess r with
  | error d => rw [hp] at h; cases h
  | ok p =>
    rw [hp] at h
    have hc : c = ofParsed p := (Except.ok.inj h).symm
    subst hc
    have hs := postprocess_safe hp
    obtain ⟨cp, ce, ch, cc, _, _, _, _, hhook, h1, h2, h3, h4, h5, rfl⟩ := postprocess_ok_inv hp
    refine ⟨_, rfl, hs, rfl, ?_, ?_, h1, h5, h3, hhook⟩
    · exact wrap64_seconds h2 h4
    · show 0 ≤ wrap64 (r.timeout * 1000000000)
      rw [wrap64_seconds h2 h4]; omega

/-- The translated code rejects exactly what the model rejects, naming the same key. -/
theorem generated_rejects_iff (r : Raw) (k : String) :
    GenConfig.postprocess hexToAnsi (ofRaw r) = .error k ↔
      ∃ d, postprocess r = .error d ∧ key d = k := by
  rw [postprocess_eq]
  cases hp : postprocess r with
  | error d =>
    constructor
    · intro h; exact ⟨d, rfl, Except.error.inj h⟩
    · rintro ⟨d', hd, rfl⟩; cases hd; rfl
  | ok p =>
    constructor
    · intro h; cases h
    · rintro ⟨d', hd, _⟩; cases hd

/-- The defaults of the Go code are accepted by the Go code. -/
theorem generated_defaults_accepted :
    ∃ c, GenConfig.postprocess hexToAnsi GenConfig.defaults = .ok c := by
  obtain ⟨p, hp, _⟩ := C19.defaults_accepted
  refine ⟨ofParsed p, ?_⟩
  rw [defaults_eq, postprocess_eq, hp]

end Gen19
