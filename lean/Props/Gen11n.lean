import Model.Splicer
import Model.Ui
import Generated.GoSplicer
import Generated.GoGlue
import Proofs.Gen11

/-
  The tie by translation for `splicer.NewSplicer` (C11: what a feed is made of; C05: a feed opens —
  `wg.Wait()` returns): `extract/go2lean27.go` translates the constructor into
  `GenGlue.NewSplicer` and the goroutine it starts per input into `GenGlue.NewSplicer_go1`.  The
  goroutine is a function of its input and of the cell `s[i]` (the translator accepts the fan-out
  only if each closure writes `s[i]` alone, so the goroutines commute and are run in index order);
  its second result is the number of `wg.Done()` executed on the path taken, and the second result
  of `NewSplicer` is the counter `wg.Wait()` sees.

  Below: every path of the goroutine that does not panic executes `Done` exactly once, so the
  counter at `Wait` is 0 for every list of inputs (`Wait` returns: a feed cannot hang there); the
  result has one entry per input, in input order; what each kind of fetched value becomes; the only
  panic is the explicit one for a value that is neither a `pub.Tangible` nor a `*pub.Collection`; and
  with the model's `fetchUserInput` / `children` for the external functions the result is the model's
  `Ui.newSplicer` (what `switchTo` is given for a feed, and what the harness' `splice` op assumes a
  source is: basepoint 0, no buffered element, a page or none).
-/

namespace Gen11n
open GenGlue

variable {V Container Tangible Collection : Type}

/-- what one input becomes -/
def source (X : Ext V Container Tangible Collection) (input : Str) : Except Panic (GenSplicer.Source Container Tangible) :=
  match X.as_Tangible (X.FetchUserInput input) with
  | some t => .ok { basepoint := 0, page := X.Children t, elements := [] }
  | none =>
    match X.as_Collection (X.FetchUserInput input) with
    | some c => .ok { basepoint := 0, page := some (X.Collection_asContainer c), elements := [] }
    | none => .error (.explicit "cannot splice non-Tangible, non-Collection")

/-- the goroutine, path by path: the case `pub.Tangible` is tried first, then `*pub.Collection`; whatever
    the cell held before is overwritten; `Done` is executed once on both; anything else panics. -/
theorem go_eq (X : Ext V Container Tangible Collection) (input : Str) (cell : GenSplicer.Source Container Tangible) :
    NewSplicer_go1 X input cell = (source X input).map (fun c => (c, 1)) := by
  unfold NewSplicer_go1 source
  dsimp only
  cases h1 : X.as_Tangible (X.FetchUserInput input) with
  | some t => rfl
  | none =>
    dsimp only
    cases h2 : X.as_Collection (X.FetchUserInput input) with
    | some c => rfl
    | none => rfl

/-- **every path of the goroutine that ends reaches `wg.Done()` exactly once.** -/
theorem done_exactly_once (X : Ext V Container Tangible Collection) (input : Str) (cell c : GenSplicer.Source Container Tangible) (d : Nat)
    (h : NewSplicer_go1 X input cell = .ok (c, d)) : d = 1 := by
  rw [go_eq] at h
  cases hs : source X input with
  | error e => rw [hs] at h; cases h
  | ok c' => rw [hs] at h; cases h; rfl

/-- the only other path is the explicit panic (which ends the program: no `Wait` is left waiting). -/
theorem go_panics_only_explicitly (X : Ext V Container Tangible Collection) (input : Str) (cell : GenSplicer.Source Container Tangible) (e : Panic)
    (h : NewSplicer_go1 X input cell = .error e) :
    e = .explicit "cannot splice non-Tangible, non-Collection" ∧
    X.as_Tangible (X.FetchUserInput input) = none ∧ X.as_Collection (X.FetchUserInput input) = none := by
  rw [go_eq] at h
  unfold source at h
  cases h1 : X.as_Tangible (X.FetchUserInput input) with
  | some t => rw [h1] at h; cases h
  | none =>
    rw [h1] at h
    cases h2 : X.as_Collection (X.FetchUserInput input) with
    | some c => rw [h2] at h; cases h
    | none => rw [h2] at h; cases h; exact ⟨rfl, rfl, rfl⟩

/-- the loop of `NewSplicer`: cell `k` is replaced by what input `k` becomes, the counter comes back unchanged -/
theorem ns_loop {σ : Type} (inputs : List Str)
    (f : Int → List σ × Int → Except Panic (ForInStep (List σ × Int))) (g : Str → Except Panic σ)
    (hf : ∀ (a : List σ) (x : σ) (b : List σ) (i : Str) (w : Int), inputs[a.length]? = some i →
      f (a.length : Int) (a ++ x :: b, w) =
        match g i with
        | .ok y => .ok (.yield (a ++ y :: b, w))
        | .error e => .error e)
    (ins pre : List Str) (hin : inputs = pre ++ ins) (done rest : List σ) (w : Int)
    (h1 : done.length = pre.length) (h2 : rest.length = ins.length) :
    forIn ((List.range' pre.length ins.length).map fun (k : Nat) => (k : Int)) (done ++ rest, w) f
      = match ins.mapM g with
        | .ok ys => .ok (done ++ ys, w)
        | .error e => .error e := by
  induction ins generalizing pre done rest with
  | nil =>
    cases rest with
    | nil => simp [pure, Except.pure]
    | cons x r => simp at h2
  | cons i ins ih =>
    cases rest with
    | nil => simp at h2
    | cons x rest =>
      simp only [List.length_cons, List.range'_succ, List.map_cons, List.forIn_cons, List.mapM_cons]
      have hi : inputs[done.length]? = some i := by
        rw [hin, h1]; simp
      rw [← h1, hf done x rest i w hi]
      cases hg : g i with
      | error e => simp [bind, Except.bind]
      | ok y =>
        simp only [bind, Except.bind]
        have := ih (pre ++ [i]) (by rw [hin]; simp) (done ++ [y]) rest (by simp [h1]) (by simpa using h2)
        simp only [List.length_append, List.length_cons, List.length_nil, List.append_assoc, List.cons_append, List.nil_append] at this
        rw [h1, this]
        cases ins.mapM g with
        | error e => rfl
        | ok ys => simp [pure, Except.pure]

theorem index_mid' {α : Type} (a : List α) (x : α) (b : List α) :
    Go.index (a ++ x :: b) (a.length : Int) = .ok x := Gen11P.index_mid a x b

/-- **`NewSplicer`, for every list of inputs**: the sources the inputs become, in input order, and the
    counter `wg.Wait()` sees is 0 — or the panic of the first input that is neither kind of value. -/
theorem newSplicer_eq (X : Ext V Container Tangible Collection) (inputs : List Str) :
    NewSplicer X inputs = (inputs.mapM (source X)).map (fun s => (s, (0 : Int))) := by
  unfold NewSplicer
  simp only [Gen11P.indices_eq, Go.make, Go.len]
  have h0 : ¬ ((inputs.length : Int) < 0) := by omega
  simp only [h0, if_false, Int.toNat_natCast, bind, Except.bind]
  have hl := ns_loop inputs
    (fun i (__s : List (GenSplicer.Source Container Tangible) × Int) => do
      let input ← Go.index inputs i
      let __do_lift ← Go.index __s.fst i
      let r ← NewSplicer_go1 X input __do_lift
      let s ← Go.modify __s.fst i fun _ => r.fst
      pure (ForInStep.yield (s, __s.snd + 1 - (r.snd : Int))))
    (source X) ?_ inputs [] rfl [] (List.replicate inputs.length Go.zero) 0 rfl (by simp)
  · simp only [List.length_nil, List.nil_append, bind, Except.bind] at hl
    rw [hl]
    cases inputs.mapM (source X) <;> rfl
  · intro a x b i w hi
    have hix : Go.index inputs (a.length : Int) = .ok i := Gen11P.index_nat inputs a.length i hi
    simp only [hix, Gen11P.index_mid, go_eq, bind, Except.bind]
    cases source X i with
    | error e => rfl
    | ok y =>
      simp only [Except.map, Gen11P.modify_mid, pure, Except.pure]
      congr 3
      omega

/-- **`wg.Wait()` returns**: whenever `NewSplicer` gets as far as `Wait`, the counter is 0. -/
theorem wait_returns (X : Ext V Container Tangible Collection) (inputs : List Str) (s : GenSplicer.Splicer Container Tangible) (w : Int)
    (h : NewSplicer X inputs = .ok (s, w)) : w = 0 := by
  rw [newSplicer_eq] at h
  cases hm : inputs.mapM (source X) with
  | error e => rw [hm] at h; cases h
  | ok ys => rw [hm] at h; cases h; rfl

theorem mapM_get {α β : Type} (g : α → Except Panic β) (xs : List α) (ys : List β) (h : xs.mapM g = .ok ys) :
    ys.length = xs.length ∧ ∀ (k : Nat) x, xs[k]? = some x → ∃ y, ys[k]? = some y ∧ g x = .ok y := by
  induction xs generalizing ys with
  | nil =>
    simp [pure, Except.pure] at h
    cases h
    exact ⟨rfl, by simp⟩
  | cons x xs ih =>
    simp only [List.mapM_cons, bind, Except.bind] at h
    cases hx : g x with
    | error e => rw [hx] at h; cases h
    | ok y =>
      rw [hx] at h
      simp only [] at h
      cases hr : xs.mapM g with
      | error e => rw [hr] at h; cases h
      | ok r =>
        rw [hr] at h
        cases h
        have := ih r hr
        refine ⟨by simp [this.1], ?_⟩
        intro k x' hk
        cases k with
        | zero => simp at hk; subst hk; exact ⟨y, by simp, hx⟩
        | succ k => simp at hk; simpa using this.2 k x' hk

/-- **one entry per input, in input order**: entry `k` is what input `k` became — a fresh source
    (basepoint 0, nothing buffered) whose page is the children of the Tangible, or the Collection itself. -/
theorem one_entry_per_input (X : Ext V Container Tangible Collection) (inputs : List Str) (s : GenSplicer.Splicer Container Tangible) (w : Int)
    (h : NewSplicer X inputs = .ok (s, w)) :
    s.length = inputs.length ∧
    ∀ (k : Nat) input, inputs[k]? = some input → ∃ c, s[k]? = some c ∧ source X input = .ok c ∧
      c.basepoint = 0 ∧ c.elements = [] := by
  rw [newSplicer_eq] at h
  cases hm : inputs.mapM (source X) with
  | error e => rw [hm] at h; cases h
  | ok ys =>
    rw [hm] at h
    cases h
    have := mapM_get (source X) inputs _ hm
    refine ⟨this.1, ?_⟩
    intro k input hk
    obtain ⟨c, hc, hs⟩ := this.2 k input hk
    refine ⟨c, hc, hs, ?_⟩
    unfold source at hs
    cases h1 : X.as_Tangible (X.FetchUserInput input) with
    | some t => rw [h1] at hs; cases hs; exact ⟨rfl, rfl⟩
    | none =>
      rw [h1] at hs
      cases h2 : X.as_Collection (X.FetchUserInput input) with
      | some cc => rw [h2] at hs; cases hs; exact ⟨rfl, rfl⟩
      | none => rw [h2] at hs; cases hs

/-- no input: an empty feed, `Wait` returns at once. -/
theorem no_input (X : Ext V Container Tangible Collection) : NewSplicer X [] = .ok ([], 0) := by
  rw [newSplicer_eq]; rfl

/-! ### The two cases of the type switch cannot both match -/

/-- `*pub.Collection` lacks methods `pub.Tangible` asks for: a collection never takes the first case,
    so the order of the two cases plays no part (the model tests for the collection first). -/
theorem collection_is_no_tangible : ∃ m ∈ tangibleMethods, m ∉ methods_Collection := by decide

/-! ### Against the model -/

section model
open Ui Pub

/-- the external functions as the model has them: `pub.FetchUserInput` is `Ui.fetchUserInput`, a fetched item
    is a `*pub.Collection` or a `pub.Tangible` (never both: `collection_is_no_tangible`), `Children()` is
    `Ui.children` (which only ever answers collections), a collection seen as a container pages generically. -/
def modelExt (w : World) : Ext Item CollC Item CollM where
  FetchUserInput := fetchUserInput w
  as_Tangible := fun it => match it with | .collection _ => none | x => some x
  as_Collection := fun it => match it with | .collection c => some c | _ => none
  Children := fun x => match children x with | some (.coll cc) => some cc | _ => none
  Collection_asContainer := fun c => ⟨c.page, .generic⟩

/-- **the translated `NewSplicer` builds the model's feed** (`Ui.newSplicer`), never panics on the model's items,
    and `Wait` returns. -/
theorem newSplicer_model (w : World) (inputs : List Str) :
    NewSplicer (modelExt w) inputs = .ok (Gen11.lift (Ui.newSplicer w inputs), 0) := by
  rw [newSplicer_eq]
  have : inputs.mapM (source (modelExt w)) = .ok (Gen11.lift (Ui.newSplicer w inputs)) := by
    unfold Ui.newSplicer Gen11.lift
    induction inputs with
    | nil => rfl
    | cons i is ih =>
      simp only [List.mapM_cons, ih, List.map_cons, bind, Except.bind]
      have : source (modelExt w) i = .ok (Gen11.liftSrc
          { basepoint := 0,
            page := (match fetchUserInput w i with
              | .collection c => some ⟨c.page, .generic⟩
              | x => match children x with
                | some (.coll cc) => some cc
                | _ => none),
            elements := [] }) := by
        unfold source modelExt Gen11.liftSrc
        simp only []
        cases fetchUserInput w i <;> rfl
      rw [this]
      rfl
  rw [this]
  rfl

end model

end Gen11n
