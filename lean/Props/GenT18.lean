import Model
import Generated.GoHistory
import Generated.GoFeed
import Props.C18
import Props.Gen18

/-
  Property theorems stated directly about the code as translated from the Go source
  (`Generated/GoHistory.lean, Generated/GoFeed.lean`): the C18 theorems carried across the equalities of `Props/Gen18.lean`.
  Nothing here mentions the hand-written model in its conclusion except as the specification.
-/

namespace GenT18

/-! ### C18 on the translated `history` and `feed` -/

/-- One history operation on the translated code. -/
def stepH {α : Type} (g : GenHistory.History α) : History.Op α → Except Panic (GenHistory.History α)
  | .add x => GenHistory.Add g x
  | .back => GenHistory.Back g
  | .forward => GenHistory.Forward g

def runH {α : Type} (g : GenHistory.History α) : List (History.Op α) → Except Panic (GenHistory.History α)
  | [] => .ok g
  | o :: os => match stepH g o with
    | .ok g' => runH g' os
    | .error e => .error e

/-- One translated step from the image of a model history is the model's step. -/
theorem stepH_toGenH {α : Type} (h : History.H α) (o : History.Op α) :
    stepH (Gen18.toGenH h) o = (History.step h o).map Gen18.toGenH := by
  cases o with
  | add x => exact Gen18.add_eq h x
  | back => exact Gen18.back_eq h
  | forward => exact Gen18.forward_eq h

/-- A translated run from the image of a model history is the model's run. -/
theorem runH_toGenH {α : Type} (h : History.H α) (ops : List (History.Op α)) :
    runH (Gen18.toGenH h) ops = (History.run h ops).map Gen18.toGenH := by
  induction ops generalizing h with
  | nil => rfl
  | cons o os ih =>
    simp only [runH, History.run, stepH_toGenH]
    cases History.step h o with
    | error e => rfl
    | ok h' => exact ih h'

/-- Every operation sequence on the translated history, from the zero value: never panics, and the
    state reached denotes what the zipper computes. -/
theorem history_refines {α : Type} (ops : List (History.Op α)) :
    ∃ h : History.H α, runH (Gen18.toGenH {}) ops = .ok (Gen18.toGenH h) ∧ History.Inv h ∧
      History.abs h = History.Zipper.run History.Zipper.empty ops := by
  obtain ⟨h, hr, hi, ha⟩ := C18.history_refines ops
  refine ⟨h, ?_, hi, ha⟩
  rw [runH_toGenH, hr]
  rfl

/-- `Current` on the translated history is defined as soon as one page has been added. -/
theorem current_defined {α : Type} (ops : List (History.Op α)) (g : GenHistory.History α)
    (hr : runH (Gen18.toGenH {}) ops = .ok g) (hadd : ∃ x, History.Op.add x ∈ ops) :
    ∃ x, GenHistory.Current g = .ok x := by
  rw [runH_toGenH] at hr
  cases hrun : History.run ({} : History.H α) ops with
  | error e => rw [hrun] at hr; cases hr
  | ok h =>
    rw [hrun] at hr
    have hg : g = Gen18.toGenH h := by
      simp only [Except.map] at hr
      cases hr
      rfl
    obtain ⟨x, hx⟩ := C18.current_defined ops h hrun hadd
    exact ⟨x, by rw [hg, Gen18.current_eq, hx]⟩

/-- One feed operation on the translated code. -/
def stepF {α : Type} (g : GenFeed.Feed α) : Feed.Op α → Except Panic (GenFeed.Feed α)
  | .append xs => GenFeed.Append g (xs.map some)
  | .prepend xs => GenFeed.Prepend g (xs.map some)
  | .up => GenFeed.MoveUp g
  | .down => GenFeed.MoveDown g
  | .center => GenFeed.MoveToCenter g

/-- Each translated feed operation is the model's (hence every C18 feed theorem applies to it). -/
theorem stepF_eq {α : Type} (f : Feed.F α) (o : Feed.Op α) :
    stepF (Gen18.toGenF f) o = .ok (Gen18.toGenF (Feed.step f o)) := by
  cases o with
  | append xs => exact Gen18.append_eq f xs
  | prepend xs => exact Gen18.prepend_eq f xs
  | up => exact Gen18.moveUp_eq f
  | down => exact Gen18.moveDown_eq f
  | center => exact Gen18.moveToCenter_eq f

end GenT18
