import Model
import Generated.GoHex
import Props.C19
import Props.Gen19h

/-
  C19 (1) on the code as it is written: the theorems of Props/C19.lean about `hexToAnsi`, restated
  on the translation of config/config.go (`Generated/GoHex.lean`, on bytes) and proved by
  transport along `Gen19h.hexToAnsi_eq`.
-/

namespace GenT19h
open Config GoB

/-- (1) The Go `hexToAnsi` accepts exactly `#` followed by six hexadecimal digits (ASCII: a
    string with any other character is refused, whatever its length in bytes) … -/
theorem generated_hexToAnsi_accepts_iff (s : Str) :
    (∃ out, GenHex.hexToAnsi (utf8 s) = .ok out) ↔
      ∃ a b c d e f, s = ['#', a, b, c, d, e, f] ∧
        C19.isHex a ∧ C19.isHex b ∧ C19.isHex c ∧ C19.isHex d ∧ C19.isHex e ∧ C19.isHex f := by
  rw [← C19.hexToAnsi_accepts_iff, Gen19h.hexToAnsi_eq]
  cases Config.hexToAnsi s with
  | none => simp
  | some v => simp

/-- … and returns the three byte values in decimal, each between 0 and 255, separated by `;`. -/
theorem generated_hexToAnsi_value (s : Str) (out : Bytes)
    (h : GenHex.hexToAnsi (utf8 s) = .ok out) :
    ∃ r g b : Nat, r ≤ 255 ∧ g ≤ 255 ∧ b ≤ 255 ∧
      out = utf8 (Style.itoa r ++ ';' :: Style.itoa g ++ ';' :: Style.itoa b) := by
  rw [Gen19h.hexToAnsi_eq] at h
  cases hm : Config.hexToAnsi s with
  | none => rw [hm] at h; cases h
  | some v =>
    rw [hm] at h
    obtain ⟨r, g, b, hr, hg, hb, hv⟩ := C19.hexToAnsi_value s v hm
    exact ⟨r, g, b, hr, hg, hb, by rw [← Except.ok.inj h, hv]⟩

/-- Refusal is an error value; nothing makes `hexToAnsi` panic (the slices are cut after the
    length test). -/
theorem generated_hexToAnsi_refuses (s : Str) (h : Config.hexToAnsi s = none) :
    ∃ e, GenHex.hexToAnsi (utf8 s) = .error (.err e) :=
  (Gen19h.hexToAnsi_error_iff s).mpr h

/-- A hexadecimal digit as a byte. -/
def isHexByte (x : UInt8) : Bool :=
  (48 ≤ x ∧ x ≤ 57) || (97 ≤ x ∧ x ≤ 102) || (65 ≤ x ∧ x ≤ 70)

theorem hexByte_isSome_iff (x : UInt8) : (hexByte x).isSome = isHexByte x := by
  have key : ∀ n, n < 256 → (hexByte (UInt8.ofNat n)).isSome = isHexByte (UInt8.ofNat n) := by
    decide +kernel
  have hx : UInt8.ofNat x.toNat = x := by
    apply UInt8.toNat_inj.mp
    rw [UInt8.toNat_ofNat']
    have := x.toNat_lt
    omega
  have := key x.toNat x.toNat_lt
  rwa [hx] at this

/-- (1) on raw bytes — also those that are no UTF-8, which the model's strings cannot express:
    accepted iff `#` and six hexadecimal digit bytes. -/
theorem generated_hexToAnsi_bytes_accepts_iff (text : Bytes) :
    (∃ out, GenHex.hexToAnsi text = .ok out) ↔
      ∃ x1 x2 x3 x4 x5 x6, text = [35, x1, x2, x3, x4, x5, x6] ∧
        isHexByte x1 ∧ isHexByte x2 ∧ isHexByte x3 ∧ isHexByte x4 ∧ isHexByte x5 ∧ isHexByte x6 := by
  constructor
  · rintro ⟨out, h⟩
    rcases Gen19h.hexToAnsi_bytes text with ⟨x1, x2, x3, x4, x5, x6, a1, a2, a3, a4, a5, a6, rfl, h1, h2, h3, h4, h5, h6, -⟩ | he
    · refine ⟨x1, x2, x3, x4, x5, x6, rfl, ?_, ?_, ?_, ?_, ?_, ?_⟩ <;>
        (rw [← hexByte_isSome_iff]; simp [*])
    · rw [he] at h; cases h
  · rintro ⟨x1, x2, x3, x4, x5, x6, rfl, h1, h2, h3, h4, h5, h6⟩
    rw [← hexByte_isSome_iff] at h1 h2 h3 h4 h5 h6
    rcases Gen19h.hexToAnsi_bytes [35, x1, x2, x3, x4, x5, x6] with ⟨_, _, _, _, _, _, _, _, _, _, _, _, _, _, _, _, _, _, _, h⟩ | he
    · exact ⟨_, h⟩
    · exfalso
      rw [Gen19h.eval_seven] at he
      obtain ⟨a1, e1⟩ := Option.isSome_iff_exists.mp h1
      obtain ⟨a2, e2⟩ := Option.isSome_iff_exists.mp h2
      obtain ⟨a3, e3⟩ := Option.isSome_iff_exists.mp h3
      obtain ⟨a4, e4⟩ := Option.isSome_iff_exists.mp h4
      obtain ⟨a5, e5⟩ := Option.isSome_iff_exists.mp h5
      obtain ⟨a6, e6⟩ := Option.isSome_iff_exists.mp h6
      simp [parseUint_two_ok e1 e2, parseUint_two_ok e3 e4, parseUint_two_ok e5 e6] at he

/-- Non-vacuity: the documented example colour, through the translated code. -/
example : GenHex.hexToAnsi (utf8 "#fcba03".toList) = .ok (utf8 "252;186;3".toList) :=
  (Gen19h.hexToAnsi_ok_iff _ _).mpr (by decide +kernel)

/-- A non-ASCII character: `#1234é` is seven BYTES long (so it passes the length test of the Go
    code) and six characters; the last slice holds the two bytes of `é` and is no number. -/
example : (utf8 "#1234é".toList).length = 7 ∧
    ∃ e, GenHex.hexToAnsi (utf8 "#1234é".toList) = .error (.err e) :=
  ⟨by decide, (Gen19h.hexToAnsi_error_iff _).mpr (by decide +kernel)⟩

/-- Seven characters, one of them non-ASCII (eight bytes): refused by the length test. -/
example : ∃ e, GenHex.hexToAnsi (utf8 "#12345é".toList) = .error (.err e) :=
  (Gen19h.hexToAnsi_error_iff _).mpr (by decide +kernel)

end GenT19h
