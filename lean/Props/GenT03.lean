import Model
import Generated.GoJtp
import Props.C03
import Props.Gen03

/-
  C03 theorems stated directly about jtp/jtp.go as translated from the source
  (`Generated/GoJtp.lean`), carried across the equalities of `Props/Gen03.lean`: when the statements
  of `Get` that read a response return a document, when they follow a redirect, and that they
  never panic.  The model's `exchange`, `validateHeaders`, `findLocation` appear in no statement
  below; the model's line recognisers (`readLine`, `parseStatusLine`, `headerValue`,
  `parseContentType` through `C03.HeadersOk`, `splitHeaders`) do: they are what the parameters
  of the translated code are instantiated with (`Gen03.Faithful`).
-/

namespace GenT03
open Jtp

variable {Url Doc : Type} {W : GenJtp.Ext Url Mime.MediaType Doc}

/-- The translated `validateHeaders` accepts exactly the terminated header blocks in which every
    Content-Type line parses to a tolerated type and there is at least one, and leaves the reader
    exactly after the blank line. -/
theorem validateHeaders_ok_iff (hW : Gen03.Faithful W) (tol : List Str) (s body : Str) :
    GenJtp.validateHeaders W s tol = .ok body ↔
      ∃ lines, splitHeaders (s.length + 1) s = some (lines, body) ∧ C03.HeadersOk tol lines := by
  rw [Gen03.validateHeaders_eq hW, ← C03.validateHeaders_iff]
  cases Jtp.validateHeaders tol (s.length + 1) s false <;> simp [Gen03.ofOption]

/-- … and otherwise returns an error: it never panics (the `mediaType` it calls `Matches` on is
    never nil, `matches[1]` is never out of range). -/
theorem validateHeaders_no_panic (hW : Gen03.Faithful W) (tol : List Str) (s : Str) (p : Panic) :
    GenJtp.validateHeaders W s tol ≠ .error (.panic p) := by
  rw [Gen03.validateHeaders_eq hW]
  cases Jtp.validateHeaders tol (s.length + 1) s false <;> simp [Gen03.ofOption]

/-- (C03 1b on the code) `Get` returns a document from a response iff the status line is well
    formed with a status among 200–203, the header block is terminated, every Content-Type line
    in it parses to a tolerated type and there is at least one, and the decoder accepts what
    follows the blank line; the source reported is the link asked for, and exactly that pair is
    remembered under the key. -/
theorem response_done_iff (hW : Gen03.Faithful W) (hc : W.closeFails = false) (link : Url)
    (tol : List Str) (n : Nat) (key resp : Str) (d : Doc) (src : Option Url)
    (added : List (Str × GenJtp.bundle Url Doc)) :
    GenJtp.Get_response W link tol n key resp = .ok (.done d src added) ↔
      ∃ sl rest status lines body, readLine resp = some (sl, rest) ∧ parseStatusLine sl = some status ∧
        status ∈ okStatuses ∧ splitHeaders (rest.length + 1) rest = some (lines, body) ∧
        C03.HeadersOk tol lines ∧ W.decode body = some d ∧ src = some link ∧
        added = [(key, { item := some d, source := some link, redirect := none })] := by
  rw [Gen03.response_eq hW hc]
  constructor
  · intro h
    cases he : exchange tol resp with
    | err => rw [he] at h; simp [Gen03.replyOf] at h
    | redirect v =>
      rw [he] at h; simp only [Gen03.replyOf] at h
      cases hu : W.urlParse v with
      | none => rw [hu] at h; simp at h
      | some r => rw [hu] at h; by_cases hn : n = 0 <;> simp [hn] at h
    | doc body =>
      rw [he] at h; simp only [Gen03.replyOf] at h
      obtain ⟨sl, rest, status, lines, h1, h2, h3, h4, h5⟩ := (C03.exchange_doc_iff tol resp body).1 he
      cases hd : W.decode body with
      | none => rw [hd] at h; simp at h
      | some d' =>
        rw [hd] at h
        simp only [Except.ok.injEq, GenJtp.Reply.done.injEq] at h
        obtain ⟨rfl, rfl, rfl⟩ := h
        exact ⟨sl, rest, status, lines, body, h1, h2, h3, h4, h5, hd, rfl, rfl⟩
  · rintro ⟨sl, rest, status, lines, body, h1, h2, h3, h4, h5, hd, rfl, rfl⟩
    have he := (C03.exchange_doc_iff tol resp body).2 ⟨sl, rest, status, lines, h1, h2, h3, h4, h5⟩
    simp [he, Gen03.replyOf, hd]

/-- (C03 on the code) `Get` follows a redirect iff the status starts with `3`, a Location line
    comes before the end of the header block, the value of the first one parses as a URL and the
    budget is not used up; it goes on with that reference resolved against the link asked for and
    one unit less, and remembers exactly that hop. -/
theorem response_again_iff (hW : Gen03.Faithful W) (hc : W.closeFails = false) (link : Url)
    (tol : List Str) (n : Nat) (key resp : Str) (next : Option Url) (m : Nat)
    (added : List (Str × GenJtp.bundle Url Doc)) :
    GenJtp.Get_response W link tol n key resp = .ok (.again next m added) ↔
      ∃ sl rest status v r, readLine resp = some (sl, rest) ∧ parseStatusLine sl = some status ∧
        status.head? = some '3' ∧ Jtp.findLocation (rest.length + 1) rest = some v ∧
        W.urlParse v = some r ∧ n ≠ 0 ∧ next = some (W.resolveReference link r) ∧ m = n - 1 ∧
        added = [(key, { item := none, source := none, redirect := some (W.resolveReference link r) })] := by
  rw [Gen03.response_eq hW hc]
  constructor
  · intro h
    cases he : exchange tol resp with
    | err => rw [he] at h; simp [Gen03.replyOf] at h
    | doc body =>
      rw [he] at h; simp only [Gen03.replyOf] at h
      cases hd : W.decode body <;> rw [hd] at h <;> simp at h
    | redirect v =>
      rw [he] at h; simp only [Gen03.replyOf] at h
      obtain ⟨sl, rest, status, h1, h2, h3, h4⟩ := (C03.exchange_redirect_iff tol resp v).1 he
      cases hu : W.urlParse v with
      | none => rw [hu] at h; simp at h
      | some r =>
        rw [hu] at h
        by_cases hn : n = 0
        · simp [hn] at h
        · simp only [hn, if_false, Except.ok.injEq, GenJtp.Reply.again.injEq] at h
          obtain ⟨rfl, rfl, rfl⟩ := h
          exact ⟨sl, rest, status, v, r, h1, h2, h3, h4, hu, hn, rfl, rfl, rfl⟩
  · rintro ⟨sl, rest, status, v, r, h1, h2, h3, h4, hu, hn, rfl, rfl, rfl⟩
    have he := (C03.exchange_redirect_iff tol resp v).2 ⟨sl, rest, status, h1, h2, h3, h4⟩
    simp [he, Gen03.replyOf, hu, hn]

/-- Any other response is an error, never a panic: reading a response cannot crash `Get`. -/
theorem response_no_panic (hW : Gen03.Faithful W) (hc : W.closeFails = false) (link : Url)
    (tol : List Str) (n : Nat) (key resp : Str) (p : Panic) :
    GenJtp.Get_response W link tol n key resp ≠ .error (.panic p) := by
  rw [Gen03.response_eq hW hc]
  cases exchange tol resp with
  | err => simp [Gen03.replyOf]
  | doc body => simp only [Gen03.replyOf]; cases W.decode body <;> simp
  | redirect v =>
    simp only [Gen03.replyOf]
    cases W.urlParse v with
    | none => simp
    | some r => by_cases hn : n = 0 <;> simp [hn]

/-- Not vacuous: a concrete response that the translated `Get` turns into a document (with a
    decoder that accepts `{}`), and a redirect it follows. -/
example :
    GenJtp.Get_response (Gen03.ext (Url := Str) (Doc := Str) some (fun _ r => r) (fun b => if b = "{}".toList then some b else none) false)
      "https://a/x".toList ["application/json".toList] 20 "k".toList
      "HTTP/1.1 200 OK\r\nServer: x\r\ncontent-type:  application/json; charset=utf-8 \r\n\r\n{}".toList
    = .ok (.done "{}".toList (some "https://a/x".toList)
        [("k".toList, { item := some "{}".toList, source := some "https://a/x".toList, redirect := none })]) := by
  have he : exchange ["application/json".toList]
      "HTTP/1.1 200 OK\r\nServer: x\r\ncontent-type:  application/json; charset=utf-8 \r\n\r\n{}".toList
      = .doc "{}".toList := by decide
  rw [Gen03.response_eq (Gen03.ext_faithful _ _ _ _) rfl, he]
  rfl

example :
    GenJtp.Get_response (Gen03.ext (Url := Str) (Doc := Str) some (fun _ r => r) (fun _ => none) false)
      "https://a/x".toList ["application/json".toList] 20 "k".toList
      "HTTP/1.0 301 Moved\r\nLocation: https://b/y\r\nLocation: https://c/z\r\n\r\n".toList
    = .ok (.again (some "https://b/y".toList) 19
        [("k".toList, { item := none, source := none, redirect := some "https://b/y".toList })]) := by
  have he : exchange ["application/json".toList]
      "HTTP/1.0 301 Moved\r\nLocation: https://b/y\r\nLocation: https://c/z\r\n\r\n".toList
      = .redirect "https://b/y".toList := by decide
  rw [Gen03.response_eq (Gen03.ext_faithful _ _ _ _) rfl, he]
  rfl

end GenT03
