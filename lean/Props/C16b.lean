import Model
import Props.C16
import Props.Clean
import Proofs.C16b

/-
  C16 (continued) — every frame `view()` produces is exactly as tall as the terminal.
-/

namespace C16
open Str Ansi

/-
  ORIGINAL STATEMENT (false as written: nothing constrains the configured colours):

  theorem view_height (c : Colors) (top center bottom : Str) (footer : Option Str) (width : Int) (height : Nat)
      (hw : 0 ≤ width) (hh : 2 ≤ height) :
      ∃ out, Ui.frame c top center bottom footer width height = .ok out ∧ Ansi.height out = height

  Counterexample (`view_height_counterexample` below): with `c.highlight = "\n"`, footer "a",
  width 1, height 2, `Style.highlight c "a"` is `ESC[48;2;\nm a ESC[0m`, which contains a newline,
  so `ReplaceLastLine` panics ("new version of last line cannot contain a newline").
  The closest true statement adds the hypothesis that the highlight colour contains no newline
  (`view_height`); every configuration `config.postprocess` accepts satisfies it
  (`Cells.ColorsOk`, property C19): `view_height_colorsOk`.
-/

/-- The original `view_height` fails for a highlight colour containing a newline. -/
theorem view_height_counterexample :
    ¬ ∃ out, Ui.frame ⟨[], [], ['\n'], []⟩ [] [] [] (some ['a']) 1 2 = .ok out ∧ Ansi.height out = 2 := by
  have h : (match Ui.frame ⟨[], [], ['\n'], []⟩ [] [] [] (some ['a']) 1 2 with
      | .ok _ => false | .error _ => true) = true := by decide
  rintro ⟨out, ho, _⟩
  rw [ho] at h
  cases h

/-- (4) For every content above, at and below the cursor, every footer text (it may quote a
    link or hook output), every width ≥ 0 and every height ≥ 2 — every mode, status line or not —
    the frame has exactly `height` lines, and producing it does not panic, provided the configured
    highlight colour contains no newline. -/
theorem view_height (c : Colors) (top center bottom : Str) (footer : Option Str) (width : Int) (height : Nat)
    (hw : 0 ≤ width) (hh : 2 ≤ height) (hc : '\n' ∉ c.highlight) :
    ∃ out, Ui.frame c top center bottom footer width height = .ok out ∧ Ansi.height out = height := by
  have hcv : Ansi.height (centerVertically top center bottom height) = height :=
    center_height top center bottom height (by omega)
  unfold Ui.frame
  cases footer with
  | none => exact ⟨_, rfl, hcv⟩
  | some f =>
    obtain ⟨t, ht, hnl, _⟩ := setLength_no_newline f width '…' hw (by decide)
    simp only [ht]
    have hstyle : '\n' ∉ "48;2;".toList ++ c.highlight := by
      intro h
      rcases List.mem_append.mp h with h | h
      · exact absurd h (by decide)
      · exact hc h
    have hr : '\n' ∉ Style.highlight c t := C16b.apply_no_newline t _ hnl hstyle
    obtain ⟨out, ho, hout⟩ := replace_keeps_height (centerVertically top center bottom height)
      (Style.highlight c t) (by omega) hr
    exact ⟨out, ho, by rw [hout, hcv]⟩

/-- The same for every configuration the configuration check accepts (C19). -/
theorem view_height_colorsOk (c : Colors) (top center bottom : Str) (footer : Option Str) (width : Int)
    (height : Nat) (hw : 0 ≤ width) (hh : 2 ≤ height) (hc : Cells.ColorsOk c) :
    ∃ out, Ui.frame c top center bottom footer width height = .ok out ∧ Ansi.height out = height := by
  apply view_height c top center bottom footer width height hw hh
  intro hmem
  have hd := Cells.sgrOk_digs hc.2.2.1 '\n' (List.mem_append_right _ hmem)
  exact Cells.digs_ne_nl hd rfl

/-- Without a status line the frame has `height` lines for every height ≥ 1. -/
theorem view_height_no_footer (c : Colors) (top center bottom : Str) (width : Int) (height : Nat) (hh : 1 ≤ height) :
    ∃ out, Ui.frame c top center bottom none width height = .ok out ∧ Ansi.height out = height := by
  exact ⟨_, rfl, center_height top center bottom height hh⟩

end C16
