import Model
import Proofs.C10

/-
  C10 — paging a collection yields every item exactly once, in order, and terminates.
  `load` is an arbitrary function, so every theorem covers cyclic and endless chains.
  (That `harvest0` is a total function at all is the termination part of the property; its
  termination proof is the measure `(amount, threshold + 1 - emptyCount)` in Model/Collection.lean.)
  Property theorems only; helper lemmas live in Proofs/C10.lean.
-/

namespace C10
open Coll

variable {R E : Type}

/-- (1) Every request returns after visiting a bounded number of pages, whatever the chain. -/
theorem harvest_bounded (load : R → Option (Page R E)) (c : Page R E) (amount start : Nat) :
    (harvest load c amount start).pages ≤ (amount + 1) * (threshold + 1) + 1 := by
  exact harvest_pages load c amount start

/-- (2) What is delivered is a prefix of the true sequence, of at most `amount` items, followed
    by at most one error item; and after an error item there is no continuation. -/
theorem harvest_prefix (load : R → Option (Page R E)) (c : Page R E) (amount start : Nat) :
    ∃ (items : List E) (tail : List (Out E)),
      (harvest load c amount start).out = items.map Out.item ++ tail ∧
      items.length ≤ amount ∧
      (tail = [] ∨ (∃ f, tail = [f] ∧ f.isItem = false ∧ (harvest load c amount start).cont = none)) ∧
      ∃ fuel, items <+: flat load fuel c start := by
  exact harvest_prefix' load c amount start

/-- When a continuation is returned, exactly `amount` items were delivered (no error item), and
    the continuation points into a page that still has undelivered items. -/
theorem harvest_cont (load : R → Option (Page R E)) (c : Page R E) (amount start : Nat)
    (p : Page R E) (off : Nat) (h : (harvest load c amount start).cont = some (p, off)) :
    (∃ items : List E, (harvest load c amount start).out = items.map Out.item ∧ items.length = amount) ∧
    off < p.items.length := by
  exact harvest_cont' load c amount start p off h

/-- (3) Harvesting `n₁` and then `n₂` through the returned continuation delivers exactly what
    one request of `n₁ + n₂` delivers, with the same final continuation: no duplicates, gaps or
    reordering, for every split of the request. -/
theorem harvest_compose (load : R → Option (Page R E)) (c : Page R E) (n₁ n₂ start : Nat)
    (p : Page R E) (off : Nat) (h : (harvest load c n₁ start).cont = some (p, off)) :
    (harvest load c (n₁ + n₂) start).out =
      (harvest load c n₁ start).out ++ (harvest load p n₂ off).out ∧
    (harvest load c (n₁ + n₂) start).cont = (harvest load p n₂ off).cont := by
  exact harvest_compose' load c n₁ n₂ start p off h

/-- (4) The continuation is empty, without an error item, only at the true end of a chain that
    ends cleanly — and then everything from the offset on has been delivered. -/
theorem harvest_complete (load : R → Option (Page R E)) (c : Page R E) (amount start : Nat)
    (hn : (harvest load c amount start).cont = none)
    (hi : ∀ o ∈ (harvest load c amount start).out, o.isItem = true) :
    ∃ fuel, endsCleanly load fuel c = true ∧
      (harvest load c amount start).out = (flat load fuel c start).map Out.item := by
  exact harvest_complete' load c amount start hn hi

/-- (5) Delivery is refused only after more than `threshold` *consecutive* empty pages. -/
theorem refuse_only_after_empties (load : R → Option (Page R E)) (c : Page R E) (amount start : Nat)
    (h : Out.refuse ∈ (harvest load c amount start).out) :
    ∃ fuel i, ∀ j, j ≤ threshold → ∃ q, (chain load fuel c)[i + j]? = some q ∧ q.items = [] := by
  exact harvest_refuse load c amount start h

/-- Conversely, error items other than the refusal come from a page that fails. -/
theorem failure_only_if_broken (load : R → Option (Page R E)) (c : Page R E) (amount start : Nat)
    (f : Out E) (hf : f ∈ (harvest load c amount start).out) (hni : f.isItem = false) (hr : f ≠ .refuse) :
    ∃ fuel, ∃ q ∈ chain load fuel c,
      q.elemsFailed = true ∨ (match q.next with
        | .err => True
        | .ref r => load r = none
        | .absent => False) := by
  exact harvest_failure load c amount start f hf hni hr

/-! ### Non-vacuity: the layout the unfixed code got wrong -/

section
/-- pages [∅, a, ∅, b, ∅, c, ∅, d] as references 0..7 -/
private def demoLoad : Nat → Option (Page Nat Char)
  | 1 => some ⟨.ok ['a'], .ref 2⟩
  | 2 => some ⟨.ok [], .ref 3⟩
  | 3 => some ⟨.ok ['b'], .ref 4⟩
  | 4 => some ⟨.ok [], .ref 5⟩
  | 5 => some ⟨.ok ['c'], .ref 6⟩
  | 6 => some ⟨.ok [], .ref 7⟩
  | 7 => some ⟨.ok ['d'], .absent⟩
  | _ => none

example : (harvest demoLoad ⟨.ok [], .ref 1⟩ 10 0).out = [.item 'a', .item 'b', .item 'c', .item 'd'] := by
  simp [harvest, harvest0, demoLoad, Page.items, Page.elemsFailed, nextEmpties, threshold]
end

end C10
