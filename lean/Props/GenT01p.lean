import Props.C01p
import Props.Gen01p
import Props.GenT17

/-
  C01 (and the C14 / C16 shape facts) on the TRANSLATED item presentation, by transport:
  `Props/Gen01p.lean` says that the translated `String` / `Preview` / `Name` of Post, Actor,
  Activity, Failure (`Generated/GoPresent.lean`, regenerated from pub/*.go on every run) compute
  what the presentation model computes; `Props/C01p.lean` says that what the model computes is
  `Clean` (printable characters, newlines, the program's own complete SGR sequences around single
  characters — hence terminal-safe and attribute-neutral at every line break) for every field
  content.  Hence: the translated functions return (they do not panic) and what they return is
  `Clean`, for every content of the fields — every error text in particular —, every width and
  all well-formed colours; a post's preview has at most as many lines as the constant the source
  hands to `ansi.Snip` (4).
-/

namespace GenT01p
open Str Ansi Cells Present GenPresent Gen13 Gen01p

variable {Time : Type}

/-! ### Post -/

/-- The translated `Post.String(width)` returns, and returns clean text. -/
theorem post_string_clean (c : Colors) (hc : ColorsOk c) (T : Go.TimeLib Time) (E : Obj.Err → Str) (p : Post Time) (v : PostV)
    (h : PostCorr c T E p v) (hv : C01p.PostOk v) (w : Int) :
    ∃ out, Post.String c goExpand T E p w = .ok out ∧ Clean out :=
  ⟨_, (post_eq c T E p v h w).1, C01p.post_string_clean c hc v hv w⟩

/-- The translated `Post.Preview(width)` returns clean text of at most four lines. -/
theorem post_preview_clean (c : Colors) (hc : ColorsOk c) (T : Go.TimeLib Time) (E : Obj.Err → Str) (p : Post Time) (v : PostV)
    (h : PostCorr c T E p v) (hv : C01p.PostOk v) (w : Int) :
    ∃ out, Post.Preview c goExpand T E p w = .ok out ∧ Clean out ∧ Ansi.height out ≤ 4 := by
  obtain ⟨out, ho, hcl, hh⟩ := C01p.post_preview_clean c hc v hv w
  exact ⟨out, by rw [(post_eq c T E p v h w).2.1, ho], hcl, hh⟩

/-- The translated `Post.Name()` returns clean text. -/
theorem post_name_clean (c : Colors) (hc : ColorsOk c) (T : Go.TimeLib Time) (E : Obj.Err → Str) (p : Post Time) (v : PostV)
    (h : PostCorr c T E p v) (hv : C01p.PostOk v) :
    ∃ out, Post.Name c goExpand T E p = .ok out ∧ Clean out :=
  ⟨_, (post_eq c T E p v h 0).2.2, C01p.post_name_clean c hc v hv⟩

/-- … hence terminal-safe, with no attribute left active at a line break. -/
theorem post_string_safe (c : Colors) (hc : ColorsOk c) (T : Go.TimeLib Time) (E : Obj.Err → Str) (p : Post Time) (v : PostV)
    (h : PostCorr c T E p v) (hv : C01p.PostOk v) (w : Int) :
    ∃ out, Post.String c goExpand T E p w = .ok out ∧ Safe.safe out = true ∧ neutralAtBreaks out = true := by
  obtain ⟨out, ho, hcl⟩ := post_string_clean c hc T E p v h hv w
  exact ⟨out, ho, CleanProps.clean_safe _ hcl, CleanProps.clean_neutral _ hcl⟩

/-! ### Actor -/

theorem actor_name_clean (c : Colors) (hc : ColorsOk c) (T : Go.TimeLib Time) (E : Obj.Err → Str) (a : Actor Time) (v : ActorV)
    (h : ActorCorr c T a v) (hv : C01p.ActorOk v) :
    ∃ out, Actor.Name c goExpand T E a = .ok out ∧ Clean out :=
  ⟨_, actor_name_eq c T E a v h, C01p.actor_name_clean c hc v hv⟩

theorem actor_string_clean (c : Colors) (hc : ColorsOk c) (T : Go.TimeLib Time) (E : Obj.Err → Str) (a : Actor Time) (v : ActorV)
    (h : ActorCorr c T a v) (hv : C01p.ActorOk v) (w : Int) :
    ∃ out, Actor.String c goExpand T E a w = .ok out ∧ Clean out :=
  ⟨_, actor_string_eq c T E a v h w, C01p.actor_string_clean c hc v hv w⟩

theorem actor_preview_clean (c : Colors) (hc : ColorsOk c) (T : Go.TimeLib Time) (E : Obj.Err → Str) (a : Actor Time) (v : ActorV)
    (h : ActorCorr c T a v) (hv : C01p.ActorOk v) (w : Int) :
    ∃ out, Actor.Preview c goExpand T E a w = .ok out ∧ Clean out := by
  obtain ⟨out, ho, hcl⟩ := C01p.actor_preview_clean c hc v hv w
  exact ⟨out, by rw [actor_preview_eq c T E a v h w, ho], hcl⟩

/-! ### Failure: for EVERY error text -/

theorem failure_clean (c : Colors) (hc : ColorsOk c) (T : Go.TimeLib Time) (E : Obj.Err → Str) (x : Go.ErrV) (w : Int) :
    (∃ out, Failure.Name c goExpand T E ⟨some x⟩ = .ok out ∧ Clean out) ∧
    (∃ out, Failure.String c goExpand T E ⟨some x⟩ w = .ok out ∧ Clean out) ∧
    (∃ out, Failure.Preview c goExpand T E ⟨some x⟩ w = .ok out ∧ Clean out) :=
  ⟨⟨_, failure_name_eq c T E x, (C01p.failure_clean c hc x.text w).1⟩,
   ⟨_, failure_string_eq c T E x w, (C01p.failure_clean c hc x.text w).2⟩,
   ⟨_, failure_preview_eq c T E x w, (C01p.failure_clean c hc x.text w).2⟩⟩

/-- `style.Problem` on the translated code: clean for every error text. -/
theorem problem_clean (c : Colors) (hc : ColorsOk c) (T : Go.TimeLib Time) (E : Obj.Err → Str) (x : Go.ErrV) :
    ∃ out, Problem c goExpand T E (some x) = .ok out ∧ Clean out :=
  ⟨_, problem_eq c goExpand T E x, PresentP.clean_problem c hc x.text⟩

/-! ### Activity -/

/-- What the activity header shows for the actor is clean: a problem text always, a name when
    the actor's strings are (as `GetString` leaves them). -/
theorem actorShown_clean (c : Colors) (hc : ColorsOk c) (T : Go.TimeLib Time) (E : Obj.Err → Str) (actor : Option (Actor Time))
    (actorErr : Go.ErrorV) (n : Str) (ha : ActorShown c T E actor actorErr n)
    (hok : ∀ a v, actor = some a → ActorCorr c T a v → C01p.ActorOk v) : Clean n := by
  cases ha with
  | err actor x => exact PresentP.clean_problem c hc x.text
  | ok a v h => exact C01p.actor_name_clean c hc v (hok a v rfl h)

/-- The translated `Activity.String(width)` is clean when its target's `String(width)` is. -/
theorem activity_string_clean (c : Colors) (hc : ColorsOk c) (T : Go.TimeLib Time) (E : Obj.Err → Str) (kind : Str)
    (actor : Option (Actor Time)) (actorErr : Go.ErrorV) (created : Time) (createdErr : Go.ErrorV) (target : Tangible Time)
    (w : Int) (actorName s : Str) (hk : knownKind kind) (ha : ActorShown c T E actor actorErr actorName)
    (hn : Clean actorName) (ht : Tangible.String c goExpand T E target w = .ok s) (hs : Clean s) :
    ∃ out, Activity.String c goExpand T E (.mk kind actor actorErr created createdErr target) w = .ok out ∧ Clean out :=
  ⟨_, activity_string_eq c T E kind actor actorErr created createdErr target w actorName s hk ha ht,
    C01p.activity_clean c hc kind actorName s w hn hs⟩

theorem activity_preview_clean (c : Colors) (hc : ColorsOk c) (T : Go.TimeLib Time) (E : Obj.Err → Str) (kind : Str)
    (actor : Option (Actor Time)) (actorErr : Go.ErrorV) (created : Time) (createdErr : Go.ErrorV) (target : Tangible Time)
    (w : Int) (actorName s : Str) (hk : knownKind kind) (ha : ActorShown c T E actor actorErr actorName)
    (hn : Clean actorName) (ht : Tangible.Preview c goExpand T E target w = .ok s) (hs : Clean s) :
    ∃ out, Activity.Preview c goExpand T E (.mk kind actor actorErr created createdErr target) w = .ok out ∧ Clean out :=
  ⟨_, activity_preview_eq c T E kind actor actorErr created createdErr target w actorName s hk ha ht,
    C01p.activity_clean c hc kind actorName s w hn hs⟩

/-! ### Where the hypotheses on the strings come from -/

/-- `PostOk.title`, `ActorOk.name`, `ActorOk.handle`, `PostOk.kind` ask that the strings the
    constructors read with `GetString` have no control character: the translated `GetString`
    (`Generated/GoObject.lean`) returns only such strings (it scrubs what it read). -/
theorem getString_noCtl {Time Url : Type} (L : Obj.Libs Time Url) (o : List (Str × JVal)) (k v : Str)
    (h : GenObject.GetString L o k = .ok v) : Safe.noCtl v = true := by
  obtain ⟨s, _, hv, _⟩ := (GenT17.getString_ok L o k v).1 h
  rw [hv]
  exact CleanProps.scrub_noCtl s

/-! ### Not vacuous -/

/-- Colours as config.go leaves them: three decimal numbers separated by `;`. -/
def exColors : Colors := ⟨"0;0;255".toList, "255;0;0".toList, "60;60;0".toList, "40;40;40".toList⟩

def exTime : Go.TimeLib Nat := ⟨fun _ _ => "1 Jan 2024".toList, fun _ => "seconds ago".toList, 0⟩

/-- A post whose title could not be read (an error text with an escape sequence and a bell in
    it), a reply, without body, attachments or comments. -/
def exPost : Post Nat :=
  .mk "Note".toList [] (some ⟨false, [Char.ofNat 27, '[', '2', 'J', Char.ofNat 7, 'x']⟩) none []
    (some ⟨true, "key not present".toList⟩) 0 (some ⟨true, "key not present".toList⟩) none []
    (some ⟨true, "key not present".toList⟩) [] [] none (some ⟨true, "key not present".toList⟩)

/-- The post of the model that corresponds to it. -/
def exPostV : PostV :=
  { kind := "Note".toList, title := .err [Char.ofNat 27, '[', '2', 'J', Char.ofNat 7, 'x'],
    body := .absent "key not present".toList, bodyLinks := [], isReply := true, creators := [], recipients := [],
    created := .absent "key not present".toList, agoZero := "seconds ago".toList,
    attachments := .absent "key not present".toList, comments := .disabled }

theorem exCorr : PostCorr exColors exTime (fun _ => "e".toList) exPost exPostV := by
  show PostCorrF exColors exTime (fun _ => "e".toList) exPostV "Note".toList []
    (some ⟨false, [Char.ofNat 27, '[', '2', 'J', Char.ofNat 7, 'x']⟩) none []
    (some ⟨true, "key not present".toList⟩) 0 (some ⟨true, "key not present".toList⟩) none []
    (some ⟨true, "key not present".toList⟩) [] [] none (some ⟨true, "key not present".toList⟩)
  exact { hKind := rfl, hTitle := rfl, hBody := ⟨fun x hx => (by cases hx; rfl), fun hx => (by cases hx)⟩, hBodyLinks := rfl,
          hIsReply := rfl, hCreators := trivial, hRecipients := trivial, hCreated := rfl, hAgoZero := rfl,
          hAttachments := rfl, hComments := rfl, hCommentsNonNil := fun hx => (by cases hx) }

/-- The correspondence is inhabited, the hypotheses of the theorems hold of it, and the translated
    `Name()` is the scrubbed error text in the error colour: the escape and the bell are gone. -/
example : PostCorr exColors exTime (fun _ => "e".toList) exPost exPostV ∧ C01p.PostOk exPostV ∧ ColorsOk exColors ∧
    Post.Name exColors goExpand exTime (fun _ => "e".toList) exPost = .ok (Style.red exColors "[2Jx".toList) := by
  refine ⟨exCorr, ?ok, ⟨by decide, by decide, by decide, by decide⟩, ?name⟩
  case ok =>
    exact { kind := (by decide), title := fun t h => (by cases h), body := fun b h => (by cases h),
            creators := fun n h => (by cases h), recipients := fun n h => (by cases h),
            created := fun a h => (by cases h), agoZero := (by decide),
            attachments := fun as h => (by cases h), size := fun n h => (by cases h) }
  case name =>
    rw [(post_eq exColors exTime (fun _ => "e".toList) exPost exPostV exCorr 0).2.2]
    congr 1

end GenT01p
