import Model
import Proofs.C11

/-
  C11 — a feed is the newest-first merge of its sources, each item exactly once.
  Property theorems only; helper lemmas live in Proofs/C11.lean.
-/

namespace C11
open Splicer

variable {C T : Type}

/-- Heads of the sources, with source index. -/
def heads (s : List (Source C T)) : List (Nat × T) :=
  (s.zipIdx.filterMap fun (src, i) => src.elements.head?.map fun e => (i, e))

/-- (2a) `microharvest` pops a head: the chosen item is the head of some source `i`, its
    timestamp is maximal among all current heads, sources before `i` have strictly smaller head
    timestamps (ties go to the source listed first), and exactly that head is removed. -/
theorem microharvest_spec (ts : T → Int) (s : List (Source C T)) (e : T) (s' : List (Source C T))
    (h : microharvest ts s = (some e, s')) :
    ∃ i src, s[i]? = some src ∧ src.elements.head? = some e ∧
      (∀ j x, (j, x) ∈ heads s → ts x ≤ ts e) ∧
      (∀ j x, (j, x) ∈ heads s → j < i → ts x < ts e) ∧
      s' = s.set i { src with elements := src.elements.tail } := by
  exact C11P.microharvest_spec ts s e s' h

/-- `microharvest` returns nothing iff every source's buffer is empty, and then changes nothing. -/
theorem microharvest_none (ts : T → Int) (s : List (Source C T)) :
    (microharvest ts s).1 = none ↔ ∀ src ∈ s, src.elements = [] := by
  exact C11P.microharvest_none ts s

/-- (3) Exactly once, order preserved: the items taken from the buffers, re-interleaved, are
    what was there — for every source, (its part of the output) ++ (what remains buffered) is
    its original buffer.  `project` keeps the output items that came from source `i`. -/
def popTrace (ts : T → Int) : Nat → List (Source C T) → List (Nat × T)
  | 0, _ => []
  | q + 1, s =>
    match pick ts s 0 none with
    | none => []
    | some (i, e) => (i, e) :: popTrace ts q (popAt s i)

private theorem popTrace_eq (ts : T → Int) (q : Nat) (s : List (Source C T)) :
    popTrace ts q s = C11P.popTrace ts q s := by
  induction q generalizing s with
  | zero => rfl
  | succ q ih =>
    cases h : pick ts s 0 none with
    | none => simp only [popTrace, C11P.popTrace, h]
    | some p => simp only [popTrace, C11P.popTrace, h, ih]

theorem take_is_trace (ts : T → Int) (q : Nat) (s : List (Source C T)) :
    (take ts q s).1 = (popTrace ts q s).map (·.2) := by
  rw [popTrace_eq]; exact C11P.take_is_trace ts q s

theorem take_exactly_once (ts : T → Int) (q : Nat) (s : List (Source C T)) (s' : List (Source C T))
    (h : (take ts q s).2 = some s') (i : Nat) (src : Source C T) (hi : s[i]? = some src) :
    ∃ src', s'[i]? = some src' ∧
      ((popTrace ts q s).filter (fun p => p.1 = i)).map (·.2) ++ src'.elements = src.elements := by
  rw [popTrace_eq]; exact C11P.take_exactly_once ts q s s' h i src hi

/-- The number of items delivered is exactly `q` when a continuation is returned, and fewer
    only when every buffer has been emptied (the feed simply ends: `none`). -/
theorem take_count (ts : T → Int) (q : Nat) (s : List (Source C T)) :
    match (take ts q s).2 with
    | some _ => (take ts q s).1.length = q
    | none => (take ts q s).1.length < q ∧
              (take ts q s).1.length = (s.map fun src => src.elements.length).sum := by
  exact C11P.take_count ts q s

/-- (1) After `replenish n` every source holds at least `n` items or the container it was
    refilled from delivered fewer than asked. -/
theorem replenish_enough (hv : Hv C T) (n : Nat) (s : List (Source C T)) (i : Nat) (src : Source C T)
    (hi : s[i]? = some src) :
    ∃ src', (replenish hv n s)[i]? = some src' ∧ src.elements <+: src'.elements ∧
      (n ≤ src'.elements.length ∨ src.page = none ∨
        ∃ p, src.page = some p ∧ (hv p (n - src.elements.length) src.basepoint).1.length < n - src.elements.length) := by
  exact C11P.replenish_enough hv n s i src hi

/-- (4) Same position, same answer: `harvest` is a function of its arguments (the Go code works
    on a clone; the model is pure), and skipping `a` then taking is taking after skipping. -/
theorem skip_take (ts : T → Int) (a q : Nat) (s : List (Source C T)) :
    (take ts (a + q) s).1.drop a = (take ts q (skip ts a s)).1 ∨ (take ts a s).2 = none := by
  exact C11P.skip_take ts a q s

/-- Harvesting `q₁` and then `q₂` from the returned continuation (whose sources need no further
    replenishing when the containers are exhausted) yields what one harvest of `q₁ + q₂` yields:
    stated on buffers — taking `q₁` then `q₂` is taking `q₁ + q₂`. -/
theorem take_compose (ts : T → Int) (q₁ q₂ : Nat) (s s₁ : List (Source C T))
    (h : (take ts q₁ s).2 = some s₁) :
    (take ts (q₁ + q₂) s).1 = (take ts q₁ s).1 ++ (take ts q₂ s₁).1 ∧
    (take ts (q₁ + q₂) s).2 = (take ts q₂ s₁).2 := by
  exact C11P.take_compose ts q₁ q₂ s s₁ h

/-- (5) When all sources are exhausted the continuation is `none` (an untyped nil in Go) as soon
    as fewer items than requested remain. -/
theorem exhausted_is_none (ts : T → Int) (q : Nat) (s : List (Source C T))
    (h : (s.map fun src => src.elements.length).sum < q) : (take ts q s).2 = none := by
  exact C11P.exhausted_is_none ts q s h

/-! ### Non-vacuity -/
example : (take (fun (n : Nat) => (n : Int)) 3
    [⟨0, (none : Option Unit), [5, 1]⟩, ⟨0, none, [7, 2]⟩]).1 = [7, 5, 2] := by
  decide

end C11
