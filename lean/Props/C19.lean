import Model
import Proofs.C19

/-
  C19 — a configuration is either rejected at startup or safe to run with.
  Property theorems only; helper lemmas live in Proofs/C19.lean.
-/

namespace C19
open Config

def isHex (c : Char) : Bool :=
  ('0' ≤ c ∧ c ≤ '9') || ('a' ≤ c ∧ c ≤ 'f') || ('A' ≤ c ∧ c ≤ 'F')

/-- (1) `hexToAnsi` accepts exactly `#` followed by six hexadecimal digits … -/
theorem hexToAnsi_accepts_iff (text : Str) :
    (hexToAnsi text).isSome ↔ ∃ a b c d e f, text = ['#', a, b, c, d, e, f] ∧
      isHex a ∧ isHex b ∧ isHex c ∧ isHex d ∧ isHex e ∧ isHex f := by
  have hx : ∀ c, isHex c = true ↔ IsHex c := fun c => by simp [isHex, IsHex, or_assoc]
  simp only [hx]
  exact hexToAnsi_isSome_iff text

/-- … and returns the three byte values in decimal, each between 0 and 255. -/
theorem hexToAnsi_value (text out : Str) (h : hexToAnsi text = some out) :
    ∃ r g b : Nat, r ≤ 255 ∧ g ≤ 255 ∧ b ≤ 255 ∧
      out = Style.itoa r ++ ';' :: Style.itoa g ++ ';' :: Style.itoa b := by
  exact hexToAnsi_isColor h

/-- The decimal rendering of a number consists of digits only and does not start with `0`
    unless the number is 0 — so a colour is a well-formed SGR parameter tail. -/
theorem itoa_digits (n : Nat) : (Style.itoa n) ≠ [] ∧ ∀ c ∈ Style.itoa n, c.isDigit = true := by
  exact ⟨itoa_ne_nil n, itoa_isDigit n⟩

/-- (2) An accepted configuration is safe: non-empty hook, cache size ≥ 1, non-negative preload
    amount and timeout, the timeout converted to nanoseconds without `int64` wrap-around,
    well-formed colours with components 0..255. -/
theorem accepted_safe (r : Raw) (p : Parsed) (h : postprocess r = .ok p) : Safe p := by
  exact postprocess_safe h

/-- A rejected configuration names the offending key, and that key is indeed invalid. -/
theorem rejected_names_key (r : Raw) (d : Diag) (h : postprocess r = .error d) :
    match d with
    | .primary => hexToAnsi r.primary = none
    | .error => hexToAnsi r.error = none
    | .highlight => hexToAnsi r.highlight = none
    | .code => hexToAnsi r.code = none
    | .hook => r.hook = []
    | .context => r.context < 0 ∨ r.context > maxPreload
    | .timeout => r.timeout < 0 ∨ r.timeout > maxSeconds
    | .cacheSize => r.cacheSize < 1 := by
  exact postprocess_error h

/-- The duration handed to the network code is never negative, although it is computed in
    wrapping `int64` arithmetic: one second more than `maxSeconds` would wrap … -/
theorem accepted_timeout_not_wrapped (r : Raw) (p : Parsed) (h : postprocess r = .ok p) :
    0 ≤ p.timeoutNanos ∧ p.timeoutNanos < 2 ^ 63 ∧ p.timeoutNanos = r.timeout * 1000000000 := by
  obtain ⟨_, _, _, _, _, _, _, _, _, _, h2, _, h4, _, rfl⟩ := postprocess_ok_inv h
  have hw := wrap64_seconds h2 h4
  show 0 ≤ wrap64 (r.timeout * 1000000000) ∧ wrap64 (r.timeout * 1000000000) < 2 ^ 63 ∧
    wrap64 (r.timeout * 1000000000) = r.timeout * 1000000000
  rw [hw]
  unfold maxSeconds at h4
  omega

/-- The arithmetic done on the preload amount (`Context + 1`, `-Context - 1`, the conversions to
    `uint` and back to `int`) stays inside `int64` — and inside `int32`'s unsigned range. -/
theorem accepted_preload_arithmetic_exact (r : Raw) (p : Parsed) (h : postprocess r = .ok p) :
    wrap64 (p.context + 1) = p.context + 1 ∧ wrap64 (-p.context - 1) = -p.context - 1 ∧
    0 < p.context + 1 ∧ p.context + 1 ≤ 2 ^ 31 := by
  obtain ⟨_, _, _, h1, h5, _⟩ := postprocess_safe h
  unfold maxPreload at h5
  unfold wrap64
  omega

/-- … which is why the bound is there (non-vacuity of the wrap-around the check excludes). -/
example : wrap64 ((maxSeconds + 1) * 1000000000) < 0 := by decide

/-- Conversely every configuration with valid values is accepted, unchanged but for the colours. -/
theorem valid_accepted (r : Raw)
    (hc : (hexToAnsi r.primary).isSome ∧ (hexToAnsi r.error).isSome ∧ (hexToAnsi r.highlight).isSome ∧ (hexToAnsi r.code).isSome)
    (hh : r.hook ≠ []) (h1 : 0 ≤ r.context) (h2 : 0 ≤ r.timeout) (h3 : 1 ≤ r.cacheSize)
    (h4 : r.timeout ≤ maxSeconds) (h5 : r.context ≤ maxPreload) :
    ∃ p, postprocess r = .ok p ∧ p.hook = r.hook ∧ p.context = r.context ∧
      p.timeoutSeconds = r.timeout ∧ p.cacheSize = r.cacheSize := by
  obtain ⟨h1', h2', h3', h4'⟩ := hc
  obtain ⟨cp, hp⟩ := Option.isSome_iff_exists.mp h1'
  obtain ⟨ce, he⟩ := Option.isSome_iff_exists.mp h2'
  obtain ⟨ch, hh'⟩ := Option.isSome_iff_exists.mp h3'
  obtain ⟨cc, hc'⟩ := Option.isSome_iff_exists.mp h4'
  exact ⟨_, postprocess_ok_of_valid r hp he hh' hc' hh h1 h2 h3 h4 h5, rfl, rfl, rfl, rfl⟩

/-- (3) The built-in defaults are accepted (and hence safe). -/
theorem defaults_accepted : ∃ p, postprocess defaults = .ok p ∧ Safe p := by
  have h : (postprocess defaults).isOk = true := by decide +kernel
  cases hp : postprocess defaults with
  | error d => rw [hp] at h; cases h
  | ok p => exact ⟨p, rfl, postprocess_safe hp⟩

/-- Non-vacuity: the documented example colour. -/
example : hexToAnsi "#fcba03".toList = some "252;186;3".toList := by
  decide +kernel

end C19
