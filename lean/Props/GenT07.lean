import Model
import Generated.GoUpdate
import Props.C07
import Props.Gen07

/-
  C07 on the code as translated from the Go source (`Generated/GoUpdate.lean`): what each key does,
  carried across `Gen07.update_eq`.  The translated `Update` runs on the encoding `enc s` of a
  model state with the actions interpreted by the model (`Gen07.env`); the conclusions speak of
  the translated function's result.
-/

namespace GenT07
open Ui Pub Gen07

/-- The hypothesis of `update_eq` outside selection mode. -/
theorem notSel (s : State) (h : s.mode ≠ .selection) :
    s.mode = .selection → s.buffer ≠ [] ∧ ∀ ch ∈ s.buffer, ch.isDigit = true :=
  fun hs => absurd hs h

/-- A key while the interface is loading is ignored: the translated `Update` returns the state
    it was given. -/
theorem loading_ignores (w : World) (s : State) (k : Nat) (hm : s.mode = .loading) :
    GenUpdate.Update (env w s.context s.feeds) (enc s) k = .ok (enc s) := by
  rw [update_eq w s k (notSel s (by rw [hm]; decide))]
  unfold update
  rw [if_pos hm]
  rfl

/-- Escape cancels whatever was being typed, in every mode but loading. -/
theorem esc_cancels (w : World) (s : State) (hm : s.mode ≠ .loading) (hsel : Inv s) :
    GenUpdate.Update (env w s.context s.feeds) (enc s) 27
      = .ok (enc { s with buffer := [], mode := .normal }) := by
  rw [update_eq w s 27 hsel.2.2, C07.esc_cancels w s hm]
  rfl

/-- A digit in normal mode starts a selection holding that digit. -/
theorem digit_selects (w : World) (s : State) (d : Nat) (hm : s.mode = .normal)
    (hd : '0'.toNat ≤ d ∧ d ≤ '9'.toNat) :
    GenUpdate.Update (env w s.context s.feeds) (enc s) d
      = .ok (enc { s with buffer := [Char.ofNat d], mode := .selection }) := by
  rw [update_eq w s d (notSel s (by rw [hm]; decide)), C07.digit_selects w s d hm hd]
  rfl

/-- A number that opens nothing (0, too large, out of range, empty page), followed by Enter,
    returns to normal mode and leaves the history alone; in particular the over-long number whose
    `Atoi` fails does (`C07.overlong_number`). -/
theorem bad_number_cancels (w : World) (s : State) (g' : GState) (hi : Inv s) (hm : s.mode = .selection)
    (hnone : ∀ x n, currentItem s = .ok (some x) → atoi s.buffer = some n → selectLink x n = none)
    (hs : GenUpdate.Update (env w s.context s.feeds) (enc s) 13 = .ok g') :
    g' = enc { s with buffer := [], mode := .normal } := by
  rw [update_eq w s 13 hi.2.2] at hs
  cases hu : update w s 13 with
  | error e => rw [hu] at hs; cases hs
  | ok s' =>
    rw [hu] at hs
    cases hs
    rw [C07.bad_number_cancels w s s' hm hnone hu]

/-- A number followed by Enter hands exactly the link `SelectLink` names to the media hook:
    `opening` mode, that link in the buffer. -/
theorem enter_opens_externally (w : World) (s : State) (x : T) (n : Int) (l : Str) (hi : Inv s)
    (hm : s.mode = .selection) (hc : currentItem s = .ok (some x))
    (hn : atoi s.buffer = some n) (hl : selectLink x n = some l) :
    GenUpdate.Update (env w s.context s.feeds) (enc s) 13 = .ok (enc (openExternally s l)) := by
  rw [update_eq w s 13 hi.2.2, C07.enter_opens_externally w s x n l hm hc hn hl]
  rfl

/-- `j` moves the cursor one item down within the bounds of the feed and changes neither the
    page, nor the history, nor the mode. -/
theorem j_moves_down (w : World) (s : State) (g' : GState) (page : Ui.Page) (hm : s.mode = .normal)
    (hp : History.current s.hist = .ok page)
    (hs : GenUpdate.Update (env w s.context s.feeds) (enc s) 'j'.toNat = .ok g') :
    ∃ s' page', g' = enc s' ∧ History.current s'.hist = .ok page' ∧
      page'.feed.index = (if Feed.contains page.feed 1 then page.feed.index + 1 else page.feed.index) ∧
      s'.hist.index = s.hist.index ∧ s'.hist.elements.length = s.hist.elements.length ∧ s'.mode = .normal := by
  rw [update_eq w s _ (notSel s (by rw [hm]; decide))] at hs
  cases hu : update w s 'j'.toNat with
  | error e => rw [hu] at hs; cases hs
  | ok s' =>
    rw [hu] at hs
    cases hs
    obtain ⟨page', h1, h2, h3, h4, h5⟩ := C07.j_moves_down w s s' page hm hp hu
    exact ⟨s', page', rfl, h1, h2, h3, h4, h5⟩

/-- `h` / `l` walk the browser history and saturate at its ends. -/
theorem h_l_walk (w : World) (s : State) (hm : s.mode = .normal) :
    GenUpdate.Update (env w s.context s.feeds) (enc s) 'h'.toNat
        = .ok (enc { s with hist := History.back s.hist }) ∧
    GenUpdate.Update (env w s.context s.feeds) (enc s) 'l'.toNat
        = .ok (enc { s with hist := History.forward s.hist }) := by
  have hn := notSel s (by rw [hm]; decide)
  rw [update_eq w s _ hn, update_eq w s _ hn, (C07.h_l_walk w s hm).1, (C07.h_l_walk w s hm).2]
  exact ⟨rfl, rfl⟩

/-- `o` on a post (or an activity about one) that has media starts the hook with the media link;
    without media nothing changes. -/
theorem o_opens_media (w : World) (s : State) (cur : Option T) (hm : s.mode = .normal)
    (hc : currentItem s = .ok cur) :
    GenUpdate.Update (env w s.context s.feeds) (enc s) 'o'.toNat =
      .ok (enc (match mediaOf w cur with
                | some x => openExternally s x.link
                | none => s)) := by
  rw [update_eq w s _ (notSel s (by rw [hm]; decide)), C07.o_opens_media w s cur hm hc]
  rfl

/-- `p` and `b` open the highlighted actor's picture / banner, and only an actor's. -/
theorem p_b_open_pictures (w : World) (s : State) (cur : Option T) (hm : s.mode = .normal)
    (hc : currentItem s = .ok cur) (k : Nat) (hk : k = 'p'.toNat ∨ k = 'b'.toNat) :
    GenUpdate.Update (env w s.context s.feeds) (enc s) k =
      .ok (enc (match pictureOf w (k = 'b'.toNat) cur with
                | some x => openExternally s x.link
                | none => s)) := by
  rw [update_eq w s _ (notSel s (by rw [hm]; decide)), C07.p_b_open_pictures w s cur hm hc k hk]
  rfl

/-- No key crashes the translated `Update` on the encoding of a state that satisfies the model's
    invariant, and the result is again such an encoding. -/
theorem update_no_panic (w : World) (s : State) (k : Nat) (h : Inv s) :
    ∃ s', GenUpdate.Update (env w s.context s.feeds) (enc s) k = .ok (enc s') ∧ Inv s' := by
  obtain ⟨s', e, i⟩ := C07.update_no_panic w s k h
  exact ⟨s', by rw [update_eq w s k h.2.2, e]; rfl, i⟩

/-- Not vacuous: a state in normal mode, the key `7`: the translated `Update` ends in selection
    mode with `7` in the buffer (the numbers are the source's: mode 1 → mode 3). -/
example (w : World) :
    GenUpdate.Update (env w 0 []) (enc { mode := .normal, context := 0 }) 55
      = .ok ⟨encH {}, GenUpdate.selection, ['7']⟩ :=
  digit_selects w { mode := .normal, context := 0 } 55 rfl (by decide)

end GenT07
