import Model.Ui
import Generated.GoView
import Props.Gen16
import Props.Gen18
import Proofs.Gen16v

/-
  The tie by translation for C16, above the layout functions: `(*State).view` of ui/ui.go — the
  function that builds every frame — is translated from the source on every run
  (`extract/go2lean12.go` → `Generated/GoView.lean`, namespace `GenView`).  The theorems below say
  the translated code computes what the hand-written model says a frame is: `Ui.frame` applied to
  the three parts `Ui.viewParts` computes (the walk over the feed from `first` to `last`, the two
  `Loading…` lines, one trailing newline trimmed) and to the footer `Ui.footerOf` gives the mode.

  * `view_eqT`: equality with no side condition at all, `CenterVertically` still the translated
    one (`frameT`): every mode among the six declared, every history (empty: the panic of
    `Current()`), every feed (a nil item inside the bounds: the nil dereference), every context.
  * `view_eq`: with the sizes a Go string can have (`Props/Gen16.lean` needs them for
    `CenterVertically`), equality with `Ui.viewOf`, i.e. with `Ui.frame`.
  * `view_is_centered`: a frame is `Ansi.centerVertically … height` followed by at most one
    `ReplaceLastLine`.
  * `view_state_eq`: the same from the model's side — the translated `view` of the translated
    state of a model state (`genState`) is `Ui.view`.

  A translated state is any value of `GenView.State`; what the model needs of it is read off by
  `curOf` / `pageView` (the feed's four fields are the model feed's four fields) and `modeNum`.
  The items are the translated `Tangible`s: two arbitrary functions `Int → Str`.
-/

namespace Gen16v
open Ui

/-- The modes as the `const` block numbers them. -/
def modeNum : Mode → Int
  | .loading => GenView.loading
  | .normal => GenView.normal
  | .command => GenView.command
  | .selection => GenView.selection
  | .opening => GenView.opening
  | .problem => GenView.problem

/-- What a translated item renders to. -/
def tangible : Render GenView.Tangible := ⟨fun t => t.String, fun t => t.Preview⟩

/-- What `view` reads of a translated page, in the model's vocabulary. -/
def pageView (p : GenView.Page) : PageView GenView.Tangible :=
  ⟨⟨p.feed.feed, p.feed.upperBound, p.feed.lowerBound, p.feed.index⟩, p.loadingUp, p.loadingDown⟩

/-- `Ui.frame` with the translated `CenterVertically` in place of the model's. -/
def frameT (c : Colors) (top center bottom : Str) (footer : Option Str) (width : Int) (height : Nat) :
    Except Panic Str :=
  match GenAnsi.CenterVertically top center bottom height with
  | .error e => .error e
  | .ok out =>
    match footer with
    | none => .ok out
    | some f =>
      match Ansi.setLength f width ['…'] with
      | .error e => .error e
      | .ok t => Ansi.replaceLastLine out (Style.highlight c t)

/-- `Ui.footerOf` of a mode and a buffer. -/
def footerFor (m : Mode) (buffer : Str) : Option Str := footerOf { mode := m, buffer := buffer, context := 0 }

/-- Outside loading mode, with a current page: the three loops are the model's walk, the rest is
    `frameT`. -/
theorem view_walk (c : Colors) (ctx : Int) (g : GenView.State) (p : GenView.Page) (m : Mode)
    (hcur : GenHistory.Current g.h = .ok p) (hm : g.mode = modeNum m) (hl : m ≠ .loading) :
    GenView.view c ctx g =
      match parts c tangible (pageView p) ctx g.width with
      | .error e => .error e
      | .ok v => frameT c v.1 v.2.1 v.2.2 (footerFor m g.buffer) g.width (Go.toUint g.height) := by
  obtain ⟨⟨fd, ub, lb, ix⟩, up, down⟩ := p
  have hm' : g.mode ≠ GenView.loading := by
    rw [hm]; cases m <;> first | exact absurd rfl hl | decide
  have hc1 : ∀ o, GenFeed.Contains (⟨fd, ub, lb, ix⟩ : GenFeed.Feed GenView.Tangible) o
      = .ok (Feed.contains (⟨fd, ub, lb, ix⟩ : Feed.F GenView.Tangible) o) := fun _ => rfl
  unfold GenView.view
  simp only [hm', decide_false, Bool.false_eq_true, if_false, hcur, bind, Except.bind, budget_up, budget_down]
  rw [up_loop (⟨fd, ub, lb, ix⟩ : Feed.F GenView.Tangible) ctx _ ?_ ctx.toNat 0 (by omega)]
  rw [down_loop (⟨fd, ub, lb, ix⟩ : Feed.F GenView.Tangible) ctx _ ?_ ctx.toNat 0 (by omega)]
  simp only [countUp_eq_offsets]
  rw [parts_loop tangible (⟨fd, ub, lb, ix⟩ : Feed.F GenView.Tangible) g.width _ ?_]
  · simp only [parts, pageView]
    cases hfp : foldParts tangible (⟨fd, ub, lb, ix⟩ : Feed.F GenView.Tangible) g.width
        (offsets (walkUp ⟨fd, ub, lb, ix⟩ ctx.toNat 0) (walkDown ⟨fd, ub, lb, ix⟩ ctx.toNat 0)) ([], [], []) with
    | error e => simp only [Gen16.str_empty, hfp]
    | ok v =>
      obtain ⟨t, ce, b⟩ := v
      simp only [Gen16.str_empty, hfp]
      simp only [hc1, hm]
      cases m <;> first
        | exact absurd rfl hl
        | (cases up <;> cases down <;> by_cases hb : g.buffer = [] <;>
            rcases Bool.eq_false_or_eq_true (Feed.contains (⟨fd, ub, lb, ix⟩ : Feed.F GenView.Tangible) (-ctx - 1)) with h1 | h1 <;>
            rcases Bool.eq_false_or_eq_true (Feed.contains (⟨fd, ub, lb, ix⟩ : Feed.F GenView.Tangible) (ctx + 1)) with h2 | h2 <;>
            simp [h1, h2, hb, Go.land, modeNum, GenView.normal, GenView.selection, GenView.command, GenView.opening,
              GenView.problem, frameT, footerFor, footerOf, Gen16.setLength_eq,
              Gen16.replaceLastLine_eq, Go.str, Go.Strings.trimSuffix, pure, Except.pure] <;>
            (generalize GenAnsi.CenterVertically _ _ _ _ = cv
             cases cv <;> first
               | rfl
               | (dsimp only
                  generalize Ansi.setLength _ _ _ = sl
                  cases sl <;> first
                    | rfl
                    | (dsimp only
                       generalize Ansi.replaceLastLine _ _ = rl
                       cases rl <;> rfl))))
  · intro i a
    obtain ⟨t, ce, b⟩ := a
    have hp : GenFeed.IsParent (⟨fd, ub, lb, ix⟩ : GenFeed.Feed GenView.Tangible) i
        = .ok (Feed.isParent (⟨fd, ub, lb, ix⟩ : Feed.F GenView.Tangible) i) := rfl
    have hch : GenFeed.IsChild (⟨fd, ub, lb, ix⟩ : GenFeed.Feed GenView.Tangible) i
        = .ok (Feed.isChild (⟨fd, ub, lb, ix⟩ : Feed.F GenView.Tangible) i) := rfl
    have hget : GenFeed.Get (⟨fd, ub, lb, ix⟩ : GenFeed.Feed GenView.Tangible) i
        = Feed.get (⟨fd, ub, lb, ix⟩ : Feed.F GenView.Tangible) i :=
      Gen18.get_eq (⟨fd, ub, lb, ix⟩ : Feed.F GenView.Tangible) i
    simp only [hc1, hp, hch, hget, partsStep]
    rcases Bool.eq_false_or_eq_true (Feed.contains (⟨fd, ub, lb, ix⟩ : Feed.F GenView.Tangible) i) with hc | hc
    · simp only [Feed.get, hc]
      generalize Feed.isParent (⟨fd, ub, lb, ix⟩ : Feed.F GenView.Tangible) i = pa
      generalize Feed.isChild (⟨fd, ub, lb, ix⟩ : Feed.F GenView.Tangible) i = ch
      cases hx : fd (ix + i) <;> cases pa <;> cases ch <;>
        by_cases h0 : i = 0 <;> by_cases hn : i < 0 <;>
        simp [h0, hn, Go.deref, tangible, Go.str, pure, Except.pure]
    · simp [hc, pure, Except.pure]
  · intro u x
    by_cases h : x < ctx <;>
      rcases Bool.eq_false_or_eq_true (Feed.contains (⟨fd, ub, lb, ix⟩ : Feed.F GenView.Tangible) (x + 1)) with hc | hc <;>
      simp [Go.land, h, hc1, hc, pure, Except.pure]
  · intro u x
    by_cases h : x > -ctx <;>
      rcases Bool.eq_false_or_eq_true (Feed.contains (⟨fd, ub, lb, ix⟩ : Feed.F GenView.Tangible) (x - 1)) with hc | hc <;>
      simp [Go.land, h, hc1, hc, pure, Except.pure]

/-- Outside loading mode, an empty history: `Current()` panics whatever the context is (for a
    context ≤ 0 the two scanning loops are skipped and the walk's first `Contains` is reached). -/
theorem view_nopage (c : Colors) (ctx : Int) (g : GenView.State) (e : Panic)
    (hcur : GenHistory.Current g.h = .error e) (hm : g.mode ≠ GenView.loading) :
    GenView.view c ctx g = .error e := by
  unfold GenView.view
  simp only [hm, decide_false, Bool.false_eq_true, if_false, hcur, bind, Except.bind, budget_up, budget_down]
  cases hn : ctx.toNat with
  | zero =>
    have h01 : Go.countUp 0 (0 + 1) = [0] := rfl
    simp only [List.replicate_zero, List.forIn_nil, pure, Except.pure, h01]
    rw [forIn_error _ e _ _ _ rfl]
  | succ n =>
    have hpos : (0 : Int) > -ctx := by omega
    have hpos' : (0 : Int) < ctx := by omega
    simp only [List.replicate_succ]
    rw [forIn_error _ e _ _ _ (by simp [Go.land, hpos'])]

/-- What `view` reads of the current page of a translated state (`Current()` panics on an empty
    history). -/
def curOf (g : GenView.State) : Except Panic (PageView GenView.Tangible) :=
  match GenHistory.Current g.h with
  | .error e => .error e
  | .ok p => .ok (pageView p)

/-- In loading mode the history is not looked at. -/
theorem view_loading (c : Colors) (ctx : Int) (g : GenView.State) (hm : g.mode = GenView.loading) :
    GenView.view c ctx g
      = GenAnsi.CenterVertically [] (Style.color c "  Loading…".toList) [] (Go.toUint g.height) := by
  have hd : decide (g.mode = GenView.loading) = true := by simp [hm]
  unfold GenView.view
  simp only [hd, if_true, bind, Except.bind, pure, Except.pure]
  rfl

/-- The translated `view` is the model's, up to the translated `CenterVertically` (no bound on
    sizes needed yet): every mode, every history, every feed, every pair of flags. -/
theorem view_eqT (c : Colors) (ctx : Int) (g : GenView.State) (m : Mode) (hm : g.mode = modeNum m) :
    GenView.view c ctx g =
      match viewParts c tangible m (curOf g) ctx g.width with
      | .error e => .error e
      | .ok v => frameT c v.1 v.2.1 v.2.2 (footerFor m g.buffer) g.width (Go.toUint g.height) := by
  by_cases hl : m = .loading
  · subst hl
    rw [view_loading c ctx g hm]
    simp only [viewParts, if_true, frameT, footerFor, footerOf]
    cases GenAnsi.CenterVertically [] (Style.color c "  Loading…".toList) [] (Go.toUint g.height) <;> rfl
  · have hm' : g.mode ≠ GenView.loading := by
      rw [hm]; cases m <;> first | exact absurd rfl hl | decide
    simp only [viewParts, hl, if_false, curOf]
    cases hcur : GenHistory.Current g.h with
    | error e => exact view_nopage c ctx g e hcur hm'
    | ok p => exact view_walk c ctx g p m hcur hm hl

theorem toUint_small (h : Int) (h0 : 0 ≤ h) (h62 : h < 2 ^ 62) :
    Go.toUint h = h.toNat ∧ h.toNat < 2 ^ 62 := by
  have e62 : (2 : Int) ^ 62 = 4611686018427387904 := by decide
  unfold Go.toUint
  rw [Gen16.two64i]
  rw [e62] at h62
  rw [Gen16.two62]
  omega

/-- With sizes a Go string can have, `frameT` is the model's `frame`. -/
theorem frameT_eq (c : Colors) (t ce b : Str) (footer : Option Str) (width : Int) (h : Nat)
    (ht : t.length < 2 ^ 62) (hce : ce.length < 2 ^ 62) (hb : b.length < 2 ^ 62) (hh : h < 2 ^ 62) :
    frameT c t ce b footer width h = frame c t ce b footer width h := by
  simp only [frameT, frame, Gen16.centerVertically_eq t ce b h ht hce hb hh]
  cases footer with
  | none => rfl
  | some f => cases Ansi.setLength f width ['…'] <;> rfl

/-- **The translated `view` is the model's `viewOf`**: `Ui.frame` applied to the three parts the
    model computes (`Ui.viewParts`), with the footer `Ui.footerOf` gives the mode — for every
    translated state whose mode is one of the six declared ones, every context, provided the
    height is a terminal height (0 ≤ height < 2^62) and the three parts are shorter than 2^62
    characters (a Go string cannot be longer). -/
theorem view_eq (c : Colors) (ctx : Int) (g : GenView.State) (m : Mode) (hm : g.mode = modeNum m)
    (h0 : 0 ≤ g.height) (h62 : g.height < 2 ^ 62)
    (hsz : ∀ t ce b, viewParts c tangible m (curOf g) ctx g.width = .ok (t, ce, b) →
      t.length < 2 ^ 62 ∧ ce.length < 2 ^ 62 ∧ b.length < 2 ^ 62) :
    GenView.view c ctx g = viewOf c tangible m (footerFor m g.buffer) (curOf g) ctx g.width g.height := by
  rw [view_eqT c ctx g m hm]
  unfold viewOf
  cases hp : viewParts c tangible m (curOf g) ctx g.width with
  | error e => rfl
  | ok v =>
    obtain ⟨t, ce, b⟩ := v
    obtain ⟨ht, hce, hb⟩ := hsz t ce b hp
    obtain ⟨_, hh⟩ := toUint_small g.height h0 h62
    exact frameT_eq c t ce b _ g.width _ ht hce hb (by rw [(toUint_small g.height h0 h62).1]; exact hh)

/-- In particular: a frame is `Ansi.centerVertically top center bottom height`, followed by at most
    one `ReplaceLastLine` (or the panic the model predicts). -/
theorem view_is_centered (c : Colors) (ctx : Int) (g : GenView.State) (m : Mode) (hm : g.mode = modeNum m)
    (h0 : 0 ≤ g.height) (h62 : g.height < 2 ^ 62)
    (hsz : ∀ t ce b, viewParts c tangible m (curOf g) ctx g.width = .ok (t, ce, b) →
      t.length < 2 ^ 62 ∧ ce.length < 2 ^ 62 ∧ b.length < 2 ^ 62) :
    (∃ e, GenView.view c ctx g = .error e) ∨
    ∃ t ce b, viewParts c tangible m (curOf g) ctx g.width = .ok (t, ce, b) ∧
      (GenView.view c ctx g = .ok (Ansi.centerVertically t ce b g.height.toNat) ∨
       ∃ line, GenView.view c ctx g
         = Ansi.replaceLastLine (Ansi.centerVertically t ce b g.height.toNat) line) := by
  rw [view_eq c ctx g m hm h0 h62 hsz]
  unfold viewOf
  cases hp : viewParts c tangible m (curOf g) ctx g.width with
  | error e => exact .inl ⟨e, rfl⟩
  | ok v =>
    obtain ⟨t, ce, b⟩ := v
    rw [(toUint_small g.height h0 h62).1]
    cases hf : footerFor m g.buffer with
    | none => exact .inr ⟨t, ce, b, rfl, .inl (by simp only [frame])⟩
    | some f =>
      cases hs : Ansi.setLength f g.width ['…'] with
      | error e => exact .inl ⟨e, by simp only [frame, hs]⟩
      | ok line => exact .inr ⟨t, ce, b, rfl, .inr ⟨Style.highlight c line, by simp only [frame, hs]⟩⟩

/-- Every translated state whose mode is a declared one is covered by `view_eq`: the mode numbers
    are exactly 0 … 5. -/
theorem modeNum_surjective (k : Int) (h0 : 0 ≤ k) (h5 : k ≤ 5) : ∃ m, k = modeNum m := by
  have : k = 0 ∨ k = 1 ∨ k = 2 ∨ k = 3 ∨ k = 4 ∨ k = 5 := by omega
  rcases this with h | h | h | h | h | h <;> subst h
  · exact ⟨.loading, rfl⟩
  · exact ⟨.normal, rfl⟩
  · exact ⟨.command, rfl⟩
  · exact ⟨.selection, rfl⟩
  · exact ⟨.opening, rfl⟩
  · exact ⟨.problem, rfl⟩

/-! ### The model's states

  The same equality read from the model's side: a state of `Model/Ui.lean` (`Ui.State`, items are
  `Pub.Item`s), a renderer for its items, the two loading flags and a terminal size determine a
  translated state (`genState`); the translated `view` of it is the model's `Ui.view`. -/

variable {α : Type}

/-- A model feed with each item replaced by what it renders to. -/
def renderFeed (r : Render α) (f : Feed.F α) : Feed.F GenView.Tangible :=
  ⟨fun i => (f.feed i).map fun x => ⟨r.preview x, r.string x⟩, f.upper, f.lower, f.index⟩

theorem walkUp_render (r : Render α) (f : Feed.F α) (n : Nat) (x : Int) :
    walkUp (renderFeed r f) n x = walkUp f n x := by
  induction n generalizing x with
  | zero => rfl
  | succ n ih =>
    simp only [walkUp]
    rw [show Feed.contains (renderFeed r f) (x - 1) = Feed.contains f (x - 1) from rfl, ih]

theorem walkDown_render (r : Render α) (f : Feed.F α) (n : Nat) (x : Int) :
    walkDown (renderFeed r f) n x = walkDown f n x := by
  induction n generalizing x with
  | zero => rfl
  | succ n ih =>
    simp only [walkDown]
    rw [show Feed.contains (renderFeed r f) (x + 1) = Feed.contains f (x + 1) from rfl, ih]

theorem partsStep_render (r : Render α) (f : Feed.F α) (w : Int) (acc : Str × Str × Str) (i : Int) :
    partsStep tangible (renderFeed r f) w acc i = partsStep r f w acc i := by
  have hc : Feed.contains (renderFeed r f) i = Feed.contains f i := rfl
  have hp : Feed.isParent (renderFeed r f) i = Feed.isParent f i := rfl
  have hch : Feed.isChild (renderFeed r f) i = Feed.isChild f i := rfl
  simp only [partsStep, hc, hp, hch, Feed.get]
  rcases Bool.eq_false_or_eq_true (Feed.contains f i) with h | h
  · simp only [h, Bool.not_true, Bool.false_eq_true, if_false]
    have hfeed : (renderFeed r f).feed ((renderFeed r f).index + i)
        = (f.feed (f.index + i)).map fun x => (⟨r.preview x, r.string x⟩ : GenView.Tangible) := rfl
    rw [hfeed]
    cases f.feed (f.index + i) <;> rfl
  · simp only [h, Bool.not_false, if_true]

theorem foldParts_render (r : Render α) (f : Feed.F α) (w : Int) (L : List Int) (acc : Str × Str × Str) :
    foldParts tangible (renderFeed r f) w L acc = foldParts r f w L acc := by
  induction L generalizing acc with
  | nil => rfl
  | cons i is ih =>
    simp only [foldParts, partsStep_render]
    cases partsStep r f w acc i with
    | error e => rfl
    | ok a => exact ih a

theorem parts_render (c : Colors) (r : Render α) (f : Feed.F α) (up down : Bool) (ctx w : Int) :
    parts c tangible ⟨renderFeed r f, up, down⟩ ctx w = parts c r ⟨f, up, down⟩ ctx w := by
  simp only [parts, walkUp_render, walkDown_render, foldParts_render]
  rfl

/-- The translated page of a model page. -/
def genPage (r : Render T) (up down : Bool) (p : Ui.Page) : GenView.Page :=
  ⟨Gen18.toGenF (renderFeed r p.feed), up, down⟩

/-- The translated state of a model state on a `width` × `height` terminal. -/
def genState (r : Render T) (s : Ui.State) (up down : Bool) (width height : Int) : GenView.State :=
  { h := ⟨s.hist.elements.map (genPage r up down), s.hist.index⟩, width := width, height := height,
    mode := modeNum s.mode, buffer := s.buffer }

theorem curOf_genState (r : Render T) (s : Ui.State) (up down : Bool) (width height : Int) :
    curOf (genState r s up down width height) =
      match History.current s.hist with
      | .error e => .error e
      | .ok page => .ok ⟨renderFeed r page.feed, up, down⟩ := by
  simp only [curOf, genState, GenHistory.Current, Gen18.index_natCast, History.current, List.getElem?_map]
  cases s.hist.elements[s.hist.index]? <;> rfl

theorem viewParts_genState (c : Colors) (r : Render T) (s : Ui.State) (up down : Bool) (width height : Int) :
    viewParts c tangible s.mode (curOf (genState r s up down width height)) s.context width =
      viewParts c r s.mode
        (match History.current s.hist with
         | .error e => .error e
         | .ok page => .ok ⟨page.feed, up, down⟩) s.context width := by
  rw [curOf_genState]
  unfold viewParts
  cases History.current s.hist with
  | error e => rfl
  | ok page => simp only [parts_render]

/-- **The translated `view` of a model state is the model's `Ui.view`** (`Ui.frame` applied to
    `Ui.viewParts` and `Ui.footerOf`), for every state of the model, every renderer of its items,
    both loading flags, every width and every terminal height below 2^62 — the parts shorter than a
    Go string can be. -/
theorem view_state_eq (c : Colors) (r : Render T) (s : Ui.State) (up down : Bool) (width height : Int)
    (h0 : 0 ≤ height) (h62 : height < 2 ^ 62)
    (hsz : ∀ t ce b, viewParts c r s.mode
        (match History.current s.hist with
         | .error e => .error e
         | .ok page => .ok ⟨page.feed, up, down⟩) s.context width = .ok (t, ce, b) →
      t.length < 2 ^ 62 ∧ ce.length < 2 ^ 62 ∧ b.length < 2 ^ 62) :
    GenView.view c s.context (genState r s up down width height) = Ui.view c r s up down width height := by
  have hv := viewParts_genState c r s up down width height
  rw [view_eq c s.context (genState r s up down width height) s.mode rfl h0 h62
    (by intro t ce b h; exact hsz t ce b (by rw [← hv]; exact h))]
  unfold Ui.view viewOf
  show (match viewParts c tangible s.mode (curOf (genState r s up down width height)) s.context width with
    | .error e => (Except.error e : Except Panic Str)
    | .ok (top, center, bottom) => frame c top center bottom (footerOf s) width (Go.toUint height)) = _
  rw [hv]
  generalize viewParts c r s.mode _ _ _ = vp
  cases vp with
  | error e => rfl
  | ok v => obtain ⟨t, ce, b⟩ := v; rfl

end Gen16v
