import Model.Style
import Generated.GoStyle
import Proofs.Gen14

/-
  The tie by translation for C14 (and C01, C12 through the labels): every function of
  style/style.go except `Problem` (an `error` argument) and `superscript` (a closure over
  `strings.Map`; it is the model's `Style.superscript`, compared differentially) is translated
  from the source on every run (`Generated/GoStyle.lean`, namespace `GenStyle`, the processed
  colours of the configuration as the parameter `c`); the theorems below say the generated code
  computes what the hand-written model (`Model/Style.lean`) computes.
-/

namespace Gen14
open Style

theorem background_eq (c : Colors) (t rgb : Str) : GenStyle.background c t rgb = .ok (background t rgb) := by
  rfl
theorem foreground_eq (c : Colors) (t rgb : Str) : GenStyle.foreground c t rgb = .ok (foreground t rgb) := by
  rfl
theorem bold_eq (c : Colors) (t : Str) : GenStyle.Bold c t = .ok (bold t) := by
  rfl
theorem strikethrough_eq (c : Colors) (t : Str) : GenStyle.Strikethrough c t = .ok (strikethrough t) := by
  rfl
theorem underline_eq (c : Colors) (t : Str) : GenStyle.Underline c t = .ok (underline t) := by
  rfl
theorem italic_eq (c : Colors) (t : Str) : GenStyle.Italic c t = .ok (italic t) := by
  rfl
theorem code_eq (c : Colors) (t : Str) : GenStyle.Code c t = .ok (code c t) := by
  simp only [GenStyle.Code, background_eq]
  rfl
theorem highlight_eq (c : Colors) (t : Str) : GenStyle.Highlight c t = .ok (highlight c t) := by
  simp only [GenStyle.Highlight, background_eq]
  rfl
theorem color_eq (c : Colors) (t : Str) : GenStyle.Color c t = .ok (color c t) := by
  simp only [GenStyle.Color, foreground_eq]
  rfl
theorem red_eq (c : Colors) (t : Str) : GenStyle.Red c t = .ok (red c t) := by
  simp only [GenStyle.Red, foreground_eq]
  rfl
theorem link_eq (c : Colors) (t : Str) (n : Nat) : GenStyle.Link c t (n : Int) = .ok (link c t n) := by
  simp only [GenStyle.Link, underline_eq, color_eq, superscriptInt_nat, bind_ok]
  rfl
theorem codeBlock_eq (c : Colors) (t : Str) : GenStyle.CodeBlock c t = .ok (codeBlock c t) := by
  simp only [GenStyle.CodeBlock, code_eq]
  rfl
theorem quoteBlock_eq (c : Colors) (t : Str) : GenStyle.QuoteBlock c t = .ok (quoteBlock c t) := by
  simp only [GenStyle.QuoteBlock, color_eq, str_bar]
  rfl
theorem linkBlock_eq (c : Colors) (t : Str) (n : Nat) : GenStyle.LinkBlock c t (n : Int) = .ok (linkBlock c t n) := by
  simp only [GenStyle.LinkBlock, link_eq, str_two_sp, str_tri, bind_ok]
  rfl
theorem header_eq (c : Colors) (t : Str) (level : Nat) (hl : level < 2 ^ 62) :
    GenStyle.Header c t level = .ok (header c t level) := by
  have h1 : level + 1 < 2 ^ 63 := by rw [Gen16.two62] at hl; rw [Gen16.two63]; omega
  have h0 : level < 2 ^ 63 := by omega
  simp only [GenStyle.Header, Gen16.str_sp, str_diamond, Gen16.repeat_toInt ' ' (level + 1) h1,
    Gen16.repeat_toInt '⯁' level h0, bold_eq, color_eq, bind_ok, Style.header, List.append_assoc,
    List.cons_append, List.nil_append]
theorem bullet_eq (c : Colors) (t : Str) : GenStyle.Bullet c t = .ok (bullet t) := by
  rfl

end Gen14
