import Model
import Proofs.Cells

/-
  Layer-B facts about canonical styled text (DESIGN.md §5.0), shared by C01, C13, C14, C15.
  Statements only; helper lemmas live in Proofs/Cells.lean.
-/

namespace CellsProps
open Str Ansi Cells

/-- Key lemma: the regex scanner run on the rendering of well-formed cells returns exactly
    those cells. -/
theorem expand_render (cs : List Cell) (h : ∀ c ∈ cs, c.ok = true) :
    expand (render cs) = cs.map Cell.raw := by
  exact Cells.expand_render cs h

/-- Rendering distributes over append. -/
theorem render_append (a b : List Cell) : render (a ++ b) = render a ++ render b := by
  exact Cells.render_append a b

/-- `Apply` on canonical text adds the attribute in front of every non-newline cell. -/
theorem apply_render (cs : List Cell) (h : ∀ c ∈ cs, c.ok = true) (a : Str) :
    apply (render cs) a = render (cs.map (addAttr a)) := by
  exact Cells.apply_render cs h a

/-- … and the result is again well-formed when the attribute is. -/
theorem addAttr_ok (c : Cell) (a : Str) (hc : c.ok = true) (ha : sgrOk a = true) :
    (addAttr a c).ok = true := by
  exact Cells.addAttr_ok c a hc ha

/-- The terminal displays each cell's character with exactly the cell's attributes and is
    neutral after every cell, in particular at every line break and at the end. -/
theorem term_render (cs : List Cell) (h : ∀ c ∈ cs, c.ok = true) :
    term (render cs) = (cs.map fun c => (c.ch, c.attrs), []) := by
  exact Cells.term_render cs h

/-- Hence canonical text never leaves an attribute active across a line break or at the end. -/
theorem canon_neutral (s : Str) (h : Canon s) : neutralAtBreaks s = true := by
  exact Cells.canon_neutral s h

/-- Canonical text is closed under concatenation. -/
theorem canon_append (s t : Str) (hs : Canon s) (ht : Canon t) : Canon (s ++ t) := by
  exact Cells.canon_append s t hs ht

/-- Plain ESC-free text is canonical. -/
theorem canon_plain (s : Str) (h : ESC ∉ s) : Canon s := by
  exact Cells.canon_plain s h

/-- Splitting canonical text at line breaks gives canonical lines (so any output can be cut at
    line boundaries). -/
theorem canon_splitNL (s : Str) (h : Canon s) : ∀ l ∈ splitNL s, Canon l := by
  exact Cells.canon_splitNL s h

/-- … and joining canonical lines gives canonical text. -/
theorem canon_joinNL (ls : List Str) (h : ∀ l ∈ ls, Canon l) : Canon (joinNL ls) := by
  exact Cells.canon_joinNL ls h

/-- `Indent` with a plain ESC-free prefix maps canonical text to canonical text whose cells are
    the original ones plus the inserted prefix cells. -/
theorem indent_render (cs : List Cell) (h : ∀ c ∈ cs, c.ok = true) (pfx : Str) (hp : ESC ∉ pfx ∧ '\n' ∉ pfx)
    (first : Bool) :
    indent (render cs) pfx first =
      render ((if first then plain pfx else []) ++
        (cs.map fun c => if c.ch = '\n' then c :: plain pfx else [c]).flatten) := by
  exact Cells.indent_render cs h pfx first

/-- Non-vacuity: bold "ab" is canonical and is displayed bold. -/
example : term (Style.bold "ab".toList) = ([('a', [['1']]), ('b', [['1']])], []) := by decide

end CellsProps
