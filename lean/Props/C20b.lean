import Model.Link
import Proofs.Link

/-
  Property theorems about link selection (`pub/link.go`, the link helpers of `pub/common.go`,
  `Post.Media`, `Post.SelectLink`, `Actor.ProfilePic/Banner/SelectLink`): which (link, media
  type) pair reaches `ui.openExternally` (C20: "the full media type, its supertype or its
  subtype" are those of the link being opened; C12: number k opens target k).
-/

namespace C20b
open Link Obj

/-- A link with a media type of its own is opened with exactly that type. -/
theorem select_own_type (l : T) (d m : Mime.MediaType) (u : Str)
    (hu : l.uri = .ok u) (hm : l.mediaType = .ok m) :
    selectWithDefault l d = some ⟨u, m⟩ := by
  simp only [selectWithDefault, hu, hm]

/-- A link without a usable media type is opened with the default of its own kind (`image/*`,
    `audio/*`, `video/*`), else with the caller's default. Nothing else can be handed on. -/
theorem select_default_type (l : T) (d : Mime.MediaType) (u : Str) (e : Err)
    (hu : l.uri = .ok u) (hm : l.mediaType = .error e) :
    selectWithDefault l d =
      some ⟨u, if isMediaKind l.kind then Mime.unknownSubtype (lower l.kind) else d⟩ := by
  simp only [selectWithDefault, hu, hm]
  by_cases hk : isMediaKind l.kind = true
  · rw [if_pos hk, if_pos hk]
  · rw [if_neg hk, if_neg hk]

/-- Only a link without a usable URL cannot be opened. -/
theorem select_none_iff (l : T) (d : Mime.MediaType) :
    selectWithDefault l d = none ↔ ∃ e, l.uri = .error e := by
  unfold selectWithDefault
  cases hu : l.uri with
  | error e => simp
  | ok u =>
    cases hm : l.mediaType with
    | ok m => simp
    | error e =>
      by_cases hk : isMediaKind l.kind = true
      · simp [hk]
      · simp [hk]

/-- The link is handed on verbatim (the `String()` of the parsed URL). -/
theorem select_link (l : T) (d : Mime.MediaType) (s : Sel) (h : selectWithDefault l d = some s) :
    l.uri = .ok s.link := by
  exact (selectWithDefault_inv h).1

/-- `SelectBestLink` returns one of the candidates. -/
theorem selectBest_mem (ls : List T) (sup : Str) (l : T) (h : selectBest ls sup = .ok l) : l ∈ ls := by
  obtain ⟨l0, rest, rfl, hl⟩ := selectBest_inv h
  rcases bestLoop_mem hl with rfl | hin
  · exact List.mem_cons_self ..
  · exact List.mem_cons_of_mem _ hin

/-- A candidate of the wanted supertype is never passed over for one of another type. -/
theorem selectBest_prefers_match (ls : List T) (sup : Str) (l l' : T)
    (h : selectBest ls sup = .ok l) (hl' : l' ∈ ls) (hm' : supertypeMatches l' sup = .ok true) :
    supertypeMatches l sup = .ok true := by
  obtain ⟨l0, rest, rfl, hl⟩ := selectBest_inv h
  exact bestLoop_match hl l' (List.mem_cons.mp hl') hm'

/-- Among the candidates of the same standing (matching or not), the one chosen has the largest
    rating. -/
theorem selectBest_rating_max (ls : List T) (sup : Str) (l l' : T) (r r' : Nat)
    (h : selectBest ls sup = .ok l) (hl' : l' ∈ ls)
    (hs : supertypeMatches l' sup = supertypeMatches l sup)
    (hr : rating l = .ok r) (hr' : rating l' = .ok r') : r' ≤ r := by
  obtain ⟨l0, rest, rfl, hl⟩ := selectBest_inv h
  exact bestLoop_rating hl r hr l' (List.mem_cons.mp hl') hs r' hr'

/-- `Post.SelectLink(k)` for a body link: the k-th body link, with the unknown media type. -/
theorem postSelect_body {Time : Type} (L : Libs Time Url) (bodyLinks : List Str) (o : List (Str × JVal))
    (n : Int) (l : Str) (h1 : 1 ≤ n) (hl : bodyLinks[(n - 1).toNat]? = some l) :
    postSelect L bodyLinks o n = some ⟨l, Mime.unknown⟩ := by
  have hi : ¬ (n - 1 < 0) := by omega
  simp only [postSelect, Select.post, if_neg hi, hl]

/-- `Post.SelectLink(|body| + k + 1)` opens attachment k, with that attachment's own selection. -/
theorem postSelect_attachment {Time : Type} (L : Libs Time Url) (bodyLinks : List Str) (o : List (Str × JVal))
    (atts : List T) (k : Nat) (a : T)
    (ha : links L o "attachment".toList = .ok atts) (hk : atts[k]? = some a) :
    postSelect L bodyLinks o ((bodyLinks.length + k + 1 : Nat) : Int) = select a := by
  have hi : ¬ (((bodyLinks.length + k + 1 : Nat) : Int) - 1 < 0) := by omega
  have hn : (((bodyLinks.length + k + 1 : Nat) : Int) - 1).toNat = bodyLinks.length + k := by omega
  have hb : bodyLinks[bodyLinks.length + k]? = none := by
    rw [List.getElem?_eq_none_iff]; omega
  have hk' : atts[bodyLinks.length + k - bodyLinks.length]? = some a := by
    rw [Nat.add_sub_cancel_left]; exact hk
  simp only [postSelect, Select.post, ha, if_neg hi, hn, hb, hk']

/-- Numbers outside 1..N open nothing. -/
theorem postSelect_out_of_range {Time : Type} (L : Libs Time Url) (bodyLinks : List Str) (o : List (Str × JVal))
    (atts : List T) (n : Int) (ha : links L o "attachment".toList = .ok atts)
    (h : n < 1 ∨ n > bodyLinks.length + atts.length) :
    postSelect L bodyLinks o n = none := by
  simp only [postSelect, Select.post, ha]
  by_cases hi : n - 1 < 0
  · simp only [if_pos hi]
  · have h2 : n > bodyLinks.length + atts.length := by omega
    have hb : bodyLinks[(n - 1).toNat]? = none := by
      rw [List.getElem?_eq_none_iff]; omega
    have hk : atts[(n - 1).toNat - bodyLinks.length]? = none := by
      rw [List.getElem?_eq_none_iff]; omega
    simp only [if_neg hi, hb, hk]

/-- Attachments that failed to load contribute no numbers. -/
theorem postSelect_no_attachments {Time : Type} (L : Libs Time Url) (bodyLinks : List Str) (o : List (Str × JVal))
    (e : Err) (n : Int) (ha : links L o "attachment".toList = .error e)
    (h : n < 1 ∨ n > bodyLinks.length) :
    postSelect L bodyLinks o n = none := by
  simp only [postSelect, Select.post, ha]
  by_cases hi : n - 1 < 0
  · simp only [if_pos hi]
  · have h2 : n > bodyLinks.length := by omega
    have hb : bodyLinks[(n - 1).toNat]? = none := by
      rw [List.getElem?_eq_none_iff]; omega
    simp only [if_neg hi, hb, List.getElem?_nil]

/-- `Actor.SelectLink(k)`: bio link k with the unknown media type, nothing outside 1..N. -/
theorem actorSelect_spec (bioLinks : List Str) (n : Int) :
    actorSelect bioLinks n =
      if n < 1 then none
      else match bioLinks[(n - 1).toNat]? with
        | some l => some ⟨l, Mime.unknown⟩
        | none => none := by
  simp only [actorSelect, Select.actor]
  by_cases hi : n - 1 < 0
  · have : n < 1 := by omega
    simp only [if_pos hi, if_pos this]
  · have : ¬ n < 1 := by omega
    simp only [if_neg hi, if_neg this]
    cases bioLinks[(n - 1).toNat]? <;> rfl

/-- What `Post.Media()` opens: the chosen `url` entry's own URL, with its own media type, or the
    default of the entry's kind, or (only then) the default of the post's kind. -/
theorem postMedia_spec {Time : Type} (L : Libs Time Url) (kind : Str) (o : List (Str × JVal)) (s : Sel)
    (h : postMedia L kind o = some s) :
    ∃ l, postMediaLink L kind o = .ok l ∧ l.uri = .ok s.link ∧
      (l.mediaType = .ok s.mt ∨
       ((∃ e, l.mediaType = .error e) ∧
        s.mt = (if isMediaKind l.kind then Mime.unknownSubtype (lower l.kind)
                else if isMediaKind kind then Mime.unknownSubtype (lower kind) else Mime.unknown))) := by
  unfold postMedia at h
  cases hl : postMediaLink L kind o with
  | error e => rw [hl] at h; simp at h
  | ok l =>
    rw [hl] at h
    simp only at h
    refine ⟨l, rfl, ?_⟩
    by_cases hk : isMediaKind kind = true
    · rw [if_pos hk] at h
      have := selectWithDefault_inv h
      rw [if_pos hk]
      exact this
    · rw [if_neg hk] at h
      have := selectWithDefault_inv (d := Mime.unknown) h
      rw [if_neg hk]
      exact this

/-- The profile picture and the banner are opened with their own type or as `image/*`. -/
theorem actorImage_spec {Time : Type} (L : Libs Time Url) (o : List (Str × JVal)) (key : Str) (s : Sel)
    (h : actorImage L o key = some s) :
    ∃ ls l, links L o key = .ok ls ∧ l ∈ ls ∧ l.uri = .ok s.link ∧
      (l.mediaType = .ok s.mt ∨
       ((∃ e, l.mediaType = .error e) ∧
        s.mt = (if isMediaKind l.kind then Mime.unknownSubtype (lower l.kind)
                else Mime.unknownSubtype "image".toList))) := by
  unfold actorImage at h
  cases hls : links L o key with
  | error e => rw [hls] at h; simp at h
  | ok ls =>
    rw [hls] at h
    simp only at h
    cases hb : selectBest ls "image".toList with
    | error e => rw [hb] at h; simp at h
    | ok l =>
      rw [hb] at h
      simp only at h
      obtain ⟨hu, hm⟩ := selectWithDefault_inv h
      exact ⟨ls, l, rfl, selectBest_mem ls _ l hb, hu, hm⟩

/-- The program is started with the configured hook, the selected link and the selected type in
    place of the placeholders (restating `Hook.build` for a selection). -/
theorem open_argv (hook : List Str) (prog : Str) (args : List Str) (s : Sel) (hh : hook = prog :: args) :
    open_ hook s = .ok { argv := prog :: args.map (Hook.substitute s.link s.mt),
                         stdin := if args.contains "%url".toList then none else some s.link } := by
  subst hh
  rfl

/-- Non-vacuity: a typed and an untyped image attachment behind two body links. -/
example :
    let L : Libs Unit Url := { parseTime := fun _ => none, parseUrl := fun s => some s }
    let o : List (Str × JVal) := [("attachment".toList, .arr [
      .obj [("type".toList, .str "Image".toList), ("url".toList, .str "https://h/a".toList),
            ("mediaType".toList, .str "image/png".toList)],
      .obj [("type".toList, .str "Image".toList), ("url".toList, .str "https://h/b".toList)]])]
    postSelect L ["x".toList, "y".toList] o 3 = some ⟨"https://h/a".toList, ⟨"image/png".toList, "image".toList, "png".toList⟩⟩ ∧
    postSelect L ["x".toList, "y".toList] o 4 = some ⟨"https://h/b".toList, Mime.unknownSubtype "image".toList⟩ ∧
    postSelect L ["x".toList, "y".toList] o 5 = none := by
  decide

end C20b
