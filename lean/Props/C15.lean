import Model
import Proofs.C15

/-
  C15 — rendered markup fits the requested width and depends only on content and width.
  Property theorems only; helper lemmas live in Proofs/C15.lean (which may import Proofs.C13).
-/

namespace C15
open Str Ansi Markup

/-- Every renderer ends with a whole-document `Wrap` followed by a trim: the result is the
    trimmed join of lines of at most `w` matches each (for every input and `w ≥ 1`). -/
def FitsShape (trimSet : Char → Bool) (w : Int) (out : Str) : Prop :=
  ∃ lines : List (List RawCell),
    (∀ l ∈ lines, (l.length : Int) ≤ w ∧ ∀ m ∈ l, m.letter ≠ '\n') ∧
    out = trim trimSet (joinNL (lines.map collapse))

theorem html_fits (c : Colors) (nodes : List Dom.Node) (w : Int) (hw : 1 ≤ w) :
    FitsShape isSpNl w (htmlR c nodes w) := by
  rw [C15P.htmlR_eq]; exact C15P.trim_wrap_shape isSpNl _ w hw

theorem gemtext_fits (c : Colors) (lines : List Str) (w : Int) (hw : 1 ≤ w) :
    FitsShape isNl w (gemR c lines w) := by
  obtain ⟨text, h⟩ := C15P.gemR_eq c lines w
  rw [h]; exact C15P.trim_wrap_shape isNl text w hw

theorem plaintext_fits (c : Colors) (text : Str) (w : Int) (hw : 1 ≤ w) :
    FitsShape isNl w (plainR c text w) := by
  obtain ⟨text', h⟩ := C15P.plainR_eq c text w
  rw [h]; exact C15P.trim_wrap_shape isNl text' w hw

/-- Trimming blanks/newlines at both ends of a join of ESC-free… no: of *any* lines whose
    collapsed text has no newline only removes whole leading/trailing lines and leading/trailing
    blanks: every line of the trimmed text is a contiguous piece (infix) of one of the lines. -/
/-
  STATEMENT CHANGED.  The statement as originally written,

    theorem trim_lines_infix (trimSet : Char → Bool) (ls : List Str) (hnl : ∀ l ∈ ls, '\n' ∉ l) :
        ∀ l' ∈ splitNL (trim trimSet (joinNL ls)), ∃ l ∈ ls, l' <:+: l ∨ l' = []

  is false for `ls = []`: the binder scopes over the whole disjunction
  (`∃ l, l ∈ ls ∧ (l' <:+: l ∨ l' = [])`), and `splitNL (trim p (joinNL [])) = [[]]`, so
  `l' = []` is a line but there is no `l ∈ []` (refuted in `trim_lines_infix_original_false`).
  The disjunct `l' = []` has to sit outside the existential; for `ls ≠ []` the original
  conclusion holds verbatim (`trim_lines_infix_of_ne`).  The hypothesis `hnl` is not needed.
-/
theorem trim_lines_infix (trimSet : Char → Bool) (ls : List Str) (_hnl : ∀ l ∈ ls, '\n' ∉ l) :
    ∀ l' ∈ splitNL (trim trimSet (joinNL ls)), (∃ l ∈ ls, l' <:+: l) ∨ l' = [] :=
  C15P.trim_lines_infix trimSet ls

/-- The original conclusion, for a non-empty list of lines. -/
theorem trim_lines_infix_of_ne (trimSet : Char → Bool) (ls : List Str) (hne : ls ≠ [])
    (_hnl : ∀ l ∈ ls, '\n' ∉ l) :
    ∀ l' ∈ splitNL (trim trimSet (joinNL ls)), ∃ l ∈ ls, l' <:+: l ∨ l' = [] :=
  C15P.trim_lines_infix_ne trimSet ls hne

/-- The original statement fails at `ls = []`. -/
theorem trim_lines_infix_original_false :
    ¬ ∀ (trimSet : Char → Bool) (ls : List Str) (_ : ∀ l ∈ ls, '\n' ∉ l),
        ∀ l' ∈ splitNL (trim trimSet (joinNL ls)), ∃ l ∈ ls, l' <:+: l ∨ l' = [] := by
  intro h
  obtain ⟨l, hl, _⟩ := h isNl [] (by simp) [] (by decide)
  simp at hl

/-- (2) The cache invariant: the cached text is the pure renderer at the cached width. -/
def Inv {Tree : Type} (R : Tree → Int → Str) (m : M Tree) : Prop := m.cached = R m.tree m.cachedWidth

theorem inv_new {Tree : Type} (R : Tree → Int → Str) (t : Tree) : Inv R (new R t) ∧ (new R t).tree = t :=
  C15P.inv_new R t

theorem inv_render {Tree : Type} (R : Tree → Int → Str) (m : M Tree) (w : Int) (h : Inv R m) :
    Inv R (render R m w).2 ∧ (render R m w).2.tree = m.tree ∧ (render R m w).1 = R m.tree w :=
  C15P.inv_render R m w h

/-- (3) Rendering depends only on content and width: after *any* sequence of widths, rendering
    at `w` gives the pure renderer's text for `w`. -/
theorem render_history_free {Tree : Type} (R : Tree → Int → Str) (t : Tree) (ws : List Int) (w : Int) :
    (render R (renderSeq R (new R t) ws).2 w).1 = R t w :=
  C15P.render_history_free R t ws w

/-- … and every output of the sequence itself is the pure renderer's. -/
theorem renderSeq_pure {Tree : Type} (R : Tree → Int → Str) (t : Tree) (ws : List Int) :
    (renderSeq R (new R t) ws).1 = ws.map (R t) :=
  C15P.renderSeq_pure R t ws

/-- Non-vacuity. -/
def demoR (t : Nat) (w : Int) : Str := [Char.ofNat (t + w.toNat)]

example : (renderSeq demoR (new demoR 60) [80, 5, 80]).1 =
    [[Char.ofNat 140], [Char.ofNat 65], [Char.ofNat 140]] := by
  decide

end C15
