import Model
namespace C15
theorem placeholder : True := trivial
end C15
